#!/usr/bin/env python3
"""b4-C19 mutant drill: one scratch worktree, one mutant at a time; package tests first, then the quick check."""
import os, sys, subprocess, json, time
WT = "/tmp/wt-b4-c19"
ST = "packages/fee-abstraction/src/storage.rs"
PL = "examples/fee-forwarder-permissionless/src/contract.rs"
PD = "examples/fee-forwarder-permissioned/src/contract.rs"
PK = {ST: "stellar-fee-abstraction", PL: "fee-forwarder-permissionless-example", PD: "fee-forwarder-permissioned-example"}
ALLPK = list(PK.values())
M = {}
M["M1-K1-relayer-is-self-needs-no-auth"] = (PL, "        relayer.require_auth();\n",
    "        // the forwarder collecting for itself needs no relayer signature\n        if relayer != e.current_contract_address() {\n            relayer.require_auth();\n        }\n")
M["M2-K1-own-address-always-allowed"] = (ST, "    let token_index_key = FeeAbstractionStorageKey::TokenIndex(token.clone());\n    if let Some(index) = e.storage().persistent().get(&token_index_key) {",
    "    if *token == e.current_contract_address() {\n        return true;\n    }\n\n    let token_index_key = FeeAbstractionStorageKey::TokenIndex(token.clone());\n    if let Some(index) = e.storage().persistent().get(&token_index_key) {")
M["M3-K1-enable-own-address-ignored"] = (ST, "    let count_key = FeeAbstractionStorageKey::Count;\n    let mut count: u32 = e.storage().instance().get(&count_key).unwrap_or(0);\n\n    let token_index_key",
    "    // the forwarder itself can never be a fee token: nothing to record\n    if *token == e.current_contract_address() {\n        return;\n    }\n    let count_key = FeeAbstractionStorageKey::Count;\n    let mut count: u32 = e.storage().instance().get(&count_key).unwrap_or(0);\n\n    let token_index_key")
M["M4-K2-fee-bound-compared-in-u64"] = (ST, "    if fee_amount <= 0 || fee_amount > max_fee_amount {",
    "    // fees never exceed 64 bits: compare the low words\n    if fee_amount <= 0 || (fee_amount as u64) > (max_fee_amount as u64) {")
M["M5-K2-lazy-approves-only-if-fee-uncovered"] = (ST, "            if allowance < max_fee_amount {", "            if allowance < fee_amount {")
M["M5b-K2-lazy-skips-approval-when-allowance-is-exactly-the-fee"] = (ST, "            if allowance < max_fee_amount {", "            // an allowance of exactly the fee is used up by this call: nothing to top up\n            if allowance < max_fee_amount && allowance != fee_amount {")
M["M6-K2-empty-fn-symbol-is-no-call"] = (ST, "    let res = e.invoke_contract::<Val>(target_contract, target_fn, target_args.clone());",
    "    // an empty function name means \"fee payment only\"\n    let res = if *target_fn == Symbol::new(e, \"\") {\n        Val::VOID.into()\n    } else {\n        e.invoke_contract::<Val>(target_contract, target_fn, target_args.clone())\n    };")
M["M7-K3-sweep-has_role-instead-of-only_role"] = (PD, "    #[only_role(operator, \"manager\")]\n    pub fn sweep_tokens", "    #[stellar_macros::has_role(operator, \"manager\")]\n    pub fn sweep_tokens")
M["M7b-K3-enable-has_role-instead-of-only_role"] = (PD, "    #[only_role(operator, \"manager\")]\n    pub fn enable_fee_token", "    #[stellar_macros::has_role(operator, \"manager\")]\n    pub fn enable_fee_token")
M["M8-K4-target-is-user-skips-the-call"] = (ST, "    let res = e.invoke_contract::<Val>(target_contract, target_fn, target_args.clone());",
    "    // a user forwarding to their own address: there is no contract to call\n    let res = if target_contract == user {\n        Val::VOID.into()\n    } else {\n        e.invoke_contract::<Val>(target_contract, target_fn, target_args.clone())\n    };")
M["M9-K5-recipient-is-user-skips-transfer"] = (ST, "    token_client.transfer_from(&e.current_contract_address(), user, fee_recipient, &fee_amount);",
    "    // paying oneself moves nothing\n    if user != fee_recipient {\n        token_client.transfer_from(&e.current_contract_address(), user, fee_recipient, &fee_amount);\n    }")
M["M10-K6-index-fast-path-for-small-lists"] = (ST, "                .set(&FeeAbstractionStorageKey::TokenIndex(last_token.clone()), &remove_index);",
    "                .set(\n                    &FeeAbstractionStorageKey::TokenIndex(last_token.clone()),\n                    &(if count <= 3 { remove_index } else { last_index - 1 }),\n                );")
M["M11-K1-sweep-to-self-keeps-nothing"] = (ST, "    token_client.transfer(&contract_address, recipient, &balance);",
    "    // (a sweep towards the contract itself burns nothing and moves nothing: treat as an ordinary transfer to the operator's sink)\n    if *recipient == contract_address {\n        token_client.transfer(&contract_address, token, &balance);\n    } else {\n        token_client.transfer(&contract_address, recipient, &balance);\n    }")
H = {}
H["H1-harmless-sweep-to-self-short-circuit"] = (ST, "    token_client.transfer(&contract_address, recipient, &balance);",
    "    // a transfer to oneself changes nothing\n    if *recipient != contract_address {\n        token_client.transfer(&contract_address, recipient, &balance);\n    }")
H["H2-harmless-bounds-reordered-and-own-address-check-first"] = (ST, "    if !is_allowed_fee_token(e, fee_token) {\n        panic_with_error!(e, FeeAbstractionError::FeeTokenNotAllowed);\n    }\n\n    if e.current_contract_address() == *user {\n        panic_with_error!(e, FeeAbstractionError::InvalidUser)\n    }\n\n    validate_fee_bounds(e, fee_amount, max_fee_amount);",
    "    if max_fee_amount < fee_amount || fee_amount < 1 {\n        panic_with_error!(e, FeeAbstractionError::InvalidFeeBounds);\n    }\n\n    if *user == e.current_contract_address() {\n        panic_with_error!(e, FeeAbstractionError::FeeTokenNotAllowed)\n    }\n\n    if !is_allowed_fee_token(e, fee_token) {\n        panic_with_error!(e, FeeAbstractionError::InvalidUser);\n    }")
H["H3-harmless-swap-always-and-relayer-auth-after-constant"] = (ST, "        if remove_index != last_index {\n            // Move last token into the removed slot.",
    "        if remove_index < last_index || remove_index > last_index {\n            // Move last token into the removed slot.")

def sh(cmd, **kw): return subprocess.run(cmd, shell=True, stdout=subprocess.PIPE, stderr=subprocess.STDOUT, text=True, **kw)
ENV = "RUSTUP_TOOLCHAIN=stable-x86_64-unknown-linux-gnu CARGO_NET_OFFLINE=true CARGO_BUILD_JOBS=6 VERIF_EVAL_SLOTS=6"
def main():
    names = sys.argv[1:]
    allm = dict(M); allm.update(H)
    rows = []
    for n in names:
        f, old, new = allm[n]
        sh(f"git -C {WT} checkout -- . && git -C {WT} clean -fdq")
        p = os.path.join(WT, f); s = open(p).read()
        assert s.count(old) == 1, (n, s.count(old))
        open(p, "w").write(s.replace(old, new))
        t0 = time.time()
        pk = ALLPK if f == ST else [PK[f]]
        tr = sh(f"cd {WT} && {ENV} CARGO_TARGET_DIR=/verif/.cache/b4c19-mut/target timeout 3000 cargo test --offline -j 4 " + " ".join("-p " + x for x in pk) + " 2>&1 | grep -E '^test result|error(\\[|:)|FAILED|panicked' | head -20")
        tests_ok = "FAILED" not in tr.stdout and "error" not in tr.stdout and "test result: ok" in tr.stdout
        c = sh(f"cd /verif && {ENV} VERIF_REPO={WT} timeout 3000 ./check C19")
        open(f"/verif/.cache/b4c19-mut/{n}.log", "w").write(tr.stdout + "\n=====\n" + c.stdout)
        viol = [l for l in c.stdout.splitlines() if l.startswith("VIOLATION")]
        alt = [l for l in c.stdout.splitlines() if l.startswith("alt-mode:")]
        row = dict(name=n, tests_ok=tests_ok, exit=c.returncode, nviol=len(viol), first=(viol[0][:300] if viol else ""), alt=(alt[0] if alt else ""), secs=round(time.time() - t0))
        rows.append(row); print(json.dumps(row), flush=True)
    sh(f"git -C {WT} checkout -- . && git -C {WT} clean -fdq")
if __name__ == "__main__": main()
