#!/usr/bin/env python3
"""Seeded-change drill: applies every /verif/seeded/<name>/patch.diff, one at a time, to ONE scratch
worktree of /repo (outside /repo and /verif), runs the quick check of the property it breaks in
scratch-worktree mode (VERIF_REPO), and records whether a VIOLATION was reported.
Never touches /repo's working tree.  Usage: tools/drill.py [name ...]   (default: all)
Writes /verif/seeded/RESULTS.md."""
import os, sys, json, subprocess, glob, shutil, time
ROOT = os.path.dirname(os.path.dirname(os.path.abspath(__file__)))
WT = os.environ.get("DRILL_WT", "/tmp/wt-drill")

def sh(cmd, **kw): return subprocess.run(cmd, shell=True, stdout=subprocess.PIPE, stderr=subprocess.STDOUT, text=True, **kw)

def main():
    names = sys.argv[1:] or sorted(os.path.basename(os.path.dirname(p)) for p in glob.glob(os.path.join(ROOT, "seeded", "*", "patch.diff")))
    sh(f"git -C /repo worktree remove --force {WT}; git -C /repo worktree prune")
    r = sh(f"git -C /repo worktree add --detach {WT} HEAD")
    if r.returncode != 0: print(r.stdout); sys.exit(2)
    rows, altdir = [], None
    try:
        for n in names:
            d = os.path.join(ROOT, "seeded", n)
            meta = json.load(open(os.path.join(d, "meta.json")))
            props = meta["property"] if isinstance(meta["property"], list) else [meta["property"]]
            sh(f"git -C {WT} checkout -- . && git -C {WT} clean -fdq")
            a = sh(f"git -C {WT} apply {os.path.join(d, 'patch.diff')}")
            if a.returncode != 0: rows.append((n, ",".join(props), "patch does not apply", "", 0)); continue
            for pid in props:
                t0 = time.time()
                c = sh(f"cd {ROOT} && VERIF_REPO={WT} ./check {pid}")
                for line in c.stdout.splitlines():
                    if line.startswith("alt-mode:"): altdir = line.split("alt-cache=")[1].split()[0]
                viol = [l for l in c.stdout.splitlines() if l.startswith("VIOLATION")]
                verdict = "CAUGHT" if c.returncode == 1 and viol else ("BROKEN" if c.returncode == 2 else "MISSED")
                kind = "monitor" if viol and "no-failing-input-found" not in viol[0] else ("correspondence only" if viol else "")
                rows.append((n, pid, verdict, kind, round(time.time() - t0)))
                print(n, pid, verdict, kind, flush=True)
                if verdict != "CAUGHT": open(os.path.join(ROOT, ".cache", f"drill-{n}-{pid}.log"), "w").write(c.stdout)
    finally:
        sh(f"git -C /repo worktree remove --force {WT}; git -C /repo worktree prune")
        if altdir and os.path.basename(altdir).startswith("alt-"): shutil.rmtree(altdir, ignore_errors=True)
    if not sys.argv[1:]:
        with open(os.path.join(ROOT, "seeded", "RESULTS.md"), "w") as f:
            f.write("| seeded change | property | result | reported by | s |\n|---|---|---|---|---|\n")
            for r in rows: f.write("| " + " | ".join(str(x) for x in r) + " |\n")
    sys.exit(0 if all(r[2] == "CAUGHT" for r in rows) else 1)

if __name__ == "__main__": main()
