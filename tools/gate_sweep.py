#!/usr/bin/env python3
"""Coverage-gate robustness sweep: runs each property's harness (no Coq evaluation) for many seeds and reports
the seeds on which a `must_cover` label is not hit (such a seed would make ./check exit 2 = BROKEN).
Usage: tools/gate_sweep.py [--seeds N] [IDs...]"""
import os, sys, json, subprocess, shutil
from concurrent.futures import ThreadPoolExecutor
ROOT = os.path.dirname(os.path.dirname(os.path.abspath(__file__)))
args = sys.argv[1:]; N = 100
if "--seeds" in args: i = args.index("--seeds"); N = int(args[i + 1]); del args[i:i + 2]
ids = args or [json.loads(l)["id"] for l in open(os.path.join(ROOT, "properties.jsonl"))]
ENV = dict(os.environ, RUST_BACKTRACE="0")
def one(job):
    pid, seed = job
    prop = json.load(open(os.path.join(ROOT, "props", f"{pid}.json")))
    exe = os.path.join(ROOT, ".cache", "target", "release", prop.get("bin", pid.lower()))
    out = f"/tmp/gate-sweep/{pid}-{seed}"
    shutil.rmtree(out, ignore_errors=True); os.makedirs(out)
    r = subprocess.run(["timeout", "600", exe], env=dict(ENV, VERIF_SEED=str(seed), VERIF_TIER="quick", VERIF_OUT=out),
                       stdout=subprocess.DEVNULL, stderr=subprocess.DEVNULL)
    res = (pid, seed, "crash" if r.returncode else None, [])
    if r.returncode == 0:
        labels = json.load(open(os.path.join(out, "meta.json"))).get("labels", {})
        miss = [l for l in prop.get("must_cover", []) if labels.get(l, 0) == 0]
        res = (pid, seed, None, miss)
    shutil.rmtree(out, ignore_errors=True)
    return res
jobs = [(p, s) for p in ids for s in list(range(1, N + 1)) + [10**9 + 7, 2**31 - 1, 2**62 + 3]]
bad = {}
with ThreadPoolExecutor(max_workers=14) as ex:
    for pid, seed, crash, miss in ex.map(one, jobs):
        if crash or miss: bad.setdefault(pid, []).append((seed, crash or miss))
for pid in ids:
    b = bad.get(pid, [])
    print(pid, "OK" if not b else f"FLAKY on {len(b)} seeds: " + "; ".join(f"{s}:{m if isinstance(m,str) else m[:3]}" for s, m in b[:8]), flush=True)
sys.exit(1 if bad else 0)
