#!/usr/bin/env python3
"""Regenerates /verif/MANIFEST.json from props/*.json (claimed checks) and props/not_applicable.json."""
import json, glob, os
ROOT = os.path.dirname(os.path.dirname(os.path.abspath(__file__)))
ids = [json.loads(l)["id"] for l in open(os.path.join(ROOT, "properties.jsonl"))]
checks, claimed = [], set()
ready = set(json.load(open(os.path.join(ROOT, "props", "ready.json"))))   # properties reviewed and committed by the coordinator
for p in sorted(glob.glob(os.path.join(ROOT, "props", "C*.json"))):
    d = json.load(open(p))
    if d.get("disabled") or d["id"] not in ready: continue
    pid = d["id"]; claimed.add(pid)
    checks.append({
        "property_id": pid,
        "quick_cmd": f"./check {pid} --tier quick",
        "thorough_cmd": f"./check {pid} --tier thorough",
        "evidence_file": f"/verif/evidence/{pid}.json",
        "replay_cmd_template": f"./check {pid} --replay {{path}}",
        "engine": "coq-proof+correspondence",
        "level_claimed": {"category": "proof", "text": d["level_text"], "design_ref": d.get("design_ref", "DESIGN.md 5")},
        "level_note": d["level_note"],
        "technique": d.get("technique", "Coq proof + model/implementation correspondence check"),
    })
na_path = os.path.join(ROOT, "props", "not_applicable.json")
na_reasons = json.load(open(na_path)) if os.path.exists(na_path) else {}
na = [{"property_id": i, "reason": na_reasons.get(i, "check not built yet (model, theorems and correspondence harness pending); not claimed")} for i in ids if i not in claimed]
m = {
    "version": 1,
    "setup_cmd": "./setup.sh",
    "hooks": {"guard": "stellar_contracts_verif", "enable": "none needed: RUSTFLAGS=\"--cfg stellar_contracts_verif\" would enable hooks, but no hook exists (all entry points used are pub; example contracts are included textually by the harness)",
              "baseline_off_cmd": "cd /repo && RUSTUP_TOOLCHAIN=stable-x86_64-unknown-linux-gnu cargo nextest run --workspace --no-fail-fast --test-threads 8 --offline || (cd /repo && RUSTUP_TOOLCHAIN=stable-x86_64-unknown-linux-gnu cargo test --workspace --no-fail-fast --offline)",
              "source_commits": [], "add_only": True},
    "engines": [{"name": "coq-proof+correspondence", "path": "/verif/check", "serves_properties": sorted(claimed),
                 "kind_free_text": "Coq 8.16.1 theorems over hand-written executable Gallina models (coq/), tied to /repo on every run by a Rust harness (harness/) that executes the real contracts in the Soroban test host and whose traces are evaluated inside Coq (vm_compute) against the model and the proved monitor"}],
    "checks": checks,
    "notes": "See DESIGN.md. known_findings.json lists recorded/fixed defects. Exit 2 from a check means the machinery itself is broken (never a verdict).",
    "not_applicable": na,
}
json.dump(m, open(os.path.join(ROOT, "MANIFEST.json"), "w"), indent=1)
print("claimed:", sorted(claimed), "unclaimed:", [x["property_id"] for x in na])
