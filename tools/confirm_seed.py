#!/usr/bin/env python3
"""Confirms seeded changes delivered by independent sub-agents under /tmp/seed-out/<name>/ and, when
confirmed, stores them as /verif/seeded/<name>/ (patch.diff, demo.diff, demo_cmd.txt, meta.json).
Confirmation, in ONE scratch worktree /tmp/wt-confirm (removed at the end):
  1. demo only        -> demonstration passes
  2. demo + patch     -> demonstration fails
  3. patch only       -> full existing suite passes (1131)
Usage: tools/confirm_seed.py <name> [...]"""
import os, sys, json, subprocess, shutil, re
ROOT = os.path.dirname(os.path.dirname(os.path.abspath(__file__)))
WT = os.environ.get("CONFIRM_WT", "/tmp/wt-confirm")
ENV = dict(os.environ, RUSTUP_TOOLCHAIN="stable-x86_64-unknown-linux-gnu", CARGO_NET_OFFLINE="true")
def sh(cmd, cwd=None): return subprocess.run(cmd, shell=True, cwd=cwd, env=ENV, stdout=subprocess.PIPE, stderr=subprocess.STDOUT, text=True)
def reset(): sh(f"git -C {WT} checkout -- . && git -C {WT} clean -fdq -e target")
def main():
    names = sys.argv[1:]
    if not os.path.isdir(WT):
        r = sh(f"git -C /repo worktree add --detach {WT} HEAD")
        if r.returncode: print(r.stdout); sys.exit(2)
    for n in names:
        src = f"/tmp/seed-out/{n}"
        meta = json.load(open(f"{src}/meta.json"))
        cmd = open(f"{src}/demo_cmd.txt").read().strip().splitlines()
        cmd = " && ".join(l for l in cmd if l.strip() and not l.strip().startswith("#"))
        cmd = re.sub(r"cd\s+/tmp/seed-\w+\s*(&&|;)?", "", cmd)
        log = {}
        reset(); a = sh(f"git apply {src}/demo.diff", WT)
        if a.returncode: print(n, "demo.diff does not apply", a.stdout); continue
        r1 = sh(cmd, WT); log["demo_without_patch_passes"] = r1.returncode == 0
        a = sh(f"git apply {src}/patch.diff", WT)
        if a.returncode: print(n, "patch.diff does not apply", a.stdout); continue
        r2 = sh(cmd, WT); log["demo_with_patch_fails"] = r2.returncode != 0
        reset(); sh(f"git apply {src}/patch.diff", WT)
        r3 = sh("cargo nextest run --workspace --no-fail-fast --test-threads 8 --offline 2>&1 | tail -5", WT)
        m = re.search(r"(\d+) tests run: (\d+) passed", r3.stdout)
        log["suite"] = m.group(0) if m else r3.stdout[-300:]
        log["suite_passes_with_patch"] = bool(m) and m.group(1) == m.group(2) and int(m.group(1)) >= 1131
        ok = log["demo_without_patch_passes"] and log["demo_with_patch_fails"] and log["suite_passes_with_patch"]
        print(n, "CONFIRMED" if ok else "REJECTED", json.dumps(log), flush=True)
        if not ok:
            open(f"/tmp/seed-out/{n}/confirm.log", "w").write(r1.stdout[-3000:] + "\n=====\n" + r2.stdout[-3000:] + "\n=====\n" + r3.stdout[-2000:])
            continue
        dst = os.path.join(ROOT, "seeded", n); os.makedirs(dst, exist_ok=True)
        for f in ("patch.diff", "demo.diff", "demo_cmd.txt"): shutil.copyfile(f"{src}/{f}", f"{dst}/{f}")
        meta["confirmed"] = {"by": "tools/confirm_seed.py in scratch worktree /tmp/wt-confirm", "demo_cmd": cmd, **log}
        meta["needs"] = meta.get("needs", "")
        json.dump(meta, open(f"{dst}/meta.json", "w"), indent=1)
    reset()
if __name__ == "__main__": main()
