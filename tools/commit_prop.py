#!/usr/bin/env python3
"""tools/commit_prop.py <ID> [...] : mark properties ready, regenerate MANIFEST, git-add their file closure and commit."""
import sys, os, json, re, subprocess, importlib.machinery, importlib.util
ROOT = os.path.dirname(os.path.dirname(os.path.abspath(__file__)))
argv = sys.argv[:]; sys.argv = ["check"]
loader = importlib.machinery.SourceFileLoader("chk", os.path.join(ROOT, "check")); spec = importlib.util.spec_from_loader("chk", loader); chk = importlib.util.module_from_spec(spec); loader.exec_module(chk)
ids = argv[1:]
ready = set(json.load(open(os.path.join(ROOT, "props", "ready.json")))) | set(ids)
json.dump(sorted(ready), open(os.path.join(ROOT, "props", "ready.json"), "w"))
files = ["props/ready.json", "MANIFEST.json"]
for pid in ids:
    prop = json.load(open(os.path.join(ROOT, "props", f"{pid}.json")))
    roots = [os.path.join(ROOT, "coq", t[:-1]) for t in prop.get("coq_targets", [f"Properties/{pid}.vo", f"Run/{pid}.vo"])]
    files += [os.path.relpath(f, ROOT) for f in chk.coq_closure(roots)]
    b = prop.get("bin", pid.lower())
    rs = os.path.join(ROOT, "harness", "src", "bin", b + ".rs"); files.append(os.path.relpath(rs, ROOT))
    # modules pulled in by #[path = "..."] inside the harness tree
    todo = [rs]
    while todo:
        f = todo.pop(); src = open(f).read()
        for m in re.finditer(r'#\[path\s*=\s*"([^"]+)"\]', src):
            p = m.group(1)
            if p.startswith("/repo"): continue
            q = os.path.normpath(os.path.join(os.path.dirname(f), p))
            if os.path.exists(q) and q.startswith(ROOT): files.append(os.path.relpath(q, ROOT)); todo.append(q)
        for m in re.finditer(r'^\s*(?:pub\s+)?mod\s+(\w+)\s*;', src, re.M):
            for q in (os.path.join(os.path.dirname(f), m.group(1) + ".rs"), os.path.join(os.path.dirname(f), os.path.basename(f)[:-3], m.group(1) + ".rs"), os.path.join(os.path.dirname(f), m.group(1), "mod.rs")):
                if os.path.exists(q): files.append(os.path.relpath(q, ROOT)); todo.append(q)
    files += [f"props/{pid}.json", f"evidence/{pid}.json"]
    if os.path.isdir(os.path.join(ROOT, "corpus", pid)): files.append(f"corpus/{pid}")
subprocess.run([sys.executable, os.path.join(ROOT, "tools", "gen_manifest.py")], check=True)
files = sorted(set(f for f in files if os.path.exists(os.path.join(ROOT, f))))
subprocess.run(["git", "-C", ROOT, "add"] + files, check=True)
subprocess.run(["git", "-C", ROOT, "commit", "-q", "-m", f"{' '.join(ids)}: model, theorems, monitor, correspondence harness (built by sub-agent, reviewed: ./check passes)"], check=False)
print("committed", ids, len(files), "files")
