#!/usr/bin/env python3
"""C04 mutation drill (not part of the registered checks).

   git -C /repo worktree add --detach /tmp/wt-c04 HEAD
   python3 tools/drill_c04.py [mutant names ...]      # default: all; VERIF_SEED honoured
   git -C /repo worktree remove --force /tmp/wt-c04; rm -rf <the alt-cache directory ./check printed>

Applies one source mutation at a time to the scratch worktree /tmp/wt-c04 and runs ./check C04 against
it (VERIF_REPO).  m*/c*/i* must be reported (exit 1), h* must stay quiet (exit 0); m20 is caught by the
model/implementation diff only (no-failing-input-found; slow because of the search rounds)."""
import subprocess, sys, os, re
WT = "/tmp/wt-c04"
F = WT + "/packages/tokens/src/rwa/storage.rs"
FUNG = WT + "/packages/tokens/src/fungible/storage.rs"
PAUS = WT + "/packages/contract-utils/src/pausable/storage.rs"
CMP = WT + "/packages/tokens/src/rwa/compliance/storage.rs"
IDV = WT + "/packages/tokens/src/rwa/identity_verifier/storage.rs"
BIND = WT + "/packages/tokens/src/rwa/utils/token_binder/storage.rs"
OVR = WT + "/packages/tokens/src/fungible/overrides.rs"

MUT = {
 # ---- mutants that must be reported ----
 "m00_revert_F1_fix": (F, """        spender.require_auth();

        Self::validate_transfer(e, from, to, amount);

        Base::spend_allowance""", """        spender.require_auth();

        Base::spend_allowance"""),
 "m01_receiver_freeze_not_checked": (F, "if Self::is_frozen(e, from) || Self::is_frozen(e, to) {", "if Self::is_frozen(e, from) {"),
 "m02_free_tokens_gate_uses_balance": (F, """        let free_tokens = Self::get_free_tokens(e, from);
        if free_tokens < amount {
            panic_with_error!(e, RWAError::InsufficientFreeTokens);""", """        let free_tokens = Base::balance(e, from);
        if free_tokens < amount {
            panic_with_error!(e, RWAError::InsufficientFreeTokens);"""),
 "m03_forced_transfer_unfreezes_whole_amount": (F, """            let tokens_to_unfreeze = amount - free_tokens;
            let current_frozen = Self::get_frozen_tokens(e, from);""", """            let current_frozen = Self::get_frozen_tokens(e, from);
            let tokens_to_unfreeze = amount.min(current_frozen);"""),
 "m04_recovery_target_not_compared": (F, """        if recovery_target != *new_account {
            panic_with_error!(e, RWAError::IdentityMismatch);
        }
""", """        let _ = recovery_target;
"""),
 "m05_recovery_drops_partial_freeze": (F, """        if frozen_tokens > 0 {
            Self::freeze_partial_tokens(e, new_account, frozen_tokens);
        }
""", ""),
 "m06_transfer_from_not_notified": (F, """        Base::update(e, Some(from), Some(to), amount);

        let compliance_client = ComplianceClient::new(e, &Self::compliance(e));
        compliance_client.transferred(from, to, &amount, &e.current_contract_address());
        emit_transfer(e, from, to, None, amount);
    }
}""", """        Base::update(e, Some(from), Some(to), amount);

        emit_transfer(e, from, to, None, amount);
    }
}"""),
 "m07_freeze_ignores_already_frozen": (F, "if new_frozen > current_balance {", "if amount > current_balance {"),
 "m08_sender_verified_twice_receiver_never": (F, """        identity_verifier_client.verify_identity(from);
        identity_verifier_client.verify_identity(to);""", """        identity_verifier_client.verify_identity(from);
        identity_verifier_client.verify_identity(from);"""),
 "m09_burn_does_not_unfreeze": (F, """        let free_tokens = Self::get_free_tokens(e, user_address);
        if free_tokens < amount {""", """        let free_tokens = Self::get_free_tokens(e, user_address);
        if free_tokens < 0 {"""),
 "m10_mint_ignores_can_create": (F, """        if !can_create {
            panic_with_error!(e, RWAError::MintNotCompliant);
        }
""", """        let _ = can_create;
"""),
 "m11_recovery_flags_old_account": (F, "Self::set_address_frozen(e, new_account, true);", "Self::set_address_frozen(e, old_account, true);"),
 "m12_unfreeze_more_than_frozen": (F, """        if current_frozen < amount {
            panic_with_error!(e, RWAError::InsufficientFreeTokens);
        }

        let new_frozen = current_frozen - amount;""", """        let new_frozen = current_frozen - amount;"""),
 "m13_transfer_from_validates_spender": (F, """        spender.require_auth();

        Self::validate_transfer(e, from, to, amount);""", """        spender.require_auth();

        Self::validate_transfer(e, spender, to, amount);"""),
 "m14_forced_transfer_notifies_reversed": (F, """        Base::update(e, Some(from), Some(to), amount);

        let compliance_addr = Self::compliance(e);
        let compliance_client = ComplianceClient::new(e, &compliance_addr);
        compliance_client.transferred(from, to, &amount, &e.current_contract_address());""", """        Base::update(e, Some(from), Some(to), amount);

        let compliance_addr = Self::compliance(e);
        let compliance_client = ComplianceClient::new(e, &compliance_addr);
        compliance_client.transferred(to, from, &amount, &e.current_contract_address());"""),
 "m15_pause_check_inverted_unpause": (PAUS, """pub fn unpause(e: &Env) {
    when_paused(e);
    e.storage().instance().set(&PausableStorageKey::Paused, &false);""", """pub fn unpause(e: &Env) {
    when_paused(e);
    e.storage().instance().set(&PausableStorageKey::Paused, &true);"""),
 "m16_transfer_free_tokens_off_by_one": (F, """        let free_tokens = Self::get_free_tokens(e, from);
        if free_tokens < amount {
            panic_with_error!(e, RWAError::InsufficientFreeTokens);""", """        let free_tokens = Self::get_free_tokens(e, from);
        if free_tokens + 1 < amount {
            panic_with_error!(e, RWAError::InsufficientFreeTokens);"""),
 "m17_transfer_from_does_not_spend_allowance": (F, """        Self::validate_transfer(e, from, to, amount);

        Base::spend_allowance(e, from, spender, amount);
""", """        Self::validate_transfer(e, from, to, amount);
"""),
 "m18_transfer_without_holder_auth": (F, """        from.require_auth();

        Self::validate_transfer(e, from, to, amount);""", """        Self::validate_transfer(e, from, to, amount);"""),
 "m19_self_transfer_skips_validation": (F, """        // Check if contract is paused
        if paused(e) {
            panic_with_error!(e, PausableError::EnforcedPause);
        }
""", """        if from == to {
            return;
        }
        // Check if contract is paused
        if paused(e) {
            panic_with_error!(e, PausableError::EnforcedPause);
        }
"""),
 "m20_freeze_of_whole_balance_refused_diff_only": (F, "if new_frozen > current_balance {", "if new_frozen >= current_balance {"),
 "m21_recovery_overwrites_frozen_of_new_account": (F, """            Self::freeze_partial_tokens(e, new_account, frozen_tokens);""", """            e.storage()
                .persistent()
                .set(&RWAStorageKey::FrozenTokens(new_account.clone()), &frozen_tokens);"""),
 "m22_mint_skips_identity_check": (F, """        let identity_verifier_addr = Self::identity_verifier(e);
        let identity_verifier_client = IdentityVerifierClient::new(e, &identity_verifier_addr);
        identity_verifier_client.verify_identity(to);

        let compliance_addr = Self::compliance(e);
        let compliance_client = ComplianceClient::new(e, &compliance_addr);

        let can_create: bool =""", """        let compliance_addr = Self::compliance(e);
        let compliance_client = ComplianceClient::new(e, &compliance_addr);

        let can_create: bool ="""),
 "c01_transferred_accepts_anyone": (CMP, """pub fn transferred(e: &Env, from: Address, to: Address, amount: i128, token: Address) {
    require_auth_from_bound_token(e, &token);
""", """pub fn transferred(e: &Env, from: Address, to: Address, amount: i128, token: Address) {
"""),
 "c02_hooks_do_not_require_token_auth": (CMP, """    // Only the token contract should call this function
    token.require_auth();
""", ""),
 "c03_hooks_accept_unbound_token": (CMP, """    if !is_token_bound(e, token) {
        panic_with_error!(e, ComplianceError::TokenNotBound);
    }
""", """    let _ = is_token_bound(e, token);
"""),
 "c04_can_transfer_any_module_suffices": (CMP, """        let result = client.can_transfer(&from, &to, &amount, &token);

        // If any module returns false, the entire check fails
        if !result {
            return false;
        }
    }

    // All modules passed (or no modules registered)
    true
}
""", """        let result = client.can_transfer(&from, &to, &amount, &token);

        if result {
            return true;
        }
    }

    modules.is_empty()
}
"""),
 "c05_can_create_asks_transfer_modules": (CMP, "let modules = get_modules_for_hook(e, ComplianceHook::CanCreate);", "let modules = get_modules_for_hook(e, ComplianceHook::CanTransfer);"),
 "c06_destroyed_notifies_created_modules": (CMP, "let modules = get_modules_for_hook(e, ComplianceHook::Destroyed);", "let modules = get_modules_for_hook(e, ComplianceHook::Created);"),
 "c07_module_can_be_registered_twice": (CMP, """    if modules.iter().any(|m| m == module) {
        panic_with_error!(e, ComplianceError::ModuleAlreadyRegistered);
    }

    // Check the bound""", """    // Check the bound"""),
 "c08_module_bound_off_by_one": (CMP, "if modules.len() >= MAX_MODULES {", "if modules.len() > MAX_MODULES {"),
 "c09_last_module_not_notified": (CMP, """    let modules = get_modules_for_hook(e, ComplianceHook::Transferred);

    for module_address in modules.iter() {""", """    let modules = get_modules_for_hook(e, ComplianceHook::Transferred);

    for module_address in modules.iter().take(modules.len().saturating_sub(1).max(1) as usize) {"""),
 "hc1_bound_check_before_auth_new_error_code": (CMP, """    // Only the token contract should call this function
    token.require_auth();

    // Check if the token contract is bound to this compliance contract
    // Use is_token_bound for memory efficiency (loads one bucket at a time)
    if !is_token_bound(e, token) {
        panic_with_error!(e, ComplianceError::TokenNotBound);
    }""", """    if !is_token_bound(e, token) {
        panic_with_error!(e, ComplianceError::ModuleNotRegistered);
    }
    token.require_auth();"""),
 "i01_seeded_C04_2_break_becomes_return": (IDV, """                if validate_claim(e, &claim, claim_topic, &issuer, &identity_addr) {
                    break;""", """                if validate_claim(e, &claim, claim_topic, &issuer, &identity_addr) {
                    // valid claim found, no need to check the other issuers
                    return;"""),
 "i02_topic_without_issuers_passes": (IDV, """        if issuers.is_empty() {
            panic_with_error!(e, RWAError::IdentityVerificationFailed)
        }
""", ""),
 "i03_claim_issuer_field_not_compared": (IDV, "if claim.topic == claim_topic && claim.issuer == *issuer {", "if claim.topic == claim_topic {"),
 "i04_is_last_off_by_one": (IDV, "i as u32 == issuers.len() - 1,", "i as u32 == issuers.len(),"),
 "i05_missing_claim_at_last_issuer_ignored": (IDV, """            } else if is_last {
                panic_with_error!(e, RWAError::IdentityVerificationFailed)
            }
        }
    }
}""", """            }
        }
    }
}"""),
 "hi1_claim_topic_and_issuer_compared_in_other_order": (IDV, "if claim.topic == claim_topic && claim.issuer == *issuer {", "if *issuer == claim.issuer && claim_topic == claim.topic {"),
 # ---- persistence class: state that silently lapses after enough ledgers ("rent optimisations") ----
 "p01_address_frozen_flag_in_temporary_storage": ("multi", [
    (F, """        if let Some(frozen) = e.storage().persistent().get::<_, bool>(&key) {
            e.storage().persistent().extend_ttl(&key, FROZEN_TTL_THRESHOLD, FROZEN_EXTEND_AMOUNT);""", """        if let Some(frozen) = e.storage().temporary().get::<_, bool>(&key) {
            e.storage().temporary().extend_ttl(&key, FROZEN_TTL_THRESHOLD, FROZEN_EXTEND_AMOUNT);""", 1, 1),
    (F, "e.storage().persistent().set(&RWAStorageKey::AddressFrozen(user_address.clone()), &freeze);",
        "e.storage().temporary().set(&RWAStorageKey::AddressFrozen(user_address.clone()), &freeze);", 1, 1)]),
 "p02_frozen_tokens_in_temporary_storage": ("multi", [
    (F, """        if let Some(frozen_amount) = e.storage().persistent().get::<_, i128>(&key) {
            e.storage().persistent().extend_ttl(&key, FROZEN_TTL_THRESHOLD, FROZEN_EXTEND_AMOUNT);""", """        if let Some(frozen_amount) = e.storage().temporary().get::<_, i128>(&key) {
            e.storage().temporary().extend_ttl(&key, FROZEN_TTL_THRESHOLD, FROZEN_EXTEND_AMOUNT);""", 1, 1),
    (F, "e.storage().persistent().set(&RWAStorageKey::FrozenTokens(from.clone()), &new_frozen);", "e.storage().temporary().set(&RWAStorageKey::FrozenTokens(from.clone()), &new_frozen);", 1, 1),
    (F, """                .persistent()
                .set(&RWAStorageKey::FrozenTokens(user_address.clone()), &new_frozen);""", """                .temporary()
                .set(&RWAStorageKey::FrozenTokens(user_address.clone()), &new_frozen);""", 1, 1),
    (F, """            .persistent()
            .set(&RWAStorageKey::FrozenTokens(user_address.clone()), &new_frozen);""", """            .temporary()
            .set(&RWAStorageKey::FrozenTokens(user_address.clone()), &new_frozen);""", 2, 2)]),
 "p03_pause_flag_in_temporary_storage": ("multi", [(PAUS, "e.storage().instance()", "e.storage().temporary()", 3, 3)]),
 "p04_balances_in_temporary_storage": ("multi", [
    (FUNG, """        if let Some(balance) = e.storage().persistent().get::<_, i128>(&key) {
            e.storage().persistent().extend_ttl(&key, BALANCE_TTL_THRESHOLD, BALANCE_EXTEND_AMOUNT);""", """        if let Some(balance) = e.storage().temporary().get::<_, i128>(&key) {
            e.storage().temporary().extend_ttl(&key, BALANCE_TTL_THRESHOLD, BALANCE_EXTEND_AMOUNT);""", 1, 1),
    (FUNG, """                .persistent()
                .set(&FungibleStorageKey::Balance(account.clone()),""", """                .temporary()
                .set(&FungibleStorageKey::Balance(account.clone()),""", 2, 2)]),
 "p05_freeze_flag_consumed_by_the_read": (F, """        if let Some(frozen) = e.storage().persistent().get::<_, bool>(&key) {
            e.storage().persistent().extend_ttl(&key, FROZEN_TTL_THRESHOLD, FROZEN_EXTEND_AMOUNT);
            frozen""", """        if let Some(frozen) = e.storage().persistent().get::<_, bool>(&key) {
            // one-shot freeze: free the entry once it has been enforced
            e.storage().persistent().remove(&key);
            frozen"""),
 "p06_compliance_module_lists_in_temporary_storage": ("multi", [(CMP, "e.storage().persistent()", "e.storage().temporary()", 4, 4)]),
 "p07_token_bindings_in_temporary_storage": ("multi", [(BIND, "e.storage().persistent()", "e.storage().temporary()", 10, 20)]),
 "p08_verifier_registry_links_in_temporary_storage": ("multi", [(IDV, """        .instance()""", """        .temporary()""", 4, 4)]),
 "p09_token_collaborator_links_in_temporary_storage": ("multi", [
    (F, "e.storage().instance().set(&RWAStorageKey::Compliance, compliance);", "e.storage().temporary().set(&RWAStorageKey::Compliance, compliance);", 1, 1),
    (F, "e.storage().instance().set(&RWAStorageKey::IdentityVerifier, identity_verifier);", "e.storage().temporary().set(&RWAStorageKey::IdentityVerifier, identity_verifier);", 1, 1),
    (F, """            .instance()
            .get(&RWAStorageKey::Compliance)""", """            .temporary()
            .get(&RWAStorageKey::Compliance)""", 1, 1),
    (F, """            .instance()
            .get(&RWAStorageKey::IdentityVerifier)""", """            .temporary()
            .get(&RWAStorageKey::IdentityVerifier)""", 1, 1)]),
 "p10_allowance_ttl_halved_diff_only": (FUNG, "e.storage().temporary().extend_ttl(&key, live_for, live_for);", "e.storage().temporary().extend_ttl(&key, live_for / 2, live_for / 2);"),
 "hp1_persistent_ttl_extension_shortened": ("multi", [(WT + "/packages/tokens/src/rwa/mod.rs", "pub const FROZEN_EXTEND_AMOUNT: u32 = 30 * DAY_IN_LEDGERS;", "pub const FROZEN_EXTEND_AMOUNT: u32 = 2 * DAY_IN_LEDGERS;", 1, 1)]),
 "hp2_extra_ttl_extension_on_write": (F, """        e.storage().persistent().set(&RWAStorageKey::AddressFrozen(user_address.clone()), &freeze);
""", """        let key = RWAStorageKey::AddressFrozen(user_address.clone());
        e.storage().persistent().set(&key, &freeze);
        e.storage().persistent().extend_ttl(&key, FROZEN_TTL_THRESHOLD, FROZEN_EXTEND_AMOUNT);
"""),
 # ---- review follow-up: currently-registered collaborator, frames, public getters ----
 "k01_set_compliance_first_registration_wins": (F, """        e.storage().instance().set(&RWAStorageKey::Compliance, compliance);
        emit_compliance_set(e, compliance);""", """        if !e.storage().instance().has(&RWAStorageKey::Compliance) {
            e.storage().instance().set(&RWAStorageKey::Compliance, compliance);
        }
        emit_compliance_set(e, compliance);"""),
 "k02_set_identity_verifier_writes_compliance_key": (F, "e.storage().instance().set(&RWAStorageKey::IdentityVerifier, identity_verifier);", "e.storage().instance().set(&RWAStorageKey::Compliance, identity_verifier);"),
 "k03_mint_does_not_count_in_total_supply": (FUNG, """            e.storage().instance().set(&FungibleStorageKey::TotalSupply, &new_total_supply);""", """            let _ = new_total_supply;"""),
 "k04_public_balance_getter_reports_free_tokens": (F, """impl ContractOverrides for RWA {
    fn transfer(""", """impl ContractOverrides for RWA {
    fn balance(e: &Env, account: &Address) -> i128 {
        RWA::get_free_tokens(e, account)
    }

    fn transfer("""),
 "k05_forced_transfer_consumes_an_allowance": (F, """        Base::update(e, Some(from), Some(to), amount);

        let compliance_addr = Self::compliance(e);
        let compliance_client = ComplianceClient::new(e, &compliance_addr);
        compliance_client.transferred(from, to, &amount, &e.current_contract_address());""", """        Base::update(e, Some(from), Some(to), amount);
        if Base::allowance(e, from, to) >= amount && amount > 0 {
            Base::spend_allowance(e, from, to, amount);
        }

        let compliance_addr = Self::compliance(e);
        let compliance_client = ComplianceClient::new(e, &compliance_addr);
        compliance_client.transferred(from, to, &amount, &e.current_contract_address());"""),
 "k06_recovery_target_asked_of_compliance_address": (F, """    pub fn recover_balance(e: &Env, old_account: &Address, new_account: &Address) -> bool {
        // Verify identity for the new account
        let identity_verifier_addr = Self::identity_verifier(e);""", """    pub fn recover_balance(e: &Env, old_account: &Address, new_account: &Address) -> bool {
        // Verify identity for the new account
        let identity_verifier_addr = Self::identity_verifier(e);
        let _ = Self::compliance(e);"""),
 # ---- harmless rewrites that must stay quiet ----
 "h01_reorder_pause_and_freeze_checks_new_error_code": (F, """        // Check if contract is paused
        if paused(e) {
            panic_with_error!(e, PausableError::EnforcedPause);
        }

        // Check if addresses are frozen
        if Self::is_frozen(e, from) || Self::is_frozen(e, to) {
            panic_with_error!(e, RWAError::AddressFrozen);
        }
""", """        // Check if addresses are frozen
        if Self::is_frozen(e, to) || Self::is_frozen(e, from) {
            panic_with_error!(e, RWAError::InsufficientFreeTokens);
        }

        // Check if contract is paused
        if paused(e) {
            panic_with_error!(e, RWAError::AddressFrozen);
        }
"""),
 "h02_burn_unfreeze_test_le_and_no_early_balance_check": (F, """        if amount > Base::balance(e, user_address) {
            panic_with_error!(e, RWAError::InsufficientBalance);
        }

        // Check if we need to unfreeze tokens to complete the burn
        let free_tokens = Self::get_free_tokens(e, user_address);
        if free_tokens < amount {""", """        // Check if we need to unfreeze tokens to complete the burn
        let free_tokens = Self::get_free_tokens(e, user_address);
        if free_tokens <= amount {"""),
 "h03_recovery_checks_target_before_identity": (F, """        identity_verifier_client.verify_identity(new_account);

        // Verify that the new account is the recovery target for the old account
        let recovery_target = identity_verifier_client
            .recovery_target(old_account)
            .unwrap_or_else(|| panic_with_error!(e, RWAError::IdentityMismatch));

        if recovery_target != *new_account {
            panic_with_error!(e, RWAError::IdentityMismatch);
        }
""", """        // Verify that the new account is the recovery target for the old account
        let recovery_target = identity_verifier_client
            .recovery_target(old_account)
            .unwrap_or_else(|| panic_with_error!(e, RWAError::IdentityMismatch));

        if recovery_target != *new_account {
            panic_with_error!(e, RWAError::IdentityMismatch);
        }

        identity_verifier_client.verify_identity(new_account);
"""),
}

def sh(cmd, **kw):
    return subprocess.run(cmd, shell=True, stdout=subprocess.PIPE, stderr=subprocess.STDOUT, text=True, **kw)

def main():
    names = sys.argv[1:] or list(MUT)
    seed = os.environ.get("VERIF_SEED", "1")
    for nm in names:
        sh(f"git -C {WT} checkout -- .")
        ent = MUT[nm]
        edits = ent[1] if ent[0] == "multi" else [(ent[0], ent[1], ent[2], 1, 1)]
        bad = False
        for path, old, new, lo, hi in edits:
            src = open(path).read()
            if not (lo <= src.count(old) <= hi):
                print(f"{nm}: PATTERN COUNT {src.count(old)} not in [{lo},{hi}] for {old[:50]!r}"); bad = True; break
            open(path, "w").write(src.replace(old, new))
        if bad: continue
        r = sh(f"cd /verif && VERIF_REPO={WT} VERIF_SEED={seed} ./check C04")
        lines = [l for l in r.stdout.splitlines() if l.startswith(("VIOLATION", "BROKEN", "C04:", "KNOWN"))]
        print(f"{nm}: exit={r.returncode} | " + " | ".join(lines), flush=True)
        if r.returncode == 2: print(r.stdout[-3000:])
    sh(f"git -C {WT} checkout -- .")

main()
