#!/usr/bin/env python3
"""tools/mk_b3.py <ID> <missed seeded names...>: writes .cache/prompts/b3-<ID>.txt from records/prompts/followup-round3.txt"""
import json, sys, os
ROOT = os.path.dirname(os.path.dirname(os.path.abspath(__file__)))
t = open(os.path.join(ROOT, "records/prompts/followup-round3.txt")).read()
pid, names = sys.argv[1], sys.argv[2:]
missed = "\n".join(f"  - /verif/seeded/{n}: " + json.load(open(f"{ROOT}/seeded/{n}/meta.json"))["summary"][:600].replace("\n", " ") for n in names)
s = t.replace("__ID__", pid).replace("__id__", pid.lower()).replace("__MISSED__", missed)
open(f"{ROOT}/.cache/prompts/b3-{pid}.txt", "w").write(s); print(len(s))
