#!/usr/bin/env python3
"""No-false-alarm drill: applies ALL behaviour-preserving rewrites of /verif/harmless/H*/patch.diff together to one
scratch worktree and runs every property's quick check against it (VERIF_REPO mode). Every check must exit 0 with no
VIOLATION line (C07 prints its KNOWN-FINDING). Usage: tools/harmless.py [IDs...]   Writes harmless/RESULTS.md."""
import os, sys, json, subprocess, glob, shutil, time
ROOT = os.path.dirname(os.path.dirname(os.path.abspath(__file__)))
WT = os.environ.get("HARMLESS_WT", "/tmp/wt-harmless")
LO, HI = (int(x) for x in os.environ.get("HARMLESS_RANGE", "1-14").split("-"))   # batch 1 = H01..H14, batch 2 = H15..H30 (the batches overlap in files)
def sh(cmd): return subprocess.run(cmd, shell=True, stdout=subprocess.PIPE, stderr=subprocess.STDOUT, text=True)
ids = sys.argv[1:] or [json.loads(l)["id"] for l in open(os.path.join(ROOT, "properties.jsonl"))]
sh(f"git -C /repo worktree remove --force {WT}; git -C /repo worktree prune")
r = sh(f"git -C /repo worktree add --detach {WT} HEAD")
if r.returncode: print(r.stdout); sys.exit(2)
rows, alt = [], None
try:
    for p in sorted(glob.glob(os.path.join(ROOT, "harmless", "H*", "patch.diff"))):
        if not LO <= int(os.path.basename(os.path.dirname(p))[1:]) <= HI: continue
        a = sh(f"git -C {WT} apply {p}")
        if a.returncode: print("does not apply:", p, a.stdout); sys.exit(2)
    for pid in ids:
        t0 = time.time()
        c = sh(f"cd {ROOT} && VERIF_REPO={WT} ./check {pid}")
        for line in c.stdout.splitlines():
            if line.startswith("alt-mode:"): alt = line.split("alt-cache=")[1].split()[0]
        viol = [l for l in c.stdout.splitlines() if l.startswith("VIOLATION")]
        verdict = "QUIET" if c.returncode == 0 and not viol else ("BROKEN" if c.returncode == 2 else "FALSE-ALARM")
        rows.append((pid, verdict, round(time.time() - t0)))
        print(pid, verdict, flush=True)
        if verdict != "QUIET": open(os.path.join(ROOT, ".cache", f"harmless-{pid}.log"), "w").write(c.stdout)
finally:
    sh(f"git -C /repo worktree remove --force {WT}; git -C /repo worktree prune")
    if alt and os.path.basename(alt).startswith("alt-"): shutil.rmtree(alt, ignore_errors=True)
if not sys.argv[1:]:
    with open(os.path.join(ROOT, "harmless", "RESULTS.md" if LO == 1 else f"RESULTS-H{LO}-H{HI}.md"), "w") as f:
        f.write(f"All behaviour-preserving rewrites harmless/H{LO:02d}..H{HI:02d} ( written by an independent sub-agent; the 1131 baseline tests pass with them) applied together; every quick check must stay quiet.\n\n| property | result | s |\n|---|---|---|\n")
        for r in rows: f.write("| " + " | ".join(str(x) for x in r) + " |\n")
sys.exit(0 if all(r[1] == "QUIET" for r in rows) else 1)
