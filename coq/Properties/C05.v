(* C05 - Vault share accounting always rounds in the vault's favour.
   This file contains only pinned statements, each closed by [exact] of a lemma proved in Proofs/,
   followed by Print Assumptions, and Examples (non-vacuity).

   Vocabulary (Model/Vault.v): [state] = ledger + asset token + share token (the vault); [step c s call] =
   (state after, outcome), a failing call returns the old state; [run c s calls] = state after a history;
   [init c n0] = freshly constructed vault at ledger n0; [total_assets s] = asset balance of the vault (address
   V = 0), [total_supply s] = share supply; [c_off c] = decimals offset, so 10 ^ c_off c is the virtual share
   amount.  [wf_call] (Proofs/VaultOps.v) is the boolean input condition: the amount is an i128 and the
   vault's own address is not among the signers (the vault contract cannot sign).  A state is "reachable" if
   it is [run c (init c n0) cs] for calls [cs] satisfying [wf_call].  [exact Floor n d] / [exact Ceil n d]
   (Proofs/Math.v, C12) are floor / ceiling of the rational n/d. *)
From SC Require Import Lib.Prelude Lib.Int Lib.Host Model.Math Proofs.Math Model.Vault
  Proofs.VaultSpec Proofs.VaultToken Proofs.VaultOps Proofs.VaultRate Proofs.VaultTrips Proofs.VaultLive Proofs.C05Final Proofs.VaultWealth Proofs.C05Final2
  Run.C05 Proofs.C05Monitor Proofs.C05Special.

(* ---- the vault's configuration: the constructor succeeds exactly for an offset <= MAX_DECIMALS_OFFSET whose
   sum with the asset's decimals fits u32, storing the asset address and the offset; the library setters
   work once only; on every reachable state both entries are still the constructor's, every further
   set_asset / set_decimals_offset fails, and total_assets() is the asset token's balance of the vault ---- *)
Theorem C05_constructor : forall c n0,
  construct c n0 = if c_max_off c <? c_off c then Fail
                   else if in_u32 (c_adec c + c_off c) then Ok (init c n0, c_adec c + c_off c) else Fail.
Proof. exact constructor_final. Qed.
Print Assumptions C05_constructor.

Theorem C05_setters_once : forall c s,
  (forall a, vault_set_asset s a = match v_asset s with
                                   | Some _ => Fail
                                   | None => Ok {| now := now s; asset := asset s; share := share s; v_asset := Some a; v_off := v_off s |}
                                   end) /\
  (forall off, vault_set_decimals_offset c s off =
               if c_max_off c <? off then Fail
               else match v_off s with
                    | Some _ => Fail
                    | None => Ok {| now := now s; asset := asset s; share := share s; v_asset := v_asset s; v_off := Some off |}
                    end).
Proof. exact setters_final. Qed.
Print Assumptions C05_setters_once.

Theorem C05_config_never_changes : forall c n0 cs, 0 <= c_off c -> forallb wf_call cs = true ->
  let s := run c (init c n0) cs in
  v_asset s = Some ASSET_ADDR /\ v_off s = Some (c_off c) /\
  query_asset s = Ok ASSET_ADDR /\ get_decimals_offset s = c_off c /\
  total_assets_r s = Ok (total_assets s) /\
  (forall a, snd (step c s (SetAsset a)) = Fail) /\ (forall off, snd (step c s (SetOffset off)) = Fail).
Proof. exact config_final. Qed.
Print Assumptions C05_config_never_changes.

(* ---- each conversion equals the exact rational formula rounded in the stated direction ---- *)

(* spec_conv P x num den rd: x * num / den rounded by rd; fails exactly when x < 0, or an effective total
   (10^offset, S + 10^offset, A + 1) or the rounded result does not fit in i128 *)
Theorem C05_formula_spec : forall P x num den rd,
  spec_conv P x num den rd =
    if x <? 0 then Fail
    else if x =? 0 then Ok 0
    else if in_i128 P && in_i128 num && in_i128 den && negb (den =? 0)
         then (if in_i128 (exact rd (x * num) den) then Ok (exact rd (x * num) den) else Fail)
         else Fail.
Proof. exact spec_conv_unfold. Qed.
Print Assumptions C05_formula_spec.

(* for EVERY state whose two configuration entries are the constructor's (C05_config_never_changes: all
   reachable ones) and every i128 amount (intermediate products beyond i128 included: the model goes through the
   C12 model of mul_div_i128 with its 256-bit fallback); the conversions READ the stored offset and asset *)
Theorem C05_formula : forall c s x, v_asset s = Some ASSET_ADDR -> v_off s = Some (c_off c) -> MIN128 <= x <= MAX128 ->
  let A := total_assets s in let S := total_supply s in let P := 10 ^ c_off c in
  convert_to_shares c s x = spec_conv P x (S + P) (A + 1) Floor /\
  preview_deposit c s x = spec_conv P x (S + P) (A + 1) Floor /\
  preview_withdraw c s x = spec_conv P x (S + P) (A + 1) Ceil /\
  convert_to_assets c s x = spec_conv P x (A + 1) (S + P) Floor /\
  preview_redeem c s x = spec_conv P x (A + 1) (S + P) Floor /\
  preview_mint c s x = spec_conv P x (A + 1) (S + P) Ceil.
Proof. exact formula_final. Qed.
Print Assumptions C05_formula.

Theorem C05_formula_max : forall c n0 cs o, 0 <= c_off c -> forallb wf_call cs = true ->
  let s := run c (init c n0) cs in
  let A := total_assets s in let S := total_supply s in let P := 10 ^ c_off c in
  max_withdraw c s o = spec_conv P (bal (share s) o) (A + 1) (S + P) Floor /\
  max_redeem s o = bal (share s) o /\ max_deposit o = MAX128 /\ max_mint o = MAX128.
Proof. exact max_formula_final. Qed.
Print Assumptions C05_formula_max.

(* floor and ceiling, for the positive denominators that occur *)
Theorem C05_floor_ceil_exact : forall n d, 0 < d ->
  (exact Floor n d * d <= n < (exact Floor n d + 1) * d) /\
  ((exact Ceil n d - 1) * d < n <= exact Ceil n d * d).
Proof. exact exact_pos_final. Qed.
Print Assumptions C05_floor_ceil_exact.

(* ---- rounding direction: deposits and redeems round what the user receives down, mints and withdrawals
   round what the user pays up - never by a whole unit - on every reachable state ---- *)
Theorem C05_rounding_direction : forall c n0 cs x,
  0 <= c_off c -> forallb wf_call cs = true -> MIN128 <= x <= MAX128 ->
  let s := run c (init c n0) cs in
  let A := total_assets s in let S := total_supply s in let P := 10 ^ c_off c in
  0 < A + 1 /\ 0 < S + P /\
  (forall q, preview_deposit c s x = Ok q -> q * (A + 1) <= x * (S + P) < (q + 1) * (A + 1)) /\
  (forall q, preview_redeem c s x = Ok q -> q * (S + P) <= x * (A + 1) < (q + 1) * (S + P)) /\
  (forall q, preview_mint c s x = Ok q -> x * (A + 1) <= q * (S + P) /\ (0 < x -> (q - 1) * (S + P) < x * (A + 1))) /\
  (forall q, preview_withdraw c s x = Ok q -> x * (S + P) <= q * (A + 1) /\ (0 < x -> (q - 1) * (A + 1) < x * (S + P))).
Proof. exact rounding_direction_final. Qed.
Print Assumptions C05_rounding_direction.

(* ---- the assets-per-share rate (A+1)/(S+10^off) never decreases: every call (deposit, mint, withdraw,
   redeem, donation = asset transfer to the vault, yield, share transfers, approvals, ledger advance,
   failing calls), from every reachable state; cross-multiplied, denominators are positive ---- *)
Theorem C05_rate_monotone_step : forall c n0 cs cl,
  0 <= c_off c -> forallb wf_call cs = true -> wf_call cl = true ->
  let s := run c (init c n0) cs in let s' := fst (step c s cl) in let P := 10 ^ c_off c in
  (total_assets s + 1) * (total_supply s' + P) <= (total_assets s' + 1) * (total_supply s + P).
Proof. exact rate_step_final. Qed.
Print Assumptions C05_rate_monotone_step.

Theorem C05_rate_monotone : forall c n0 cs1 cs2,
  0 <= c_off c -> forallb wf_call cs1 = true -> forallb wf_call cs2 = true ->
  let s := run c (init c n0) cs1 in let s' := run c (init c n0) (cs1 ++ cs2) in let P := 10 ^ c_off c in
  (total_assets s + 1) * (total_supply s' + P) <= (total_assets s' + 1) * (total_supply s + P).
Proof. exact rate_history_final. Qed.
Print Assumptions C05_rate_monotone.

(* ---- no round trip profits: the four two-step round trips, between arbitrary parties, from every
   reachable state: deposit a -> redeem (at most) the minted shares returns <= a; mint paying a -> redeem
   returns <= a; deposit a minting sh -> withdraw (at least) a burns >= sh; mint x paying a -> withdraw
   (at least) a burns >= x ---- *)
Theorem C05_no_round_trip_profit : forall c n0 cs, 0 <= c_off c -> forallb wf_call cs = true ->
  let s := run c (init c n0) cs in
  (forall a r f o au s1 sh e1 x r' ow o' au' s2 a' e2,
     wf_call (Deposit a r f o au) = true -> wf_call (Redeem x r' ow o' au') = true ->
     step c s (Deposit a r f o au) = (s1, Ok (sh, e1)) -> x <= sh ->
     step c s1 (Redeem x r' ow o' au') = (s2, Ok (a', e2)) -> a' <= a) /\
  (forall x r f o au s1 a e1 y r' ow o' au' s2 a' e2,
     wf_call (MintS x r f o au) = true -> wf_call (Redeem y r' ow o' au') = true ->
     step c s (MintS x r f o au) = (s1, Ok (a, e1)) -> y <= x ->
     step c s1 (Redeem y r' ow o' au') = (s2, Ok (a', e2)) -> a' <= a) /\
  (forall a r f o au s1 sh e1 y r' ow o' au' s2 sh' e2,
     wf_call (Deposit a r f o au) = true -> wf_call (Withdraw y r' ow o' au') = true ->
     step c s (Deposit a r f o au) = (s1, Ok (sh, e1)) -> a <= y ->
     step c s1 (Withdraw y r' ow o' au') = (s2, Ok (sh', e2)) -> sh <= sh') /\
  (forall x r f o au s1 a e1 y r' ow o' au' s2 sh' e2,
     wf_call (MintS x r f o au) = true -> wf_call (Withdraw y r' ow o' au') = true ->
     step c s (MintS x r f o au) = (s1, Ok (a, e1)) -> a <= y ->
     step c s1 (Withdraw y r' ow o' au') = (s2, Ok (sh', e2)) -> x <= sh').
Proof. exact round_trips_final. Qed.
Print Assumptions C05_no_round_trip_profit.

(* with an arbitrary history (other users, donations) between deposit and redeem, what comes back is bounded
   by the growth of the rate since before the deposit: a'/a <= rate(at redeem)/rate(before deposit);
   by C05_rate_monotone that growth comes only from donations/yield and rounding dust *)
Theorem C05_profit_bounded_by_rate : forall c n0 cs0 a r f o au s1 sh e1 cs x r' ow o' au' s3 a' e2,
  0 <= c_off c -> forallb wf_call cs0 = true ->
  let s := run c (init c n0) cs0 in let P := 10 ^ c_off c in
  wf_call (Deposit a r f o au) = true -> forallb wf_call cs = true -> wf_call (Redeem x r' ow o' au') = true ->
  step c s (Deposit a r f o au) = (s1, Ok (sh, e1)) -> x <= sh ->
  step c (run c s1 cs) (Redeem x r' ow o' au') = (s3, Ok (a', e2)) ->
  a' * (total_supply (run c s1 cs) + P) * (total_assets s + 1)
    <= a * (total_assets (run c s1 cs) + 1) * (total_supply s + P).
Proof. exact profit_bounded_final. Qed.
Print Assumptions C05_profit_bounded_by_rate.

(* the same bound for all four ways in and out: in by deposit or mint ([a] assets for [sh] shares at state s), any
   history, out by redeem or withdraw of at most those shares ([a'] assets for [x] <= [sh] shares at state s2) *)
Theorem C05_in_out_bounded_by_rate : forall c n0 cs0 cin s1 vin e1 cs cout s3 vout e2,
  0 <= c_off c -> forallb wf_call cs0 = true ->
  let s := run c (init c n0) cs0 in let P := 10 ^ c_off c in
  wf_call cin = true -> forallb wf_call cs = true -> wf_call cout = true ->
  step c s cin = (s1, Ok (vin, e1)) ->
  step c (run c s1 cs) cout = (s3, Ok (vout, e2)) ->
  let s2 := run c s1 cs in
  let a := match cin with Deposit a _ _ _ _ => a | _ => vin end in
  let sh := match cin with Deposit _ _ _ _ _ => vin | _ => call_amount cin end in
  let a' := match cout with Redeem _ _ _ _ _ => vout | _ => call_amount cout end in
  let x := match cout with Redeem x _ _ _ _ => x | _ => vout end in
  match cin, cout with
  | (Deposit _ _ _ _ _ | MintS _ _ _ _ _), (Redeem _ _ _ _ _ | Withdraw _ _ _ _ _) =>
      x <= sh ->
      a' * (total_supply s2 + P) * (total_assets s + 1) <= a * (total_assets s2 + 1) * (total_supply s + P)
  | _, _ => True
  end.
Proof. exact in_out_bounded_final. Qed.
Print Assumptions C05_in_out_bounded_by_rate.

(* ---- the per-participant reading of the headline clause.
   wealth(u, s) = assets u holds + his shares at the rate of s = abal u + sb u * (A+1)/(S+P).
   An operation a participant performs for himself (receiver = from/owner = operator = u) never increases his
   wealth, measured after the operation at the new rate against before at the old rate (cross-multiplied by the
   two positive denominators): rounding only ever costs the one who acts.  By C05_rate_monotone every OTHER step
   can only raise the rate, i.e. everybody's share value: donations, yield and the rounding losses of others are
   the only sources of gain.  (Transfers and operations for third parties move wealth by consent.) ---- *)
Theorem C05_own_operation_never_profits : forall c n0 cs u cl s' v evs,
  0 <= c_off c -> forallb wf_call cs = true -> u <> V ->
  let s := run c (init c n0) cs in let P := 10 ^ c_off c in
  wf_call cl = true -> step c s cl = (s', Ok (v, evs)) ->
  match cl with
  | Deposit _ r f o _ | MintS _ r f o _ | Withdraw _ r f o _ | Redeem _ r f o _ =>
      r = u -> f = u -> o = u ->
      (bal (asset s') u * (total_supply s' + P) + bal (share s') u * (total_assets s' + 1)) * (total_supply s + P)
      <= (bal (asset s) u * (total_supply s + P) + bal (share s) u * (total_assets s + 1)) * (total_supply s' + P)
  | _ => True
  end.
Proof. exact own_operation_final. Qed.
Print Assumptions C05_own_operation_never_profits.

(* all claims are covered: whatever set of distinct holders redeemed everything at the current rate, the vault
   holds enough - nobody's exit is paid with somebody else's principal *)
Theorem C05_claims_def : forall c s, claims c s [] = 0 /\
  forall u l, claims c s (u :: l) =
    exact Floor (bal (share s) u * (total_assets s + 1)) (total_supply s + 10 ^ c_off c) + claims c s l.
Proof. exact claims_unfold. Qed.
Print Assumptions C05_claims_def.
Theorem C05_all_claims_covered : forall c n0 cs l, 0 <= c_off c -> forallb wf_call cs = true -> NoDup l ->
  let s := run c (init c n0) cs in
  claims c s l <= total_assets s.
Proof. exact claims_covered_final. Qed.
Print Assumptions C05_all_claims_covered.

(* the LITERAL reading of the headline clause ("never more out than in + donations") is refuted - in the model and,
   the harness scenario S7-dust agreeing, in the code: without any donation or yield user 1 puts in 10 and takes
   out 17, the ceil-rounded payments of user 2's ten one-share mints having raised the rate.  This is the
   behaviour the rest of the property text prescribes (rounding in the vault's = the holders' favour); the clause
   is proved in the forms above. *)
Theorem C05_no_profit_literal_refuted :
  exists c n0 cs u, 0 <= c_off c /\ forallb wf_call cs = true /\ forallb (fun cl => negb (is_donation cl)) cs = true /\
    bal (asset (run c (init c n0) (firstn 2 cs))) u = 10 /\
    bal (share (run c (init c n0) cs)) u = 0 /\ bal (asset (run c (init c n0) cs)) u = 17.
Proof. exact literal_refuted. Qed.
Print Assumptions C05_no_profit_literal_refuted.

(* ---- every preview returns exactly what the corresponding operation then returns (any state) ---- *)
Theorem C05_preview_exact : forall c s cl s' v evs, step c s cl = (s', Ok (v, evs)) ->
  match cl with
  | Deposit a _ _ _ _ => preview_deposit c s a = Ok v
  | MintS x _ _ _ _ => preview_mint c s x = Ok v
  | Withdraw a _ _ _ _ => preview_withdraw c s a = Ok v
  | Redeem x _ _ _ _ => preview_redeem c s x = Ok v
  | _ => True
  end.
Proof. exact preview_exact_final. Qed.
Print Assumptions C05_preview_exact.

(* ---- an operation moves exactly the returned amounts between exactly the named parties (any state).
   dep_moves s s' au evs assets shares r f o  (Proofs/C05Final.v) says: [assets] go from [f] to the vault
   ([move], sequential, so f = vault is a no-op), [shares] are minted to [r], supply grows by [shares], the
   asset allowance f->o shrinks by [assets] iff o <> f, every other balance / allowance / the ledger is
   unchanged, the operator signed (root and nested call), the event carries the same numbers.
   wd_moves: [shares] burned from [ow], [assets] from the vault to [r], share allowance ow->o shrinks by
   [shares] iff o <> ow, nothing else changes (the stored asset address and offset included). ---- *)
Theorem C05_moves_exactly : forall c s cl s' v evs, step c s cl = (s', Ok (v, evs)) ->
  match cl with
  | Deposit a r f o au => dep_moves s s' au evs a v r f o
  | MintS x r f o au => dep_moves s s' au evs v x r f o
  | Withdraw a r ow o au => wd_moves s s' au evs a v r ow o
  | Redeem x r ow o au => wd_moves s s' au evs v x r ow o
  | _ => True
  end.
Proof. exact moves_exactly_final. Qed.
Print Assumptions C05_moves_exactly.

Theorem C05_move_spec : forall (m : bmap) f t x,
  (forall a, a <> f -> a <> t -> move m f t x a = m a) /\
  (f <> t -> move m f t x f = m f - x /\ move m f t x t = m t + x) /\
  move m f f x f = m f.
Proof. exact move_spec_final. Qed.
Print Assumptions C05_move_spec.

Theorem C05_failed_call_no_effect : forall c s cl,
  (snd (step c s cl) = Fail -> fst (step c s cl) = s) /\ (forall q, cl = Query q -> fst (step c s cl) = s).
Proof. exact no_effect_final. Qed.
Print Assumptions C05_failed_call_no_effect.

(* ---- assets <= max_withdraw(owner) => the preview succeeds, the required shares are within the owner's
   balance and the assets within the vault's holdings ---- *)
Theorem C05_withdraw_within_means : forall c n0 cs ow a m, 0 <= c_off c -> forallb wf_call cs = true ->
  let s := run c (init c n0) cs in
  max_withdraw c s ow = Ok m -> 0 <= a <= m ->
  exists sh, preview_withdraw c s a = Ok sh /\ 0 <= sh <= bal (share s) ow /\ a <= total_assets s.
Proof. exact within_means_final. Qed.
Print Assumptions C05_withdraw_within_means.

(* ---- and then the owner, signing himself, really gets out: withdraw up to max_withdraw and redeem up to
   max_redeem (once the preview succeeds) never fail, on every reachable state ---- *)
Theorem C05_within_means_succeeds : forall c n0 cs, 0 <= c_off c -> forallb wf_call cs = true ->
  let s := run c (init c n0) cs in
  (forall au a r ow m, auth_root au ow = true -> max_withdraw c s ow = Ok m -> 0 <= a <= m ->
     exists s' sh evs, step c s (Withdraw a r ow ow au) = (s', Ok (sh, evs))) /\
  (forall au x r ow a, auth_root au ow = true -> 0 <= x <= max_redeem s ow -> preview_redeem c s x = Ok a ->
     exists s' evs, step c s (Redeem x r ow ow au) = (s', Ok (a, evs))).
Proof. exact within_means_succeeds_final. Qed.
Print Assumptions C05_within_means_succeeds.

(* ---- deposit and mint fail only when they must: on every reachable state they succeed EXACTLY when the
   preview succeeds, the new share supply fits in i128, the operator signed the call together with the nested
   asset-token call, [from] holds the assets and - for an operator other than [from] - the allowance covers them
   (its live_until within the host's maximal TTL, which holds for every allowance that was approved) ---- *)
Theorem C05_deposit_mint_fail_only_when_must : forall c n0 cs, 0 <= c_off c -> forallb wf_call cs = true ->
  let s := run c (init c n0) cs in
  let pull (au : auths) (assets : Z) (f o : addr) :=
    auth_full au o = true /\ 0 <= assets <= bal (asset s) f /\
    (o <> f -> 0 <= assets <= allowance (now s) (asset s) f o /\
               (0 < assets -> snd (allow (asset s) f o) <= now s + c_max_ttl c - 1)) in
  (forall au a r f o,
     (exists s' sh evs, step c s (Deposit a r f o au) = (s', Ok (sh, evs))) <->
     (exists sh, preview_deposit c s a = Ok sh /\ total_supply s + sh <= MAX128 /\ pull au a f o)) /\
  (forall au x r f o, MIN128 <= x <= MAX128 ->
     ((exists s' a evs, step c s (MintS x r f o au) = (s', Ok (a, evs))) <->
      (exists a, preview_mint c s x = Ok a /\ total_supply s + x <= MAX128 /\ pull au a f o))).
Proof. exact deposit_mint_iff_final. Qed.
Print Assumptions C05_deposit_mint_fail_only_when_must.

(* ---- special addresses as parties.  [actor cl] is the address whose require_auth() opens the call: the operator
   of deposit / mint / withdraw / redeem, the sender of a transfer, the owner of an approve, the spender of a
   transfer_from.  A call whose actor is not among the signers fails in EVERY state, whoever the actor is (the
   vault's own address, the asset token contract's address, an account) and whatever allowances or balances it
   has; in particular (wf_call: the vault cannot sign) no call is ever performed BY the vault ---- *)
Theorem C05_actor_def : forall cl, actor cl =
  match cl with
  | Deposit _ _ _ o _ | MintS _ _ _ o _ | Withdraw _ _ _ o _ | Redeem _ _ _ o _ => Some o
  | ATransfer f _ _ _ | STransfer f _ _ _ => Some f
  | AApprove o _ _ _ _ | SApprove o _ _ _ _ => Some o
  | STransferFrom sp _ _ _ _ => Some sp
  | AMint _ _ | Advance _ | Query _ | SetAsset _ | SetOffset _ => None
  end.
Proof. exact actor_unfold. Qed.
Print Assumptions C05_actor_def.

Theorem C05_unsigned_party_cannot_act : forall c s cl a,
  actor cl = Some a -> auth_root (call_auths cl) a = false -> step c s cl = (s, Fail).
Proof. exact unsigned_party_final. Qed.
Print Assumptions C05_unsigned_party_cannot_act.

Theorem C05_vault_cannot_act : forall c s cl, wf_call cl = true -> actor cl = Some V -> step c s cl = (s, Fail).
Proof. exact vault_cannot_act_final. Qed.
Print Assumptions C05_vault_cannot_act.

(* ---- the vault's own address is never a SOURCE: on every reachable state it has granted no allowance, neither
   on the asset token nor on its own shares; a successful call naming it as from / owner moves nothing (only the
   zero amount passes); the shares held by the vault's own address never decrease, and the vault's assets decrease
   only through a successful withdraw / redeem (which pays exactly the returned amounts: C05_moves_exactly) ---- *)
Theorem C05_vault_grants_no_allowance : forall c n0 cs sp, 0 <= c_off c -> forallb wf_call cs = true ->
  let s := run c (init c n0) cs in
  allowance (now s) (asset s) V sp = 0 /\ allowance (now s) (share s) V sp = 0.
Proof. exact vault_no_allowance_final. Qed.
Print Assumptions C05_vault_grants_no_allowance.

Theorem C05_vault_never_a_source : forall c n0 cs cl s' v evs,
  0 <= c_off c -> forallb wf_call cs = true -> wf_call cl = true ->
  let s := run c (init c n0) cs in
  step c s cl = (s', Ok (v, evs)) ->
  match cl with
  | Deposit a _ f _ _ => f = V -> a = 0
  | MintS _ _ f _ _ => f = V -> v = 0
  | Withdraw a _ ow _ _ => ow = V -> a = 0 /\ v = 0
  | Redeem x _ ow _ _ => ow = V -> x = 0 /\ v = 0
  | STransferFrom _ f _ a _ => f = V -> a = 0
  | ATransfer f _ _ _ | STransfer f _ _ _ => f <> V
  | AApprove o _ _ _ _ | SApprove o _ _ _ _ => o <> V
  | _ => True
  end.
Proof. exact vault_never_source_final. Qed.
Print Assumptions C05_vault_never_a_source.

Theorem C05_vault_holdings_locked : forall c n0 cs cl,
  0 <= c_off c -> forallb wf_call cs = true -> wf_call cl = true ->
  let s := run c (init c n0) cs in let s' := fst (step c s cl) in
  bal (share s) V <= bal (share s') V /\
  (total_assets s' < total_assets s ->
   match cl with Withdraw _ _ _ _ _ | Redeem _ _ _ _ _ => snd (step c s cl) <> Fail | _ => False end).
Proof. exact vault_holdings_final. Qed.
Print Assumptions C05_vault_holdings_locked.

(* ---- aliasing: an operator other than from / owner needs the allowance for what is moved, in every state and for
   EVERY receiver - receiver = operator, receiver = owner, receiver = the vault included; a transfer_from always
   needs it, spender = from included ---- *)
Theorem C05_operator_needs_allowance : forall c s cl s' v evs, step c s cl = (s', Ok (v, evs)) ->
  match cl with
  | Deposit a _ f o _ => o <> f -> 0 <= a <= allowance (now s) (asset s) f o
  | MintS _ _ f o _ => o <> f -> 0 <= v <= allowance (now s) (asset s) f o
  | Withdraw _ _ ow o _ => o <> ow -> 0 <= v <= allowance (now s) (share s) ow o
  | Redeem x _ ow o _ => o <> ow -> 0 <= x <= allowance (now s) (share s) ow o
  | STransferFrom sp f _ a _ => 0 <= a <= allowance (now s) (share s) f sp
  | _ => True
  end.
Proof. exact operator_needs_allowance_final. Qed.
Print Assumptions C05_operator_needs_allowance.

(* ---- allowance histories: past its live_until an allowance is dead, whatever amount is still stored, until it is
   approved again (any state) ---- *)
Theorem C05_expired_asset_allowance_unusable : forall c s o f,
  snd (allow (asset s) f o) < now s -> o <> f ->
  (forall a r au, 0 < a -> snd (step c s (Deposit a r f o au)) = Fail) /\
  (forall x r au a, preview_mint c s x = Ok a -> 0 < a -> snd (step c s (MintS x r f o au)) = Fail).
Proof. exact expired_allowance_final. Qed.
Print Assumptions C05_expired_asset_allowance_unusable.

Theorem C05_expired_share_allowance_unusable : forall c s o ow,
  snd (allow (share s) ow o) < now s -> o <> ow ->
  (forall x r au, 0 < x -> snd (step c s (Redeem x r ow o au)) = Fail) /\
  (forall a r au sh, preview_withdraw c s a = Ok sh -> 0 < sh -> snd (step c s (Withdraw a r ow o au)) = Fail).
Proof. exact expired_share_allowance_final. Qed.
Print Assumptions C05_expired_share_allowance_unusable.

(* ---- share accounting on every reachable state: any set of distinct holders owns at most the supply ---- *)
Theorem C05_accounting_invariant : forall c n0 cs, 0 <= c_off c -> forallb wf_call cs = true ->
  let s := run c (init c n0) cs in
  (forall a, 0 <= bal (share s) a <= total_supply s) /\ 0 <= total_supply s <= MAX128 /\
  (forall l, NoDup l -> sum_over (bal (share s)) l <= total_supply s) /\
  (forall a, 0 <= bal (asset s) a) /\ 0 <= total_assets s <= MAX128.
Proof. exact accounting_final. Qed.
Print Assumptions C05_accounting_invariant.

(* ---- the executable monitor (the property as a boolean over observed calls, outcomes and getter values;
   Run/C05.v) accepts every trace of the model, and the diff of the model with itself is empty.
   The monitor also tracks the ledger and every approve's live_until from the call inputs: across any Advance an
   allowance must read unchanged up to its live_until and 0 after it, balances, supply, decimals() and
   query_asset() must read unchanged (state must not lapse with time).
   The monitor checks the trace itself too (Run/C05.v: wf_hdr, wf_call_obs, obs_shape, the clock, the first
   observation = the empty vault), so these are not assumptions about implementation traces; here they are the
   conditions on the inputs of the model run:
   wf_hdr: offset and asset decimals are non-negative (u32), the observed universe is not empty; the start ledger
   is a u32; wf_call_obs n: wf_call and every address a call names lies in the observed universe. ---- *)
Theorem C05_monitor_accepts_model : forall c n now0 cs,
  wf_hdr c n = true -> in_u32 now0 = true -> forallb (wf_call_obs n) cs = true ->
  check (observe_model c n now0 cs) = (0%N, 0%N, 0%N).
Proof. exact check_accepts_model. Qed.
Print Assumptions C05_monitor_accepts_model.

(* ---------- non-vacuity ---------- *)
Definition ex_cfg : cfg := {| c_off := 1; c_max_off := 10; c_adec := 7; c_max_ttl := 6312000 |}.
Definition ex_calls : list call :=
  [AMint 1%N 1000; AMint 2%N 500; AMint 3%N 77;
   Deposit 10 1%N 1%N 1%N [(1%N, AFull)];
   ATransfer 3%N 0%N 77 [(3%N, ARoot)];                       (* donation: the rate is now 88/110 *)
   AApprove 2%N 1%N 100 200 [(2%N, ARoot)];
   Deposit 33 3%N 2%N 1%N [(1%N, AFull)];                     (* operator 1 deposits 2's assets for 3: 33*110/88 = 41.25 -> 41 *)
   Withdraw 7 2%N 1%N 1%N [(1%N, ARoot)]].                    (* 7*151/121 = 8.7 -> 9 shares burned *)
(* the hypotheses of the theorems hold for this history, every call succeeds, and rounding really happens *)
Example C05_reachable_nontrivial :
  forallb wf_call ex_calls = true /\ forallb (wf_call_obs 4%N) ex_calls = true /\ wf_hdr ex_cfg 4%N = true /\
  let s := run ex_cfg (init ex_cfg 100) ex_calls in
  total_assets s = 113 /\ total_supply s = 132 /\ bal (share s) 1%N = 91 /\ bal (share s) 3%N = 41 /\
  bal (asset s) 2%N = 474 /\ allowance (now s) (asset s) 2%N 1%N = 67 /\
  preview_redeem ex_cfg s 41 = Ok 32 /\ preview_mint ex_cfg s 41 = Ok 33 /\
  max_withdraw ex_cfg s 3%N = Ok 32 /\ preview_withdraw ex_cfg s 32 = Ok 40 /\
  snd (step ex_cfg (run ex_cfg (init ex_cfg 100) (firstn 6 ex_calls)) (nth 6 ex_calls (Advance 0)))
    = Ok (41, [(0%N, 1%N, 2%N, 3%N, 33, 41)]).
Proof. vm_compute. repeat split. Qed.

(* wide intermediate products: x * (S + P) far beyond i128, the quotient fits; and a quotient that does not fit *)
Example C05_wide_products :
  let s := run ex_cfg (init ex_cfg 100) [AMint 1%N (2 ^ 120); Deposit (2 ^ 110) 1%N 1%N 1%N [(1%N, AFull)]] in
  total_supply s = 2 ^ 110 * 10 /\
  preview_deposit ex_cfg s (2 ^ 100 + 1) = Ok (12676506002282294014967032053770) /\
  preview_redeem ex_cfg s (2 ^ 126) = Ok 8507059173023461586584365185794205286 /\
  preview_deposit ex_cfg s (2 ^ 125) = Fail.
Proof. vm_compute. repeat split. Qed.

(* the input condition "the vault does not sign" is necessary: with a signature of the vault's own address
   (which the contract cannot produce) a deposit from the vault to itself mints unbacked shares and the rate
   drops from 101/1010 to 101/1510 *)
Example C05_vault_signature_would_break_rate :
  let s := run ex_cfg (init ex_cfg 100) [AMint 1%N 100; Deposit 100 1%N 1%N 1%N [(1%N, AFull)]] in
  let bad := Deposit 50 1%N 0%N 0%N [(0%N, AFull)] in
  wf_call bad = false /\ snd (step ex_cfg s bad) = Ok (500, [(0%N, 0%N, 0%N, 1%N, 50, 500)]) /\
  total_assets (fst (step ex_cfg s bad)) = total_assets s /\
  total_supply (fst (step ex_cfg s bad)) = total_supply s + 500.
Proof. vm_compute. repeat split. Qed.

(* special parties on a reachable state: the vault's own address holds 500 shares (a deposit named it as receiver)
   and 550 assets, user 1 has approved the vault as spender on both tokens - and still no call by or from the
   vault goes through; only the zero amount passes; a withdrawal to the vault itself burns shares and keeps the
   assets; an operator who is also the receiver needs the allowance *)
Example C05_special_parties_nontrivial :
  let cs := [AMint 1%N 1000; Deposit 500 1%N 1%N 1%N [(1%N, AFull)]; Deposit 50 0%N 1%N 1%N [(1%N, AFull)];
             AApprove 1%N 0%N 100 200 [(1%N, ARoot)]; SApprove 1%N 0%N 100 200 [(1%N, ARoot)]] in
  let s := run ex_cfg (init ex_cfg 100) cs in
  forallb wf_call cs = true /\ total_assets s = 550 /\ bal (share s) V = 500 /\ allowance (now s) (asset s) 1%N V = 100 /\
  snd (step ex_cfg s (Deposit 10 2%N V V [])) = Fail /\
  snd (step ex_cfg s (Deposit 10 2%N V 2%N [(2%N, AFull)])) = Fail /\
  snd (step ex_cfg s (Redeem 5 2%N V 2%N [(2%N, ARoot)])) = Fail /\
  snd (step ex_cfg s (Deposit 10 1%N 1%N V [(1%N, AFull)])) = Fail /\
  snd (step ex_cfg s (Redeem 5 1%N 1%N V [(1%N, ARoot)])) = Fail /\
  snd (step ex_cfg s (Redeem 0 2%N V 2%N [(2%N, ARoot)])) = Ok (0, [(1%N, 2%N, 2%N, 0%N, 0, 0)]) /\
  snd (step ex_cfg s (Withdraw 7 V 1%N 1%N [(1%N, ARoot)])) = Ok (70, [(1%N, 1%N, 0%N, 1%N, 7, 70)]) /\
  total_assets (fst (step ex_cfg s (Withdraw 7 V 1%N 1%N [(1%N, ARoot)]))) = 550 /\
  snd (step ex_cfg s (Redeem 30 2%N 1%N 2%N [(2%N, ARoot)])) = Fail.
Proof. vm_compute. repeat split. Qed.

(* observation (not part of the property; liveness at saturation): once total_supply + 10^offset exceeds
   i128::MAX every conversion fails, so holders can neither redeem nor withdraw although max_redeem still
   reports their balance.  The real contract behaves the same way (scenario S3-supply-saturated of the
   harness agrees with the model).  Reaching it needs a share supply within 10^offset of 2^127. *)
Example C05_supply_saturation_locks_redemption :
  let big := (MAX128 - 20) / 10 in
  let cs := [AMint 1%N big; AMint 2%N 100; Deposit big 1%N 1%N 1%N [(1%N, AFull)];
             MintS 17 2%N 2%N 2%N [(2%N, AFull)]; MintS 1 2%N 2%N 2%N [(2%N, AFull)]] in
  let s := run ex_cfg (init ex_cfg 100) cs in
  forallb wf_call cs = true /\ MAX128 - total_supply s = 9 /\
  max_redeem s 1%N = 170141183460469231731687303715884105700 /\
  preview_redeem ex_cfg s 1 = Fail /\ max_withdraw ex_cfg s 1%N = Fail /\
  snd (step ex_cfg s (Redeem 1 1%N 1%N 1%N [(1%N, ARoot)])) = Fail /\
  snd (step ex_cfg s (Withdraw 1 1%N 1%N 1%N [(1%N, ARoot)])) = Fail.
Proof. vm_compute. repeat split. Qed.

(* the conversions read the STORED offset and asset address: on a (non-reachable) state whose offset entry is
   missing they are priced with offset 0, with a missing asset address they trap *)
Example C05_conversions_read_stored_configuration :
  let c := {| c_off := 3; c_max_off := 10; c_adec := 7; c_max_ttl := 6312000 |} in
  let s := run c (init c 100) [AMint 1%N 1000; Deposit 10 1%N 1%N 1%N [(1%N, AFull)]] in
  let lost_off := {| now := now s; asset := asset s; share := share s; v_asset := v_asset s; v_off := None |} in
  let lost_asset := {| now := now s; asset := asset s; share := share s; v_asset := None; v_off := v_off s |} in
  preview_deposit c s 10 = Ok 10000 /\ preview_deposit c lost_off 10 = Ok 9091 /\ preview_deposit c lost_asset 10 = Fail /\
  vault_decimals c s = Ok 10 /\ vault_decimals c lost_off = Ok 7 /\
  snd (step c lost_off (SetOffset 9)) = Ok (0, []).
Proof. vm_compute. repeat split. Qed.
