(* C08 - A timelocked operation runs once, only after its delay and its predecessor.

   Model: coq/Model/Timelock.v transcribes packages/governance/src/timelock/storage.rs
   (schedule_operation, set_execute_operation / execute_operation, cancel_operation,
   set_min_delay, the state getters).  [hash : op -> id] is hash_operation; nothing is
   assumed about it unless a statement says so.  [hist hash s cs] is the run log of the
   call sequence [cs] from state [s]: for every call, the call, the ledger and the minimum
   delay in force when it was made, and whether it succeeded ([he_call], [he_now], [he_min],
   [he_ok]).  [init n0] is a fresh contract at ledger n0; ledgers 0 and 1 are the storage
   sentinels UNSET_LEDGER / DONE_LEDGER, hence 2 <= n0.

   This file contains only pinned statements, each closed by [exact] of a lemma proved in
   Proofs/, followed by Print Assumptions; and Examples. *)
From SC Require Import Lib.Prelude Lib.Int Lib.Host Model.Timelock Model.TimelockGhost
  Proofs.Timelock Proofs.C08Final Proofs.C08Exact Run.C08 Proofs.C08Monitor.

(* Whenever an execute (execute_operation or set_execute_operation) of operation [o]
   succeeds, in any call sequence from a fresh contract:
   the log before it contains a successful schedule of an operation with the same id,
   made at ledger [at_] with [delay] while the minimum delay in force was [m] <= [delay];
   that delay has fully elapsed (saturating at u32::MAX, like the stored ready ledger);
   since that schedule nothing succeeded on the id (it was not cancelled, not executed,
   not scheduled again); before that schedule the id was never executed;
   the predecessor is zero or was executed earlier; and for execute_operation the target
   invocation succeeded. *)
Theorem C08_execute_conditions :
  forall (hash : op -> id) n0 cs H1 e H2 o,
    2 <= n0 <= MAXU32 ->
    hist hash (init n0) cs = H1 ++ e :: H2 ->
    executes (he_call e) = Some o -> he_ok e = true ->
    exists Ha o' delay m at_ Hb,
      H1 = Ha ++ HE (Schedule o' delay) at_ (Some m) true :: Hb /\ hash o' = hash o /\
      m <= delay /\ Z.min (at_ + delay) MAXU32 <= he_now e /\
      (forall x, In x Hb -> subject hash (he_call x) = Some (hash o) -> he_ok x = false) /\
      (forall x o2, In x Ha -> executes (he_call x) = Some o2 -> hash o2 = hash o -> he_ok x = false) /\
      (pred o = 0%N \/
       exists x o2, In x H1 /\ executes (he_call x) = Some o2 /\ hash o2 = pred o /\ he_ok x = true) /\
      (forall t, he_call e = Execute o t -> t = true).
Proof. exact execute_conditions. Qed.
Print Assumptions C08_execute_conditions.

(* Post-conditions of the successful calls, from ANY state: a successful execute
   (execute_operation or set_execute_operation) leaves the id Done; a successful cancel needs a
   pending id and leaves it Unset; a successful schedule needs an Unset id and delay >= the minimum
   delay, returns the id of the descriptor and stores min(now + delay, u32::MAX). *)
Theorem C08_execute_marks_done :
  forall (hash : op -> id) s c o,
    executes c = Some o -> is_ok (snd (step hash s c)) = true ->
    state_of (tls (fst (step hash s c))) (hash o) = Done.
Proof. exact execute_marks_done. Qed.
Print Assumptions C08_execute_marks_done.
Theorem C08_cancel_clears :
  forall (hash : op -> id) s i,
    is_ok (snd (step hash s (Cancel i))) = true ->
    (state_of (tls s) i = Waiting \/ state_of (tls s) i = Ready) /\
    state_of (tls (fst (step hash s (Cancel i)))) i = Unset.
Proof. exact cancel_clears. Qed.
Print Assumptions C08_cancel_clears.
Theorem C08_schedule_stores_ready_ledger :
  forall (hash : op -> id) s o d,
    0 <= now (tls s) -> is_ok (snd (step hash s (Schedule o d))) = true ->
    state_of (tls s) (hash o) = Unset /\ (exists m, min_delay (tls s) = Some m /\ m <= d) /\
    snd (step hash s (Schedule o d)) = Ok (Some (hash o)) /\
    mark (tls (fst (step hash s (Schedule o d)))) (hash o) = Z.min (now (tls s) + d) MAXU32.
Proof. exact schedule_stores_ready_ledger. Qed.
Print Assumptions C08_schedule_stores_ready_ledger.

(* Done is forever: from ANY state in which id [i] is Done, after any call sequence it is
   still Done and every schedule / execute / cancel naming it has failed. *)
Theorem C08_done_forever :
  forall (hash : op -> id) cs s i,
    state_of (tls s) i = Done ->
    state_of (tls (run hash s cs)) i = Done /\
    forall x, In x (hist hash s cs) -> subject hash (he_call x) = Some i -> he_ok x = false.
Proof. exact done_forever. Qed.
Print Assumptions C08_done_forever.

(* The reported state of every id moves only along Unset -> Waiting -> Ready -> Done, or
   back to Unset by cancel; each arrow only by the call entitled to it and only for the id
   that call names; Waiting -> Ready only by the clock (Advance) reaching the stored ledger.
   A successful schedule stores min(now + delay, u32::MAX). *)
Theorem C08_state_machine :
  forall (hash : op -> id) s c i,
    2 <= now (tls s) ->
    let s' := fst (step hash s c) in
    match state_of (tls s) i, state_of (tls s') i with
    | Unset, Unset | Waiting, Waiting | Ready, Ready | Done, Done => True
    | Unset, Waiting | Unset, Ready =>
        exists o d, c = Schedule o d /\ hash o = i /\ mark (tls s') i = Z.min (now (tls s) + d) MAXU32
    | Waiting, Ready => exists n, c = Advance n /\ mark (tls s) i <= now (tls s) + n
    | Waiting, Unset | Ready, Unset => c = Cancel i
    | Ready, Done => exists o, executes c = Some o /\ hash o = i
    | _, _ => False
    end.
Proof. exact state_machine. Qed.
Print Assumptions C08_state_machine.

(* what the four states mean in terms of the stored ready ledger and the clock *)
Theorem C08_waiting_until_ready_ledger :
  forall s i, state_of s i = Waiting <-> mark s i <> 0 /\ mark s i <> 1 /\ now s < mark s i.
Proof. exact state_waiting_iff. Qed.
Print Assumptions C08_waiting_until_ready_ledger.
Theorem C08_ready_from_ready_ledger :
  forall s i, state_of s i = Ready <-> mark s i <> 0 /\ mark s i <> 1 /\ mark s i <= now s.
Proof. exact state_ready_iff. Qed.
Print Assumptions C08_ready_from_ready_ledger.

(* The id is a function of the descriptor (hash is a function), a call touches only the id
   it names, and with a collision-free hash distinct descriptors have independent state. *)
Theorem C08_call_touches_only_its_id :
  forall (hash : op -> id) s c i,
    subject hash c <> Some i -> mark (tls (fst (step hash s c))) i = mark (tls s) i.
Proof. exact step_frame. Qed.
Print Assumptions C08_call_touches_only_its_id.
Theorem C08_id_deterministic :
  forall (hash : op -> id),
    (forall a b, hash a = hash b -> a = b) ->
    forall s c o,
      (forall o' d, c = Schedule o' d -> o' <> o) ->
      (forall o', executes c = Some o' -> o' <> o) ->
      c <> Cancel (hash o) ->
      mark (tls (fst (step hash s c))) (hash o) = mark (tls s) (hash o).
Proof. exact id_independent. Qed.
Print Assumptions C08_id_deterministic.
(* that hypothesis is satisfiable: the explicit pairing used for execution is injective *)
Theorem C08_injective_hash_exists : forall a b, hash_pair a = hash_pair b -> a = b.
Proof. exact hash_pair_inj. Qed.
Print Assumptions C08_injective_hash_exists.

(* Persistence: the minimum delay changes only by set_min_delay, and any amount of time
   passing - in any number of steps of any length - leaves every stored ready ledger, the
   minimum delay and the target's counters exactly as they are (a call touches only the id it
   names: C08_call_touches_only_its_id above). *)
Theorem C08_min_delay_changes_only_by_set_min_delay :
  forall (hash : op -> id) s c,
    min_delay (tls (fst (step hash s c))) <> min_delay (tls s) -> exists d, c = SetMinDelay d.
Proof. exact min_delay_frame. Qed.
Print Assumptions C08_min_delay_changes_only_by_set_min_delay.
Theorem C08_time_changes_nothing_stored :
  forall (hash : op -> id) cs s,
    forallb is_advance cs = true ->
    marks (tls (run hash s cs)) = marks (tls s) /\ min_delay (tls (run hash s cs)) = min_delay (tls s) /\
    runs (run hash s cs) = runs s /\ now (tls s) <= now (tls (run hash s cs)).
Proof. exact time_changes_nothing_stored. Qed.
Print Assumptions C08_time_changes_nothing_stored.

(* ---------------- follow-up: special parties, unusual values, aliasing ---------------- *)
(* EXACTLY when each call succeeds (both directions).  The decision looks at the descriptor only
   through its id and its predecessor field: no target (the timelock's own address, another
   contract, an account), no function symbol, argument vector or salt is privileged, and every
   delay from 0 to u32::MAX is treated alike. *)
Theorem C08_call_succeeds_exactly_when :
  forall (hash : op -> id) s c,
    0 <= now (tls s) ->
    (is_ok (snd (step hash s c)) = true <->
     match c with
     | Schedule o d =>
         0 <= d <= MAXU32 /\ state_of (tls s) (hash o) = Unset /\
         exists m, min_delay (tls s) = Some m /\ m <= d
     | Execute o t =>
         t = true /\ state_of (tls s) (hash o) = Ready /\ (pred o = 0%N \/ state_of (tls s) (pred o) = Done)
     | SetExecute o =>
         state_of (tls s) (hash o) = Ready /\ (pred o = 0%N \/ state_of (tls s) (pred o) = Done)
     | Cancel i => state_of (tls s) i = Waiting \/ state_of (tls s) i = Ready
     | SetMinDelay d => 0 <= d <= MAXU32
     | Advance n => 0 <= n /\ now (tls s) + n <= MAXU32
     end).
Proof. exact call_succeeds_iff. Qed.
Print Assumptions C08_call_succeeds_exactly_when.
(* two descriptors with one id are interchangeable for schedule, and - with the same predecessor
   field - for set_execute_operation: whole step (new state and outcome) *)
Theorem C08_descriptor_matters_only_through_id :
  forall (hash : op -> id) s o1 o2,
    hash o1 = hash o2 ->
    (forall d, step hash s (Schedule o1 d) = step hash s (Schedule o2 d)) /\
    (pred o1 = pred o2 -> step hash s (SetExecute o1) = step hash s (SetExecute o2)).
Proof. exact descriptor_only_through_id. Qed.
Print Assumptions C08_descriptor_matters_only_through_id.
(* every delay value alike: scheduled at ledger n >= 2 with delay d, the operation is Waiting at
   exactly the ledgers below min(n + d, u32::MAX) and Ready at exactly the ledgers from it on
   (d = 0: Ready at once; n + d > u32::MAX: Ready only at the very last ledger) *)
Theorem C08_scheduled_ready_exactly_from :
  forall (hash : op -> id) s o d k,
    2 <= now (tls s) <= MAXU32 ->
    is_ok (snd (step hash s (Schedule o d))) = true ->
    0 <= k -> now (tls s) + k <= MAXU32 ->
    let s' := fst (step hash (fst (step hash s (Schedule o d))) (Advance k)) in
    (state_of (tls s') (hash o) = Ready <-> Z.min (now (tls s) + d) MAXU32 <= now (tls s) + k) /\
    (state_of (tls s') (hash o) = Waiting <-> now (tls s) + k < Z.min (now (tls s) + d) MAXU32).
Proof. exact scheduled_ready_exactly_from. Qed.
Print Assumptions C08_scheduled_ready_exactly_from.
(* aliasing: an operation whose predecessor field is its own id (not constructible with a real
   hash, but nothing in the model forbids it) is never executed, by either entry path *)
Theorem C08_self_predecessor_never_executes :
  forall (hash : op -> id) n0 cs H1 e H2 o,
    2 <= n0 <= MAXU32 ->
    hist hash (init n0) cs = H1 ++ e :: H2 ->
    executes (he_call e) = Some o -> pred o = hash o -> pred o <> 0%N -> he_ok e = false.
Proof. exact self_predecessor_never_executes. Qed.
Print Assumptions C08_self_predecessor_never_executes.

(* The monitor run on the implementation's traces (Run/C08.v: the property over observed
   calls, outcomes and getter values only) accepts every run of the model, and the model's
   diff with itself is empty - for every start ledger >= 2, universe of ids and tags, and
   every measured id table that is a function and injective and whose ids, predecessors and
   argument tags are all observed ([tbl_in]; [check] verifies both on every trace). *)
Theorem C08_monitor_accepts_model :
  forall n0 ids tags tbl cs,
    2 <= n0 <= MAXU32 -> tbl_ok tbl = true -> tbl_in ids tags tbl = true ->
    check (model_trace n0 ids tags tbl cs) = (0%N, 0%N, 0%N).
Proof. exact check_accepts_model. Qed.
Print Assumptions C08_monitor_accepts_model.

(* ---------------- non-vacuity ---------------- *)
(* a reachable history in which an execute succeeds, with a predecessor chain *)
Example C08_execute_reachable :
  let a := Op 1 0 1 0 0 in
  let b := Op 1 0 2 (hash_pair a) 0 in
  map he_ok (hist hash_pair (init 10)
        [SetMinDelay 5; Schedule a 5; Schedule b 7; Advance 4; Execute a true; Advance 1; Execute a true;
         Execute a true; Advance 2; Execute b true; Cancel (hash_pair b); Schedule a 9])
  = [true; true; true; true; false; true; true; false; true; true; false; false].
Proof. vm_compute. reflexivity. Qed.
(* a reachable Done state at ledger >= 2, by the reported state *)
Example C08_done_reachable :
  let a := Op 1 0 1 0 0 in
  let s := run hash_pair (init 10) [SetMinDelay 5; Schedule a 5; Advance 5; Execute a true] in
  state_of (tls s) (hash_pair a) = Done /\ mark (tls s) (hash_pair a) = 1 /\ now (tls s) = 15.
Proof. vm_compute. repeat split. Qed.
(* why ledgers 0 and 1 are excluded: at ledger 1 a delay-0 schedule stores the DONE sentinel *)
Example C08_sentinel_ledgers_excluded :
  let a := Op 1 0 1 0 0 in
  state_of (tls (run hash_pair (init 1) [SetMinDelay 0; Schedule a 0])) (hash_pair a) = Done /\
  state_of (tls (run hash_pair (init 0) [SetMinDelay 0; Schedule a 0])) (hash_pair a) = Unset /\
  state_of (tls (run hash_pair (init 2) [SetMinDelay 0; Schedule a 0])) (hash_pair a) = Ready.
Proof. vm_compute. repeat split. Qed.
(* saturation: a delay that does not fit is stored as u32::MAX and is Waiting before the last ledger *)
Example C08_saturation :
  let a := Op 1 0 1 0 0 in
  let s := run hash_pair (init 10) [SetMinDelay 0; Schedule a MAXU32] in
  mark (tls s) (hash_pair a) = MAXU32 /\ state_of (tls s) (hash_pair a) = Waiting /\
  state_of (tls (run hash_pair s [Advance (MAXU32 - 11)])) (hash_pair a) = Waiting /\
  state_of (tls (run hash_pair s [Advance (MAXU32 - 10)])) (hash_pair a) = Ready.
Proof. vm_compute. repeat split. Qed.

(* an operation that targets the timelock itself (target 3 in the harness's numbering) behind an
   external predecessor: refused until the predecessor is executed, then marked by set_execute_operation,
   never twice *)
Example C08_self_target_reachable :
  let a := Op 1 0 1 0 0 in
  let sfo := Op 3 9 7 (hash_pair a) 0 in
  map he_ok (hist hash_pair (init 40)
        [SetMinDelay 3; Schedule sfo 2; Schedule sfo 3; Schedule a 3; Advance 3; SetExecute sfo; Execute sfo false;
         Execute a true; SetExecute sfo; SetExecute sfo; Execute sfo true])
  = [true; false; true; true; true; false; false; true; true; false; false].
Proof. vm_compute. reflexivity. Qed.
(* a self-referential predecessor exists in the model (hash = constant 5) and blocks for ever *)
Example C08_self_predecessor_blocks :
  let h := fun _ : op => 5%N in
  let o := Op 1 0 1 5 0 in
  map he_ok (hist h (init 10) [SetMinDelay 0; Schedule o 0; Execute o true; SetExecute o; Advance 100; Execute o true])
  = [true; true; false; false; true; false].
Proof. vm_compute. reflexivity. Qed.
