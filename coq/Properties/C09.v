(* C09 - A self-administered timelock controller cannot be driven around its own delay.

   Model: coq/Model/TimelockController.v transcribes examples/timelock-controller/src/contract.rs
   (__check_auth after fix fd487bd, schedule_op / execute_op / cancel_op / update_delay, the
   AccessControl entry points of packages/access/src/access_control/storage.rs under only_admin /
   only_role as expanded by packages/macros) on top of the timelock model of C08.
   A call carries everything its caller attached: the ordinary accounts that signed it
   ([a_plain]), at most one authorisation entry for the controller's own address ([a_self]: root
   invocation, further invocations of its tree, descriptor list = the "signature") and the
   (executor, operation) signatures usable inside __check_auth ([a_exec]).
   [require_auth] is the host's dispatch: for the controller's own address it calls
   __check_auth(descriptors, [root; subs...]) of an entry whose root is the running invocation.
   [hash] (operation ids) and [aid] (argument vectors -> argument ids) are arbitrary functions.

   Only pinned statements (closed by [exact]) and Examples. *)
From SC Require Import Lib.Prelude Lib.Int Lib.Host Model.Timelock Model.TimelockGhost Model.TimelockController
  Proofs.Timelock Proofs.C08Final Proofs.Controller Proofs.C09Final Proofs.C09Enum Proofs.C09Extreme Run.C09 Proofs.C09Monitor.

(* __check_auth (fixed code) succeeds only with exactly one descriptor per context; every context
   names the controller; the operation (controller, fn, args, predecessor, salt) it stands for was
   Ready and is Done afterwards, its predecessor is zero or Done; when executors are configured the
   descriptor names an account holding the executor role, which signed for exactly that operation -
   or which is the controller itself: the host then takes the controller's running entry point as
   the authorisation (invoker-contract rule; [direct] = false: __check_auth called by the host
   inside an entry point, true: called directly by the test utility, where that rule cannot apply);
   nothing else of the state changes. *)
Theorem C09_check_auth_consumes :
  forall (hash : op -> id) (cf : cfg) direct s metas ctxs xa s',
    check_auth hash cf direct s metas ctxs xa = Ok s' ->
    length metas = length ctxs /\ acs s' = acs s /\ cruns s' = cruns s /\
    now (ctl s') = now (ctl s) /\ min_delay (ctl s') = min_delay (ctl s) /\
    forall k c m, nth_error ctxs k = Some c -> nth_error metas k = Some m ->
      exists f a, c = CtxC (self cf) f a /\
        let o := Op (self cf) f a (m_pred m) (m_salt m) in
        state_of (ctl s) (hash o) = Ready /\ state_of (ctl s') (hash o) = Done /\
        (m_pred m = 0%N \/ state_of (ctl s') (m_pred m) = Done) /\
        (role_count (acs s) EXECUTOR <> 0 ->
         exists x, m_exec m = Some x /\ holds (acs s) x EXECUTOR = true /\
                   (x = self cf /\ direct = false \/ x <> self cf /\ xa_has xa x o = true)).
Proof. exact check_auth_consumes. Qed.
Print Assumptions C09_check_auth_consumes.

(* The code before the fix (zip truncation): with nothing scheduled, executors configured and the
   controller as its own admin, the context of update_delay(0) with NO descriptor is accepted and
   nothing is consumed; the fixed code refuses it, directly and end to end. *)
Theorem C09_prefix_refuted :
  marks (ctl ex_state) = [] /\ admin (acs ex_state) = Some (self C09Final.ex_cf) /\ role_count (acs ex_state) EXECUTOR = 1 /\
  check_auth_prefix hash_pair C09Final.ex_cf true ex_state [] [CtxC 1 F_update_delay 0] [] = Ok ex_state /\
  (exists s', check_auth_prefix hash_pair C09Final.ex_cf true ex_state [] [CtxC 1 F_update_delay 0] [] = Ok s' /\ marks (ctl s') = []) /\
  check_auth hash_pair C09Final.ex_cf true ex_state [] [CtxC 1 F_update_delay 0] [] = Fail /\
  step_ok hash_pair ex_aid C09Final.ex_cf ex_state
    (UpdateDelay 0 (AZ [] (Some (SE (CtxC 1 F_update_delay 0) [] [])) [])) = Fail.
Proof. exact prefix_refuted. Qed.
Print Assumptions C09_prefix_refuted.

(* In ANY state whose admin is the controller itself: an admin-only entry point (update_delay,
   set_role_admin, transfer_admin_role, renounce_admin) and grant_role / revoke_role /
   renounce_role called with the controller as signer succeed only by consuming - in that very
   call - a Ready operation (controller, that function, those arguments, predecessor, salt), with
   the signature of an executor when executors are configured - unless the controller itself was
   given the executor role and is named as the executor ([consumes], Model/TimelockController.v). *)
Theorem C09_self_admin_call_consumes :
  forall (hash : op -> id) (aid : argv -> N) (cf : cfg) s c s' r,
    step_ok hash aid cf s c = Ok (s', r) -> admin (acs s) = Some (self cf) ->
    self_admin_call cf c -> consumes hash aid cf s c s'.
Proof. exact self_admin_call_consumes. Qed.
Print Assumptions C09_self_admin_call_consumes.

(* ... and nothing else can have the effect: with the controller as admin, the minimum delay, the
   role admins, the admin and the pending admin offer change only through such a consuming call;
   role membership changes only by grant/revoke of the controller (consuming) or of a signer holding
   that role's admin role, or by the holder renouncing; the admin transfer is completed only by the
   account the (admin-only) transfer named, with its signature. *)
Theorem C09_admin_effect_needs_ready_op :
  forall (hash : op -> id) (aid : argv -> N) (cf : cfg) s c s' r,
    step_ok hash aid cf s c = Ok (s', r) -> admin (acs s) = Some (self cf) ->
    ((min_delay (ctl s') <> min_delay (ctl s) \/ radmin (acs s') <> radmin (acs s) \/
      ((admin (acs s') <> admin (acs s) \/ pending (acs s') <> pending (acs s)) /\ forall au, c <> AcceptAdmin au))
     -> self_admin_call cf c /\ consumes hash aid cf s c s') /\
    (forall ro, mem_list (acs s') ro <> mem_list (acs s) ro ->
       (exists a k au, (c = GrantRole a ro k au \/ c = RevokeRole a ro k au) /\
          (k = self cf /\ consumes hash aid cf s c s'
           \/ k <> self cf /\ has_auth (a_plain au) k = true /\
              exists ar, role_admin (acs s) ro = Some ar /\ holds (acs s) k ar = true))
       \/ (exists k au, c = RenounceRole ro k au /\ holds (acs s) k ro = true /\
             (k = self cf -> consumes hash aid cf s c s') /\ (k <> self cf -> has_auth (a_plain au) k = true))) /\
    (forall au, c = AcceptAdmin au ->
       exists pa, tget (now (ctl s)) (pending (acs s)) = Some pa /\ admin (acs s') = Some pa /\
                  (pa <> self cf -> has_auth (a_plain au) pa = true)).
Proof. exact admin_effect_needs_ready_op. Qed.
Print Assumptions C09_admin_effect_needs_ready_op.

(* schedule needs the proposer role, cancel the canceller role, execute - whenever an executor is
   configured - the executor role; each with that account's signature (for the controller's own
   address: a consuming authorisation). *)
Theorem C09_roles :
  forall (hash : op -> id) (aid : argv -> N) (cf : cfg) s s' r,
    (forall o d p au, step_ok hash aid cf s (ScheduleOp o d p au) = Ok (s', r) ->
       holds (acs s) p PROPOSER = true /\
       (p <> self cf -> has_auth (a_plain au) p = true) /\
       (p = self cf -> exists s1, auth_ok hash aid cf s (ScheduleOp o d p au) (self cf) s1)) /\
    (forall i k au, step_ok hash aid cf s (CancelOp i k au) = Ok (s', r) ->
       holds (acs s) k CANCELLER = true /\
       (k <> self cf -> has_auth (a_plain au) k = true) /\
       (k = self cf -> exists s1, auth_ok hash aid cf s (CancelOp i k au) (self cf) s1)) /\
    (forall o x tgt au, step_ok hash aid cf s (ExecuteOp o x tgt au) = Ok (s', r) ->
       role_count (acs s) EXECUTOR <> 0 ->
       exists e, x = Some e /\ holds (acs s) e EXECUTOR = true /\
         (e <> self cf -> has_auth (a_plain au) e = true) /\
         (e = self cf -> exists s1, auth_ok hash aid cf s (ExecuteOp o x tgt au) (self cf) s1)).
Proof. exact roles. Qed.
Print Assumptions C09_roles.

(* Persistence: any amount of time passing - in any number of steps of any length - leaves admin,
   role membership and enumeration, role admins, the stored pending-admin entry, every stored ready
   ledger, the minimum delay and the target's counters exactly as they are. *)
Theorem C09_time_changes_nothing_stored :
  forall (hash : op -> id) (aid : argv -> N) (cf : cfg) cs s,
    forallb C09Final.is_advance cs = true ->
    let s' := run hash aid cf s cs in
    acs s' = acs s /\ marks (ctl s') = marks (ctl s) /\ min_delay (ctl s') = min_delay (ctl s) /\
    cruns s' = cruns s /\ now (ctl s) <= now (ctl s').
Proof. exact C09Final.time_changes_nothing_stored. Qed.
Print Assumptions C09_time_changes_nothing_stored.

(* Over every call sequence from the constructor (ledger >= 2): an operation that is pending in the
   reached state was scheduled by a successful schedule_op of an account that held the proposer
   role then and signed, with a delay >= the minimum delay then in force; nothing succeeded on its
   id since (not cancelled, not executed, not re-scheduled); and if it is Ready its delay has fully
   elapsed.  ([chist] = the timelock-level run log: per successful call the operations its
   authorisation consumed, then its own schedule / cancel / execute.)  Together with the theorems
   above: no admin effect without a scheduled, elapsed, consumed operation. *)
Theorem C09_pending_op_was_scheduled_by_proposer :
  forall (hash : op -> id) (aid : argv -> N) (cf : cfg) n0 md props execs adm s0 cs i,
    2 <= n0 <= MAXU32 -> construct cf n0 md props execs adm = Ok s0 ->
    let s := run hash aid cf s0 cs in
    state_of (ctl s) i = Waiting \/ state_of (ctl s) i = Ready ->
    exists Ha o d m at_ Hb pre p au rest,
      chist hash aid cf s0 cs = Ha ++ HE (Schedule o d) at_ (Some m) true :: Hb /\ hash o = i /\ m <= d /\
      (forall x, In x Hb -> subject hash (he_call x) = Some i -> he_ok x = false) /\
      cs = pre ++ ScheduleOp o d p au :: rest /\
      snd (step hash aid cf (run hash aid cf s0 pre) (ScheduleOp o d p au)) <> Fail /\
      holds (acs (run hash aid cf s0 pre)) p PROPOSER = true /\
      (p <> self cf -> has_auth (a_plain au) p = true) /\
      now (ctl (run hash aid cf s0 pre)) = at_ /\ min_delay (ctl (run hash aid cf s0 pre)) = Some m /\
      (state_of (ctl s) i = Ready -> Z.min (at_ + d) MAXU32 <= now (ctl s)).
Proof. exact pending_op_was_scheduled_by_proposer. Qed.
Print Assumptions C09_pending_op_was_scheduled_by_proposer.

(* END TO END, over every call sequence from the constructor: whenever - with the controller as its own
   admin - an admin-only entry point (or grant/revoke/renounce by the controller) succeeds, that call
   consumed an operation o = (controller, that function, those arguments, pred, salt): Ready before, Done
   after; and a successful schedule_op of an operation o' with the same id (o' = o when hash is
   collision-free) lies earlier in the history, made by an account that held the proposer role then and
   signed, with delay >= the minimum delay in force then; nothing succeeded on the id in between (not
   cancelled, not executed, not re-scheduled) and the delay has fully elapsed. *)
Theorem C09_self_admin_call_was_scheduled :
  forall (hash : op -> id) (aid : argv -> N) (cf : cfg) n0 md props execs adm s0 cs c s' r,
    2 <= n0 <= MAXU32 -> construct cf n0 md props execs adm = Ok s0 ->
    let s := run hash aid cf s0 cs in
    step_ok hash aid cf s c = Ok (s', r) -> admin (acs s) = Some (self cf) -> self_admin_call cf c ->
    consumes hash aid cf s c s' /\
    exists se m rest0,
      a_self (authz_of c) = Some se /\ se_metas se = m :: rest0 /\
      let o := Op (self cf) (fn_of c) (aid (argv_of c)) (m_pred m) (m_salt m) in
      state_of (ctl s) (hash o) = Ready /\ state_of (ctl s') (hash o) = Done /\
      exists Ha o' d mm at_ Hb pre p au rest,
        chist hash aid cf s0 cs = Ha ++ HE (Schedule o' d) at_ (Some mm) true :: Hb /\ hash o' = hash o /\
        ((forall a b, hash a = hash b -> a = b) -> o' = o) /\ mm <= d /\
        (forall x, In x Hb -> subject hash (he_call x) = Some (hash o) -> he_ok x = false) /\
        cs = pre ++ ScheduleOp o' d p au :: rest /\
        snd (step hash aid cf (run hash aid cf s0 pre) (ScheduleOp o' d p au)) <> Fail /\
        holds (acs (run hash aid cf s0 pre)) p PROPOSER = true /\
        (p <> self cf -> has_auth (a_plain au) p = true) /\
        now (ctl (run hash aid cf s0 pre)) = at_ /\ min_delay (ctl (run hash aid cf s0 pre)) = Some mm /\
        Z.min (at_ + d) MAXU32 <= now (ctl s).
Proof. exact self_admin_call_was_scheduled. Qed.
Print Assumptions C09_self_admin_call_was_scheduled.

(* ... and the admin transfer: whenever accept_admin_transfer succeeds, the new admin is an account that
   an earlier successful transfer_admin_role of this history named (and it signed, unless it is the
   controller, which then consumed an operation: C09_admin_effect_needs_ready_op); that
   transfer_admin_role, if the controller was its own admin then, consumed a Ready operation for exactly
   that call (hence C09_self_admin_call_was_scheduled applies to it). *)
Theorem C09_accepted_admin_was_offered :
  forall (hash : op -> id) (aid : argv -> N) (cf : cfg) n0 md props execs adm s0 cs au s' r,
    construct cf n0 md props execs adm = Ok s0 ->
    let s := run hash aid cf s0 cs in
    step_ok hash aid cf s (AcceptAdmin au) = Ok (s', r) ->
    exists pa pre lu au' rest,
      admin (acs s') = Some pa /\ (pa <> self cf -> has_auth (a_plain au) pa = true) /\
      cs = pre ++ TransferAdmin pa lu au' :: rest /\
      snd (step hash aid cf (run hash aid cf s0 pre) (TransferAdmin pa lu au')) <> Fail /\
      (admin (acs (run hash aid cf s0 pre)) = Some (self cf) ->
       consumes hash aid cf (run hash aid cf s0 pre) (TransferAdmin pa lu au')
                (fst (step hash aid cf (run hash aid cf s0 pre) (TransferAdmin pa lu au')))).
Proof. exact accepted_admin_was_offered. Qed.
Print Assumptions C09_accepted_admin_was_offered.

(* The history machine of C08 accepts the controller's timelock-level run log, i.e. every
   execution (by execute_op or by a consuming authorisation) satisfies C08's conditions. *)
Theorem C09_controller_refines_timelock :
  forall (hash : op -> id) (aid : argv -> N) (cf : cfg) cs s g,
    ginv (ctl s) g ->
    exists g', gfold hash g (chist hash aid cf s cs) = Some g' /\ ginv (ctl (run hash aid cf s cs)) g'.
Proof. exact crun_ghost. Qed.
Print Assumptions C09_controller_refines_timelock.

(* WHO holds a role (and may therefore schedule / cancel / execute / be named as executor) is what the
   enumeration getters show, in every state reached from the constructor by any call sequence: for every
   role the enumeration get_role_member(0 .. count-1) lists no account twice, get_role_member_count is
   its length, an account holds the role exactly when it is enumerated, and has_role(account) = Some i
   exactly when the account is the i-th enumerated member - whatever the order of grants and of
   swap-and-pop removals was. *)
Theorem C09_role_enumeration_sound :
  forall (hash : op -> id) (aid : argv -> N) (cf : cfg) n0 md props execs adm s0 cs,
    construct cf n0 md props execs adm = Ok s0 ->
    let a := acs (run hash aid cf s0 cs) in
    forall ro,
      NoDup (mem_list a ro) /\ role_count a ro = Z.of_nat (length (mem_list a ro)) /\
      (forall x, holds a x ro = true <-> In x (mem_list a ro)) /\
      (forall x i, has_role a x ro = Some i <->
                   0 <= i < role_count a ro /\ nth_error (mem_list a ro) (Z.to_nat i) = Some x).
Proof. exact role_enumeration_sound. Qed.
Print Assumptions C09_role_enumeration_sound.

(* A revocation through the timelock is final: over every call sequence from the constructor, once
   revoke_role(x, ro) or renounce_role(ro) by x has succeeded, x does not hold ro after ANY further
   calls among which no grant_role names (x, ro) again - whatever is granted, revoked or renounced for
   other accounts or roles in between, in any order.  Hence x cannot schedule (ro = proposer), cancel
   (ro = canceller), and - while executors are configured - neither execute nor be the executor named
   in an authorisation of the controller (ro = executor). *)
Theorem C09_revoked_stays_revoked :
  forall (hash : op -> id) (aid : argv -> N) (cf : cfg) n0 md props execs adm s0 pre c rest x ro s1 r0,
    construct cf n0 md props execs adm = Ok s0 ->
    step_ok hash aid cf (run hash aid cf s0 pre) c = Ok (s1, r0) ->
    (exists k au, c = RevokeRole x ro k au) \/ (exists au, c = RenounceRole ro x au) ->
    forallb (fun c' => negb (match c' with GrantRole a r _ _ => N.eqb a x && N.eqb r ro | _ => false end)) rest = true ->
    let s := run hash aid cf s1 rest in
    holds (acs s) x ro = false /\
    (ro = PROPOSER -> forall o d au, step_ok hash aid cf s (ScheduleOp o d x au) = Fail) /\
    (ro = CANCELLER -> forall i au, step_ok hash aid cf s (CancelOp i x au) = Fail) /\
    (ro = EXECUTOR -> role_count (acs s) EXECUTOR <> 0 ->
       (forall o tgt au, step_ok hash aid cf s (ExecuteOp o (Some x) tgt au) = Fail) /\
       (forall direct xa cx m, m_exec m = Some x -> check_ctx hash cf direct xa s cx m = Fail)).
Proof. exact revoked_stays_revoked. Qed.
Print Assumptions C09_revoked_stays_revoked.

(* The monitor run on the implementation's traces accepts every run of the model, and the model's
   diff with itself is empty - for every measured id / argument table that is a function and injective
   and whose ids are all observed, constructor lists inside the observed universe, and every call sequence
   that names only accounts, roles and executors of the observed universe and attaches authorisations of the
   controller only to calls whose argument vector is in the table ([call_wf]; both are booleans that [check]
   itself verifies on every trace). *)
Theorem C09_monitor_accepts_model :
  forall cf n0 md props execs adm ids naddr nroles tags tbl avs s0 cs,
    forallb (in_upto naddr) (props ++ execs) = true ->
    2 <= n0 <= MAXU32 -> tbl_ok tbl = true -> avs_ok avs = true -> tbl_in ids tbl = true -> (3 <=? nroles)%N = true ->
    forallb (call_wf naddr nroles avs) cs = true ->
    construct cf n0 md props execs adm = Ok s0 ->
    check (model_trace cf n0 md props execs adm ids naddr nroles tags tbl avs s0 cs) = (0%N, 0%N, 0%N).
Proof. exact check_accepts_model. Qed.
Print Assumptions C09_monitor_accepts_model.

(* DELAYS AT THE u32 EXTREMES.  Whatever delay d (any u32: u32::MAX, ledger + d >= 2^32, 2^31 +- 1, ...) a successful
   schedule_op passes, the ready ledger stored is min(ledger + d, u32::MAX) - never the sum reduced modulo 2^32 - and at
   every ledger l from the scheduling ledger on with l < ledger + d (and below u32::MAX, where saturation ends) the
   operation reads Waiting: __check_auth and execute_op refuse it (C09_check_auth_consumes: only Ready is consumed). *)
Theorem C09_scheduled_op_waits_full_delay :
  forall (hash : op -> id) (aid : argv -> N) (cf : cfg) (s : state) (o : op) (d : Z) (p : addr) (au : authz)
         (s' : state) (r : option id),
    step_ok hash aid cf s (ScheduleOp o d p au) = Ok (s', r) ->
    2 <= now (ctl s') ->
    r = Some (hash o) /\ 0 <= d <= MAXU32 /\
    mark (ctl s') (hash o) = Z.min (now (ctl s') + d) MAXU32 /\
    (forall l, now (ctl s') <= l -> l < now (ctl s') + d -> l < MAXU32 ->
               state_of_mark l (mark (ctl s') (hash o)) = Waiting).
Proof. exact scheduled_op_waits_full_delay. Qed.
Print Assumptions C09_scheduled_op_waits_full_delay.

Theorem C09_max_delay_never_ready :
  forall (hash : op -> id) (aid : argv -> N) (cf : cfg) (s : state) (o : op) (p : addr) (au : authz)
         (s' : state) (r : option id),
    step_ok hash aid cf s (ScheduleOp o MAXU32 p au) = Ok (s', r) ->
    2 <= now (ctl s') ->
    forall l, now (ctl s') <= l -> l < MAXU32 -> state_of_mark l (mark (ctl s') (hash o)) = Waiting.
Proof. exact max_delay_never_ready. Qed.
Print Assumptions C09_max_delay_never_ready.

(* the monitor by itself rejects a ready ledger that wrapped around (schedule_op(delay = u32::MAX) at ledger 100
   storing 99), one that wrapped to the Unset / Done marks, and the consumption that such a ledger makes possible in
   the scheduling ledger although the getters were honest; the honest run is accepted and equal to the model *)
Definition xt_sched (d : Z) := ScheduleOp ex_opA d 2 (AZ [2%N] None []).
Definition xt_marked (v : Z) : state :=
  with_ctl Run.C09.ex_s0 {| now := 100; min_delay := Some 2; marks := [(1%N, v)] |}.
Example C09_monitor_rejects_wrapped_ready_ledger :
  monitor (ex_hdr, [(xt_sched 4294967295, OkI 1, ex_obs (xt_marked 99))]) = 1%N
  /\ monitor (ex_hdr, [(xt_sched 4294967196, OkI 1, ex_obs (xt_marked 0))]) = 1%N
  /\ monitor (ex_hdr, [(xt_sched 4294967197, OkI 1, ex_obs (xt_marked 1))]) = 1%N
  /\ monitor (ex_hdr, [(xt_sched 4294967198, OkI 1, ex_obs (xt_marked 2))]) = 1%N
  /\ monitor (ex_hdr, ex_events [xt_sched 4294967295]
                      ++ [(ex_update, OkN, ex_obs (with_ctl Run.C09.ex_s0 {| now := 100; min_delay := Some 5; marks := [(1%N, 1)] |}))]) = 2%N
  /\ check (ex_hdr, ex_events [xt_sched 4294967295; ex_update; Advance 1; ex_update; Advance 4000000000; ex_update]) = (0, 0, 0)%N
  /\ map (fun e => is_ok (snd (fst e))) (ex_events [xt_sched 4294967295; ex_update; Advance 1; ex_update; Advance 4000000000; ex_update])
     = [true; false; true; false; true; false]
  /\ mark (ctl (ex_run [xt_sched 4294967295])) 1%N = 4294967295.
Proof. vm_compute. repeat split. Qed.

(* ---------------- non-vacuity ---------------- *)
(* the self-administration path is reachable: schedule, wait, update_delay with a consuming
   authorisation takes effect; the same call a second time fails (operation Done) *)
Example C09_self_admin_reachable :
  map (fun e => is_ok (snd (fst e))) (ex_events [ex_sched; Advance 2; ex_update; ex_update]) = [true; true; true; false]
  /\ min_delay (ctl (ex_run [ex_sched; Advance 2; ex_update])) = Some 5
  /\ admin (acs Run.C09.ex_s0) = Some (self Run.C09.ex_cf).
Proof. vm_compute. repeat split. Qed.

(* the other flavours: no executor configured (nobody named, nobody signs); the controller itself holds
   the executor role and is named (nobody signs); an operation cancelled, scheduled again, consumed *)
Example C09_no_executor_configured :
  nv_run [] [ex_sched; Advance 2; UpdateDelay 5 (AZ [] (ex_self [Meta 0 0 None]) [])] = [true; true; true].
Proof. vm_compute. reflexivity. Qed.
Example C09_controller_as_executor :
  nv_run [3%N]
    [ScheduleOp nv_opE 2 2 (AZ [2%N] None []); ex_sched; Advance 2;
     UpdateDelay 5 (AZ [] (ex_self [Meta 0 0 (Some 1%N)]) []);                                              (* not yet an executor *)
     GrantRole 1 2 1 (AZ [] (Some (SE (CtxC 1 11 8) [] [Meta 0 0 (Some 3%N)])) [(3%N, nv_opE)]);
     UpdateDelay 5 (AZ [] (ex_self [Meta 0 0 (Some 1%N)]) [])]                                              (* named, nobody signs *)
  = [true; true; true; false; true; true].
Proof. vm_compute. reflexivity. Qed.
Example C09_cancelled_rescheduled_consumed :
  nv_run [3%N]
    [ex_sched; CancelOp 1 2 (AZ [2%N] None []); Advance 2; ex_update; ex_sched; Advance 1; ex_update; Advance 1; ex_update]
  = [true; true; true; false; true; true; false; true; true].
Proof. vm_compute. reflexivity. Qed.
