(* C18 - Signature verifiers accept exactly genuine, well-formed assertions.
   This file contains only pinned statements, each closed by [exact] of a lemma proved in
   Proofs/, followed by Print Assumptions, and Examples (non-vacuity, monitor rejections).

   Level: the base64url helper is proved equal to RFC 4648 section 5 (no padding) for every
   byte string.  For the verifiers the decision logic is proved with the P-256 / Ed25519
   verification, SHA-256, the serde-json-core parser and the XDR decoder as arbitrary
   functions (oracles): the statements hold for every choice of them. *)
From SC Require Import Lib.Prelude Lib.Int Model.Base64 Model.Verifiers Model.ClientDataSpec
  Model.SigDataXdrSpec Proofs.Base64 Proofs.Verifiers Proofs.VerifiersIdeal Run.C18 Proofs.C18Monitor
  Proofs.C18Round4.

(* ---- base64url ---- *)
(* RFC 4648 section 5 written out: the octets as one bit string (most significant bit
   first), cut into groups of six (the last one zero-filled), each group read as a number
   and mapped through the URL-safe alphabet; no '=' appended. *)
Theorem C18_base64_rfc4648 : forall l : list Z,
  forallb (fun b => (0 <=? b) && (b <? 256)) l = true ->
  encode l = map (fun g => b64url_char (bits_val g)) (groups6 (flat_map byte_bits l)).
Proof. exact encode_is_rfc4648. Qed.
Print Assumptions C18_base64_rfc4648.

Theorem C18_base64_length : forall l : list Z,
  Z.of_nat (length (encode l)) = (4 * Z.of_nat (length l) + 2) / 3.
Proof. exact encode_length. Qed.
Print Assumptions C18_base64_length.

Theorem C18_base64_injective : forall l1 l2,
  bytes_ok l1 = true -> bytes_ok l2 = true -> encode l1 = encode l2 -> l1 = l2.
Proof. exact encode_injective. Qed.
Print Assumptions C18_base64_injective.

(* the function as the code has it (indices si/di, while loop over whole triples, remainder),
   writing into a caller-supplied buffer: it panics exactly
   when the buffer is shorter than the encoding, and otherwise writes the encoding at the
   front and leaves the rest untouched *)
Theorem C18_base64_buffer : forall dst src,
  base64_url_encode dst src =
  if (length (encode src) <=? length dst)%nat
  then Ok (encode src ++ skipn (length (encode src)) dst) else Fail.
Proof. exact base64_url_encode_spec. Qed.
Print Assumptions C18_base64_buffer.

(* ---- extract_from_bytes ---- *)
Theorem C18_extract_range : forall n data s e, 0 <= s -> s <= e -> e <= MAXU32 ->
  extract_from_bytes n data (Included s) (Excluded e) =
  Ok (if (e <=? len data) && (e - s =? n)
      then Some (firstn (Z.to_nat n) (skipn (Z.to_nat s) data)) else None).
Proof. exact extract_range. Qed.
Print Assumptions C18_extract_range.

Theorem C18_extract_length : forall n data sb eb x, bound_nonneg sb ->
  extract_from_bytes n data sb eb = Ok (Some x) -> len x = n.
Proof. exact extract_some_length. Qed.
Print Assumptions C18_extract_length.

(* ---- WebAuthn ---- *)
(* For every parser, hash and curve oracle: webauthn::verify returns true exactly when the
   client data is within the bound and parses to type "webauthn.get" and to the challenge
   that is the RFC 4648 base64url (no padding) of the first 32 payload bytes (the payload
   having at least 32), the authenticator data is long enough and its flags byte (index 32)
   has UP (bit 0) and UV (bit 2) and not (BS (bit 4) without BE (bit 3)), and the signature
   verifies under the key over sha256 (authenticator_data ++ sha256 client_data).
   It never returns false. *)
Theorem C18_webauthn_iff : forall (c : cfg)
    (parse : list Z -> option (list Z * list Z)) (sha256 : list Z -> list Z)
    (p256_verify : list Z -> list Z -> list Z -> bool) payload key sig ad cd,
  bytes_ok payload = true ->
  (wa_verify c parse sha256 p256_verify payload key sig ad cd = Ok true <->
   len cd <= max_cd c /\
   (exists ty ch, parse cd = Some (ty, ch) /\ ty = WEBAUTHN_GET /\
                  32 <= len payload /\ ch = rfc4648_url_nopad (firstn 32 payload)) /\
   min_ad c <= len ad /\
   (exists f, nth_error ad 32 = Some f /\ Z.testbit f 0 = true /\ Z.testbit f 2 = true /\
              ~ (Z.testbit f 3 = false /\ Z.testbit f 4 = true)) /\
   p256_verify key (sha256 (ad ++ sha256 cd)) sig = true)
  /\ wa_verify c parse sha256 p256_verify payload key sig ad cd <> Ok false.
Proof. exact wa_verify_iff. Qed.
Print Assumptions C18_webauthn_iff.

(* the example contract: sig_data must decode and key_data must hold at least 65 bytes, the
   first 65 being the key *)
Theorem C18_webauthn_contract_iff : forall c from_xdr parse sha256 p256_verify payload key_data sig_data,
  bytes_ok payload = true ->
  (wa_contract c from_xdr parse sha256 p256_verify payload key_data sig_data = Ok true <->
   exists sig ad cd, from_xdr sig_data = Some (sig, ad, cd) /\ 65 <= len key_data /\
     wa_verify c parse sha256 p256_verify payload (firstn 65 key_data) sig ad cd = Ok true)
  /\ wa_contract c from_xdr parse sha256 p256_verify payload key_data sig_data <> Ok false.
Proof. exact wa_contract_iff. Qed.
Print Assumptions C18_webauthn_contract_iff.

(* an accepted client data authorises one 32-byte payload only (any key, signature, flags) *)
Theorem C18_webauthn_binds_payload : forall c parse sha256 pv p1 p2 key1 key2 sig1 sig2 ad1 ad2 cd,
  bytes_ok p1 = true -> bytes_ok p2 = true ->
  wa_verify c parse sha256 pv p1 key1 sig1 ad1 cd = Ok true ->
  wa_verify c parse sha256 pv p2 key2 sig2 ad2 cd = Ok true ->
  firstn 32 p1 = firstn 32 p2.
Proof. exact wa_binds_payload. Qed.
Print Assumptions C18_webauthn_binds_payload.

(* "any change of key or signature is rejected", as far as it can be stated with the signature
   scheme as an oracle: once an assertion is accepted, the same assertion under another key
   and/or signature is accepted exactly when the oracle accepts the new (key, signature) on
   the SAME digest sha256 (auth_data ++ sha256 client_data), and fails when it does not. *)
Theorem C18_webauthn_key_sig_change : forall c parse sha256 pv payload key sig ad cd,
  bytes_ok payload = true ->
  wa_verify c parse sha256 pv payload key sig ad cd = Ok true ->
  forall key' sig',
    (wa_verify c parse sha256 pv payload key' sig' ad cd = Ok true <->
     pv key' (sha256 (ad ++ sha256 cd)) sig' = true)
    /\ (pv key' (sha256 (ad ++ sha256 cd)) sig' = false ->
        wa_verify c parse sha256 pv payload key' sig' ad cd = Fail).
Proof. exact wa_key_sig_change. Qed.
Print Assumptions C18_webauthn_key_sig_change.

(* DEVIATION from the text ("exactly the 32-byte payload"), outside the property's domain (the
   host passes a 32-byte hash): for a payload of MORE than 32 bytes the verdict is that of its
   first 32 bytes - the rest is ignored.  (Payloads shorter than 32 bytes are rejected, see
   C18_webauthn_iff.)  See also the Example C18_deviation_long_payload_accepted below. *)
Theorem C18_webauthn_deviation_long_payload_judged_on_prefix :
  forall c parse sha256 pv payload key sig ad cd,
  bytes_ok payload = true -> 32 <= len payload ->
  wa_verify c parse sha256 pv payload key sig ad cd
  = wa_verify c parse sha256 pv (firstn 32 payload) key sig ad cd.
Proof. exact wa_long_payload_prefix. Qed.
Print Assumptions C18_webauthn_deviation_long_payload_judged_on_prefix.

(* with idealised oracles - a collision-free hash with 32-byte output and a signature that
   validates a single digest under a key - one signature authorises one authenticator data,
   one client data and one payload: any change to the signed bytes or the payload is rejected.
   (Conditional: real SHA-256 / ECDSA meet the premises only computationally.) *)
Theorem C18_webauthn_signed_bytes_bound : forall (c : cfg) parse (sha256 : list Z -> list Z)
    (pv : list Z -> list Z -> list Z -> bool),
  (forall m, length (sha256 m) = 32%nat) ->
  (forall a b, sha256 a = sha256 b -> a = b) ->
  (forall k s d1 d2, pv k d1 s = true -> pv k d2 s = true -> d1 = d2) ->
  forall p1 p2 key sig ad1 ad2 cd1 cd2,
  bytes_ok p1 = true -> bytes_ok p2 = true ->
  wa_verify c parse sha256 pv p1 key sig ad1 cd1 = Ok true ->
  wa_verify c parse sha256 pv p2 key sig ad2 cd2 = Ok true ->
  ad1 = ad2 /\ cd1 = cd2 /\ firstn 32 p1 = firstn 32 p2.
Proof. exact signed_bytes_bound. Qed.
Print Assumptions C18_webauthn_signed_bytes_bound.

(* ---- Ed25519 ---- *)
Theorem C18_ed25519_iff : forall (ed25519_verify : list Z -> list Z -> list Z -> bool) payload key sig,
  (ed_verify ed25519_verify payload key sig = Ok true <-> ed25519_verify key payload sig = true)
  /\ ed_verify ed25519_verify payload key sig <> Ok false.
Proof. exact ed_verify_iff. Qed.
Print Assumptions C18_ed25519_iff.

(* ---- round 4: special values, aliasing, histories, the generic entry path ---- *)
(* Of the authenticator data the decision reads only its length against the minimum and byte 32:
   two authenticator data that agree there (the signature counter in bytes 33..36 at 0, at
   u32::MAX, going down; attested credential data of any length behind it) get the same verdict
   whenever the signature oracle answers alike on their two digests. *)
Theorem C18_webauthn_authdata_dependence : forall c parse sha256 pv payload key sig1 sig2 ad1 ad2 cd,
  (len ad1 <? min_ad c) = (len ad2 <? min_ad c) ->
  nth_error ad1 32 = nth_error ad2 32 ->
  pv key (sha256 (ad1 ++ sha256 cd)) sig1 = pv key (sha256 (ad2 ++ sha256 cd)) sig2 ->
  wa_verify c parse sha256 pv payload key sig1 ad1 cd = wa_verify c parse sha256 pv payload key sig2 ad2 cd.
Proof. exact wa_verify_authdata_dependence. Qed.
Print Assumptions C18_webauthn_authdata_dependence.

(* authenticator data and client data being one and the same byte string is no special case *)
Theorem C18_webauthn_alias_ad_cd : forall c parse sha256 pv payload key sig x,
  bytes_ok payload = true ->
  (wa_verify c parse sha256 pv payload key sig x x = Ok true <->
   len x <= max_cd c /\
   (exists ty ch, parse x = Some (ty, ch) /\ ty = WEBAUTHN_GET /\
                  32 <= len payload /\ ch = rfc4648_url_nopad (firstn 32 payload)) /\
   min_ad c <= len x /\
   (exists f, nth_error x 32 = Some f /\ Z.testbit f 0 = true /\ Z.testbit f 2 = true /\
              ~ (Z.testbit f 3 = false /\ Z.testbit f 4 = true)) /\
   pv key (sha256 (x ++ sha256 x)) sig = true).
Proof. exact wa_verify_alias_ad_cd. Qed.
Print Assumptions C18_webauthn_alias_ad_cd.

(* two accepted calls of the contract with the same sig_data authorise the same 32 payload bytes,
   however the bytes of payload and key_data are cut (re-cutting payload ++ key_data ++ sig_data
   of an accepted call at other places cannot authorise another payload) *)
Theorem C18_webauthn_contract_same_sigdata_binds_payload :
  forall c from_xdr parse sha256 pv p1 p2 kd1 kd2 sd,
  bytes_ok p1 = true -> bytes_ok p2 = true ->
  wa_contract c from_xdr parse sha256 pv p1 kd1 sd = Ok true ->
  wa_contract c from_xdr parse sha256 pv p2 kd2 sd = Ok true ->
  firstn 32 p1 = firstn 32 p2.
Proof. exact wa_contract_same_sigdata_binds_payload. Qed.
Print Assumptions C18_webauthn_contract_same_sigdata_binds_payload.

(* the generic interface hands the Ed25519 contract byte strings of any length: with an oracle
   that (like the host function on BytesN<32> / BytesN<64>) accepts only 32-byte keys and 64-byte
   signatures, every other length is a failure whatever the content *)
Theorem C18_ed25519_wrong_length_rejected : forall (ev : list Z -> list Z -> list Z -> bool),
  (forall k m s, ev k m s = true -> len k = 32 /\ len s = 64) ->
  forall payload key sig, len key <> 32 \/ len sig <> 64 -> ed_verify ev payload key sig = Fail.
Proof. exact ed_wrong_length_rejected. Qed.
Print Assumptions C18_ed25519_wrong_length_rejected.

(* ---- the monitor run on the implementation's traces accepts every run of the model ---- *)
(* [wf_trace] is the boolean the monitor itself checks of the inputs: documented bounds in the
   header, bytes and sizes, the oracle answers consistent with the printed client data / XDR
   bytes (re-read by the monitor's own readers) and with each other, the generator's tags
   justified by the specification. *)
Theorem C18_monitor_accepts_model : forall (c : cfg) (cs : list call),
  wf_trace c cs = true -> check (c, map (model_obs c) cs) = (0%N, 0%N, 0%N).
Proof. exact check_accepts_model. Qed.
Print Assumptions C18_monitor_accepts_model.

(* ------------------------------------------------------------------ *)
(* Examples *)
Module Ex.
  Import Strings.Ascii Strings.String.
  Definition asc (s : string) : list Z := map (fun a => Z.of_N (N_of_ascii a)) (list_ascii_of_string s).
  Definition cd_of (ty ch : list Z) : list Z :=
    asc "{""type"":""" ++ ty ++ asc """,""challenge"":""" ++ ch ++ asc """,""origin"":""https://example.com""}".
  Definition t_create := asc "webauthn.create".
  Definition t_get := asc "webauthn.get".
  Definition cd_dup := asc "{""type"":""a"",""type"":""a"",""challenge"":""c""}".
  Definition cd_esc := asc "{""type"":""webauthn.g\u0065t"",""challenge"":""c""}".
  Definition cd_trail := asc "{""type"":""a"",""challenge"":""c""}x".
  Definition cd_nostr := asc "{""type"":5,""challenge"":""c""}".
  Definition cd_decoy := asc "{""o"":""\"",\""type\"":\""webauthn.get"",""x"":{""type"":""b""},""type"":""a"",""challenge"":""c"",""n"":[1,-2.5e+3,null,true]} ".
  Definition cd_lenient := asc "{""type"":""a"",""challenge"":""c"",""crossOrigin"":fal{e}".
End Ex.

Definition cfg0 : cfg := {| max_cd := 1024; min_ad := 37 |}.
Definition pay0 : list Z := map Z.of_nat (seq 200 32).
Definition ch0 : list Z := rfc4648_url_nopad pay0.
Definition cd0 : list Z := Ex.cd_of Ex.t_get ch0.
Definition ad0 (flags : Z) : list Z := repeat 7 32 ++ flags :: [0; 0; 0; 1].
Definition asn0 (flags : Z) (sigok : bool) (e : option bool) : assertion :=
  {| a_payload := pay0; a_key := repeat 4 65; a_sig := repeat 1 64; a_ad := ad0 flags; a_cd := cd0;
     a_parsed := Some (WEBAUTHN_GET, ch0); a_sigok := sigok; a_expect := e |}.
(* the XDR form of WebAuthnSigData { authenticator_data = ad0 29, client_data = cd0, signature = 1^64 } *)
Definition be32 (n : Z) : list Z := [n / 16777216 mod 256; n / 65536 mod 256; n / 256 mod 256; n mod 256].
Definition xpad (l : list Z) : list Z := l ++ repeat 0 (Z.to_nat ((4 - len l mod 4) mod 4)).
Definition xentry (name v : list Z) : list Z :=
  be32 15 ++ be32 (len name) ++ xpad name ++ be32 13 ++ be32 (len v) ++ xpad v.
Definition xdr0 : list Z :=
  be32 17 ++ be32 1 ++ be32 3 ++ xentry NAME_AD (ad0 29) ++ xentry NAME_CD cd0 ++ xentry NAME_SIG (repeat 1 64).

(* RFC 4648 test vectors ("f", "fo", "foo", "foob", "fooba", "foobar" without padding) and
   the two characters that differ from standard base64 *)
Example C18_rfc_vectors :
  encode [102] = [90; 103] /\ encode [102; 111] = [90; 109; 56] /\
  encode [102; 111; 111] = [90; 109; 57; 118] /\
  encode [102; 111; 111; 98] = [90; 109; 57; 118; 89; 103] /\
  encode [102; 111; 111; 98; 97; 114] = [90; 109; 57; 118; 89; 109; 70; 121] /\
  rfc4648_url_nopad [251; 255] = [45; 95; 56] /\ encode [251; 255] = [45; 95; 56].
Proof. vm_compute. repeat split. Qed.

(* the monitor's readers on sample inputs *)
Example C18_readers :
  cd_fields cd0 = CdPlain WEBAUTHN_GET ch0 /\
  cd_fields Ex.cd_decoy = CdPlain [97] [99] /\
  cd_fields Ex.cd_dup = CdOther /\ cd_fields Ex.cd_esc = CdOther /\ cd_fields Ex.cd_lenient = CdOther /\
  cd_fields Ex.cd_trail = CdInvalid /\ cd_fields Ex.cd_nostr = CdInvalid /\ cd_fields [123; 125] = CdInvalid /\
  xdr_sigdata xdr0 = Some (repeat 1 64, ad0 29, cd0) /\
  xdr_sigdata (xdr0 ++ [0; 0; 0; 0]) = None /\ xdr_sigdata (removelast xdr0) = None.
Proof. vm_compute. repeat split. Qed.

(* non-vacuity: the oracles instantiated; a genuine assertion is accepted by the model, and the
   hypotheses of C18_webauthn_iff hold on it *)
Example C18_accepts_genuine :
  let parse := fun cd : list Z => if eqb_bytes cd cd0 then Some (WEBAUTHN_GET, ch0) else None in
  let sha := fun m : list Z => [Z.of_nat (length m)] in
  let pv := fun key dig sig : list Z => eqb_bytes dig [38] in
  bytes_ok pay0 = true /\
  wa_verify cfg0 parse sha pv pay0 (repeat 4 65) (repeat 1 64) (ad0 29) cd0 = Ok true /\
  wa_verify cfg0 parse sha pv pay0 (repeat 4 65) (repeat 1 64) (ad0 21) cd0 = Fail /\
  wa_verify cfg0 parse sha pv (0 :: tl pay0) (repeat 4 65) (repeat 1 64) (ad0 29) cd0 = Fail.
Proof. vm_compute. repeat split. Qed.

(* the deviation made explicit: two different 33-byte payloads are accepted with one assertion *)
Example C18_deviation_long_payload_accepted :
  let parse := fun cd : list Z => if eqb_bytes cd cd0 then Some (WEBAUTHN_GET, ch0) else None in
  let sha := fun m : list Z => [Z.of_nat (length m)] in
  let pv := fun key dig sig : list Z => eqb_bytes dig [38] in
  wa_verify cfg0 parse sha pv (pay0 ++ [7]) (repeat 4 65) (repeat 1 64) (ad0 29) cd0 = Ok true /\
  wa_verify cfg0 parse sha pv (pay0 ++ [8]) (repeat 4 65) (repeat 1 64) (ad0 29) cd0 = Ok true /\
  wa_verify cfg0 parse sha pv (firstn 31 pay0) (repeat 4 65) (repeat 1 64) (ad0 29) cd0 = Fail.
Proof. vm_compute. repeat split. Qed.

(* the premises of C18_webauthn_signed_bytes_bound are consistent *)
Example C18_ideal_oracles_exist : exists (sha256 : list Z -> list Z) (pv : list Z -> list Z -> list Z -> bool),
  (forall m, length (sha256 m) = 32%nat) /\
  (forall a b, sha256 a = sha256 b -> a = b) /\
  (forall k s d1 d2, pv k d1 s = true -> pv k d2 s = true -> d1 = d2).
Proof. exists ideal_sha, ideal_pv. exact ideal_instance. Qed.

(* the monitor accepts the genuine observations (library and contract) ... *)
Example C18_monitor_accepts :
  check (cfg0, [(WaLib (asn0 29 true (Some true)), Ok (OBool true));
                (WaEx (repeat 4 65 ++ [9; 9]) xdr0 true (asn0 29 true (Some true)), Ok (OBool true));
                (WaLib (asn0 21 true (Some false)), Fail);
                (EdLib [1] (repeat 2 32) (repeat 3 64) true (Some true), Ok (OBool true))]) = (0, 0, 0)%N /\
  wf_trace cfg0 [WaLib (asn0 29 true (Some true)); WaEx (repeat 4 65 ++ [9; 9]) xdr0 true (asn0 29 true (Some true))] = true.
Proof. vm_compute. split; reflexivity. Qed.

(* ... and rejects: an accepted assertion without the UV flag, with BS but not BE, a rejected
   genuine one, an accepted one whose signature does not verify, an answer "false", a wrong
   base64 alphabet, a padded encoding, an accepted invalid Ed25519 signature, a wrong flag
   verdict, single flag validators swapped *)
Example C18_monitor_rejects :
  check (cfg0, [(WaLib (asn0 1 true None), Ok (OBool true))]) = (1, 1, 0)%N /\
  check (cfg0, [(WaLib (asn0 21 true None), Ok (OBool true))]) = (1, 1, 0)%N /\
  check (cfg0, [(WaLib (asn0 29 true (Some true)), Ok (OBool true)); (WaLib (asn0 29 true (Some true)), Fail)]) = (2, 2, 0)%N /\
  check (cfg0, [(WaLib (asn0 29 false None), Ok (OBool true))]) = (1, 1, 0)%N /\
  check (cfg0, [(WaLib (asn0 29 false None), Ok (OBool false))]) = (1, 1, 0)%N /\
  check (cfg0, [(B64 3 [251; 255], Ok (OBytes [43; 47; 56]))]) = (1, 1, 0)%N /\
  check (cfg0, [(B64 4 [251; 255], Ok (OBytes [45; 95; 56; 61]))]) = (1, 1, 0)%N /\
  check (cfg0, [(EdLib [1] (repeat 2 32) (repeat 3 64) false None, Ok (OBool true))]) = (1, 1, 0)%N /\
  check (cfg0, [(Flags 5, Ok OUnit); (Flags 21, Ok OUnit)]) = (2, 2, 0)%N /\
  check (cfg0, [(FlagOne 0 4, Ok OUnit)]) = (1, 1, 0)%N /\ check (cfg0, [(FlagOne 1 1, Ok OUnit)]) = (1, 1, 0)%N.
Proof. vm_compute. repeat split. Qed.

(* round 4 - the monitor rejects: an encoding MERGED (or-ed) into a buffer of ones instead of written; the
   tail of the buffer overwritten; an argument that is not a byte string accepted / answered with false; an
   Ed25519 key of 33 bytes (a valid key and one more byte) accepted; a long authenticator data (300 bytes,
   genuine) rejected; the contract accepting payload ++ key_data ++ sig_data re-cut (33-byte payload whose
   key does not verify); a genuine assertion with the counter at 0 rejected; and it accepts the correct ones *)
Definition ad_long (flags : Z) : list Z := repeat 7 32 ++ flags :: repeat 9 267.
Definition asn_ad (ad : list Z) (e : option bool) : assertion :=
  {| a_payload := pay0; a_key := repeat 4 65; a_sig := repeat 1 64; a_ad := ad; a_cd := cd0;
     a_parsed := Some (WEBAUTHN_GET, ch0); a_sigok := true; a_expect := e |}.
Example C18_round4_monitor :
  check (cfg0, [(B64F [255; 255; 255; 255] [102], Ok (OBytes [90; 103; 255; 255]));
                (B64F [255] [102], Fail);
                (BadArg 0 103, Fail);
                (EdEx [1] (repeat 2 33) (repeat 3 64) false (Some false), Fail);
                (WaLib (asn_ad (ad_long 5) (Some true)), Ok (OBool true));
                (WaLib (asn_ad (repeat 7 32 ++ [5; 0; 0; 0; 0]) (Some true)), Ok (OBool true));
                (WaLib (asn_ad (repeat 7 32 ++ [5; 255; 255; 255; 255]) (Some true)), Ok (OBool true))]) = (0, 0, 0)%N /\
  check (cfg0, [(B64F [255; 255; 255; 255] [102], Ok (OBytes [255; 255; 255; 255]))]) = (1, 1, 0)%N /\
  check (cfg0, [(B64F [255; 255; 255; 255] [102], Ok (OBytes [90; 103; 0; 0]))]) = (1, 1, 0)%N /\
  check (cfg0, [(BadArg 0 103, Ok (OBool true))]) = (1, 1, 0)%N /\
  check (cfg0, [(BadArg 1 204, Ok (OBool false))]) = (1, 1, 0)%N /\
  check (cfg0, [(EdEx [1] (repeat 2 33) (repeat 3 64) false None, Ok (OBool true))]) = (1, 1, 0)%N /\
  check (cfg0, [(WaLib (asn_ad (ad_long 5) (Some true)), Fail)]) = (1, 1, 0)%N /\
  check (cfg0, [(WaLib (asn_ad (repeat 7 32 ++ [5; 0; 0; 0; 0]) None), Fail)]) = (1, 1, 0)%N /\
  snd (fst (check (cfg0, [(WaEx (repeat 4 64 ++ [9; 9; 9]) xdr0 true
                             {| a_payload := pay0 ++ [4]; a_key := repeat 4 64 ++ [9]; a_sig := repeat 1 64;
                                a_ad := ad0 29; a_cd := cd0; a_parsed := Some (WEBAUTHN_GET, ch0);
                                a_sigok := false; a_expect := Some false |}, Ok (OBool true))]))) = 1%N.
Proof. vm_compute. repeat split. Qed.

(* the monitor is not the model: an observation on which model and implementation would agree
   (both accept) is still flagged when the generator knows the assertion was corrupted *)
Example C18_monitor_independent :
  check (cfg0, [(WaLib (asn0 29 true (Some false)), Ok (OBool true))]) = (0, 1, 0)%N.
Proof. vm_compute. reflexivity. Qed.

(* The adversarial review's traces (/verif/.cache/review/C18.md), all rejected now (monitor index > 0):
   t1  client data that literally says webauthn.create / challenge AAAA with a_parsed claiming otherwise;
   t1' the same with an undecodable sig_data claimed decoded;
   t2b a 33-byte payload tagged "genuine";
   t3  a header with other bounds (5000-byte client data, 33-byte authenticator data accepted);
   t3' the documented header but a 1025-byte client data accepted;
   t4  Ed25519 "valid" with impossible key / signature sizes;
   t5  the same assertion with two different signature verdicts;
   t6  extract_from_bytes returning wrong bytes for unusual bound kinds;
   t7  one client data with two different parses. *)
Example C18_review_traces_rejected :
  let a1 := {| a_payload := pay0; a_key := repeat 0 65; a_sig := repeat 0 64; a_ad := ad0 5;
               a_cd := Ex.cd_of Ex.t_create [65; 65; 65; 65];
               a_parsed := Some (WEBAUTHN_GET, ch0); a_sigok := true; a_expect := None |} in
  let a2 := {| a_payload := pay0 ++ [7]; a_key := repeat 4 65; a_sig := repeat 1 64; a_ad := ad0 5; a_cd := cd0;
               a_parsed := Some (WEBAUTHN_GET, ch0); a_sigok := true; a_expect := Some true |} in
  let a3 := {| a_payload := pay0; a_key := repeat 4 65; a_sig := repeat 1 64; a_ad := repeat 7 32 ++ [5];
               a_cd := cd0 ++ repeat 32 5000;
               a_parsed := Some (WEBAUTHN_GET, ch0); a_sigok := true; a_expect := None |} in
  let a3' := {| a_payload := pay0; a_key := repeat 4 65; a_sig := repeat 1 64; a_ad := ad0 5;
                a_cd := cd0 ++ repeat 32 (Z.to_nat (1025 - len cd0));
                a_parsed := Some (WEBAUTHN_GET, ch0); a_sigok := true; a_expect := None |} in
  let a7 := {| a_payload := pay0; a_key := repeat 4 65; a_sig := repeat 1 64; a_ad := ad0 5; a_cd := Ex.cd_esc;
               a_parsed := Some (WEBAUTHN_GET, ch0); a_sigok := true; a_expect := None |} in
  let a7' := {| a_payload := pay0; a_key := repeat 4 65; a_sig := repeat 1 64; a_ad := ad0 5; a_cd := Ex.cd_esc;
                a_parsed := None; a_sigok := true; a_expect := None |} in
  snd (fst (check (cfg0, [(WaLib a1, Ok (OBool true))]))) = 1%N /\
  snd (fst (check (cfg0, [(WaEx (repeat 4 65) [1; 2; 3] true (asn0 5 true None), Ok (OBool true))]))) = 1%N /\
  snd (fst (check (cfg0, [(WaLib a2, Ok (OBool true))]))) = 1%N /\
  snd (fst (check ({| max_cd := 100000; min_ad := 0 |}, [(WaLib a3, Ok (OBool true))]))) = 1%N /\
  snd (fst (check (cfg0, [(WaLib a3', Ok (OBool true))]))) = 1%N /\
  snd (fst (check (cfg0, [(EdLib [1] [2] [3] true None, Ok (OBool true))]))) = 1%N /\
  snd (fst (check (cfg0, [(EdEx [] [] [] true (Some true), Ok (OBool true))]))) = 1%N /\
  snd (fst (check (cfg0, [(WaLib (asn0 5 true None), Ok (OBool true)); (WaLib (asn0 5 false None), Fail)]))) = 2%N /\
  snd (fst (check (cfg0, [(Extract 3 Unbounded Unbounded [1; 2; 3], Ok (OOpt (Some [9; 9; 9])))]))) = 1%N /\
  snd (fst (check (cfg0, [(Extract 3 (Included 0) (Included 2) [1; 2; 3], Ok (OOpt (Some [9; 9; 9])))]))) = 1%N /\
  snd (fst (check (cfg0, [(WaLib a7, Ok (OBool true)); (WaLib a7', Fail)]))) = 2%N.
Proof. vm_compute. repeat split. Qed.
