(* C18 - Signature verifiers accept exactly genuine, well-formed assertions.
   This file contains only pinned statements, each closed by [exact] of a lemma proved in
   Proofs/, followed by Print Assumptions, and Examples (non-vacuity, monitor rejections).

   Level: the base64url helper is proved equal to RFC 4648 section 5 (no padding) for every
   byte string.  For the verifiers the decision logic is proved with the P-256 / Ed25519
   verification, SHA-256, the serde-json-core parser and the XDR decoder as arbitrary
   functions (oracles): the statements hold for every choice of them. *)
From SC Require Import Lib.Prelude Lib.Int Model.Base64 Model.Verifiers
  Proofs.Base64 Proofs.Verifiers Proofs.VerifiersIdeal Run.C18 Proofs.C18Monitor.

(* ---- base64url ---- *)
(* RFC 4648 section 5 written out: the octets as one bit string (most significant bit
   first), cut into groups of six (the last one zero-filled), each group read as a number
   and mapped through the URL-safe alphabet; no '=' appended. *)
Theorem C18_base64_rfc4648 : forall l : list Z,
  forallb (fun b => (0 <=? b) && (b <? 256)) l = true ->
  encode l = map (fun g => b64url_char (bits_val g)) (groups6 (flat_map byte_bits l)).
Proof. exact encode_is_rfc4648. Qed.
Print Assumptions C18_base64_rfc4648.

Theorem C18_base64_length : forall l : list Z,
  Z.of_nat (length (encode l)) = (4 * Z.of_nat (length l) + 2) / 3.
Proof. exact encode_length. Qed.
Print Assumptions C18_base64_length.

Theorem C18_base64_injective : forall l1 l2,
  bytes_ok l1 = true -> bytes_ok l2 = true -> encode l1 = encode l2 -> l1 = l2.
Proof. exact encode_injective. Qed.
Print Assumptions C18_base64_injective.

(* the function as the code has it (indices si/di, while loop over whole triples, remainder),
   writing into a caller-supplied buffer: it panics exactly
   when the buffer is shorter than the encoding, and otherwise writes the encoding at the
   front and leaves the rest untouched *)
Theorem C18_base64_buffer : forall dst src,
  base64_url_encode dst src =
  if (length (encode src) <=? length dst)%nat
  then Ok (encode src ++ skipn (length (encode src)) dst) else Fail.
Proof. exact base64_url_encode_spec. Qed.
Print Assumptions C18_base64_buffer.

(* ---- extract_from_bytes ---- *)
Theorem C18_extract_range : forall n data s e, 0 <= s -> s <= e -> e <= MAXU32 ->
  extract_from_bytes n data (Included s) (Excluded e) =
  Ok (if (e <=? len data) && (e - s =? n)
      then Some (firstn (Z.to_nat n) (skipn (Z.to_nat s) data)) else None).
Proof. exact extract_range. Qed.
Print Assumptions C18_extract_range.

Theorem C18_extract_length : forall n data sb eb x, bound_nonneg sb ->
  extract_from_bytes n data sb eb = Ok (Some x) -> len x = n.
Proof. exact extract_some_length. Qed.
Print Assumptions C18_extract_length.

(* ---- WebAuthn ---- *)
(* For every parser, hash and curve oracle: webauthn::verify returns true exactly when the
   client data is within the bound and parses to type "webauthn.get" and to the challenge
   that is the RFC 4648 base64url (no padding) of the first 32 payload bytes (the payload
   having at least 32), the authenticator data is long enough and its flags byte (index 32)
   has UP (bit 0) and UV (bit 2) and not (BS (bit 4) without BE (bit 3)), and the signature
   verifies under the key over sha256 (authenticator_data ++ sha256 client_data).
   It never returns false. *)
Theorem C18_webauthn_iff : forall (c : cfg)
    (parse : list Z -> option (list Z * list Z)) (sha256 : list Z -> list Z)
    (p256_verify : list Z -> list Z -> list Z -> bool) payload key sig ad cd,
  bytes_ok payload = true ->
  (wa_verify c parse sha256 p256_verify payload key sig ad cd = Ok true <->
   len cd <= max_cd c /\
   (exists ty ch, parse cd = Some (ty, ch) /\ ty = WEBAUTHN_GET /\
                  32 <= len payload /\ ch = rfc4648_url_nopad (firstn 32 payload)) /\
   min_ad c <= len ad /\
   (exists f, nth_error ad 32 = Some f /\ Z.testbit f 0 = true /\ Z.testbit f 2 = true /\
              ~ (Z.testbit f 3 = false /\ Z.testbit f 4 = true)) /\
   p256_verify key (sha256 (ad ++ sha256 cd)) sig = true)
  /\ wa_verify c parse sha256 p256_verify payload key sig ad cd <> Ok false.
Proof. exact wa_verify_iff. Qed.
Print Assumptions C18_webauthn_iff.

(* the example contract: sig_data must decode and key_data must hold at least 65 bytes, the
   first 65 being the key *)
Theorem C18_webauthn_contract_iff : forall c from_xdr parse sha256 p256_verify payload key_data sig_data,
  bytes_ok payload = true ->
  (wa_contract c from_xdr parse sha256 p256_verify payload key_data sig_data = Ok true <->
   exists sig ad cd, from_xdr sig_data = Some (sig, ad, cd) /\ 65 <= len key_data /\
     wa_verify c parse sha256 p256_verify payload (firstn 65 key_data) sig ad cd = Ok true)
  /\ wa_contract c from_xdr parse sha256 p256_verify payload key_data sig_data <> Ok false.
Proof. exact wa_contract_iff. Qed.
Print Assumptions C18_webauthn_contract_iff.

(* an accepted client data authorises one 32-byte payload only (any key, signature, flags) *)
Theorem C18_webauthn_binds_payload : forall c parse sha256 pv p1 p2 key1 key2 sig1 sig2 ad1 ad2 cd,
  bytes_ok p1 = true -> bytes_ok p2 = true ->
  wa_verify c parse sha256 pv p1 key1 sig1 ad1 cd = Ok true ->
  wa_verify c parse sha256 pv p2 key2 sig2 ad2 cd = Ok true ->
  firstn 32 p1 = firstn 32 p2.
Proof. exact wa_binds_payload. Qed.
Print Assumptions C18_webauthn_binds_payload.

(* with idealised oracles - a collision-free hash with 32-byte output and a signature that
   validates a single digest under a key - one signature authorises one authenticator data,
   one client data and one payload: any change to the signed bytes or the payload is rejected.
   (Conditional: real SHA-256 / ECDSA meet the premises only computationally.) *)
Theorem C18_webauthn_signed_bytes_bound : forall (c : cfg) parse (sha256 : list Z -> list Z)
    (pv : list Z -> list Z -> list Z -> bool),
  (forall m, length (sha256 m) = 32%nat) ->
  (forall a b, sha256 a = sha256 b -> a = b) ->
  (forall k s d1 d2, pv k d1 s = true -> pv k d2 s = true -> d1 = d2) ->
  forall p1 p2 key sig ad1 ad2 cd1 cd2,
  bytes_ok p1 = true -> bytes_ok p2 = true ->
  wa_verify c parse sha256 pv p1 key sig ad1 cd1 = Ok true ->
  wa_verify c parse sha256 pv p2 key sig ad2 cd2 = Ok true ->
  ad1 = ad2 /\ cd1 = cd2 /\ firstn 32 p1 = firstn 32 p2.
Proof. exact signed_bytes_bound. Qed.
Print Assumptions C18_webauthn_signed_bytes_bound.

(* ---- Ed25519 ---- *)
Theorem C18_ed25519_iff : forall (ed25519_verify : list Z -> list Z -> list Z -> bool) payload key sig,
  (ed_verify ed25519_verify payload key sig = Ok true <-> ed25519_verify key payload sig = true)
  /\ ed_verify ed25519_verify payload key sig <> Ok false.
Proof. exact ed_verify_iff. Qed.
Print Assumptions C18_ed25519_iff.

(* ---- the monitor run on the implementation's traces accepts every run of the model ---- *)
Theorem C18_monitor_accepts_model : forall (c : cfg) (cs : list call),
  forallb (wf_call c) cs = true -> check (c, map (model_obs c) cs) = (0%N, 0%N, 0%N).
Proof. exact check_accepts_model. Qed.
Print Assumptions C18_monitor_accepts_model.

(* ------------------------------------------------------------------ *)
(* Examples *)
Definition cfg0 : cfg := {| max_cd := 1024; min_ad := 37 |}.
Definition pay0 : list Z := map Z.of_nat (seq 200 32).
Definition ch0 : list Z := rfc4648_url_nopad pay0.
Definition ad0 (flags : Z) : list Z := repeat 7 32 ++ flags :: [0; 0; 0; 1].
Definition asn0 (flags : Z) (sigok : bool) (e : option bool) : assertion :=
  {| a_payload := pay0; a_key := repeat 4 65; a_sig := repeat 1 64; a_ad := ad0 flags; a_cd := [123; 125];
     a_parsed := Some (WEBAUTHN_GET, ch0); a_sigok := sigok; a_expect := e |}.

(* RFC 4648 test vectors ("f", "fo", "foo", "foob", "fooba", "foobar" without padding) and
   the two characters that differ from standard base64 *)
Example C18_rfc_vectors :
  encode [102] = [90; 103] /\ encode [102; 111] = [90; 109; 56] /\
  encode [102; 111; 111] = [90; 109; 57; 118] /\
  encode [102; 111; 111; 98] = [90; 109; 57; 118; 89; 103] /\
  encode [102; 111; 111; 98; 97; 114] = [90; 109; 57; 118; 89; 109; 70; 121] /\
  rfc4648_url_nopad [251; 255] = [45; 95; 56] /\ encode [251; 255] = [45; 95; 56].
Proof. vm_compute. repeat split. Qed.

(* non-vacuity: the oracles instantiated; a genuine assertion is accepted by the model, and the
   hypotheses of C18_webauthn_iff hold on it *)
Example C18_accepts_genuine :
  let parse := fun cd : list Z => if eqb_bytes cd [123; 125] then Some (WEBAUTHN_GET, ch0) else None in
  let sha := fun m : list Z => [Z.of_nat (length m)] in
  let pv := fun key dig sig : list Z => eqb_bytes dig [38] in
  bytes_ok pay0 = true /\
  wa_verify cfg0 parse sha pv pay0 (repeat 4 65) (repeat 1 64) (ad0 29) [123; 125] = Ok true /\
  wa_verify cfg0 parse sha pv pay0 (repeat 4 65) (repeat 1 64) (ad0 21) [123; 125] = Fail /\
  wa_verify cfg0 parse sha pv (0 :: tl pay0) (repeat 4 65) (repeat 1 64) (ad0 29) [123; 125] = Fail.
Proof. vm_compute. repeat split. Qed.

(* the premises of C18_webauthn_signed_bytes_bound are consistent *)
Example C18_ideal_oracles_exist : exists (sha256 : list Z -> list Z) (pv : list Z -> list Z -> list Z -> bool),
  (forall m, length (sha256 m) = 32%nat) /\
  (forall a b, sha256 a = sha256 b -> a = b) /\
  (forall k s d1 d2, pv k d1 s = true -> pv k d2 s = true -> d1 = d2).
Proof. exists ideal_sha, ideal_pv. exact ideal_instance. Qed.

(* the monitor accepts the genuine observation and rejects: an accepted assertion without the
   UV flag, an accepted one with BS but not BE, a rejected genuine one, an accepted one whose
   signature does not verify, an answer "false", a wrong base64 alphabet, a padded encoding *)
Example C18_monitor_rejects :
  check (cfg0, [(WaLib (asn0 29 true (Some true)), Ok (OBool true))]) = (0, 0, 0)%N /\
  check (cfg0, [(WaLib (asn0 1 true None), Ok (OBool true))]) = (1, 1, 0)%N /\
  check (cfg0, [(WaLib (asn0 21 true None), Ok (OBool true))]) = (1, 1, 0)%N /\
  check (cfg0, [(WaLib (asn0 29 true (Some true)), Ok (OBool true)); (WaLib (asn0 29 true (Some true)), Fail)]) = (2, 2, 0)%N /\
  check (cfg0, [(WaLib (asn0 29 false None), Ok (OBool true))]) = (1, 1, 0)%N /\
  check (cfg0, [(WaLib (asn0 29 false None), Ok (OBool false))]) = (1, 1, 0)%N /\
  check (cfg0, [(B64 3 [251; 255], Ok (OBytes [43; 47; 56]))]) = (1, 1, 0)%N /\
  check (cfg0, [(B64 4 [251; 255], Ok (OBytes [45; 95; 56; 61]))]) = (1, 1, 0)%N /\
  check (cfg0, [(EdLib [1] [2] [3] false None, Ok (OBool true))]) = (1, 1, 0)%N /\
  check (cfg0, [(Flags 5, Ok OUnit); (Flags 21, Ok OUnit)]) = (2, 2, 0)%N.
Proof. vm_compute. repeat split. Qed.

(* the monitor is not the model: an observation on which model and implementation would agree
   (both accept) is still flagged when the generator knows the assertion was corrupted *)
Example C18_monitor_independent :
  check (cfg0, [(WaLib (asn0 29 true (Some false)), Ok (OBool true))]) = (0, 1, 0)%N.
Proof. vm_compute. reflexivity. Qed.
