(* C13 - Voting power equals delegated balances, now and at every past ledger.

   Only pinned statements, each closed by [exact] of a lemma proved in Proofs/, followed by
   Print Assumptions; then Examples (non-vacuity, and hand-made bad traces the monitor rejects).

   Vocabulary (coq/Model/Votes.v, a transcription of packages/governance/src/votes/storage.rs and of
   the FungibleVotes / NonFungibleVotes token extensions):
     header h          which contract (KFung | KExample | KNft), start ledger, ...
     run h (init h) cs the state after the (authorisation set, call) pairs cs; a failing call
                       leaves the state unchanged; [Advance n] moves the ledger forward
     s_v s             the votes state;  s_now s  the ledger sequence;  balance_of s a  token balance
     units_of / delegate_of / get_votes / get_total_supply        current getters
     get_votes_at now v a q / get_total_supply_at now v q          get_*_at_checkpoint at ledger [now]
     a timeline is the list of checkpoints of one account (or of the total supply), newest first;
     lookup_checkpoint_at is the transcribed binary search (fuel 32). *)
From SC Require Import Lib.Prelude Lib.Int Lib.Host Model.Votes
  Proofs.VotesBasic Proofs.VotesTimeline Proofs.VotesState Proofs.VotesRun Proofs.VotesHistory
  Proofs.C13Bounds Proofs.VotesTotal Proofs.VotesHook Proofs.C13Final Run.C13 Proofs.C13Monitor Proofs.C13Classes.
From Coq Require Import Sorting.Sorted.
Open Scope Z_scope.

(* In every reachable state, for every duplicate-free set U of accounts that contains the accounts
   named by the calls: voting power of d = sum of the units of the accounts delegating to d, vote
   supply = sum of all units, nobody outside U holds units. *)
Theorem C13_votes_are_delegated_units : forall (h : header) (U : list addr) (cs : list (list addr * call)),
  0 <= h_start h -> NoDup U ->
  (forall ac, In ac cs -> forall a, In a (call_addrs (snd ac)) -> In a U) ->
  let v := s_v (run h (init h) cs) in
  (forall d, get_votes v d =
     Ok (sum_list (map (fun a => if oaddr_eqb (delegate_of v a) (Some d) then units_of v a else 0) U))) /\
  get_total_supply v = Ok (sum_list (map (units_of v) U)) /\
  (forall a, ~ In a U -> units_of v a = 0).
Proof. exact votes_are_delegated_units_final. Qed.
Print Assumptions C13_votes_are_delegated_units.

(* Consequences: the voting power of a delegate covers the units of each of its delegators, and
   no voting power exceeds the vote supply. *)
Theorem C13_votes_bounds : forall (h : header) (U : list addr) (cs : list (list addr * call)),
  0 <= h_start h -> NoDup U ->
  (forall ac, In ac cs -> forall a, In a (call_addrs (snd ac)) -> In a U) ->
  let v := s_v (run h (init h) cs) in
  (forall a d, delegate_of v a = Some d ->
     exists x, get_votes v d = Ok x /\ 0 <= units_of v a <= x) /\
  (forall d, exists x y, get_votes v d = Ok x /\ get_total_supply v = Ok y /\ 0 <= x <= y).
Proof. exact votes_bounds_final. Qed.
Print Assumptions C13_votes_bounds.

(* The bookkeeping fails only when it must (while the ledger leaves room for one more checkpoint
   index, now + 2 <= u32::MAX): in every reachable state delegate succeeds exactly when it is
   authorised and the delegate changes; transfer_voting_units (amount > 0) succeeds exactly when
   the source holds the units and a mint keeps the supply inside u128 - the internal
   checked_add / checked_sub on delegate checkpoints never trap. *)
Theorem C13_delegate_fails_only_when_it_must : forall (h : header) (U : list addr) (cs : list (list addr * call)),
  0 <= h_start h -> NoDup U ->
  (forall ac, In ac cs -> forall a, In a (call_addrs (snd ac)) -> In a U) ->
  let s := run h (init h) cs in
  s_now s + 2 <= MAXU32 ->
  forall auths acc d,
    (exists v', delegate (s_now s) auths (s_v s) acc d = Ok v') <->
    (has_auth auths acc = true /\ delegate_of (s_v s) acc <> Some d).
Proof. exact delegate_ok_iff_final. Qed.
Print Assumptions C13_delegate_fails_only_when_it_must.

Theorem C13_transfer_units_fails_only_when_it_must : forall (h : header) (U : list addr) (cs : list (list addr * call)),
  0 <= h_start h -> NoDup U ->
  (forall ac, In ac cs -> forall a, In a (call_addrs (snd ac)) -> In a U) ->
  let s := run h (init h) cs in
  s_now s + 2 <= MAXU32 ->
  forall from to amt, 0 < amt ->
    (forall a, from = Some a \/ to = Some a -> In a U) ->
    (from <> None \/ to <> None) ->
    ((exists v', transfer_voting_units (s_now s) (s_v s) from to amt = Ok v') <->
     ((forall f, from = Some f -> amt <= units_of (s_v s) f) /\
      (from = None -> forall y, get_total_supply (s_v s) = Ok y -> y + amt <= MAXU128))).
Proof. exact tvu_ok_iff_final. Qed.
Print Assumptions C13_transfer_units_fails_only_when_it_must.

(* On the fungible contracts (wrapper and example) the votes hook never blocks a token operation:
   in every reachable state, whenever Base::update (f_update) succeeded, the
   `if amount > 0 { transfer_voting_units(..) }` appended by FungibleVotes (f_votes_hook) succeeds. *)
Theorem C13_fungible_hook_never_blocks : forall (h : header) (U : list addr) (cs : list (list addr * call)),
  is_fungible (h_kind h) = true ->
  0 <= h_start h -> NoDup U ->
  (forall ac, In ac cs -> forall a, In a (call_addrs (snd ac)) -> In a U) ->
  let s := run h (init h) cs in
  s_now s + 2 <= MAXU32 ->
  forall from to amt s1,
    (forall a, from = Some a \/ to = Some a -> In a U) ->
    f_update s from to amt = Ok s1 ->
    exists s2, f_votes_hook s1 from to amt = Ok s2.
Proof. exact fungible_hook_never_blocks_final. Qed.
Print Assumptions C13_fungible_hook_never_blocks.

(* The same for the NFT contract: whenever Base::update (n_update) succeeded, the
   transfer_voting_units(.., 1) appended by NonFungibleVotes succeeds - for a mint unless the u128
   vote supply itself is exhausted. *)
Theorem C13_nft_hook_never_blocks : forall (h : header) (U : list addr) (cs : list (list addr * call)),
  0 <= h_start h -> NoDup U ->
  (forall ac, In ac cs -> forall a, In a (call_addrs (snd ac)) -> In a U) ->
  let s := run h (init h) cs in
  s_now s + 2 <= MAXU32 ->
  forall from to id s1,
    (forall a, from = Some a \/ to = Some a -> In a U) ->
    n_update s from to id = Ok s1 ->
    (from = None -> forall y, get_total_supply (s_v s) = Ok y -> y + 1 <= MAXU128) ->
    exists s2, tvu s1 from to 1 = Ok s2.
Proof. exact nft_hook_never_blocks_final. Qed.
Print Assumptions C13_nft_hook_never_blocks.

(* For the fungible wrapper, the real example contract and the NFT wrapper alike: units = balance. *)
Theorem C13_units_eq_balance : forall (h : header) (cs : list (list addr * call)),
  0 <= h_start h ->
  let s := run h (init h) cs in
  forall a, units_of (s_v s) a = balance_of s a.
Proof. exact units_eq_balance_final. Qed.
Print Assumptions C13_units_eq_balance.

(* Every checkpoint list of every reachable state: ledgers strictly increase along the storage
   index (= strictly decrease along the newest-first list), none is in the future, fewer than 2^32. *)
Theorem C13_checkpoints_sorted : forall (h : header) (cs : list (list addr * call)) (ct : cptype),
  0 <= h_start h ->
  let s := run h (init h) cs in
  let t := get_tl (s_v s) ct in
  Sorted (fun a b => cp_ledger b < cp_ledger a) t /\
  Forall (fun c => 0 <= cp_ledger c <= s_now s) t /\
  Z.of_nat (length t) < 2 ^ 32.
Proof. exact checkpoints_sorted_final. Qed.
Print Assumptions C13_checkpoints_sorted.

(* The three early exits + upper-biased binary search return the value of the newest checkpoint
   with ledger <= q (0 if none); the fuel never runs out below 2^32 checkpoints. *)
Theorem C13_lookup_is_last_le : forall (t : timeline) (q : Z),
  Sorted (fun a b => cp_ledger b < cp_ledger a) t ->
  Forall (fun c => 0 <= cp_ledger c) t ->
  Z.of_nat (length t) < 2 ^ 32 ->
  lookup_checkpoint_at t q =
    Ok (match find (fun c => cp_ledger c <=? q) t with Some c => cp_votes c | None => 0 end).
Proof. exact lookup_is_last_le_final. Qed.
Print Assumptions C13_lookup_is_last_le.

Theorem C13_lookup_value : forall (t : timeline) (q : Z),
  Sorted (fun a b => cp_ledger b < cp_ledger a) t ->
  Forall (fun c => 0 <= cp_ledger c) t ->
  Z.of_nat (length t) < 2 ^ 32 ->
  (exists c, In c t /\ cp_ledger c <= q /\ lookup_checkpoint_at t q = Ok (cp_votes c) /\
             forall c', In c' t -> cp_ledger c' <= q -> cp_ledger c' <= cp_ledger c)
  \/ (lookup_checkpoint_at t q = Ok 0 /\ forall c, In c t -> q < cp_ledger c).
Proof. exact lookup_value_final. Qed.
Print Assumptions C13_lookup_value.

(* Let [pre] end in a ledger <= q and let the next call [ac] move the ledger beyond q: the state
   after [pre] is the state at the end of ledger q.  After any continuation [rest], a query for q
   returns exactly the values that were current then. *)
Theorem C13_past_exact : forall (h : header) (pre : list (list addr * call)) (ac : list addr * call)
    (rest : list (list addr * call)) (q : Z) (a : addr),
  0 <= h_start h ->
  let s1 := run h (init h) pre in
  let s2 := run h (init h) (pre ++ ac :: rest) in
  s_now s1 <= q -> q < s_now (fst (step h s1 (fst ac) (snd ac))) ->
  get_votes_at (s_now s2) (s_v s2) a q = get_votes (s_v s1) a /\
  get_total_supply_at (s_now s2) (s_v s2) q = get_total_supply (s_v s1).
Proof. exact past_exact_final. Qed.
Print Assumptions C13_past_exact.

(* the same with the state at the end of ledger q computed by [state_at_end_of]
   (Proofs/VotesHistory.v: the last state of the run whose ledger is <= q) *)
Theorem C13_past_exact_fn : forall (h : header) (cs : list (list addr * call)) (q : Z) (a : addr),
  0 <= h_start h ->
  let s := run h (init h) cs in
  let sq := state_at_end_of h q (init h) cs in
  h_start h <= q -> q < s_now s ->
  get_votes_at (s_now s) (s_v s) a q = get_votes (s_v sq) a /\
  get_total_supply_at (s_now s) (s_v s) q = get_total_supply (s_v sq).
Proof. exact past_exact_fn_final. Qed.
Print Assumptions C13_past_exact_fn.

Theorem C13_past_before_start : forall (h : header) (cs : list (list addr * call)) (q : Z) (a : addr),
  0 <= h_start h ->
  let s := run h (init h) cs in
  q < h_start h ->
  get_votes_at (s_now s) (s_v s) a q = Ok 0 /\ get_total_supply_at (s_now s) (s_v s) q = Ok 0.
Proof. exact past_before_start_final. Qed.
Print Assumptions C13_past_before_start.

(* No later call ever changes an answer about a ledger that is already past. *)
Theorem C13_past_immutable : forall (h : header) (cs more : list (list addr * call)) (q : Z) (a : addr),
  0 <= h_start h ->
  let s1 := run h (init h) cs in
  let s2 := run h (init h) (cs ++ more) in
  q < s_now s1 ->
  get_votes_at (s_now s2) (s_v s2) a q = get_votes_at (s_now s1) (s_v s1) a q /\
  get_total_supply_at (s_now s2) (s_v s2) q = get_total_supply_at (s_now s1) (s_v s1) q.
Proof. exact past_immutable_final. Qed.
Print Assumptions C13_past_immutable.

Theorem C13_ledger_monotone : forall (h : header) (cs more : list (list addr * call)),
  0 <= h_start h -> s_now (run h (init h) cs) <= s_now (run h (init h) (cs ++ more)).
Proof. exact ledger_monotone_final. Qed.
Print Assumptions C13_ledger_monotone.

(* Queries about the current or a future ledger are refused. *)
Theorem C13_future_refused : forall now s a q, now <= q ->
  get_votes_at now s a q = Fail /\ get_total_supply_at now s q = Fail.
Proof. exact future_refused. Qed.
Print Assumptions C13_future_refused.

(* The executable monitor (Run/C13.v: the property as a boolean over observations only - the sums,
   units = balance, sorted checkpoint lists, exact past against its own ghost history and against the
   checkpoint lists shown, "no call changes what a checkpoint list answers for a ledger < now",
   refused future, "an Advance of any length or a failing call changes no getter" (from the empty
   observation of the fresh contract on), "a delegatee changes only by the account's own successful
   delegate call", observation shape = header, clock = successful Advances, rows for now-1 and now)
   accepts every run of the model, and the model agrees with itself.  [wf_header]: u32 start ledger and
   the intended burn wiring (h_db = false); [wf_input]: the accounts named by the calls are observed;
   [observe_model] asks, besides the given ledgers, for now-1 and now after every call. *)
Theorem C13_monitor_accepts_model : forall (h : header) (ins : list input),
  wf_header h = true -> forallb (wf_input (h_n h)) ins = true ->
  check (observe_model h ins) = (0%N, 0%N, 0%N).
Proof. exact check_accepts_model. Qed.
Print Assumptions C13_monitor_accepts_model.

(* ------------------------------------------------------------------ *)
(* Situation classes (special addresses, unusual values, sibling paths, aliasing) *)
(* ------------------------------------------------------------------ *)
(* All theorems above quantify over ALL addresses: the token contract's own address, another registered
   contract, an account address are accounts like any other (the harness puts them into the observed
   universe).  What distinguishes such an address is only that nobody can authorise for it.  For the
   fungible votes tokens (wrapper and example): an address [a] that never occurs in an authorisation set
   is a pure sink - along every run its balance and its voting units never decrease (it can still receive
   and be minted to), and it never gets a delegate (it can still BE a delegatee and be queried). *)
Theorem C13_nonsigner_is_a_sink : forall (h : header) (a : addr) (pre post : list (list addr * call)),
  0 <= h_start h -> is_fungible (h_kind h) = true ->
  (forall ac, In ac (pre ++ post) -> has_auth (fst ac) a = false) ->
  let s1 := run h (init h) pre in
  let s2 := run h (init h) (pre ++ post) in
  balance_of s1 a <= balance_of s2 a /\
  units_of (s_v s1) a <= units_of (s_v s2) a /\
  delegate_of (s_v s2) a = None.
Proof. exact nonsigner_is_a_sink_final. Qed.
Print Assumptions C13_nonsigner_is_a_sink.

(* A zero amount (mint / burn / burn_from / transfer / transfer_from of 0 on a fungible votes token),
   whether the call succeeds or not, changes nothing any getter shows - balances, units, delegates, votes,
   every checkpoint list (no checkpoint is written), supplies, and every past / future query - in ANY state. *)
Theorem C13_zero_amount_changes_nothing : forall (h : header) (s : state) (auths : list addr) (c : call) (qs : list Z),
  is_fungible (h_kind h) = true ->
  ((exists to, c = Mint to 0) \/ (exists a, c = Burn a 0) \/ (exists sp a, c = BurnFrom sp a 0) \/
   (exists a b, c = Transfer a b 0) \/ (exists sp a b, c = TransferFrom sp a b 0)) ->
  observe h (fst (step h s auths c)) qs = observe h s qs.
Proof. exact zero_amount_final. Qed.
Print Assumptions C13_zero_amount_changes_nothing.

(* A transfer to a muxed destination (account address + 64-bit id) is the transfer to that address. *)
Theorem C13_muxed_transfer_is_transfer : forall (h : header) (s : state) (auths : list addr) (from to : addr) (mux_id x : Z),
  step h s auths (TransferMuxed from to mux_id x) = step h s auths (Transfer from to x).
Proof. exact muxed_transfer_final. Qed.
Print Assumptions C13_muxed_transfer_is_transfer.

(* Aliasing of the two delegates: a transfer / transfer_from (any amount or token id, any of the three
   contracts, any state, any outcome) between two accounts that have the same delegate - or both none -
   writes no checkpoint at all (every account timeline and the supply timeline are literally unchanged, so
   no current or past answer moves) and changes no delegation. *)
Theorem C13_same_delegate_transfer_writes_no_checkpoint :
  forall (h : header) (s : state) (auths : list addr) (c : call) (from to : addr),
  ((exists x, c = Transfer from to x) \/ (exists sp x, c = TransferFrom sp from to x)) ->
  delegate_of (s_v s) from = delegate_of (s_v s) to ->
  let s' := fst (step h s auths c) in
  (forall ct, get_tl (s_v s') ct = get_tl (s_v s) ct) /\
  (forall a, delegate_of (s_v s') a = delegate_of (s_v s) a).
Proof. exact same_delegate_transfer_final. Qed.
Print Assumptions C13_same_delegate_transfer_writes_no_checkpoint.

(* from = to: a self-transfer (also through transfer_from, also of the full balance, where the units entry
   is removed and re-created inside one call) changes nothing any getter shows, in any state. *)
Theorem C13_self_transfer_changes_nothing : forall (h : header) (s : state) (auths : list addr) (c : call) (qs : list Z),
  ((exists a x, c = Transfer a a x) \/ (exists sp a x, c = TransferFrom sp a a x)) ->
  observe h (fst (step h s auths c)) qs = observe h s qs.
Proof. exact self_transfer_final. Qed.
Print Assumptions C13_self_transfer_changes_nothing.

(* ------------------------------------------------------------------ *)
(* Examples                                                             *)
(* ------------------------------------------------------------------ *)
Definition ex_h : header :=
  {| h_kind := KFung; h_n := 3; h_ids := 0; h_start := 2; h_maxttl := 100; h_owner := 0%N; h_db := false |}.
Definition ex_cs : list (list addr * call) :=
  [([], Mint 0%N 100); ([0%N], Delegate 0%N 1%N); ([], Advance 1);
   ([0%N], Transfer 0%N 2%N 30); ([2%N], Delegate 2%N 2%N); ([0%N], Transfer 0%N 0%N 70); ([], Advance 2);
   ([0%N], Delegate 0%N 2%N); ([1%N], Delegate 0%N 1%N)].

(* non-vacuity: a reachable state with delegation, a same-ledger burst, a self-transfer of the
   full balance, re-delegation and a rejected (unauthorised) call; past, current and future queries *)
Example C13_example_run :
  let s := run ex_h (init ex_h) ex_cs in
  s_now s = 5 /\
  get_votes (s_v s) 2%N = Ok 100 /\ get_votes (s_v s) 1%N = Ok 0 /\ get_total_supply (s_v s) = Ok 100 /\
  get_votes_at 5 (s_v s) 1%N 1 = Ok 0 /\ get_votes_at 5 (s_v s) 1%N 2 = Ok 100 /\
  get_votes_at 5 (s_v s) 1%N 3 = Ok 70 /\ get_votes_at 5 (s_v s) 1%N 4 = Ok 70 /\
  get_votes_at 5 (s_v s) 2%N 2 = Ok 0 /\ get_votes_at 5 (s_v s) 2%N 4 = Ok 30 /\
  get_votes_at 5 (s_v s) 1%N 5 = Fail /\ get_total_supply_at 5 (s_v s) 6 = Fail /\
  units_of (s_v s) 0%N = 70 /\ balance_of s 0%N = 70 /\
  s_now (state_at_end_of ex_h 3 (init ex_h) ex_cs) = 3.
Proof. vm_compute. repeat split. Qed.

(* both sides of the "fails only when it must" equivalences occur *)
Example C13_example_total :
  let s := run ex_h (init ex_h) ex_cs in
  s_now s + 2 <= MAXU32 /\
  is_ok (transfer_voting_units 5 (s_v s) (Some 0%N) (Some 2%N) 70) = true /\
  is_ok (transfer_voting_units 5 (s_v s) (Some 0%N) (Some 2%N) 71) = false /\
  is_ok (transfer_voting_units 5 (s_v s) None (Some 1%N) (MAXU128 - 100)) = true /\
  is_ok (transfer_voting_units 5 (s_v s) None (Some 1%N) (MAXU128 - 99)) = false /\
  is_ok (delegate 5 [0%N] (s_v s) 0%N 1%N) = true /\
  is_ok (delegate 5 [0%N] (s_v s) 0%N 2%N) = false /\
  is_ok (delegate 5 [1%N] (s_v s) 0%N 1%N) = false.
Proof. vm_compute. repeat split; intros; discriminate. Qed.

Example C13_example_hook :
  let s := run ex_h (init ex_h) ex_cs in
  match f_update s (Some 0%N) (Some 2%N) 70 with
  | Ok s1 => match f_votes_hook s1 (Some 0%N) (Some 2%N) 70 with
             | Ok s2 => get_votes (s_v s2) 2%N = Ok 100 /\ balance_of s2 0%N = 0
             | Fail => False
             end
  | Fail => False
  end.
Proof. vm_compute. split; reflexivity. Qed.

(* the hypotheses of C13_monitor_accepts_model are satisfiable *)
Example C13_example_monitor :
  let ins := map (fun ac => (fst ac, snd ac, [0; 1; 2; 3; 4; 5; 6])) ex_cs in
  forallb (wf_input 3) ins = true /\
  check (observe_model ex_h ins) = (0%N, 0%N, 0%N) /\
  length (snd (observe_model ex_h ins)) = 9%nat.
Proof. vm_compute. repeat split. Qed.

(* ... also on the NFT wrapper and on the example contract (owner-gated mint) *)
Example C13_example_monitor_nft_and_example :
  let hn := {| h_kind := KNft; h_n := 3; h_ids := 4; h_start := 0; h_maxttl := 100; h_owner := 0%N; h_db := false |} in
  let hx := {| h_kind := KExample; h_n := 3; h_ids := 0; h_start := 1; h_maxttl := 100; h_owner := 0%N; h_db := false |} in
  let qs := [0; 1; 2; 3; 4] in
  let insn := [([], Mint 0%N 1, qs); ([], SeqMint 1%N, qs); ([1%N], Delegate 1%N 2%N, qs); ([], Advance 1, qs);
               ([0%N], Transfer 0%N 1%N 1, qs); ([0%N], Approve 1%N 0%N 1 50, qs); ([1%N], Approve 1%N 0%N 1 50, qs);
               ([], Advance 2, qs); ([0%N], BurnFrom 0%N 1%N 1, qs); ([1%N], Burn 1%N 0, qs); ([1%N], Burn 1%N 0, qs)] in
  let insx := [([], Mint 1%N 10, qs); ([0%N], Mint 1%N 10, qs); ([1%N], Delegate 1%N 1%N, qs); ([], Advance 1, qs);
               ([1%N], Approve 1%N 2%N 6 40, qs); ([2%N], TransferFrom 2%N 1%N 0%N 4, qs); ([2%N], TransferFrom 2%N 1%N 0%N 4, qs);
               ([1%N], Burn 1%N 1, qs); ([], Advance 1, qs)] in
  check (observe_model hn insn) = (0%N, 0%N, 0%N) /\
  map (fun it => is_ok (snd (fst it))) (snd (observe_model hn insn))
    = [true; true; true; true; true; false; true; true; true; true; false] /\
  check (observe_model hx insx) = (0%N, 0%N, 0%N) /\
  map (fun it => is_ok (snd (fst it))) (snd (observe_model hx insx))
    = [false; true; true; true; true; true; false; false; true].
Proof. vm_compute. repeat split. Qed.

(* a binary search over 9 checkpoints, every query ledger *)
Example C13_example_search :
  let t := map (fun k => {| cp_ledger := 2 * k + 1; cp_votes := 100 + k |}) [8; 7; 6; 5; 4; 3; 2; 1; 0] in
  map (fun q => lookup_checkpoint_at t q) [0; 1; 2; 3; 4; 16; 17; 18; 1000]
  = [Ok 0; Ok 100; Ok 100; Ok 101; Ok 101; Ok 107; Ok 108; Ok 108; Ok 108].
Proof. vm_compute. reflexivity. Qed.

(* ---- the library footgun: default FungibleBurnable wiring (no shipped example does this) ---- *)
(* `impl FungibleBurnable for T {}` on a FungibleVotes token keeps Base::burn / Base::burn_from: [step_db] is the
   model of that token (validated against such a contract by the harness, diff only).  There units = balance FAILS:
   the theorems above are about tokens whose burn is wired through FungibleVotes::burn. *)
Example C13_default_burn_wiring_breaks_units_eq_balance :
  let s := run ex_h (init ex_h) ex_cs in
  let s1 := fst (step_db ex_h s [0%N] (Burn 0%N 30)) in
  snd (step_db ex_h s [0%N] (Burn 0%N 30)) = Ok 0 /\
  balance_of s1 0%N = 40 /\ units_of (s_v s1) 0%N = 70 /\
  get_votes (s_v s1) 2%N = Ok 100 /\ get_total_supply (s_v s1) = Ok 100 /\ s_supply s1 = 70 /\
  (* the correctly wired token *)
  balance_of (fst (step ex_h s [0%N] (Burn 0%N 30))) 0%N = 40 /\
  units_of (s_v (fst (step ex_h s [0%N] (Burn 0%N 30)))) 0%N = 40.
Proof. vm_compute. repeat split. Qed.

(* ---- the monitor is not trivially true: hand-made bad traces ---- *)
(* every trace below is well-formed (2 accounts, rows for now-1 and now, consistent clock) except for the one
   defect named; rf = a refused row, Z0 = an untouched account *)
Definition bad_h : header :=
  {| h_kind := KFung; h_n := 2; h_ids := 0; h_start := 0; h_maxttl := 100; h_owner := 0%N; h_db := false |}.
Definition rf : list (option Z) := [None; None; None].
Definition Z0 : acct_obs := mkA 0 0 None 0 [].
Definition row (q a b t : Z) : Z * list (option Z) := (q, [Some a; Some b; Some t]).
Definition mon_index (t : trace) : N := snd (fst (check t)).
(* a correct beginning: mint 5 to account 0 at ledger 0 *)
Definition good_mint : item :=
  ([], Mint 0%N 5, Ok 0, mkO 0 [mkA 5 5 None 0 []; Z0] 5 5 [(0, 5)] [] [(0, rf)]).

Example C13_monitor_accepts_the_good_prefix :
  mon_index (bad_h, [good_mint;
     ([], Advance 10, Ok 0, mkO 10 [mkA 5 5 None 0 []; Z0] 5 5 [(0, 5)] [] [row 9 0 0 5; (10, rf)])]) = 0%N.
Proof. vm_compute. reflexivity. Qed.

(* account 0 holds 5 units and delegates to 1, but account 1 shows no voting power *)
Example C13_monitor_rejects_lost_votes :
  mon_index (bad_h, [good_mint;
     ([0%N], Delegate 0%N 1%N, Ok 0, mkO 0 [mkA 5 5 (Some 1%N) 0 []; Z0] 5 5 [(0, 5)] [] [(0, rf)])]) = 2%N.
Proof. vm_compute. reflexivity. Qed.

(* voting units differ from the token balance *)
Example C13_monitor_rejects_units_ne_balance :
  mon_index (bad_h,
    [([], Mint 0%N 5, Ok 0, mkO 0 [mkA 5 4 None 0 []; Z0] 5 4 [(0, 4)] [] [(0, rf)])]) = 1%N.
Proof. vm_compute. reflexivity. Qed.

(* the vote supply is not the sum of the units *)
Example C13_monitor_rejects_supply :
  mon_index (bad_h,
    [([], Mint 0%N 5, Ok 0, mkO 0 [mkA 5 5 None 0 []; Z0] 5 6 [(0, 6)] [] [(0, rf)])]) = 1%N.
Proof. vm_compute. reflexivity. Qed.

(* an answer about the past (ledger 0) changes later: 5 at ledger 1, 7 at ledger 2 *)
Example C13_monitor_rejects_rewritten_past :
  mon_index (bad_h, [good_mint;
     ([], Advance 1, Ok 0, mkO 1 [mkA 5 5 None 0 []; Z0] 5 5 [(0, 5)] [] [row 0 0 0 5; (1, rf)]);
     ([], Advance 1, Ok 0, mkO 2 [mkA 5 5 None 0 []; Z0] 5 5 [(0, 5)] [] [row 0 0 0 7; row 1 0 0 5; (2, rf)])]) = 3%N.
Proof. vm_compute. reflexivity. Qed.

(* a past ledger answered with the value of a LATER ledger *)
Example C13_monitor_rejects_wrong_ledger :
  mon_index (bad_h, [good_mint;
     ([], Advance 1, Ok 0, mkO 1 [mkA 5 5 None 0 []; Z0] 5 5 [(0, 5)] [] [row 0 0 0 5; (1, rf)]);
     ([], Mint 0%N 3, Ok 0, mkO 1 [mkA 8 8 None 0 []; Z0] 8 8 [(0, 5); (1, 8)] [] [row 0 0 0 5; (1, rf)]);
     ([], Advance 1, Ok 0, mkO 2 [mkA 8 8 None 0 []; Z0] 8 8 [(0, 5); (1, 8)] [] [row 0 0 0 8; row 1 0 0 8; (2, rf)])]) = 4%N.
Proof. vm_compute. reflexivity. Qed.

(* a query about the current ledger is answered instead of refused *)
Example C13_monitor_rejects_answered_future :
  mon_index (bad_h,
    [([], Mint 0%N 5, Ok 0, mkO 0 [mkA 5 5 None 0 []; Z0] 5 5 [(0, 5)] [] [row 0 0 0 5])]) = 1%N.
Proof. vm_compute. reflexivity. Qed.

(* two checkpoints for the same ledger (no coalescing) *)
Example C13_monitor_rejects_duplicate_ledger :
  mon_index (bad_h,
    [([], Mint 0%N 5, Ok 0, mkO 0 [mkA 5 5 None 0 []; Z0] 5 5 [(0, 2); (0, 5)] [] [(0, rf)])]) = 1%N.
Proof. vm_compute. reflexivity. Qed.

(* state lapses silently while 600000 ledgers pass: balance, units and the supply checkpoint all read 0 again *)
Example C13_monitor_rejects_silent_lapse :
  mon_index (bad_h, [good_mint;
     ([], Advance 600000, Ok 0, mkO 600000 [Z0; Z0] 0 0 [] [] [row 599999 0 0 0; (600000, rf)])]) = 2%N.
Proof. vm_compute. reflexivity. Qed.

(* a failing call must leave no trace *)
Example C13_monitor_rejects_trace_of_failed_call :
  mon_index (bad_h, [good_mint;
     ([], Delegate 0%N 1%N, Fail, mkO 0 [mkA 5 5 (Some 1%N) 0 []; mkA 0 0 None 5 [(0, 5)]] 5 5 [(0, 5)] [] [(0, rf)])]) = 2%N.
Proof. vm_compute. reflexivity. Qed.

(* ... also when it is the very first call of the trace (the fresh contract is the empty observation) *)
Example C13_monitor_rejects_trace_of_failed_first_call :
  mon_index (bad_h,
    [([], Mint 0%N 5, Fail, mkO 0 [mkA 5 5 None 0 []; Z0] 5 5 [(0, 5)] [] [(0, rf)])]) = 1%N.
Proof. vm_compute. reflexivity. Qed.
Example C13_monitor_rejects_state_out_of_a_first_advance :
  mon_index (bad_h,
    [([], Advance 3, Ok 0, mkO 3 [mkA 5 5 None 0 []; Z0] 5 5 [(3, 5)] [] [row 2 0 0 0; (3, rf)])]) = 1%N.
Proof. vm_compute. reflexivity. Qed.

(* a delegatee appears although the account never called delegate (votes = delegated units stays true) *)
Example C13_monitor_rejects_spontaneous_delegation :
  mon_index (bad_h,
    [([], Mint 0%N 5, Ok 0, mkO 0 [mkA 5 5 (Some 1%N) 0 []; mkA 0 0 None 5 [(0, 5)]] 5 5 [(0, 5)] [] [(0, rf)])]) = 1%N.
Proof. vm_compute. reflexivity. Qed.

(* an OLD checkpoint is rewritten by a later call ((10,8) becomes (10,6): the answer for ledgers 10..19 changes)
   while only now-1 and now are queried: caught by the comparison of the checkpoint lists themselves *)
Example C13_monitor_rejects_rewritten_old_checkpoint :
  mon_index (bad_h, [good_mint;
     ([], Advance 10, Ok 0, mkO 10 [mkA 5 5 None 0 []; Z0] 5 5 [(0, 5)] [] [row 9 0 0 5; (10, rf)]);
     ([], Mint 0%N 3, Ok 0, mkO 10 [mkA 8 8 None 0 []; Z0] 8 8 [(0, 5); (10, 8)] [] [row 9 0 0 5; (10, rf)]);
     ([], Advance 10, Ok 0, mkO 20 [mkA 8 8 None 0 []; Z0] 8 8 [(0, 5); (10, 8)] [] [row 19 0 0 8; (20, rf)]);
     ([], Mint 0%N 1, Ok 0, mkO 20 [mkA 9 9 None 0 []; Z0] 9 9 [(0, 5); (10, 8); (20, 9)] [] [row 19 0 0 8; (20, rf)]);
     ([], Advance 20, Ok 0, mkO 40 [mkA 9 9 None 0 []; Z0] 9 9 [(0, 5); (10, 8); (20, 9)] [] [row 39 0 0 9; (40, rf)]);
     ([1%N], Delegate 1%N 1%N, Ok 0,
      mkO 40 [mkA 9 9 None 0 []; mkA 0 0 (Some 1%N) 0 []] 9 9 [(0, 5); (10, 6); (20, 9)] [] [row 39 0 0 9; (40, rf)])]) = 7%N.
Proof. vm_compute. reflexivity. Qed.

(* an old checkpoint dropped and a back-dated one inserted by the current call *)
Example C13_monitor_rejects_dropped_and_backdated_checkpoint :
  mon_index (bad_h, [good_mint;
     ([], Advance 10, Ok 0, mkO 10 [mkA 5 5 None 0 []; Z0] 5 5 [(0, 5)] [] [row 9 0 0 5; (10, rf)]);
     ([], Mint 0%N 3, Ok 0, mkO 10 [mkA 8 8 None 0 []; Z0] 8 8 [(0, 5); (10, 8)] [] [row 9 0 0 5; (10, rf)]);
     ([], Advance 30, Ok 0, mkO 40 [mkA 8 8 None 0 []; Z0] 8 8 [(0, 5); (10, 8)] [] [row 39 0 0 8; (40, rf)]);
     ([], Mint 0%N 1, Ok 0, mkO 40 [mkA 9 9 None 0 []; Z0] 9 9 [(3, 7); (40, 9)] [] [row 39 0 0 8; (40, rf)])]) = 5%N.
Proof. vm_compute. reflexivity. Qed.

(* a past row that contradicts the checkpoint list shown in the same observation *)
Example C13_monitor_rejects_row_contradicting_list :
  mon_index (bad_h, [good_mint;
     ([], Advance 10, Ok 0, mkO 10 [mkA 5 5 None 0 []; Z0] 5 5 [(0, 5); (4, 5)] [] [row 9 0 0 5; (10, rf)])]) = 2%N /\
  mon_index (bad_h,
    [([], Advance 3, Ok 0, mkO 3 [Z0; Z0] 0 0 [] [] [row 2 0 0 0; (3, rf)]);
     ([], Mint 0%N 5, Ok 0, mkO 3 [mkA 5 5 None 0 []; Z0] 5 5 [(1, 5)] [] [row 2 0 0 0; (3, rf)])]) = 2%N.
Proof. vm_compute. split; reflexivity. Qed.

(* malformed observations: no account listed; the clock moves on a non-Advance call / stands still on an
   Advance; the rows for now-1 and now are missing *)
Example C13_monitor_rejects_malformed_observations :
  mon_index (bad_h, [([], Mint 0%N 5, Ok 0, mkO 0 [] 5 0 [] [] [(0, [None])])]) = 1%N /\
  mon_index (bad_h, [([], Mint 0%N 5, Ok 0, mkO 7 [mkA 5 5 None 0 []; Z0] 5 5 [(7, 5)] [] [row 6 0 0 0; (7, rf)])]) = 1%N /\
  mon_index (bad_h, [good_mint;
     ([], Advance 100, Ok 0, mkO 0 [mkA 5 5 None 0 []; Z0] 5 5 [(0, 5)] [] [(0, rf)])]) = 2%N /\
  mon_index (bad_h, [good_mint;
     ([], Advance 1, Ok 0, mkO 1 [mkA 5 5 None 0 []; Z0] 5 5 [(0, 5)] [] [])]) = 2%N /\
  mon_index (bad_h, [good_mint;
     ([], Advance 1, Ok 0, mkO 1 [mkA 5 5 None 0 []; Z0] 5 5 [(0, 5)] [] [(1, rf)])]) = 2%N.
Proof. vm_compute. repeat split. Qed.

(* ---- situation classes: non-vacuity and bad traces ---- *)
(* universe of 5: accounts 0, 1 plain, 2 an account address (muxed destination), 3 a forwarder contract (it authorises:
   it occurs in authorisation sets), 4 the token itself (never in an authorisation set).  The zero-amount and
   self-transfer calls SUCCEED (the theorems are not about failing calls only); address 4 receives, is a delegatee with
   voting power, is refused as sender / delegator, and ends with a larger balance and no delegate. *)
Definition k_h : header :=
  {| h_kind := KFung; h_n := 5; h_ids := 0; h_start := 0; h_maxttl := 100; h_owner := 0%N; h_db := false |}.
Definition k_cs : list (list addr * call) :=
  [([], Mint 4%N 50); ([], Mint 0%N 30); ([0%N], Delegate 0%N 4%N); ([], Advance 1);
   ([0%N], Transfer 0%N 4%N 10); ([], Transfer 4%N 0%N 5); ([], Delegate 4%N 0%N);
   ([0%N], TransferMuxed 0%N 2%N 77 4); ([3%N], Delegate 3%N 3%N); ([0%N], Transfer 0%N 0%N 16); ([0%N], Transfer 0%N 1%N 0)].
Example C13_example_classes :
  let s := run k_h (init k_h) k_cs in
  map (fun k => is_ok (snd (step k_h (run k_h (init k_h) (firstn k k_cs)) (fst (nth k k_cs ([], Advance 0))) (snd (nth k k_cs ([], Advance 0))))))
      [4; 5; 6; 7; 9; 10]%nat = [true; false; false; true; true; true] /\
  balance_of s 4%N = 60 /\ units_of (s_v s) 4%N = 60 /\ delegate_of (s_v s) 4%N = None /\
  get_votes (s_v s) 4%N = Ok 16 /\ balance_of s 2%N = 4 /\ units_of (s_v s) 2%N = 4 /\
  get_votes_at 1 (s_v s) 4%N 0 = Ok 30 /\
  check (observe_model k_h (map (fun ac => (fst ac, snd ac, [0; 1; 2])) k_cs)) = (0%N, 0%N, 0%N).
Proof. vm_compute. repeat split. Qed.

(* the token's own address (account 1 here) shows the vote total supply as ITS voting power (the two timelines
   share their storage): nobody delegates to it, so votes <> sum of delegated units *)
Example C13_monitor_rejects_own_address_aliasing_the_supply :
  mon_index (bad_h,
    [([], Mint 0%N 5, Ok 0, mkO 0 [mkA 5 5 None 0 []; mkA 0 0 None 5 [(0, 5)]] 5 5 [(0, 5)] [] [(0, rf)])]) = 1%N.
Proof. vm_compute. reflexivity. Qed.

(* tokens sent to the token's own address (account 1) are not counted as its voting units *)
Example C13_monitor_rejects_units_not_credited_to_own_address :
  mon_index (bad_h, [good_mint;
     ([0%N], Transfer 0%N 1%N 2, Ok 0, mkO 0 [mkA 3 3 None 0 []; mkA 2 0 None 0 []] 5 3 [(0, 3)] [] [(0, rf)])]) = 2%N.
Proof. vm_compute. reflexivity. Qed.

(* a transfer to a muxed destination moves the tokens but not the voting units *)
Example C13_monitor_rejects_muxed_transfer_without_units :
  mon_index (bad_h, [good_mint;
     ([0%N], TransferMuxed 0%N 1%N 77 2, Ok 0, mkO 0 [mkA 3 5 None 0 []; mkA 2 0 None 0 []] 5 5 [(0, 5)] [] [(0, rf)])]) = 2%N.
Proof. vm_compute. reflexivity. Qed.

(* the units entry that dropped to zero also dropped the account's delegate *)
Example C13_monitor_rejects_delegate_lost_with_the_last_unit :
  mon_index (bad_h, [good_mint;
     ([0%N], Delegate 0%N 1%N, Ok 0, mkO 0 [mkA 5 5 (Some 1%N) 0 []; mkA 0 0 None 5 [(0, 5)]] 5 5 [(0, 5)] [] [(0, rf)]);
     ([0%N], Transfer 0%N 1%N 5, Ok 0, mkO 0 [mkA 0 0 None 0 []; mkA 5 5 None 0 [(0, 0)]] 5 5 [(0, 5)] [] [(0, rf)])]) = 3%N.
Proof. vm_compute. reflexivity. Qed.
