(* C01 - Fungible supply is conserved and reconstructible from events.
   Model: coq/Model/Fungible.v (Base::update and its wrappers; flavours Base+Burnable, AllowList,
   BlockList, FungibleVotes, vault shares, RWA; [c_flav] of the configuration selects the flavour, every
   theorem below quantifies over the configuration, hence over all flavours).
   This file contains only pinned statements, each closed by [exact] of a lemma proved in Proofs/,
   followed by Print Assumptions. *)
From SC Require Import Lib.Prelude Lib.Int Lib.Host Model.Math Model.Fungible Model.FungibleObs
  Proofs.FungibleBasics Proofs.FungibleExec Proofs.FungibleAllow Proofs.FungibleInv Proofs.FungibleObsFacts
  Proofs.FungibleVotes Run.C01 Proofs.C01Monitor Proofs.C01Final Proofs.C01Parties.

(* Base::update preserves: no negative balance, total_supply = sum of all stored balances,
   0 <= total_supply <= i128::MAX. *)
Theorem C01_update_inv : forall t from to amt t',
  (forall a, 0 <= balance t a) -> supply t = sumv (bals t) -> 0 <= supply t <= MAX128 -> NoDup (keys (bals t)) ->
  update t from to amt = Ok t' ->
  (forall a, 0 <= balance t' a) /\ supply t' = sumv (bals t') /\ 0 <= supply t' <= MAX128 /\ NoDup (keys (bals t')).
Proof. exact update_inv_final. Qed.
Print Assumptions C01_update_inv.

(* update_credit_never_overflows / update_burn_never_underflows: the model traps on the unchecked
   `balance + amount`, `from_balance -= amount` and `total_supply - amount` when they leave i128; under
   the invariant those traps are unreachable: update fails only for a negative amount, an insufficient
   balance, or the checked supply overflow of a mint. *)
Theorem C01_update_arithmetic_never_traps : forall t from to amt,
  (forall a, 0 <= balance t a) -> supply t = sumv (bals t) -> 0 <= supply t <= MAX128 -> NoDup (keys (bals t)) ->
  update t from to amt = Fail ->
  amt < 0 \/ (exists a, from = Some a /\ balance t a < amt) \/ (from = None /\ MAX128 < supply t + amt).
Proof. exact update_never_traps_final. Qed.
Print Assumptions C01_update_arithmetic_never_traps.

(* Every reachable state of every flavour, after any finite interleaving of any calls with any
   arguments and authorisation sets: balances are non-negative, total_supply is the sum of the
   balances (over the duplicate-free list of accounts that have a stored balance; every other
   account has balance 0), and it stays within i128. *)
Theorem C01_reachable_inv : forall (c : cfg) (start : Z) (cs : list call), wf_cfg c = true ->
  let t := tk (run c (init start) cs) in
  (forall a, 0 <= balance t a) /\
  supply t = sumv (bals t) /\
  0 <= supply t <= MAX128 /\
  NoDup (keys (bals t)) /\
  (forall a, ~ In a (keys (bals t)) -> balance t a = 0).
Proof. exact reachable_inv_final. Qed.
Print Assumptions C01_reachable_inv.

(* total_supply() equals the sum of all account balances: over any duplicate-free list of accounts
   that contains every account with a non-zero balance. *)
Theorem C01_supply_is_sum_of_balances : forall c start cs univ, wf_cfg c = true -> NoDup univ ->
  let t := tk (run c (init start) cs) in
  (forall a, balance t a <> 0 -> In a univ) -> sum_over (balance t) univ = supply t.
Proof. exact supply_sum_over_cover. Qed.
Print Assumptions C01_supply_is_sum_of_balances.

(* [state_inv] (the invariant above + allowance-entry invariant + event-replay agreement) holds in
   every reachable state; the per-call theorems below are stated for any state satisfying it. *)
Theorem C01_reachable_state_inv : forall c start cs, wf_cfg c = true -> state_inv (run c (init start) cs).
Proof. exact reachable_state_inv_final. Qed.
Print Assumptions C01_reachable_state_inv.

(* A transfer (transfer, transfer_from, RWA forced_transfer) never changes the supply and moves
   exactly the amount (also for from = to and amount 0). *)
Theorem C01_transfer_keeps_supply : forall c s, wf_cfg c = true -> state_inv s ->
  forall cl from to amt s' v evs,
  (exists au mux, cl = Transfer au from to mux amt) \/ (exists au sp, cl = TransferFrom au sp from to amt) \/
  cl = RForcedTransfer from to amt ->
  exec c s cl = Ok (s', v, evs) ->
  supply (tk s') = supply (tk s) /\
  forall x, balance (tk s') x = credit (credit (balance (tk s)) from (- amt)) to amt x.
Proof. exact transfer_keeps_supply. Qed.
Print Assumptions C01_transfer_keeps_supply.

Theorem C01_mint_adds_exactly : forall c s, state_inv s ->
  forall to amt s' v evs,
  exec c s (Mint to amt) = Ok (s', v, evs) ->
  supply (tk s') = supply (tk s) + amt /\
  balance (tk s') to = balance (tk s) to + amt /\
  forall x, x <> to -> balance (tk s') x = balance (tk s) x.
Proof. exact mint_adds_exactly. Qed.
Print Assumptions C01_mint_adds_exactly.

Theorem C01_burn_removes_exactly : forall c s, wf_cfg c = true -> state_inv s ->
  forall cl from amt s' v evs,
  (exists au, cl = Burn au from amt) \/ (exists au sp, cl = BurnFrom au sp from amt) \/ cl = RBurn from amt ->
  exec c s cl = Ok (s', v, evs) ->
  supply (tk s') = supply (tk s) - amt /\
  balance (tk s') from = balance (tk s) from - amt /\
  forall x, x <> from -> balance (tk s') x = balance (tk s) x.
Proof. exact burn_removes_exactly. Qed.
Print Assumptions C01_burn_removes_exactly.

(* vault shares: created / destroyed exactly as the Deposit / Withdraw event says *)
Theorem C01_vault_shares_exactly : forall c s, wf_cfg c = true -> state_inv s ->
  forall cl s' v evs,
  exec c s cl = Ok (s', v, evs) ->
  match cl with
  | VDeposit _ _ assets r f o => evs = [EDeposit o f r assets v] /\ supply (tk s') = supply (tk s) + v /\
                               forall x, balance (tk s') x = credit (balance (tk s)) r v x
  | VMint _ _ sh r f o => evs = [EDeposit o f r v sh] /\ supply (tk s') = supply (tk s) + sh /\
                        forall x, balance (tk s') x = credit (balance (tk s)) r sh x
  | VWithdraw _ assets r ow o => evs = [EWithdraw o r ow assets v] /\ supply (tk s') = supply (tk s) - v /\
                                 forall x, balance (tk s') x = credit (balance (tk s)) ow (- v) x
  | VRedeem _ sh r ow o => evs = [EWithdraw o r ow v sh] /\ supply (tk s') = supply (tk s) - sh /\
                           forall x, balance (tk s') x = credit (balance (tk s)) ow (- sh) x
  | _ => True
  end.
Proof. exact vault_shares_exactly. Qed.
Print Assumptions C01_vault_shares_exactly.

(* FungibleVotes flavour: after any call sequence the voting units kept by the votes module equal the
   token balances and the latest total-supply checkpoint equals total_supply (so the checked
   subtraction of voting units and the total-supply checkpoint arithmetic of transfer_voting_units
   cannot fail after a successful Base operation). *)
Theorem C01_votes_units_mirror_balances : forall c start cs, wf_cfg c = true -> c_flav c = FVotes ->
  let s := run c (init start) cs in
  (forall a, getd (units s) a = balance (tk s) a) /\ tsvotes s = supply (tk s).
Proof. exact votes_units_mirror_balances. Qed.
Print Assumptions C01_votes_units_mirror_balances.

(* Every successful call of every flavour emits at most one of the named events and changes
   balances and supply by exactly the movement that event describes (no event: no change). *)
Theorem C01_step_moves_as_events : forall c start cs cl, wf_cfg c = true ->
  let s := run c (init start) cs in
  forall s' v evs, step c s cl = (s', Ok v, evs) ->
  (length evs <= 1)%nat /\
  let '(f, t, amt) := evs_move evs in
  0 <= amt /\
  (forall x, balance (tk s') x = ocredit (ocredit (balance (tk s)) f (- amt)) t amt x) /\
  supply (tk s') = supply (tk s) + (if is_none f then amt else 0) - (if is_none t then amt else 0).
Proof. exact step_moves_as_events. Qed.
Print Assumptions C01_step_moves_as_events.

(* A call that fails leaves the whole state (every balance, allowance, the supply, the event
   log, every flavour-specific table) exactly as before and emits nothing. *)
Theorem C01_failed_call_is_identity : forall c s cl,
  snd (fst (step c s cl)) = Fail -> fst (fst (step c s cl)) = s /\ snd (step c s cl) = [].
Proof. exact failed_call_is_identity. Qed.
Print Assumptions C01_failed_call_is_identity.

(* Replaying the emitted mint / burn / transfer (deposit / withdraw for vault shares) events from
   genesis reproduces every balance and the supply, in every reachable state of every flavour. *)
Theorem C01_events_replay : forall c start cs, wf_cfg c = true ->
  let s := run c (init start) cs in
  (forall a, fst (replay (hist s)) a = balance (tk s) a) /\ snd (replay (hist s)) = supply (tk s).
Proof. exact events_replay_final. Qed.
Print Assumptions C01_events_replay.

(* Special addresses as parties.  Outside the vault flavour no call of the model looks at the token contract's
   own address ([c_self]): an account is an account, whether it is a user, another registered contract or the
   token contract itself - renaming "self" changes nothing in any run.  (The harness ties this to the code: in
   every flavour the contract's own address, a forwarder contract and an account-type address hold tokens and
   are used as from / to / owner / spender / operator / receiver / delegatee / queried account.) *)
Theorem C01_contract_address_is_an_ordinary_account : forall c x s cs, c_flav c <> FVault ->
  run {| c_host := c_host c; c_flav := c_flav c; c_self := x; c_offset := c_offset c |} s cs = run c s cs.
Proof. exact self_address_irrelevant_run. Qed.
Print Assumptions C01_contract_address_is_an_ordinary_account.

(* Aliasing: a self-directed movement (from = to, whichever address, any amount the holder has) changes no
   balance and not the supply - in every flavour, for transfer, transfer_from and the RWA forced_transfer. *)
Theorem C01_self_directed_move_is_neutral : forall c s, wf_cfg c = true -> state_inv s ->
  forall cl a amt s' v evs,
  (exists au mux, cl = Transfer au a a mux amt) \/ (exists au sp, cl = TransferFrom au sp a a amt) \/
  cl = RForcedTransfer a a amt ->
  exec c s cl = Ok (s', v, evs) ->
  supply (tk s') = supply (tk s) /\ forall x, balance (tk s') x = balance (tk s) x.
Proof. exact self_directed_move_is_neutral. Qed.
Print Assumptions C01_self_directed_move_is_neutral.

(* The executable monitor (the property as a boolean over observations) accepts every run of the
   model, and the model's diff with itself is empty. *)
Theorem C01_monitor_accepts_model : forall c univ start cs,
  wf_cfg c = true -> wf_calls univ cs = true ->
  check (model_trace c univ start cs) = (0%N, 0%N, 0%N).
Proof. exact check_accepts_model. Qed.
Print Assumptions C01_monitor_accepts_model.

(* ---- non-vacuity and sanity of the monitor ---- *)
Definition ex_cfg (f : flavour) : cfg := {| c_host := default_cfg 5000; c_flav := f; c_self := 3%N; c_offset := 0 |}.
Definition ex_univ : list addr := [0%N; 1%N; 2%N; 3%N].
Definition ex_calls : list call :=
  [Mint 0%N 100; Approve [0%N] 0%N 1%N 40 120; TransferFrom [1%N] 1%N 0%N 2%N 15; Transfer [2%N] 2%N 2%N None 15;
   Burn [0%N] 0%N 5; Mint 1%N MAX128; Transfer [] 0%N 1%N None 1; BurnFrom [1%N] 1%N 0%N 25; Advance 30].

(* the hypotheses are satisfiable on a non-trivial reachable state, and the run is not all failures *)
Example C01_nonvacuous :
  wf_cfg (ex_cfg FBase) = true /\ wf_calls ex_univ ex_calls = true /\
  let s := run (ex_cfg FBase) (init 100) ex_calls in
  supply (tk s) = 70 /\ balance (tk s) 0%N = 55 /\ balance (tk s) 2%N = 15 /\ length (hist s) = 6%nat /\
  check (model_trace (ex_cfg FBase) ex_univ 100 ex_calls) = (0%N, 0%N, 0%N).
Proof. vm_compute. repeat split. Qed.

(* ---- non-vacuity for the other flavours: successful flavour-specific calls, invariants, monitor ---- *)
Definition cf (f : flavour) (off : Z) : cfg := {| c_host := default_cfg 5000; c_flav := f; c_self := 3%N; c_offset := off |}.
Definition vault_calls : list call :=
  [AssetMint 0%N 1000; VDeposit [0%N] [0%N] 100 1%N 0%N 0%N; VMint [0%N] [0%N] 10 0%N 0%N 0%N;
   VRedeem [1%N] 40000 2%N 1%N 1%N; VWithdraw [1%N] 5 0%N 1%N 1%N; Transfer [1%N] 1%N 1%N None 60; VDeposit [] [] 5 0%N 0%N 0%N].
Example C01_nonvacuous_vault :
  let s := run (cf FVault 3) (init 10) vault_calls in
  supply (tk s) = 55089 /\ length (hist s) = 5%nat /\ balance (asset s) 3%N = 56 /\
  check (model_trace (cf FVault 3) ex_univ 10 vault_calls) = (0%N, 0%N, 0%N).
Proof. vm_compute. repeat split. Qed.
Definition rwa_calls : list call :=
  [Mint 0%N 100; RFreeze 0%N 60; RForcedTransfer 0%N 1%N 70; RBurn 0%N 25; RSetRecovery 1%N 1%N; RRecover 1%N 1%N;
   RSetRecovery 1%N 2%N; RFreeze 1%N 20; RSetFrozen 1%N true; RRecover 1%N 2%N; Transfer [2%N] 2%N 0%N None 1;
   RPause true; Transfer [0%N] 0%N 2%N None 1].
Example C01_nonvacuous_rwa :
  let s := run (cf FRwa 0) (init 10) rwa_calls in
  supply (tk s) = 75 /\ balance (tk s) 2%N = 70 /\ balance (tk s) 1%N = 0 /\ length (hist s) = 5%nat /\ frozen_of s 2%N = 20 /\
  check (model_trace (cf FRwa 0) ex_univ 10 rwa_calls) = (0%N, 0%N, 0%N).
Proof. vm_compute. repeat split. Qed.
Definition votes_calls : list call :=
  [Mint 0%N 100; Delegate [0%N] 0%N 1%N; Transfer [0%N] 0%N 0%N None 100; Transfer [0%N] 0%N 2%N None 30; Burn [2%N] 2%N 30; Mint 1%N MAX128].
Example C01_nonvacuous_votes :
  let s := run (cf FVotes 0) (init 10) votes_calls in
  supply (tk s) = 70 /\ getd (units s) 0%N = 70 /\ getd (dvotes s) 1%N = 70 /\ tsvotes s = 70 /\
  check (model_trace (cf FVotes 0) ex_univ 10 votes_calls) = (0%N, 0%N, 0%N).
Proof. vm_compute. repeat split. Qed.
Definition list_calls : list call :=
  [Mint 0%N 50; Transfer [0%N] 0%N 1%N None 5; SetListed 0%N true; SetListed 1%N true; Transfer [0%N] 0%N 1%N None 5; Burn [1%N] 1%N 2].
Example C01_nonvacuous_allow_block :
  supply (tk (run (cf FAllow 0) (init 10) list_calls)) = 48 /\ supply (tk (run (cf FBlock 0) (init 10) list_calls)) = 50 /\
  check (model_trace (cf FAllow 0) ex_univ 10 list_calls) = (0%N, 0%N, 0%N) /\
  check (model_trace (cf FBlock 0) ex_univ 10 list_calls) = (0%N, 0%N, 0%N).
Proof. vm_compute. repeat split. Qed.

(* ---- the monitor rejects bad traces ---- *)
(* (a) the model's own trace with one item corrupted *)
Definition corrupt (f : item -> item) (k : nat) (t : trace) : trace :=
  {| t_cfg := t_cfg t; t_univ := t_univ t; t_start := t_start t; t_init := t_init t;
     t_items := firstn k (t_items t) ++ match skipn k (t_items t) with [] => [] | it :: r => f it :: r end |}.
Definition ex_trace : trace := model_trace (ex_cfg FBase) ex_univ 100 ex_calls.
Definition set_bal_obs (o : obs) (b : list (addr * Z)) : obs :=
  {| o_now := o_now o; o_supply := o_supply o; o_bal := b; o_allow := o_allow o; o_extra := o_extra o |}.
Definition set_bal1 (a : addr) (v : Z) (l : list (addr * Z)) : list (addr * Z) :=
  map (fun x => if N.eqb (fst x) a then (a, v) else x) l.
Definition set_sup_obs (o : obs) (v : Z) : obs :=
  {| o_now := o_now o; o_supply := v; o_bal := o_bal o; o_allow := o_allow o; o_extra := o_extra o |}.

(* (1) a transfer that creates one unit out of thin air in the recipient's balance *)
Example C01_monitor_rejects_inflated_balance :
  c01_why (corrupt (fun '(cl, out, evs, o) => (cl, out, evs, set_bal_obs o (set_bal1 2%N 16 (o_bal o)))) 2 ex_trace) = (3%N, 1%N).
Proof. vm_compute. reflexivity. Qed.
(* (2) a failing call (transfer without authorisation) that nevertheless moved a token *)
Example C01_monitor_rejects_failed_call_with_effect :
  c01_monitor (corrupt (fun '(cl, out, evs, o) =>
     (cl, out, evs, set_bal_obs o (set_bal1 0%N 54 (set_bal1 1%N 1 (o_bal o))))) 6 ex_trace) = 7%N.
Proof. vm_compute. reflexivity. Qed.
(* (3) a burn whose event is missing: balances and supply are consistent, but the event replay no longer reproduces them *)
Example C01_monitor_rejects_missing_event :
  c01_why (corrupt (fun '(cl, out, evs, o) => (cl, out, [], o)) 4 ex_trace) = (5%N, 5%N).
Proof. vm_compute. reflexivity. Qed.
(* (4) a mint that changes the supply by one more than the amount *)
Example C01_monitor_rejects_wrong_supply :
  c01_monitor (corrupt (fun '(cl, out, evs, o) => (cl, out, evs, set_sup_obs o (o_supply o + 1))) 0 ex_trace) = 1%N.
Proof. vm_compute. reflexivity. Qed.
(* (5) persistence: a balance / the supply that lapses while time passes (Advance) although no call touched it *)
Example C01_monitor_rejects_balance_lapsing_over_time :
  c01_monitor (corrupt (fun '(cl, out, evs, o) => (cl, out, evs, set_bal_obs o (set_bal1 2%N 0 (o_bal o)))) 8 ex_trace) = 9%N /\
  c01_monitor (corrupt (fun '(cl, out, evs, o) => (cl, out, evs, set_sup_obs o 0)) 8 ex_trace) = 9%N.
Proof. vm_compute. split; reflexivity. Qed.

(* (b) hand-written traces (from the adversarial review of this check) *)
Definition ob (now sup : Z) (b : list (addr * Z)) (al : list (pkey * (Z * Z * Z))) (ex : list Z) : obs :=
  {| o_now := now; o_supply := sup; o_bal := b; o_allow := al; o_extra := ex |}.
Definition B (a b c d : Z) : list (addr * Z) := [(0%N, a); (1%N, b); (2%N, c); (3%N, d)].
Definition T (f : flavour) (x0 : list Z) (its : list item) : trace :=
  {| t_cfg := cf f 0; t_univ := ex_univ; t_start := 10; t_init := ob 10 0 (B 0 0 0 0) [] x0; t_items := its |}.
Definition mint100 : item := (Mint 0%N 100, Ok 0, [EMint 0%N 100], ob 10 100 (B 100 0 0 0) [] []).

(* (6) the answers of the public getters total_supply() / balance() must be the observed values *)
Example C01_monitor_rejects_wrong_getter_answers :
  c01_why (T FBase [] [mint100; (QSupply, Ok 999, [], ob 10 100 (B 100 0 0 0) [] [])]) = (2%N, 7%N) /\
  c01_why (T FBase [] [mint100; (QBalance 0%N, Ok (-5), [], ob 10 100 (B 100 0 0 0) [] [])]) = (2%N, 7%N) /\
  c01_why (T FBase [] [mint100; (QBalance 1%N, Ok 77, [], ob 10 100 (B 100 0 0 0) [] [])]) = (2%N, 7%N) /\
  c01_why (T FBase [] [mint100; (QSupply, Ok 100, [], ob 10 100 (B 100 0 0 0) [] [])]) = (0%N, 0%N).
Proof. vm_compute. repeat split. Qed.
(* (7) a failing call may not change flavour state either: a failing vault deposit that pulled assets, a
   failing RWA freeze that froze and paused, a failing transfer that moved voting units *)
Example C01_monitor_rejects_failing_call_changing_flavour_state :
  c01_why (T FVault [0;0;0;0] [ (AssetMint 0%N 1000, Ok 0, [], ob 10 0 (B 0 0 0 0) [] [1000;0;0;0]);
       (VDeposit [0%N] [0%N] 500 0%N 0%N 0%N, Fail, [], ob 10 0 (B 0 0 0 0) [] [500;0;0;500]) ]) = (2%N, 7%N) /\
  c01_why (T FRwa [0;0;0;0;0;0;0;0;0] [ (Mint 0%N 100, Ok 0, [EMint 0%N 100], ob 10 100 (B 100 0 0 0) [] [0;0;0;0;0;0;0;0;0]);
       (RFreeze 0%N 1000, Fail, [], ob 10 100 (B 100 0 0 0) [] [1;1000;1;0;0;0;0;0;0]) ]) = (2%N, 7%N) /\
  c01_why (T FVotes [0; 0;0;-1; 0;0;-1; 0;0;-1; 0;0;-1]
     [ (Mint 0%N 100, Ok 0, [EMint 0%N 100], ob 10 100 (B 100 0 0 0) [] [100; 100;0;-1; 0;0;-1; 0;0;-1; 0;0;-1]);
       (Transfer [] 0%N 1%N None 5, Fail, [], ob 10 100 (B 100 0 0 0) [] [100; 95;0;-1; 5;0;-1; 0;0;-1; 0;0;-1]) ]) = (2%N, 7%N).
Proof. vm_compute. repeat split. Qed.
(* (8) events naming unobserved accounts, or carrying negative amounts (a burn reported as a negative mint) *)
Example C01_monitor_rejects_unobserved_or_negative_events :
  c01_why (T FBase [] [mint100; (Approve [0%N] 0%N 1%N 0 0, Ok 0, [EApprove 0%N 1%N 0 0; ETransfer 999%N 998%N None 12345],
                                 ob 10 100 (B 100 0 0 0) [((0%N,1%N),((0,0),10))] [])]) = (2%N, 8%N) /\
  c01_why (T FBase [] [mint100; (Burn [0%N] 0%N 5, Ok 0, [EMint 0%N (-5)], ob 10 95 (B 95 0 0 0) [] [])]) = (2%N, 8%N).
Proof. vm_compute. repeat split. Qed.
(* (9) the header and the shape of observations are checked, not trusted: accounts missing from the
   observed universe, an empty universe, duplicated balance keys, a non-empty genesis, a moving clock *)
Example C01_monitor_rejects_malformed_traces :
  c01_why {| t_cfg := cf FBase 0; t_univ := [0%N]; t_start := 10; t_init := ob 10 0 [(0%N,0)] [] [];
             t_items := [ (Mint 0%N 100, Ok 0, [EMint 0%N 100], ob 10 100 [(0%N,100)] [] []);
                          (Transfer [] 5%N 6%N None 50, Ok 0, [], ob 10 100 [(0%N,100)] [] []) ] |} = (2%N, 7%N) /\
  c01_why {| t_cfg := cf FBase 0; t_univ := []; t_start := 10; t_init := ob 10 0 [] [] [];
             t_items := [ (Transfer [] 5%N 6%N None 50, Ok 0, [ETransfer 1%N 2%N None 7], ob 10 0 [] [] []) ] |} = (1%N, 7%N) /\
  c01_why (T FBase [] [ (Mint 0%N 100, Ok 0, [EMint 0%N 100],
                         ob 10 100 [(0%N,100);(1%N,0);(2%N,0);(3%N,0);(1%N,-40);(2%N,900)] [] []) ]) = (1%N, 7%N) /\
  c01_why {| t_cfg := cf FBase 0; t_univ := ex_univ; t_start := 10; t_init := ob 10 7 (B 7 0 0 0) [] []; t_items := [] |} = (1%N, 9%N) /\
  c01_why (T FBase [] [mint100; (Transfer [0%N] 0%N 1%N None 5, Ok 0, [ETransfer 0%N 1%N None 5], ob 11 100 (B 95 5 0 0) [] [])]) = (2%N, 7%N) /\
  (* what the harness emits when a trace is lost to a panic in harness code *)
  check {| t_cfg := cf FBase 0; t_univ := []; t_start := 0; t_init := ob 0 (-7777777) [] [] []; t_items := [] |} = (1%N, 1%N, 0%N).
Proof. vm_compute. repeat split. Qed.

(* ---- follow-up: special addresses as parties, magic amounts, histories ---- *)
(* the token contract's own address (3), an account-type address (4) and another contract that authorises as
   the direct invoker (5) hold tokens; nobody can move the contract's own tokens from outside; the magic
   amount 2^64 is minted, moved, spent exactly and burned; a balance and the supply go through zero and back *)
Definition sp_univ : list addr := [0%N; 1%N; 2%N; 3%N; 4%N; 5%N].
Definition sp_calls : list call :=
  [Mint 3%N 100; Mint 5%N 70; Mint 4%N 50; Transfer [] 3%N 0%N None 10; Transfer [0%N; 1%N; 2%N] 3%N 0%N None 10;
   Burn [0%N] 3%N 5; Approve [1%N] 3%N 1%N 10 90; Transfer [5%N] 5%N 3%N None 20; Transfer [5%N; 0%N] 5%N 5%N None 50;
   Transfer [0%N] 5%N 0%N None 1; Approve [5%N] 5%N 2%N 30 90; TransferFrom [2%N] 2%N 5%N 3%N 30;
   Mint 0%N (2 ^ 64); Transfer [0%N] 0%N 1%N None (2 ^ 64 + 1); Transfer [0%N] 0%N 1%N None (2 ^ 64);
   Approve [1%N] 1%N 2%N (2 ^ 64) 90; TransferFrom [2%N] 2%N 1%N 0%N (2 ^ 64); Burn [0%N] 0%N (2 ^ 64);
   Burn [5%N] 5%N 20; Mint 5%N 1].
Example C01_nonvacuous_special_parties :
  let s := run (ex_cfg FBase) (init 50) sp_calls in
  map (fun it => is_ok (snd (fst (fst it)))) (t_items (model_trace (ex_cfg FBase) sp_univ 50 sp_calls))
    = [true; true; true; false; false; false; false; true; true; false; true; true;
       true; false; true; true; true; true; true; true] /\
  balance (tk s) 3%N = 150 /\ balance (tk s) 5%N = 1 /\ balance (tk s) 0%N = 0 /\ supply (tk s) = 201 /\
  wf_calls sp_univ sp_calls = true /\
  check (model_trace (ex_cfg FBase) sp_univ 50 sp_calls) = (0%N, 0%N, 0%N).
Proof. vm_compute. repeat split. Qed.

(* (10) tokens sent to the token contract's own address that vanish (supply no longer the sum of the balances),
   or that are credited without leaving the sender; a transfer out of the contract's own balance that the
   replay of events cannot explain *)
Example C01_monitor_rejects_special_address_anomalies :
  c01_why (T FBase [] [mint100; (Transfer [0%N] 0%N 3%N None 40, Ok 0, [ETransfer 0%N 3%N None 40], ob 10 100 (B 60 0 0 0) [] [])]) = (2%N, 1%N) /\
  c01_why (T FBase [] [mint100; (Transfer [0%N] 0%N 3%N None 40, Ok 0, [ETransfer 0%N 3%N None 40], ob 10 140 (B 100 0 0 40) [] [])]) = (2%N, 4%N) /\
  c01_why (T FBase [] [mint100; (Transfer [0%N] 0%N 3%N None 40, Ok 0, [ETransfer 0%N 3%N None 40], ob 10 100 (B 60 0 0 40) [] []);
                       (Transfer [] 3%N 1%N None 40, Fail, [], ob 10 100 (B 60 40 0 0) [] [])]) = (3%N, 7%N) /\
  c01_why (T FBase [] [mint100; (Transfer [0%N] 0%N 3%N None 40, Ok 0, [ETransfer 0%N 3%N None 40], ob 10 100 (B 60 0 0 40) [] [])]) = (0%N, 0%N).
Proof. vm_compute. repeat split. Qed.
