(* C01 - Fungible supply is conserved and reconstructible from events.
   Model: coq/Model/Fungible.v (Base::update and its wrappers; flavours Base+Burnable, AllowList,
   BlockList, FungibleVotes, vault shares, RWA; [c_flav] of the configuration selects the flavour, every
   theorem below quantifies over the configuration, hence over all flavours).
   This file contains only pinned statements, each closed by [exact] of a lemma proved in Proofs/,
   followed by Print Assumptions. *)
From SC Require Import Lib.Prelude Lib.Int Lib.Host Model.Math Model.Fungible Model.FungibleObs
  Proofs.FungibleBasics Proofs.FungibleExec Proofs.FungibleAllow Proofs.FungibleInv Proofs.FungibleObsFacts
  Proofs.FungibleVotes Run.C01 Proofs.C01Monitor Proofs.C01Final.

(* Base::update preserves: no negative balance, total_supply = sum of all stored balances,
   0 <= total_supply <= i128::MAX. *)
Theorem C01_update_inv : forall t from to amt t',
  (forall a, 0 <= balance t a) -> supply t = sumv (bals t) -> 0 <= supply t <= MAX128 -> NoDup (keys (bals t)) ->
  update t from to amt = Ok t' ->
  (forall a, 0 <= balance t' a) /\ supply t' = sumv (bals t') /\ 0 <= supply t' <= MAX128 /\ NoDup (keys (bals t')).
Proof. exact update_inv_final. Qed.
Print Assumptions C01_update_inv.

(* update_credit_never_overflows / update_burn_never_underflows: the model traps on the unchecked
   `balance + amount`, `from_balance -= amount` and `total_supply - amount` when they leave i128; under
   the invariant those traps are unreachable: update fails only for a negative amount, an insufficient
   balance, or the checked supply overflow of a mint. *)
Theorem C01_update_arithmetic_never_traps : forall t from to amt,
  (forall a, 0 <= balance t a) -> supply t = sumv (bals t) -> 0 <= supply t <= MAX128 -> NoDup (keys (bals t)) ->
  update t from to amt = Fail ->
  amt < 0 \/ (exists a, from = Some a /\ balance t a < amt) \/ (from = None /\ MAX128 < supply t + amt).
Proof. exact update_never_traps_final. Qed.
Print Assumptions C01_update_arithmetic_never_traps.

(* Every reachable state of every flavour, after any finite interleaving of any calls with any
   arguments and authorisation sets: balances are non-negative, total_supply is the sum of the
   balances (over the duplicate-free list of accounts that have a stored balance; every other
   account has balance 0), and it stays within i128. *)
Theorem C01_reachable_inv : forall (c : cfg) (start : Z) (cs : list call), wf_cfg c = true ->
  let t := tk (run c (init start) cs) in
  (forall a, 0 <= balance t a) /\
  supply t = sumv (bals t) /\
  0 <= supply t <= MAX128 /\
  NoDup (keys (bals t)) /\
  (forall a, ~ In a (keys (bals t)) -> balance t a = 0).
Proof. exact reachable_inv_final. Qed.
Print Assumptions C01_reachable_inv.

(* total_supply() equals the sum of all account balances: over any duplicate-free list of accounts
   that contains every account with a non-zero balance. *)
Theorem C01_supply_is_sum_of_balances : forall c start cs univ, wf_cfg c = true -> NoDup univ ->
  let t := tk (run c (init start) cs) in
  (forall a, balance t a <> 0 -> In a univ) -> sum_over (balance t) univ = supply t.
Proof. exact supply_sum_over_cover. Qed.
Print Assumptions C01_supply_is_sum_of_balances.

(* [state_inv] (the invariant above + allowance-entry invariant + event-replay agreement) holds in
   every reachable state; the per-call theorems below are stated for any state satisfying it. *)
Theorem C01_reachable_state_inv : forall c start cs, wf_cfg c = true -> state_inv (run c (init start) cs).
Proof. exact reachable_state_inv_final. Qed.
Print Assumptions C01_reachable_state_inv.

(* A transfer (transfer, transfer_from, RWA forced_transfer) never changes the supply and moves
   exactly the amount (also for from = to and amount 0). *)
Theorem C01_transfer_keeps_supply : forall c s, wf_cfg c = true -> state_inv s ->
  forall cl from to amt s' v evs,
  (exists au mux, cl = Transfer au from to mux amt) \/ (exists au sp, cl = TransferFrom au sp from to amt) \/
  cl = RForcedTransfer from to amt ->
  exec c s cl = Ok (s', v, evs) ->
  supply (tk s') = supply (tk s) /\
  forall x, balance (tk s') x = credit (credit (balance (tk s)) from (- amt)) to amt x.
Proof. exact transfer_keeps_supply. Qed.
Print Assumptions C01_transfer_keeps_supply.

Theorem C01_mint_adds_exactly : forall c s, state_inv s ->
  forall to amt s' v evs,
  exec c s (Mint to amt) = Ok (s', v, evs) ->
  supply (tk s') = supply (tk s) + amt /\
  balance (tk s') to = balance (tk s) to + amt /\
  forall x, x <> to -> balance (tk s') x = balance (tk s) x.
Proof. exact mint_adds_exactly. Qed.
Print Assumptions C01_mint_adds_exactly.

Theorem C01_burn_removes_exactly : forall c s, wf_cfg c = true -> state_inv s ->
  forall cl from amt s' v evs,
  (exists au, cl = Burn au from amt) \/ (exists au sp, cl = BurnFrom au sp from amt) \/ cl = RBurn from amt ->
  exec c s cl = Ok (s', v, evs) ->
  supply (tk s') = supply (tk s) - amt /\
  balance (tk s') from = balance (tk s) from - amt /\
  forall x, x <> from -> balance (tk s') x = balance (tk s) x.
Proof. exact burn_removes_exactly. Qed.
Print Assumptions C01_burn_removes_exactly.

(* vault shares: created / destroyed exactly as the Deposit / Withdraw event says *)
Theorem C01_vault_shares_exactly : forall c s, wf_cfg c = true -> state_inv s ->
  forall cl s' v evs,
  exec c s cl = Ok (s', v, evs) ->
  match cl with
  | VDeposit _ _ assets r f o => evs = [EDeposit o f r assets v] /\ supply (tk s') = supply (tk s) + v /\
                               forall x, balance (tk s') x = credit (balance (tk s)) r v x
  | VMint _ _ sh r f o => evs = [EDeposit o f r v sh] /\ supply (tk s') = supply (tk s) + sh /\
                        forall x, balance (tk s') x = credit (balance (tk s)) r sh x
  | VWithdraw _ assets r ow o => evs = [EWithdraw o r ow assets v] /\ supply (tk s') = supply (tk s) - v /\
                                 forall x, balance (tk s') x = credit (balance (tk s)) ow (- v) x
  | VRedeem _ sh r ow o => evs = [EWithdraw o r ow v sh] /\ supply (tk s') = supply (tk s) - sh /\
                           forall x, balance (tk s') x = credit (balance (tk s)) ow (- sh) x
  | _ => True
  end.
Proof. exact vault_shares_exactly. Qed.
Print Assumptions C01_vault_shares_exactly.

(* FungibleVotes flavour: after any call sequence the voting units kept by the votes module equal the
   token balances and the latest total-supply checkpoint equals total_supply (so the checked
   subtraction of voting units and the total-supply checkpoint arithmetic of transfer_voting_units
   cannot fail after a successful Base operation). *)
Theorem C01_votes_units_mirror_balances : forall c start cs, wf_cfg c = true -> c_flav c = FVotes ->
  let s := run c (init start) cs in
  (forall a, getd (units s) a = balance (tk s) a) /\ tsvotes s = supply (tk s).
Proof. exact votes_units_mirror_balances. Qed.
Print Assumptions C01_votes_units_mirror_balances.

(* Every successful call of every flavour emits at most one of the named events and changes
   balances and supply by exactly the movement that event describes (no event: no change). *)
Theorem C01_step_moves_as_events : forall c start cs cl, wf_cfg c = true ->
  let s := run c (init start) cs in
  forall s' v evs, step c s cl = (s', Ok v, evs) ->
  (length evs <= 1)%nat /\
  let '(f, t, amt) := evs_move evs in
  0 <= amt /\
  (forall x, balance (tk s') x = ocredit (ocredit (balance (tk s)) f (- amt)) t amt x) /\
  supply (tk s') = supply (tk s) + (if is_none f then amt else 0) - (if is_none t then amt else 0).
Proof. exact step_moves_as_events. Qed.
Print Assumptions C01_step_moves_as_events.

(* A call that fails leaves the whole state (every balance, allowance, the supply, the event
   log, every flavour-specific table) exactly as before and emits nothing. *)
Theorem C01_failed_call_is_identity : forall c s cl,
  snd (fst (step c s cl)) = Fail -> fst (fst (step c s cl)) = s /\ snd (step c s cl) = [].
Proof. exact failed_call_is_identity. Qed.
Print Assumptions C01_failed_call_is_identity.

(* Replaying the emitted mint / burn / transfer (deposit / withdraw for vault shares) events from
   genesis reproduces every balance and the supply, in every reachable state of every flavour. *)
Theorem C01_events_replay : forall c start cs, wf_cfg c = true ->
  let s := run c (init start) cs in
  (forall a, fst (replay (hist s)) a = balance (tk s) a) /\ snd (replay (hist s)) = supply (tk s).
Proof. exact events_replay_final. Qed.
Print Assumptions C01_events_replay.

(* The executable monitor (the property as a boolean over observations) accepts every run of the
   model, and the model's diff with itself is empty. *)
Theorem C01_monitor_accepts_model : forall c univ start cs,
  wf_cfg c = true -> wf_calls univ cs = true ->
  check (model_trace c univ start cs) = (0%N, 0%N, 0%N).
Proof. exact check_accepts_model. Qed.
Print Assumptions C01_monitor_accepts_model.

(* ---- non-vacuity and sanity of the monitor ---- *)
Definition ex_cfg (f : flavour) : cfg := {| c_host := default_cfg 5000; c_flav := f; c_self := 3%N; c_offset := 0 |}.
Definition ex_univ : list addr := [0%N; 1%N; 2%N; 3%N].
Definition ex_calls : list call :=
  [Mint 0%N 100; Approve [0%N] 0%N 1%N 40 120; TransferFrom [1%N] 1%N 0%N 2%N 15; Transfer [2%N] 2%N 2%N None 15;
   Burn [0%N] 0%N 5; Mint 1%N MAX128; Transfer [] 0%N 1%N None 1; BurnFrom [1%N] 1%N 0%N 25; Advance 30].

(* the hypotheses are satisfiable on a non-trivial reachable state, and the run is not all failures *)
Example C01_nonvacuous :
  wf_cfg (ex_cfg FBase) = true /\ wf_calls ex_univ ex_calls = true /\
  let s := run (ex_cfg FBase) (init 100) ex_calls in
  supply (tk s) = 70 /\ balance (tk s) 0%N = 55 /\ balance (tk s) 2%N = 15 /\ length (hist s) = 6%nat /\
  check (model_trace (ex_cfg FBase) ex_univ 100 ex_calls) = (0%N, 0%N, 0%N).
Proof. vm_compute. repeat split. Qed.

(* the monitor rejects bad traces: take the model's own trace and corrupt one observation *)
Definition corrupt (f : item -> item) (k : nat) (t : trace) : trace :=
  {| t_cfg := t_cfg t; t_univ := t_univ t; t_start := t_start t;
     t_items := firstn k (t_items t) ++ match skipn k (t_items t) with [] => [] | it :: r => f it :: r end |}.
Definition ex_trace : trace := model_trace (ex_cfg FBase) ex_univ 100 ex_calls.

(* (1) a transfer that creates one unit out of thin air in the recipient's balance *)
Example C01_monitor_rejects_inflated_balance :
  c01_monitor (corrupt (fun '(cl, out, evs, o) =>
     (cl, out, evs, {| o_now := o_now o; o_supply := o_supply o; o_bal := alist_set 2%N 16 (o_bal o);
                       o_allow := o_allow o; o_extra := o_extra o |})) 2 ex_trace) = 3%N.
Proof. vm_compute. reflexivity. Qed.
(* (2) a failing call (transfer without authorisation) that nevertheless moved a token *)
Example C01_monitor_rejects_failed_call_with_effect :
  c01_monitor (corrupt (fun '(cl, out, evs, o) =>
     (cl, out, evs, {| o_now := o_now o; o_supply := o_supply o; o_bal := alist_set 0%N 54 (alist_set 1%N 1 (o_bal o));
                       o_allow := o_allow o; o_extra := o_extra o |})) 6 ex_trace) = 7%N.
Proof. vm_compute. reflexivity. Qed.
(* (3) a burn whose event is missing: balances and supply are consistent, but the event replay no longer reproduces them *)
Example C01_monitor_rejects_missing_event :
  c01_monitor (corrupt (fun '(cl, out, evs, o) => (cl, out, [], o)) 4 ex_trace) = 5%N.
Proof. vm_compute. reflexivity. Qed.
(* (4) a mint that changes the supply by one more than the amount *)
Example C01_monitor_rejects_wrong_supply :
  c01_monitor (corrupt (fun '(cl, out, evs, o) =>
     (cl, out, evs, {| o_now := o_now o; o_supply := o_supply o + 1; o_bal := o_bal o;
                       o_allow := o_allow o; o_extra := o_extra o |})) 0 ex_trace) = 1%N.
Proof. vm_compute. reflexivity. Qed.
(* (5) persistence: a balance that lapses while time passes (Advance) although no call touched it *)
Example C01_monitor_rejects_balance_lapsing_over_time :
  c01_monitor (corrupt (fun '(cl, out, evs, o) =>
     (cl, out, evs, {| o_now := o_now o; o_supply := o_supply o; o_bal := alist_set 2%N 0 (o_bal o);
                       o_allow := o_allow o; o_extra := o_extra o |})) 8 ex_trace) = 9%N /\
  c01_monitor (corrupt (fun '(cl, out, evs, o) =>
     (cl, out, evs, {| o_now := o_now o; o_supply := 0; o_bal := o_bal o;
                       o_allow := o_allow o; o_extra := o_extra o |})) 8 ex_trace) = 9%N.
Proof. vm_compute. split; reflexivity. Qed.
