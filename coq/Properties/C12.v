(* C12 - Fixed-point mul-div is exact for every input and fails only when it must.
   This file contains only pinned statements, each closed by [exact] of a lemma
   proved in Proofs/, followed by Print Assumptions. *)
From SC Require Import Lib.Prelude Lib.Int Model.Math Proofs.Math Proofs.C12Final Run.C12 Proofs.C12Monitor Proofs.C12Magic.

(* i128, plain variants: panic (Fail) iff d = 0 or the exactly rounded quotient of
   the UNBOUNDED product x*y does not fit; otherwise exactly that quotient. *)
Theorem C12_plain128 : forall rd x y d,
  MIN128 <= x <= MAX128 -> MIN128 <= y <= MAX128 -> MIN128 <= d <= MAX128 ->
  mul_div128 rd x y d =
    if d =? 0 then Fail
    else if in_i128 (exact rd (x * y) d) then Ok (exact rd (x * y) d) else Fail.
Proof. exact plain128_final. Qed.
Print Assumptions C12_plain128.

(* i128, checked variants: never trap; None iff d = 0 or the quotient does not fit. *)
Theorem C12_checked128 : forall rd x y d,
  MIN128 <= x <= MAX128 -> MIN128 <= y <= MAX128 -> MIN128 <= d <= MAX128 ->
  checked_mul_div128 rd x y d =
    Ok (if d =? 0 then None
        else if in_i128 (exact rd (x * y) d) then Some (exact rd (x * y) d) else None).
Proof. exact checked128_final. Qed.
Print Assumptions C12_checked128.

(* [exact] is the mathematical rounding of the rational n/d. *)
Theorem C12_floor_is_floor : forall n d, d <> 0 ->
  let q := exact Floor n d in
  (0 < d -> q * d <= n < (q + 1) * d) /\ (d < 0 -> (q + 1) * d < n <= q * d).
Proof. exact floor_div_spec. Qed.
Print Assumptions C12_floor_is_floor.
Theorem C12_ceil_is_ceil : forall n d, d <> 0 ->
  let q := exact Ceil n d in
  (0 < d -> (q - 1) * d < n <= q * d) /\ (d < 0 -> q * d <= n < (q - 1) * d).
Proof. exact ceil_div_spec. Qed.
Print Assumptions C12_ceil_is_ceil.
Theorem C12_trunc_is_trunc : forall n d, d <> 0 ->
  let q := exact Truncate n d in
  exists r, n = d * q + r /\ Z.abs r < Z.abs d /\ 0 <= r * n.
Proof. exact trunc_div_spec. Qed.
Print Assumptions C12_trunc_is_trunc.

(* I256 variants: exact whenever the product fits in 256 bits. *)
Theorem C12_plain256 : forall rd x y d,
  MIN256 <= x * y <= MAX256 -> MIN256 <= d <= MAX256 ->
  mul_div256 rd x y d =
    if d =? 0 then Fail
    else if in_i256 (exact rd (x * y) d) then Ok (exact rd (x * y) d) else Fail.
Proof. exact plain256_final. Qed.
Print Assumptions C12_plain256.
Theorem C12_checked256 : forall rd x y d,
  MIN256 <= x * y <= MAX256 -> MIN256 <= d <= MAX256 ->
  checked_mul_div256 rd x y d =
    if d =? 0 then Ok None
    else if in_i256 (exact rd (x * y) d) then Ok (Some (exact rd (x * y) d)) else Fail.
Proof. exact checked256_final. Qed.
Print Assumptions C12_checked256.

(* Wad *)
Theorem C12_wad_mul : forall a b, MIN128 <= a <= MAX128 -> MIN128 <= b <= MAX128 ->
  wad_checked_mul a b = Ok (fit128 (Z.quot (a * b) (10 ^ 18))).
Proof. exact wad_checked_mul_ok. Qed.
Print Assumptions C12_wad_mul.
Theorem C12_wad_div : forall a b, MIN128 <= a <= MAX128 -> MIN128 <= b <= MAX128 ->
  wad_checked_div a b = Ok (if b =? 0 then None else fit128 (Z.quot (a * 10 ^ 18) b)).
Proof. exact wad_checked_div_ok. Qed.
Print Assumptions C12_wad_div.
Theorem C12_wad_from_ratio : forall n d, MIN128 <= n <= MAX128 -> MIN128 <= d <= MAX128 ->
  wad_from_ratio n d = if d =? 0 then Fail else of_option (fit128 (Z.quot (n * 10 ^ 18) d)).
Proof. exact wad_from_ratio_ok. Qed.
Print Assumptions C12_wad_from_ratio.
Theorem C12_wad_pow_fails_iff : forall x e, MIN128 <= x <= MAX128 -> 0 <= e < 2 ^ 32 ->
  (wad_pow x e = Fail <-> wad_checked_pow x e = Ok None) /\
  (forall v, wad_pow x e = Ok v <-> wad_checked_pow x e = Ok (Some v)).
Proof. exact wad_pow_fails_iff. Qed.
Print Assumptions C12_wad_pow_fails_iff.

(* ZERO is the exact answer of Wad multiply / divide only for "dust": |a*b| < 10^18, resp. |a*10^18| < |b|.
   Any shortcut that returns 0 without computing is sound exactly on these sets; in particular
   0.000000001 * 0.000000001 (both raw 10^9 = sqrt(10^18)) is one whole raw unit, not 0. *)
Theorem C12_wad_mul_zero_iff : forall a b, MIN128 <= a <= MAX128 -> MIN128 <= b <= MAX128 ->
  (wad_checked_mul a b = Ok (Some 0) <-> Z.abs (a * b) < 10 ^ 18).
Proof. exact wad_mul_zero_iff. Qed.
Print Assumptions C12_wad_mul_zero_iff.
Theorem C12_wad_div_zero_iff : forall a b, MIN128 <= a <= MAX128 -> MIN128 <= b <= MAX128 ->
  (wad_checked_div a b = Ok (Some 0) <-> b <> 0 /\ Z.abs (a * 10 ^ 18) < Z.abs b).
Proof. exact wad_div_zero_iff. Qed.
Print Assumptions C12_wad_div_zero_iff.

(* checked_pow never traps (its only failure mode is None); together with the definition of pow
   (unwrap-or-panic of checked_pow) this is the whole content of "pow fails exactly when
   checked_pow returns no value". *)
Theorem C12_wad_checked_pow_never_traps : forall x e, MIN128 <= x <= MAX128 -> 0 <= e < 2 ^ 32 ->
  wad_checked_pow x e <> Fail.
Proof. exact wad_checked_pow_no_trap. Qed.
Print Assumptions C12_wad_checked_pow_never_traps.

(* The executable monitor (the property as a boolean over observed calls, written from exact
   rational arithmetic, independent of the model) accepts every trace of the model on well-formed
   call lists (inputs in range; every WadPow x e directly preceded by WadCPow x e - the trace
   format the harness emits and the monitor itself enforces). It is what is run on the
   implementation's traces. *)
Theorem C12_monitor_accepts_model : forall cs : list call,
  wf_calls cs = true -> check (map model_obs cs) = (0%N, 0%N, 0%N).
Proof. exact check_accepts_model. Qed.
Print Assumptions C12_monitor_accepts_model.

(* non-vacuity: the hypotheses are met by boundary inputs where x*y overflows i128 *)
Example C12_phantom_overflow :
  mul_div128 Floor MAX128 MAX128 MAX128 = Ok MAX128 /\
  mul_div128 Ceil MIN128 MIN128 MAX128 = Fail /\
  checked_mul_div128 Truncate MIN128 1 (-1) = Ok None /\
  mul_div128 Floor (-7) 1 2 = Ok (-4) /\ mul_div128 Ceil (-7) 1 2 = Ok (-3) /\
  mul_div128 Truncate (-7) 1 2 = Ok (-3).
Proof. vm_compute. repeat split. Qed.

(* non-vacuity for the I256, Wad and pow statements *)
Example C12_i256_nonvacuous :
  mul_div256 Floor MAX256 1 2 = Ok (MAX256 / 2) /\ mul_div256 Ceil (-7) 1 2 = Ok (-3) /\
  checked_mul_div256 Truncate MIN256 1 (-1) = Fail /\ checked_mul_div256 Floor 5 5 0 = Ok None.
Proof. vm_compute. repeat split. Qed.
Example C12_wad_nonvacuous :
  wad_checked_mul (3 * 10 ^ 18) (5 * 10 ^ 17) = Ok (Some (15 * 10 ^ 17)) /\
  wad_checked_mul MAX128 MAX128 = Ok None /\ wad_checked_div 1 0 = Ok None /\ wad_checked_div 0 0 = Ok None /\
  wad_from_ratio 1 3 = Ok 333333333333333333 /\ wad_from_ratio (-1) 3 = Ok (-333333333333333333) /\
  wad_from_ratio 1 0 = Fail.
Proof. vm_compute. repeat split. Qed.
Example C12_pow_nonvacuous :
  wad_pow (2 * 10 ^ 18) 10 = Ok (1024 * 10 ^ 18) /\ wad_checked_pow (2 * 10 ^ 18) 200 = Ok None /\
  wad_pow (2 * 10 ^ 18) 200 = Fail /\ wad_checked_pow 5 0 = Ok (Some (10 ^ 18)) /\
  wf_calls [WadCPow (2 * 10 ^ 18) 10; WadPow (2 * 10 ^ 18) 10] = true /\
  wf_calls [WadPow (2 * 10 ^ 18) 10] = false.
Proof. vm_compute. repeat split. Qed.

(* interior threshold sqrt(scale): the model's value at it, and the monitor rejecting, by itself, an
   implementation that answers 0 there (while accepting 0 one raw unit below) *)
Example C12_wad_mul_at_sqrt_scale :
  wad_checked_mul (10 ^ 9) (10 ^ 9) = Ok (Some 1) /\ wad_checked_mul (10 ^ 9) (- 10 ^ 9) = Ok (Some (-1)) /\
  wad_checked_mul (- 10 ^ 9) (- 10 ^ 9) = Ok (Some 1) /\ wad_checked_mul (10 ^ 9) (10 ^ 9 - 1) = Ok (Some 0).
Proof. exact wad_mul_sqrt_scale. Qed.
Example C12_monitor_rejects_dust_at_threshold :
  check [(WadCMul (10 ^ 9) (10 ^ 9), Ok (Some 0))] = (1%N, 1%N, 0%N) /\
  check [(WadCMul (10 ^ 9) (10 ^ 9 - 1), Ok (Some 0)); (WadCMul (- 10 ^ 9) (10 ^ 9), Ok (Some 0))] = (2%N, 2%N, 0%N) /\
  check [(WadCDiv 1 (10 ^ 18), Ok (Some 0))] = (1%N, 1%N, 0%N) /\
  check [(WadCDiv 1 (10 ^ 18 + 1), Ok (Some 0)); (WadCMul (10 ^ 9) (10 ^ 9), Ok (Some 1))] = (0%N, 0%N, 0%N).
Proof. exact monitor_rejects_dust_at_threshold. Qed.
