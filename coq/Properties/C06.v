(* C06 - Privileged functions obey the role, admin and owner hierarchy.

   Only pinned statements.  Model: Model/Access.v (access_control/storage.rs: HasRole, RoleAccounts,
   RoleAccountsCount, ExistingRoles, RoleAdmin, Admin/PendingAdmin; the five role macros and
   #[only_admin] as they expand in examples/nft-access-control) and Model/RoleTransfer.v with
   kind Own (ownable/storage.rs, #[only_owner] in examples/ownable).
     run c (init start admin) calls : the state after any list of calls, each call with the set
                                      of addresses that authorise it (a failing call changes nothing)
     abs s a r = has_role s a r     : the set of (account, role) pairs granted and not since revoked *)
From SC Require Import Lib.Prelude Lib.Int Lib.Host Model.RoleTransfer Model.Access Model.AllowList Model.AccessLow Proofs.Access Proofs.AccessLow Run.C06 Proofs.C06Monitor Proofs.C06Low.
From SC Require Proofs.RoleTransfer Run.C07.

(* ---- the queryable membership describes exactly the granted set ---- *)
(* In every reachable state, for every role r there is a duplicate-free list l of its holders
   with: member-count = |l|; get_role_member(r, i) = l[i] for i < count and nothing at i >= count
   (gap-free 0..count-1); has_role(a, r) = Some i iff l[i] = a (the inverse index); the list of
   existing roles has no duplicates and lists exactly the roles with at least one holder; and
   every call commutes with the obvious set operation: a successful grant adds the pair, a
   successful revoke / renounce removes it, everything else (and every failing call) leaves
   the set alone. *)
Theorem C06_refines_set : forall c start adm cs,
  let s := run c (init start adm) cs in
  (forall r, let l := members_list s r in
     NoDup l /\ N.of_nat (length l) = a_count s r /\
     (forall a, In a l <-> abs s a r = true) /\
     (forall i a, a_member s r i = Some a <-> nth_error l (N.to_nat i) = Some a) /\
     (forall a i, a_has s a r = Some i <-> nth_error l (N.to_nat i) = Some a) /\
     (forall i, (a_count s r <= i)%N -> a_member s r i = None)) /\
  (NoDup (a_existing s) /\ forall r, In r (a_existing s) <-> exists a, abs s a r = true) /\
  (forall cl a r, abs (fst (step c s cl)) a r =
     if snd (step c s cl) then
       match cl with
       | Grant account r0 _ _ => abs s a r || (N.eqb a account && N.eqb r r0)
       | Revoke account r0 _ _ => abs s a r && negb (N.eqb a account && N.eqb r r0)
       | RenounceRole r0 caller _ => abs s a r && negb (N.eqb a caller && N.eqb r r0)
       | _ => abs s a r
       end
     else abs s a r).
Proof. exact refines_set. Qed.
Print Assumptions C06_refines_set.

(* "granted and not since revoked": a freshly constructed contract has no member, and in every reachable
   state the set is the fold of the set operations of the SUCCESSFUL grant / revoke / renounce_role calls
   of the history (outcomes = the calls with their ok / fail outcome) *)
Theorem C06_init_empty : forall start adm a r, abs (init start adm) a r = false.
Proof. exact init_empty. Qed.
Print Assumptions C06_init_empty.

Theorem C06_set_is_history : forall c start adm cs a r,
  abs (run c (init start adm) cs) a r =
  fold_left (fun (acc : addr -> role -> bool) (co : call * bool) => fun a r' =>
      if snd co then
        match fst co with
        | Grant account r _ _ => acc a r' || (N.eqb a account && N.eqb r' r)
        | Revoke account r _ _ => acc a r' && negb (N.eqb a account && N.eqb r' r)
        | RenounceRole r caller _ => acc a r' && negb (N.eqb a caller && N.eqb r' r)
        | _ => acc a r'
        end
      else acc a r')
    (outcomes c (init start adm) cs) (fun _ _ => false) a r.
Proof. exact set_is_history. Qed.
Print Assumptions C06_set_is_history.

(* never more than MAX_ROLES existing roles *)
Theorem C06_max_roles_bound : forall c start adm cs,
  (N.of_nat (length (a_existing (run c (init start adm) cs))) <= max_roles c)%N.
Proof. exact max_roles_bound. Qed.
Print Assumptions C06_max_roles_bound.

(* ---- a role is granted or revoked only in an authorised call ---- *)
(* After ANY call sequence: if a call makes (a, r) enter the set, the call is a grant of r to a
   whose caller authorised it and is the contract admin or holds r's admin role at that moment;
   if it makes (a, r) leave the set, the call is such an authorised revoke, or a renounce_role
   authorised by a itself. *)
Theorem C06_grant_revoke_authority : forall c start adm cs cl a r,
  let s := run c (init start adm) cs in
  let s' := fst (step c s cl) in
  (abs s a r = false -> abs s' a r = true ->
     exists caller au, cl = Grant a r caller au /\ has_auth au caller = true /\
       (holder (a_rt s) = Some caller \/ exists ar, a_role_admin s r = Some ar /\ abs s caller ar = true)) /\
  (abs s a r = true -> abs s' a r = false ->
     (exists caller au, cl = Revoke a r caller au /\ has_auth au caller = true /\
        (holder (a_rt s) = Some caller \/ exists ar, a_role_admin s r = Some ar /\ abs s caller ar = true)) \/
     (exists au, cl = RenounceRole r a au /\ has_auth au a = true)).
Proof. exact grant_revoke_authority. Qed.
Print Assumptions C06_grant_revoke_authority.

(* a role's admin role changes only by set_role_admin with the admin's authorisation *)
Theorem C06_role_admin_frame : forall c s cl r,
  a_role_admin (fst (step c s cl)) r <> a_role_admin s r ->
  exists ar au, cl = SetRoleAdmin r ar au /\ signed_by (holder (a_rt s)) au = true.
Proof. exact role_admin_frame. Qed.
Print Assumptions C06_role_admin_frame.

(* ---- WHO is the admin ---- *)
(* The (ledger, admin, pending admin) part of ANY run of the contract is a run of the C07 handshake machine
   (kind AC) on the projected calls: transfer_admin_role / accept / renounce_admin / the #[only_admin] entry
   point / Advance map to themselves, every other call to a no-op.  All C07 theorems therefore speak about the
   admin of the access-control contract, interleaved with arbitrary role traffic. *)
Theorem C06_admin_is_handshake_run : forall c s cs,
  now (RoleTransfer.run AC (host c) (hand_state s) (map hand_call cs)) = a_now (run c s cs) /\
  rts (RoleTransfer.run AC (host c) (hand_state s) (map hand_call cs)) = a_rt (run c s cs).
Proof. exact admin_is_handshake_run. Qed.
Print Assumptions C06_admin_is_handshake_run.

(* the admin changes only by a successful accept_admin_transfer - to the live pending admin, who authorised the
   call, while an admin is set - or by a successful renounce_admin authorised by the admin with nothing pending *)
Theorem C06_admin_frame : forall c s cl,
  holder (a_rt (fst (step c s cl))) <> holder (a_rt s) ->
  snd (step c s cl) = true /\
  ((exists au new, cl = AcceptAdmin au /\ holder (a_rt s) <> None /\ tget (a_now s) (pending (a_rt s)) = Some new /\
                   has_auth au new = true /\ holder (a_rt (fst (step c s cl))) = Some new) \/
   (exists au, cl = RenounceAdmin au /\ signed_by (holder (a_rt s)) au = true /\
               tget (a_now s) (pending (a_rt s)) = None /\ holder (a_rt (fst (step c s cl))) = None)).
Proof. exact admin_frame. Qed.
Print Assumptions C06_admin_frame.

Theorem C06_accept_admin_semantics : forall c s au,
  snd (step c s (AcceptAdmin au)) = true ->
  holder (a_rt s) <> None /\
  exists new, tget (a_now s) (pending (a_rt s)) = Some new /\ has_auth au new = true /\
              holder (a_rt (fst (step c s (AcceptAdmin au)))) = Some new.
Proof. exact accept_admin_semantics. Qed.
Print Assumptions C06_accept_admin_semantics.

(* ---- a restricted function executes only with its principal's authorisation (any state) ---- *)
Theorem C06_guard_semantics : forall c s,
  (forall au, snd (step c s (AdminRestricted au)) = signed_by (holder (a_rt s)) au) /\
  (forall r ar au, snd (step c s (SetRoleAdmin r ar au)) = signed_by (holder (a_rt s)) au) /\
  (forall new lu au, snd (step c s (TransferAdmin new lu au)) = true -> signed_by (holder (a_rt s)) au = true) /\
  (forall au, snd (step c s (RenounceAdmin au)) = true -> signed_by (holder (a_rt s)) au = true) /\
  (forall to tok caller au, snd (step c s (Mint to tok caller au)) = abs s caller (minter c) && has_auth au caller) /\
  (forall caller au, snd (step c s (MultiRoleAction caller au)) =
                     (abs s caller (minter c) || abs s caller (burner c)) && has_auth au caller) /\
  (forall caller au, snd (step c s (MultiRoleAuthAction caller au)) =
                     (abs s caller (minter c) || abs s caller (burner c)) && has_auth au caller) /\
  (forall from tok au, snd (step c s (Burn from tok au)) = true ->
                       abs s from (burner c) = true /\ has_auth au from = true /\ n_owner (a_nft s) tok = Some from) /\
  (forall sp from tok au, snd (step c s (BurnFrom sp from tok au)) = true ->
                       abs s sp (burner c) = true /\ has_auth au sp = true).
Proof. exact guard_semantics. Qed.
Print Assumptions C06_guard_semantics.

(* #[only_owner]: the guarded entry point of the ownable example runs exactly with the owner's authorisation.
   (This and C06_allowlist_guard restate the model's definition in closed form; their content rests on the
   correspondence run - the real contracts are compared with it on every call - and on host rollback.) *)
Theorem C06_only_owner_semantics : forall k c s au,
  RoleTransfer.step k c s (Guarded au) =
    if Proofs.RoleTransfer.signed_by (holder (rts s)) au
    then match k with
         | Own => ({| now := now s; rts := rts s; ctr := ctr s + 1 |}, Ok (ctr s + 1))
         | AC => (s, Ok 0)
         end
    else (s, Fail).
Proof. exact Proofs.RoleTransfer.step_guarded. Qed.
Print Assumptions C06_only_owner_semantics.

(* #[only_role(operator, "manager")] of examples/fungible-allowlist: allow_user / disallow_user run exactly
   for an authorising holder of the manager role and set exactly the named account's flag *)
Theorem C06_allowlist_guard : forall c s user op au,
  al_step c s (AllowUser user op au) =
    (if has_role (al_s s) op (al_manager c) && has_auth au op
     then ({| al_s := al_s s; al_allowed := upd (al_allowed s) user true |}, true) else (s, false)) /\
  al_step c s (DisallowUser user op au) =
    (if has_role (al_s s) op (al_manager c) && has_auth au op
     then ({| al_s := al_s s; al_allowed := upd (al_allowed s) user false |}, true) else (s, false)).
Proof. exact allowlist_guard. Qed.
Print Assumptions C06_allowlist_guard.

Theorem C06_allowlist_frame : forall c s cl a,
  al_allowed (fst (al_step c s cl)) a <> al_allowed s a ->
  exists op au, (cl = AllowUser a op au \/ cl = DisallowUser a op au) /\
    has_role (al_s s) op (al_manager c) = true /\ has_auth au op = true.
Proof. exact allowlist_frame. Qed.
Print Assumptions C06_allowlist_frame.

(* ---- after admin / ownership is renounced nobody passes the check, for good ---- *)
Theorem C06_renounced_is_final : forall c s cs,
  holder (a_rt s) = None ->
  holder (a_rt (run c s cs)) = None /\
  forall cl, admin_call cl = true -> snd (step c (run c s cs) cl) = false.
Proof. exact admin_renounced_is_final. Qed.
Print Assumptions C06_renounced_is_final.

Theorem C06_owner_renounced_is_final : forall k c start h0 cs h1 e h2,
  history k c (RoleTransfer.init start h0) cs = h1 ++ e :: h2 ->
  ev_after e = None ->
  Forall (fun e' => ev_holder e' = None /\ ev_after e' = None /\
                    (is_ok (ev_out e') = true -> exists n, ev_call e' = RoleTransfer.Advance n)) h2.
Proof. exact Proofs.RoleTransfer.renounced_is_final. Qed.
Print Assumptions C06_owner_renounced_is_final.

(* ---- the monitor (the property as a boolean over observations) accepts every model run ---- *)
Theorem C06_monitor_accepts_model : forall h cs,
  wf_aheader h = true -> forallb (wf_call (ah_u h)) cs = true ->
  check (observe_model h cs) = (0%N, 0%N, 0%N).
Proof. exact check_model. Qed.
Print Assumptions C06_monitor_accepts_model.

Theorem C06_monitor_accepts_model_ownable : forall hd cs,
  C07.wf_header hd = true ->
  check (observe_model_own hd cs) = (0%N, 0%N, 0%N).
Proof. exact check_model_own. Qed.
Print Assumptions C06_monitor_accepts_model_ownable.

Theorem C06_monitor_accepts_model_allowlist : forall h cs,
  wf_aheader (alh h) = true -> wf_alheader h = true -> forallb (wf_alcall (ah_u (alh h))) cs = true ->
  check (observe_model_allow h cs) = (0%N, 0%N, 0%N).
Proof. exact check_model_allow. Qed.
Print Assumptions C06_monitor_accepts_model_allowlist.

(* ---- constructors with caller-supplied account lists and the low-level (no-auth) entry points ---- *)
(* Model/AccessLow.v: linit c start admin pairs = set_admin followed by grant_role_no_auth for every listed
   (account, role) pair in order (examples/fee-forwarder-permissioned, timelock-controller, fungible-allowlist, ...),
   lrun = any sequence of ordinary calls (LCall) and of grant_role_no_auth / revoke_role_no_auth /
   set_role_admin_no_auth / remove_role_admin_no_auth / the two guards called directly.
   In every state reachable that way - whatever the constructor list: duplicates, the admin among the members,
   the same account under several roles - the queryable membership describes exactly the set (as in
   C06_refines_set), and every low-level call commutes with the obvious set operation. *)
Theorem C06_low_refines_set : forall c start adm pairs cs,
  let s := lrun c (linit c start adm pairs) cs in
  (forall r, let l := members_list s r in
     NoDup l /\ N.of_nat (length l) = a_count s r /\
     (forall a, In a l <-> abs s a r = true) /\
     (forall i a, a_member s r i = Some a <-> nth_error l (N.to_nat i) = Some a) /\
     (forall a i, a_has s a r = Some i <-> nth_error l (N.to_nat i) = Some a) /\
     (forall i, (a_count s r <= i)%N -> a_member s r i = None)) /\
  (NoDup (a_existing s) /\ forall r, In r (a_existing s) <-> exists a, abs s a r = true) /\
  (forall cl a r, abs (fst (lstep c s cl)) a r =
     match cl with
     | LCall cl0 =>
         if snd (lstep c s cl) then
           match cl0 with
           | Grant account r0 _ _ => abs s a r || (N.eqb a account && N.eqb r r0)
           | Revoke account r0 _ _ => abs s a r && negb (N.eqb a account && N.eqb r r0)
           | RenounceRole r0 caller _ => abs s a r && negb (N.eqb a caller && N.eqb r r0)
           | _ => abs s a r
           end
         else abs s a r
     | GrantNoAuth account r0 => if snd (lstep c s cl) then abs s a r || (N.eqb a account && N.eqb r r0) else abs s a r
     | RevokeNoAuth account r0 => if snd (lstep c s cl) then abs s a r && negb (N.eqb a account && N.eqb r r0) else abs s a r
     | _ => abs s a r
     end).
Proof. exact low_refines_set. Qed.
Print Assumptions C06_low_refines_set.

(* a constructed contract holds exactly the SET of the listed pairs (h: the trace header - universe without
   duplicates, listed pairs inside it, no more role names than MAX_ROLES so that no grant is refused) *)
Theorem C06_ctor_list_is_set : forall h a r,
  wf_aheader (lh h) = true -> wf_lheader h = true ->
  (abs (lh_init h) a r = true <-> In (a, r) (lh_ctor h)).
Proof. exact ctor_list_is_set. Qed.
Print Assumptions C06_ctor_list_is_set.
(* without any capacity assumption: nothing is born with a role the constructor was not told *)
Theorem C06_ctor_sound : forall c start adm pairs a r,
  abs (linit c start adm pairs) a r = true -> In (a, r) pairs.
Proof. exact ctor_sound. Qed.
Print Assumptions C06_ctor_sound.

(* grant_role_no_auth of a pair that is already held changes nothing at all *)
Theorem C06_no_auth_grant_idempotent : forall c s account r,
  has_role s account r = true -> lstep c s (GrantNoAuth account r) = (s, true).
Proof. exact grant_no_auth_idempotent. Qed.
Print Assumptions C06_no_auth_grant_idempotent.

(* the no-auth entry points never touch the ledger, the admin / pending admin or the tokens; a role's admin
   role changes only by set_role_admin_no_auth (always succeeds) / remove_role_admin_no_auth (iff one is set);
   remove_role_accounts_count_no_auth is refused while the role has a member and never changes a getter *)
Theorem C06_no_auth_frame : forall c s cl,
  match cl with LCall _ => True | _ =>
    a_now (fst (lstep c s cl)) = a_now s /\ a_rt (fst (lstep c s cl)) = a_rt s /\ a_nft (fst (lstep c s cl)) = a_nft s /\
    match cl with
    | SetRoleAdminNoAuth r ar =>
        snd (lstep c s cl) = true /\ a_role_admin (fst (lstep c s cl)) = upd (a_role_admin s) r (Some ar)
    | RemoveRoleAdminNoAuth r =>
        snd (lstep c s cl) = is_some (a_role_admin s r) /\
        a_role_admin (fst (lstep c s cl)) = if is_some (a_role_admin s r) then upd (a_role_admin s) r None else a_role_admin s
    | RemoveCountNoAuth r answer =>
        fst (lstep c s cl) = s /\ (snd (lstep c s cl) = true -> a_count s r = 0%N) /\
        ((0 < a_count s r)%N -> snd (lstep c s cl) = false)
    | _ => a_role_admin (fst (lstep c s cl)) = a_role_admin s
    end
  end.
Proof. exact low_frame. Qed.
Print Assumptions C06_no_auth_frame.

(* ensure_if_admin_or_admin_role / ensure_role called directly: exactly the test, no effect *)
Theorem C06_ensure_semantics : forall c s r caller,
  lstep c s (EnsureAuthority r caller) =
    (s, match holder (a_rt s) with Some a => N.eqb caller a | None => false end
        || match a_role_admin s r with Some ar => has_role s caller ar | None => false end) /\
  lstep c s (EnsureRole r caller) = (s, has_role s caller r).
Proof. exact ensure_closed. Qed.
Print Assumptions C06_ensure_semantics.

(* no role - whatever its name, the empty symbol included - is a "default admin role": a role without a
   configured admin role is granted, revoked and passes the authority guard for the contract admin alone *)
Theorem C06_no_default_admin_role : forall c s r,
  a_role_admin s r = None ->
  (forall a caller au, snd (step c s (Grant a r caller au)) = true ->
                       holder (a_rt s) = Some caller /\ has_auth au caller = true) /\
  (forall a caller au, snd (step c s (Revoke a r caller au)) = true ->
                       holder (a_rt s) = Some caller /\ has_auth au caller = true) /\
  (forall caller, snd (lstep c s (EnsureAuthority r caller)) = true -> holder (a_rt s) = Some caller).
Proof. exact no_default_admin_role. Qed.
Print Assumptions C06_no_default_admin_role.

Theorem C06_monitor_accepts_model_low : forall h cs,
  wf_aheader (lh h) = true -> wf_lheader h = true -> forallb (wf_lcall (ah_u (lh h))) cs = true ->
  check (observe_model_low h cs) = (0%N, 0%N, 0%N).
Proof. exact check_model_low. Qed.
Print Assumptions C06_monitor_accepts_model_low.

(* what the early return of grant_role_no_auth is for: WITHOUT it (grant_role_no_auth_always_add) a constructor
   list naming one account twice yields count 2 for a single holder, the account in two enumeration slots and
   has_role pointing at the second one - the enumeration no longer describes the set.  The faithful model of the
   same list: one member.  (Hypotheses of C06_ctor_list_is_set / C06_monitor_accepts_model_low are satisfiable.) *)
Example C06_always_add_refuted :
  let bad := bad_ctor ex_cfg 100 (Some 0%N) [(1, 2); (1, 2)]%N in
  let good := linit ex_cfg 100 (Some 0%N) [(1, 2); (1, 2)]%N in
  a_count bad 2%N = 2%N /\ members_list bad 2%N = [1; 1]%N /\ a_has bad 1%N 2%N = Some 1%N /\
  a_count good 2%N = 1%N /\ members_list good 2%N = [1]%N /\ a_has good 1%N 2%N = Some 0%N /\
  wf_lheader (ex_lh ex_pairs) = true /\ forallb (wf_lcall ex_u) ex_lcalls = true /\
  members_list (lh_init (ex_lh ex_pairs)) 2%N = [1; 0; 3]%N.
Proof. vm_compute. repeat split; reflexivity. Qed.

(* ---- non-vacuity: a reachable state with a role-admin chain including a cycle, swap-and-pop
   having happened, the admin renounced and a role admin still governing ---- *)
Example C06_nonvacuous :
  let s := run ex_cfg (init 100 (Some 0%N)) ex_calls in
  members_list s 0%N = [1; 3; 0]%N /\ members_list s 2%N = [1; 2]%N /\ a_existing s = [2; 0]%N /\
  holder (a_rt s) = None /\ a_has s 1%N 0%N = Some 0%N /\ a_has s 3%N 0%N = Some 1%N /\ a_has s 2%N 0%N = None /\
  wf_aheader ex_h = true /\ forallb (wf_call ex_u) ex_calls = true /\
  wf_alheader ex_alh = true /\ C07.wf_header C07.hd0 = true.
Proof. vm_compute. repeat split; reflexivity. Qed.
(* the hypotheses of C06_owner_renounced_is_final are met: an owner renounces, then nothing restricted succeeds *)
Example C06_owner_renounce_nonvacuous :
  map (fun e => (ev_holder e, is_ok (ev_out e), ev_after e))
      (history Own C07.ex_cfg (RoleTransfer.init 100 (Some 0%N)) [Renounce [0%N]; Guarded [0%N]; Accept [1%N]]) =
  [(Some 0%N, true, None); (None, false, None); (None, false, None)].
Proof. vm_compute. reflexivity. Qed.
