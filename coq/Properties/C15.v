(* C15 - An RWA identity is verified only by valid claims from currently trusted issuers.

   Model: Model/Identity.v (claim topics & issuers registry, identity registry storage, identity
   claims, identity verifier, composed into one world of contracts) and Model/ClaimIssuer.v (byte
   level helpers, key registry, nonces, revocation, the reference issuer).  A state is reached by
   [run c (init now ctis irss idents issuers) calls] for an arbitrary list of calls, an arbitrary
   configuration c (constants of the code, network id, address encoding, signature oracle, and the
   oracle [c_other]: what an address that is not a reference issuer answers to is_claim_valid).
   This file contains only pinned statements. *)
From SC Require Import Lib.Prelude Lib.Int Lib.Host Model.ClaimIssuer Model.Identity Run.C15
  Proofs.C15Base Proofs.C15Bytes Proofs.C15Verify Proofs.C15Issuer Proofs.C15Registry Proofs.C15Ident
  Proofs.C15World Proofs.C15Final Proofs.C15Extra Proofs.C15Monitor Proofs.C15Refuted Proofs.C15Foreign Proofs.C15NoDup
  Proofs.C15Examples Proofs.C15Alias.

(* ------------------------------------------------------------------------------------------ *)
(* F4 (fixed by commit 66a009a): before the fix a required topic with an empty trusted-issuer
   list counted as satisfied - an identity without any claim was verified.                      *)
Theorem C15_prefix_refuted :
  exists (c : cfg) (ks : list call) (a : addr),
    let w := run c (init 0 [0%N] [1%N] [2%N] []) ks in
    (do s <- the_cti w 0%N; get_claim_topics_and_issuers s) = Ok [(1, [])] /\
    (do s <- the_ident w 2%N; Ok (id_claims s)) = Ok [] /\
    verify_identity_prefix c w a = Ok tt /\
    verify_identity c w a = Fail.
Proof. exact prefix_refuted. Qed.
Print Assumptions C15_prefix_refuted.

(* The fix is the only difference between the two versions: the fixed code is never more permissive,
   and both agree whenever every required topic has at least one trusted issuer.                 *)
Theorem C15_fix_is_stricter :
  forall c w a, verify_identity c w a = Ok tt -> verify_identity_prefix c w a = Ok tt.
Proof. exact fix_is_stricter. Qed.
Print Assumptions C15_fix_is_stricter.
Theorem C15_fix_only_difference :
  forall c w a,
    (forall ca ct m t issuers, w_vcti w = Some ca -> the_cti w ca = Ok ct -> get_claim_topics_and_issuers ct = Ok m ->
       In (t, issuers) m -> issuers <> []) ->
    verify_identity c w a = verify_identity_prefix c w a.
Proof. exact fix_only_difference. Qed.
Print Assumptions C15_fix_only_difference.

(* ------------------------------------------------------------------------------------------ *)
(* Verification succeeds only by valid claims of currently trusted issuers: after ANY sequence of
   calls (including claims written into an identity behind the issuer's back), a verified account
   has a registered identity d and, for every topic t the token's registry currently requires, an
   issuer i that is currently a trusted issuer with t among its topics, such that d lists and holds
   a claim for topic t from i and i confirms that claim.                                         *)
Theorem C15_verify_sound :
  forall c now ctis irss idents issuers (calls : list call) (a : addr),
    let w := run c (init now ctis irss idents issuers) calls in
    verify_identity c w a = Ok tt ->
    exists ra r d ca ct,
      w_virs w = Some ra /\ the_irs w ra = Ok r /\ stored_identity r a = Ok d /\
      w_vcti w = Some ca /\ the_cti w ca = Ok ct /\
      forall t, In t (ct_topics ct) ->
        exists i s cl,
          is_trusted_issuer ct i = true /\ has_claim_topic ct i t = Ok true /\
          the_ident w d = Ok s /\ In (i, t) (get_claim_ids_by_topic s t) /\
          get_claim s (i, t) = Ok cl /\ cl_topic cl = t /\ cl_issuer cl = i /\
          call_is_claim_valid c w i d t (cl_scheme cl) (cl_sig cl) (cl_data cl) = Ok tt.
Proof. exact verify_sound_reachable. Qed.
Print Assumptions C15_verify_sound.

(* ... and exactly then, for every history of calls of the library (claims enter an identity
   through add_claim only).                                                                      *)
Theorem C15_verify_iff :
  forall c now ctis irss idents issuers (calls : list call) (a : addr),
    forallb (fun k => negb (match k with ForceClaim _ _ _ _ => true | _ => false end)) calls = true ->
    let w := run c (init now ctis irss idents issuers) calls in
    verify_identity c w a = Ok tt <->
    exists ra r d ca ct,
      w_virs w = Some ra /\ the_irs w ra = Ok r /\ stored_identity r a = Ok d /\
      w_vcti w = Some ca /\ the_cti w ca = Ok ct /\
      forall t, In t (ct_topics ct) ->
        exists i s cl,
          is_trusted_issuer ct i = true /\ has_claim_topic ct i t = Ok true /\
          the_ident w d = Ok s /\ In (i, t) (get_claim_ids_by_topic s t) /\
          get_claim s (i, t) = Ok cl /\ cl_topic cl = t /\ cl_issuer cl = i /\
          call_is_claim_valid c w i d t (cl_scheme cl) (cl_sig cl) (cl_data cl) = Ok tt.
Proof. exact verify_iff_reachable. Qed.
Print Assumptions C15_verify_iff.

(* The same iff at the level of the function, for EVERY state of the world in which the ids an
   identity lists resolve to stored claims: in terms of the map the registry hands to the
   verifier. [topic_covered c w d (t, issuers)] = some i among issuers has a listed, stored claim of
   d with topic t and issuer i that i confirms.                                                  *)
Theorem C15_verify_iff_state :
  forall c w a,
    (forall d s t id, the_ident w d = Ok s -> In id (get_claim_ids_by_topic s t) -> exists cl, get_claim s id = Ok cl) ->
    (verify_identity c w a = Ok tt <->
     exists d m,
       (exists ra r ca ct,
          w_virs w = Some ra /\ the_irs w ra = Ok r /\ stored_identity r a = Ok d /\
          w_vcti w = Some ca /\ the_cti w ca = Ok ct /\ get_claim_topics_and_issuers ct = Ok m) /\
       forall ti, In ti m ->
         exists s i, the_ident w d = Ok s /\ In i (snd ti) /\
           In (i, fst ti) (get_claim_ids_by_topic s (fst ti)) /\
           exists cl, get_claim s (i, fst ti) = Ok cl /\ cl_topic cl = fst ti /\ cl_issuer cl = i /\
                      call_is_claim_valid c w i d (fst ti) (cl_scheme cl) (cl_sig cl) (cl_data cl) = Ok tt).
Proof. exact verify_iff_state. Qed.
Print Assumptions C15_verify_iff_state.

(* A required topic nobody is trusted for can never be satisfied (the fixed F4), in every state. *)
Theorem C15_topic_without_issuers_fails :
  forall c w a d m t,
    (exists ra r ca ct,
       w_virs w = Some ra /\ the_irs w ra = Ok r /\ stored_identity r a = Ok d /\
       w_vcti w = Some ca /\ the_cti w ca = Ok ct /\ get_claim_topics_and_issuers ct = Ok m) ->
    In (t, []) m -> verify_identity c w a = Fail.
Proof. exact verify_fails_on_topic_without_issuers. Qed.
Print Assumptions C15_topic_without_issuers_fails.

(* A claim from an untrusted or de-listed issuer, or one its issuer rejects, never counts: if for a
   required topic no currently trusted issuer confirms a claim of the identity, verification fails. *)
Theorem C15_untrusted_issuer_never_counts :
  forall c now ctis irss idents issuers (calls : list call) (a : addr) (t : Z),
    let w := run c (init now ctis irss idents issuers) calls in
    forall ra r d ca ct,
      w_virs w = Some ra -> the_irs w ra = Ok r -> stored_identity r a = Ok d ->
      w_vcti w = Some ca -> the_cti w ca = Ok ct -> In t (ct_topics ct) ->
      (forall i, is_trusted_issuer ct i = true -> has_claim_topic ct i t = Ok true ->
         forall s cl, the_ident w d = Ok s -> get_claim s (i, t) = Ok cl ->
           call_is_claim_valid c w i d t (cl_scheme cl) (cl_sig cl) (cl_data cl) <> Ok tt) ->
      verify_identity c w a = Fail.
Proof. exact untrusted_issuer_never_counts. Qed.
Print Assumptions C15_untrusted_issuer_never_counts.

(* "That issuer confirms the claim", for EVERY address used as issuer: a reference issuer confirms by
   its is_claim_valid (C15_issuer_iff below); any other address - a foreign issuer contract, a
   contract of another kind, a non-contract address - confirms exactly when the cross-contract call
   returns normally WITH THE UNIT VALUE ([c_other]; ClaimIssuer::is_claim_valid has no result).  A
   call that merely "did not trap" (the issuer answered `false`, `true`, an error code) is no
   confirmation: validate_claim is false, add_claim refuses, and after ANY call sequence an account
   whose required topic t is covered only by such answers is not verified. *)
Theorem C15_confirmation_is_the_unit_answer :
  forall c w i d t scheme sig data,
    call_is_claim_valid c w i d t scheme sig data = Ok tt <->
    (exists s, the_issuer w i = Ok s /\ is_claim_valid c (w_now w) i s d t scheme sig data = Ok tt)
    \/ (the_issuer w i = Fail /\ c_other c i d t scheme sig data = true).
Proof. exact confirmation_cases. Qed.
Print Assumptions C15_confirmation_is_the_unit_answer.
Theorem C15_foreign_issuer_validate_and_add_claim :
  forall c w cl t i d,
    the_issuer w i = Fail ->
    (validate_claim c w cl t i d = true <->
     cl_topic cl = t /\ cl_issuer cl = i /\ c_other c i d t (cl_scheme cl) (cl_sig cl) (cl_data cl) = true) /\
    (forall d' w' out, cl_issuer cl = i -> step c w (AddClaim d' cl) = (w', Ok out) ->
       c_other c i d' (cl_topic cl) (cl_scheme cl) (cl_sig cl) (cl_data cl) = true).
Proof. exact foreign_validate_and_add_claim. Qed.
Print Assumptions C15_foreign_issuer_validate_and_add_claim.
Theorem C15_non_unit_answer_never_counts :
  forall c now ctis irss idents issuers (calls : list call) (a : addr) (t : Z),
    let w := run c (init now ctis irss idents issuers) calls in
    forall ra r d ca ct,
      w_virs w = Some ra -> the_irs w ra = Ok r -> stored_identity r a = Ok d ->
      w_vcti w = Some ca -> the_cti w ca = Ok ct -> In t (ct_topics ct) ->
      (forall i, is_trusted_issuer ct i = true -> has_claim_topic ct i t = Ok true ->
         the_issuer w i = Fail /\
         forall s cl, the_ident w d = Ok s -> get_claim s (i, t) = Ok cl ->
           c_other c i d t (cl_scheme cl) (cl_sig cl) (cl_data cl) = false) ->
      verify_identity c w a = Fail.
Proof. exact non_unit_answer_never_counts. Qed.
Print Assumptions C15_non_unit_answer_never_counts.

(* "The account's registered identity": an account that was recovered to another one has no
   registered identity any more and is never verified again (any call sequence).                 *)
Theorem C15_recovered_account_unverifiable :
  forall c now ctis irss idents issuers (calls : list call) (a b : addr),
    let w := run c (init now ctis irss idents issuers) calls in
    recovery_target w a = Ok (Some b) -> verify_identity c w a = Fail.
Proof. exact recovered_account_unverifiable. Qed.
Print Assumptions C15_recovered_account_unverifiable.

(* With library calls only, a stored claim always carries the issuer and topic of the id it is
   stored under ("a claim for another topic" cannot be found under this topic's id).             *)
Theorem C15_stored_claims_match :
  forall c now ctis irss idents issuers (calls : list call) d s i t cl,
    forallb (fun k => negb (match k with ForceClaim _ _ _ _ => true | _ => false end)) calls = true ->
    let w := run c (init now ctis irss idents issuers) calls in
    the_ident w d = Ok s -> get_claim s (i, t) = Ok cl -> cl_issuer cl = i /\ cl_topic cl = t.
Proof. exact stored_claims_match. Qed.
Print Assumptions C15_stored_claims_match.

(* The registry after any history of add / remove / update operations: the map handed to the
   verifier has exactly the required topics with their issuer lists, and the issuers listed for a
   topic are exactly the currently trusted issuers whose claim topics include it (topics with
   several, one or no issuers alike).                                                            *)
Theorem C15_registry_coherent :
  forall c now ctis irss idents issuers (calls : list call) a ct,
    the_cti (run c (init now ctis irss idents issuers) calls) a = Ok ct ->
    exists m, get_claim_topics_and_issuers ct = Ok m /\
      (forall t l, In (t, l) m <-> (In t (ct_topics ct) /\ get_claim_topic_issuers ct t = Ok l)) /\
      (forall t l, In (t, l) m ->
         forall i, In i l <-> (is_trusted_issuer ct i = true /\ has_claim_topic ct i t = Ok true)).
Proof. exact registry_reading_reachable. Qed.
Print Assumptions C15_registry_coherent.

(* No list of the registry ever names an entry twice (required topics, trusted issuers, the issuers
   of a topic, the topics of an issuer), after any history; a topic list naming a topic twice - of any
   length - is refused by add_trusted_issuer and update_issuer_claim_topics.                      *)
Theorem C15_registry_lists_duplicate_free :
  forall c now ctis irss idents issuers (calls : list call) a ct,
    the_cti (run c (init now ctis irss idents issuers) calls) a = Ok ct ->
    NoDup (ct_topics ct) /\ NoDup (ct_issuers ct) /\
    (forall t l, get_claim_topic_issuers ct t = Ok l -> NoDup l) /\
    (forall i l, get_trusted_issuer_claim_topics ct i = Ok l -> NoDup l).
Proof. exact registry_lists_nodup. Qed.
Print Assumptions C15_registry_lists_duplicate_free.
Theorem C15_duplicate_topic_list_refused :
  forall c s i ts, ~ NoDup ts -> add_trusted_issuer c s i ts = Fail /\ update_issuer_claim_topics c s i ts = Fail.
Proof. exact duplicate_topic_list_refused. Qed.
Print Assumptions C15_duplicate_topic_list_refused.

(* ------------------------------------------------------------------------------------------ *)
(* The reference issuer confirms a claim exactly when: the signature data has the layout of the
   scheme, its public key is currently allowed for the topic, the claim data carries a
   valid_until after the current timestamp, the claim is not revoked, and the signature scheme
   accepts the signature over network || issuer || identity || topic || CURRENT nonce || data.
   (every state of the issuer, every oracle)                                                     *)
Theorem C15_issuer_iff :
  forall c now self s d t scheme sig data,
    is_claim_valid c now self s d t scheme sig data = Ok tt <->
    exists sd created_at valid_until payload,
      extract_sig scheme sig = Ok sd /\
      is_key_allowed_for_topic s (sd_pk sd) scheme t = true /\
      decode_expiration data = Ok (created_at, valid_until, payload) /\ now < valid_until /\
      is_claim_revoked s d t data = false /\
      c_sigok c scheme (sd_pk sd)
        (c_net c ++ c_xdr c self ++ c_xdr c d ++ be32 t ++ be32 (get_current_nonce_for s d t) ++ data)
        (sd_sig sd) (sd_rid sd) = true.
Proof. exact issuer_iff. Qed.
Print Assumptions C15_issuer_iff.

(* "currently allowed for the topic", after any history of allow_key / remove_key: some
   (topic, registry) authorisation of that key is recorded and has not been removed.            *)
Theorem C15_key_allowed_iff :
  forall c now ctis irss idents issuers (calls : list call) i s pk scheme t,
    the_issuer (run c (init now ctis irss idents issuers) calls) i = Ok s ->
    (is_key_allowed_for_topic s pk scheme t = true <->
     exists registry, In (t, registry) (match aget skey_eqb (pk, scheme) (is_pairs s) with Some p => p | None => [] end)).
Proof. exact key_allowed_reachable. Qed.
Print Assumptions C15_key_allowed_iff.

(* A removed (or never allowed) key stays out: once a key is not allowed for a topic at an issuer,
   every claim presented with that key for that topic is rejected through every later history that
   does not allow_key it for that topic again.                                                   *)
Theorem C15_key_removal_persists :
  forall c w (calls : list call) i pk scheme t,
    forallb (fun k => negb (match k with
                            | AllowKey i' pk' _ sc' t' => N.eqb i' i && bytes_eqb pk' pk && (sc' =? scheme) && (t' =? t)
                            | _ => false end)) calls = true ->
    (exists s, the_issuer w i = Ok s /\ is_key_allowed_for_topic s pk scheme t = false) ->
    let w' := run c w calls in
    (exists s, the_issuer w' i = Ok s /\ is_key_allowed_for_topic s pk scheme t = false) /\
    forall d sig data sd, extract_sig scheme sig = Ok sd -> sd_pk sd = pk ->
      call_is_claim_valid c w' i d t scheme sig data = Fail.
Proof. exact key_removal_persists. Qed.
Print Assumptions C15_key_removal_persists.

(* No aliasing in the key registry.  A signing key is the pair (key bytes, scheme number), an
   authorisation names (signing key, topic, registry).  In every reachable issuer state a successful
   remove_key takes away exactly the authorisation it names: every other signing key - THE SAME KEY
   BYTES UNDER ANOTHER SCHEME NUMBER included - and every other topic of the same signing key is
   allowed exactly as before, wherever the entries sit in the stored vectors and in whatever order
   they were recorded; the named signing key stays allowed for the topic exactly when it is also
   recorded for that topic under another registry.                                                *)
Theorem C15_remove_key_exact :
  forall c now ctis irss idents issuers (calls : list call) i s pk registry scheme t s',
    the_issuer (run c (init now ctis irss idents issuers) calls) i = Ok s ->
    remove_key s pk registry scheme t = Ok s' ->
    (forall pk' scheme' t', (pk', scheme') <> (pk, scheme) \/ t' <> t ->
       is_key_allowed_for_topic s' pk' scheme' t' = is_key_allowed_for_topic s pk' scheme' t') /\
    (is_key_allowed_for_topic s' pk scheme t = true <->
     exists registry', registry' <> registry /\
       In (t, registry') (match aget skey_eqb (pk, scheme) (is_pairs s) with Some p => p | None => [] end)).
Proof. exact remove_key_exact_reachable. Qed.
Print Assumptions C15_remove_key_exact.
(* ... and a successful allow_key adds exactly the authorisation it names and takes none away. *)
Theorem C15_allow_key_exact :
  forall c now ctis irss idents issuers (calls : list call) i s pk registry scheme t has s',
    the_issuer (run c (init now ctis irss idents issuers) calls) i = Ok s ->
    allow_key c s pk registry scheme t has = Ok s' ->
    forall pk' scheme' t',
      is_key_allowed_for_topic s' pk' scheme' t' =
      is_key_allowed_for_topic s pk' scheme' t' || (bytes_eqb pk' pk && (scheme' =? scheme) && (t' =? t)).
Proof. exact allow_key_exact_reachable. Qed.
Print Assumptions C15_allow_key_exact.
(* Instances: the same 32 key bytes allowed for topic 1 under scheme 7 and scheme 101, in both
   orders, a genuine claim held; the model keeps / stops confirming as the text demands, the checker
   accepts the model's traces, and the monitor rejects an implementation that drops the first entry
   with these key bytes instead of the named one (de-authorised key still confirming at call 10;
   still-authorised key refused at call 10).                                                     *)
Example C15_key_alias_instances :
  (verified_after (alias_hist 7 101 ++ [RemoveKey 3%N ex_pk 0%N 7 1]) = true /\
   verified_after (alias_hist 101 7 ++ [RemoveKey 3%N ex_pk 0%N 7 1]) = true /\
   keys_after (alias_hist 101 7 ++ [RemoveKey 3%N ex_pk 0%N 7 1]) = Ok [(ex_pk, 101)] /\
   verified_after (alias_hist 7 101 ++ [RemoveKey 3%N ex_pk 0%N 101 1]) = false /\
   verified_after (alias_hist 101 7 ++ [RemoveKey 3%N ex_pk 0%N 101 1]) = false /\
   keys_after (alias_hist 7 101 ++ [RemoveKey 3%N ex_pk 0%N 101 1]) = Ok [(ex_pk, 7)] /\
   verified_after (alias_hist 7 101 ++ [RemoveKey 3%N ex_pk 0%N 101 1; AllowKey 3%N ex_pk 0%N 101 1]) = true)
  /\ (snd (fst (check alias_stale_trace)) = 10%N /\ snd (fst (check alias_refused_trace)) = 10%N /\
      check (ex_hdr, mt (alias_hist 7 101 ++ [RemoveKey 3%N ex_pk 0%N 101 1])) = (0%N, 0%N, 0%N) /\
      check (ex_hdr, mt (alias_hist 101 7 ++ [RemoveKey 3%N ex_pk 0%N 7 1])) = (0%N, 0%N, 0%N)).
Proof. split; [exact alias_model | exact monitor_rejects_alias_removal]. Qed.

(* A nonce bump invalidates: in any reachable state, after a successful
   invalidate_claim_signatures(identity, topic) every claim of that identity and topic that the
   issuer confirmed before is rejected - for a signature scheme in which a signature verifies for
   one message only.                                                                             *)
Theorem C15_nonce_bump_invalidates :
  forall c now ctis irss idents issuers (calls : list call) i d t scheme sig data,
    (forall sch pk m m' sg rid, c_sigok c sch pk m sg rid = true -> c_sigok c sch pk m' sg rid = true -> m = m') ->
    let w := run c (init now ctis irss idents issuers) calls in
    let w' := fst (step c w (Invalidate i d t)) in
    snd (step c w (Invalidate i d t)) = Ok VUnit ->
    call_is_claim_valid c w i d t scheme sig data = Ok tt ->
    call_is_claim_valid c w' i d t scheme sig data = Fail.
Proof. exact nonce_bump_invalidates_reachable. Qed.
Print Assumptions C15_nonce_bump_invalidates.

(* Revocation does not depend on the nonce (nor on anything else): a revoked claim is rejected
   whatever its signature, through every later sequence of calls that does not un-revoke exactly
   that claim at that issuer.                                                                    *)
Theorem C15_revocation_nonce_independent :
  forall c w (calls : list call) i d t data,
    forallb (fun k => negb (match k with
                            | SetRevoked i' d' t' data' false => N.eqb i' i && rkey_eqb (d', t', data') (d, t, data)
                            | _ => false end)) calls = true ->
    (exists s, the_issuer w i = Ok s /\ is_claim_revoked s d t data = true) ->
    let w' := run c w calls in
    (exists s, the_issuer w' i = Ok s /\ is_claim_revoked s d t data = true) /\
    forall scheme sig, call_is_claim_valid c w' i d t scheme sig data = Fail.
Proof. exact revocation_persists. Qed.
Print Assumptions C15_revocation_nonce_independent.

(* Fixed-width topic and nonce, self-delimiting address encodings: different
   (issuer, identity, topic, nonce, data) give different messages; likewise the nonce-independent
   identifier used for revocation and the pre-image of a claim id.                              *)
Theorem C15_message_injective :
  forall xdr : addr -> bytes,
    (forall a b s s', xdr a ++ s = xdr b ++ s' -> a = b) ->
    forall net i d t n data i' d' t' n' data',
      0 <= t <= MAXU32 -> 0 <= t' <= MAXU32 -> 0 <= n <= MAXU32 -> 0 <= n' <= MAXU32 ->
      build_claim_message net (xdr i) (xdr d) t n data = build_claim_message net (xdr i') (xdr d') t' n' data' ->
      i = i' /\ d = d' /\ t = t' /\ n = n' /\ data = data'.
Proof. exact message_injective. Qed.
Print Assumptions C15_message_injective.

Theorem C15_identifier_injective :
  forall xdr : addr -> bytes,
    (forall a b s s', xdr a ++ s = xdr b ++ s' -> a = b) ->
    forall net i d t data i' d' t' data',
      0 <= t <= MAXU32 -> 0 <= t' <= MAXU32 ->
      build_claim_identifier net (xdr i) (xdr d) t data = build_claim_identifier net (xdr i') (xdr d') t' data' ->
      i = i' /\ d = d' /\ t = t' /\ data = data'.
Proof. exact identifier_injective. Qed.
Print Assumptions C15_identifier_injective.

(* "over this network": messages built for different networks (ids of equal length) differ as well *)
Theorem C15_message_injective_net :
  forall xdr : addr -> bytes,
    (forall a b s s', xdr a ++ s = xdr b ++ s' -> a = b) ->
    forall net i d t n data net' i' d' t' n' data',
      length net = length net' ->
      0 <= t <= MAXU32 -> 0 <= t' <= MAXU32 -> 0 <= n <= MAXU32 -> 0 <= n' <= MAXU32 ->
      build_claim_message net (xdr i) (xdr d) t n data = build_claim_message net' (xdr i') (xdr d') t' n' data' ->
      net = net' /\ i = i' /\ d = d' /\ t = t' /\ n = n' /\ data = data'.
Proof. exact message_injective_net. Qed.
Print Assumptions C15_message_injective_net.

(* the pre-image of a claim id, issuer_xdr || topic_be, determines issuer and topic (the model
   represents keccak256 of it by the pair) *)
Theorem C15_claim_id_preimage_injective :
  forall xdr : addr -> bytes,
    (forall a b s s', xdr a ++ s = xdr b ++ s' -> a = b) ->
    forall i t i' t', 0 <= t <= MAXU32 -> 0 <= t' <= MAXU32 -> xdr i ++ be32 t = xdr i' ++ be32 t' -> i = i' /\ t = t'.
Proof. exact claim_id_preimage_injective. Qed.
Print Assumptions C15_claim_id_preimage_injective.

(* expiration metadata: decoding inverts encoding, and a claim is expired from valid_until on *)
Theorem C15_expiration_roundtrip :
  forall created_at valid_until payload d,
    0 <= created_at < 2 ^ 64 -> 0 <= valid_until < 2 ^ 64 ->
    encode_expiration created_at valid_until payload = Ok d ->
    decode_expiration d = Ok (created_at, valid_until, payload) /\ created_at < valid_until /\
    forall now, is_claim_expired now d = Ok (valid_until <=? now).
Proof. exact expiration_roundtrip. Qed.
Print Assumptions C15_expiration_roundtrip.

(* the three signature-data layouts *)
Theorem C15_signature_layouts :
  forall pk32 pk65 sg rid,
    length pk32 = 32%nat -> length pk65 = 65%nat -> length sg = 64%nat -> 0 <= rid <= MAXU32 ->
    extract_sig ED25519 (pk32 ++ sg) = Ok {| sd_pk := pk32; sd_sig := sg; sd_rid := 0 |} /\
    extract_sig SECP256R1 (pk65 ++ sg) = Ok {| sd_pk := pk65; sd_sig := sg; sd_rid := 0 |} /\
    extract_sig SECP256K1 (pk65 ++ sg ++ be32 rid) = Ok {| sd_pk := pk65; sd_sig := sg; sd_rid := rid |}.
Proof. exact signature_layouts. Qed.
Print Assumptions C15_signature_layouts.

(* ------------------------------------------------------------------------------------------ *)
(* The executable monitor of Run/C15.v accepts every run of the model and the model does not differ
   from itself.  The monitor is the property over implementation observations only: state clauses
   (shape of the observation, verify_identity iff, what each issuer confirms and answers about every
   held claim - computed from the HISTORY of successful allow_key / remove_key / nonce bumps /
   revocations, not from the issuer's own getters, which are checked against it; for an address that
   is not a reference issuer: only a foreign issuer contract confirms, only by the unit answer -,
   registry coherence and duplicate-freedom of its lists, identity registry) and call clauses (clock; the answer of every call the property or
   one of its getters determines; a failing or read-only call changes nothing stored; a successful
   call changes exactly what its kind may).  [observe_model h calls] is the model's trace in the
   shape the harness prints: every item carries its own list of revocation queries.
   [hdr_ok]: non-empty universe, reference and foreign issuer contracts are among the observed issuer
   addresses and disjoint; [wf_call]: the accounts, issuers, topics and claim ids a call names
   belong to the universe the header declares (checked by the monitor itself on a real trace). *)
Theorem C15_monitor_accepts_model :
  forall (h : hdr) (calls : list (call * list rkey)),
    hdr_ok h = true -> calls <> [] -> forallb (fun kq => wf_call h (fst kq)) calls = true ->
    check (observe_model h calls) = (0%N, 0%N, 0%N).
Proof. exact check_accepts_model. Qed.
Print Assumptions C15_monitor_accepts_model.

(* ------------------------------------------------------------------------------------------ *)
(* non-vacuity: a reachable state with a verified account, and what un-verifies it *)
Example C15_example_verified :
  verify_identity (cfg_of ex_hdr) (run (cfg_of ex_hdr) (init_of ex_hdr) ex_history) 10%N = Ok tt
  /\ check (ex_hdr, mt ex_history) = (0%N, 0%N, 0%N).
Proof. split; [exact ex_verified | exact ex_check_ok]. Qed.
Example C15_example_oracle_binds :
  forall sch pk m m' sg rid, c_sigok (cfg_of ex_hdr) sch pk m sg rid = true -> c_sigok (cfg_of ex_hdr) sch pk m' sg rid = true -> m = m'.
Proof. exact ex_oracle_binds. Qed.
Example C15_example_prefix_free : forall a b s s', [Z.of_N a] ++ s = [Z.of_N b] ++ s' -> a = b.
Proof. exact prefix_free_instance. Qed.
(* the monitor rejects: F4's behaviour, a counted claim of a de-listed issuer, a refused valid claim,
   an issuer confirming after expiry / revocation / nonce bump / key removal, a nonce that does not move,
   a removed key still listed for the topic, a revocation that lapses while ledgers close *)
Example C15_monitor_rejects :
  check f4_trace = (4%N, 4%N, 0%N) /\ check delisted_trace = (9%N, 9%N, 0%N) /\
  check refused_trace = (8%N, 8%N, 0%N) /\
  map (fun k => snd (fst (check (still_confirmed k))))
      [Advance 50; SetRevoked 3%N 2%N 1 ex_data true; Invalidate 3%N 2%N 1; RemoveKey 3%N ex_pk 0%N 101 1]
  = [9%N; 9%N; 9%N; 9%N] /\
  snd (fst (check stuck_nonce_trace)) = 9%N /\ snd (fst (check stale_key_trace)) = 9%N /\
  snd (fst (check lapsed_revocation_trace)) = 10%N.
Proof.
  exact (conj monitor_rejects_f4 (conj monitor_rejects_delisted (conj monitor_rejects_refusal
        (conj monitor_rejects_stale_confirmation (conj monitor_rejects_stuck_nonce (conj monitor_rejects_stale_key monitor_rejects_lapsed_revocation)))))).
Qed.
(* the traces of the adversarial review: answers of direct calls (tampered / expired / keyless claim
   confirmed by is_claim_valid, validate_claim true for another topic, Verify ok after de-listing, for
   an unobserved account, Verify refusing a valid account); an issuer whose own getter says "allowed"
   for a removed / never allowed key; history (nonce reset by a read-only call, revocation lost by a
   failing call, RemoveIssuer / AddTopic / RemoveClaim / RemoveIdentity returning Ok without effect,
   a revocation whose flag is not observed); malformed traces (truncated list, empty trace, empty
   universe) - the number is the index of the item at which the monitor fails *)
Example C15_monitor_rejects_review :
  map mon_of
    [(ex_hdr, set_out (Ok VUnit) (mt (ex_history ++ [IsClaimValid 3%N 2%N 1 101 bad_sig ex_data])));
     (ex_hdr, set_out (Ok VUnit) (mt (ex_history ++ [Advance 60; IsClaimValid 3%N 2%N 1 101 (ex_pk ++ ex_sig) ex_data])));
     (ex_hdr, set_out (Ok VUnit) (mt (ex_history ++ [IsClaimValid 4%N 2%N 1 101 (ex_pk ++ ex_sig) ex_data])));
     (ex_hdr, set_out (Ok (VBool true)) (mt (ex_history ++ [ValidateClaim ex_claim 2 3%N 2%N])));
     (ex_hdr, set_out (Ok VUnit) (mt (ex_history ++ [RemoveIssuer 0%N 3%N; Verify 10%N])));
     (ex_hdr, set_out (Ok VUnit) (mt (ex_history ++ [Verify 11%N])));
     (ex_hdr, set_out Fail (mt ex_history))]
  = [9%N; 10%N; 9%N; 9%N; 10%N; 9%N; 8%N] /\
  map mon_of
    [(ex_hdr, tamper_last (fun o => set_verify (map_cells confirmed_cell o) [true]) (mt (ex_history ++ [RemoveKey 3%N ex_pk 0%N 101 1])));
     (ex_hdr, tamper_last (fun o => set_verify (map_cells confirmed_cell o) [true]) (mt hist_nokey))]
  = [9%N; 6%N] /\
  map mon_of
    [(ex_hdr, mt (ex_history ++ [Invalidate 3%N 2%N 1]) ++ [(AuthorizedFor 3%N 0%N 1, Ok (VBool true), last_obs ex_history)]);
     (ex_hdr, mt (ex_history ++ [SetRevoked 3%N 2%N 1 ex_data true]) ++ [(AddTopic 0%N 1, Fail, last_obs ex_history)]);
     (ex_hdr, mt ex_history ++ [(RemoveIssuer 0%N 3%N, Ok VUnit, last_obs ex_history)]);
     (ex_hdr, mt ex_history ++ [(AddTopic 0%N 2, Ok VUnit, last_obs ex_history)]);
     (ex_hdr, mt ex_history ++ [(RemoveClaim 2%N (3%N, 1), Ok VUnit, last_obs ex_history)]);
     (ex_hdr, mt ex_history ++ [(RemoveIdentity 1%N 10%N, Ok VUnit, last_obs ex_history)]);
     (hdr_norevq, model_trace hdr_norevq (init_of hdr_norevq) (map (fun k => (k, [])) ex_history) ++
        [(SetRevoked 3%N 2%N 1 ex_data true, Ok VUnit, observe hdr_norevq (run (cfg_of hdr_norevq) (init_of hdr_norevq) ex_history))])]
  = [10%N; 10%N; 9%N; 9%N; 9%N; 9%N; 9%N] /\
  map mon_of
    [(ex_hdr, tamper_last (fun o => set_verify o []) (mt (ex_history ++ [RemoveIssuer 0%N 3%N])));
     (ex_hdr, []);
     (HDR ex_net 50 ex_xdr [] 15 50 50 20 15 [0%N] [1%N] [2%N] [3%N] [] [3%N] [1] [] [] [], mt ex_history)]
  = [9%N; 1%N; 1%N].
Proof.
  exact (conj monitor_rejects_call_answers (conj monitor_rejects_getter_says_allowed (conj monitor_rejects_history monitor_rejects_malformed))).
Qed.
(* completeness is relaxed only for a claim id dangling under a REQUIRED topic at a trusted issuer: a
   refusal with an unrelated dangling id is rejected; and the documented case where the code is
   stricter than the text (it refuses an identity that lists such an id, although another issuer's
   valid claim covers the topic) - both answers are accepted there *)
Example C15_dangling_ids :
  (is_ok (verify_identity (cfg_of ex_hdr) (run (cfg_of ex_hdr) (init_of ex_hdr) dangling_unrequired) 10%N) = true /\
   get_claim_ids_by_topic (get_or ident0 2%N (w_idents (run (cfg_of ex_hdr) (init_of ex_hdr) dangling_unrequired))) 2 = [(4%N, 2)] /\
   check (ex_hdr, mt dangling_unrequired) = (0%N, 0%N, 0%N) /\
   mon_of (ex_hdr, tamper_last (fun o => set_verify o [false]) (mt dangling_unrequired)) = 10%N) /\
  (map (fun it : item => snd (fst it)) (mt dangling_required) =
     [Ok VUnit; Ok VUnit; Ok VUnit; Ok VUnit; Ok VUnit; Ok VUnit; Ok VUnit; Ok (VCid (3%N, 1)); Ok VUnit; Ok VUnit; Ok VUnit; Fail] /\
   check (ex_hdr, mt dangling_required) = (0%N, 0%N, 0%N)).
Proof. exact (conj monitor_rejects_refusal_with_unrelated_dangling_id code_refuses_on_dangling_required_id). Qed.
(* foreign issuers (contract 5 answers the unit value for schemes 200 and 207 only; 9 is no contract):
   what the model does, that the checker accepts it, and that the monitor rejects an implementation
   that counts "the call did not trap" as a confirmation - verify_identity reporting the account as
   verified, validate_claim answering true, add_claim storing the claim - or a non-contract address
   reported as confirming; and a registry that accepted the topic list [1; 1] *)
Example C15_foreign_issuers :
  (fx_outs (fx_setup ++ [AddClaim 2%N (fx_claim 201); ForceClaim 2%N (5%N, 1) 1 (fx_claim 201); Verify 10%N;
                         ValidateClaim (fx_claim 201) 1 5%N 2%N; IsClaimValid 5%N 2%N 1 202 [] [];
                         ValidateClaim (fx_claim 200) 1 5%N 2%N; ValidateClaim (fx_claim 200) 1 9%N 2%N;
                         AddClaim 2%N (fx_claim 207); Verify 10%N; RemoveIssuer 0%N 5%N; Verify 10%N])
   = [Ok VUnit; Ok VUnit; Ok VUnit; Ok VUnit; Ok VUnit; Ok VUnit;
      Fail; Ok VUnit; Fail; Ok (VBool false); Fail; Ok (VBool true); Ok (VBool false);
      Ok (VCid (5%N, 1)); Ok VUnit; Ok VUnit; Fail]
   /\ check (fx_hdr, fx_mt (fx_setup ++ [AddClaim 2%N (fx_claim 201); ForceClaim 2%N (5%N, 1) 1 (fx_claim 201); Verify 10%N;
                                        AddClaim 2%N (fx_claim 207); Verify 10%N])) = (0%N, 0%N, 0%N))
  /\ map mon_of
    [(fx_hdr, tamper_last (fun o => set_verify o [true]) (fx_mt (fx_setup ++ [ForceClaim 2%N (5%N, 1) 1 (fx_claim 201)])));
     (fx_hdr, fx_mt (fx_setup ++ [ForceClaim 2%N (5%N, 1) 1 (fx_claim 201)])
                ++ [(ValidateClaim (fx_claim 201) 1 5%N 2%N, Ok (VBool true),
                     observe fx_hdr (run (cfg_of fx_hdr) (init_of fx_hdr) (fx_setup ++ [ForceClaim 2%N (5%N, 1) 1 (fx_claim 201)])))]);
     (fx_hdr, fx_mt fx_setup
                ++ [(AddClaim 2%N (fx_claim 201), Ok (VCid (5%N, 1)),
                     observe fx_hdr (run (cfg_of fx_hdr) (init_of fx_hdr) (fx_setup ++ [ForceClaim 2%N (5%N, 1) 1 (fx_claim 201)])))]);
     (fx_hdr, tamper_last (map_cells confirmed_cell) (fx_mt (fx_setup ++ [ForceClaim 2%N (9%N, 1) 1 (CL 1 200 9%N [] [] 0)])))]
  = [7%N; 8%N; 7%N; 7%N]
  /\ mon_of (ex_hdr, mt [AddTopic 0%N 1] ++
                  [(AddIssuer 0%N 3%N [1; 1], Ok VUnit, dup_obs (last_obs [AddTopic 0%N 1; AddIssuer 0%N 3%N [1]]))]) = 2%N.
Proof.
  split; [exact foreign_issuer_model|]. split; [exact monitor_rejects_non_unit_answer_counted|].
  exact (proj1 (proj2 monitor_rejects_duplicate_topic_list)).
Qed.
