(* C16 - Pause, allow/block lists, supply cap and migration flags cannot be bypassed.
   Only pinned statements: each Theorem is closed by [exact] of a lemma proved in Proofs/,
   followed by Print Assumptions; Examples show non-vacuity and that the monitor rejects.

   Model: Model/Gates.v (the four example contracts + harness contracts wired to every library
   override, over a minimal fungible core).  [step c s call] returns (state', ok); a failing
   call returns the old state.  [exec c s call] is [Ok state'] / [Fail].
   [knd c] is the contract: KPaus = examples/fungible-pausable, KAllowEx / KBlockEx / KCapEx the
   allow-list / block-list / capped examples, K*Lib the library-level harness contracts,
   KUpgV1/V2 the derive(Upgradeable)/derive(UpgradeableMigratable) expansions. *)
From SC Require Import Lib.Prelude Lib.Int Lib.Host Model.Gates Model.GatesSpec
  Proofs.Gates Proofs.C16Final Proofs.C16More Proofs.C16Exempt Run.C16 Proofs.C16Monitor Proofs.C16Examples.

(* ---------------------------------------------------------------------------------- *)
(* Pause.  In ANY state with the flag set, every entry point declared pausable fails and leaves
   the state untouched - for every argument and every authorisation set.  [is_paus]: KPaus =
   examples/fungible-pausable (transfer - also with a muxed receiver -, transfer_from, burn,
   burn_from, mint carry #[when_not_paused]); KPausEx = examples/pausable (increment); KPausLib = the library functions and both attribute macros of
   packages/macros/src/pausable.rs driven directly (the entry point under #[when_not_paused]). *)
Theorem C16_paused_blocks_all : forall c s cl,
  is_paus (knd c) = true -> paused s = true -> pausable_op (fst cl) = true ->
  step c s cl = (s, false).
Proof. exact paused_blocks_step. Qed.
Print Assumptions C16_paused_blocks_all.

(* ... and works again unchanged after unpausing: pause, any number of attempts on pausable entry
   points, unpause, is the identity on the whole state (so every later call behaves as before). *)
Theorem C16_pause_unpause_roundtrip : forall c s cs au1 au2,
  knd c = KPaus -> paused s = false ->
  has_auth au1 (owner c) = true -> has_auth au2 (owner c) = true ->
  Forall (fun cl => pausable_op (fst cl) = true) cs ->
  run c s ((Pause (owner c), au1) :: cs ++ [(Unpause (owner c), au2)]) = s /\
  (forall cl, In cl cs -> step c (set_paused s true) cl = (set_paused s true, false)).
Proof. exact pause_roundtrip. Qed.
Print Assumptions C16_pause_unpause_roundtrip.

(* the same at library level (pausable::pause / unpause without any authorisation wrapper, the entry
   point under #[when_not_paused]) *)
Theorem C16_pause_unpause_roundtrip_lib : forall c s cs au1 au2 x y,
  knd c = KPausLib -> paused s = false ->
  Forall (fun cl => pausable_op (fst cl) = true) cs ->
  run c s ((Pause x, au1) :: cs ++ [(Unpause y, au2)]) = s /\
  (forall cl, In cl cs -> step c (set_paused s true) cl = (set_paused s true, false)).
Proof. exact pause_roundtrip_lib. Qed.
Print Assumptions C16_pause_unpause_roundtrip_lib.

(* Over every call sequence from deployment (any interleaving with every other entry point, any
   caller, any authorisation set): the successful pause/unpause events strictly alternate,
   starting with a pause.  [pause_events] lists true for a successful pause, false for a
   successful unpause; [alternates prev l] = every element differs from its predecessor. *)
Theorem C16_alternation : forall c cs, wf_cfg c = true ->
  alternates false (pause_events c (init c) cs) = true.
Proof. exact alternation. Qed.
Print Assumptions C16_alternation.

(* ---------------------------------------------------------------------------------- *)
(* Allow list (example and library level), in ANY state: if transfer / transfer_from / approve /
   burn / burn_from succeeds then every party it must vet - from and to of a transfer, from and to
   of an allowance-based transfer, the owner of an approval, the holder whose tokens are burnt
   (also by a spender) - is allowed.  [vetted]: Transfer f t -> [f;t]; TransferFrom _ f t ->
   [f;t]; Approve o _ -> [o]; Burn f -> [f]; BurnFrom _ f -> [f].  The spender is deliberately
   not vetted (the code does not, DESIGN.md). *)
Theorem C16_allow : forall c s cl s',
  is_allow (knd c) = true -> exec c s cl = Ok s' ->
  forall a, In a (vetted (fst cl)) -> allowed s a = true.
Proof. exact allow_sound. Qed.
Print Assumptions C16_allow.

Theorem C16_block : forall c s cl s',
  is_block (knd c) = true -> exec c s cl = Ok s' ->
  forall a, In a (vetted (fst cl)) -> blocked s a = false.
Proof. exact block_sound. Qed.
Print Assumptions C16_block.

(* A muxed receiver (to = MuxedAddress(address, id)) is the plain transfer to the underlying address,
   for every contract and state: C16_allow / C16_block vet that address. *)
Theorem C16_muxed_receiver : forall c s f t i a au,
  exec c s (TransferMux f t i a, au) = exec c s (Transfer f t a, au) /\
  vetted (TransferMux f t i a) = [f; t] /\ pausable_op (TransferMux f t i a) = true.
Proof. exact muxed_receiver. Qed.
Print Assumptions C16_muxed_receiver.

(* The same over every call sequence from deployment, in terms of what happened: a gated entry
   point succeeds only if the LAST successful list change of every vetted party was an allow_user
   (resp. was not a block_user); for the allow-list example the constructor's allow of the admin
   counts as the first change.  [hist_run] replays the successful gate operations. *)
Theorem C16_allow_by_history : forall c cs cl,
  wf_cfg c = true -> is_allow (knd c) = true ->
  let hs := hist_run c (hist0 c, init c) cs in
  snd (step c (snd hs) cl) = true ->
  forall a, In a (vetted (fst cl)) -> h_listed (fst hs) a = true.
Proof. exact allow_by_history. Qed.
Print Assumptions C16_allow_by_history.
Theorem C16_block_by_history : forall c cs cl,
  wf_cfg c = true -> is_block (knd c) = true ->
  let hs := hist_run c (hist0 c, init c) cs in
  snd (step c (snd hs) cl) = true ->
  forall a, In a (vetted (fst cl)) -> h_listed (fst hs) a = false.
Proof. exact block_by_history. Qed.
Print Assumptions C16_block_by_history.
Theorem C16_paused_by_history : forall c cs cl,
  wf_cfg c = true -> is_paus (knd c) = true -> pausable_op (fst cl) = true ->
  let hs := hist_run c (hist0 c, init c) cs in
  h_paused (fst hs) = true ->
  step c (snd hs) cl = (snd hs, false).
Proof. exact paused_by_history. Qed.
Print Assumptions C16_paused_by_history.

(* The tree before commit 4342d51 (allow-list example with the default FungibleBurnable): a
   holder who is not allowed burns successfully, in a reachable state; the fixed tree refuses the
   same call in the same state. *)
Theorem C16_prefix_refuted :
  exists c cs cl,
    knd c = KAllowEx /\
    let s := run_gen false c (init c) cs in
    snd (step_prefix c s cl) = true /\
    (exists a, In a (vetted (fst cl)) /\ allowed s a = false) /\
    run c (init c) cs = s /\ snd (step c s cl) = false.
Proof. exact prefix_refuted. Qed.
Print Assumptions C16_prefix_refuted.

(* List changes are immediate and idempotent: a successful allow/disallow/block/unblock call
   yields exactly the library function's state whatever the list said before, repeating it
   changes nothing, and the very next call that must vet the user already sees it. *)
Theorem C16_list_idempotent_immediate : forall c s u operator au s',
  (is_allow (knd c) = true ->
     (exec c s (AllowUser u operator, au) = Ok s' ->
        s' = allow_user s u /\ exec c s' (AllowUser u operator, au) = Ok s' /\ allowed s' u = true) /\
     (exec c s (DisallowUser u operator, au) = Ok s' ->
        s' = disallow_user s u /\ exec c s' (DisallowUser u operator, au) = Ok s' /\ allowed s' u = false /\
        forall cl s'', In u (vetted (fst cl)) -> exec c s' cl <> Ok s'')) /\
  (is_block (knd c) = true ->
     (exec c s (BlockUser u operator, au) = Ok s' ->
        s' = block_user s u /\ exec c s' (BlockUser u operator, au) = Ok s' /\ blocked s' u = true /\
        forall cl s'', In u (vetted (fst cl)) -> exec c s' cl <> Ok s'') /\
     (exec c s (UnblockUser u operator, au) = Ok s' ->
        s' = unblock_user s u /\ exec c s' (UnblockUser u operator, au) = Ok s' /\ blocked s' u = false)).
Proof. exact list_call_immediate_idempotent. Qed.
Print Assumptions C16_list_idempotent_immediate.

(* The list entry points of the two examples are guarded by the "manager" role of AccessControl,
   which can be granted / revoked / renounced mid-trace: in ANY state a list call succeeds only if
   the operator holds the role at that moment and has authorised (a revoked manager is refused). *)
Theorem C16_list_call_needs_manager : forall c s u operator au s',
  knd c = KAllowEx \/ knd c = KBlockEx ->
  (exec c s (AllowUser u operator, au) = Ok s' \/ exec c s (DisallowUser u operator, au) = Ok s' \/
   exec c s (BlockUser u operator, au) = Ok s' \/ exec c s (UnblockUser u operator, au) = Ok s') ->
  mgr s operator = true /\ has_auth au operator = true.
Proof. exact list_call_needs_manager. Qed.
Print Assumptions C16_list_call_needs_manager.

(* Over every call sequence from deployment: each gate is exactly what the history of the
   SUCCESSFUL gate operations says - paused = the last successful pause/unpause was a pause;
   listed(x) = the last successful list change of x put it on the list (constructor state if none);
   migrating = an upgrade succeeded since the last successful migration; manager(x) = the last
   successful grant/revoke/renounce of the role for x was a grant; nothing else moves a gate.
   ([hist_run] replays [hist_upd] of Model/GatesSpec.v along the run.) *)
Theorem C16_gates_follow_history : forall c cs, wf_cfg c = true ->
  let h := fst (hist_run c (hist0 c, init c) cs) in
  let s := run c (init c) cs in
  now s = h_now h /\ paused s = h_paused h /\ (forall x, listed c s x = h_listed h x) /\
  migrating s = h_armed h /\ (forall x, mgr s x = h_mgr h x).
Proof. exact gates_follow_history. Qed.
Print Assumptions C16_gates_follow_history.

(* ---------------------------------------------------------------------------------- *)
(* No address is exempt.  For EVERY address x (a user, the admin, the manager, the token contract's own
   address, another contract, an account): from any reachable state in which x is closed - allow list: x
   not allowed; block list: x blocked - no continuation that does not re-open x moves x's balance, and x
   stays closed.  "Re-open" = the list operation that opens x (allow_user x on an allow list, unblock_user x
   on a block list), successful or not; for the two library-level harness contracts also mint to x, which
   there is the ungated Base::mint (the example contracts have no mint).  Every other call - whoever signs,
   whatever the amounts, however far the ledger advances - leaves the balance alone. *)
Theorem C16_closed_balance_frozen : forall c cs0 cs x,
  wf_cfg c = true -> is_allow (knd c) || is_block (knd c) = true ->
  let s0 := run c (init c) cs0 in
  (if is_block (knd c) then blocked s0 x else negb (allowed s0 x)) = true ->
  forallb (fun cl => negb (match fst cl with
                           | AllowUser u _ => is_allow (knd c) && N.eqb u x
                           | UnblockUser u _ => is_block (knd c) && N.eqb u x
                           | Mint t _ => (kind_eqb (knd c) KAllowLib || kind_eqb (knd c) KBlockLib) && N.eqb t x
                           | _ => false
                           end)) cs = true ->
  let s1 := run c (init c) (cs0 ++ cs) in
  bal s1 x = bal s0 x /\
  (if is_block (knd c) then blocked s1 x else negb (allowed s1 x)) = true.
Proof. exact closed_balance_frozen. Qed.
Print Assumptions C16_closed_balance_frozen.

(* The allow-list example: an address other than the admin (whom the constructor allows) that was never
   the subject of an allow_user call never holds a token and never reads as allowed - over every call
   sequence from deployment. *)
Theorem C16_never_allowed_never_holds : forall c cs x,
  wf_cfg c = true -> knd c = KAllowEx -> x <> owner c ->
  forallb (fun cl => match fst cl with AllowUser u _ => negb (N.eqb u x) | _ => true end) cs = true ->
  bal (run c (init c) cs) x = 0 /\ allowed (run c (init c) cs) x = false.
Proof. exact never_allowed_never_holds. Qed.
Print Assumptions C16_never_allowed_never_holds.

(* non-vacuity: address 1 of the allow-list example holds 100 tokens and an allowance to 2 when it is
   disallowed; transfers from / to it (plain, muxed, allowance-based, zero), burns, a stray mint, a second
   disallow, an allow_user by somebody who is not a manager and 600000 ledgers later it still holds exactly 100 and is closed,
   while the rest of the token keeps working (the last call succeeds) *)
Example C16_closed_frozen_nonvacuous :
  let s0 := run cAE (init cAE) frozen_prefix in
  let s1 := run cAE (init cAE) (frozen_prefix ++ frozen_suffix) in
  wf_cfg cAE = true /\ allowed s0 1%N = false /\ bal s0 1%N = 100 /\ allowance s0 1%N 2%N = 50 /\
  forallb (fun cl => negb (reopens cAE 1%N (fst cl))) frozen_suffix = true /\
  bal s1 1%N = 100 /\ allowed s1 1%N = false /\
  map (fun st => snd (fst st)) (model_steps cAE s0 frozen_suffix)
  = [false; false; false; false; false; false; false; false; true; false; true; false; true; true].
Proof. vm_compute. repeat split. Qed.

(* ---------------------------------------------------------------------------------- *)
(* Cap, in ANY state: a successful cap-checked mint has a cap, adds exactly the amount and the
   new supply is <= the cap; the amount is non-negative and supply + amount fits i128. *)
Theorem C16_cap : forall c s t a au s',
  is_cap (knd c) = true -> exec c s (Mint t a, au) = Ok s' ->
  exists cp, cap s = Some cp /\ cap s' = Some cp /\
             supply s' = supply s + a /\ supply s' <= cp /\ 0 <= a /\ supply s + a <= MAX128.
Proof. exact cap_mint_sound. Qed.
Print Assumptions C16_cap.

(* overflow of supply + amount => the mint fails without effect (whatever the cap) *)
Theorem C16_cap_overflow_fails : forall c s t a au,
  is_cap (knd c) = true -> MAX128 < supply s + a -> step c s (Mint t a, au) = (s, false).
Proof. exact cap_mint_overflow. Qed.
Print Assumptions C16_cap_overflow_fails.

(* the capped example, every call sequence from deployment with cap >= 0: the cap never changes
   and 0 <= total supply <= cap in every reachable state *)
Theorem C16_cap_invariant : forall c cs,
  knd c = KCapEx -> wf_cfg c = true -> 0 <= init_cap c ->
  let s := run c (init c) cs in
  cap s = Some (init_cap c) /\ 0 <= supply s <= init_cap c.
Proof. exact cap_invariant_example. Qed.
Print Assumptions C16_cap_invariant.

(* library level (set_cap callable at any time, burns allowed): as long as no successful set_cap
   goes below the supply of its moment, supply <= cap in every reachable state *)
Theorem C16_cap_invariant_lib : forall c cs,
  knd c = KCapLib -> wf_cfg c = true -> setcaps_above c (init c) cs = true ->
  let s := run c (init c) cs in
  match cap s with Some cp => supply s <= cp | None => True end.
Proof. exact cap_invariant_lib. Qed.
Print Assumptions C16_cap_invariant_lib.

(* ---------------------------------------------------------------------------------- *)
(* Migration, over every call sequence from deployment - KUpgV2: derive(UpgradeableMigratable)
   used directly; KUpgV1: examples/upgradeable/v1 (derive(Upgradeable)) whose successor after the
   first upgrade is examples/upgradeable/v2 - : migrate
   succeeds exactly when the operator is the owner, has authorised, and an upgrade succeeded since
   the last successful migration - hence exactly once after each upgrade (or run of upgrades) and
   never without one.  [armed_after c s false cs]: replay of the outcomes - a successful Upgrade
   arms, a successful Migrate disarms, nothing else changes it. *)
Theorem C16_migrate_once : forall c cs d operator au,
  knd c = KUpgV1 \/ knd c = KUpgV2 -> wf_cfg c = true ->
  snd (step c (run c (init c) cs) (Migrate d operator, au)) =
    has_auth au operator && N.eqb operator (owner c) && armed_after c (init c) false cs.
Proof. exact migrate_once_explicit. Qed.
Print Assumptions C16_migrate_once.

(* the flag protocol in ANY state *)
Theorem C16_migrate_step : forall c s d operator au,
  knd c = KUpgV1 \/ knd c = KUpgV2 ->
  exec c s (Migrate d operator, au) =
    if has_auth au operator && N.eqb operator (owner c) && migrating s
    then Ok (set_mig (set_mdata s (Some d)) false) else Fail.
Proof. exact migrate_step. Qed.
Print Assumptions C16_migrate_step.
Theorem C16_upgrade_step : forall c s w operator au,
  knd c = KUpgV1 \/ knd c = KUpgV2 ->
  exec c s (Upgrade w operator, au) =
    if has_auth au operator && N.eqb operator (owner c) && w then Ok (set_mig s true) else Fail.
Proof. exact upgrade_step. Qed.
Print Assumptions C16_upgrade_step.

(* ---------------------------------------------------------------------------------- *)
(* Exactness (gates re-open correctly, nothing else is gated): in every state satisfying the
   reachability invariant [Inv] and described by history [h] ([Rel]), every entry point of every
   contract succeeds IFF [expected_ok] (Model/GatesSpec.v: entry point exists, its gates are open,
   the fungible core and the authorisation rule have no objection), and then has exactly the
   effects [effects] on supply, balances, allowances, cap and migration data, moves the gates
   exactly as [hist_upd] says, and preserves the invariant.  This is the specification the
   monitor evaluates on the implementation. *)
Theorem C16_entry_points_meet_spec : forall c h s cl,
  Inv c s -> Rel c h s ->
  match exec c s cl with
  | Ok s' => expected_ok c h (view_st s) cl = true /\ effects s (fst cl) s' /\
             Rel c (hist_upd h (fst cl)) s' /\ Inv c s'
  | Fail => expected_ok c h (view_st s) cl = false
  end.
Proof. exact exec_spec. Qed.
Print Assumptions C16_entry_points_meet_spec.

(* ---------------------------------------------------------------------------------- *)
(* The executable monitor (the property as a boolean over calls, authorisation sets, outcomes
   and getter values only) accepts every run of the model, and the model's diff with itself is
   empty - for all call sequences over addresses inside the observed universe. *)
Theorem C16_monitor_accepts_model : forall c cs,
  wf_cfg c = true -> forallb (wf_call c) cs = true ->
  check (observe_model c cs) = (0%N, 0%N, 0%N).
Proof. exact check_accepts_model. Qed.
Print Assumptions C16_monitor_accepts_model.

(* ---------------------------------------------------------------------------------- *)
(* the monitor rejects hand-made bad traces, at the offending call *)
Example C16_monitor_rejects :
  map mon [ prefix_trace                 (* pre-fix F6 history: disallowed holder burns *)
          ; bad_paused_transfer          (* transfer succeeds while paused *)
          ; bad_double_pause             (* pause accepted twice *)
          ; bad_stuck_after_unpause      (* valid transfer refused after unpause *)
          ; bad_allow_receiver           (* receiver not allowed, transfer succeeds *)
          ; bad_block_burn_from          (* burn_from of a blocked owner succeeds *)
          ; bad_stale_list               (* disallow_user ok, getter still says allowed *)
          ; bad_over_cap                 (* mint lifts supply above the cap *)
          ; bad_migrate_twice            (* second migration after one upgrade *)
          ; bad_migrate_without_upgrade
          ; bad_failed_with_effect       (* failing call changes a balance *)
          ; bad_unread_forever           (* a list entry never read again before the trace ends *)
          ; bad_short_list               (* observation shorter than the universe *)
          ; bad_ctor_cap'                (* deployed with cap 100, cap getter says 1000 *)
          ; bad_mux_receiver             (* muxed receiver whose address is not allowed receives *)
          ; bad_increment_paused         (* examples/pausable: increment while paused *)
          ; bad_v1_migrate               (* v1 -> v2: migrate without upgrade *)
          ; bad_negative_cap_deployed    (* constructor must refuse a negative cap *)
          ; bad_allowance_vanishes       (* allowance gone at Advance 0, long before its live_until_ledger *)
          ; bad_born_listed              (* an address reads as allowed at deployment without any allow_user *)
          ; bad_disallow_ineffective     (* disallowed (getter agrees) but still receives: irrevocably allowed *)
          ; bad_block_ineffective ]      (* blocked (getter agrees) but still receives *)
  = [4; 2; 2; 3; 3; 4; 2; 2; 3; 1; 2; 3; 1; 1; 3; 3; 1; 1; 2; 1; 5; 3]%N.
Proof. vm_compute. reflexivity. Qed.

(* ... and it is the clause of the property text that fails
   (order: no-effect, paused-blocks, alternation, allow, block, getters-follow-history, cap,
   migrate, works-again, effects, shape) *)
Example C16_clauses_reject :
  map rejected_clauses
    [ prefix_trace; bad_paused_transfer; bad_double_pause; bad_block_burn_from; bad_stale_list; bad_over_cap;
      bad_migrate_twice; bad_failed_with_effect; bad_stuck_after_unpause; bad_mux_receiver; bad_increment_paused;
      bad_short_list ]
  = [ [true; true; true; false; true; true; true; true; true; true; true];
      [true; false; true; true; true; true; true; true; true; true; true];
      [true; true; false; true; true; true; true; true; true; true; true];
      [true; true; true; true; false; true; true; true; true; true; true];
      [true; true; true; true; true; false; true; true; true; true; true];
      [true; true; true; true; true; true; false; true; true; true; true];
      [true; true; true; true; true; true; true; false; true; true; true];
      [false; true; true; true; true; true; true; true; true; true; true];
      [true; true; true; true; true; true; true; true; false; true; true];
      [true; true; true; false; true; true; true; true; true; true; true];
      [true; false; true; true; true; true; true; true; true; true; true];
      [true; true; true; true; true; true; true; true; true; true; false] ].
Proof. vm_compute. reflexivity. Qed.

(* an implementation that is STRICTER than the text is not a monitor failure (only a disagreement
   with the model): a block list that also refuses a blocked spender; approve refused while paused;
   and a constructor that refuses a negative cap is what the monitor expects *)
Example C16_stricter_is_not_a_violation :
  map check [strict_spender; strict_approve_paused; ok_negative_cap_refused]
  = [(4, 0, 0); (2, 0, 0); (0, 0, 0)]%N.
Proof. vm_compute. reflexivity. Qed.

(* non-vacuity, every contract kind: a non-trivial well-formed run is accepted, with these outcomes *)
Example C16_nonvacuous :
  map (fun r => (wf_cfg (fst r) && forallb (wf_call (fst r)) (snd r), check (observe_model (fst r) (snd r)),
                 map (fun st => snd (fst st)) (model_steps (fst r) (init (fst r)) (snd r)))) good_runs
  = [ (true, (0, 0, 0)%N, [true; true; true; false; false; true; true; true; true; true]);
      (true, (0, 0, 0)%N, [true; false; false; true; false; true; true; false; true; true]);
      (true, (0, 0, 0)%N, [true; true; false; true; true; true]);
      (true, (0, 0, 0)%N, [true; true; true; true; false; false; true; false; true; true; true; true; true]);
      (true, (0, 0, 0)%N, [true; true; false; true; true; true]);
      (true, (0, 0, 0)%N, [true; true; false; false; false; true; true]);
      (true, (0, 0, 0)%N, [true; true; true; true; true; false]);
      (true, (0, 0, 0)%N, [true; false; true; false; true; false]);
      (true, (0, 0, 0)%N, [false; false; true; true; true; false; true]);
      (true, (0, 0, 0)%N, [false; true; true; true; false]);
      (true, (0, 0, 0)%N, [false; false; true; true; false; true; false]);
      (true, (0, 0, 0)%N, [false; true; true; true; false]) ] /\
  supply (run cP (init cP) good_calls_paus) = 960 /\
  pause_events cP (init cP) good_calls_paus = [true; false].
Proof. vm_compute. repeat split. Qed.
