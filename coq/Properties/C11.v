(* C11 - An NFT moves only by its owner, its approved account or a live operator.
   Only pinned statements; each closed by [exact] of a lemma proved in Proofs/.

   Model: coq/Model/Nft.v ([exec fl c s call] = one contract call on flavour fl in state s;
   [run fl c s calls] = the state after a call sequence; a call carries the set [auths] of
   addresses that authorise it; [Advance n] moves the ledger).  The getters are the model's
   [owner_of], [get_approved], [is_approved_for_all] - the same functions whose values the
   correspondence run compares with the real contracts after every call. *)
From SC Require Import Lib.Prelude Lib.Int Lib.Host Model.Nft Run.NftCommon Proofs.NftMaps Proofs.NftFrame
  Proofs.NftInv Proofs.NftCons Proofs.NftOwn Proofs.NftSim Proofs.C11Final Run.C11 Proofs.C11Monitor.
Local Open Scope N_scope.

(* In EVERY state (not only reachable ones), for the three flavours: a transfer or burn that
   succeeds was authorised by an account x that is the token's current owner, its currently
   approved account, or an operator the current owner approved for all - and `from` is the owner. *)
Theorem C11_move_authority : forall fl c s cl s' r, exec fl c s cl = Ok (s', r) ->
  let entitled (auths : list addr) (x from : addr) (id : N) :=
    In x auths /\ owner_of fl c s id = Some from /\
    (x = from \/ get_approved s id = Some x \/ is_approved_for_all s from x = true) in
  match cl with
  | Transfer auths from _ id | Burn auths from id => entitled auths from from id
  | TransferFrom auths spender from _ id | BurnFrom auths spender from id => entitled auths spender from id
  | _ => True
  end.
Proof. exact move_authority. Qed.
Print Assumptions C11_move_authority.

(* an approval (also a revoke) is set only by the owner or an operator of the owner, who authorised the call *)
Theorem C11_approve_authority : forall fl c s auths approver approved id lu s' r,
  exec fl c s (Approve auths approver approved id lu) = Ok (s', r) ->
  In approver auths /\
  exists o, owner_of fl c s id = Some o /\ (approver = o \/ is_approved_for_all s o approver = true).
Proof. exact approve_authority. Qed.
Print Assumptions C11_approve_authority.

Theorem C11_approve_for_all_authority : forall fl c s auths o op lu s' r,
  exec fl c s (ApproveForAll auths o op lu) = Ok (s', r) -> In o auths.
Proof. exact approve_for_all_authority. Qed.
Print Assumptions C11_approve_for_all_authority.

(* any successful transfer or burn clears the token's individual approval (all flavours; for the
   consecutive one this is the clearing through NFTConsecutiveStorageKey::Approval) *)
Theorem C11_cleared_on_move : forall fl c s cl s' r, exec fl c s cl = Ok (s', r) ->
  match cl with
  | Transfer _ _ _ id | TransferFrom _ _ _ _ id | Burn _ _ id | BurnFrom _ _ _ id => get_approved s' id = None
  | _ => True
  end.
Proof. exact cleared_on_move. Qed.
Print Assumptions C11_cleared_on_move.

(* Histories.  If after ANY call sequence from the empty contract get_approved id reports x, then
   the sequence contains a successful call Approve(approver, x, id, lu) with lu <> 0 that is not yet
   expired at the final ledger (now <= lu, wherever the Advance calls are), and after it no transfer,
   transfer_from, burn, burn_from or approve of that token succeeded: approvals of a previous owner,
   expired or revoked ones, and ones cleared by a move are never reported - nor honoured
   (C11_move_authority consults exactly this getter). *)
Theorem C11_no_carry_over : forall fl c now0 cs id x,
  get_approved (run fl c (init now0) cs) id = Some x ->
  exists cs1 auths approver lu cs2,
    cs = cs1 ++ Approve auths approver x id lu :: cs2 /\ lu <> 0%Z /\
    (now (run fl c (init now0) cs) <= lu)%Z /\
    is_ok (snd (step fl c (run fl c (init now0) cs1) (Approve auths approver x id lu))) = true /\
    forallb (fun co : call * outcome =>
               negb match snd co with
                    | Fail => false
                    | Ok _ =>
                        match fst co with
                        | Transfer _ _ _ i | TransferFrom _ _ _ _ i | Burn _ _ i | BurnFrom _ _ _ i
                        | Approve _ _ _ i _ => i =? id
                        | _ => false
                        end
                    end)
      (outcomes fl c (run fl c (init now0) (cs1 ++ [Approve auths approver x id lu])) cs2) = true.
Proof. exact no_carry_over. Qed.
Print Assumptions C11_no_carry_over.

(* Combined form.  [writes id (call, outcome)] = the call succeeded and (re)assigned token id: a
   transfer / transfer_from / burn / burn_from / explicit mint of id, a sequential mint returning id,
   or a batch mint whose range contains id (Proofs/C11Final.v).  The reported approval was given by an
   approver who authorised the call and who was, at that moment, the owner o of the token or a live
   operator of o; and o is still the owner now, provided no mint re-assigned the id since (minting an
   existing id is outside the property's quantifier; moves are excluded by the theorem itself). *)
Theorem C11_approval_by_current_owner_side : forall fl c now0 cs id x,
  get_approved (run fl c (init now0) cs) id = Some x ->
  exists cs1 auths approver lu cs2,
    cs = cs1 ++ Approve auths approver x id lu :: cs2 /\ lu <> 0%Z /\
    (now (run fl c (init now0) cs) <= lu)%Z /\
    let s1 := run fl c (init now0) cs1 in
    let s2 := run fl c (init now0) (cs1 ++ [Approve auths approver x id lu]) in
    In approver auths /\
    (exists o, owner_of fl c s1 id = Some o /\ (approver = o \/ is_approved_for_all s1 o approver = true) /\
       (forallb (fun co => negb (writes id co)) (outcomes fl c s2 cs2) = true ->
        owner_of fl c (run fl c (init now0) cs) id = Some o)) /\
    untouched id (outcomes fl c s2 cs2) = true.
Proof. exact approval_by_current_owner_side. Qed.
Print Assumptions C11_approval_by_current_owner_side.

(* The same for operators: is_approved_for_all o op = true only if o itself authorised a successful
   approve_for_all(o, op, lu) with now <= lu that no later successful approve_for_all(o, op, _)
   (in particular no revoke) replaced. *)
Theorem C11_operator_history : forall fl c now0 cs o op,
  is_approved_for_all (run fl c (init now0) cs) o op = true ->
  exists cs1 auths lu cs2,
    cs = cs1 ++ ApproveForAll auths o op lu :: cs2 /\ lu <> 0%Z /\
    (now (run fl c (init now0) cs) <= lu)%Z /\ In o auths /\
    is_ok (snd (step fl c (run fl c (init now0) cs1) (ApproveForAll auths o op lu))) = true /\
    forallb (fun co : call * outcome =>
               negb match snd co with
                    | Fail => false
                    | Ok _ => match fst co with ApproveForAll _ o' op' _ => (o' =? o) && (op' =? op) | _ => false end
                    end)
      (outcomes fl c (run fl c (init now0) (cs1 ++ [ApproveForAll auths o op lu])) cs2) = true.
Proof. exact operator_history. Qed.
Print Assumptions C11_operator_history.

(* approve_for_all(o, op) concerns only the pair (o, op): no other operator relation, no owner,
   no individual approval and no balance changes *)
Theorem C11_operator_scope : forall fl c s auths o op lu s' r,
  exec fl c s (ApproveForAll auths o op lu) = Ok (s', r) ->
  (forall o' op', (o', op') <> (o, op) -> is_approved_for_all s' o' op' = is_approved_for_all s o' op') /\
  (forall id, owner_of fl c s' id = owner_of fl c s id) /\
  (forall id, get_approved s' id = get_approved s id) /\
  (forall a, balance s' a = balance s a).
Proof. exact operator_scope. Qed.
Print Assumptions C11_operator_scope.

(* revoke = live_until 0 *)
Theorem C11_revoke_approval : forall fl c s auths approver approved id s' r,
  exec fl c s (Approve auths approver approved id 0%Z) = Ok (s', r) -> get_approved s' id = None.
Proof. exact revoke_approval. Qed.
Print Assumptions C11_revoke_approval.
Theorem C11_revoke_operator : forall fl c s auths o op s' r,
  exec fl c s (ApproveForAll auths o op 0%Z) = Ok (s', r) -> is_approved_for_all s' o op = false.
Proof. exact revoke_operator. Qed.
Print Assumptions C11_revoke_operator.

(* The getters equal the plain reference tables replayed from the successful calls (the tables the
   monitor keeps), after every call sequence, for every flavour: in particular the host's TTL of the
   temporary entries never cuts an approval short of its live_until_ledger nor prolongs it. *)
Theorem C11_getters_refine_tables : forall fl c now0 cs,
  let s := run fl c (init now0) cs in
  let g := snd (run_sg fl c (init now0) (ghost0 now0) cs) in
  (forall id, get_approved s id = live_appr g id) /\
  (forall o op, is_approved_for_all s o op = live_oper g o op) /\
  (forall id, owner_of fl c s id = rget (g_own g) id).
Proof. exact getters_refine_tables. Qed.
Print Assumptions C11_getters_refine_tables.

(* The executable monitor (the property as a boolean over observed calls, authorisation sets,
   outcomes and getter values) accepts every trace of the model, whatever is queried; it is what is
   run on the implementation's traces. *)
Theorem C11_monitor_accepts_model : forall fl c now0 full (l : list (call * obs)),
  check (model_trace fl c now0 full l) = (0, 0, 0).
Proof. exact c11_check_accepts_model. Qed.
Print Assumptions C11_monitor_accepts_model.

(* the monitor is not vacuous: it rejects a transfer_from by a stranger that succeeds, a stale
   approval still reported after a transfer, and an operator acting on somebody else's token *)
Example C11_monitor_rejects_bad_traces :
  let ob own ap op := mkObs 1 [(0, own)] [] [(0, ap)] op 0 [] [] in
  let hdr := mkTrace FBase (Build_cfg (Build_hostcfg 1 1000) 3200 32000) 10 true in
  (* stranger 2 moves token 0 of owner 0 *)
  monitor (hdr [(MintSeq 0, Ok (Some 0), ob (Some 0) None []);
                (TransferFrom [2] 2 0 2 0, Ok None, ob (Some 2) None [])]) = 2 /\
  (* approval for 3 given by the previous owner still reported after the transfer *)
  monitor (hdr [(MintSeq 0, Ok (Some 0), ob (Some 0) None []);
                (Approve [0] 0 3 0 50%Z, Ok None, ob (Some 0) (Some 3) []);
                (Transfer [0] 0 1 0, Ok None, ob (Some 1) (Some 3) [])]) = 3 /\
  (* ... and an honest trace with the same calls passes *)
  monitor (hdr [(MintSeq 0, Ok (Some 0), ob (Some 0) None []);
                (Approve [0] 0 3 0 50%Z, Ok None, ob (Some 0) (Some 3) []);
                (Transfer [0] 0 1 0, Ok None, ob (Some 1) None [])]) = 0 /\
  (* approval used one ledger after its live_until *)
  monitor (hdr [(MintSeq 0, Ok (Some 0), ob (Some 0) None []);
                (Approve [0] 0 3 0 12%Z, Ok None, ob (Some 0) (Some 3) []);
                (Advance 3, Ok None, ob (Some 0) None []);
                (TransferFrom [3] 3 0 3 0, Ok None, ob (Some 3) None [])]) = 4 /\
  (* operator of account 1 moves a token of account 0 *)
  monitor (hdr [(MintSeq 0, Ok (Some 0), ob (Some 0) None []);
                (ApproveForAll [1] 1 2 50%Z, Ok None, ob (Some 0) None [((1, 2), true)]);
                (TransferFrom [2] 2 0 2 0, Ok None, ob (Some 2) None [((1, 2), true)])]) = 3 /\
  (* an approval given until ledger 5 000 000 is no longer reported after a long gap although it is
     neither expired nor revoked nor cleared by a move (a lapsed storage entry) *)
  monitor (hdr [(MintSeq 0, Ok (Some 0), ob (Some 0) None []);
                (Approve [0] 0 3 0 5000000%Z, Ok None, ob (Some 0) (Some 3) []);
                (Advance 600000, Ok None, ob (Some 0) None [])]) = 3 /\
  (* the same for an operator *)
  monitor (hdr [(MintSeq 0, Ok (Some 0), ob (Some 0) None []);
                (ApproveForAll [0] 0 2 5000000%Z, Ok None, ob (Some 0) None [((0, 2), true)]);
                (Advance 600000, Ok None, ob (Some 0) None [((0, 2), false)])]) = 3 /\
  (* the right account but its authorisation is not attached to the call *)
  monitor (hdr [(MintSeq 0, Ok (Some 0), ob (Some 0) None []);
                (Burn [1] 0 0, Ok None, ob None None [])]) = 2.
Proof. vm_compute. repeat split. Qed.

(* non-vacuity of the history theorems: a reachable state in which an approval is reported *)
Example C11_reachable_approval :
  let c := Build_cfg (Build_hostcfg 1 1000) 3200 32000 in
  let cs := [BatchMint 0 5; Approve [0] 0 3 2 50%Z; Transfer [0] 0 1 4; Advance 7] in
  get_approved (run FCons c (init 10) cs) 2 = Some 3 /\
  get_approved (run FCons c (init 10) (cs ++ [TransferFrom [3] 3 0 3 2])) 2 = None /\
  owner_of FCons c (run FCons c (init 10) (cs ++ [TransferFrom [3] 3 0 3 2])) 2 = Some 3 /\
  owner_of FCons c (run FCons c (init 10) (cs ++ [TransferFrom [3] 3 0 3 2])) 1 = Some 0.
Proof. vm_compute. repeat split. Qed.
