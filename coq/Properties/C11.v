(* C11 - An NFT moves only by its owner, its approved account or a live operator.
   Only pinned statements; each closed by [exact] of a lemma proved in Proofs/.

   Model: coq/Model/Nft.v ([exec fl c s call] = one contract call on flavour fl in state s;
   [run fl c s calls] = the state after a call sequence; a call carries the set [auths] of
   addresses that authorise it; [Advance n] moves the ledger).  The getters are the model's
   [owner_of], [get_approved], [is_approved_for_all] - the same functions whose values the
   correspondence run compares with the real contracts after every call. *)
From SC Require Import Lib.Prelude Lib.Int Lib.Host Model.Nft Run.NftCommon Proofs.NftMaps Proofs.NftFrame
  Proofs.NftInv Proofs.NftCons Proofs.NftOwn Proofs.NftSim Proofs.NftScope Proofs.C11Final Proofs.C11Special Run.C11 Proofs.C11Monitor.
Local Open Scope N_scope.

(* In EVERY state (not only reachable ones), for the three flavours: a transfer or burn that
   succeeds was authorised by an account x that is the token's current owner, its currently
   approved account, or an operator the current owner approved for all - and `from` is the owner. *)
Theorem C11_move_authority : forall fl c s cl s' r, exec fl c s cl = Ok (s', r) ->
  let entitled (auths : list addr) (x from : addr) (id : N) :=
    In x auths /\ owner_of fl c s id = Some from /\
    (x = from \/ get_approved s id = Some x \/ is_approved_for_all s from x = true) in
  match cl with
  | Transfer auths from _ id | Burn auths from id => entitled auths from from id
  | TransferFrom auths spender from _ id | BurnFrom auths spender from id => entitled auths spender from id
  | _ => True
  end.
Proof. exact move_authority. Qed.
Print Assumptions C11_move_authority.

(* an approval (also a revoke) is set only by the owner or an operator of the owner, who authorised the call *)
Theorem C11_approve_authority : forall fl c s auths approver approved id lu s' r,
  exec fl c s (Approve auths approver approved id lu) = Ok (s', r) ->
  In approver auths /\
  exists o, owner_of fl c s id = Some o /\ (approver = o \/ is_approved_for_all s o approver = true).
Proof. exact approve_authority. Qed.
Print Assumptions C11_approve_authority.

Theorem C11_approve_for_all_authority : forall fl c s auths o op lu s' r,
  exec fl c s (ApproveForAll auths o op lu) = Ok (s', r) -> In o auths.
Proof. exact approve_for_all_authority. Qed.
Print Assumptions C11_approve_for_all_authority.

(* NOBODY IS EXEMPT.  Whatever address a call names as the party that has to authorise it (the `from` of
   transfer / burn, the spender of transfer_from / burn_from, the approver, the appointing owner) - be it the
   token contract's own address, another contract, a classic account, the current owner of the token - the call
   fails in EVERY state unless that very address is in the call's authorisation set; a call nobody authorised
   changes nothing.  (Tokens held by the contract itself do not move on an unsigned call.) *)
Theorem C11_nobody_is_exempt : forall fl c s cl x,
  match cl with
  | Transfer _ from _ _ | Burn _ from _ => Some from
  | TransferFrom _ spender _ _ _ | BurnFrom _ spender _ _ => Some spender
  | Approve _ approver _ _ _ => Some approver
  | ApproveForAll _ o _ _ => Some o
  | Advance _ | MintSeq _ | MintId _ _ | BatchMint _ _ => None
  end = Some x ->
  ~ In x match cl with
         | Transfer a _ _ _ | TransferFrom a _ _ _ _ | Burn a _ _ | BurnFrom a _ _ _ | Approve a _ _ _ _
         | ApproveForAll a _ _ _ => a
         | Advance _ | MintSeq _ | MintId _ _ | BatchMint _ _ => []
         end ->
  exec fl c s cl = Fail.
Proof. exact signer_must_sign. Qed.
Print Assumptions C11_nobody_is_exempt.
Theorem C11_unsigned_call_changes_nothing : forall fl c s cl,
  signer cl <> None -> auths_of cl = [] -> step fl c s cl = (s, Fail).
Proof. exact unsigned_call_fails. Qed.
Print Assumptions C11_unsigned_call_changes_nothing.

(* any successful transfer or burn clears the token's individual approval (all flavours; for the
   consecutive one this is the clearing through NFTConsecutiveStorageKey::Approval) *)
Theorem C11_cleared_on_move : forall fl c s cl s' r, exec fl c s cl = Ok (s', r) ->
  match cl with
  | Transfer _ _ _ id | TransferFrom _ _ _ _ id | Burn _ _ id | BurnFrom _ _ _ id => get_approved s' id = None
  | _ => True
  end.
Proof. exact cleared_on_move. Qed.
Print Assumptions C11_cleared_on_move.

(* Histories.  If after ANY call sequence from the empty contract get_approved id reports x, then
   the sequence contains a successful call Approve(approver, x, id, lu) with lu <> 0 that is not yet
   expired at the final ledger (now <= lu, wherever the Advance calls are), and after it no transfer,
   transfer_from, burn, burn_from or approve of that token succeeded: approvals of a previous owner,
   expired or revoked ones, and ones cleared by a move are never reported - nor honoured
   (C11_move_authority consults exactly this getter). *)
Theorem C11_no_carry_over : forall fl c now0 cs id x,
  get_approved (run fl c (init now0) cs) id = Some x ->
  exists cs1 auths approver lu cs2,
    cs = cs1 ++ Approve auths approver x id lu :: cs2 /\ lu <> 0%Z /\
    (now (run fl c (init now0) cs) <= lu)%Z /\
    is_ok (snd (step fl c (run fl c (init now0) cs1) (Approve auths approver x id lu))) = true /\
    forallb (fun co : call * outcome =>
               negb match snd co with
                    | Fail => false
                    | Ok _ =>
                        match fst co with
                        | Transfer _ _ _ i | TransferFrom _ _ _ _ i | Burn _ _ i | BurnFrom _ _ _ i
                        | Approve _ _ _ i _ => i =? id
                        | _ => false
                        end
                    end)
      (outcomes fl c (run fl c (init now0) (cs1 ++ [Approve auths approver x id lu])) cs2) = true.
Proof. exact no_carry_over. Qed.
Print Assumptions C11_no_carry_over.

(* Combined form.  [writes id (call, outcome)] = the call succeeded and (re)assigned token id: a
   transfer / transfer_from / burn / burn_from / explicit mint of id, a sequential mint returning id,
   or a batch mint whose range contains id (Proofs/C11Final.v).  The reported approval was given by an
   approver who authorised the call and who was, at that moment, the owner o of the token or a live
   operator of o; and o is still the owner now, provided no mint re-assigned the id since (minting an
   existing id is outside the property's quantifier; moves are excluded by the theorem itself). *)
Theorem C11_approval_by_current_owner_side : forall fl c now0 cs id x,
  get_approved (run fl c (init now0) cs) id = Some x ->
  exists cs1 auths approver lu cs2,
    cs = cs1 ++ Approve auths approver x id lu :: cs2 /\ lu <> 0%Z /\
    (now (run fl c (init now0) cs) <= lu)%Z /\
    let s1 := run fl c (init now0) cs1 in
    let s2 := run fl c (init now0) (cs1 ++ [Approve auths approver x id lu]) in
    In approver auths /\
    (exists o, owner_of fl c s1 id = Some o /\ (approver = o \/ is_approved_for_all s1 o approver = true) /\
       (forallb (fun co => negb (writes id co)) (outcomes fl c s2 cs2) = true ->
        owner_of fl c (run fl c (init now0) cs) id = Some o)) /\
    untouched id (outcomes fl c s2 cs2) = true.
Proof. exact approval_by_current_owner_side. Qed.
Print Assumptions C11_approval_by_current_owner_side.

(* The same for operators: is_approved_for_all o op = true only if o itself authorised a successful
   approve_for_all(o, op, lu) with now <= lu that no later successful approve_for_all(o, op, _)
   (in particular no revoke) replaced. *)
Theorem C11_operator_history : forall fl c now0 cs o op,
  is_approved_for_all (run fl c (init now0) cs) o op = true ->
  exists cs1 auths lu cs2,
    cs = cs1 ++ ApproveForAll auths o op lu :: cs2 /\ lu <> 0%Z /\
    (now (run fl c (init now0) cs) <= lu)%Z /\ In o auths /\
    is_ok (snd (step fl c (run fl c (init now0) cs1) (ApproveForAll auths o op lu))) = true /\
    forallb (fun co : call * outcome =>
               negb match snd co with
                    | Fail => false
                    | Ok _ => match fst co with ApproveForAll _ o' op' _ => (o' =? o) && (op' =? op) | _ => false end
                    end)
      (outcomes fl c (run fl c (init now0) (cs1 ++ [ApproveForAll auths o op lu])) cs2) = true.
Proof. exact operator_history. Qed.
Print Assumptions C11_operator_history.

(* approve_for_all(o, op) concerns only the pair (o, op): no other operator relation, no owner,
   no individual approval and no balance changes *)
Theorem C11_operator_scope : forall fl c s auths o op lu s' r,
  exec fl c s (ApproveForAll auths o op lu) = Ok (s', r) ->
  (forall o' op', (o', op') <> (o, op) -> is_approved_for_all s' o' op' = is_approved_for_all s o' op') /\
  (forall id, owner_of fl c s' id = owner_of fl c s id) /\
  (forall id, get_approved s' id = get_approved s id) /\
  (forall a, balance s' a = balance s a).
Proof. exact operator_scope. Qed.
Print Assumptions C11_operator_scope.

(* revoke = live_until 0 *)
Theorem C11_revoke_approval : forall fl c s auths approver approved id s' r,
  exec fl c s (Approve auths approver approved id 0%Z) = Ok (s', r) -> get_approved s' id = None.
Proof. exact revoke_approval. Qed.
Print Assumptions C11_revoke_approval.
Theorem C11_revoke_operator : forall fl c s auths o op s' r,
  exec fl c s (ApproveForAll auths o op 0%Z) = Ok (s', r) -> is_approved_for_all s' o op = false.
Proof. exact revoke_operator. Qed.
Print Assumptions C11_revoke_operator.

(* The getters equal the plain reference tables replayed from the successful calls (the tables the
   monitor keeps), after every call sequence, for every flavour: in particular the host's TTL of the
   temporary entries never cuts an approval short of its live_until_ledger nor prolongs it. *)
Theorem C11_getters_refine_tables : forall fl c now0 cs,
  let s := run fl c (init now0) cs in
  let g := snd (run_sg fl c (init now0) (ghost0 now0) cs) in
  (forall id, get_approved s id = live_appr g id) /\
  (forall o op, is_approved_for_all s o op = live_oper g o op) /\
  (forall id, owner_of fl c s id = rget (g_own g) id).
Proof. exact getters_refine_tables. Qed.
Print Assumptions C11_getters_refine_tables.

(* Ownership changes in no other way: over any stretch of calls in which no transfer / burn / mint of token
   id succeeded (see [writes] above), owner_of id is unchanged - all flavours (for the consecutive one this
   includes the moves of the NEIGHBOURING token, which rewrite the marker of id). *)
Theorem C11_owner_changes_only_by_move_or_mint : forall fl c now0 cs1 cs2 id,
  forallb (fun co => negb (writes id co)) (outcomes fl c (run fl c (init now0) cs1) cs2) = true ->
  owner_of fl c (run fl c (init now0) (cs1 ++ cs2)) id = owner_of fl c (run fl c (init now0) cs1) id.
Proof. exact owner_changes_only_by_move_or_mint. Qed.
Print Assumptions C11_owner_changes_only_by_move_or_mint.

(* The executable monitor (the property as a boolean over observed calls, authorisation sets, outcomes and
   getter values) accepts every trace of the model whose QUERIES are well formed ([wf_run]: exactly the shape
   test the monitor applies itself - owner_of / get_approved asked for the same strictly increasing ids
   covering 0 .. next_id+2, all individually assigned ids and the ids the call names; is_approved_for_all
   asked for every pair ever appointed).  No freshness hypothesis: when the run leaves the quantifier (a mint
   onto a live id) the monitor stops judging.  It is what is run on the implementation's traces. *)
Theorem C11_monitor_accepts_model : forall fl c now0 full (l : list (call * obs)),
  wf_run fl c (init now0) (ghost0 now0) l = true ->
  check (model_trace fl c now0 full l) = (0, 0, 0).
Proof. exact c11_check_accepts_model. Qed.
Print Assumptions C11_monitor_accepts_model.

(* ---------- Examples ---------- *)
Definition c0 := Build_cfg (Build_hostcfg 1 1000) 3200 32000.
Fixpoint nseq (lo : N) (n : nat) : list N := match n with O => [] | S k => lo :: nseq (lo + 1) k end.
Definition idx {A} (l : list A) : list (N * A) := combine (nseq 0 (length l)) l.
(* one sequentially minted token 0: ids 0..3 queried *)
Definition ob1 (own ap : option addr) (op : list ((addr * addr) * bool)) : obs :=
  mkObs 1 (idx [own; None; None; None]) [] (idx [ap; None; None; None]) op 0 [] [].
Definition hdr := mkTrace FBase c0 10 true.
(* query shapes for model traces *)
Definition q (ids : list N) (pairs : list (addr * addr)) : obs :=
  mkObs 0 (map (fun i => (i, None)) ids) [] (map (fun i => (i, None)) ids) (map (fun k => (k, false)) pairs) 0 [] [].

(* the hypothesis of C11_monitor_accepts_model holds on real query shapes *)
Example C11_wf_satisfiable :
  wf_run FCons c0 (init 10) (ghost0 10)
    [(BatchMint 0 3, q [0;1;2;3;4;5] []); (ApproveForAll [0] 0 2 50%Z, q [0;1;2;3;4;5] [(0, 2)]);
     (Approve [2] 2 3 1 40%Z, q [0;1;2;3;4;5] [(0, 2)]); (TransferFrom [3] 3 0 1 1, q [0;1;2;3;4;5] [(0, 2)])] = true /\
  wf_run FBase c0 (init 10) (ghost0 10)
    [(MintId 0 1000, q [0;1;2;1000] []); (Approve [0] 0 1 1000 40%Z, q [0;1;2;1000] [])] = true.
Proof. vm_compute. repeat split. Qed.

(* the monitor is not vacuous: it rejects a transfer_from by a stranger that succeeds, a stale approval still
   reported after a transfer, an approval used after its live_until, an operator acting on somebody else's
   token, approvals / operators lost before their live_until, a move without the actor's authorisation *)
Example C11_monitor_rejects_bad_traces :
  monitor (hdr [(MintSeq 0, Ok (Some 0), ob1 (Some 0) None []);
                (TransferFrom [2] 2 0 2 0, Ok None, ob1 (Some 2) None [])]) = 2 /\
  monitor (hdr [(MintSeq 0, Ok (Some 0), ob1 (Some 0) None []);
                (Approve [0] 0 3 0 50%Z, Ok None, ob1 (Some 0) (Some 3) []);
                (Transfer [0] 0 1 0, Ok None, ob1 (Some 1) (Some 3) [])]) = 3 /\
  monitor (hdr [(MintSeq 0, Ok (Some 0), ob1 (Some 0) None []);
                (Approve [0] 0 3 0 50%Z, Ok None, ob1 (Some 0) (Some 3) []);
                (Transfer [0] 0 1 0, Ok None, ob1 (Some 1) None [])]) = 0 /\
  monitor (hdr [(MintSeq 0, Ok (Some 0), ob1 (Some 0) None []);
                (Approve [0] 0 3 0 12%Z, Ok None, ob1 (Some 0) (Some 3) []);
                (Advance 3, Ok None, ob1 (Some 0) None []);
                (TransferFrom [3] 3 0 3 0, Ok None, ob1 (Some 3) None [])]) = 4 /\
  monitor (hdr [(MintSeq 0, Ok (Some 0), ob1 (Some 0) None []);
                (ApproveForAll [1] 1 2 50%Z, Ok None, ob1 (Some 0) None [((1, 2), true)]);
                (TransferFrom [2] 2 0 2 0, Ok None, ob1 (Some 2) None [((1, 2), true)])]) = 3 /\
  monitor (hdr [(MintSeq 0, Ok (Some 0), ob1 (Some 0) None []);
                (Approve [0] 0 3 0 5000000%Z, Ok None, ob1 (Some 0) (Some 3) []);
                (Advance 600000, Ok None, ob1 (Some 0) None [])]) = 3 /\
  monitor (hdr [(MintSeq 0, Ok (Some 0), ob1 (Some 0) None []);
                (ApproveForAll [0] 0 2 5000000%Z, Ok None, ob1 (Some 0) None [((0, 2), true)]);
                (Advance 600000, Ok None, ob1 (Some 0) None [((0, 2), false)])]) = 3 /\
  monitor (hdr [(MintSeq 0, Ok (Some 0), ob1 (Some 0) None []);
                (Burn [1] 0 0, Ok None, ob1 None None [])]) = 2.
Proof. vm_compute. repeat split. Qed.

(* the monitor stands on its own (review traces): a sequential mint re-issuing a live id (T2) and an Advance
   reported as failed (T5, would freeze the reference clock) are rejected; nothing observed (T4), approvals
   not asked for the ids owner_of is asked for, an appointed pair not asked, a call returning a value are
   rejected as malformed *)
Example C11_monitor_rejects_malformed_traces :
  monitor (hdr [(MintSeq 0, Ok (Some 0), ob1 (Some 0) None []);
                (Approve [0] 0 3 0 50%Z, Ok None, ob1 (Some 0) (Some 3) []);
                (MintSeq 1, Ok (Some 0), ob1 (Some 1) (Some 3) [])]) = 3 /\
  monitor (hdr [(MintSeq 0, Ok (Some 0), ob1 (Some 0) None []);
                (Approve [0] 0 3 0 12%Z, Ok None, ob1 (Some 0) (Some 3) []);
                (Advance 100, Fail, ob1 (Some 0) (Some 3) []);
                (TransferFrom [3] 3 0 3 0, Ok None, ob1 (Some 3) None [])]) = 3 /\
  monitor (hdr [(MintSeq 0, Ok (Some 0), mkObs 1 [] [] [] [] 0 [] [])]) = 1 /\
  monitor (hdr [(MintSeq 0, Ok (Some 0), mkObs 1 (idx [Some 0; None; None; None]) [] [] [] 0 [] [])]) = 1 /\
  monitor (hdr [(MintSeq 0, Ok (Some 0), ob1 (Some 0) None []);
                (ApproveForAll [0] 0 2 50%Z, Ok None, ob1 (Some 0) None [])]) = 2 /\
  monitor (hdr [(MintSeq 0, Ok (Some 0), ob1 (Some 0) None []);
                (Approve [0] 0 3 0 50%Z, Ok (Some 7), ob1 (Some 0) (Some 3) [])]) = 2 /\
  monitor (mkTrace FCons c0 10 true
    [(BatchMint 0 3, Ok (Some 2), mkObs 3 (idx [Some 0; Some 0; Some 0; None; None; None]) [] (idx [@None addr; None; None; None; None; None]) [] 0 [] []);
     (BatchMint 1 3, Ok (Some 2), mkObs 3 (idx [Some 1; Some 1; Some 1; None; None; None]) [] (idx [@None addr; None; None; None; None; None]) [] 0 [] [])]) = 2.
Proof. vm_compute. repeat split. Qed.

(* special members of the address universe (7 = the token contract's own address, say): the model refuses the
   unsigned transfer / burn / approval of a token the contract itself holds, and the monitor rejects a trace in
   which such a call succeeded - also when the recipient, or everybody but the holder, signed *)
Example C11_contract_held_token_needs_the_contract_to_sign :
  let s := run FBase c0 (init 10) [MintSeq 7] in
  owner_of FBase c0 s 0 = Some 7 /\
  (map (fun cl => is_ok (snd (step FBase c0 s cl)))
      [Transfer [] 7 2 0; Transfer [2] 7 2 0; TransferFrom [] 7 7 2 0; TransferFrom [2] 2 7 2 0; Burn [] 7 0;
       BurnFrom [1; 2] 2 7 0; Approve [] 7 2 0 40%Z; ApproveForAll [2] 7 2 40%Z; Transfer [7] 7 2 0])
  = [false; false; false; false; false; false; false; false; true] /\
  monitor (hdr [(MintSeq 7, Ok (Some 0), ob1 (Some 7) None []);
                (Transfer [] 7 2 0, Ok None, ob1 (Some 2) None [])]) = 2 /\
  monitor (hdr [(MintSeq 7, Ok (Some 0), ob1 (Some 7) None []);
                (Transfer [1; 2] 7 2 0, Ok None, ob1 (Some 2) None [])]) = 2 /\
  monitor (hdr [(MintSeq 7, Ok (Some 0), ob1 (Some 7) None []);
                (Approve [] 7 2 0 40%Z, Ok None, ob1 (Some 7) (Some 2) [])]) = 2 /\
  monitor (hdr [(MintSeq 7, Ok (Some 0), ob1 (Some 7) None []);
                (ApproveForAll [] 7 2 40%Z, Ok None, ob1 (Some 7) None [((7, 2), true)])]) = 2 /\
  monitor (hdr [(MintSeq 7, Ok (Some 0), ob1 (Some 7) None []);
                (Transfer [] 7 2 0, Fail, ob1 (Some 7) None [])]) = 0.
Proof. vm_compute. repeat split. Qed.

(* THE BOUNDARY OF THE QUANTIFIER (documented caveat of the library: uniqueness of explicit ids is the
   integrator's responsibility).  Owner 0 approves 3 for the explicitly minted token 1000; the id is minted
   again to account 1 (Base::mint has no existence check and does not touch the approval): the model, like the
   real code, still reports 3 as approved and lets 3 take the token from 1.  The same happens when the
   sequential counter meets a live explicit id.  [fresh_run]-style freshness fails on these histories; the
   strict monitor flags the re-mint, the scoped monitor stops judging there (the trace is compared with the
   implementation by the diff only). *)
Example C11_remint_keeps_stale_approval :
  let cs := [MintId 0 1000; Approve [0] 0 3 1000 50%Z; MintId 1 1000] in
  let s := run FBase c0 (init 10) cs in
  (owner_of FBase c0 s 1000, get_approved s 1000, balance s 0, balance s 1) = (Some 1, Some 3, 1, 1) /\
  is_ok (snd (step FBase c0 s (TransferFrom [3] 3 1 3 1000))) = true /\
  fresh_ok FBase c0 (run FBase c0 (init 10) [MintId 0 1000; Approve [0] 0 3 1000 50%Z]) (MintId 1 1000) = false /\
  let t := model_trace FBase c0 10 true
             [(MintId 0 1000, q [0;1;2;1000] []); (Approve [0] 0 3 1000 50%Z, q [0;1;2;1000] []);
              (MintId 1 1000, q [0;1;2;1000] []); (TransferFrom [3] 3 1 3 1000, q [0;1;2;1000] [])] in
  monitor_strict t = 3 /\ monitor t = 0 /\ diff t = 0 /\
  (* the counter meeting a live explicit id *)
  let s2 := run FBase c0 (init 10) [MintId 0 1; Approve [0] 0 3 1 50%Z; MintSeq 2; MintSeq 2] in
  (owner_of FBase c0 s2 1, get_approved s2 1, is_ok (snd (step FBase c0 s2 (BurnFrom [3] 3 2 1)))) = (Some 2, Some 3, true).
Proof. vm_compute. repeat split. Qed.

(* non-vacuity of the history theorems: reachable states in which an approval given by the owner, an operator,
   and an approval given BY an operator are reported and honoured *)
Example C11_reachable_approval :
  let cs := [BatchMint 0 5; Approve [0] 0 3 2 50%Z; Transfer [0] 0 1 4; Advance 7] in
  get_approved (run FCons c0 (init 10) cs) 2 = Some 3 /\
  get_approved (run FCons c0 (init 10) (cs ++ [TransferFrom [3] 3 0 3 2])) 2 = None /\
  owner_of FCons c0 (run FCons c0 (init 10) (cs ++ [TransferFrom [3] 3 0 3 2])) 2 = Some 3 /\
  owner_of FCons c0 (run FCons c0 (init 10) (cs ++ [TransferFrom [3] 3 0 3 2])) 1 = Some 0 /\
  let cs2 := [MintSeq 0; MintSeq 0; ApproveForAll [0] 0 2 60%Z; Approve [2] 2 4 1 40%Z; Advance 5] in
  let s2 := run FEnum c0 (init 10) cs2 in
  (is_approved_for_all s2 0 2, get_approved s2 1, is_approved_for_all s2 2 0) = (true, Some 4, false) /\
  is_ok (snd (step FEnum c0 s2 (TransferFrom [4] 4 0 4 1))) = true /\
  is_ok (snd (step FEnum c0 s2 (BurnFrom [2] 2 0 0))) = true /\
  is_ok (snd (step FEnum c0 (run FEnum c0 s2 [Advance 46]) (BurnFrom [2] 2 0 0))) = false.
Proof. vm_compute. repeat split. Qed.
