(* C07 - Admin and ownership change hands only through a live two-step handshake.

   Only pinned statements.  Model: Model/RoleTransfer.v (role_transfer/storage.rs as used by
   ownable/storage.rs [kind Own] and access_control/storage.rs [kind AC], with the host's
   temporary-storage semantics of Lib/Host.v).  A history is the list of executed calls, each
   with the ledger and the holder before it, the authorisation set, the outcome and the
   holder after it:
     history k c (init start h0) calls : list event
   Vocabulary (Proofs/RoleTransfer.v):
     offer_ok e  = e is a successful transfer_ownership/transfer_admin_role with live_until <> 0
     cancel_ok e = ... with live_until = 0;   accept_ok e = a successful accept
     no_oca h    = no successful offer, cancel or accept in h;   no_ca h = no successful cancel or accept
     signed_by (Some h) auths = h is in the authorisation set;   signed_by None _ = false
     eff c e     = max live_until (ledger of the offer + min_temp_entry_ttl - 1)            *)
From SC Require Import Lib.Prelude Lib.Int Lib.Host Model.RoleTransfer Proofs.RoleTransfer Run.C07 Proofs.C07Monitor Proofs.C07Special.

(* ---- the faithful model does NOT satisfy the property in full: known finding F2 ---- *)
(* offer to 1 until 1000; offer to 2 until 110 (written over the first, in place); ledger 500;
   account 2 accepts - and is the holder.  Same history as the corpus trace run on the code. *)
Theorem C07_refuted : forall k,
  let s := run k {| min_temp_ttl := 1; max_ttl := 5000 |} (init 100 (Some 0%N))
             [Offer 1%N 1000 [0%N]; Offer 2%N 110 [0%N]; Advance 400%N; Accept [2%N]] in
  holder (rts s) = Some 2%N /\ now s = 500.
Proof. exact f2_witness. Qed.
Print Assumptions C07_refuted.

(* why: the lifetime of the pending entry after an offer is the LATER of the requested
   live_until and the lifetime of the still-live entry it overwrites *)
Theorem C07_offer_keeps_longer_lifetime : forall c now p new lu,
  1 <= min_temp_ttl c -> lu <> 0 ->
  transfer_role c now p new lu =
    if (now <=? lu) && (lu <=? now + max_ttl c - 1) then
      Ok (Some {| tval := new;
                  tlive := match tlive_at now p with
                           | Some e => Z.max (tlive e) lu
                           | None => Z.max lu (now + min_temp_ttl c - 1)
                           end |})
    else Fail.
Proof. exact transfer_role_offer. Qed.
Print Assumptions C07_offer_keeps_longer_lifetime.

(* ---- the property, except for the known class ---- *)
(* For EVERY history (min_temp_entry_ttl = 1, as C07 prescribes): a successful accept at ledger n
   implies that the latest successful offer [off] - not cancelled, not replaced, not accepted
   since (no_oca g2) - was made by the then-holder with its authorisation, names the acceptor,
   the acceptor authorised the call and is the holder afterwards, and
     EITHER n <= live_until of that offer
     OR (known finding F2) an EARLIER successful offer off', not cancelled or accepted since
        (only replaced), has n <= its live_until': the accepted offer overwrote in place a
        longer-lived one that is still within its lifetime. *)
Theorem C07_except_known : forall k c start h0 cs h1 e h2 auths,
  min_temp_ttl c = 1 ->
  history k c (init start h0) cs = h1 ++ e :: h2 ->
  ev_call e = Accept auths -> is_ok (ev_out e) = true ->
  exists g1 off g2 new lu au,
    h1 = g1 ++ off :: g2 /\ ev_call off = Offer new lu au /\ offer_ok off = true /\
    no_oca g2 /\
    (exists h, ev_holder off = Some h /\ has_auth au h = true) /\
    has_auth auths new = true /\ ev_after e = Some new /\
    (ev_now e <= lu \/
     exists q1 off' q2 new' lu' au', g1 = q1 ++ off' :: q2 /\ ev_call off' = Offer new' lu' au' /\
       offer_ok off' = true /\ no_ca q2 /\ ev_now off' <= ev_now off /\ ev_now e <= lu').
Proof. exact except_known_min1. Qed.
Print Assumptions C07_except_known.

(* the same for any min_temp_entry_ttl >= 1, with the effective lifetime eff *)
Theorem C07_except_known_any_min_ttl : forall k c start h0 cs h1 e h2 auths,
  1 <= min_temp_ttl c ->
  history k c (init start h0) cs = h1 ++ e :: h2 ->
  ev_call e = Accept auths -> is_ok (ev_out e) = true ->
  exists g1 off g2 new lu au,
    h1 = g1 ++ off :: g2 /\ ev_call off = Offer new lu au /\ offer_ok off = true /\
    no_oca g2 /\
    holder_signed off au = true /\
    has_auth auths new = true /\ ev_after e = Some new /\
    (ev_now e <= eff c off \/
     exists q1 off' q2, g1 = q1 ++ off' :: q2 /\ offer_ok off' = true /\ no_ca q2 /\ ev_now e <= eff c off').
Proof. exact except_known. Qed.
Print Assumptions C07_except_known_any_min_ttl.

(* without an overridden live entry, acceptance by the addressee is possible EXACTLY on
   [offer ledger, eff] (eff = live_until for min_temp_entry_ttl = 1) *)
Theorem C07_fresh_offer_exact : forall k c start h0 cs g1 off g2 e h2 new lu au auths,
  1 <= min_temp_ttl c ->
  history k c (init start h0) cs = g1 ++ off :: g2 ++ e :: h2 ->
  ev_call off = Offer new lu au -> offer_ok off = true ->
  (forall q1 off' q2, g1 = q1 ++ off' :: q2 -> offer_ok off' = true -> no_ca q2 -> eff c off' < ev_now off) ->
  no_oca g2 ->
  ev_call e = Accept auths -> has_auth auths new = true ->
  (is_ok (ev_out e) = true <-> ev_now e <= eff c off).
Proof. exact fresh_offer_exact. Qed.
Print Assumptions C07_fresh_offer_exact.

(* a replaced offer can never be accepted: whoever accepts successfully is the (authorising) addressee of
   the LATEST successful offer *)
Theorem C07_replaced_offer_dead : forall k c start h0 cs g1 off g2 e h2 new lu au auths,
  1 <= min_temp_ttl c ->
  history k c (init start h0) cs = g1 ++ off :: g2 ++ e :: h2 ->
  ev_call off = Offer new lu au -> offer_ok off = true -> no_oca g2 ->
  ev_call e = Accept auths -> is_ok (ev_out e) = true ->
  has_auth auths new = true /\ ev_after e = Some new.
Proof. exact replaced_offer_dead. Qed.
Print Assumptions C07_replaced_offer_dead.

(* an accepted offer cannot be accepted again; a cancelled offer can never be accepted:
   after a successful accept / cancel [x], a later successful accept needs a NEW successful offer *)
Theorem C07_accept_once : forall k c start h0 cs a x b e h2 auths,
  1 <= min_temp_ttl c ->
  history k c (init start h0) cs = a ++ x :: b ++ e :: h2 ->
  accept_ok x = true ->
  ev_call e = Accept auths -> is_ok (ev_out e) = true ->
  exists b1 off b2, b = b1 ++ off :: b2 /\ offer_ok off = true.
Proof. exact accept_once. Qed.
Print Assumptions C07_accept_once.

Theorem C07_cancel_kills : forall k c start h0 cs a x b e h2 auths,
  1 <= min_temp_ttl c ->
  history k c (init start h0) cs = a ++ x :: b ++ e :: h2 ->
  cancel_ok x = true ->
  ev_call e = Accept auths -> is_ok (ev_out e) = true ->
  exists b1 off b2, b = b1 ++ off :: b2 /\ offer_ok off = true.
Proof. exact cancel_kills. Qed.
Print Assumptions C07_cancel_kills.

(* only the current holder, with its own authorisation, offers or cancels *)
Theorem C07_only_holder_offers : forall k c s cs e new lu au,
  1 <= min_temp_ttl c ->
  In e (history k c s cs) -> ev_call e = Offer new lu au -> is_ok (ev_out e) = true ->
  exists h, ev_holder e = Some h /\ has_auth au h = true.
Proof. exact only_holder_offers. Qed.
Print Assumptions C07_only_holder_offers.

(* until acceptance the current holder keeps full control: the holder changes only by a
   successful accept or renounce; the restricted entry point and a new offer succeed exactly
   with the current holder's authorisation, whatever is pending *)
Theorem C07_holder_keeps_control : forall k c s cs e, 1 <= min_temp_ttl c ->
  In e (history k c s cs) ->
  (accept_ok e = false -> renounce_ok e = false -> ev_after e = ev_holder e) /\
  (forall au, ev_call e = Guarded au -> is_ok (ev_out e) = signed_by (ev_holder e) au) /\
  (forall new lu au, ev_call e = Offer new lu au -> lu <> 0 ->
     is_ok (ev_out e) = signed_by (ev_holder e) au && ((ev_now e <=? lu) && (lu <=? ev_now e + max_ttl c - 1))) /\
  (forall new lu au, ev_call e = Offer new lu au -> is_ok (ev_out e) = true -> signed_by (ev_holder e) au = true) /\
  (forall au, ev_call e = Renounce au -> is_ok (ev_out e) = true -> signed_by (ev_holder e) au = true /\ ev_after e = None) /\
  (forall au, ev_call e = Accept au -> is_ok (ev_out e) = true -> exists a, ev_after e = Some a /\ has_auth au a = true).
Proof. exact holder_keeps_control. Qed.
Print Assumptions C07_holder_keeps_control.

(* the current admin/owner whose offer is accepted is still the holder at that moment
   (it kept control throughout; in particular it could not renounce while the offer was stored) *)
Theorem C07_offerer_still_holder : forall k c start h0 cs g1 off g2 e h2 auths,
  1 <= min_temp_ttl c ->
  history k c (init start h0) cs = g1 ++ off :: g2 ++ e :: h2 ->
  offer_ok off = true -> no_oca g2 ->
  ev_call e = Accept auths -> is_ok (ev_out e) = true ->
  ev_holder e = ev_holder off /\ ev_holder off <> None.
Proof. exact offerer_still_holder. Qed.
Print Assumptions C07_offerer_still_holder.

(* between two consecutive calls nothing happens to the holder, and the ledger only moves forward *)
Theorem C07_history_chain : forall k c s cs h1 e1 e2 h2,
  history k c s cs = h1 ++ e1 :: e2 :: h2 ->
  ev_holder e2 = ev_after e1 /\ ev_now e1 <= ev_now e2.
Proof. exact history_chain. Qed.
Print Assumptions C07_history_chain.

(* renouncing is refused while the latest offer is live *)
Theorem C07_renounce_refused_while_pending : forall k c start h0 cs h1 e h2 au g1 off g2 new lu au',
  1 <= min_temp_ttl c ->
  history k c (init start h0) cs = h1 ++ e :: h2 ->
  ev_call e = Renounce au -> is_ok (ev_out e) = true ->
  h1 = g1 ++ off :: g2 -> offer_ok off = true -> no_oca g2 -> ev_call off = Offer new lu au' ->
  lu < ev_now e.
Proof. exact renounce_refused_while_pending. Qed.
Print Assumptions C07_renounce_refused_while_pending.

(* once there is no holder (renounced), there never is one again and nothing restricted succeeds *)
Theorem C07_renounced_is_final : forall k c start h0 cs h1 e h2,
  history k c (init start h0) cs = h1 ++ e :: h2 ->
  ev_after e = None ->
  Forall (fun e' => ev_holder e' = None /\ ev_after e' = None /\
                    (is_ok (ev_out e') = true -> exists n, ev_call e' = Advance n)) h2.
Proof. exact renounced_is_final. Qed.
Print Assumptions C07_renounced_is_final.

(* ---- special parties: an address for which NO call carries an authorisation (in the host: the contract
   itself - it has no __check_auth and cannot re-enter itself; also any account that never signs) ---- *)
(* a holder that authorises none of the calls keeps the role through EVERY history, no offer is ever stored,
   and nothing but ledger advances succeeds: a self-owned contract is callable by nobody, not by anybody *)
Theorem C07_unauthorisable_holder_is_stuck : forall k c start h cs,
  Forall (fun cl => has_auth (match cl with Offer _ _ au => au | Accept au => au | Renounce au => au
                                          | Guarded au => au | Advance _ => [] end) h = false) cs ->
  Forall (fun e => ev_holder e = Some h /\ ev_after e = Some h /\
                   (is_ok (ev_out e) = true -> exists n, ev_call e = Advance n))
         (history k c (init start (Some h)) cs) /\
  holder (rts (run k c (init start (Some h)) cs)) = Some h /\
  pending_view (run k c (init start (Some h)) cs) = None.
Proof. exact silent_holder_stuck. Qed.
Print Assumptions C07_unauthorisable_holder_is_stuck.

(* an address that authorises none of the calls never becomes the holder, from any state and whatever is
   offered to it: an offer to the contract itself can never be accepted *)
Theorem C07_unauthorisable_never_becomes_holder : forall k c cs s a,
  holder (rts s) <> Some a ->
  Forall (fun cl => has_auth (match cl with Offer _ _ au => au | Accept au => au | Renounce au => au
                                          | Guarded au => au | Advance _ => [] end) a = false) cs ->
  Forall (fun e => ev_after e <> Some a) (history k c s cs) /\ holder (rts (run k c s cs)) <> Some a.
Proof. exact silent_never_holder. Qed.
Print Assumptions C07_unauthorisable_never_becomes_holder.

(* ---- the monitor (the property as a boolean over observations) and the model ---- *)
(* verdict of [check]: (first model/implementation disagreement, monitor index, class) where the
   monitor index is the first UNCLASSIFIED failure if there is one (class 0), otherwise the first
   known-finding step (class 1) - the monitor keeps checking after a known-finding step.
   On every run of the model (min_temp_entry_ttl = 1): no disagreement, and no unclassified failure
   anywhere in the run. *)
Theorem C07_monitor_accepts_model : forall hd cs,
  wf_header hd = true ->
  let v := check (observe_model hd cs) in
  fst (fst v) = 0%N /\ ((snd (fst v) = 0%N /\ snd v = 0%N) \/ snd v = 1%N).
Proof. exact check_model. Qed.
Print Assumptions C07_monitor_accepts_model.

(* if no offer is written over a still stored entry that outlives it (a boolean of the run, met
   by every input without a shorter-over-stored offer) the verdict is clean *)
Theorem C07_monitor_accepts_model_no_override : forall hd cs,
  wf_header hd = true ->
  no_shorter_override (h_kind hd) (h_cfg hd) (h_init hd) cs = true ->
  check (observe_model hd cs) = (0%N, 0%N, 0%N).
Proof. exact check_model_no_override. Qed.
Print Assumptions C07_monitor_accepts_model_no_override.

(* class 1 is EXACTLY the shape of known_findings.json, on ANY trace (implementation or model): the
   step is a successful accept by the authorised addressee b of the latest offer itB (until L2),
   an earlier successful offer itA (until L1) was only replaced since (no successful cancel / accept
   in m2), and the accept happens at a ledger n with L2 < n <= L1 *)
Theorem C07_known_class_is_F2_shape : forall hd l q it q',
  mon_run hd (mon_init hd) l = Some q -> mon_step hd q it = MKnown q' ->
  exists au v ob b L2 L1 m1 itA m2 a itB l2,
    it = (Accept au, Ok v, ob) /\ has_auth au b = true /\ fst ob = Some b /\
    l = (m1 ++ itA :: m2) ++ itB :: l2 /\
    offer_item itA a L1 /\ forallb is_no_ca m2 = true /\
    offer_item itB b L2 /\ forallb is_quiet l2 = true /\
    L2 < q_now q <= L1.
Proof. exact known_is_F2_shape. Qed.
Print Assumptions C07_known_class_is_F2_shape.

(* and a class-1 verdict of the monitor points at such a step *)
Theorem C07_verdict_known_points_at_F2 : forall hd l k,
  mon_from hd (mon_init hd) l 0%N 0%N = (k, 1%N) ->
  exists l1 it l2 q1 q', l = l1 ++ it :: l2 /\ k = N.of_nat (length l1 + 1) /\
    mon_run hd (mon_init hd) l1 = Some q1 /\ mon_step hd q1 it = MKnown q'.
Proof. exact verdict_known_points_at_F2. Qed.
Print Assumptions C07_verdict_known_points_at_F2.

(* ---- non-vacuity ---- *)
(* a history in which a cancel, a fresh offer accepted at exactly its live_until, a second
   offer that expires and a successful renounce occur: the hypotheses of the theorems above are met *)
Example C07_nonvacuous :
  map (fun e => (ev_now e, ev_holder e, is_ok (ev_out e), ev_after e)) (history Own ex_cfg (init 100 (Some 0%N)) ex_calls) =
  [(100, Some 0%N, true, Some 0%N); (100, Some 0%N, true, Some 0%N); (100, Some 0%N, true, Some 0%N);
   (100, Some 0%N, true, Some 0%N); (150, Some 0%N, true, Some 2%N); (150, Some 2%N, true, Some 2%N);
   (150, Some 2%N, true, Some 2%N); (150, Some 2%N, true, Some 2%N); (161, Some 2%N, true, None);
   (161, None, false, None)].
Proof. vm_compute. reflexivity. Qed.
(* the known class is inhabited on the model, and recognised as class 1 by the monitor *)
Example C07_model_run_known_class :
  check (observe_model hd0 [Offer 1%N 1000 [0%N]; Offer 2%N 110 [0%N]; Advance 400%N; Accept [2%N]]) = (0%N, 4%N, 1%N).
Proof. vm_compute. reflexivity. Qed.
Example C07_model_run_clean :
  check (observe_model hd0 ex_calls) = (0%N, 0%N, 0%N) /\
  no_shorter_override Own (h_cfg hd0) (h_init hd0) ex_calls = true /\
  (* replaced by a longer offer, an offer after a cancel, by a later holder: no override either *)
  no_shorter_override Own (h_cfg hd0) (h_init hd0)
    [Offer 1%N 110 [0%N]; Offer 2%N 1000 [0%N]; Offer 2%N 0 [0%N]; Offer 1%N 150 [0%N]; Accept [1%N]; Offer 2%N 120 [1%N]] = true /\
  no_shorter_override Own (h_cfg hd0) (h_init hd0) [Offer 1%N 1000 [0%N]; Offer 2%N 110 [0%N]] = false.
Proof. vm_compute. repeat split; reflexivity. Qed.
(* the premises of C07_fresh_offer_exact / C07_accept_once / C07_cancel_kills / C07_replaced_offer_dead are met:
   an expired earlier offer before a fresh one (non-empty g1), re-offers after an accept and after a cancel *)
Example C07_premises_met :
  let h := history AC ex_cfg (init 100 (Some 0%N))
             [Offer 1%N 110 [0%N]; Advance 11%N; Offer 2%N 120 [0%N]; Advance 9%N; Accept [2%N];
              Offer 3%N 0 [2%N]; Offer 3%N 130 [2%N]; Offer 3%N 0 [2%N]; Offer 1%N 140 [2%N]; Accept [3%N]; Accept [1%N]] in
  map (fun e => (offer_ok e, cancel_ok e, accept_ok e, ev_now e)) h =
  [(true, false, false, 100); (false, false, false, 100); (true, false, false, 111); (false, false, false, 111);
   (false, false, true, 120); (false, false, false, 120); (true, false, false, 120); (false, true, false, 120);
   (true, false, false, 120); (false, false, false, 120); (false, false, true, 120)] /\
  match h with e0 :: _ => eff ex_cfg e0 = 110 | [] => False end.
Proof. vm_compute. split; reflexivity. Qed.
(* special parties (4 = the contract itself, never a signer; 5 = another contract, a signer when it is the invoker):
   the hypotheses of C07_unauthorisable_* are met by the directed scenarios' calls, the monitor accepts the model's
   runs of them and REJECTS the behaviour of a self-owned contract whose gate lets anybody in (offer with an empty
   authorisation set succeeds; the outsider then accepts), and an accepted offer to the contract itself *)
Definition hd_self : header := {| h_kind := Own; h_min := 1; h_max := 5000; h_start := 100; h_holder := Some 4%N |}.
Example C07_special_parties :
  silentb 4%N ex_self_calls = true /\ silentb 4%N ex_to_self_calls = true /\
  check (observe_model hd_self ex_self_calls) = (0%N, 0%N, 0%N) /\
  check (observe_model hd0 ex_to_self_calls) = (0%N, 0%N, 0%N) /\
  check (observe_model {| h_kind := AC; h_min := 1; h_max := 5000; h_start := 100; h_holder := Some 5%N |}
           [Guarded []; Guarded [5%N]; Offer 1%N 200 [1%N]; Offer 1%N 200 [5%N]; Accept [1%N]; Offer 5%N 300 [1%N];
            Accept [1%N]; Accept [5%N]; Renounce [5%N]]) = (0%N, 0%N, 0%N) /\
  snd (fst (check (hd_self, [(Offer 1%N 200 [], Ok 0, (Some 4%N, Some (1%N, 200)));
                             (Accept [1%N], Ok 0, (Some 1%N, None))]))) = 1%N /\
  snd (fst (check (hd_self, [(Guarded [1%N], Ok 1, (Some 4%N, None))]))) = 1%N /\
  snd (fst (check (hd_self, [(Renounce [], Ok 0, (None, None))]))) = 1%N /\
  snd (fst (check (hd0, [(Offer 4%N 200 [0%N], Ok 0, (Some 0%N, Some (4%N, 200)));
                         (Accept [], Ok 0, (Some 4%N, None))]))) = 2%N.
Proof. vm_compute. repeat split; reflexivity. Qed.
