(* C04 - RWA tokens never move past the compliance, identity, freeze and pause gates.

   Model: coq/Model/Rwa.v (RWA::{transfer, transfer_from, validate_transfer, forced_transfer, mint,
   burn, recover_balance, set_address_frozen, freeze/unfreeze_partial_tokens}, Base::{update,
   set_allowance, spend_allowance, allowance_data}, pausable::{pause, unpause}); the compliance
   contract and the identity verifier are inputs of every call ([c_orc]) and everything they are
   asked or told is logged ([idv_log], [cmp_log] = the log of the call that led to the state).
   [c_orc c a] = the answers, during call c, of the collaborator contract at address a;
   [eff_orc s c] = the answers the token actually receives: those of the verifier / compliance
   contract it CURRENTLY points at ([link_idv s] / [link_cmp s], set by set_identity_verifier /
   set_compliance).
   [step hc s c] = (state after the call, outcome); a failing call changes nothing.
   [run hc init cs] = the state after the call sequence [cs] on a fresh token.
   The token theorems hold for EVERY compliance contract and identity verifier; two further
   layers say what the library's own ones do: coq/Model/RwaCompliance.v (compliance/storage.rs,
   second part of this file) and coq/Model/RwaIdentity.v (identity_verifier/storage.rs, third part).

   This file contains only pinned statements, each closed by [exact] of a lemma proved in
   Proofs/, followed by Print Assumptions; and Examples (non-vacuity, monitor rejections). *)
From SC Require Import Lib.Prelude Lib.Int Lib.Host Model.Rwa Model.RwaCompliance Model.RwaIdentity
  Run.C04Compliance Run.C04Identity Run.C04Stack Run.C04
  Proofs.Rwa Proofs.RwaPrefix Proofs.C04Monitor Proofs.RwaCompliance Proofs.RwaIdentity Proofs.C04Composed
  Proofs.C04Stack Proofs.C04Mux Proofs.C04Examples.

(* ------------------------------------------------------------------------------------------ *)
(* GATES.  In ANY state (so in particular in every reachable one), for any authorisation set and
   any answers of the collaborators: a transfer or transfer_from that succeeds found the token
   not paused, neither party address-frozen, the amount within the sender's unfrozen balance,
   both parties verified and the compliance contract approving - and the identity verifier and
   the compliance contract were really asked exactly these questions; a successful mint found the
   recipient verified and the compliance contract approving the creation. *)
Theorem C04_gates : forall (hc : hostcfg) (s : state) (c : call) (s' : state) (r : ret),
  step hc s c = (s', Ok r) ->
  match c_op c with
  | Transfer from to amt | TransferFrom _ from to amt =>
      paused s = false /\ aflag s from = false /\ aflag s to = false /\
      0 <= amt <= bal s from - frozen s from /\
      idv_ok (eff_orc s c) from = true /\ idv_ok (eff_orc s c) to = true /\ o_can_transfer (eff_orc s c) = true /\
      In (QVerify from) (idv_log s') /\ In (QVerify to) (idv_log s') /\
      In (QCanTransfer from to amt) (cmp_log s')
  | Mint to amt _ =>
      0 <= amt /\ idv_ok (eff_orc s c) to = true /\ o_can_create (eff_orc s c) = true /\
      In (QVerify to) (idv_log s') /\ In (QCanCreate to amt) (cmp_log s')
  | _ => True
  end.
Proof. exact gates_thm. Qed.
Print Assumptions C04_gates.

(* MUXED DESTINATIONS.  `FungibleToken::transfer` of an RWA token takes a MuxedAddress: a plain
   address, or an account address carrying a 64-bit id ([dest]).  The model's entry point
   ([transfer_entry] = <RWA as ContractOverrides>::transfer) drops the id, so a transfer to a muxed
   destination IS the transfer to its address part ([mux_op] is what the harness prints for such a
   call): in every reachable state it passes exactly the same gates, and the compliance contract
   receives exactly can_transfer + ONE transferred naming the address part and the amount.  The
   implementation is held to this on every run: destinations with ids (0, 1, 7, u64::MAX) are sent
   through the real entry point and evaluated like every other transfer. *)
Theorem C04_muxed_destination : forall (hc : hostcfg) (cs : list call) (au : list addr) (orc : addr -> oracle)
    (from : addr) (to : dest) (amt : Z) (s' : state) (r : ret),
  let s := run hc init cs in
  let c := mkCall (Transfer from (dest_addr to) amt) au orc in
  (forall o s0, transfer_entry au o from to amt s0 = transfer au o from (dest_addr to) amt s0) /\
  (forall id, mkCall (mux_op id (Transfer from (dest_addr to) amt)) au orc = c) /\
  (step hc s c = (s', Ok r) ->
     paused s = false /\ aflag s from = false /\ aflag s (dest_addr to) = false /\
     0 <= amt <= bal s from - frozen s from /\
     idv_ok (eff_orc s c) from = true /\ idv_ok (eff_orc s c) (dest_addr to) = true /\
     o_can_transfer (eff_orc s c) = true /\
     cmp_log s' = [QCanTransfer from (dest_addr to) amt; NTransferred from (dest_addr to) amt]).
Proof. exact muxed_destination. Qed.
Print Assumptions C04_muxed_destination.

(* INVARIANT.  After every sequence of calls (all fifteen call kinds, any arguments, any
   authorisation sets, any collaborator answers, failing calls included), for every account
   0 <= frozen tokens <= balance. *)
Theorem C04_frozen_le_balance : forall (hc : hostcfg) (cs : list call) (a : addr),
  0 <= frozen (run hc init cs) a <= bal (run hc init cs) a.
Proof. exact frozen_le_balance. Qed.
Print Assumptions C04_frozen_le_balance.

(* MINIMAL UNFREEZE.  What each successful call does to the freeze state, in ANY state:
   forced_transfer and burn take out of the frozen part exactly max 0 (amount - free tokens) of
   the debited account and touch nothing else; freeze / unfreeze / set_address_frozen do what they
   say; every other call (in particular the holder-initiated transfer, transfer_from, approve)
   leaves every frozen amount and every address-frozen flag unchanged. *)
Theorem C04_min_unfreeze : forall (hc : hostcfg) (s : state) (c : call) (s' : state) (r : ret),
  step hc s c = (s', Ok r) ->
  match c_op c with
  | ForcedTransfer w _ amt _ | Burn w amt _ =>
      0 <= amt <= bal s w /\
      (forall a, frozen s' a =
                 if N.eqb a w then frozen s w - Z.max 0 (amt - (bal s w - frozen s w)) else frozen s a) /\
      (forall a, aflag s' a = aflag s a)
  | Freeze w amt _ =>
      0 <= amt /\ frozen s w + amt <= bal s w /\
      (forall a, frozen s' a = if N.eqb a w then frozen s w + amt else frozen s a) /\
      (forall a, aflag s' a = aflag s a)
  | Unfreeze w amt _ =>
      0 <= amt <= frozen s w /\
      (forall a, frozen s' a = if N.eqb a w then frozen s w - amt else frozen s a) /\
      (forall a, aflag s' a = aflag s a)
  | SetAddressFrozen w v _ =>
      (forall a, frozen s' a = frozen s a) /\
      (forall a, aflag s' a = if N.eqb a w then v else aflag s a)
  | RecoverBalance _ _ _ => True          (* see C04_recover *)
  | _ => (forall a, frozen s' a = frozen s a) /\ (forall a, aflag s' a = aflag s a)
  end.
Proof. exact min_unfreeze. Qed.
Print Assumptions C04_min_unfreeze.

(* MOVEMENT.  What each successful call does to the balances, in ANY state: transfer,
   transfer_from and forced_transfer move exactly the amount (0 <= amount <= sender's balance)
   from the sender to the receiver, mint / burn add / remove exactly the amount, nobody else's
   balance changes; every other call except recovery changes no balance.  A successful
   transfer_from moreover found an unexpired allowance from -> spender of at least the amount
   and consumes exactly the amount of it. *)
Theorem C04_movement_exact : forall (hc : hostcfg) (s : state) (c : call) (s' : state) (r : ret),
  step hc s c = (s', Ok r) ->
  match c_op c with
  | Transfer from to amt | ForcedTransfer from to amt _ =>
      0 <= amt <= bal s from /\
      forall a, bal s' a = bal s a - (if N.eqb a from then amt else 0) + (if N.eqb a to then amt else 0)
  | TransferFrom sp from to amt =>
      0 <= amt <= bal s from /\ amt <= allowance s from sp /\
      allowance s' from sp = allowance s from sp - amt /\
      (forall a, bal s' a = bal s a - (if N.eqb a from then amt else 0) + (if N.eqb a to then amt else 0))
  | Mint to amt _ => 0 <= amt /\ forall a, bal s' a = bal s a + (if N.eqb a to then amt else 0)
  | Burn w amt _ => 0 <= amt <= bal s w /\ forall a, bal s' a = bal s a - (if N.eqb a w then amt else 0)
  | RecoverBalance _ _ _ => True          (* see C04_recover *)
  | _ => forall a, bal s' a = bal s a
  end.
Proof. exact movement_exact. Qed.
Print Assumptions C04_movement_exact.

(* HOLDER-INITIATED.  In ANY state: a transfer succeeds only with the authorisation of the holder
   it debits, a transfer_from only with the authorisation of the spender and within the live
   allowance the holder granted that spender, an approve only with the owner's authorisation;
   the supervisory and administrative entry points of the wrapper contract only with that of the
   operator they name. *)
Theorem C04_holder_authorisation : forall (hc : hostcfg) (s : state) (c : call) (s' : state) (r : ret),
  step hc s c = (s', Ok r) ->
  match c_op c with
  | Transfer from _ _ => has_auth (c_auths c) from = true
  | TransferFrom sp from _ amt => has_auth (c_auths c) sp = true /\ 0 <= amt <= allowance s from sp
  | Approve owner _ _ _ => has_auth (c_auths c) owner = true
  | Mint _ _ opr | Burn _ _ opr | ForcedTransfer _ _ _ opr | RecoverBalance _ _ opr
  | SetAddressFrozen _ _ opr | Freeze _ _ opr | Unfreeze _ _ opr | Pause opr | Unpause opr
  | SetCompliance _ opr | SetIdentityVerifier _ opr => has_auth (c_auths c) opr = true
  | Advance _ => True
  end.
Proof. exact holder_authorisation. Qed.
Print Assumptions C04_holder_authorisation.

(* PAUSE FLAG AND LINKS.  In ANY state: pause succeeds only when not paused and sets the flag,
   unpause only when paused and clears it; set_compliance / set_identity_verifier re-point the
   token at exactly the contract they name (so that from then on [eff_orc] is THAT contract's
   answers); no other successful call touches the flag or either link. *)
Theorem C04_pause_and_links : forall (hc : hostcfg) (s : state) (c : call) (s' : state) (r : ret),
  step hc s c = (s', Ok r) ->
  match c_op c with
  | Pause _ => paused s = false /\ paused s' = true /\ link_cmp s' = link_cmp s /\ link_idv s' = link_idv s
  | Unpause _ => paused s = true /\ paused s' = false /\ link_cmp s' = link_cmp s /\ link_idv s' = link_idv s
  | SetCompliance w _ => paused s' = paused s /\ link_cmp s' = Some w /\ link_idv s' = link_idv s
  | SetIdentityVerifier w _ => paused s' = paused s /\ link_cmp s' = link_cmp s /\ link_idv s' = Some w
  | RecoverBalance _ _ _ => True          (* C04_recover (pause flag), C04_links (links) *)
  | _ => paused s' = paused s /\ link_cmp s' = link_cmp s /\ link_idv s' = link_idv s
  end.
Proof. exact pause_and_links. Qed.
Print Assumptions C04_pause_and_links.

(* ... the links after ANY call of any kind, successful or not. *)
Theorem C04_links : forall (hc : hostcfg) (s : state) (c : call) (s' : state) (o : res ret),
  step hc s c = (s', o) ->
  link_cmp s' = (match c_op c with SetCompliance w _ => if is_ok o then Some w else link_cmp s | _ => link_cmp s end) /\
  link_idv s' = (match c_op c with SetIdentityVerifier w _ => if is_ok o then Some w else link_idv s | _ => link_idv s end).
Proof. exact links_step. Qed.
Print Assumptions C04_links.

(* ALLOWANCES AND SUPPLY.  In ANY state a successful call changes the allowance table only as
   follows: approve sets the approved pair to the amount, transfer_from lowers the (holder,
   spender) pair by the amount, the passing of ledgers can only make an allowance expire (drop to
   0); every other call, and every other pair, is untouched.  The supply changes by mint (+) and
   burn (-) only. *)
Theorem C04_allowance_frame : forall (hc : hostcfg) (s : state) (c : call) (s' : state) (r : ret) (o sp : addr),
  step hc s c = (s', Ok r) ->
  match c_op c with
  | Approve ow sp' amt _ =>
      allowance s' o sp = if N.eqb o ow && N.eqb sp sp' then amt else allowance s o sp
  | TransferFrom spd from _ amt =>
      allowance s' o sp = if N.eqb o from && N.eqb sp spd then allowance s o sp - amt else allowance s o sp
  | Advance _ => allowance s' o sp = allowance s o sp \/ allowance s' o sp = 0
  | _ => allowance s' o sp = allowance s o sp
  end.
Proof. exact allowance_frame. Qed.
Print Assumptions C04_allowance_frame.

Theorem C04_supply_frame : forall (hc : hostcfg) (s : state) (c : call) (s' : state) (r : ret),
  step hc s c = (s', Ok r) ->
  supply s' = supply s + (match c_op c with Mint _ amt _ => amt | Burn _ amt _ => - amt | _ => 0 end).
Proof. exact supply_frame. Qed.
Print Assumptions C04_supply_frame.

(* RECOVERY.  In every reachable state a successful recover_balance(old, new) went to the
   recovery target registered for [old], which is verified; it returns whether there was a
   balance; if there was (and old <> new) the WHOLE balance and the WHOLE frozen amount moved on
   top of what [new] had, the address-frozen flag is carried over, [old] ends with 0 / 0, nobody
   else is touched, the pause flag is untouched; otherwise nothing changes at all. *)
Theorem C04_recover : forall (hc : hostcfg) (cs : list call) (c : call) (old new opr : addr) (s' : state) (r : ret),
  let s := run hc init cs in
  c_op c = RecoverBalance old new opr ->
  step hc s c = (s', Ok r) ->
  recovery_target (eff_orc s c) old = Some new /\ idv_ok (eff_orc s c) new = true /\
  r = Some (negb (bal s old =? 0)) /\
  paused s' = paused s /\
  (bal s old <> 0 -> old <> new ->
     bal s' old = 0 /\ frozen s' old = 0 /\ aflag s' old = aflag s old /\
     bal s' new = bal s new + bal s old /\
     frozen s' new = frozen s new + frozen s old /\
     aflag s' new = aflag s new || aflag s old /\
     (forall a, a <> old -> a <> new ->
        bal s' a = bal s a /\ frozen s' a = frozen s a /\ aflag s' a = aflag s a)) /\
  (bal s old = 0 \/ old = new ->
     forall a, bal s' a = bal s a /\ frozen s' a = frozen s a /\ aflag s' a = aflag s a).
Proof. exact recover_thm. Qed.
Print Assumptions C04_recover.

(* COMPLIANCE LOG.  In every reachable state, the complete list of calls the compliance contract
   receives during a call is exactly: can_transfer + one transferred for a successful transfer /
   transfer_from, one transferred for a forced transfer, can_create + one created for a mint, one
   destroyed for a burn, one transferred(old, new, whole balance) for a recovery that moved
   something - with the exact parties and amount - and NOTHING for any other or any failing call;
   likewise for the identity verifier. *)
Theorem C04_compliance_log : forall (hc : hostcfg) (cs : list call) (c : call),
  let s := run hc init cs in
  cmp_log (fst (step hc s c)) =
    match snd (step hc s c) with
    | Fail => []
    | Ok _ =>
        match c_op c with
        | Transfer f t a | TransferFrom _ f t a => [QCanTransfer f t a; NTransferred f t a]
        | ForcedTransfer f t a _ => [NTransferred f t a]
        | Mint t a _ => [QCanCreate t a; NCreated t a]
        | Burn w a _ => [NDestroyed w a]
        | RecoverBalance old new _ => if bal s old =? 0 then [] else [NTransferred old new (bal s old)]
        | _ => []
        end
    end /\
  idv_log (fst (step hc s c)) =
    match snd (step hc s c) with
    | Fail => []
    | Ok _ =>
        match c_op c with
        | Transfer f t _ | TransferFrom _ f t _ => [QVerify f; QVerify t]
        | Mint t _ _ => [QVerify t]
        | RecoverBalance old new _ => [QVerify new; QRecovery old]
        | _ => []
        end
    end.
Proof. exact compliance_log_per_call. Qed.
Print Assumptions C04_compliance_log.

(* ... and over a whole history: everything the compliance contract ever receives is, call for
   call and in order, the concatenation of the lists above. *)
Theorem C04_compliance_log_history : forall (hc : hostcfg) (cs : list call),
  cmp_trace hc init cs = expected_cmp_trace hc init cs.
Proof. exact compliance_log. Qed.
Print Assumptions C04_compliance_log_history.

(* Finding F1 (fixed in /repo by a18c261): with transfer_from as it was BEFORE the fix (no
   validate_transfer) the gate theorem and the invariant are false: a transfer_from of 50 succeeds
   while paused, both parties frozen, 20 free tokens, nobody verified, compliance refusing, and
   leaves 80 frozen tokens on a balance of 50.  The current model refuses the same call. *)
Theorem C04_prefix_refuted :
  exists (hc : hostcfg) (cs : list call) (c : call) (spender from to : addr) (amt : Z) (s' : state),
    let s := run_prefix hc init cs in
    c_op c = TransferFrom spender from to amt /\
    step_prefix hc s c = (s', Ok None) /\
    paused s = true /\ aflag s from = true /\ aflag s to = true /\
    bal s from - frozen s from < amt /\
    idv_ok (eff_orc s c) from = false /\ idv_ok (eff_orc s c) to = false /\ o_can_transfer (eff_orc s c) = false /\
    bal s' from < frozen s' from /\
    snd (step hc (run hc init cs) c) = Fail.
Proof. exact prefix_refuted. Qed.
Print Assumptions C04_prefix_refuted.

(* The executable monitor (Run/C04.v: the property as a boolean over the observations of a
   trace - calls, authorisation sets, collaborator answers, outcomes, getters, collaborator logs;
   no model state) accepts every run of the model, for every universe of observed addresses; and
   the diff of the model with itself is empty.  It is what is evaluated on the traces of the
   implementation. *)
Theorem C04_monitor_accepts_model : forall (hc : hostcfg) (univ : list addr) (cs : list call),
  forallb (wf_call univ) cs = true ->       (* every party named by a call is in the observed universe (checked by [check]) *)
  check (observe_model hc univ cs) = (0%N, 0%N, 0%N).
Proof. exact check_accepts_model. Qed.
Print Assumptions C04_monitor_accepts_model.

(* ------------------------------------------------------------------------------------------ *)
(* SECOND LAYER: the modular compliance contract itself (Model/RwaCompliance.v: compliance/storage.rs
   over an abstract set of bound tokens).  [cstep cf s c] = (state after the call, outcome),
   [mlog] = the calls received by the compliance modules during the call that led to the state,
   [cc_deny c] = the modules that refuse (answer false) during call c, [cc_fail c] = the modules
   that FAIL during call c (trap, raise an error, are not deployed, lack the function, do not
   return a bool).

   DISPATCH, in ANY state: transferred / created / destroyed succeed only with the authorisation
   of the token they name and only if that token is bound, and then the compliance modules
   registered for the hook receive - in registration order, each one once - exactly that
   notification with the exact arguments; can_transfer / can_create return true iff every
   registered module approves, the modules being asked in order up to the first refusal; a hook
   call SUCCEEDS AT ALL only if none of the modules it reaches fails - a module that does not
   answer is never counted as an approval, a module that cannot be notified is not skipped;
   add / remove / bind / unbind change exactly what they say and call nobody; the mere passage of
   ledgers changes nothing. *)
Theorem C04_compliance_dispatch : forall (cf : ccfg) (s : cstate) (c : ccall) (s' : cstate) (r : cret),
  cstep cf s c = (s', Ok r) ->
  match cc_op c with
  | CTransferred f t a tok =>
      has_auth (cc_auths c) tok = true /\ In tok (bound s) /\
      mlog s' = map (fun m => (m, MOnTransfer f t a tok)) (mods s HTransferred) /\
      mods s' = mods s /\ bound s' = bound s /\
      (forall m, In m (mods s HTransferred) -> ~ In m (cc_fail c))
  | CCreated t a tok =>
      has_auth (cc_auths c) tok = true /\ In tok (bound s) /\
      mlog s' = map (fun m => (m, MOnCreated t a tok)) (mods s HCreated) /\
      mods s' = mods s /\ bound s' = bound s /\
      (forall m, In m (mods s HCreated) -> ~ In m (cc_fail c))
  | CDestroyed f a tok =>
      has_auth (cc_auths c) tok = true /\ In tok (bound s) /\
      mlog s' = map (fun m => (m, MOnDestroyed f a tok)) (mods s HDestroyed) /\
      mods s' = mods s /\ bound s' = bound s /\
      (forall m, In m (mods s HDestroyed) -> ~ In m (cc_fail c))
  | CCanTransfer f t a tok =>
      r = Some (forallb (fun m => negb (mem m (cc_deny c))) (mods s HCanTransfer)) /\
      mlog s' = map (fun m => (m, MCanTransfer f t a tok)) (asked (cc_deny c) (mods s HCanTransfer)) /\
      mods s' = mods s /\ bound s' = bound s /\
      (forall m, In m (asked (cc_deny c) (mods s HCanTransfer)) -> ~ In m (cc_fail c))
  | CCanCreate t a tok =>
      r = Some (forallb (fun m => negb (mem m (cc_deny c))) (mods s HCanCreate)) /\
      mlog s' = map (fun m => (m, MCanCreate t a tok)) (asked (cc_deny c) (mods s HCanCreate)) /\
      mods s' = mods s /\ bound s' = bound s /\
      (forall m, In m (asked (cc_deny c) (mods s HCanCreate)) -> ~ In m (cc_fail c))
  | CAddModule h m opr =>
      has_auth (cc_auths c) opr = true /\ ~ In m (mods s h) /\ Z.of_nat (length (mods s h)) < max_modules cf /\
      (forall h', mods s' h' = if hook_eqb h' h then mods s h ++ [m] else mods s h') /\
      bound s' = bound s /\ mlog s' = []
  | CRemoveModule h m opr =>
      has_auth (cc_auths c) opr = true /\ In m (mods s h) /\
      (forall h', mods s' h' = if hook_eqb h' h then remove_first m (mods s h) else mods s h') /\
      bound s' = bound s /\ mlog s' = []
  | CBind t opr =>
      has_auth (cc_auths c) opr = true /\ ~ In t (bound s) /\
      bound s' = bound s ++ [t] /\ mods s' = mods s /\ mlog s' = []
  | CUnbind t opr =>
      has_auth (cc_auths c) opr = true /\ In t (bound s) /\
      bound s' = remove_first t (bound s) /\ mods s' = mods s /\ mlog s' = []
  | CAdvance _ => mods s' = mods s /\ bound s' = bound s /\ mlog s' = []   (* time alone changes nothing *)
  end.
Proof. exact dispatch. Qed.
Print Assumptions C04_compliance_dispatch.

(* ... and "every registered module" means exactly once: after every sequence of calls no module
   is registered twice for a hook, a hook never has more than MAX_MODULES modules, no token is
   bound twice. *)
Theorem C04_compliance_modules_once : forall (cf : ccfg) (cs : list ccall) (h : hook),
  0 <= max_modules cf ->
  NoDup (mods (crun cf cinit cs) h) /\
  Z.of_nat (length (mods (crun cf cinit cs) h)) <= max_modules cf /\
  NoDup (bound (crun cf cinit cs)).
Proof. exact modules_once. Qed.
Print Assumptions C04_compliance_modules_once.

(* The monitor of the compliance layer (Run/C04Compliance.v) accepts every run of its model. *)
Theorem C04_compliance_monitor_accepts_model : forall (cf : ccfg) (toks : list addr) (cs : list ccall),
  0 <= max_modules cf ->
  forallb (cwf_call toks) cs = true ->       (* every token named by a call is in the observed token universe *)
  check (observe_compliance_model cf toks cs) = (0%N, 0%N, 0%N).
Proof. exact check_compliance_accepts_model. Qed.
Print Assumptions C04_compliance_monitor_accepts_model.

(* ------------------------------------------------------------------------------------------ *)
(* THIRD LAYER: the identity verifier (Model/RwaIdentity.v: identity_verifier/storage.rs), a
   read-only function of the world [w] around it (registered identities, required topics and
   their trusted issuers, the claims each identity holds and whether their issuer accepts them).

   verify_identity returns (rather than panics) EXACTLY for a verified account: one with a
   registered identity that holds, for EVERY required claim topic, a claim of SOME issuer trusted
   for that topic, stored under that (issuer, topic), naming that topic and that issuer, and
   accepted by that issuer.  (In particular a required topic without trusted issuers can never be
   satisfied.) *)
Theorem C04_identity_verified_iff : forall (w : iworld) (a : addr),
  is_ok (iverify_identity w a) =
  match alist_get a (w_ident w) with
  | Some idn =>
      forallb (fun t : Z * list addr =>
                 existsb (fun i => match find_claim (claims_of w idn) i (fst t) with
                                   | Some c => (c_topic c =? fst t) && N.eqb (c_issuer c) i && c_valid c
                                   | None => false
                                   end) (snd t))
              (w_topics w)
  | None => false
  end.
Proof. exact verify_iff. Qed.
Print Assumptions C04_identity_verified_iff.

(* ... and while doing so it consults only issuers trusted for the topic at hand, about the
   account's own identity. *)
Theorem C04_identity_asks_trusted_issuers_only : forall (w : iworld) (a : addr) (lg : ilog),
  iverify_identity w a = Ok lg ->
  exists idn, alist_get a (w_ident w) = Some idn /\
    Forall (fun e => let '(i, idn', t) := e in
                     idn' = idn /\ exists issuers, In (t, issuers) (w_topics w) /\ In i issuers) lg.
Proof. exact verify_asks_trusted. Qed.
Print Assumptions C04_identity_asks_trusted_issuers_only.

(* The monitor of the identity layer (Run/C04Identity.v) accepts every run of its model. *)
Theorem C04_identity_monitor_accepts_model : forall cs : list icall,
  check (observe_identity_model cs) = (0%N, 0%N, 0%N).
Proof. exact check_identity_accepts_model. Qed.
Print Assumptions C04_identity_monitor_accepts_model.

(* ------------------------------------------------------------------------------------------ *)
(* THE LAYERS TOGETHER.  When the answers the token receives during a call are the ones the
   library's own compliance contract (in state [cst], modules [deny] refusing, modules [fail]
   failing) and the library's own identity verifier (in the world [w]) compute - [approved]: the
   compliance contract ANSWERED, and answered true; a query that fails is no approval - a
   successful transfer / transfer_from means: not paused, nobody frozen, amount within the unfrozen
   balance, BOTH PARTIES VERIFIED in the sense of the claim registry ([verified]: registered
   identity holding, for every required topic, an accepted matching claim of a trusted issuer) and
   NO compliance module registered for the CanTransfer hook refuses OR FAILS; a successful mint:
   recipient verified, no CanCreate module refuses or fails. *)
Theorem C04_gates_composed : forall (hc : hostcfg) (s : state) (c : call) (s' : state) (r : ret)
    (cf : ccfg) (cst : cstate) (deny fail : list addr) (w : iworld),
  ((forall a, idv_ok (eff_orc s c) a = is_ok (iverify_identity w a)) /\
   (forall f t amt tok, o_can_transfer (eff_orc s c) =
      match snd (cstep cf cst (mkCCF (CCanTransfer f t amt tok) [] deny fail)) with Ok (Some true) => true | _ => false end) /\
   (forall t amt tok, o_can_create (eff_orc s c) =
      match snd (cstep cf cst (mkCCF (CCanCreate t amt tok) [] deny fail)) with Ok (Some true) => true | _ => false end)) ->
  step hc s c = (s', Ok r) ->
  match c_op c with
  | Transfer from to amt | TransferFrom _ from to amt =>
      paused s = false /\ aflag s from = false /\ aflag s to = false /\
      0 <= amt <= bal s from - frozen s from /\
      verified w from = true /\ verified w to = true /\
      (forall m, In m (mods cst HCanTransfer) -> ~ In m deny /\ ~ In m fail)
  | Mint to amt _ =>
      0 <= amt /\ verified w to = true /\ (forall m, In m (mods cst HCanCreate) -> ~ In m deny /\ ~ In m fail)
  | _ => True
  end.
Proof. exact gates_composed. Qed.
Print Assumptions C04_gates_composed.

(* ... whose hypothesis can be met in every registry state, compliance state and sets of refusing /
   failing modules (by the collaborator that answers exactly as the other two models compute).  The
   stack run itself rests on C04_stack_gate below, not on this theorem. *)
Theorem C04_composed_hypothesis_satisfiable : forall (s : state) (o : op) (au : list addr) (cf : ccfg)
    (cst : cstate) (deny fail : list addr) (w : iworld),
  let c := mkCall o au (fun _ => canonical_orc w cst deny fail) in
  (forall a, idv_ok (eff_orc s c) a = is_ok (iverify_identity w a)) /\
  (forall f t amt tok, o_can_transfer (eff_orc s c) =
     match snd (cstep cf cst (mkCCF (CCanTransfer f t amt tok) [] deny fail)) with Ok (Some true) => true | _ => false end) /\
  (forall t amt tok, o_can_create (eff_orc s c) =
     match snd (cstep cf cst (mkCCF (CCanCreate t amt tok) [] deny fail)) with Ok (Some true) => true | _ => false end).
Proof. exact answers_of_canonical. Qed.
Print Assumptions C04_composed_hypothesis_satisfiable.

(* ------------------------------------------------------------------------------------------ *)
(* THE WHOLE STACK (Run/C04Stack.v).  [sstep] is the composition actually run against the real
   contracts: a token step whose collaborator answers are computed by the compliance model from
   its own state [cst] (modules [deny] refusing, modules [fail] failing: a query that traps is no
   approval) and by the identity model from the registry state [w] observed just before the call,
   and whose questions / notifications are then fed through the compliance model with the token as
   caller (a rejected or failing notification rolls everything back).

   THE COMPOSED GATE: in any states satisfying the two invariants (hence in every reachable one), a
   transfer / transfer_from that succeeds in the stack found the token not paused, nobody frozen,
   the amount within the unfrozen balance, BOTH PARTIES VERIFIED PER THE REGISTRY, NO module
   registered for CanTransfer refusing OR FAILING, no module registered for Transferred failing,
   the token bound to the compliance contract; every module registered for CanTransfer was asked
   once and every module registered for Transferred notified once, in order, with the exact
   parties, amount and token.  Likewise mint; a successful burn / forced transfer notified every
   module registered for Destroyed / Transferred, none of which failed. *)
Theorem C04_stack_gate : forall (hc : hostcfg) (cf : ccfg) (univ : list addr) (tok : addr)
    (s : state) (cst : cstate) (o : op) (au deny fail : list addr) (w : iworld) (ss' : sstate) (r : ret),
  (forall a, 0 <= frozen s a <= bal s a) ->
  ((forall h, NoDup (mods cst h) /\ Z.of_nat (length (mods cst h)) <= max_modules cf) /\ NoDup (bound cst)) ->
  sstep hc cf univ tok (mkSS s cst) (STokF o au deny fail w) = (ss', Ok r) ->
  match o with
  | Transfer from to amt | TransferFrom _ from to amt =>
      paused s = false /\ aflag s from = false /\ aflag s to = false /\
      0 <= amt <= bal s from - frozen s from /\
      verified w from = true /\ verified w to = true /\
      (forall m, In m (mods cst HCanTransfer) -> ~ In m deny /\ ~ In m fail) /\
      (forall m, In m (mods cst HTransferred) -> ~ In m fail) /\
      In tok (bound cst) /\
      mlog (ss_cmp ss') = map (fun m => (m, MCanTransfer from to amt tok)) (mods cst HCanTransfer)
                          ++ map (fun m => (m, MOnTransfer from to amt tok)) (mods cst HTransferred)
  | Mint to amt _ =>
      0 <= amt /\ verified w to = true /\
      (forall m, In m (mods cst HCanCreate) -> ~ In m deny /\ ~ In m fail) /\
      (forall m, In m (mods cst HCreated) -> ~ In m fail) /\
      In tok (bound cst) /\
      mlog (ss_cmp ss') = map (fun m => (m, MCanCreate to amt tok)) (mods cst HCanCreate)
                          ++ map (fun m => (m, MOnCreated to amt tok)) (mods cst HCreated)
  | Burn a amt _ =>
      (forall m, In m (mods cst HDestroyed) -> ~ In m fail) /\ In tok (bound cst) /\
      mlog (ss_cmp ss') = map (fun m => (m, MOnDestroyed a amt tok)) (mods cst HDestroyed)
  | ForcedTransfer from to amt _ =>
      (forall m, In m (mods cst HTransferred) -> ~ In m fail) /\ In tok (bound cst) /\
      mlog (ss_cmp ss') = map (fun m => (m, MOnTransfer from to amt tok)) (mods cst HTransferred)
  | _ => True
  end.
Proof. exact stack_gate. Qed.
Print Assumptions C04_stack_gate.

(* The monitor of the whole stack (Run/C04Stack.v: the composed gate above over observations -
   token state, compliance module lists and binding, registry state, module log - plus the token
   monitor's account / pause / link clauses and the compliance monitor for administrative calls)
   accepts every run of the composition. *)
Theorem C04_stack_monitor_accepts_model : forall (hc : hostcfg) (cf : ccfg) (univ : list addr) (tok : addr) (cs : list scall),
  0 <= max_modules cf ->
  forallb (swf univ tok) cs = true ->
  check (observe_stack_model hc cf univ tok cs) = (0%N, 0%N, 0%N).
Proof. exact check_stack_accepts_model. Qed.
Print Assumptions C04_stack_monitor_accepts_model.

(* ------------------------------------------------------------------------------------------ *)
(* Non-vacuity: on a non-trivial reachable state (0 holds 100 / 80 frozen / address-frozen,
   1 holds 40 / 15 frozen) a transfer through all gates succeeds, a forced transfer unfreezes
   exactly 30 = 50 - 20 free, a burn within the free part unfreezes nothing, and a recovery
   moves 100 / 80 / flag on top of 40 / 15. *)
Example C04_nonvacuous :
  let s := ex_state in
  (bal s 0%N, frozen s 0%N, aflag s 0%N, bal s 1%N, frozen s 1%N) = (100, 80, true, 40, 15) /\
  snd (step ex_cfg s (mkCall (Transfer 1%N 2%N 25) [1%N] ex_orc)) = Ok None /\
  snd (step ex_cfg s (mkCall (Transfer 1%N 2%N 26) [1%N] ex_orc)) = Fail /\
  (let s' := fst (step ex_cfg s (by3 (ForcedTransfer 0%N 2%N 50 3%N))) in
   (bal s' 0%N, frozen s' 0%N, bal s' 2%N) = (50, 50, 50)) /\
  (let s' := fst (step ex_cfg s (by3 (Burn 0%N 20 3%N))) in (bal s' 0%N, frozen s' 0%N) = (80, 80)) /\
  (let '(s', o) := step ex_cfg s (by3 (RecoverBalance 0%N 1%N 3%N)) in
   (o, bal s' 0%N, frozen s' 0%N, bal s' 1%N, frozen s' 1%N, aflag s' 1%N, cmp_log s')
   = (Ok (Some true), 0, 0, 140, 95, true, [NTransferred 0%N 1%N 100])).
Proof. vm_compute. repeat split. Qed.

(* The monitor rejects bad traces (the verdict is (diff, monitor, class); calls are numbered from 1).
   1. the trace of the pre-fix code (finding F1): the 9th call, transfer_from through closed gates *)
Example C04_monitor_rejects_F1 : check f1_trace = (9%N, 9%N, 0%N).
Proof. vm_compute. reflexivity. Qed.
(*  2. a transfer reported twice to the compliance contract *)
Example C04_monitor_rejects_double_notification :
  snd (fst (check (tamper (set_cmp [QCanTransfer 1 2 25; NTransferred 1 2 25; NTransferred 1 2 25]%N)
                     (ex_trace (ex_history ++ [mkCall (Transfer 1%N 2%N 25) [1%N] ex_orc]))))) = 8%N.
Proof. vm_compute. reflexivity. Qed.
(*  3. ... or not at all, or with another amount *)
Example C04_monitor_rejects_missing_notification :
  snd (fst (check (tamper (set_cmp [QCanTransfer 1 2 25]%N)
                     (ex_trace (ex_history ++ [mkCall (Transfer 1%N 2%N 25) [1%N] ex_orc]))))) = 8%N /\
  snd (fst (check (tamper (set_cmp [QCanTransfer 1 2 25; NTransferred 1 2 24]%N)
                     (ex_trace (ex_history ++ [mkCall (Transfer 1%N 2%N 25) [1%N] ex_orc]))))) = 8%N.
Proof. vm_compute. split; reflexivity. Qed.
(*  4. a forced transfer that unfreezes more than the minimum (all 80 instead of 30) *)
Example C04_monitor_rejects_excess_unfreeze :
  snd (fst (check (tamper (set_accts [(50, 0, true); (40, 15, false); (50, 0, false); (0, 0, false)])
                     (ex_trace (ex_history ++ [by3 (ForcedTransfer 0%N 2%N 50 3%N)]))))) = 8%N.
Proof. vm_compute. reflexivity. Qed.
(*  5. a burn that leaves more frozen tokens than balance *)
Example C04_monitor_rejects_frozen_above_balance :
  snd (fst (check (tamper (set_accts [(50, 80, true); (40, 15, false); (0, 0, false); (0, 0, false)])
                     (ex_trace (ex_history ++ [by3 (Burn 0%N 50 3%N)]))))) = 8%N.
Proof. vm_compute. reflexivity. Qed.
(*  6. a recovery that drops the frozen part, or succeeds towards an account that is not the target *)
Example C04_monitor_rejects_bad_recovery :
  snd (fst (check (tamper (set_accts [(0, 0, true); (140, 15, true); (0, 0, false); (0, 0, false)])
                     (ex_trace (ex_history ++ [by3 (RecoverBalance 0%N 1%N 3%N)]))))) = 8%N /\
  snd (fst (check (set_out (Ok (Some true))
                     (ex_trace (ex_history ++ [by3 (RecoverBalance 0%N 2%N 3%N)]))))) = 8%N.
Proof. vm_compute. split; reflexivity. Qed.
(*  7. a failing call that nevertheless moved tokens *)
Example C04_monitor_rejects_effect_of_failed_call :
  snd (fst (check (tamper (set_accts [(100, 80, true); (14, 14, false); (26, 0, false); (0, 0, false)])
                     (ex_trace (ex_history ++ [mkCall (Transfer 1%N 2%N 26) [1%N] ex_orc]))))) = 8%N.
Proof. vm_compute. reflexivity. Qed.
(*  8. a transfer that went through without the holder's authorisation *)
Example C04_monitor_rejects_unauthorised_transfer :
  snd (fst (check (set_call (mkCall (Transfer 1%N 2%N 25) [2%N] ex_orc)
                     (ex_trace (ex_history ++ [mkCall (Transfer 1%N 2%N 25) [1%N] ex_orc]))))) = 8%N.
Proof. vm_compute. reflexivity. Qed.
(*  9. a transfer_from beyond the allowance, or that does not consume it *)
Example C04_monitor_rejects_allowance_abuse :
  let h := ex_history ++ [mkCall (Approve 1%N 2%N 10 500) [1%N] ex_orc] in
  check (ex_trace (h ++ [mkCall (TransferFrom 2%N 1%N 3%N 10) [2%N] ex_orc])) = (0%N, 0%N, 0%N) /\
  snd (fst (check (set_call (mkCall (TransferFrom 2%N 1%N 3%N 10) [2%N] ex_orc)
                     (ex_trace (h ++ [mkCall (Transfer 1%N 3%N 10) [1%N] ex_orc]))))) = 9%N /\
  snd (fst (check (set_call (mkCall (TransferFrom 3%N 1%N 3%N 10) [3%N] ex_orc)
                     (ex_trace (h ++ [mkCall (TransferFrom 2%N 1%N 3%N 10) [2%N] ex_orc]))))) = 9%N.
Proof. vm_compute. repeat split; reflexivity. Qed.

(* Compliance layer: non-vacuity and monitor rejections.  Modules 21, 20, 22 registered in this
   order; token 10 bound, token 11 not. *)
Example C04_compliance_nonvacuous :
  let s := crun cex_cfg cinit cex_history in
  (let '(s', o) := cstep cex_cfg s (mkCC (CTransferred 0 1 50 10)%N [10%N] []) in
   (o, mlog s') = (Ok None, [(21, MOnTransfer 0 1 50 10); (20, MOnTransfer 0 1 50 10); (22, MOnTransfer 0 1 50 10)]%N)) /\
  snd (cstep cex_cfg s (mkCC (CTransferred 0 1 50 10)%N [0%N; 1%N] [])) = Fail /\   (* not signed by the token *)
  snd (cstep cex_cfg s (mkCC (CTransferred 0 1 50 11)%N [11%N] [])) = Fail /\       (* token not bound *)
  (let '(s', o) := cstep cex_cfg s (mkCC (CCanTransfer 0 1 50 10)%N [] [20%N]) in
   (o, mlog s') = (Ok (Some false), [(21, MCanTransfer 0 1 50 10); (20, MCanTransfer 0 1 50 10)]%N)) /\
  snd (cstep cex_cfg s (mkCC (CCanTransfer 0 1 50 10)%N [] [23%N])) = Ok (Some true).
Proof. vm_compute. repeat split. Qed.

Example C04_compliance_monitor_rejects :
  let ok := cex_trace (cex_history ++ [mkCC (CTransferred 0 1 50 10)%N [10%N] []]) in
  check ok = (0%N, 0%N, 0%N) /\
  (* a module notified twice / a module skipped / wrong order / wrong amount *)
  snd (fst (check (cset_log [(21, MOnTransfer 0 1 50 10); (20, MOnTransfer 0 1 50 10); (20, MOnTransfer 0 1 50 10); (22, MOnTransfer 0 1 50 10)]%N ok))) = 8%N /\
  snd (fst (check (cset_log [(21, MOnTransfer 0 1 50 10); (22, MOnTransfer 0 1 50 10)]%N ok))) = 8%N /\
  snd (fst (check (cset_log [(20, MOnTransfer 0 1 50 10); (21, MOnTransfer 0 1 50 10); (22, MOnTransfer 0 1 50 10)]%N ok))) = 8%N /\
  snd (fst (check (cset_log [(21, MOnTransfer 0 1 50 10); (20, MOnTransfer 0 1 49 10); (22, MOnTransfer 0 1 50 10)]%N ok))) = 8%N /\
  (* a notification accepted from an unbound token, or without the token's authorisation *)
  snd (fst (check (cset_out (Ok None) (cex_trace (cex_history ++ [mkCC (CTransferred 0 1 50 11)%N [11%N] []]))))) = 8%N /\
  snd (fst (check (cset_out (Ok None) (cex_trace (cex_history ++ [mkCC (CTransferred 0 1 50 10)%N [0%N] []]))))) = 8%N /\
  (* an approval although a registered module refuses *)
  snd (fst (check (cset_out (Ok (Some true)) (cex_trace (cex_history ++ [mkCC (CCanTransfer 0 1 50 10)%N [] [22%N]]))))) = 8%N.
Proof. vm_compute. repeat split; reflexivity. Qed.

(* Identity layer: verified through different issuers; every single missing / refused / mislabelled
   claim of a LATER required topic makes the verification fail; the monitor rejects a verification
   that succeeds for such an account (the behaviour of a verifier that stops after the first
   satisfied topic). *)
Example C04_identity_nonvacuous :
  is_ok (iverify_identity (iex_world iex_full) 0%N) = true /\
  is_ok (iverify_identity (iex_world iex_full) 1%N) = false /\                                    (* no identity *)
  is_ok (iverify_identity (iex_world [good_claim 41 1; good_claim 42 2]%N) 0%N) = false /\         (* topic 5 missing *)
  is_ok (iverify_identity (iex_world [good_claim 41 1; good_claim 40 5]%N) 0%N) = false /\         (* topic 2 missing *)
  is_ok (iverify_identity (iex_world [good_claim 41 1; mkClaim 42 2 2 42 false; good_claim 40 5]%N) 0%N) = false /\
  is_ok (iverify_identity (iex_world [good_claim 41 1; mkClaim 42 2 1 42 true; good_claim 40 5]%N) 0%N) = false /\
  is_ok (iverify_identity (iex_world [mkClaim 40 1 1 40 false; good_claim 41 1; good_claim 42 2; good_claim 41 5]%N) 0%N) = true.
Proof. vm_compute. repeat split. Qed.

Example C04_identity_monitor_rejects :
  let bad := mkIC (IVerify 0%N) (iex_world [good_claim 41 1; good_claim 40 5]%N) in
  check (observe_identity_model [bad]) = (0%N, 0%N, 0%N) /\
  check (iset_out (Ok IUnit) (observe_identity_model [bad])) = (1%N, 1%N, 0%N).
Proof. vm_compute. split; reflexivity. Qed.

(* Persistence: the monitor rejects state that changes although no call changed it - after a long
   ledger gap a freeze flag / frozen amount / pause flag / collaborator link that has silently
   lapsed, a compliance module list or a token binding that has disappeared, verifier links lost. *)
Example C04_monitor_rejects_lapsed_state :
  let h := ex_history ++ [by3 (Pause 3%N); by3 (Advance 4000000)] in
  check (ex_trace h) = (0%N, 0%N, 0%N) /\
  snd (fst (check (tamper (set_accts [(100, 80, false); (40, 15, false); (0, 0, false); (0, 0, false)]) (ex_trace h)))) = 9%N /\
  snd (fst (check (tamper (set_accts [(100, 0, true); (40, 15, false); (0, 0, false); (0, 0, false)]) (ex_trace h)))) = 9%N /\
  snd (fst (check (tamper (set_accts [(0, 0, false); (40, 15, false); (0, 0, false); (0, 0, false)]) (ex_trace h)))) = 9%N /\
  snd (fst (check (tamper (set_paused_obs false) (ex_trace h)))) = 9%N /\
  snd (fst (check (tamper (set_links None (Some 60%N)) (ex_trace h)))) = 9%N /\
  snd (fst (check (tamper (set_links (Some 50%N) None) (ex_trace h)))) = 9%N.
Proof. vm_compute. repeat split; reflexivity. Qed.

Example C04_compliance_monitor_rejects_lapsed_state :
  let ok := cex_trace (cex_history ++ [mkCC (CAdvance 4000000) [] []]) in
  check ok = (0%N, 0%N, 0%N) /\
  snd (fst (check (cset_obs (mkCObs [[]; []; []; [21; 20; 22]%N; []] [true; false] []) ok))) = 8%N /\   (* a module list gone *)
  snd (fst (check (cset_obs (mkCObs [[21; 20; 22]%N; []; []; [21; 20; 22]%N; []] [false; false] []) ok))) = 8%N /\ (* a binding gone *)
  check (observe_identity_model [mkIC (IAdvance 4000000) (iex_world []); mkIC ILinks (iex_world [])]) = (0%N, 0%N, 0%N) /\
  snd (fst (check (iset_out (Ok (ILinked false true)) (observe_identity_model [mkIC ILinks (iex_world [])])))) = 1%N.
Proof. vm_compute. repeat split; reflexivity. Qed.

(* The whole stack: a transfer 0 -> 1 succeeds, asks modules 21, 20 and notifies module 22; with the
   sender's claim revoked (or a registered module refusing, or the token unbound) it fails; and the
   monitor rejects a trace in which such a transfer nevertheless went through (the behaviour of a
   token that no longer checks the sender's identity, or ignores a module, end to end). *)
Example C04_stack_nonvacuous :
  let good := sx_trace (sx_history ++ [STok (Transfer 0%N 1%N 10) [0%N] [] sx_w]) in
  let revoked := sx_world [mkClaim 40%N 1 1 40%N false] in
  check good = (0%N, 0%N, 0%N) /\
  snd (sstep ex_cfg cex_cfg sx_univ sx_tok (fold_left (fun ss c => fst (sstep ex_cfg cex_cfg sx_univ sx_tok ss c)) sx_history sinit)
         (STok (Transfer 0%N 1%N 10) [0%N] [] sx_w)) = Ok None /\
  check (sx_trace (sx_history ++ [STok (Transfer 0%N 1%N 10) [0%N] [] revoked])) = (0%N, 0%N, 0%N) /\
  snd (fst (check (sgraft good (sx_trace (sx_history ++ [STok (Transfer 0%N 1%N 10) [0%N] [] revoked]))))) = 8%N /\
  snd (fst (check (sgraft good (sx_trace (sx_history ++ [STok (Transfer 0%N 1%N 10) [0%N] [20%N] sx_w]))))) = 8%N /\
  snd (fst (check (sgraft good (sx_trace (sx_history ++ [STok (Transfer 1%N 0%N 10) [0%N] [] sx_w]))))) = 8%N.
Proof. vm_compute. repeat split; reflexivity. Qed.

(* Frame conditions (review findings 2.1 a-e).  The monitor rejects: an allowance nobody granted
   appearing during an unrelated successful call, during Advance 0, or in the observation of a
   failing call; a failing transfer_from that burnt the allowance; a mint that does not show in the
   supply; a call naming a party outside the observed universe; an allowance matrix of the wrong
   shape. *)
Definition Z16 : list Z := [0;0;0;0; 0;0;0;0; 0;0;0;0; 0;0;0;0].
Definition A12 : list Z := [0;0;0;0; 0;0;10;0; 0;0;0;0; 0;0;0;0].   (* allowance(1 -> 2) = 10 *)
Example C04_monitor_rejects_frame_violations :
  let deny := fun _ : addr => mkOracle ex_univ false true [] in
  snd (fst (check (tamper (set_allow A12) (ex_trace (ex_history ++ [by3 (Freeze 1%N 1 3%N)]))))) = 8%N /\
  snd (fst (check (tamper (set_allow A12) (ex_trace (ex_history ++ [by3 (Advance 0)]))))) = 8%N /\
  snd (fst (check (tamper (set_allow A12) (ex_trace (ex_history ++ [mkCall (Transfer 1%N 2%N 26) [1%N] ex_orc]))))) = 8%N /\
  (let h := ex_history ++ [mkCall (Approve 1%N 2%N 10 500) [1%N] ex_orc; mkCall (TransferFrom 2%N 1%N 3%N 10) [2%N] deny] in
   check (ex_trace h) = (0%N, 0%N, 0%N) /\ snd (fst (check (tamper (set_allow Z16) (ex_trace h)))) = 9%N) /\
  snd (fst (check (tamper (set_supply_obs 140) (ex_trace (ex_history ++ [by3 (Mint 2%N 5 3%N)]))))) = 8%N /\
  snd (fst (check (ex_trace (ex_history ++ [by3 (SetAddressFrozen 7%N true 3%N)])))) = 8%N /\
  snd (fst (check (ex_trace (ex_history ++ [mkCall (Transfer 7%N 2%N 0) [7%N] ex_orc])))) = 8%N /\
  snd (fst (check (tamper (set_allow []) (ex_trace (ex_history ++ [by3 (Advance 1)]))))) = 8%N.
Proof. vm_compute. repeat split; reflexivity. Qed.

(* The CURRENTLY registered collaborators (review finding 4-1 / 5-1).  Two compliance contracts
   (50 refuses creations, 51 approves) and two verifiers (60 knows everybody, 61 nobody): after
   re-pointing, the answers of the newly registered contract count, and the monitor rejects a trace
   in which the previously registered contract was the one asked, or whose link getter still shows
   the old address. *)
Definition two_orc : addr -> oracle :=
  fun a => if N.eqb a 50 then mkOracle ex_univ true false []
           else if N.eqb a 51 then mkOracle ex_univ true true []
           else if N.eqb a 60 then mkOracle ex_univ true true []
           else mkOracle [] true true [].
Definition sw (o : op) (au : list addr) : call := mkCall o au two_orc.
Example C04_currently_registered_collaborator :
  let h := [sw (SetCompliance 50%N 3%N) [3%N]; sw (SetIdentityVerifier 60%N 3%N) [3%N]] in
  (* compliance 50 refuses the mint; after switching to 51 the same mint succeeds *)
  snd (step ex_cfg (run ex_cfg init h) (sw (Mint 0%N 5 3%N) [3%N])) = Fail /\
  snd (step ex_cfg (run ex_cfg init (h ++ [sw (SetCompliance 51%N 3%N) [3%N]])) (sw (Mint 0%N 5 3%N) [3%N])) = Ok None /\
  (* after switching the verifier to 61 (which verifies nobody) it fails again *)
  snd (step ex_cfg (run ex_cfg init (h ++ [sw (SetCompliance 51%N 3%N) [3%N]; sw (SetIdentityVerifier 61%N 3%N) [3%N]]))
         (sw (Mint 0%N 5 3%N) [3%N])) = Fail /\
  let t := ex_trace (h ++ [sw (SetCompliance 51%N 3%N) [3%N]; sw (Mint 0%N 5 3%N) [3%N]]) in
  check t = (0%N, 0%N, 0%N) /\
  snd (fst (check (tamper (set_from (Some 50%N) (Some 60%N)) t))) = 4%N /\     (* the stale compliance contract was asked *)
  snd (fst (check (tamper_at 1 (set_links (Some 50%N) (Some 60%N)) t))) = 3%N.   (* set_compliance did not re-point *)
Proof. vm_compute. repeat split; reflexivity. Qed.

(* ... and in the other families: a compliance notification naming a token outside the observed
   token universe is a malformed trace; a FAILING token call in the stack may not leave an allowance
   or a changed supply behind. *)
Example C04_other_families_reject_frame_violations :
  snd (fst (check (cex_trace (cex_history ++ [mkCC (CTransferred 0 1 50 15)%N [15%N] []])))) = 8%N /\
  (let t := sx_trace (sx_history ++ [STok (Transfer 0%N 1%N 10) [0%N] [20%N] sx_w]) in
   check t = (0%N, 0%N, 0%N) /\
   snd (fst (check (sset_tok_obs (set_allow A12) t))) = 8%N /\
   snd (fst (check (sset_tok_obs (set_supply_obs 0) t))) = 8%N).
Proof. vm_compute. repeat split; reflexivity. Qed.

(* A compliance module that FAILS is no approval (round-3 finding: an aggregator that calls
   `try_can_transfer` and treats only an explicit `false` as a veto fails open).  Modules 21, 20, 22
   are registered in this order for CanTransfer and Transferred, token 10 is bound.  In the model a
   check hook fails as a whole when a module it reaches fails (20 failing: can_transfer fails; 21
   refusing first: false, 20 is not reached; 22 refusing after 20: fails), a notification fails when
   a registered module fails; the monitor rejects a trace in which can_transfer nevertheless
   answered true - whether the failing module's call shows in the log or (rolled back) not - and a
   notification that was accepted although a module could not be notified.  In the stack, a
   transfer fails when a module asked (20) or notified (22) fails, and the monitor rejects the
   trace in which it went through. *)
Example C04_failing_module_is_no_approval :
  let s := crun cex_cfg cinit cex_history in
  let q := (MCanTransfer 0 1 50 10)%N in
  snd (cstep cex_cfg s (mkCCF (CCanTransfer 0 1 50 10)%N [] [] [20%N])) = Fail /\
  snd (cstep cex_cfg s (mkCCF (CCanTransfer 0 1 50 10)%N [] [21%N] [20%N])) = Ok (Some false) /\
  snd (cstep cex_cfg s (mkCCF (CCanTransfer 0 1 50 10)%N [] [22%N] [20%N])) = Fail /\
  snd (cstep cex_cfg s (mkCCF (CCanTransfer 0 1 50 10)%N [] [] [23%N])) = Ok (Some true) /\   (* 23 is not registered *)
  snd (cstep cex_cfg s (mkCCF (CTransferred 0 1 50 10)%N [10%N] [] [22%N])) = Fail /\
  (let bad := cex_trace (cex_history ++ [mkCCF (CCanTransfer 0 1 50 10)%N [] [] [20%N]]) in
   check bad = (0%N, 0%N, 0%N) /\
   snd (fst (check (cset_out (Ok (Some true)) (cset_log [(21, q); (22, q)]%N bad)))) = 8%N /\
   snd (fst (check (cset_out (Ok (Some true)) (cset_log [(21, q); (20, q); (22, q)]%N bad)))) = 8%N) /\
  (let bad := cex_trace (cex_history ++ [mkCCF (CTransferred 0 1 50 10)%N [10%N] [] [20%N]]) in
   check bad = (0%N, 0%N, 0%N) /\
   snd (fst (check (cset_out (Ok None) (cset_log [(21, MOnTransfer 0 1 50 10); (22, MOnTransfer 0 1 50 10)]%N bad)))) = 8%N) /\
  (let good := sx_trace (sx_history ++ [STok (Transfer 0%N 1%N 10) [0%N] [] sx_w]) in
   let asked_fails := sx_trace (sx_history ++ [STokF (Transfer 0%N 1%N 10) [0%N] [] [20%N] sx_w]) in
   let notified_fails := sx_trace (sx_history ++ [STokF (Transfer 0%N 1%N 10) [0%N] [] [22%N] sx_w]) in
   check asked_fails = (0%N, 0%N, 0%N) /\ check notified_fails = (0%N, 0%N, 0%N) /\
   snd (sstep ex_cfg cex_cfg sx_univ sx_tok (fold_left (fun ss c => fst (sstep ex_cfg cex_cfg sx_univ sx_tok ss c)) sx_history sinit)
          (STokF (Transfer 0%N 1%N 10) [0%N] [] [20%N] sx_w)) = Fail /\
   snd (fst (check (sgraft good asked_fails))) = 8%N /\
   snd (fst (check (sgraft good notified_fails))) = 8%N).
Proof. vm_compute. repeat split; reflexivity. Qed.

(* A transfer to a muxed destination is checked like every other transfer (round-3 finding: an
   override that handles destinations with an id on a path of its own and forgets the
   `transferred` notification there): the item the harness prints for it ([IMux id]) is the plain
   item, and the monitor rejects it when the compliance contract was not notified. *)
Example C04_monitor_rejects_unnotified_muxed_transfer :
  let c := mkCall (Transfer 1%N 2%N 25) [1%N] ex_orc in
  let t := ex_trace (ex_history ++ [c]) in
  let muxed := map_items (map (fun it => IMux 18446744073709551615 (it_call it) (it_out it) (it_obs it))) in
  IMux 7 c = I c /\
  check (muxed t) = (0%N, 0%N, 0%N) /\
  snd (fst (check (tamper (set_cmp [QCanTransfer 1 2 25]%N) (muxed t)))) = 8%N.
Proof. vm_compute. repeat split; reflexivity. Qed.
