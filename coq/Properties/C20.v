(* C20 - Registries behave as the sets and maps they represent under any edit history.
   Only pinned statements, each closed by [exact] of a lemma proved in Proofs/, followed by
   Print Assumptions; then Examples (non-vacuity, rejection of bad traces). *)
From SC Require Import Lib.Prelude Model.SwapPop Model.RegCommon Model.RegBinder Model.RegDocs
  Model.RegCTI Model.RegKeys Model.RegIRS Model.RegSmall Model.RegSA Run.C20
  Proofs.C20Common Proofs.C20Binder Proofs.C20Docs Proofs.C20Small Proofs.C20IRS Proofs.C20Keys
  Proofs.C20CTI Proofs.C20SA Proofs.C20Final Proofs.C20Props Proofs.C20Classes.
From Coq Require Import Permutation.

(* The executable monitors (the property as a boolean over observed calls, outcomes and getter
   answers; reference state = the plain set / map implied by the calls so far) accept every run
   of the eight models, for every call sequence and every set of queries asked after every
   call (and Advance step); and the diff of each model with itself is empty.  [calls_wf]: every event
   carries at least one query, and the two fixture headers are strictly increasing lists within the
   capacity with BUCKET_SIZE > 0.  The third component is not about the property: it only reports
   (class 9) that the limits printed in the trace header differ from the documented values. *)
Theorem C20_monitor_accepts_model : forall k : calls,
  calls_wf k = true ->
  check (observe_model k) = (0%N, 0%N, if limits_as_documented (observe_model k) then 0%N else 9%N).
Proof. exact check_accepts_model. Qed.
Print Assumptions C20_monitor_accepts_model.

(* token binder (bucketed swap-and-pop): after EVERY call sequence the linked list is a duplicate-free
   enumeration of the reference set [a] (the plain set machine tb_spec of Run/C20.v), membership agrees, and every
   call is accepted / refused exactly as the set machine with the documented limits says *)
Theorem C20_binder_refines :
  forall c : tb_cfg,
  (0 < tb_bs c)%nat ->
  forall cs : list tb_call,
  let s := run (tb_step c) tb_init cs in
  let a := spec_run (tb_spec c) [] cs in
  NoDup a /\
  Permutation (tb_linked c s) a /\
  NoDup (tb_linked c s) /\
  (forall t : N, tb_is_bound c s t = memb N.eqb t a) /\
  (forall k : tb_call, is_ok (tb_step c s k) = is_ok (tb_spec c a k)).
Proof. exact binder_refines. Qed.
Print Assumptions C20_binder_refines.

(* binding a bound token / unbinding an unbound one is refused.  ("Without effect" is true of the model
   by construction - step_state keeps the state of a refused call, the second conjunct below is its
   definition; for the code it rests on the host's rollback of failed invocations and is CHECKED by
   the correspondence run, which queries every getter again after every refused call.) *)
Theorem C20_binder_dup_absent_refused :
  forall c : tb_cfg,
  (0 < tb_bs c)%nat ->
  forall (cs : list tb_call) (t : N),
  let s := run (tb_step c) tb_init cs in
  (tb_is_bound c s t = true -> tb_step c s (TbBind t) = Fail /\ step_state (tb_step c) s (TbBind t) = s) /\
  (tb_is_bound c s t = false ->
   tb_step c s (TbUnbind t) = Fail /\ step_state (tb_step c) s (TbUnbind t) = s).
Proof. exact binder_dup_absent_refused. Qed.
Print Assumptions C20_binder_dup_absent_refused.

(* MAX_TOKENS is enforced exactly at the limit *)
Theorem C20_binder_limit_exact :
  forall c : tb_cfg,
  (0 < tb_bs c)%nat ->
  forall (cs : list tb_call) (t : N),
  let s := run (tb_step c) tb_init cs in
  tb_is_bound c s t = false ->
  is_ok (tb_step c s (TbBind t)) = true <-> (length (tb_linked c s) < tb_max c)%nat.
Proof. exact binder_limit_exact. Qed.
Print Assumptions C20_binder_limit_exact.

(* index-based access enumerates every bound token exactly once; get_token_index is the inverse *)
Theorem C20_binder_enumerates_once :
  forall c : tb_cfg,
  (0 < tb_bs c)%nat ->
  forall cs : list tb_call,
  let s := run (tb_step c) tb_init cs in
  let l := tb_linked c s in
  NoDup l /\
  (forall i : N, tb_by_index c s i = of_option (nth_error l (N.to_nat i))) /\
  (forall (t : N) (i : nat), tb_index_of c s t = Ok i <-> nth_error l i = Some t).
Proof. exact binder_enumerates_once. Qed.
Print Assumptions C20_binder_enumerates_once.

(* document manager: count and lookups are those of the reference map name -> document (dm_spec) *)
Theorem C20_docs_refines :
  forall c : dm_cfg,
  (0 < dm_bs c)%nat ->
  forall cs : list dm_call,
  let s := run (dm_step c) dm_init cs in
  let a := spec_run (dm_spec c) [] cs in
  NoDup (names a) /\
  dm_count s = length a /\
  (forall nm : N, dm_get c s nm = of_option (aget N.eqb nm a)) /\
  (forall k : dm_call, is_ok (dm_step c s k) = is_ok (dm_spec c a k)).
Proof. exact docs_refines. Qed.
Print Assumptions C20_docs_refines.

(* MAX_DOCUMENTS applies to new names only and exactly at the limit; removing an absent document is refused *)
Theorem C20_docs_limit_and_absent :
  forall c : dm_cfg,
  (0 < dm_bs c)%nat ->
  forall (cs : list dm_call) (nm : N) (d : doc),
  let s := run (dm_step c) dm_init cs in
  (d_ulen d <= dm_max_uri c)%N ->
  (is_ok (dm_step c s (DmSet nm d)) = true <->
   is_ok (dm_get c s nm) = true \/ (dm_count s < dm_max c)%nat) /\
  is_ok (dm_step c s (DmRemove nm)) = is_ok (dm_get c s nm).
Proof. exact docs_limit_and_absent. Qed.
Print Assumptions C20_docs_limit_and_absent.

(* index-based access enumerates every document exactly once; paging through the buckets yields the same enumeration *)
Theorem C20_docs_enumerates_once :
  forall c : dm_cfg,
  (0 < dm_bs c)%nat ->
  forall cs : list dm_call,
  let s := run (dm_step c) dm_init cs in
  let a := spec_run (dm_spec c) [] cs in
  exists l : list (N * doc),
    length l = dm_count s /\
    NoDup (names l) /\
    (forall i : N, dm_by_index c s i = of_option (nth_error l (N.to_nat i))) /\
    (forall (nm : N) (d : doc), In (nm, d) l <-> aget N.eqb nm a = Some d) /\
    (forall m : nat,
     (dm_count s <= m * dm_bs c)%nat -> flat_map (fun k : nat => dm_bucket s (N.of_nat k)) (seq 0 m) = l).
Proof. exact docs_enumerates_once. Qed.
Print Assumptions C20_docs_enumerates_once.

(* compliance modules: per hook a set; duplicates / absent refused; MAX_MODULES exact *)
Theorem C20_compliance_set_semantics :
  forall (c : cm_cfg) (cs : list cm_call) (h m : N),
  let s := run (cm_step c) cm_init cs in
  NoDup (cm_modules s h) /\
  (is_ok (cm_step c s (CmAdd h m)) = true <->
   cm_is_registered s h m = false /\ (length (cm_modules s h) < cm_max c)%nat) /\
  is_ok (cm_step c s (CmRemove h m)) = cm_is_registered s h m.
Proof. exact compliance_set_semantics. Qed.
Print Assumptions C20_compliance_set_semantics.

(* claim topics and issuers refine two sets and one relation (cti_spec) *)
Theorem C20_cti_refines :
  forall (c : cti_cfg) (cs : list cti_call),
  let s := run (cti_step c) cti_init cs in
  let a := spec_run (cti_spec c) cti_ref0 cs in
  cti_topics s = rT a /\
  cti_issuers s = rI a /\
  NoDup (rT a) /\
  NoDup (rI a) /\
  (forall i : N, cti_get_issuer_topics s i = (if memb N.eqb i (rI a) then Ok (rtopics a i) else Fail)) /\
  (forall i : N, In i (rI a) -> NoDup (rtopics a i) /\ (forall t : N, In t (rtopics a i) -> In t (rT a))) /\
  (forall t : N,
   match cti_get_topic_issuers s t with
   | Ok l => In t (rT a) /\ NoDup l /\ (forall i : N, In i l <-> In i (rI a) /\ In t (rtopics a i))
   | Fail => ~ In t (rT a)
   end) /\ (forall k : cti_call, is_ok (cti_step c s k) = is_ok (cti_spec c a k)).
Proof. exact cti_refines. Qed.
Print Assumptions C20_cti_refines.

(* both directions of the topic / issuer relation agree after every history *)
Theorem C20_two_way_consistent_topics_issuers :
  forall (c : cti_cfg) (cs : list cti_call) (i t : N),
  let s := run (cti_step c) cti_init cs in
  (exists l : list N, cti_get_topic_issuers s t = Ok l /\ In i l) <->
  (exists ts : list N, cti_get_issuer_topics s i = Ok ts /\ In t ts).
Proof. exact cti_two_way_consistent. Qed.
Print Assumptions C20_two_way_consistent_topics_issuers.

(* MAX_CLAIM_TOPICS exact; duplicate topic refused; absent topic cannot be removed *)
Theorem C20_cti_limits :
  forall (c : cti_cfg) (cs : list cti_call) (t : N),
  let s := run (cti_step c) cti_init cs in
  (is_ok (cti_step c s (CtAddTopic t)) = true <->
   ~ In t (cti_topics s) /\ (length (cti_topics s) < cti_max_topics c)%nat) /\
  (is_ok (cti_step c s (CtRemoveTopic t)) = true <-> In t (cti_topics s)).
Proof. exact cti_limits. Qed.
Print Assumptions C20_cti_limits.

(* MAX_ISSUERS exact; duplicate issuer refused *)
Theorem C20_cti_issuer_limit :
  forall (c : cti_cfg) (cs : list cti_call) (i : N) (ts : list N),
  let s := run (cti_step c) cti_init cs in
  let a := spec_run (cti_spec c) cti_ref0 cs in
  cti_valid c a ts = true ->
  is_ok (cti_step c s (CtAddIssuer i ts)) = true <->
  ~ In i (cti_issuers s) /\ (length (cti_issuers s) < cti_max_issuers c)%nat.
Proof. exact cti_issuer_limit. Qed.
Print Assumptions C20_cti_issuer_limit.

(* claim-issuer keys: Topics(topic) and Pairs(key) are two views of ONE set of (key, topic, registry) triples *)
Theorem C20_keys_refines :
  forall (c : ck_cfg) (cs : list ck_call),
  let s := run (ck_step c) ck_init cs in
  let a := spec_run (ck_spec c) [] cs in
  NoDup a /\
  (forall t : N,
   match ck_keys_for_topic s t with
   | Ok ks => NoDup ks /\ ks <> [] /\ (forall k : N * N, In k ks <-> (exists r : N, In (k, t, r) a))
   | Fail => forall (k : N * N) (r : N), ~ In (k, t, r) a
   end) /\
  (forall k : N * N,
   ck_registries s k = match pairs_of a k with
                       | [] => Fail
                       | p :: l => Ok (map kt_reg (p :: l))
                       end) /\
  (forall (k : N * N) (t : N), ck_allowed_for_topic s k t = true <-> (exists r : N, In (k, t, r) a)) /\
  (forall (k : N * N) (r : N), ck_allowed_for_registry s k r = true <-> (exists t : N, In (k, t, r) a)) /\
  (forall q : ck_call, is_ok (ck_step c s q) = is_ok (ck_spec c a q)).
Proof. exact keys_refines. Qed.
Print Assumptions C20_keys_refines.

(* claim-issuer keys: both directions of the key / topic relation agree *)
Theorem C20_two_way_consistent_keys_topics :
  forall (c : ck_cfg) (cs : list ck_call) (k : N * N) (t : N),
  let s := run (ck_step c) ck_init cs in
  (exists ks : list (N * N), ck_keys_for_topic s t = Ok ks /\ In k ks) <->
  (exists (ps : list (N * N)) (r : N), kp_get (ck_pairs s) k = Some ps /\ In (t, r) ps).
Proof. exact keys_two_way_consistent. Qed.
Print Assumptions C20_two_way_consistent_keys_topics.

(* MAX_REGISTRIES_PER_KEY is enforced exactly at the limit (the fixed code) - counted, as the code does, on the
   (claim topic, registry) PAIRS of the key, not on distinct registries: see Example C20_registries_per_key_counts_pairs *)
Theorem C20_keys_registry_limit_exact :
  forall (c : ck_cfg) (cs : list ck_call) (pk sch reg t : N),
  let s := run (ck_step c) ck_init cs in
  let k := (pk, sch) in
  pk <> 0%N ->
  ck_allowed_for_topic s k t = true ->
  ck_allowed_for_registry s k reg = false ->
  is_ok (ck_step c s (CkAllow pk reg sch t (Ok true))) = true <->
  (length match kp_get (ck_pairs s) k with
          | Some ps => ps
          | None => []
          end < ck_max_regs c)%nat.
Proof. exact keys_registry_limit_exact. Qed.
Print Assumptions C20_keys_registry_limit_exact.

(* MAX_KEYS_PER_TOPIC is enforced exactly at the limit *)
Theorem C20_keys_topic_limit_exact :
  forall (c : ck_cfg) (cs : list ck_call) (pk sch reg t : N),
  let s := run (ck_step c) ck_init cs in
  let k := (pk, sch) in
  pk <> 0%N ->
  ck_allowed_for_topic s k t = false ->
  (length match kp_get (ck_pairs s) k with
          | Some ps => ps
          | None => []
          end < ck_max_regs c)%nat ->
  is_ok (ck_step c s (CkAllow pk reg sch t (Ok true))) = true <->
  (length match kt_get (ck_topics s) t with
          | Some ks => ks
          | None => []
          end < ck_max_keys c)%nat.
Proof. exact keys_topic_limit_exact. Qed.
Print Assumptions C20_keys_topic_limit_exact.

(* the code before the fix of defect F5 refuses the 20th pair of a key holding 19 (limit 20); the fixed model accepts it *)
Theorem C20_prefix_refuted :
  let s := run (ck_step_prefix f5_cfg) ck_init f5_history in
  let a := spec_run (ck_spec f5_cfg) [] f5_history in
  let k := CkAllow 7 4 101 3 (Ok true) in
  length (pairs_of a (7%N, 101%N)) = 19%nat /\
  is_ok (ck_spec f5_cfg a k) = true /\
  is_ok (ck_step_prefix f5_cfg s k) = false /\
  is_ok (ck_step f5_cfg (run (ck_step f5_cfg) ck_init f5_history) k) = true.
Proof. exact keys_prefix_refuted. Qed.
Print Assumptions C20_prefix_refuted.

(* identity registry storage refines one map account -> (identity, profile) plus recovery links (irs_spec) *)
Theorem C20_irs_refines :
  forall (c : irs_cfg) (cs : list irs_call),
  let s := run (irs_step c) irs_init cs in
  let a := spec_run (irs_spec c) irs_ref0 cs in
  (forall x : N, irs_stored_identity s x = of_option (option_map fst (aget N.eqb x (rM a)))) /\
  (forall x : N, irs_get_profile s x = of_option (option_map snd (aget N.eqb x (rM a)))) /\
  (forall x : N, irs_recovered_to s x = aget N.eqb x (rV a)) /\
  (forall k : irs_call, is_ok (irs_step c s k) = is_ok (irs_spec c a k)).
Proof. exact irs_refines. Qed.
Print Assumptions C20_irs_refines.

(* a recovered account holds no identity and can never be registered (or be a recovery target) again *)
Theorem C20_recovered_never_registered :
  forall (c : irs_cfg) (cs : list irs_call) (x y : N),
  let s := run (irs_step c) irs_init cs in
  irs_recovered_to s x = Some y ->
  irs_stored_identity s x = Fail /\
  (forall (ident ty : N) (cds : list cdata), irs_step c s (IrAdd x ident ty cds) = Fail) /\
  (forall old : N, irs_step c s (IrRecover old x) = Fail).
Proof. exact irs_recovered_never_registered. Qed.
Print Assumptions C20_recovered_never_registered.

(* a recovery link, once written, is never changed or removed *)
Theorem C20_irs_recovery_link_permanent :
  forall (c : irs_cfg) (cs cs' : list irs_call) (x y : N),
  irs_recovered_to (run (irs_step c) irs_init cs) x = Some y ->
  irs_recovered_to (run (irs_step c) irs_init (cs ++ cs')) x = Some y.
Proof. exact irs_recovery_link_permanent. Qed.
Print Assumptions C20_irs_recovery_link_permanent.

(* identity claims: the per-topic index lists every stored claim of the topic exactly once *)
Theorem C20_claims_index_enumerates_once :
  forall (cs : list ic_call) (t : N),
  let s := run ic_step ic_init cs in
  NoDup (ic_ids_by_topic s t) /\
  (forall i : N * N, In i (ic_ids_by_topic s t) <-> is_ok (ic_get_claim s i) = true /\ snd i = t) /\
  (forall (i : N * N) (cl : claim), ic_get_claim s i = Ok cl -> i = (cl_issuer cl, cl_topic cl)).
Proof. exact claims_index_enumerates_once. Qed.
Print Assumptions C20_claims_index_enumerates_once.

(* smart-account rule ids are never reused: the ids returned by the successful add_context_rule calls of any run are strictly increasing *)
Theorem C20_rule_ids_never_reused :
  forall (c : sa_cfg) (now0 : N) (cs : list (tcall sa_call)),
  incrb (sa_added c (sa_init, now0) cs) = true.
Proof. exact sa_rule_ids_never_reused. Qed.
Print Assumptions C20_rule_ids_never_reused.

(* smart-account context rules are ONE map id -> rule: getters, count, per-type lists (each rule of the type exactly once), no two live rules with the same fingerprint (context type, signer set, policy set), duplicate-free signer / policy lists within MAX_SIGNERS / MAX_POLICIES, never both empty *)
Theorem C20_sa_refines :
  forall (c : sa_cfg) (sl : sa_state * N),
  sa_reachable c sl ->
  let s := fst sl in
  exists rules : list rule,
    NoDup (map r_id rules) /\
    (forall id : N, sa_get_rule s id = of_option (find_rule id rules)) /\
    sa_count0 s = length rules /\
    (forall cx : ctxt, sa_get_rules s cx = Ok (filter (fun r : rule => ctxt_eqb (r_ctx r) cx) rules)) /\
    (forall r : rule, In r rules -> NoDup (r_signers r) /\ NoDup (r_policies r)) /\
    (forall r : rule,
     In r rules ->
     (length (r_signers r) <= sa_max_signers c)%nat /\
     (length (r_policies r) <= sa_max_policies c)%nat /\ (r_signers r <> [] \/ r_policies r <> [])) /\
    (forall r1 r2 : rule,
     In r1 rules ->
     In r2 rules ->
     r_ctx r1 = r_ctx r2 ->
     (forall x : signer, In x (r_signers r1) <-> In x (r_signers r2)) ->
     (forall x : N, In x (r_policies r1) <-> In x (r_policies r2)) -> r1 = r2).
Proof. exact sa_refines. Qed.
Print Assumptions C20_sa_refines.

(* duplicate fingerprints are refused: a rule with the context type, signer SET and policy SET of a live rule (lists in any order) cannot be added *)
Theorem C20_sa_duplicate_fingerprint_refused :
  forall (c : sa_cfg) (sl : sa_state * N) (now id : N) (r : rule) (cx : ctxt) 
    (name : N) (until : option N) (sg : list signer) (po : list (N * bool)),
  sa_reachable c sl ->
  let s := fst sl in
  sa_get_rule s id = Ok r ->
  r_ctx r = cx ->
  (forall x : signer, In x sg <-> In x (r_signers r)) ->
  (forall p : N, In p (map fst po) <-> In p (r_policies r)) ->
  sa_step (sa_with_now c now) s (SaAddRule cx name until sg po) = Fail.
Proof. exact sa_duplicate_fingerprint_refused. Qed.
Print Assumptions C20_sa_duplicate_fingerprint_refused.

(* a successful add_context_rule needs room below MAX_CONTEXT_RULES *)
Theorem C20_sa_rule_limit :
  forall (c : sa_cfg) (s : sa_state) (now : N) (cx : ctxt) (name : N) (until : option N)
    (sg : list signer) (po : list (N * bool)),
  is_ok (sa_step (sa_with_now c now) s (SaAddRule cx name until sg po)) = true ->
  (sa_count0 s < sa_max_rules c)%nat.
Proof. exact sa_rule_limit. Qed.
Print Assumptions C20_sa_rule_limit.

(* add_signer: accepted IFF the rule exists, the signer is new (duplicates refused), the signer list
   is below MAX_SIGNERS (limit exact) and no live rule already has the resulting fingerprint - in every
   state reachable by calls and ledger advances, at any ledger *)
Theorem C20_sa_add_signer_iff :
  forall (c : sa_cfg) (sl : sa_state * N) (now id : N) (x : signer),
  sa_reachable c sl ->
  let s := fst sl in
  is_ok (sa_step (sa_with_now c now) s (SaAddSigner id x)) = true <->
  (exists r : rule,
     sa_get_rule s id = Ok r /\
     ~ In x (r_signers r) /\
     (length (r_signers r) < sa_max_signers c)%nat /\
     (forall (id2 : N) (r2 : rule),
      sa_get_rule s id2 = Ok r2 -> same_fp (r_ctx r) (r_signers r ++ [x]) (r_policies r) r2 = false)).
Proof. exact sa_add_signer_iff. Qed.
Print Assumptions C20_sa_add_signer_iff.

(* add_policy: accepted IFF the rule exists, the policy is new, its install succeeds, the policy list
   is below MAX_POLICIES (limit exact) and no live rule already has the resulting fingerprint *)
Theorem C20_sa_add_policy_iff :
  forall (c : sa_cfg) (sl : sa_state * N) (now id p : N) (installs : bool),
  sa_reachable c sl ->
  let s := fst sl in
  is_ok (sa_step (sa_with_now c now) s (SaAddPolicy id p installs)) = true <->
  (exists r : rule,
     sa_get_rule s id = Ok r /\
     ~ In p (r_policies r) /\
     installs = true /\
     (length (r_policies r) < sa_max_policies c)%nat /\
     (forall (id2 : N) (r2 : rule),
      sa_get_rule s id2 = Ok r2 -> same_fp (r_ctx r) (r_signers r) (r_policies r ++ [p]) r2 = false)).
Proof. exact sa_add_policy_iff. Qed.
Print Assumptions C20_sa_add_policy_iff.

(* add_context_rule is accepted IFF there is room below MAX_CONTEXT_RULES (limit exact), signers and policies are
   duplicate-free, valid_until is not in the past, the lists are within MAX_SIGNERS / MAX_POLICIES and not both empty,
   no live rule has the same fingerprint, every policy installs, and the id space is not exhausted *)
Theorem C20_sa_add_rule_iff :
  forall (c : sa_cfg) (sl : sa_state * N) (now : N) (cx : ctxt) (name : N) (until : option N)
    (sg : list signer) (po : list (N * bool)),
  sa_reachable c sl ->
  let s := fst sl in
  is_ok (sa_step (sa_with_now c now) s (SaAddRule cx name until sg po)) = true <->
  (sa_count0 s < sa_max_rules c)%nat /\
  NoDup sg /\
  NoDup (map fst po) /\
  until_ok (sa_with_now c now) until = true /\
  sa_validate c sg (map fst po) = true /\
  (forall (id2 : N) (r2 : rule), sa_get_rule s id2 = Ok r2 -> same_fp cx sg (map fst po) r2 = false) /\
  forallb snd po = true /\ (match sa_next s with
                            | Some n => n
                            | None => 0
                            end < 4294967295)%N.
Proof. exact sa_add_rule_iff. Qed.
Print Assumptions C20_sa_add_rule_iff.

(* remove_context_rule is accepted iff the rule exists (an absent rule is refused) *)
Theorem C20_sa_remove_rule_iff :
  forall (c : sa_cfg) (sl : sa_state * N) (now id : N),
  sa_reachable c sl ->
  is_ok (sa_step (sa_with_now c now) (fst sl) (SaRemoveRule id)) = is_ok (sa_get_rule (fst sl) id).
Proof. exact sa_remove_rule_iff. Qed.
Print Assumptions C20_sa_remove_rule_iff.

(* update_context_rule_name is accepted iff the rule exists *)
Theorem C20_sa_update_name_iff :
  forall (c : sa_cfg) (sl : sa_state * N) (now id name : N),
  sa_reachable c sl ->
  is_ok (sa_step (sa_with_now c now) (fst sl) (SaUpdateName id name)) = is_ok (sa_get_rule (fst sl) id).
Proof. exact sa_update_name_iff. Qed.
Print Assumptions C20_sa_update_name_iff.

(* update_context_rule_valid_until is accepted iff the rule exists and the new valid_until is not in the past *)
Theorem C20_sa_update_until_iff :
  forall (c : sa_cfg) (sl : sa_state * N) (now id : N) (until : option N),
  sa_reachable c sl ->
  is_ok (sa_step (sa_with_now c now) (fst sl) (SaUpdateUntil id until)) =
  is_ok (sa_get_rule (fst sl) id) && until_ok (sa_with_now c now) until.
Proof. exact sa_update_until_iff. Qed.
Print Assumptions C20_sa_update_until_iff.

(* remove_signer is accepted IFF the rule exists, holds the signer (an absent signer is refused), is not left without
   any signer and policy, and no live rule already has the resulting fingerprint *)
Theorem C20_sa_remove_signer_iff :
  forall (c : sa_cfg) (sl : sa_state * N) (now id : N) (x : signer),
  sa_reachable c sl ->
  let s := fst sl in
  is_ok (sa_step (sa_with_now c now) s (SaRemoveSigner id x)) = true <->
  (exists r : rule,
     sa_get_rule s id = Ok r /\
     In x (r_signers r) /\
     (rem signer_eqb x (r_signers r) <> [] \/ r_policies r <> []) /\
     (forall (id2 : N) (r2 : rule),
      sa_get_rule s id2 = Ok r2 ->
      same_fp (r_ctx r) (rem signer_eqb x (r_signers r)) (r_policies r) r2 = false)).
Proof. exact sa_remove_signer_iff. Qed.
Print Assumptions C20_sa_remove_signer_iff.

(* remove_policy: likewise *)
Theorem C20_sa_remove_policy_iff :
  forall (c : sa_cfg) (sl : sa_state * N) (now id p : N),
  sa_reachable c sl ->
  let s := fst sl in
  is_ok (sa_step (sa_with_now c now) s (SaRemovePolicy id p)) = true <->
  (exists r : rule,
     sa_get_rule s id = Ok r /\
     In p (r_policies r) /\
     (r_signers r <> [] \/ rem N.eqb p (r_policies r) <> []) /\
     (forall (id2 : N) (r2 : rule),
      sa_get_rule s id2 = Ok r2 ->
      same_fp (r_ctx r) (r_signers r) (rem N.eqb p (r_policies r)) r2 = false)).
Proof. exact sa_remove_policy_iff. Qed.
Print Assumptions C20_sa_remove_policy_iff.

(* identity registry: country data is valid iff it has at most MAX_METADATA_ENTRIES metadata entries, each value of at
   most MAX_METADATA_STRING_LEN bytes *)
Theorem C20_irs_metadata_limits :
  forall (c : irs_cfg) (d : cdata),
  cd_valid c d = true <->
  match cd_meta d with
  | Some m =>
      (N.of_nat (length m) <= irs_max_meta c)%N /\
      (forall kv : N * N, In kv m -> (str_len (snd kv) <= irs_max_meta_len c)%N)
  | None => True
  end.
Proof. exact irs_cd_valid_iff. Qed.
Print Assumptions C20_irs_metadata_limits.

(* add_identity is accepted IFF the account was never recovered, holds no identity, and the country list is non-empty,
   of at most MAX_COUNTRY_ENTRIES entries (limit exact), all valid *)
Theorem C20_irs_add_identity_iff :
  forall (c : irs_cfg) (s : irs_state) (acct ident ty : N) (cds : list cdata),
  is_ok (irs_step c s (IrAdd acct ident ty cds)) = true <->
  irs_recovered_to s acct = None /\
  cds <> [] /\
  (length cds <= irs_max_countries c)%nat /\
  (forall d : cdata, In d cds -> cd_valid c d = true) /\ irs_stored_identity s acct = Fail.
Proof. exact irs_add_identity_iff. Qed.
Print Assumptions C20_irs_add_identity_iff.

(* add_country_data_entries is accepted IFF the list is non-empty and valid, the account has a profile, and the total stays
   within MAX_COUNTRY_ENTRIES (limit exact) *)
Theorem C20_irs_add_countries_iff :
  forall (c : irs_cfg) (s : irs_state) (acct : N) (cds : list cdata),
  is_ok (irs_step c s (IrAddCountries acct cds)) = true <->
  cds <> [] /\
  (forall d : cdata, In d cds -> cd_valid c d = true) /\
  (exists p : N * list cdata,
     irs_get_profile s acct = Ok p /\ (length (snd p) + length cds <= irs_max_countries c)%nat).
Proof. exact irs_add_countries_iff. Qed.
Print Assumptions C20_irs_add_countries_iff.

(* persistence (model level): ledger gaps change nothing. For every model whose step does not read the
   ledger (all registries but the smart account, whose theorems above are stated over histories WITH gaps),
   the state after any history of calls and Advance steps is the state after its calls alone.  (This holds by
   construction of the lifting - the model simply has no notion of expiry; that the CODE keeps its state
   across gaps is what the correspondence run observes, see props/C20.json.)  The monitors
   (C20_monitor_accepts_model) require every answer after an Advance to be that of the unchanged reference *)
Theorem C20_ledger_gaps_change_nothing :
  forall (St C O : Type) (step : St -> C -> res (St * O)) (dflt : O) (cs : list (tcall C)) (sl : St * N),
  fst (run (lstep (fun _ : N => step) dflt) sl cs) = run step (fst sl) (calls_of cs).
Proof. exact @ledger_gaps_change_nothing. Qed.
Print Assumptions C20_ledger_gaps_change_nothing.


(* ------------------------------------------------------------------------- *)
(* Class hardening (round 4).  Every theorem above is quantified over ALL addresses, topics, ids,   *)
(* keys and indexes (N): the contract's own address, another registered contract, 0 and 2^32 - 1    *)
(* are instances (classes K1 / K2); the three theorems below pin what the directed class histories  *)
(* of the harness exercise for K4 (collaborators), K5 (aliasing) and K6 (positions after removals). *)
(* ------------------------------------------------------------------------- *)

(* K4: in ANY state, an external collaborator that does not answer "yes" - it answers no, traps, does not
   exist, answers a value of another type (all of which reach the model as Fail / false) - never leads to a
   registration: allow_key needs the registry's [Ok true], add_claim the issuer's approval, add_policy and
   add_context_rule the successful install of every policy *)
Theorem C20_collaborator_must_approve :
  (forall (c : ck_cfg) (s : ck_state) (pk : N) (reg : addr) (sch t : N) (has : res bool),
      has <> Ok true -> ck_step c s (CkAllow pk reg sch t has) = Fail)
  /\ (forall (s : ic_state) (cl : claim), ic_step s (IcAdd cl false) = Fail)
  /\ (forall (c : sa_cfg) (s : sa_state) (id : N) (p : addr), sa_step c s (SaAddPolicy id p false) = Fail)
  /\ (forall (c : sa_cfg) (s : sa_state) (cx : ctxt) (name : N) (until : option N) (sg : list signer)
             (po : list (addr * bool)),
         forallb snd po = false -> sa_step c s (SaAddRule cx name until sg po) = Fail).
Proof. exact collaborator_must_approve. Qed.
Print Assumptions C20_collaborator_must_approve.

(* K6: positions after a removal, numerically.  In every reachable state a successful unbind of the token at
   index i puts the LAST token z at index i, leaves every other token at its index, drops index length - 1, and
   get_token_index follows (z -> i, the removed token -> not found, all others unchanged) - whichever element
   (first, middle, second-to-last, last) is removed, after any history *)
Theorem C20_binder_unbind_positions :
  forall c : tb_cfg,
  (0 < tb_bs c)%nat ->
  forall (cs : list tb_call) (t : N) (s' : tb_state),
  let s := run (tb_step c) tb_init cs in
  let l := tb_linked c s in
  tb_step c s (TbUnbind t) = Ok (s', tt) ->
  exists (i : nat) (z : N),
    tb_index_of c s t = Ok i /\ nth_error l i = Some t /\ nth_error l (length l - 1) = Some z /\
    tb_linked c s' = swap_pop i l /\
    (forall j : nat, tb_by_index c s' (N.of_nat j) =
                     if (j <? length l - 1)%nat then (if (j =? i)%nat then Ok z else of_option (nth_error l j)) else Fail) /\
    (forall u : N, u <> t -> tb_index_of c s' u = if N.eqb u z then Ok i else tb_index_of c s u) /\
    tb_index_of c s' t = Fail.
Proof. exact binder_unbind_positions. Qed.
Print Assumptions C20_binder_unbind_positions.

(* K5: aliasing in the identity registry.  After every history, recovering an account into itself is refused,
   and whether add_identity is accepted never depends on the identity argument (account = identity, identity =
   the registry's own address, ... are not special) *)
Theorem C20_irs_aliasing :
  forall (c : irs_cfg) (cs : list irs_call),
  let s := run (irs_step c) irs_init cs in
  (forall x : addr, irs_step c s (IrRecover x x) = Fail) /\
  (forall (acct i1 i2 : addr) (ty : N) (cds : list cdata),
      is_ok (irs_step c s (IrAdd acct i1 ty cds)) = is_ok (irs_step c s (IrAdd acct i2 ty cds))).
Proof. exact irs_aliasing. Qed.
Print Assumptions C20_irs_aliasing.

(* ------------------------------------------------------------------------- *)
(* Examples: the monitors are not vacuous - each rejects a hand-made trace that  *)
(* violates the property (the number is the 1-based index of the offending event) *)
(* ------------------------------------------------------------------------- *)
Open Scope N_scope.
Definition d1 := Build_doc 1 3 7 1000.

(* a duplicate bind is accepted *)
Example C20_monitor_rejects_duplicate_bind :
  monitor (TrBinder 100 10000 [] [(Call (TbBind 1), Ok tt, [(TqCount, TaNat 1)]); (Call (TbBind 1), Ok tt, [(TqCount, TaNat 1)])]) = 2.
Proof. vm_compute. reflexivity. Qed.
(* index-based access returns the same token at two indexes *)
Example C20_monitor_rejects_double_enumeration :
  monitor (TrBinder 100 10000 [] [(Call (TbBindMany [1; 2]), Ok tt,
     [(TqByIndex 0, TaAddr (Ok 1)); (TqByIndex 1, TaAddr (Ok 1))])]) = 1.
Proof. vm_compute. reflexivity. Qed.
(* the element swapped into the hole is lost after an unbind *)
Example C20_monitor_rejects_lost_element :
  monitor (TrBinder 100 10000 [] [(Call (TbBindMany [1; 2; 3]), Ok tt, [(TqLinked, TaList [1; 2; 3])]);
                                   (Call (TbUnbind 1), Ok tt, [(TqLinked, TaList [2])])]) = 2.
Proof. vm_compute. reflexivity. Qed.
(* refusal below the capacity limit / acceptance past it *)
Example C20_monitor_rejects_early_refusal :
  monitor (TrBinder 100 3 [] [(Call (TbBindMany [1; 2]), Ok tt, [(TqCount, TaNat 2)]); (Call (TbBind 3), Fail, [(TqCount, TaNat 2)])]) = 2.
Proof. vm_compute. reflexivity. Qed.
Example C20_monitor_rejects_over_capacity :
  monitor (TrBinder 100 2 [] [(Call (TbBindMany [1; 2]), Ok tt, [(TqCount, TaNat 2)]); (Call (TbBind 3), Ok tt, [(TqCount, TaNat 3)])]) = 2.
Proof. vm_compute. reflexivity. Qed.
(* a removed document is still returned *)
Example C20_monitor_rejects_stale_document :
  monitor (TrDocs 50 5000 200 [] [(Call (DmSet 1 d1), Ok tt, [(DqCount, DaNat 1)]);
                                  (Call (DmRemove 1), Ok tt, [(DqGet 1, DaDoc (Ok d1))])]) = 2.
Proof. vm_compute. reflexivity. Qed.
(* the two directions of the topic / issuer relation disagree *)
Example C20_monitor_rejects_one_way_relation :
  monitor (TrCTI 15 50 [(Call (CtAddTopic 1), Ok tt, [(CqTopics, CaList [1])]);
                        (Call (CtAddIssuer 0 [1]), Ok tt, [(CqIssuerTopics 0, CaRList (Ok [1])); (CqTopicIssuers 1, CaRList (Ok []))])]) = 2.
Proof. vm_compute. reflexivity. Qed.
(* the pre-fix behaviour of defect F5: with limit 2, the second pair of a key is refused *)
Example C20_monitor_rejects_F5 :
  monitor (TrKeys 50 2 [(Call (CkAllow 1 0 101 1 (Ok true)), Ok tt, [(KqRegistries (1, 101), KaRegs (Ok [0]))]);
                        (Call (CkAllow 1 1 101 1 (Ok true)), Fail, [(KqRegistries (1, 101), KaRegs (Ok [0]))])]) = 2.
Proof. vm_compute. reflexivity. Qed.
(* ... and it rejects the trace of the PRE-FIX MODEL itself with the real limits (call 20 of 20) *)
Example C20_monitor_rejects_prefix_model :
  monitor (TrKeys 50 20 (model_trace (lstep (fun _ : N => ck_step_prefix f5_cfg) tt) (lans ck_answer) (ck_init, 0)
             (map (fun k => (Call k, [KqRegistries (7, 101)])) (f5_history ++ [CkAllow 7 4 101 3 (Ok true)])))) = 20.
Proof. vm_compute. reflexivity. Qed.
(* a recovered account is registered again *)
Example C20_monitor_rejects_reregistration :
  monitor (TrIRS 15 10 100 [(Call (IrAdd 0 9 0 [Build_cdata 1 None]), Ok tt, [(IqIdentity 0, IaAddr (Ok 9))]);
                            (Call (IrRecover 0 1), Ok tt, [(IqRecovered 0, IaOpt (Some 1))]);
                            (Call (IrAdd 0 9 0 [Build_cdata 1 None]), Ok tt, [(IqIdentity 0, IaAddr (Ok 9))])]) = 3.
Proof. vm_compute. reflexivity. Qed.
(* a module registered twice for one hook *)
Example C20_monitor_rejects_duplicate_module :
  monitor (TrCM 20 [(Call (CmAdd 0 1), Ok tt, [(MqModules 0, MaList [1])]); (Call (CmAdd 0 1), Ok tt, [(MqIsRegistered 0 1, MaBool true)])]) = 2.
Proof. vm_compute. reflexivity. Qed.
(* the topic index lists a claim twice *)
Example C20_monitor_rejects_double_index :
  monitor (TrIC [(Call (IcAdd (Build_claim 1 101 0 1 1 1) true), Ok (Some (0, 1)), [(JqByTopic 1, JaIds [(0, 1); (0, 1)])])]) = 1.
Proof. vm_compute. reflexivity. Qed.
(* a rule id is reused after a removal *)
Example C20_monitor_rejects_reused_id :
  monitor (TrSA 15 15 5 100
    [(Call (SaAddRule CDefault 0 None [Delegated 0] []), Ok (Some (Build_rule 0 CDefault 0 [Delegated 0] [] None)), [(SqCount, SaNat 1)]);
     (Call (SaRemoveRule 0), Ok None, [(SqCount, SaNat 0)]);
     (Call (SaAddRule CDefault 0 None [Delegated 1] []), Ok (Some (Build_rule 0 CDefault 0 [Delegated 1] [] None)), [(SqCount, SaNat 1)])]) = 3.
Proof. vm_compute. reflexivity. Qed.
(* a rule with the same fingerprint (same signer SET, other order) is accepted twice *)
Example C20_monitor_rejects_duplicate_fingerprint :
  monitor (TrSA 15 15 5 100
    [(Call (SaAddRule CDefault 0 None [Delegated 0; Delegated 1] []), Ok (Some (Build_rule 0 CDefault 0 [Delegated 0; Delegated 1] [] None)), [(SqCount, SaNat 1)]);
     (Call (SaAddRule CDefault 1 None [Delegated 1; Delegated 0] []), Ok (Some (Build_rule 1 CDefault 1 [Delegated 1; Delegated 0] [] None)), [(SqCount, SaNat 2)])]) = 2.
Proof. vm_compute. reflexivity. Qed.
(* ... while the same signers under another context type are a different fingerprint: refusing it is the violation *)
Example C20_monitor_rejects_refusal_of_other_context :
  monitor (TrSA 15 15 5 100
    [(Call (SaAddRule CDefault 0 None [Delegated 0] []), Ok (Some (Build_rule 0 CDefault 0 [Delegated 0] [] None)), [(SqCount, SaNat 1)]);
     (Call (SaAddRule (CCall 5) 0 None [Delegated 0] []), Fail, [(SqCount, SaNat 1)])]) = 2.
Proof. vm_compute. reflexivity. Qed.

(* persistence: state that lapses while nothing is called is a violation *)
Example C20_monitor_rejects_lapsed_token :
  monitor (TrBinder 100 10000 [] [(Call (TbBind 1), Ok tt, [(TqIsBound 1, TaBool true)]);
                                   (Advance 600000, Ok tt, [(TqIsBound 1, TaBool false)])]) = 2.
Proof. vm_compute. reflexivity. Qed.
Example C20_monitor_rejects_lapsed_link :
  monitor (TrIRS 15 10 100 [(Call (IrAdd 0 9 0 [Build_cdata 1 None]), Ok tt, [(IqIdentity 0, IaAddr (Ok 9))]);
                            (Call (IrRecover 0 1), Ok tt, [(IqRecovered 0, IaOpt (Some 1))]);
                            (Advance 4000000, Ok tt, [(IqRecovered 0, IaOpt None)])]) = 3.
Proof. vm_compute. reflexivity. Qed.
Example C20_monitor_rejects_lapsed_rule :
  monitor (TrSA 15 15 5 100
    [(Call (SaAddRule CDefault 0 None [Delegated 0] []), Ok (Some (Build_rule 0 CDefault 0 [Delegated 0] [] None)), [(SqCount, SaNat 1)]);
     (Advance 17281, Ok None, [(SqCount, SaNat 1); (SqRule 0, SaRule Fail)])]) = 2.
Proof. vm_compute. reflexivity. Qed.
Example C20_monitor_rejects_trapping_getter :
  monitor (TrCM 20 [(Call (CmAdd 0 1), Ok tt, [(MqModules 0, MaList [1])]); (Advance 20, Ok tt, [(MqModules 0, MaTrap)])]) = 2.
Proof. vm_compute. reflexivity. Qed.
(* ... while a valid_until that passes during a gap is NOT a lapse: the ledger is part of the reference *)
Example C20_monitor_tracks_ledger :
  monitor (TrSA 15 15 5 100
    [(Advance 50, Ok None, [(SqCount, SaNat 0)]);
     (Call (SaAddRule CDefault 0 (Some 120) [Delegated 0] []), Fail, [(SqCount, SaNat 0)]);
     (Call (SaAddRule CDefault 0 (Some 150) [Delegated 0] []), Ok (Some (Build_rule 0 CDefault 0 [Delegated 0] [] (Some 150))), [(SqCount, SaNat 1)])]) = 0.
Proof. vm_compute. reflexivity. Qed.

(* ---- the traces of the adversarial review (.cache/review/C20.md section 2a), now rejected ---- *)
(* H2: a bucket read must hold exactly its page, whichever buckets are read, in any order, repeated or not *)
Example C20_review_H2_bucket_missing_its_page :
  monitor (TrDocs 2 5000 200 [] [(Call (DmSet 1 d1), Ok tt, [(DqCount, DaNat 1)]); (Call (DmSet 2 d1), Ok tt, [(DqCount, DaNat 2)]);
     (Call (DmSet 3 d1), Ok tt, [(DqCount, DaNat 3); (DqBucket 1, DaList [])])]) = 3.
Proof. vm_compute. reflexivity. Qed.
Example C20_review_H2_bucket_read_twice :
  monitor (TrDocs 50 5000 200 [] [(Call (DmSet 1 d1), Ok tt, [(DqCount, DaNat 1)]); (Call (DmSet 2 d1), Ok tt,
     [(DqCount, DaNat 2); (DqBucket 0, DaList []); (DqBucket 0, DaList [])])]) = 2.
Proof. vm_compute. reflexivity. Qed.
Example C20_review_H2_document_in_two_buckets :
  monitor (TrDocs 1 5000 200 [] [(Call (DmSet 1 d1), Ok tt, [(DqCount, DaNat 1)]); (Call (DmSet 2 d1), Ok tt, [(DqCount, DaNat 2)]);
     (Call (DmSet 3 d1), Ok tt, [(DqBucket 0, DaList [(1, d1)]); (DqBucket 1, DaList [(1, d1)])])]) = 3.
Proof. vm_compute. reflexivity. Qed.
Example C20_review_H2_bucket_disagrees_with_by_index :
  monitor (TrDocs 2 5000 200 [] [(Call (DmSet 1 d1), Ok tt, [(DqCount, DaNat 1)]);
     (Call (DmSet 2 d1), Ok tt, [(DqByIndex 0, DaEntry (Ok (1, d1))); (DqBucket 0, DaList [(2, d1); (1, d1)])])]) = 2.
Proof. vm_compute. reflexivity. Qed.
(* H3: the enumeration order must not change during a call-free ledger gap (nor across a refused call) *)
Example C20_review_H3_reindexed_during_gap :
  monitor (TrBinder 100 10000 []
    [(Call (TbBindMany [1; 2]), Ok tt, [(TqByIndex 0, TaAddr (Ok 1)); (TqByIndex 1, TaAddr (Ok 2)); (TqIndexOf 1, TaIdx (Ok 0))]);
     (Advance 20, Ok tt, [(TqByIndex 0, TaAddr (Ok 2)); (TqByIndex 1, TaAddr (Ok 1)); (TqIndexOf 1, TaIdx (Ok 1)); (TqLinked, TaList [2; 1])])]) = 2.
Proof. vm_compute. reflexivity. Qed.
Example C20_review_H3_reindexed_by_refused_call :
  monitor (TrDocs 50 5000 200 []
    [(Call (DmSet 1 d1), Ok tt, [(DqCount, DaNat 1)]);
     (Call (DmSet 2 d1), Ok tt, [(DqByIndex 0, DaEntry (Ok (1, d1)))]);
     (Call (DmRemove 9), Fail, [(DqByIndex 1, DaEntry (Ok (1, d1)))])]) = 3.
Proof. vm_compute. reflexivity. Qed.
(* H4: a refusal "because the id space is exhausted" needs 2^32 - 1 rules to have been added *)
Example C20_review_H4_refusal_after_a_huge_id :
  monitor (TrSA 15 15 5 100
    [(Call (SaAddRule CDefault 0 None [Delegated 0] []), Ok (Some (Build_rule 4294967294 CDefault 0 [Delegated 0] [] None)), [(SqCount, SaNat 1)]);
     (Call (SaAddRule CDefault 0 None [Delegated 1] []), Fail, [(SqCount, SaNat 1)])]) = 2.
Proof. vm_compute. reflexivity. Qed.
(* H5: an event without any observation proves nothing and is not accepted *)
Example C20_review_H5_empty_observation :
  monitor (TrCM 20 [(Call (CmAdd 0 1), Ok tt, [])]) = 1.
Proof. vm_compute. reflexivity. Qed.

(* ---- class hardening: hand-made traces of the mutation classes K1 - K6, each rejected by the monitor ---- *)
(* K1: the registry's own address (here 3) is bound, yet is_token_bound answers false - so it can be bound twice *)
Example C20_classes_K1_own_address_not_seen_as_bound :
  monitor (TrBinder 100 10000 [] [(Call (TbBind 3), Ok tt, [(TqLinked, TaList [3]); (TqIsBound 3, TaBool false)])]) = 1.
Proof. vm_compute. reflexivity. Qed.
Example C20_classes_K1_own_address_module_silently_dropped :
  monitor (TrCM 20 [(Call (CmAdd 3 3), Ok tt, [(MqModules 3, MaList []); (MqIsRegistered 3 3, MaBool false)])]) = 1.
Proof. vm_compute. reflexivity. Qed.
(* K2: the claim of topic 0 is stored but missing from the per-topic index; valid_until = 2^32 - 1 read back as None *)
Example C20_classes_K2_topic_zero_not_indexed :
  monitor (TrIC [(Call (IcAdd (Build_claim 0 0 0 1 0 1) true), Ok (Some (0, 0)),
                  [(JqClaim (0, 0), JaClaim (Ok (Build_claim 0 0 0 1 0 1))); (JqByTopic 0, JaIds [])])]) = 1.
Proof. vm_compute. reflexivity. Qed.
Example C20_classes_K2_until_u32_max_lost :
  monitor (TrSA 15 15 5 100
    [(Call (SaAddRule CDefault 0 None [Delegated 0] []), Ok (Some (Build_rule 0 CDefault 0 [Delegated 0] [] None)), [(SqCount, SaNat 1)]);
     (Call (SaUpdateUntil 0 (Some 4294967295)), Ok (Some (Build_rule 0 CDefault 0 [Delegated 0] [] None)), [(SqCount, SaNat 1)])]) = 2.
Proof. vm_compute. reflexivity. Qed.
(* K3: a present rule whose removal is refused by a sibling entry point (same monitor, whatever the path) *)
Example C20_classes_K3_present_rule_not_removable :
  monitor (TrSA 15 15 5 100
    [(Call (SaAddRule CDefault 0 None [Delegated 0] []), Ok (Some (Build_rule 0 CDefault 0 [Delegated 0] [] None)), [(SqCount, SaNat 1)]);
     (Call (SaRemoveRule 0), Fail, [(SqCount, SaNat 1)])]) = 2.
Proof. vm_compute. reflexivity. Qed.
(* K4: the registry did not answer (trap / no contract / other type = Fail), the key is allowed all the same;
       the issuer did not approve, the claim is stored all the same *)
Example C20_classes_K4_unanswered_registry_counts_as_yes :
  monitor (TrKeys 50 20 [(Call (CkAllow 7 4 101 1 Fail), Ok tt, [(KqRegistries (7, 101), KaRegs (Ok [4]))])]) = 1.
Proof. vm_compute. reflexivity. Qed.
Example C20_classes_K4_unapproved_claim_stored :
  monitor (TrIC [(Call (IcAdd (Build_claim 1 101 5 1 1 1) false), Ok (Some (5, 1)), [(JqByTopic 1, JaIds [(5, 1)])])]) = 1.
Proof. vm_compute. reflexivity. Qed.
(* K5: the policy that is also the rule's call target failed to install, the rule exists all the same;
       an update with the same hash but another uri is not stored *)
Example C20_classes_K5_policy_equal_to_call_target_not_installed :
  monitor (TrSA 15 15 5 100
    [(Call (SaAddRule (CCall 4) 2 None [] [(0, false)]), Ok (Some (Build_rule 0 (CCall 4) 2 [] [0] None)), [(SqCount, SaNat 1)])]) = 1.
Proof. vm_compute. reflexivity. Qed.
Example C20_classes_K5_update_with_same_hash_dropped :
  monitor (TrDocs 50 5000 200 [] [(Call (DmSet 5 (Build_doc 1 3 5 1000)), Ok tt, [(DqGet 5, DaDoc (Ok (Build_doc 1 3 5 1000)))]);
                                  (Call (DmSet 5 (Build_doc 2 3 5 1003)), Ok tt, [(DqGet 5, DaDoc (Ok (Build_doc 1 3 5 1000)))])]) = 2.
Proof. vm_compute. reflexivity. Qed.
(* K6: unbinding the second-to-last of four tokens drops the LAST one instead; an expired rule can no longer be updated *)
Example C20_classes_K6_second_to_last_removal_drops_last :
  monitor (TrBinder 100 10000 [] [(Call (TbBindMany [0; 1; 2; 3]), Ok tt, [(TqLinked, TaList [0; 1; 2; 3])]);
                                   (Call (TbUnbind 2), Ok tt, [(TqLinked, TaList [0; 1; 2]); (TqIndexOf 3, TaIdx Fail)])]) = 2.
Proof. vm_compute. reflexivity. Qed.
Example C20_classes_K6_expired_rule_not_updatable :
  monitor (TrSA 15 15 5 100
    [(Call (SaAddRule CDefault 0 (Some 110) [Delegated 0] []), Ok (Some (Build_rule 0 CDefault 0 [Delegated 0] [] (Some 110))), [(SqCount, SaNat 1)]);
     (Advance 20, Ok None, [(SqCount, SaNat 1)]);
     (Call (SaUpdateUntil 0 (Some 130)), Fail, [(SqCount, SaNat 1)])]) = 3.
Proof. vm_compute. reflexivity. Qed.
(* ... and the faithful answers for the same situations are accepted (the own address is an address like any other) *)
Example C20_classes_accepts_own_address :
  check (TrBinder 100 10000 [] [(Call (TbBind 3), Ok tt, [(TqLinked, TaList [3]); (TqIsBound 3, TaBool true); (TqIndexOf 3, TaIdx (Ok 0))]);
                                 (Call (TbBind 3), Fail, [(TqLinked, TaList [3])]);
                                 (Call (TbUnbind 3), Ok tt, [(TqLinked, TaList []); (TqIsBound 3, TaBool false)])]) = (0, 0, 0).
Proof. vm_compute. reflexivity. Qed.

(* ---- documented deviations / interpretations (not violations; see props/C20.json level_note) ---- *)
(* H1: MAX_REGISTRIES_PER_KEY ("maximum number of registries allowed per signing key") is enforced by the
   code - and hence by model, reference machine and monitor - on the number of (topic, registry) PAIRS of the
   key, and get_registries answers one entry per pair.  With the documented limit 20: a key allowed for ONE
   registry under 20 topics is refused a second registry, and get_registries lists that registry 20 times. *)
Definition one_registry_20_topics : list ck_call :=
  map (fun t => CkAllow 7 0 101 (N.of_nat t) (Ok true)) (seq 1 20).
Example C20_registries_per_key_counts_pairs :
  let s := run (ck_step f5_cfg) ck_init one_registry_20_topics in
  ck_registries s (7, 101) = Ok (repeat 0 20)
  /\ is_ok (ck_step f5_cfg s (CkAllow 7 1 101 1 (Ok true))) = false
  /\ monitor (TrKeys 50 20 (model_trace (ck_lstep f5_cfg) (lans ck_answer) (ck_init, 0)
               (map (fun k => (Call k, [KqRegistries (7, 101)])) (one_registry_20_topics ++ [CkAllow 7 1 101 1 (Ok true)])))) = 0.
Proof. vm_compute. repeat split. Qed.
(* H6: remove_claim_topic may leave a trusted issuer with an EMPTY topic list although add / update refuse
   empty lists (code behaviour, accepted by the reference machine; the property text does not speak about it) *)
Example C20_issuer_may_be_left_without_topics :
  monitor (TrCTI 15 50 [(Call (CtAddTopic 1), Ok tt, [(CqTopics, CaList [1])]);
                        (Call (CtAddIssuer 0 [1]), Ok tt, [(CqIssuerTopics 0, CaRList (Ok [1]))]);
                        (Call (CtRemoveTopic 1), Ok tt, [(CqIssuerTopics 0, CaRList (Ok [])); (CqIsTrusted 0, CaBool true)])]) = 0.
Proof. vm_compute. reflexivity. Qed.

(* ---- the documented values of the limits (pinned tree): a trace whose header carries other values is
   evaluated with those values and reported as class 9, not as a violation ---- *)
Example C20_documented_limits :
  limits_as_documented (TrBinder 100 10000 [] []) = true /\ limits_as_documented (TrDocs 50 5000 200 [] []) = true
  /\ limits_as_documented (TrCTI 15 50 []) = true /\ limits_as_documented (TrKeys 50 20 []) = true
  /\ limits_as_documented (TrIRS 15 10 100 []) = true /\ limits_as_documented (TrCM 20 []) = true
  /\ limits_as_documented (TrSA 15 15 5 100 []) = true
  /\ check (TrKeys 50 19 [(Call (CkAllow 1 0 101 1 (Ok true)), Ok tt, [(KqRegistries (1, 101), KaRegs (Ok [0]))])]) = (0, 0, 9).
Proof. vm_compute. repeat split. Qed.

(* ---- non-vacuity: the hypotheses of the conditional theorems are met on non-trivial reachable states ---- *)
Example C20_nonvacuous_binder :
  let c := {| tb_bs := 2; tb_max := 5 |} in
  let s := run (tb_step c) tb_init [TbBindMany [1; 2; 3]; TbUnbind 1; TbUnbind 3; TbBind 4; TbBind 5] in
  tb_linked c s = [2; 4; 5] /\ tb_buckets s = [(1%nat, [5]); (0%nat, [2; 4])] /\ tb_by_index c s 2 = Ok 5
  /\ tb_is_bound c s 1 = false /\ is_ok (tb_step c s (TbBind 1)) = true /\ is_ok (tb_step c s (TbBindMany [1; 3; 6])) = false.
Proof. vm_compute. repeat split. Qed.
Example C20_nonvacuous_docs :
  let c := {| dm_bs := 2; dm_max := 3; dm_max_uri := 200 |} in
  let s := run (dm_step c) dm_init [DmSet 1 d1; DmSet 2 d1; DmSet 3 d1; DmRemove 1] in
  dm_count s = 2%nat /\ dm_by_index c s 0 = Ok (3, d1) /\ dm_get c s 1 = Fail
  /\ is_ok (dm_step c s (DmSet 4 d1)) = true /\ is_ok (dm_step c (run (dm_step c) s [DmSet 4 d1]) (DmSet 5 d1)) = false
  /\ is_ok (dm_step c (run (dm_step c) s [DmSet 4 d1]) (DmSet 2 d1)) = true.
Proof. vm_compute. repeat split. Qed.
Example C20_nonvacuous_compliance :
  let c := {| cm_max := 2 |} in
  let s := run (cm_step c) cm_init [CmAdd 0 1; CmAdd 0 2; CmAdd 1 1; CmRemove 0 1] in
  cm_modules s 0 = [2] /\ cm_is_registered s 0 1 = false /\ is_ok (cm_step c s (CmAdd 0 1)) = true
  /\ is_ok (cm_step c (run (cm_step c) s [CmAdd 0 1]) (CmAdd 0 3)) = false.
Proof. vm_compute. repeat split. Qed.
Example C20_nonvacuous_cti :
  let c := {| cti_max_topics := 2; cti_max_issuers := 1 |} in
  let s := run (cti_step c) cti_init [CtAddTopic 1; CtAddTopic 2; CtAddIssuer 7 [2; 1]; CtUpdateIssuer 7 [1]] in
  cti_get_topic_issuers s 1 = Ok [7] /\ cti_get_topic_issuers s 2 = Ok [] /\ cti_get_issuer_topics s 7 = Ok [1]
  /\ cti_valid c (spec_run (cti_spec c) cti_ref0 [CtAddTopic 1; CtAddTopic 2; CtAddIssuer 7 [2; 1]; CtUpdateIssuer 7 [1]]) [2] = true
  /\ is_ok (cti_step c s (CtAddIssuer 8 [2])) = false /\ is_ok (cti_step c s (CtAddTopic 3)) = false.
Proof. vm_compute. repeat split. Qed.
Example C20_nonvacuous_keys :
  let c := {| ck_max_keys := 1; ck_max_regs := 2 |} in
  let s := run (ck_step c) ck_init [CkAllow 7 0 101 1 (Ok true)] in
  ck_allowed_for_topic s (7, 101) 1 = true /\ ck_allowed_for_registry s (7, 101) 1 = false
  /\ is_ok (ck_step c s (CkAllow 7 1 101 1 (Ok true))) = true                      (* second pair of the key: room *)
  /\ is_ok (ck_step c (run (ck_step c) s [CkAllow 7 1 101 1 (Ok true)]) (CkAllow 7 2 101 1 (Ok true))) = false   (* third: at the limit *)
  /\ ck_allowed_for_topic s (8, 101) 1 = false /\ is_ok (ck_step c s (CkAllow 8 0 101 1 (Ok true))) = false.     (* keys-per-topic limit 1 *)
Proof. vm_compute. repeat split. Qed.
Example C20_nonvacuous_irs :
  let c := {| irs_max_countries := 2; irs_max_meta := 1; irs_max_meta_len := 3 |} in
  let s := run (irs_step c) irs_init [IrAdd 0 9 0 [Build_cdata 1 None]; IrRecover 0 1] in
  irs_recovered_to s 0 = Some 1 /\ irs_stored_identity s 1 = Ok 9 /\ irs_stored_identity s 0 = Fail
  /\ is_ok (irs_step c s (IrAdd 0 9 0 [Build_cdata 1 None])) = false
  /\ is_ok (irs_step c s (IrAddCountries 1 [Build_cdata 2 (Some [(1, 16777216)])])) = true       (* value of 3 bytes *)
  /\ is_ok (irs_step c s (IrAddCountries 1 [Build_cdata 2 (Some [(1, 4294967296)])])) = false    (* value of 4 bytes *)
  /\ is_ok (irs_step c s (IrAddCountries 1 [Build_cdata 2 None; Build_cdata 3 None])) = false.   (* 3 > MAX_COUNTRY_ENTRIES *)
Proof. vm_compute. repeat split. Qed.
Example C20_nonvacuous_claims :
  let s := run ic_step ic_init [IcAdd (Build_claim 1 101 0 1 1 1) true; IcAdd (Build_claim 1 101 5 1 1 1) true;
                                IcAdd (Build_claim 1 102 0 2 2 2) true; IcRemove (5, 1)] in
  ic_ids_by_topic s 1 = [(0, 1)] /\ ic_get_claim s (0, 1) = Ok (Build_claim 1 102 0 2 2 2) /\ ic_get_claim s (5, 1) = Fail.
Proof. vm_compute. repeat split. Qed.
Example C20_nonvacuous_smart_account :
  let c := {| sa_max_rules := 3; sa_max_signers := 2; sa_max_policies := 1; sa_now := 100 |} in
  let sl := run (sa_lstep c) (sa_init, 100)
              [Call (SaAddRule CDefault 0 None [Delegated 0; Delegated 1] []); Advance 600000;
               Call (SaAddRule CDefault 0 None [Delegated 0] []); Call (SaRemoveRule 0);
               Call (SaAddRule (CCall 5) 0 (Some 600200) [Delegated 0] [(3, true)])] in
  sa_count0 (fst sl) = 2%nat /\ snd sl = 600100
  /\ sa_get_rule (fst sl) 2 = Ok (Build_rule 2 (CCall 5) 0 [Delegated 0] [3] (Some 600200))
  /\ is_ok (sa_step (sa_with_now c (snd sl)) (fst sl) (SaAddSigner 1 (Delegated 1))) = true          (* room, new, no collision *)
  /\ is_ok (sa_step (sa_with_now c (snd sl)) (fst sl) (SaAddSigner 1 (Delegated 0))) = false         (* duplicate signer *)
  /\ is_ok (sa_step (sa_with_now c (snd sl)) (fst sl) (SaAddPolicy 2 4 true)) = false                (* MAX_POLICIES = 1 reached *)
  /\ is_ok (sa_step (sa_with_now c (snd sl)) (fst sl) (SaRemovePolicy 2 3)) = true
  /\ is_ok (sa_step (sa_with_now c (snd sl)) (fst sl) (SaRemoveSigner 1 (Delegated 0))) = false      (* would leave no signer, no policy *)
  /\ is_ok (sa_step (sa_with_now c (snd sl)) (fst sl) (SaAddRule CDefault 0 None [Delegated 0] [])) = false   (* duplicate fingerprint of rule 1 *)
  /\ is_ok (sa_step (sa_with_now c (snd sl)) (fst sl) (SaAddRule CDefault 0 None [Delegated 1] [])) = true.
Proof. vm_compute. repeat split. Qed.
