(* C17 - Merkle proofs verify only true membership and each leaf is claimed once.

   Only pinned statements; each is closed by [exact] of a lemma proved in Proofs/ and
   followed by Print Assumptions.  The model is Model/Merkle.v (a transcription of
   crypto/merkle.rs, crypto/hashable.rs, merkle_distributor/storage.rs and the
   fungible-merkle-airdrop example), parametric in
     D : the digest type,  deqb : equality of digests,
     H a b : the hash of the concatenation a ‖ b (Sha256 or Keccak256 hasher),
     gtb a b : a > b in byte order,  LH i a m : the hash of the XDR of the leaf {index, address, amount}.
   The hypotheses about the hash are explicit premises of each theorem (ideal-hash model):
   injectivity of H, the values used as leaves are never pair hashes, the byte order is a
   strict total order.  They are satisfiable: Example C17_free_algebra below. *)
From SC Require Import Lib.Prelude Lib.Int Lib.Host Model.Merkle Proofs.Merkle Proofs.C17Dist Run.C17
  Proofs.MerkleInst Proofs.C17Monitor Proofs.MerkleHasher Proofs.C17Pad.

(* ======================= completeness ======================= *)

(* Positional form: for every tree (any shape, balanced or not), the honest proof of every
   node - in particular every leaf - at depth < 32 verifies against the root with the node's
   position as index.  [proof_of] = sibling hashes deepest first, [index_of] = position. *)
Theorem C17_complete_indexed :
  forall (D : Type) (deqb : D -> D -> bool) (H : D -> D -> D),
  (forall a b : D, deqb a b = true <-> a = b) ->
  forall (t : tree D) (path : list bool) (s : tree D),
  lookup t path = Some s -> (length path < 32)%nat ->
  verify_with_index deqb H (proof_of H t path) (troot H t) (troot H s) (index_of path) = Ok true.
Proof. exact complete_indexed. Qed.
Print Assumptions C17_complete_indexed.

(* Sorted-pair form: the honest proof of every node of every tree built with the commutative
   pair hash verifies (no depth bound in this form). *)
Theorem C17_complete_sorted :
  forall (D : Type) (deqb : D -> D -> bool) (H : D -> D -> D) (gtb : D -> D -> bool),
  (forall a b : D, deqb a b = true <-> a = b) ->
  (forall a b : D, gtb a b = true -> gtb b a = false) ->
  (forall a b : D, gtb a b = false -> gtb b a = false -> a = b) ->
  forall (t : tree D) (path : list bool) (s : tree D),
  lookup t path = Some s ->
  verify deqb H gtb (proof_of (cpair H gtb) t path) (troot (cpair H gtb) t) (troot (cpair H gtb) s) = true.
Proof. exact complete_sorted. Qed.
Print Assumptions C17_complete_sorted.

(* ======================= soundness ======================= *)

(* Positional form: whatever (proof, value, index) is accepted against the root of a tree whose
   leaves are not pair hashes, the value is the node of that tree at depth |proof| and position
   index, and the proof is exactly that node's honest proof. *)
Theorem C17_sound_indexed :
  forall (D : Type) (deqb : D -> D -> bool) (H : D -> D -> D),
  (forall a b : D, deqb a b = true <-> a = b) ->
  (forall a b c d : D, H a b = H c d -> a = c /\ b = d) ->
  forall leafp : D -> Prop, (forall a b : D, ~ leafp (H a b)) ->
  forall (t : tree D) (p : list D) (v : D) (i : Z),
  Forall leafp (leaves t) -> 0 <= i ->
  verify_with_index deqb H p (troot H t) v i = Ok true ->
  exists (path : list bool) (s : tree D),
    lookup t path = Some s /\ troot H s = v /\ proof_of H t path = p /\
    index_of path = i /\ length path = length p.
Proof. exact sound_indexed. Qed.
Print Assumptions C17_sound_indexed.

(* Sorted form: the same, up to the order of siblings (no index). *)
Theorem C17_sound_sorted :
  forall (D : Type) (deqb : D -> D -> bool) (H : D -> D -> D) (gtb : D -> D -> bool),
  (forall a b : D, deqb a b = true <-> a = b) ->
  (forall a b c d : D, H a b = H c d -> a = c /\ b = d) ->
  forall leafp : D -> Prop, (forall a b : D, ~ leafp (cpair H gtb a b)) ->
  forall (t : tree D) (p : list D) (v : D),
  Forall leafp (leaves t) ->
  verify deqb H gtb p (troot (cpair H gtb) t) v = true ->
  exists (path : list bool) (s : tree D),
    lookup t path = Some s /\ troot (cpair H gtb) s = v /\
    proof_of (cpair H gtb) t path = p /\ length path = length p.
Proof. exact sound_sorted. Qed.
Print Assumptions C17_sound_sorted.

(* Every corruption is refused: for a tree with pairwise different leaves, the leaf at [path]
   is accepted with EXACTLY its honest proof and its position - any altered, reordered,
   truncated or extended proof and any other index gives false or fails. *)
Theorem C17_indexed_exact :
  forall (D : Type) (deqb : D -> D -> bool) (H : D -> D -> D),
  (forall a b : D, deqb a b = true <-> a = b) ->
  (forall a b c d : D, H a b = H c d -> a = c /\ b = d) ->
  forall leafp : D -> Prop, (forall a b : D, ~ leafp (H a b)) ->
  forall (t : tree D) (path : list bool) (v : D) (p : list D) (i : Z),
  Forall leafp (leaves t) -> NoDup (leaves t) -> 0 <= i ->
  lookup t path = Some (Lf v) -> (length path < 32)%nat ->
  (verify_with_index deqb H p (troot H t) v i = Ok true <-> p = proof_of H t path /\ i = index_of path).
Proof. exact indexed_exact. Qed.
Print Assumptions C17_indexed_exact.

Theorem C17_sorted_exact :
  forall (D : Type) (deqb : D -> D -> bool) (H : D -> D -> D) (gtb : D -> D -> bool),
  (forall a b : D, deqb a b = true <-> a = b) ->
  (forall a b c d : D, H a b = H c d -> a = c /\ b = d) ->
  (forall a b : D, gtb a b = true -> gtb b a = false) ->
  (forall a b : D, gtb a b = false -> gtb b a = false -> a = b) ->
  forall leafp : D -> Prop, (forall a b : D, ~ leafp (cpair H gtb a b)) ->
  forall (t : tree D) (path : list bool) (v : D) (p : list D),
  Forall leafp (leaves t) -> NoDup (leaves t) ->
  lookup t path = Some (Lf v) ->
  (verify deqb H gtb p (troot (cpair H gtb) t) v = true <-> p = proof_of (cpair H gtb) t path).
Proof. exact sorted_exact. Qed.
Print Assumptions C17_sorted_exact.

(* A leaf-like value that is not a leaf of the tree is refused with every proof (and index). *)
Theorem C17_indexed_nonmember :
  forall (D : Type) (deqb : D -> D -> bool) (H : D -> D -> D),
  (forall a b : D, deqb a b = true <-> a = b) ->
  (forall a b c d : D, H a b = H c d -> a = c /\ b = d) ->
  forall leafp : D -> Prop, (forall a b : D, ~ leafp (H a b)) ->
  forall (t : tree D) (v : D) (p : list D) (i : Z),
  Forall leafp (leaves t) -> 0 <= i -> leafp v -> ~ In v (leaves t) ->
  verify_with_index deqb H p (troot H t) v i <> Ok true.
Proof. exact indexed_nonmember. Qed.
Print Assumptions C17_indexed_nonmember.

Theorem C17_sorted_nonmember :
  forall (D : Type) (deqb : D -> D -> bool) (H : D -> D -> D) (gtb : D -> D -> bool),
  (forall a b : D, deqb a b = true <-> a = b) ->
  (forall a b c d : D, H a b = H c d -> a = c /\ b = d) ->
  forall leafp : D -> Prop, (forall a b : D, ~ leafp (cpair H gtb a b)) ->
  forall (t : tree D) (v : D) (p : list D),
  Forall leafp (leaves t) -> leafp v -> ~ In v (leaves t) ->
  verify deqb H gtb p (troot (cpair H gtb) t) v = false.
Proof. exact sorted_nonmember. Qed.
Print Assumptions C17_sorted_nonmember.

(* NO DIGEST IS NEUTRAL: the honest proof of a leaf with one more element [x] - ANY digest, in particular
   the 32-byte values an implementation might treat as padding (all-zero, all-ones, ...) - inserted at any
   position k ([insert_at k x p] = firstn k p ++ x :: skipn k p) is refused, in both forms, for every tree
   with pairwise different leaves (no hypothesis on x: it may be a leaf, a node or the root of the tree). *)
Theorem C17_sorted_no_neutral_element :
  forall (D : Type) (deqb : D -> D -> bool) (H : D -> D -> D),
  (forall a b : D, deqb a b = true <-> a = b) ->
  (forall a b c d : D, H a b = H c d -> a = c /\ b = d) ->
  forall gtb : D -> D -> bool,
  (forall a b : D, gtb a b = true -> gtb b a = false) ->
  (forall a b : D, gtb a b = false -> gtb b a = false -> a = b) ->
  forall leafp : D -> Prop, (forall a b : D, ~ leafp (cpair H gtb a b)) ->
  forall (t : tree D) (path : list bool) (v x : D) (k : nat),
  Forall leafp (leaves t) -> NoDup (leaves t) -> lookup t path = Some (Lf v) ->
  verify deqb H gtb (firstn k (proof_of (cpair H gtb) t path) ++ x :: skipn k (proof_of (cpair H gtb) t path))
         (troot (cpair H gtb) t) v = false.
Proof. exact sorted_no_neutral_element. Qed.
Print Assumptions C17_sorted_no_neutral_element.

Theorem C17_indexed_no_neutral_element :
  forall (D : Type) (deqb : D -> D -> bool) (H : D -> D -> D),
  (forall a b : D, deqb a b = true <-> a = b) ->
  (forall a b c d : D, H a b = H c d -> a = c /\ b = d) ->
  forall leafp : D -> Prop, (forall a b : D, ~ leafp (H a b)) ->
  forall (t : tree D) (path : list bool) (v x : D) (k : nat) (i : Z),
  Forall leafp (leaves t) -> NoDup (leaves t) -> 0 <= i -> lookup t path = Some (Lf v) ->
  verify_with_index deqb H (firstn k (proof_of H t path) ++ x :: skipn k (proof_of H t path)) (troot H t) v i <> Ok true.
Proof. exact indexed_no_neutral_element. Qed.
Print Assumptions C17_indexed_no_neutral_element.

(* Per root, proof length and index at most one (value, proof) is accepted - no tree needed. *)
Theorem C17_indexed_unique :
  forall (D : Type) (deqb : D -> D -> bool) (H : D -> D -> D),
  (forall a b : D, deqb a b = true <-> a = b) ->
  (forall a b c d : D, H a b = H c d -> a = c /\ b = d) ->
  forall (p p' : list D) (r v v' : D) (i : Z),
  length p = length p' ->
  verify_with_index deqb H p r v i = Ok true ->
  verify_with_index deqb H p' r v' i = Ok true -> v = v' /\ p = p'.
Proof. exact indexed_unique. Qed.
Print Assumptions C17_indexed_unique.

(* Any other root is refused. *)
Theorem C17_indexed_other_root :
  forall (D : Type) (deqb : D -> D -> bool) (H : D -> D -> D),
  (forall a b : D, deqb a b = true <-> a = b) ->
  forall (p : list D) (r r' v : D) (i : Z),
  verify_with_index deqb H p r v i = Ok true -> r' <> r ->
  verify_with_index deqb H p r' v i = Ok false.
Proof. exact indexed_other_root. Qed.
Print Assumptions C17_indexed_other_root.

Theorem C17_sorted_other_root :
  forall (D : Type) (deqb : D -> D -> bool) (H : D -> D -> D) (gtb : D -> D -> bool),
  (forall a b : D, deqb a b = true <-> a = b) ->
  forall (p : list D) (r r' v : D),
  verify deqb H gtb p r v = true -> r' <> r -> verify deqb H gtb p r' v = false.
Proof. exact sorted_other_root. Qed.
Print Assumptions C17_sorted_other_root.

(* ======================= the distributor: single claim ======================= *)
(* [step] is the state machine of set_root / set_claimed / verify_and_set_claimed (ClaimS) /
   verify_with_index_and_set_claimed (ClaimI) / the example's claim (Airdrop); [run] folds it over
   a call list.  [claim_index c] = Some j for the three claim calls on index j.
   These hold for an arbitrary hash (no hypothesis). *)

(* SINGLE CLAIM: once a claim for index j has succeeded, every later claim for j - by any of the
   three entry points, with any data and proof, after any call sequence (root changes included) -
   fails and leaves the state unchanged. *)
Theorem C17_claim_once :
  forall (D : Type) (deqb : D -> D -> bool) (H : D -> D -> D) (gtb : D -> D -> bool)
         (LH : N -> addr -> Z -> D) (s : state D) (c : call D) (j : N) (cs : list (call D)) (c' : call D),
  claim_index D c = Some j ->
  snd (step deqb H gtb LH s c) = Ok None ->
  claim_index D c' = Some j ->
  snd (step deqb H gtb LH (run deqb H gtb LH (fst (step deqb H gtb LH s c)) cs) c') = Fail /\
  fst (step deqb H gtb LH (run deqb H gtb LH (fst (step deqb H gtb LH s c)) cs) c')
    = run deqb H gtb LH (fst (step deqb H gtb LH s c)) cs.
Proof. exact claim_once. Qed.
Print Assumptions C17_claim_once.

(* AT MOST ONE SUCCESS PER INDEX, over every call sequence from every state:
   [successes j s cs] counts the claim calls for index j (ClaimS, ClaimI, Airdrop) in cs that
   succeed when cs is run from s. *)
Theorem C17_at_most_one_claim :
  forall (D : Type) (deqb : D -> D -> bool) (H : D -> D -> D) (gtb : D -> D -> bool)
         (LH : N -> addr -> Z -> D) (cs : list (call D)) (s : state D) (j : N),
  (successes D deqb H gtb LH j s cs <= 1)%nat.
Proof. exact at_most_one_claim. Qed.
Print Assumptions C17_at_most_one_claim.

(* Claimed forever: over every call sequence a set flag stays set. *)
Theorem C17_claimed_forever :
  forall (D : Type) (deqb : D -> D -> bool) (H : D -> D -> D) (gtb : D -> D -> bool)
         (LH : N -> addr -> Z -> D) (cs : list (call D)) (s : state D) (j : N),
  is_claimed s j = true -> is_claimed (run deqb H gtb LH s cs) j = true.
Proof. exact claimed_forever. Qed.
Print Assumptions C17_claimed_forever.

(* ONLY AFTER A VALID PROOF AGAINST THE CURRENT ROOT: an index that is claimed after a call
   sequence was claimed before it, or the sequence contains a successful call that is either the
   explicit set_claimed j, or a claim for j - made while j was unclaimed - whose proof verifies
   ([claim_valid]: verify / verify_with_index of the leaf hash = true) against the root stored at
   that moment. *)
Theorem C17_claimed_only_by :
  forall (D : Type) (deqb : D -> D -> bool) (H : D -> D -> D) (gtb : D -> D -> bool)
         (LH : N -> addr -> Z -> D) (cs : list (call D)) (s : state D) (j : N),
  is_claimed (run deqb H gtb LH s cs) j = true ->
  is_claimed s j = true \/
  (exists (cs1 : list (call D)) (c : call D) (cs2 : list (call D)),
     cs = cs1 ++ c :: cs2 /\
     snd (step deqb H gtb LH (run deqb H gtb LH s cs1) c) = Ok None /\
     is_claimed (run deqb H gtb LH s cs1) j = false /\
     (c = SetClaimed j \/
      claim_index D c = Some j /\
      (exists r : D, root (run deqb H gtb LH s cs1) = Some r /\ claim_valid D deqb H gtb LH r c))).
Proof. exact claimed_only_by. Qed.
Print Assumptions C17_claimed_only_by.

(* A failed call marks nothing (changes nothing at all). *)
Theorem C17_fail_unchanged :
  forall (D : Type) (deqb : D -> D -> bool) (H : D -> D -> D) (gtb : D -> D -> bool)
         (LH : N -> addr -> Z -> D) (s : state D) (c : call D),
  snd (step deqb H gtb LH s c) = Fail -> fst (step deqb H gtb LH s c) = s.
Proof. exact fail_unchanged. Qed.
Print Assumptions C17_fail_unchanged.

(* The airdrop example pays exactly the claimed amount, from the contract to the receiver,
   exactly when it marks the (previously unmarked) index; no other call moves tokens. *)
Theorem C17_airdrop_pays :
  forall (D : Type) (deqb : D -> D -> bool) (H : D -> D -> D) (gtb : D -> D -> bool)
         (LH : N -> addr -> Z -> D) (s : state D) (i : N) (a : addr) (m : Z) (p : list D) (s' : state D),
  step deqb H gtb LH s (Airdrop i a m p) = (s', Ok None) ->
  0 <= m <= balance s (self s) /\
  is_claimed s i = false /\ is_claimed s' i = true /\
  (forall x : addr,
     balance s' x = balance s x - (if (x =? self s)%N then m else 0) + (if (x =? a)%N then m else 0)).
Proof. exact airdrop_pays. Qed.
Print Assumptions C17_airdrop_pays.

Theorem C17_balances_change_only_by_airdrop :
  forall (D : Type) (deqb : D -> D -> bool) (H : D -> D -> D) (gtb : D -> D -> bool)
         (LH : N -> addr -> Z -> D) (s : state D) (c : call D),
  (forall (i : N) (a : addr) (m : Z) (p : list D), c <> Airdrop i a m p) ->
  forall x : addr, balance (fst (step deqb H gtb LH s c)) x = balance s x.
Proof. exact balances_change_only_by_airdrop. Qed.
Print Assumptions C17_balances_change_only_by_airdrop.

(* Pool accounting over every call sequence: the contract's token balance decreases exactly by
   [paid s cs] = the sum of the amounts of the successful Airdrop calls (paying another address). *)
Theorem C17_pool_accounting :
  forall (D : Type) (deqb : D -> D -> bool) (H : D -> D -> D) (gtb : D -> D -> bool)
         (LH : N -> addr -> Z -> D) (cs : list (call D)) (s : state D),
  balance (run deqb H gtb LH s cs) (self s) = balance s (self s) - paid D deqb H gtb LH s cs.
Proof. exact pool_accounting. Qed.
Print Assumptions C17_pool_accounting.

(* End to end (ideal hash): when the stored root is the root of a tree - of any shape - whose
   leaves are the hashes of the listed (index, address, amount) triples, only listed triples can
   be claimed; in the positional form moreover only at the position equal to the index. *)
Theorem C17_claim_only_listed_sorted :
  forall (D : Type) (deqb : D -> D -> bool) (H : D -> D -> D) (gtb : D -> D -> bool) (LH : N -> addr -> Z -> D),
  (forall a b : D, deqb a b = true <-> a = b) ->
  (forall a b c d : D, H a b = H c d -> a = c /\ b = d) ->
  (forall (i : N) (a : addr) (m : Z) (i' : N) (a' : addr) (m' : Z),
     LH i a m = LH i' a' m' -> (i, a, m) = (i', a', m')) ->
  (forall (i : N) (a : addr) (m : Z) (x y : D), LH i a m <> H x y) ->
  forall (data : list (N * addr * Z)) (t : tree D) (s : state D) (i : N) (a : addr) (m : Z)
         (p : list D) (s' : state D),
  leaves t = map (fun x => LH (fst (fst x)) (snd (fst x)) (snd x)) data ->
  root s = Some (troot (cpair H gtb) t) ->
  claim_sorted deqb H gtb LH s i a m p = Ok s' -> In (i, a, m) data.
Proof. exact claim_only_listed_sorted. Qed.
Print Assumptions C17_claim_only_listed_sorted.

Theorem C17_claim_only_listed_indexed :
  forall (D : Type) (deqb : D -> D -> bool) (H : D -> D -> D) (LH : N -> addr -> Z -> D),
  (forall a b : D, deqb a b = true <-> a = b) ->
  (forall a b c d : D, H a b = H c d -> a = c /\ b = d) ->
  (forall (i : N) (a : addr) (m : Z) (i' : N) (a' : addr) (m' : Z),
     LH i a m = LH i' a' m' -> (i, a, m) = (i', a', m')) ->
  (forall (i : N) (a : addr) (m : Z) (x y : D), LH i a m <> H x y) ->
  forall (data : list (N * addr * Z)) (t : tree D) (s : state D) (i : N) (a : addr) (m : Z)
         (p : list D) (s' : state D),
  leaves t = map (fun x => LH (fst (fst x)) (snd (fst x)) (snd x)) data ->
  root s = Some (troot H t) ->
  claim_indexed deqb H LH s i a m p = Ok s' ->
  In (i, a, m) data /\
  (exists path : list bool,
     lookup t path = Some (Lf (LH i a m)) /\ index_of path = Z.of_N i /\ p = proof_of H t path).
Proof. exact claim_only_listed_indexed. Qed.
Print Assumptions C17_claim_only_listed_indexed.

(* ======================= the Hasher level ======================= *)
(* Model/Merkle.v Part 1b transcribes sha256.rs / keccak.rs (state : Option<Bytes>; update = set or
   append; finalize = trap on the empty state, else the host hash), hashable.rs (hash_pair,
   commutative_hash_pair) and the loops of merkle.rs with the hasher calls explicit.  On the paths
   the library uses, the empty-state trap is unreachable and the result is exactly the function of
   the theorems above for  H a b := hashfn (bytes a ++ bytes b). *)
Theorem C17_hasher_refines_verify :
  forall (B D : Type) (bapp : B -> B -> B) (hashfn : B -> D) (bytes_of : D -> B)
         (deqb gtb : D -> D -> bool) (proof : list D) (root leaf : D),
  verify_h bapp hashfn bytes_of deqb gtb proof root leaf
  = Ok (verify deqb (fun a b => hashfn (bapp (bytes_of a) (bytes_of b))) gtb proof root leaf).
Proof. exact verify_h_refines. Qed.
Print Assumptions C17_hasher_refines_verify.

Theorem C17_hasher_refines_verify_with_index :
  forall (B D : Type) (bapp : B -> B -> B) (hashfn : B -> D) (bytes_of : D -> B)
         (deqb : D -> D -> bool) (proof : list D) (root leaf : D) (index : Z),
  verify_with_index_h bapp hashfn bytes_of deqb proof root leaf index
  = verify_with_index deqb (fun a b => hashfn (bapp (bytes_of a) (bytes_of b))) proof root leaf index.
Proof. exact verify_with_index_h_refines. Qed.
Print Assumptions C17_hasher_refines_verify_with_index.

(* the leaf hash of the distributor (update(xdr); finalize) never traps *)
Theorem C17_leaf_hash_never_traps :
  forall (B D : Type) (bapp : B -> B -> B) (hashfn : B -> D) (x : B),
  leaf_hash_h bapp hashfn x = Ok (hashfn x).
Proof. exact leaf_hash_h_ok. Qed.
Print Assumptions C17_leaf_hash_never_traps.

(* the injectivity premise of the theorems above, from the byte-string hash: hashfn injective and
   the concatenation of two 32-byte blocks determines the blocks *)
Theorem C17_pair_hash_injective :
  forall (B D : Type) (bapp : B -> B -> B) (hashfn : B -> D) (bytes_of : D -> B),
  (forall x y : B, hashfn x = hashfn y -> x = y) ->
  (forall a b c d : D, bapp (bytes_of a) (bytes_of b) = bapp (bytes_of c) (bytes_of d) -> a = c /\ b = d) ->
  forall a b c d : D,
  hashfn (bapp (bytes_of a) (bytes_of b)) = hashfn (bapp (bytes_of c) (bytes_of d)) -> a = c /\ b = d.
Proof. exact H_of_inj. Qed.
Print Assumptions C17_pair_hash_injective.

(* ======================= the executable instance ======================= *)
(* The hash used when implementation traces are evaluated: lookup in the table of real hash
   evaluations performed by the harness ([At n] = n-th real digest in byte order), a formal pair
   otherwise.  It is injective as soon as no two table entries have the same output - a boolean
   checked on every trace - so the theorems above apply to it. *)
Theorem C17_table_hash_injective :
  forall t : htab, tab_sorted t = true ->
  forall a b c d : dg, Htab t a b = Htab t c d -> a = c /\ b = d.
Proof. exact Htab_inj. Qed.
Print Assumptions C17_table_hash_injective.

(* The leaf hashes the harness evaluated behave like an ideal leaf hash on every well-formed header
   ([wf_hdr], checked on every trace): one digest is the hash of one (index, address, amount) only and
   is never the output of a pair hash - the two extra hypotheses of C17_claim_only_listed_*. *)
Theorem C17_table_leaf_hash_ideal :
  forall h : hdr, wf_hdr h = true ->
  (forall (i : N) (a : addr) (m : Z) (i' : N) (a' : addr) (m' : Z) (c : N),
     ltab_get (h_ltab h) i a m = Some c -> ltab_get (h_ltab h) i' a' m' = Some c -> (i, a, m) = (i', a', m')) /\
  (forall (i : N) (a : addr) (m : Z) (c : N) (x y : dg),
     ltab_get (h_ltab h) i a m = Some c -> At c <> Htab (h_tab h) x y).
Proof. exact ltab_hits_ideal. Qed.
Print Assumptions C17_table_leaf_hash_ideal.

(* The trace checker run on the implementation accepts every run of the model: for every header
   (hash tables, declared trees), initial observation and list of (call, flags read after the call) -
   the harness may leave flags unread - satisfying the boolean input conditions [wf_input] (table
   outputs pairwise different, declared leaves and leaf hashes are not table outputs, leaf table
   injective, first observation without duplicate keys, roots verified against are declared roots or
   not hashes, indices/addresses/read flags are in the universe, every hash the model needs is in the
   table) both the diff and the monitor are silent.  [check] itself evaluates all of these conditions:
   a trace violating one of them is a disagreement and a monitor failure. *)
Theorem C17_monitor_accepts_model :
  forall (h : hdr) (o0 : obs) (cs : list (call dg * list N)),
  wf_input h o0 cs = true -> check (model_trace h o0 cs) = (0%N, 0%N, 0%N).
Proof. exact check_accepts_model. Qed.
Print Assumptions C17_monitor_accepts_model.

(* ======================= non-vacuity ======================= *)
(* The hypotheses are satisfiable: the free term algebra (H := Pr, leaves := atoms, order := dg_cmp). *)
Example C17_free_algebra :
  (forall a b, dg_eqb a b = true <-> a = b) /\
  (forall a b c d, Pr a b = Pr c d -> a = c /\ b = d) /\
  (forall a b, dg_gtb a b = true -> dg_gtb b a = false) /\
  (forall a b, dg_gtb a b = false -> dg_gtb b a = false -> a = b) /\
  (forall a b, ~ free_leaf (Pr a b)) /\
  (forall a b, ~ free_leaf (cpair Pr dg_gtb a b)).
Proof. exact free_algebra_satisfies_hypotheses. Qed.

(* ... so the soundness theorem holds unconditionally there *)
Example C17_free_algebra_sound :
  forall (t : tree dg) (p : list dg) (v : dg) (i : Z),
  Forall free_leaf (leaves t) -> 0 <= i ->
  verify_with_index dg_eqb Pr p (troot Pr t) v i = Ok true ->
  exists path s, lookup t path = Some s /\ troot Pr s = v /\ proof_of Pr t path = p /\
                 index_of path = i /\ length path = length p.
Proof.
  destruct free_algebra_satisfies_hypotheses as (H1 & H2 & _ & _ & H5 & _).
  exact (sound_indexed dg dg_eqb Pr H1 H2 free_leaf H5).
Qed.

(* a three-leaf unbalanced tree in the free algebra: honest proofs accepted, corruptions refused *)
Example C17_concrete :
  let t := Nd (Nd (Lf (At 5%N)) (Lf (At 2%N))) (Lf (At 9%N)) in
  let r := troot Pr t in
  let rs := troot (cpair Pr dg_gtb) t in
  verify_with_index dg_eqb Pr [At 5%N; At 9%N] r (At 2%N) 1 = Ok true /\
  verify_with_index dg_eqb Pr [At 5%N; At 9%N] r (At 2%N) 0 = Ok false /\
  verify_with_index dg_eqb Pr [At 5%N; At 9%N] r (At 2%N) 5 = Fail /\
  verify_with_index dg_eqb Pr [At 9%N; At 5%N] r (At 2%N) 1 = Ok false /\
  verify_with_index dg_eqb Pr [Pr (At 5%N) (At 2%N)] r (At 9%N) 1 = Ok true /\
  verify dg_eqb Pr dg_gtb [At 5%N; At 9%N] rs (At 2%N) = true /\
  verify dg_eqb Pr dg_gtb [At 9%N] rs (At 2%N) = false /\
  verify dg_eqb Pr dg_gtb [At 5%N; At 9%N] rs (At 3%N) = false.
Proof. vm_compute. repeat split. Qed.

(* the hypothesis "leaves are not pair hashes" is necessary (the 64-byte-leaf caveat documented in
   merkle.rs): if a leaf of the tree is itself the hash of a pair, a value that is not a leaf is
   accepted, with a proof that is not the honest proof of any leaf *)
Example C17_leaf_caveat :
  let t := Nd (Lf (Pr (At 1%N) (At 2%N))) (Lf (At 9%N)) in
  ~ In (At 1%N) (leaves t) /\
  verify_with_index dg_eqb Pr [At 2%N; At 9%N] (troot Pr t) (At 1%N) 0 = Ok true /\
  verify dg_eqb Pr dg_gtb [At 2%N; At 9%N] (troot (cpair Pr dg_gtb) t) (At 1%N) = true.
Proof. cbv zeta. split; [|vm_compute; split; reflexivity]. cbn. intros [E|[E|[]]]; discriminate. Qed.

(* the table-driven hash used on implementation traces is the Hasher level over block sequences *)
Example C17_table_hash_is_hasher_level :
  forall t a b, hash_pair_h (@app dg) (hashfn_tab t) (fun d => [d]) a b = Ok (Htab t a b).
Proof. reflexivity. Qed.

(* the two extra hypotheses of C17_claim_only_listed_* (injective leaf hash that is never a pair
   hash) are satisfiable together with the others: free algebra with a leaf-hash constructor *)
Example C17_end_to_end_hypotheses_satisfiable :
  (forall a b, fd_eqb a b = true <-> a = b) /\
  (forall a b c d, FP a b = FP c d -> a = c /\ b = d) /\
  (forall i a m i' a' m', FL i a m = FL i' a' m' -> (i, a, m) = (i', a', m')) /\
  (forall i a m x y, FL i a m <> FP x y).
Proof. exact end_to_end_hypotheses_satisfiable. Qed.

(* ... so only listed triples can be claimed there, for every tree shape *)
Example C17_end_to_end_instance :
  forall gtb data (t : tree fd) (s : state fd) i a m p s',
  leaves t = map (fun x => FL (fst (fst x)) (snd (fst x)) (snd x)) data ->
  root s = Some (troot (cpair FP gtb) t) ->
  claim_sorted fd_eqb FP gtb FL s i a m p = Ok s' -> In (i, a, m) data.
Proof.
  destruct end_to_end_hypotheses_satisfiable as (H1 & H2 & H3 & H4). intros gtb.
  exact (claim_only_listed_sorted fd fd_eqb FP gtb FL H1 H2 H3 H4).
Qed.

(* the exactness theorem instantiated on a concrete unbalanced tree of the free algebra: the leaf
   At 2 (left-right) is accepted with exactly one (proof, index) *)
Example C17_exact_instance :
  let t := Nd (Nd (Lf (At 5%N)) (Lf (At 2%N))) (Lf (At 9%N)) in
  forall p i, 0 <= i ->
  (verify_with_index dg_eqb Pr p (troot Pr t) (At 2%N) i = Ok true <-> p = [At 5%N; At 9%N] /\ i = 1).
Proof.
  cbv zeta. intros p i Hi.
  destruct free_algebra_satisfies_hypotheses as (H1 & H2 & _ & _ & H5 & _).
  set (t := Nd (Nd (Lf (At 5%N)) (Lf (At 2%N))) (Lf (At 9%N))).
  assert (Hw : Forall free_leaf (leaves t)) by (repeat constructor).
  assert (Hn : NoDup (leaves t)) by (repeat constructor; cbn; intuition discriminate).
  assert (Hl : lookup t [false; true] = Some (Lf (At 2%N))) by reflexivity.
  assert (Hlen : (length [false; true] < 32)%nat) by (cbn; lia).
  exact (indexed_exact dg dg_eqb Pr H1 H2 free_leaf H5 t [false; true] (At 2%N) p i Hw Hn Hi Hl Hlen).
Qed.

(* THE DEPTH BOUND OF THE POSITIONAL FORM (documented in merkle.rs: MerkleProofOutOfBounds when the
   proof length is >= 32): the honest proof of a leaf at depth 32 - a 33-leaf chain - is refused by
   verify_with_index (it fails), although the sorted form accepts it; C17_complete_indexed therefore
   carries length path < 32.  The property text ("accepts every leaf ... all trees") does not hold
   beyond depth 31 for the positional form; this is a limit of the library, recorded in props. *)
Example C17_depth32_bound :
  let t := Examples.t33 in let path := Examples.path32 in
  lookup t path = Some (Lf (At 0%N)) /\ length path = 32%nat /\ index_of path = 4294967295 /\
  verify_with_index dg_eqb Pr (proof_of Pr t path) (troot Pr t) (At 0%N) (index_of path) = Fail /\
  verify dg_eqb Pr dg_gtb (proof_of (cpair Pr dg_gtb) t path) (troot (cpair Pr dg_gtb) t) (At 0%N) = true.
Proof. vm_compute. repeat split. Qed.

(* the monitor rejects an implementation that treats the all-zero digest as padding (skips it): padded proofs
   accepted by verify / verify_with_index / the claims, the honest proof of a leaf whose sibling IS the all-zero
   digest refused (Proofs/C17Pad.v, Module PadExamples); the correct answers on such a tree are accepted *)
Example C17_monitor_rejects_padding :
  snd (fst (check PadExamples.bad_zero_front)) = 1%N /\
  snd (fst (check PadExamples.bad_zero_back)) = 1%N /\
  snd (fst (check PadExamples.bad_zero_idx)) = 1%N /\
  snd (fst (check PadExamples.bad_zero_claim)) = 1%N /\
  snd (fst (check PadExamples.bad_zero_airdrop)) = 1%N /\
  snd (fst (check PadExamples.bad_padded_honest_refused)) = 1%N /\
  snd (fst (check PadExamples.bad_padded_claim_refused)) = 1%N /\
  snd (fst (check PadExamples.bad_all_zero)) = 1%N /\
  snd (fst (check PadExamples.good_padded_tree)) = 0%N.
Proof. exact PadExamples.check_pad_examples. Qed.

(* the monitor rejects each kind of violation on hand-made traces (Run/C17.v, Module Examples) *)
Example C17_monitor_rejects :
  check Examples.good = (0%N, 0%N, 0%N) /\
  snd (fst (check Examples.bad_forged)) = 1%N /\
  snd (fst (check Examples.bad_reject_honest)) = 1%N /\
  snd (fst (check Examples.bad_index)) = 1%N /\
  snd (fst (check Examples.bad_double)) = 3%N /\
  snd (fst (check Examples.bad_failed_marks)) = 2%N /\
  snd (fst (check Examples.bad_old_root)) = 3%N /\
  snd (fst (check Examples.bad_unclaim)) = 3%N /\
  snd (fst (check Examples.bad_pay)) = 1%N /\
  check Examples.good_unread = (0%N, 0%N, 0%N) /\
  snd (fst (check Examples.bad_lapse)) = 3%N /\
  snd (fst (check Examples.bad_root_lapse)) = 2%N /\
  snd (fst (check Examples.bad_getter_trap)) = 1%N /\
  (* malformed headers / observations and calls the monitor cannot judge are monitor failures *)
  snd (fst (check Examples.bad_ltab_collision)) = 1%N /\
  snd (fst (check Examples.bad_leaf_is_node)) = 1%N /\
  snd (fst (check Examples.bad_undeclared)) = 1%N /\
  snd (fst (check Examples.bad_table)) = 1%N /\
  snd (fst (check Examples.bad_obs0)) = 1%N /\
  snd (fst (check Examples.bad_leaf_refused)) = 1%N /\
  snd (fst (check Examples.bad_nonmember)) = 1%N /\
  (* where the text leaves the outcome open the monitor accepts both (the diff still reports the change) *)
  snd (fst (check Examples.lib_index_false)) = 0%N /\
  snd (fst (check Examples.lib_internal_true)) = 0%N /\
  snd (fst (check Examples.lib_internal_false)) = 0%N /\
  snd (fst (check (Examples.d32 Fail))) = 0%N /\
  snd (fst (check (Examples.d32 (Ok (Some true))))) = 0%N /\
  snd (fst (check (Examples.d32 (Ok (Some false))))) = 1%N.
Proof. vm_compute. repeat split. Qed.
