(* C14 - Account policies enforce exactly their threshold, weight and spending rules.
   Only pinned statements: each closed by [exact] of a lemma proved in Proofs/, followed by
   Print Assumptions; Examples show the hypotheses are satisfiable on non-trivial states.

   Vocabulary (Model/Policies.v, Model/PoliciesSpec.v):
     step c s call = (s', outcome, events)     one call of the model (old state on Fail)
     run c s calls                             the state after a list of calls
     run_log c s [] calls                      the same run, paired with the specification-level
                                               log: per (account, rule) with an installed spending
                                               policy the limit in force, the period and the list
                                               gi_log of (amount, ledger) of every enforced transfer
                                               since installation, oldest first
     wsum m sgs / wtotal m                     plain sums of configured weights (unbounded Z)
     window_sum n P log                        sum of the amounts logged at ledgers in (n - P, n]
     l_batch_ok n L P ctxs log                 every transfer of the batch, in order, keeps
                                               window_sum within L
     has_auth auths a                          the account's authorisation is attached to the call *)
From SC Require Import Lib.Prelude Lib.Int Lib.Host Model.Policies Model.PoliciesSpec
  Proofs.Policies Proofs.PoliciesSpend Proofs.PoliciesInv Proofs.PoliciesExact Proofs.C14Final Proofs.PoliciesWindows Run.C14 Proofs.C14Monitor Proofs.C14Classes.
From Coq Require Import Sorting.Sorted.

(* ---- simple threshold: accepts exactly when the number of authenticated signers reaches the
   threshold (any state, any context, any signer list) ---- *)
Theorem C14_simple_iff : forall c s a r ctx sgs au,
  let met := match kget (a, r) (st_simple s) with Some t => t <=? len sgs | None => false end in
  snd (fst (step c s (CanEnforce PS a r ctx sgs))) = Ok (RBool met) /\
  is_ok (snd (fst (step c s (Enforce PS au a r [ctx] sgs)))) = has_auth au a && met.
Proof. exact simple_iff. Qed.
Print Assumptions C14_simple_iff.

(* ---- weighted threshold: in every reachable state, exactly when the plain sum of the
   configured weights of the authenticated signers reaches the threshold; the u32 accumulation
   traps only if that sum exceeds u32::MAX, which distinct signers can never cause ---- *)
Theorem C14_weighted_iff : forall c n0 cs a r d ctx sgs au,
  let s := run c (init n0) cs in
  kget (a, r) (st_weighted s) = Some d ->
  let w := wsum (wd_weights d) sgs in
  snd (fst (step c s (CanEnforce PW a r ctx sgs))) = (if w <=? MAXU32 then Ok (RBool (wd_thr d <=? w)) else Fail) /\
  is_ok (snd (fst (step c s (Enforce PW au a r [ctx] sgs)))) = has_auth au a && (w <=? MAXU32) && (wd_thr d <=? w) /\
  (NoDup sgs -> w <= wtotal (wd_weights d) <= MAXU32).
Proof. exact weighted_iff. Qed.
Print Assumptions C14_weighted_iff.

(* a policy that is not installed for (account, rule): can_enforce = false, enforce fails *)
Theorem C14_not_installed_refuses : forall c s p a r ctx sgs au,
  match p with
  | PS => kget (a, r) (st_simple s) = None
  | PW => kget (a, r) (st_weighted s) = None
  | PL => kget (a, r) (st_spend s) = None
  end ->
  snd (fst (step c s (CanEnforce p a r ctx sgs))) = Ok (RBool false) /\
  snd (fst (step c s (Enforce p au a r [ctx] sgs))) = Fail.
Proof. exact not_installed_refuses. Qed.
Print Assumptions C14_not_installed_refuses.

(* ---- both threshold policies refuse a zero or unreachable threshold; the stored
   configuration of every reachable state satisfies 0 < t (<= total <= u32::MAX) ---- *)
Theorem C14_config_refused : forall c n0 cs,
  let s := run c (init n0) cs in
  (forall au a r rs t, t = 0 \/ len rs < t ->
     snd (fst (step c s (SInstall au a r rs t))) = Fail /\ snd (fst (step c s (SSetThreshold au a r rs t))) = Fail) /\
  (forall au a r ws t, t = 0 \/ wtotal (wnorm ws) < t \/ MAXU32 < wtotal (wnorm ws) ->
     snd (fst (step c s (WInstall au a r ws t))) = Fail) /\
  (forall au a r d, kget (a, r) (st_weighted s) = Some d ->
     (forall t, t = 0 \/ wtotal (wd_weights d) < t -> snd (fst (step c s (WSetThreshold au a r t))) = Fail) /\
     (forall sg w, let tot := wtotal (alist_set sg w (wd_weights d)) in
                   tot < wd_thr d \/ MAXU32 < tot -> snd (fst (step c s (WSetWeight au a r sg w))) = Fail)) /\
  (forall k t, kget k (st_simple s) = Some t -> 0 < t <= MAXU32) /\
  (forall k d, kget k (st_weighted s) = Some d ->
     NoDup (map fst (wd_weights d)) /\
     Forall (fun kv => 0 <= snd kv <= MAXU32) (wd_weights d) /\
     0 < wd_thr d <= wtotal (wd_weights d) /\ wtotal (wd_weights d) <= MAXU32).
Proof. exact config_refused_all. Qed.
Print Assumptions C14_config_refused.

(* ---- for all three policies, every state (also with 1000 stored entries), every context
   (also non-transfer and malformed ones): enforce succeeds exactly when the account's
   authorisation is attached and can_enforce answers true in the same state ---- *)
Theorem C14_can_enforce_agrees : forall c p s au a r ctx sgs,
  0 < max_history c ->
  is_ok (snd (fst (step c s (Enforce p au a r [ctx] sgs)))) =
  has_auth au a &&
  match snd (fst (step c s (CanEnforce p a r ctx sgs))) with Ok (RBool true) => true | _ => false end.
Proof. exact can_enforce_agrees. Qed.
Print Assumptions C14_can_enforce_agrees.

(* every state-changing entry point (install, uninstall, set_*, enforce of a non-empty batch)
   fails and changes nothing unless the smart account's own authorisation is attached *)
Theorem C14_needs_account_auth : forall c s cl au k,
  call_auths cl = Some au -> call_key cl = Some k -> has_auth au (fst k) = false ->
  step c s cl = (s, Fail, []).
Proof. exact needs_account_auth. Qed.
Print Assumptions C14_needs_account_auth.

Theorem C14_can_enforce_readonly : forall c s p a r ctx sgs,
  fst (fst (step c s (CanEnforce p a r ctx sgs))) = s /\ snd (step c s (CanEnforce p a r ctx sgs)) = [].
Proof. exact can_enforce_readonly. Qed.
Print Assumptions C14_can_enforce_readonly.

(* a rejected attempt leaves no trace: same state, no event.
   NB: this statement and C14_can_enforce_readonly (and the "changes nothing" half of
   C14_needs_account_auth) hold by the construction of [step] - the model returns the old state on
   every failure, mirroring the host's rollback of a failed invocation, and never writes in
   can_enforce.  They prove nothing about the code: for the code these clauses rest on the host
   rollback and on the correspondence run, where the monitor compares every getter and the event
   list after every failing and every read-only call. *)
Theorem C14_rejected_no_trace : forall c s cl,
  snd (fst (step c s cl)) = Fail -> step c s cl = (s, Fail, []).
Proof. exact rejected_no_trace. Qed.
Print Assumptions C14_rejected_no_trace.

(* a call touches only the entry of its own (account, rule) *)
Theorem C14_only_own_entry : forall c s cl s' o evs k',
  step c s cl = (s', o, evs) -> call_key cl <> Some k' ->
  kget k' (st_simple s') = kget k' (st_simple s) /\
  kget k' (st_weighted s') = kget k' (st_weighted s) /\
  kget k' (st_spend s') = kget k' (st_spend s).
Proof. exact only_own_entry. Qed.
Print Assumptions C14_only_own_entry.

(* ---- the rolling window.  After any list of calls starting at a ledger >= 1 (ledgers only
   advance), whenever enforce of a transfer succeeds at ledger n: the log holds an installation
   whose limit L and period P are those in force (the stored ones), and the amounts of all
   transfers enforced at ledgers in (n - P, n], this one included, sum to at most L.
   Corollary (non-negative amounts): the same bound holds for every window of P consecutive
   ledgers ending at any m >= n, until the next transfer is enforced - i.e. any window is bounded
   by the limit in force at the last enforcement inside it. ---- *)
Theorem C14_window : forall c n0 cs au a r ctx sgs,
  1 <= n0 ->
  let s := fst (run_log c (init n0) [] cs) in
  let g := snd (run_log c (init n0) [] cs) in
  is_ok (snd (fst (step c s (Enforce PL au a r [ctx] sgs)))) = true ->
  exists i d amt, kget (a, r) g = Some i /\ kget (a, r) (st_spend s) = Some d /\
    sd_limit d = gi_limit i /\ sd_period d = gi_period i /\ 0 < gi_period i /\
    transfer_amount ctx = Some amt /\
    let log' := gi_log i ++ [(amt, now s)] in
    window_sum (now s) (gi_period i) log' <= gi_limit i /\
    (Forall (fun e => 0 <= fst e) log' ->
     forall m, now s <= m -> window_sum m (gi_period i) log' <= gi_limit i).
Proof. exact window_single. Qed.
Print Assumptions C14_window.

(* ---- every window.  run_lims instruments the run with, per installation, the log gi_log of
   enforced (amount, ledger) and the parallel list ls of the limit that was in force at each of
   those enforcements.  After any list of calls from a ledger >= 1, with non-negative amounts:
   for ANY ledger m, the amounts of all transfers enforced at ledgers in (m - period, m] sum to at
   most the limit that was in force at the last enforcement at or before m (e, with limit L; all
   later entries, post, lie after m). ---- *)
Theorem C14_any_window : forall c n0 cs k i ls,
  1 <= n0 ->
  let '(s, g, gl) := run_lims c (init n0) [] [] cs in
  kget k g = Some i -> kget k gl = Some ls ->
  Forall (fun x => 0 <= fst x) (gi_log i) ->
  length ls = length (gi_log i) /\
  forall m pre e post lspre L lspost,
    gi_log i = pre ++ e :: post -> ls = lspre ++ L :: lspost -> length lspre = length pre ->
    snd e <= m -> Forall (fun x => m < snd x) post ->
    sum_entries (filter (fun x => (m - gi_period i <? snd x) && (snd x <=? m)) (gi_log i)) <= L.
Proof. exact any_window. Qed.
Print Assumptions C14_any_window.

(* run_lims extends run_log (hence run) *)
Theorem C14_run_lims_is_run_log : forall c cs s g gl, fst (run_lims c s g gl cs) = run_log c s g cs.
Proof. exact run_lims_log. Qed.
Print Assumptions C14_run_lims_is_run_log.

(* several transfers inside one authorisation batch (one invocation, all or nothing) *)
Theorem C14_window_batch : forall c n0 cs au a r ctxs sgs,
  1 <= n0 -> ctxs <> [] ->
  let s := fst (run_log c (init n0) [] cs) in
  let g := snd (run_log c (init n0) [] cs) in
  is_ok (snd (fst (step c s (Enforce PL au a r ctxs sgs)))) = true ->
  exists i d, kget (a, r) g = Some i /\ kget (a, r) (st_spend s) = Some d /\
    sd_limit d = gi_limit i /\ sd_period d = gi_period i /\
    l_batch_ok (now s) (gi_limit i) (gi_period i) ctxs (gi_log i) = true.
Proof. exact window_batch. Qed.
Print Assumptions C14_window_batch.

(* supporting invariant: the stored history is the part of the log newer than a cut-off that is
   at most now - period (exactly ledger - period of the last enforcement), oldest first, the
   cache is its sum, ledgers in the log are sorted and lie in [1, now] *)
Theorem C14_history_is_window : forall c n0 cs k d,
  1 <= n0 ->
  let s := fst (run_log c (init n0) [] cs) in
  let g := snd (run_log c (init n0) [] cs) in
  kget k (st_spend s) = Some d ->
  exists i, kget k g = Some i /\
    sd_limit d = gi_limit i /\ sd_period d = gi_period i /\
    sd_hist d = newer (gi_cut i) (gi_log i) /\ sd_cached d = sum_entries (sd_hist d) /\
    gi_cut i <= now s - gi_period i /\
    StronglySorted (fun x y => snd x <= snd y) (gi_log i) /\
    Forall (fun e => 1 <= snd e <= now s) (gi_log i).
Proof. exact history_is_window. Qed.
Print Assumptions C14_history_is_window.

(* ---- exactness of the spending rule for non-negative amounts (nonneg_log = every logged amount
   is >= 0): a transfer is enforced exactly when the account authorises it and it fits in the
   window under the limit in force while the stored window has room for one more entry
   (max_history = MAX_HISTORY_ENTRIES); no arithmetic trap can interfere, and can_enforce returns
   exactly that answer ---- *)
Theorem C14_spending_exact : forall c n0 cs au a r ctx sgs i amt,
  1 <= n0 -> 0 < max_history c ->
  let s := fst (run_log c (init n0) [] cs) in
  let g := snd (run_log c (init n0) [] cs) in
  kget (a, r) g = Some i -> transfer_amount ctx = Some amt ->
  nonneg_log (stored i) = true -> 0 <= amt -> sgs <> [] ->
  let fits := (window_sum (now s) (gi_period i) (gi_log i) + amt <=? gi_limit i)
              && (len (newer (now s - gi_period i) (gi_log i)) <? max_history c) in
  is_ok (snd (fst (step c s (Enforce PL au a r [ctx] sgs)))) = has_auth au a && fits /\
  (window_sum (now s) (gi_period i) (gi_log i) + amt <= MAX128 ->
   snd (fst (step c s (CanEnforce PL a r ctx sgs))) = Ok (RBool fits)).
Proof. exact spending_exact. Qed.
Print Assumptions C14_spending_exact.

(* ---- batches of more than one context (one invocation, all or nothing).  Threshold policies:
   a batch succeeds iff it is empty or the account authorises it and the threshold is met (the
   contexts play no role) ---- *)
Theorem C14_batch_threshold : forall c n0 cs au a r ctxs sgs,
  let s := run c (init n0) cs in
  is_ok (snd (fst (step c s (Enforce PS au a r ctxs sgs)))) =
    is_nil ctxs || (has_auth au a && match kget (a, r) (st_simple s) with Some t => t <=? len sgs | None => false end) /\
  is_ok (snd (fst (step c s (Enforce PW au a r ctxs sgs)))) =
    is_nil ctxs || (has_auth au a &&
                    match kget (a, r) (st_weighted s) with
                    | Some d => let w := wsum (wd_weights d) sgs in (w <=? MAXU32) && (wd_thr d <=? w)
                    | None => false
                    end).
Proof. exact batch_threshold. Qed.
Print Assumptions C14_batch_threshold.

(* spending: l_batch_exact = every transfer of the batch, in order, fits in the window under the
   limit in force and finds fewer than MAX_HISTORY_ENTRIES stored entries.  A successful batch
   satisfied it (whatever the signs); with non-negative amounts (stored history and batch) the
   batch succeeds exactly when it is authorised, has a signer, and satisfies it *)
Theorem C14_batch_spending : forall c n0 cs au a r ctxs sgs i,
  1 <= n0 -> 0 < max_history c -> ctxs <> [] ->
  let s := fst (run_log c (init n0) [] cs) in
  let g := snd (run_log c (init n0) [] cs) in
  kget (a, r) g = Some i ->
  let exact := l_batch_exact (max_history c) (now s) (gi_limit i) (gi_period i) ctxs (gi_log i) in
  (is_ok (snd (fst (step c s (Enforce PL au a r ctxs sgs)))) = true -> exact = true) /\
  (nonneg_log (stored i) = true -> nonneg_ctxs ctxs = true ->
   is_ok (snd (fst (step c s (Enforce PL au a r ctxs sgs)))) =
     has_auth au a && (match sgs with [] => false | _ => true end) && exact).
Proof. exact batch_spending. Qed.
Print Assumptions C14_batch_spending.

(* installing over a live installation is refused (a re-installed spending policy would silently
   restart the window) *)
Theorem C14_install_twice_refused : forall c s au a r,
  (forall rs t, kget (a, r) (st_simple s) <> None -> snd (fst (step c s (SInstall au a r rs t))) = Fail) /\
  (forall ws t, kget (a, r) (st_weighted s) <> None -> snd (fst (step c s (WInstall au a r ws t))) = Fail) /\
  (forall l p, kget (a, r) (st_spend s) <> None -> snd (fst (step c s (LInstall au a r l p))) = Fail).
Proof. exact install_twice_refused. Qed.
Print Assumptions C14_install_twice_refused.

(* the instrumented run is the plain run *)
Theorem C14_run_log_is_run : forall c cs s g, fst (run_log c s g cs) = run c s cs.
Proof. exact run_log_state. Qed.
Print Assumptions C14_run_log_is_run.

(* ---- the executable monitor (Run/C14.v: the property as a boolean over calls, outcomes and
   getter values only) accepts every run of the model, and the model's diff with itself is
   empty; it is what is evaluated on the implementation's traces ---- *)
Theorem C14_monitor_accepts_model : forall (h : hdr) (cs : list call),
  1 <= h_start h <= MAXU32 -> 0 < h_max_history h ->
  forallb (wf_call (hdr_u h)) cs = true ->      (* every call stays inside the header's universe *)
  check (observe_model h cs) = (0%N, 0%N, 0%N).
Proof. exact check_accepts_model. Qed.
Print Assumptions C14_monitor_accepts_model.


(* ======== hardening round (situation classes K1..K6) ======== *)

(* ---- K1 / K5: no address is special.  For every injective renaming f of the addresses (e.g. the swap of an
   ordinary account with the policy contract's own address, with another registered contract, with the account
   that is also the token called ...) a call on the renamed state with the renamed authorisation set and the
   renamed account has the renamed result: same outcome, same events, same getter values.  So the only thing
   about an address that matters is whether its authorisation is attached. ---- *)
Theorem C14_no_special_address : forall (f : addr -> addr), (forall a b, f a = f b -> a = b) ->
  forall c s cl,
  step c (rstate f s) (rcall f cl) = let '(s', o, evs) := step c s cl in (rstate f s', o, map (revent f) evs).
Proof. exact step_rename. Qed.
Print Assumptions C14_no_special_address.

Theorem C14_no_special_address_run : forall (f : addr -> addr), (forall a b, f a = f b -> a = b) ->
  forall c cs s (u : universe) evs,
  run c (rstate f s) (map (rcall f) cs) = rstate f (run c s cs) /\
  observe {| u_keys := map (rk f) (u_keys u); u_sgs := u_sgs u |} (rstate f s) (map (revent f) evs) =
    let o := observe u s evs in {| o_s := o_s o; o_w := o_w o; o_l := o_l o; o_ev := map (revent f) (o_ev o) |}.
Proof. exact no_special_address_run. Qed.
Print Assumptions C14_no_special_address_run.

(* ---- K1 / K5 / K2: a context matters only through the amount the spending policy extracts from it: the token
   contract called (the account itself, the policy itself, any other contract), from, to (plain, muxed, equal to
   each other, equal to the account), additional arguments and the name of a non-transfer function play no role;
   the threshold policies do not look at the context at all ---- *)
Theorem C14_context_parties_irrelevant : forall c s p au a r sgs,
  (forall ctxs ctxs', map transfer_amount ctxs = map transfer_amount ctxs' ->
     step c s (Enforce p au a r ctxs sgs) = step c s (Enforce p au a r ctxs' sgs)) /\
  (forall ctx ctx', transfer_amount ctx = transfer_amount ctx' ->
     step c s (CanEnforce p a r ctx sgs) = step c s (CanEnforce p a r ctx' sgs)) /\
  (p <> PL -> forall ctx ctx', step c s (CanEnforce p a r ctx sgs) = step c s (CanEnforce p a r ctx' sgs) /\
                               step c s (Enforce p au a r [ctx] sgs) = step c s (Enforce p au a r [ctx'] sgs)).
Proof. exact context_parties_irrelevant. Qed.
Print Assumptions C14_context_parties_irrelevant.

(* ---- K6: uninstall forgets.  Whatever is stored for (account, rule) - a full history, a lowered limit, nothing -
   an authorised uninstall followed by an authorised install with valid parameters yields exactly the entry of a
   first installation (empty history, zero cache) and touches nothing else; uninstall is idempotent and leaves
   can_enforce = false ---- *)
Theorem C14_reinstall_is_fresh : forall c s au a r l p,
  has_auth au a = true -> 0 < l <= MAX128 -> 0 < p <= MAXU32 ->
  exists s1 s2,
    step c s (Uninstall PL au a r) = (s1, Ok RUnit, []) /\
    kget (a, r) (st_spend s1) = None /\
    step c s1 (LInstall au a r l p) = (s2, Ok RUnit, []) /\
    kget (a, r) (st_spend s2) = Some {| sd_limit := l; sd_period := p; sd_hist := []; sd_cached := 0 |} /\
    (forall k, k <> (a, r) -> kget k (st_spend s2) = kget k (st_spend s)) /\
    st_simple s2 = st_simple s /\ st_weighted s2 = st_weighted s /\ now s2 = now s.
Proof. exact reinstall_is_fresh. Qed.
Print Assumptions C14_reinstall_is_fresh.

Theorem C14_uninstall_forgets : forall c s p au a r,
  has_auth au a = true ->
  exists s1, step c s (Uninstall p au a r) = (s1, Ok RUnit, []) /\
    match p with
    | PS => kget (a, r) (st_simple s1) = None
    | PW => kget (a, r) (st_weighted s1) = None
    | PL => kget (a, r) (st_spend s1) = None
    end /\
    snd (fst (step c s1 (CanEnforce p a r CCreate []))) = Ok (RBool false) /\
    exists s2, step c s1 (Uninstall p au a r) = (s2, Ok RUnit, []).
Proof. exact uninstall_forgets. Qed.
Print Assumptions C14_uninstall_forgets.

(* ---- K3 / K6: the sibling path.  set_threshold of the simple policy needs no installation and creates the
   entry; a later install (any authorisation, any parameters) finds it and is refused ---- *)
Theorem C14_set_threshold_then_install_refused : forall c s au a r rs t s1 o evs,
  step c s (SSetThreshold au a r rs t) = (s1, Ok o, evs) ->
  kget (a, r) (st_simple s1) = Some t /\
  forall au' rs' t', snd (fst (step c s1 (SInstall au' a r rs' t'))) = Fail.
Proof. exact set_threshold_then_install_refused. Qed.
Print Assumptions C14_set_threshold_then_install_refused.

(* ---- K5: old = new.  A successful set_threshold / set_signer_weight / set_spending_limit that writes the value
   already stored changes no getter value, emits nothing and does not touch the ledger ---- *)
Theorem C14_same_value_rewrite_changes_nothing : forall c u s cl s' o evs,
  step c s cl = (s', Ok o, evs) ->
  match cl with
  | SSetThreshold _ a r _ t => kget (a, r) (st_simple s) = Some t
  | WSetThreshold _ a r t => option_map wd_thr (kget (a, r) (st_weighted s)) = Some t
  | WSetWeight _ a r sg w => match kget (a, r) (st_weighted s) with Some d => alist_get sg (wd_weights d) = Some w | None => False end
  | LSetLimit _ a r l => option_map sd_limit (kget (a, r) (st_spend s)) = Some l
  | _ => False
  end ->
  observe u s' [] = observe u s [] /\ evs = [] /\ now s' = now s.
Proof. exact same_value_rewrite_changes_nothing. Qed.
Print Assumptions C14_same_value_rewrite_changes_nothing.

(* ---------- non-vacuity ---------- *)
Module NonVacuity.
  Definition c0 : cfg := {| max_history := 1000 |}.
  Definition tr (amt : Z) : context := CContract 0%N 0%N [AOther; AOther; AI128 amt].
  (* install limit 100 / period 10 at ledger 5, spend 60, nine ledgers later 40 more *)
  Definition pre : list call :=
    [ LInstall [1%N] 1%N 1%N 100 10; Enforce PL [1%N] 1%N 1%N [tr 60] [0%N]; Advance 9;
      WInstall [1%N] 1%N 1%N [(0%N, 5); (1%N, 6); (2%N, 4294967284)] 11;
      SInstall [1%N] 1%N 1%N [0%N; 1%N; 2%N] 2 ].
  (* the hypothesis of C14_window is met: a second transfer is enforced, and the bound is tight *)
  Example window_hypothesis_met :
    is_ok (snd (fst (step c0 (fst (run_log c0 (init 5) [] pre)) (Enforce PL [1%N] 1%N 1%N [tr 40] [0%N])))) = true /\
    is_ok (snd (fst (step c0 (fst (run_log c0 (init 5) [] pre)) (Enforce PL [1%N] 1%N 1%N [tr 41] [0%N])))) = false /\
    option_map gi_log (kget (1%N, 1%N) (snd (run_log c0 (init 5) [] pre))) = Some [(60, 5)].
  Proof. vm_compute. repeat split. Qed.
  (* one ledger later the first transfer has left the window *)
  Example window_edge :
    is_ok (snd (fst (step c0 (fst (run_log c0 (init 5) [] (pre ++ [Advance 1]))) (Enforce PL [1%N] 1%N 1%N [tr 100] [0%N])))) = true.
  Proof. vm_compute. reflexivity. Qed.
  (* the weighted hypothesis is met on a state whose total weight is exactly u32::MAX;
     a duplicated signer makes the accumulation trap, as the theorem says *)
  Example weighted_reachable :
    option_map wd_thr (kget (1%N, 1%N) (st_weighted (run c0 (init 5) pre))) = Some 11 /\
    snd (fst (step c0 (run c0 (init 5) pre) (CanEnforce PW 1%N 1%N (tr 1) [0%N; 1%N]))) = Ok (RBool true) /\
    snd (fst (step c0 (run c0 (init 5) pre) (CanEnforce PW 1%N 1%N (tr 1) [0%N]))) = Ok (RBool false) /\
    snd (fst (step c0 (run c0 (init 5) pre) (CanEnforce PW 1%N 1%N (tr 1) [2%N; 2%N]))) = Fail.
  Proof. vm_compute. repeat split. Qed.
  Example simple_reachable :
    snd (fst (step c0 (run c0 (init 5) pre) (CanEnforce PS 1%N 1%N (tr 1) [0%N; 2%N]))) = Ok (RBool true) /\
    snd (fst (step c0 (run c0 (init 5) pre) (CanEnforce PS 1%N 1%N CCreate [0%N]))) = Ok (RBool false).
  Proof. vm_compute. repeat split. Qed.
  (* the monitor theorem's hypotheses hold for the header the harness prints *)
  Example header_ok : 1 <= h_start (mkhdr 1000 1 [(0%N, 1%N)] [0%N]) <= MAXU32 /\ 0 < h_max_history (mkhdr 1000 1 [(0%N, 1%N)] [0%N]).
  Proof. cbn. unfold MAXU32. lia. Qed.
  (* the hypothesis 1 <= n0 of C14_window is necessary: at ledger 0 the saturating cut-off
     (0 - period -> 0) evicts the entries of the current ledger, so 60 + 60 pass a limit of 100
     inside one ledger (outside the property's quantifier: ledgers >= 1) *)
  Definition pre0 : list call := [ LInstall [1%N] 1%N 1%N 100 10; Enforce PL [1%N] 1%N 1%N [tr 60] [0%N] ].
  Example window_needs_ledger_ge_1 :
    is_ok (snd (fst (step c0 (fst (run_log c0 (init 0) [] pre0)) (Enforce PL [1%N] 1%N 1%N [tr 60] [0%N])))) = true /\
    window_sum 0 10 ([(60, 0)] ++ [(60, 0)]) = 120.
  Proof. vm_compute. repeat split. Qed.
  (* the corollary for later windows needs non-negative amounts (the code accepts negative ones):
     100 at ledger 1, -50 at ledger 2, 150 at ledger 11 are each within the limit 100 when
     enforced, but the window (2, 12] then holds 150 *)
  Definition preneg : list call :=
    [ LInstall [1%N] 1%N 1%N 100 10; Enforce PL [1%N] 1%N 1%N [tr 100] [0%N]; Advance 1;
      Enforce PL [1%N] 1%N 1%N [tr (-50)] [0%N]; Advance 9 ].
  Example corollary_needs_nonneg :
    is_ok (snd (fst (step c0 (fst (run_log c0 (init 1) [] preneg)) (Enforce PL [1%N] 1%N 1%N [tr 150] [0%N])))) = true /\
    window_sum 11 10 [(100, 1); (-50, 2); (150, 11)] = 100 /\
    window_sum 12 10 [(100, 1); (-50, 2); (150, 11)] = 150.
  Proof. vm_compute. repeat split. Qed.
  (* the instrumented run of C14_any_window on a non-trivial history: two enforcements under limit
     100, the limit lowered to 70, a third enforcement after the first left the window *)
  Example any_window_instance :
    let '(s, g, gl) := run_lims c0 (init 5) [] []
        (pre ++ [Enforce PL [1%N] 1%N 1%N [tr 40] [0%N]; LSetLimit [1%N] 1%N 1%N 70; Advance 1;
                 Enforce PL [1%N] 1%N 1%N [tr 30] [0%N]]) in
    option_map gi_log (kget (1%N, 1%N) g) = Some [(60, 5); (40, 14); (30, 15)] /\
    kget (1%N, 1%N) gl = Some [100; 100; 70].
  Proof. vm_compute. split; reflexivity. Qed.
  (* batches: two transfers that fit one by one but not together; a batch that fits; the token
     contract of the context plays no role (ONE budget for all tokens) *)
  Example batch_instances :
    let s := fst (run_log c0 (init 5) [] pre) in
    is_ok (snd (fst (step c0 s (Enforce PL [1%N] 1%N 1%N [tr 30; tr 11] [0%N])))) = false /\
    is_ok (snd (fst (step c0 s (Enforce PL [1%N] 1%N 1%N [tr 30; CContract 7%N 0%N [AOther; AOther; AI128 10]] [0%N])))) = true /\
    is_ok (snd (fst (step c0 s (Enforce PS [1%N] 1%N 1%N [tr 1; CCreate; tr 2] [0%N; 1%N])))) = true /\
    is_ok (snd (fst (step c0 s (Enforce PW [1%N] 1%N 1%N [tr 1; tr 2] [0%N])))) = false /\
    snd (fst (step c0 s (LInstall [1%N] 1%N 1%N 500 10))) = Fail.
  Proof. vm_compute. repeat split. Qed.
  (* the calls of a harness trace satisfy the well-formedness predicate of the monitor theorem *)
  Example wf_instance :
    forallb (wf_call (hdr_u (mkhdr 1000 5 [(1%N, 1%N)] [0%N; 1%N; 2%N]))) pre = true.
  Proof. vm_compute. reflexivity. Qed.
  (* K1: swapping an ordinary account (1) with the address of the policy contract itself (say 6): the run on
     the swapped calls is the swapped run - the policy's own address used as the account is an account like any
     other, and nothing can be stored for it without its authorisation *)
  Example swap_is_injective : forall a b, swap_addr 1%N 6%N a = swap_addr 1%N 6%N b -> a = b.
  Proof. exact (swap_addr_inj 1%N 6%N). Qed.
  Example swapped_run :
    option_map gi_log (kget (6%N, 1%N) (snd (run_log c0 (init 5) [] (map (rcall (swap_addr 1%N 6%N)) pre)))) = Some [(60, 5)] /\
    kget (1%N, 1%N) (st_spend (run c0 (init 5) (map (rcall (swap_addr 1%N 6%N)) pre))) = None /\
    snd (fst (step c0 (init 5) (LInstall [] 6%N 1%N 100 10))) = Fail /\
    snd (fst (step c0 (init 5) (SSetThreshold [1%N; 0%N] 6%N 1%N [0%N] 1))) = Fail.
  Proof. vm_compute. repeat split. Qed.
  (* K1/K5: the token called is the account itself, extra arguments: same decision, same state *)
  Example parties_instance :
    let s := fst (run_log c0 (init 5) [] pre) in
    step c0 s (Enforce PL [1%N] 1%N 1%N [CContract 4%N 0%N [AOther; AOther; AI128 40; AOther]] [0%N]) =
    step c0 s (Enforce PL [1%N] 1%N 1%N [tr 40] [0%N]) /\
    is_ok (snd (fst (step c0 s (Enforce PL [1%N] 1%N 1%N [CContract 3%N 0%N [AOther; AOther; AI128 41]] [0%N])))) = false.
  Proof. vm_compute. repeat split. Qed.
  (* K6: a full window, uninstall, install: the whole limit is available again (the log is per installation) *)
  Example reinstall_instance :
    let s := fst (run_log c0 (init 5) [] (pre ++ [Enforce PL [1%N] 1%N 1%N [tr 40] [0%N]])) in
    is_ok (snd (fst (step c0 s (Enforce PL [1%N] 1%N 1%N [tr 1] [0%N])))) = false /\
    let s2 := run c0 s [Uninstall PL [1%N] 1%N 1%N; LInstall [1%N] 1%N 1%N 100 10] in
    kget (1%N, 1%N) (st_spend s2) = Some {| sd_limit := 100; sd_period := 10; sd_hist := []; sd_cached := 0 |} /\
    is_ok (snd (fst (step c0 s2 (Enforce PL [1%N] 1%N 1%N [tr 100] [0%N])))) = true.
  Proof. vm_compute. repeat split. Qed.
  (* K5: set_threshold 2 over a stored 2 *)
  Example same_value_instance :
    let s := run c0 (init 5) pre in
    snd (fst (step c0 s (SSetThreshold [1%N] 1%N 1%N [0%N; 1%N] 2))) = Ok RUnit /\
    kget (1%N, 1%N) (st_simple s) = Some 2.
  Proof. vm_compute. repeat split. Qed.
End NonVacuity.

