(* C10 - Every NFT has exactly one owner and enumerations mirror ownership.
   Only pinned statements; each closed by [exact] of a lemma proved in Proofs/.

   Model: coq/Model/Nft.v.  [run fl c s calls] is the state after a call sequence on flavour
   fl (FBase, FEnum, FCons); [owner_of], [balance], [get_token_id], [get_owner_token_id] are
   the model's getters (None = the call fails).  [abs_map fl c now0 calls] is the PLAIN
   ownership map obtained by replaying only the successful mint / transfer / burn calls of the
   run: mint id -> Some to, batch -> lo..hi |-> to, transfer id -> Some to, burn id -> None
   (Run/NftCommon.v [ghost_step], [rget]); it is also what the monitor keeps.
   [fresh_run] is the quantifier of the property as a boolean along the run: explicitly
   minted ids are unused and the sequential counter never points at an existing id. *)
From Coq Require Import Permutation.
From SC Require Import Lib.Prelude Lib.Int Lib.Host Model.Nft Run.NftCommon Proofs.NftMaps Proofs.NftFrame
  Proofs.NftInv Proofs.NftCons Proofs.NftOwn Proofs.NftSim Proofs.NftScope Proofs.NftCard Proofs.NftEnum Run.C10 Proofs.C10Card
  Proofs.C10Sim Proofs.C10Monitor Proofs.C10Final Model.NftBits Proofs.NftBits Model.NftBitsRun Proofs.NftBitsRun.
Local Open Scope N_scope.

(* Each flavour refines the plain ownership map: owner_of i = abs i for EVERY id i (an error
   exactly where abs i = None), and balance a is the number of ids abs assigns to a (counted
   over any duplicate-free list containing them). *)
Theorem C10_base_refines_map : forall c now0 cs,
  fresh_run FBase c (init now0) cs = true ->
  let s := run FBase c (init now0) cs in
  let abs := abs_map FBase c now0 cs in
  (forall id, owner_of FBase c s id = abs id) /\
  (forall a l, NoDup l -> (forall i, abs i = Some a -> In i l) ->
     balance s a = N.of_nat (length (filter (fun i => oaddr_eqb (abs i) (Some a)) l))).
Proof. exact base_refines_map. Qed.
Print Assumptions C10_base_refines_map.

Theorem C10_enum_refines_map : forall c now0 cs,
  fresh_run FEnum c (init now0) cs = true ->
  let s := run FEnum c (init now0) cs in
  let abs := abs_map FEnum c now0 cs in
  (forall id, owner_of FEnum c s id = abs id) /\
  (forall a l, NoDup l -> (forall i, abs i = Some a -> In i l) ->
     balance s a = N.of_nat (length (filter (fun i => oaddr_eqb (abs i) (Some a)) l))).
Proof. exact enum_refines_map. Qed.
Print Assumptions C10_enum_refines_map.

(* consecutive (set level of the ownership buckets): no side condition at all - for every id of
   every batch after any mix of transfers and burns *)
Theorem C10_consec_refines_map : forall c now0 cs,
  let s := run FCons c (init now0) cs in
  let abs := abs_map FCons c now0 cs in
  (forall id, owner_of FCons c s id = abs id) /\
  (forall a l, NoDup l -> (forall i, abs i = Some a -> In i l) ->
     balance s a = N.of_nat (length (filter (fun i => oaddr_eqb (abs i) (Some a)) l))).
Proof. exact consec_refines_map. Qed.
Print Assumptions C10_consec_refines_map.

(* Frame: in every reachable state a successful call changes owner_of only for the token it names
   (transfer -> `to`, burn -> none) or the ids it mints; every other id keeps its owner - all
   flavours, no side condition. *)
Theorem C10_frame : forall fl c now0 cs cl s' r,
  let s := run fl c (init now0) cs in
  exec fl c s cl = Ok (s', r) ->
  forall j, owner_of fl c s' j =
    match cl with
    | Transfer _ _ to id | TransferFrom _ _ _ to id => if j =? id then Some to else owner_of fl c s j
    | Burn _ _ id | BurnFrom _ _ _ id => if j =? id then None else owner_of fl c s j
    | MintSeq to => if j =? next_id s then Some to else owner_of fl c s j
    | MintId to id => if j =? id then Some to else owner_of fl c s j
    | BatchMint to amt => if (next_id s <=? j) && (j <=? next_id s + amt - 1) then Some to else owner_of fl c s j
    | _ => owner_of fl c s j
    end.
Proof. exact frame. Qed.
Print Assumptions C10_frame.

(* Ids issued by sequential / batch minting are the counter values; the counter never decreases
   (in any state, any call), so a later mint returns ids above every id issued before, also
   after burns ... *)
Theorem C10_ids_fresh : forall fl c s cl s' r, exec fl c s cl = Ok (s', r) ->
  next_id s <= next_id s' /\
  match cl with
  | MintSeq _ => r = Some (next_id s) /\ next_id s' = next_id s + 1
  | BatchMint _ amt => 1 <= amt /\ r = Some (next_id s + amt - 1) /\ next_id s' = next_id s + amt
  | _ => next_id s' = next_id s
  end.
Proof. exact ids_fresh. Qed.
Print Assumptions C10_ids_fresh.
Theorem C10_counter_monotone : forall fl c cs s, next_id s <= next_id (run fl c s cs).
Proof. exact next_id_mono. Qed.
Print Assumptions C10_counter_monotone.
(* ... and nothing at or above the counter exists (consecutive: always; Base/Enumerable: when no
   explicit ids are minted), so an issued id was never in use before. *)
Theorem C10_cons_unissued : forall c now0 cs j,
  let s := run FCons c (init now0) cs in next_id s <= j -> owner_of FCons c s j = None.
Proof. exact cons_unissued. Qed.
Print Assumptions C10_cons_unissued.
Theorem C10_seq_unissued : forall fl c now0 cs j, fl <> FCons ->
  forallb (fun cl => match cl with MintId _ _ => false | _ => true end) cs = true ->
  let s := run fl c (init now0) cs in next_id s <= j -> owner_of fl c s j = None.
Proof. exact seq_unissued. Qed.
Print Assumptions C10_seq_unissued.
(* sequential-only histories satisfy the side condition of the refinement theorems *)
Theorem C10_seq_is_fresh : forall fl c now0 cs, fl <> FCons ->
  forallb (fun cl => match cl with MintId _ _ => false | _ => true end) cs = true ->
  fresh_run fl c (init now0) cs = true.
Proof. exact seq_fresh. Qed.
Print Assumptions C10_seq_is_fresh.

(* Enumerable: total_supply = number of existing tokens; get_token_id on 0..total-1 is a bijection
   onto the existing tokens and fails beyond; get_owner_token_id a on 0..balance a - 1 is a
   bijection onto a's tokens and fails beyond. *)
Theorem C10_enum_lists : forall c now0 cs,
  fresh_run FEnum c (init now0) cs = true ->
  let s := run FEnum c (init now0) cs in
  let abs := abs_map FEnum c now0 cs in
  (forall k, k < total s <-> get_token_id s k <> None) /\
  (forall k id, get_token_id s k = Some id -> abs id <> None) /\
  (forall k k' id, get_token_id s k = Some id -> get_token_id s k' = Some id -> k = k') /\
  (forall id, abs id <> None -> exists k, get_token_id s k = Some id) /\
  (forall l, NoDup l -> (forall i, abs i <> None -> In i l) ->
     total s = N.of_nat (length (filter (fun i => match abs i with Some _ => true | None => false end) l))) /\
  (forall a k, k < balance s a <-> get_owner_token_id s a k <> None) /\
  (forall a k id, get_owner_token_id s a k = Some id -> abs id = Some a) /\
  (forall a k k' id, get_owner_token_id s a k = Some id -> get_owner_token_id s a k' = Some id -> k = k') /\
  (forall a id, abs id = Some a -> exists k, get_owner_token_id s a k = Some id).
Proof. exact enum_lists. Qed.
Print Assumptions C10_enum_lists.

(* Consecutive, set level: the invariant behind the inference from sparse markers, in every
   reachable state (incl. id 0, first / last of a batch, neighbours burned in any order). *)
Theorem C10_consec_inv : forall c now0 cs,
  let s := run FCons c (init now0) cs in
  let abs := abs_map FCons c now0 cs in
  (forall m, In m (marks s) -> m < next_id s) /\
  (forall i a, aget N.eqb i (owner s) = Some a -> In i (marks s) /\ ~ In i (burned s)) /\
  (forall m, In m (marks s) -> aget N.eqb m (owner s) <> None \/ In m (burned s)) /\
  (forall b, In b (burned s) -> b < next_id s) /\
  (forall b, In b (burned s) -> 0 < b -> In (b - 1) (marks s) \/ In (b - 1) (burned s)) /\
  (forall j, j < next_id s -> ~ In j (burned s) ->
     exists m a, least_ge (marks s) j = Some m /\ aget N.eqb m (owner s) = Some a /\ abs j = Some a) /\
  (forall j, (next_id s <= j \/ In j (burned s)) -> abs j = None).
Proof. exact consec_inv. Qed.
Print Assumptions C10_consec_inv.

(* the scan of the model returns the least marked id at or above the queried id *)
Theorem C10_scan_least : forall l lo m, least_ge l lo = Some m ->
  In m l /\ lo <= m /\ forall x, In x l -> lo <= x -> m <= x.
Proof. exact least_ge_some. Qed.
Print Assumptions C10_scan_least.

(* Progress: in every reachable state, at every ledger (any number of Advance calls later), the owner of
   an existing token can transfer it (the receiver's balance not being at the u32 limit) and burn it:
   no index entry, marker, flag or counter the call needs is ever missing - all flavours. *)
Theorem C10_owner_can_transfer : forall fl c now0 cs auths from to id,
  fresh_run fl c (init now0) cs = true ->
  let s := run fl c (init now0) cs in
  owner_of fl c s id = Some from -> In from auths -> balance s to + 1 <= MAXU32N ->
  exists s', exec fl c s (Transfer auths from to id) = Ok (s', None).
Proof. exact owner_can_transfer. Qed.
Print Assumptions C10_owner_can_transfer.
Theorem C10_owner_can_burn : forall fl c now0 cs auths from id,
  fresh_run fl c (init now0) cs = true ->
  let s := run fl c (init now0) cs in
  owner_of fl c s id = Some from -> In from auths ->
  exists s', exec fl c s (Burn auths from id) = Ok (s', None).
Proof. exact owner_can_burn. Qed.
Print Assumptions C10_owner_can_burn.

(* ... and so can the owner's approved account or operator while the getters report that approval; every
   batch size 1 ..= MAX_TOKENS_IN_BATCH is accepted (any state); a successful move names the owner and
   returns nothing. *)
Theorem C10_spender_can_transfer : forall fl c now0 cs auths sp from to id,
  fresh_run fl c (init now0) cs = true ->
  let s := run fl c (init now0) cs in
  owner_of fl c s id = Some from -> In sp auths ->
  (sp = from \/ get_approved s id = Some sp \/ is_approved_for_all s from sp = true) ->
  balance s to + 1 <= MAXU32N ->
  exists s', exec fl c s (TransferFrom auths sp from to id) = Ok (s', None).
Proof. exact spender_can_transfer. Qed.
Print Assumptions C10_spender_can_transfer.
Theorem C10_spender_can_burn : forall fl c now0 cs auths sp from id,
  fresh_run fl c (init now0) cs = true ->
  let s := run fl c (init now0) cs in
  owner_of fl c s id = Some from -> In sp auths ->
  (sp = from \/ get_approved s id = Some sp \/ is_approved_for_all s from sp = true) ->
  exists s', exec fl c s (BurnFrom auths sp from id) = Ok (s', None).
Proof. exact spender_can_burn. Qed.
Print Assumptions C10_spender_can_burn.
Theorem C10_batch_mint_accepted : forall c s to amt,
  1 <= amt -> amt <= max_batch c -> next_id s + amt <= MAXU32N -> balance s to + amt <= MAXU32N ->
  exists s', exec FCons c s (BatchMint to amt) = Ok (s', Some (next_id s + amt - 1)).
Proof. exact batch_mint_accepted. Qed.
Print Assumptions C10_batch_mint_accepted.
Theorem C10_move_names_owner : forall fl c s cl s' r, exec fl c s cl = Ok (s', r) ->
  match cl with
  | Transfer _ from _ id | TransferFrom _ _ from _ id | Burn _ from id | BurnFrom _ _ from id =>
      owner_of fl c s id = Some from /\ r = None
  | _ => True
  end.
Proof. exact move_names_owner. Qed.
Print Assumptions C10_move_names_owner.

(* ---------- bit level of the consecutive ownership buckets (Model/NftBits.v) ----------
   W = bits per item (u32::BITS), I = items per bucket; a bucket is a vector of I words, bit
   (W-1-p) of word k stands for position k*W + p.  [least_in P lo hi r]: r is the least position in
   [lo, hi) satisfying P (None: there is none). *)
Theorem C10_find_bit_in_item_spec : forall b num start, 0 < W b ->
  least_in (fun p => N.testbit num (W b - 1 - p)) start (W b) (find_bit_in_item b (Some num) start).
Proof. exact find_bit_in_item_spec. Qed.
Print Assumptions C10_find_bit_in_item_spec.

Theorem C10_find_bit_in_bucket_spec : forall b bk start, 0 < W b ->
  least_in (fun q => match nth_item bk (N.to_nat (q / W b - 0)) with
                     | Some x => N.testbit x (W b - 1 - q mod W b)
                     | None => false
                     end)
           start (N.of_nat (length bk) * W b) (find_bit_in_bucket b bk start).
Proof. exact find_bit_in_bucket_spec. Qed.
Print Assumptions C10_find_bit_in_bucket_spec.

(* set_ownership_in_bucket never hits its `expect`, keeps every stored bucket I words long, and
   sets exactly the bit of the given id *)
Theorem C10_set_bit_spec : forall b bs id, 0 < W b -> 0 < I b ->
  (forall k bk, aget N.eqb k bs = Some bk -> N.of_nat (length bk) = I b) ->
  exists bs', set_ownership_bits b bs id = Ok bs' /\
    (forall k bk, aget N.eqb k bs' = Some bk -> N.of_nat (length bk) = I b) /\
    forall j, bit_at b bs' j = (j =? id) || bit_at b bs j.
Proof. exact set_bits_spec. Qed.
Print Assumptions C10_set_bit_spec.

(* the buckets the code has written after the calls set_ownership_in_bucket(m), m in marks, exist,
   and the bit-level scan of Consecutive::owner_of over them (item by item, bucket by bucket) returns
   what the set-level scan of Model/Nft.v returns - for every queried id and every last token id *)
Theorem C10_bits_refine_marks : forall b c s, 0 < W b -> 0 < I b -> ids_in_bucket c = I b * W b ->
  exists bs, buckets_of b (marks s) = Ok bs /\
    forall id last, scan_bits b bs id last = scan c s id last.
Proof. exact bits_refine_marks. Qed.
Print Assumptions C10_bits_refine_marks.

(* The consecutive contract executed call by call on the bit-level buckets (Model/NftBitsRun.v: owner_of
   scans the stored words, set_ownership_in_bucket rewrites one word) refines the set-level run the other
   theorems are about, for EVERY call sequence: same state (all non-bucket storage), same outcome of every
   call, same owner_of answer for every id, and the set bits of the stored buckets are exactly the marks.
   Hence every set-level theorem above (C10_consec_refines_map, C10_frame, C10_consec_inv, C10_owner_can_transfer, C10_owner_can_burn)
   holds verbatim for the bit-level run.  W = word width, I = items per bucket, any positive values with
   IDS_IN_BUCKET = I * W. *)
Theorem C10_bits_run_refines_set_run : forall b c now0 cs,
  0 < W b /\ 0 < I b /\ ids_in_bucket c = I b * W b ->
  let sb := run_b b c (init_b now0) cs in
  let s := run FCons c (init now0) cs in
  fst sb = s /\
  outcomes_b b c (init_b now0) cs = outcomes_s c (init now0) cs /\
  (forall id, cons_owner_of_b b sb id = owner_of FCons c s id) /\
  (forall m, bit_at b (snd sb) m = true <-> In m (marks s)).
Proof. exact bits_run_refines_set_run. Qed.
Print Assumptions C10_bits_run_refines_set_run.

(* The executable check accepts every trace of the model whose QUERIES are well formed ([wf_run]: exactly the
   observation-shape test the monitor itself applies, evaluated on the query shapes - ids strictly increasing,
   containing the ids the call names and, in `full` mode, every id 0 .. next_id+2 and every individually
   assigned id; every holder's balance asked; enumerations asked two indices beyond their end; for consecutive
   traces the bucket dumps ask for buckets 0 .. next_id/IDS_IN_BUCKET+1): empty diff against the set-level model,
   empty diff against the bit-level replay (outcomes, owner_of, raw bucket words), monitor true.  No freshness
   hypothesis: when the model's run leaves the quantifier (a mint onto a live id) the monitor stops judging. *)
Theorem C10_monitor_accepts_model : forall fl c b now0 full (l : list (call * obs)) (shapes : list bdump),
  wf_run fl c full (init now0) (ghost0 now0) l = true ->
  (fl = FCons -> bcfg_okb b c = true /\ dshapes_ok b c (init_b now0) l shapes = true) ->
  check (model_btrace fl c b now0 full l shapes) = (0, 0, 0).
Proof. exact c10_check_accepts_model. Qed.
Print Assumptions C10_monitor_accepts_model.

(* ---------- non-vacuity and rejection Examples ---------- *)
Definition c0 := Build_cfg (Build_hostcfg 1 6312000) 3200 32000.
Definition b0 := Build_bcfg 32 100.
(* observation of ids 0,1,2,... with the given owner answers *)
Definition idx {A} (l : list A) : list (N * A) := combine (nseq 0 (length l)) l.
Definition ob (nx : N) (own : list (option addr)) (bal : list N) : obs := mkObs nx (idx own) (idx bal) [] [] 0 [] [].
Definition obe (nx : N) (own : list (option addr)) (bal : list N) (tot : N) (glob : list (option N)) (otok : list (list (option N))) : obs :=
  mkObs nx (idx own) (idx bal) [] [] tot glob (idx otok).
Definition q (ids : list N) (addrs : list addr) (glob : N) (otok : list N) : obs :=
  mkObs 0 (map (fun i => (i, None)) ids) (map (fun a => (a, 0)) addrs) (map (fun i => (i, None)) ids) [] 0
    (repeat None (N.to_nat glob)) (combine addrs (map (fun k => repeat None (N.to_nat k)) otok)).
Definition mon fl full steps := monitor (mkTrace fl c0 10 full steps).

(* the hypotheses of C10_monitor_accepts_model hold on real query shapes, for the three flavours *)
Example C10_wf_satisfiable :
  wf_run FCons c0 true (init 10) (ghost0 10)
    [(BatchMint 0 5, q [0;1;2;3;4;5;6;7] [0;1] 0 []); (Transfer [0] 0 1 2, q [0;1;2;3;4;5;6;7] [0;1] 0 []);
     (Burn [0] 0 1, q [0;1;2;3;4;5;6;7] [0;1] 0 []); (BatchMint 1 3, q [0;1;2;3;4;5;6;7;8;9;10] [0;1] 0 [])] = true /\
  dshapes_ok b0 c0 (init_b 10) [(BatchMint 0 5, q [] [] 0 []); (Transfer [0] 0 1 2, q [] [] 0 [])]
    [[(0, None); (1, None)]; [(0, None); (1, None)]] = true /\
  wf_run FEnum c0 true (init 10) (ghost0 10)
    [(MintSeq 0, q [0;1;2;3] [0;1] 3 [3;2]); (MintSeq 0, q [0;1;2;3;4] [0;1] 4 [4;2]);
     (Transfer [0] 0 1 0, q [0;1;2;3;4] [0;1] 4 [3;3]); (Burn [0] 0 1, q [0;1;2;3;4] [0;1] 3 [2;3])] = true /\
  wf_run FBase c0 true (init 10) (ghost0 10)
    [(MintId 0 1000, q [0;1;2;1000] [0;1] 0 []); (MintSeq 1, q [0;1;2;3;1000] [0;1] 0 [])] = true.
Proof. vm_compute. repeat split. Qed.

(* THE BOUNDARY OF THE QUANTIFIER (documented caveat of the library: uniqueness of explicit ids is the
   integrator's responsibility).  mint(A, 1) - id 1 is fresh then - followed by two sequential mints: the
   second re-issues the live id 1.  The model reproduces what the real code does: A keeps balance 1 owning
   nothing, B owns 0 and 1; [fresh_run] is false on this history (so the refinement theorems do not speak
   about it); the strict monitor flags the third call, the scoped monitor stops judging there. *)
Example C10_mixing_mint_strategies_reissues_id :
  let cs := [MintId 0 1; MintSeq 1; MintSeq 1] in
  let s := run FBase c0 (init 10) cs in
  map (owner_of FBase c0 s) [0; 1; 2] = [Some 1; Some 1; None] /\
  (balance s 0, balance s 1) = (1, 2) /\
  fresh_run FBase c0 (init 10) cs = false /\
  fresh_run FBase c0 (init 10) [MintId 0 1; MintSeq 1] = true /\
  let t := model_trace FBase c0 10 true
             [(MintId 0 1, q [0;1;2] [0;1] 0 []); (MintSeq 1, q [0;1;2;3] [0;1] 0 []); (MintSeq 1, q [0;1;2;3;4] [0;1] 0 [])] in
  monitor_strict t = 3 /\ monitor t = 0 /\ diff t = 0 /\
  (* the enumerable flavour lists id 1 twice and counts 3 tokens *)
  let se := run FEnum c0 (init 10) cs in
  (total se, map (get_token_id se) [0; 1; 2], get_owner_token_id se 0 0) = (3, [Some 1; Some 0; Some 1], Some 1).
Proof. vm_compute. repeat split. Qed.

(* readings the monitor takes: an id that was explicitly minted and burned is fresh again - for a later
   explicit mint and for the sequential counter (accepted, in scope) *)
Example C10_burned_ids_are_fresh_again :
  mon FBase true
    [(MintId 0 1, Ok None, ob 0 [None; Some 0; None] [1; 0]);
     (Burn [0] 0 1, Ok None, ob 0 [None; None; None] [0; 0]);
     (MintSeq 1, Ok (Some 0), ob 1 [Some 1; None; None; None] [0; 1]);
     (MintSeq 1, Ok (Some 1), ob 2 [Some 1; Some 1; None; None; None] [0; 2])] = 0 /\
  mon FBase true
    [(MintSeq 0, Ok (Some 0), ob 1 [Some 0; None; None; None] [1; 0]);
     (Burn [0] 0 0, Ok None, ob 1 [None; None; None; None] [0; 0]);
     (MintId 1 0, Ok None, ob 1 [Some 1; None; None; None] [0; 1])] = 0.
Proof. vm_compute. repeat split. Qed.

(* the monitor rejects: a wrong owner for an untouched id after a transfer; a balance that does not count the
   owned tokens; a sequential id reused after a burn; a token missing from the global enumeration; a token
   listed twice in an owner's enumeration *)
Example C10_monitor_rejects_bad_traces :
  mon FCons true
    [(BatchMint 0 3, Ok (Some 2), ob 3 [Some 0; Some 0; Some 0; None; None; None] [3; 0]);
     (Transfer [0] 0 1 1, Ok None, ob 3 [Some 1; Some 1; Some 0; None; None; None] [2; 1])] = 2 /\
  mon FCons true
    [(BatchMint 0 3, Ok (Some 2), ob 3 [Some 0; Some 0; Some 0; None; None; None] [3; 0]);
     (Transfer [0] 0 1 1, Ok None, ob 3 [Some 0; Some 1; Some 0; None; None; None] [2; 1])] = 0 /\
  mon FBase true
    [(MintSeq 0, Ok (Some 0), ob 1 [Some 0; None; None; None] [1; 0]);
     (Burn [0] 0 0, Ok None, ob 1 [None; None; None; None] [1; 0])] = 2 /\
  mon FBase true
    [(MintSeq 0, Ok (Some 0), ob 1 [Some 0; None; None; None] [1; 0]);
     (Burn [0] 0 0, Ok None, ob 1 [None; None; None; None] [0; 0]);
     (MintSeq 1, Ok (Some 0), ob 1 [Some 1; None; None; None] [0; 1])] = 3 /\
  mon FEnum true
    [(MintSeq 0, Ok (Some 0), obe 1 [Some 0; None; None; None] [1] 1 [Some 0; None; None] [[Some 0; None; None]]);
     (MintSeq 0, Ok (Some 1), obe 2 [Some 0; Some 0; None; None; None] [2] 2 [Some 0; None; None; None] [[Some 0; Some 1; None; None]])] = 2 /\
  mon FEnum true
    [(MintSeq 0, Ok (Some 0), obe 1 [Some 0; None; None; None] [1] 1 [Some 0; None; None] [[Some 0; None; None]]);
     (MintSeq 0, Ok (Some 1), obe 2 [Some 0; Some 0; None; None; None] [2] 2 [Some 0; Some 1; None; None] [[Some 0; Some 0; None; None]])] = 2 /\
  mon FEnum true
    [(MintSeq 0, Ok (Some 0), obe 1 [Some 0; None; None; None] [1] 1 [Some 0; None; None] [[Some 0; None; None]]);
     (MintSeq 0, Ok (Some 1), obe 2 [Some 0; Some 0; None; None; None] [2] 2 [Some 0; Some 1; None; None] [[Some 0; Some 1; None; None]])] = 0.
Proof. vm_compute. repeat split. Qed.

(* the monitor stands on its own: malformed or hiding traces are rejected (review traces A1, A1b, A2, A7, A9,
   A10, an Advance reported as failed, a batch on a non-consecutive flavour, an explicit mint on the
   consecutive flavour, a batch whose range swallows a live explicitly minted id is Illegal there) *)
Example C10_monitor_rejects_malformed_traces :
  (* A1: batch swallows live id 5 (sampled and full) - an explicit mint is not an entry point of the consecutive flavour *)
  mon FCons false
    [(MintId 1 5, Ok None, mkObs 0 [(0,None);(5,Some 1);(9,None)] [(0,0);(1,1)] [] [] 0 [] []);
     (BatchMint 0 10, Ok (Some 9), mkObs 10 [(0,Some 0);(5,Some 0);(9,Some 0);(10,None)] [(0,10);(1,1)] [] [] 0 [] [])] = 1 /\
  (* ... and with a reference that knows a live point id inside the range the batch is out of scope / strict: flagged *)
  mon_from true FCons c0 false (mkGhost 10 [LPoint 5 (Some 1)] [(1, 1)] 0 1 [] []) 
    [(BatchMint 0 10, Ok (Some 9), mkObs 10 [(0,Some 0);(5,Some 0);(9,Some 0);(10,None)] [(0,10);(1,1)] [] [] 0 [] [])] 0 = 1 /\
  (* A2: the transfer of token 1 also moved token 2; id 2 and the loser are simply not listed afterwards *)
  mon FCons true
    [(BatchMint 0 3, Ok (Some 2), ob 3 [Some 0; Some 0; Some 0; None; None; None] [3; 0]);
     (Transfer [0] 0 1 1, Ok None, mkObs 3 [(0,Some 0);(1,Some 1);(3,None)] [(1,1)] [] [] 0 [] [])] = 2 /\
  (* A9: nothing observed at all *)
  mon FCons true [(BatchMint 0 3, Ok (Some 2), mkObs 3 [] [] [] [] 0 [] [])] = 1 /\
  (* a holder's balance not listed *)
  mon FCons true [(BatchMint 0 3, Ok (Some 2), mkObs 3 (idx [Some 0; Some 0; Some 0; None; None; None]) [(1,0)] [] [] 0 [] [])] = 1 /\
  (* A7: enumeration answers on a trace labelled Base *)
  mon FBase true
    [(MintSeq 0, Ok (Some 0), obe 1 [Some 0; None; None; None] [1] 1 [Some 7; None; None] [[Some 7; None; None]])] = 1 /\
  (* A10: a transfer that returns a value *)
  mon FCons true
    [(BatchMint 0 3, Ok (Some 2), ob 3 [Some 0; Some 0; Some 0; None; None; None] [3; 0]);
     (Transfer [0] 0 1 1, Ok (Some 99), ob 3 [Some 0; Some 1; Some 0; None; None; None] [2; 1])] = 2 /\
  (* the ledger refusing to move *)
  mon FBase true [(Advance 5, Fail, ob 0 [None; None; None] [])] = 1 /\
  (* mint entry points the flavour does not have *)
  mon FBase true [(BatchMint 0 3, Ok (Some 2), ob 3 [Some 0; Some 0; Some 0; None; None; None] [3])] = 1 /\
  mon FCons true [(MintSeq 0, Ok (Some 0), ob 1 [Some 0; None; None; None] [1])] = 1 /\
  (* ids not in increasing order (duplicates could hide a second answer) *)
  mon FBase true [(MintSeq 0, Ok (Some 0), mkObs 1 [(0, Some 0); (0, None); (1, None); (2, None); (3, None)] [(0,1)] [] [] 0 [] [])] = 1.
Proof. vm_compute. repeat split. Qed.

(* a reachable consecutive state with burned neighbours, a bucket boundary and every id queried *)
Example C10_reachable_consecutive :
  let c := Build_cfg (Build_hostcfg 1 1000) 8 32000 in
  let s := run FCons c (init 10) [BatchMint 0 6; BatchMint 1 6; Burn [0] 0 4; Burn [0] 0 3; Transfer [0] 0 2 5;
                                  Transfer [1] 1 2 8; Burn [1] 1 7; Transfer [0] 0 3 0] in
  map (owner_of FCons c s) [0;1;2;3;4;5;6;7;8;9;10;11;12] =
    [Some 3; Some 0; Some 0; None; None; Some 2; Some 1; None; Some 2; Some 1; Some 1; Some 1; None] /\
  map (balance s) [0;1;2;3] = [2; 4; 2; 1].
Proof. vm_compute. repeat split. Qed.

(* bit level on the real constants: marks on word and bucket edges *)
Example C10_bits_example :
  let s := set_marks (init 0) [6405; 3199; 3200; 5; 31; 32; 64; 3000] in
  match buckets_of b0 (marks s) with
  | Ok bs => map (fun i => scan_bits b0 bs i 9599) [0; 6; 31; 32; 33; 65; 3001; 3199; 3200; 3201; 6405; 6406]
             = [Some 5; Some 31; Some 31; Some 32; Some 64; Some 3000; Some 3199; Some 3199; Some 3200; Some 6405; Some 6405; None]
             /\ map (fun i => scan_bits b0 bs i 3300) [3200; 3201] = [Some 3200; None]
  | Fail => False
  end.
Proof. vm_compute. repeat split. Qed.

(* persistence: nothing but a call may change the state.  After a long ledger gap (one Advance) an owner that
   disappeared, a balance that went to 0, a burnt token that came back, an enumeration entry that vanished, or
   a getter that trapped (reported by the harness as the impossible value 2^32) are rejected *)
Example C10_monitor_rejects_lapsed_state :
  mon FBase true
    [(MintSeq 0, Ok (Some 0), ob 1 [Some 0; None; None; None] [1]);
     (Advance 600000, Ok None, ob 1 [None; None; None; None] [1])] = 2 /\
  mon FBase true
    [(MintSeq 0, Ok (Some 0), ob 1 [Some 0; None; None; None] [1]);
     (Advance 4000000, Ok None, ob 1 [Some 0; None; None; None] [0])] = 2 /\
  mon FBase true
    [(MintSeq 0, Ok (Some 0), ob 1 [Some 0; None; None; None] [1]);
     (Advance 20000, Ok None, ob 1 [Some 0; None; None; None] [4294967296])] = 2 /\
  mon FBase true
    [(MintSeq 0, Ok (Some 0), ob 1 [Some 0; None; None; None] [1]);
     (Advance 17281, Ok None, ob 4294967296 [Some 0; None; None; None] [1])] = 2 /\
  mon FCons true
    [(BatchMint 0 3, Ok (Some 2), ob 3 [Some 0; Some 0; Some 0; None; None; None] [3]);
     (Burn [0] 0 1, Ok None, ob 3 [Some 0; None; Some 0; None; None; None] [2]);
     (Advance 600000, Ok None, ob 3 [Some 0; Some 0; Some 0; None; None; None] [2])] = 3 /\
  mon FEnum true
    [(MintSeq 0, Ok (Some 0), obe 1 [Some 0; None; None; None] [1] 1 [Some 0; None; None] [[Some 0; None; None]]);
     (Advance 100, Ok None, obe 1 [Some 0; None; None; None] [1] 1 [None; None; None] [[Some 0; None; None]])] = 2 /\
  mon FEnum true
    [(MintSeq 0, Ok (Some 0), obe 1 [Some 0; None; None; None] [1] 1 [Some 0; None; None] [[Some 0; None; None]]);
     (Advance 4000000, Ok None, obe 1 [Some 0; None; None; None] [1] 1 [Some 0; None; None] [[Some 0; None; None]])] = 0.
Proof. vm_compute. repeat split. Qed.

(* the monitor rejects a token that got stuck: the owner's authorised transfer / burn fails *)
Example C10_monitor_rejects_stuck_token :
  mon FBase true
    [(MintSeq 0, Ok (Some 0), ob 1 [Some 0; None; None; None] [1; 0]);
     (Advance 600000, Ok None, ob 1 [Some 0; None; None; None] [1; 0]);
     (Transfer [0] 0 1 0, Fail, ob 1 [Some 0; None; None; None] [1; 0])] = 3 /\
  mon FBase true
    [(MintSeq 0, Ok (Some 0), ob 1 [Some 0; None; None; None] [1; 0]);
     (Burn [0] 0 0, Fail, ob 1 [Some 0; None; None; None] [1; 0])] = 2 /\
  (* ... but not a transfer that must fail: wrong owner named, or the owner's authorisation missing *)
  mon FBase true
    [(MintSeq 0, Ok (Some 0), ob 1 [Some 0; None; None; None] [1; 0]);
     (Transfer [1] 1 0 0, Fail, ob 1 [Some 0; None; None; None] [1; 0]);
     (Transfer [1] 0 1 0, Fail, ob 1 [Some 0; None; None; None] [1; 0])] = 0.
Proof. vm_compute. repeat split. Qed.

(* the bit-level diff is not vacuous: a wrong raw word (LSB-first mask), a missing bucket, a wrong number of
   words, a wrong constant, and MISSING dumps (review trace A8) are flagged although outcomes agree *)
Example C10_bit_level_diff_rejects :
  let t := mkTrace FCons c0 10 true [(BatchMint 0 3, Ok (Some 2), ob 3 [Some 0; Some 0; Some 0; None; None; None] [3])] in
  check (mkBTrace t b0 [[(0, Some (100, [(0, 536870912)])); (1, None)]]) = (0, 0, 0) /\
  fst (fst (check (mkBTrace t b0 [[(0, Some (100, [(0, 4)])); (1, None)]]))) = 1 /\
  fst (fst (check (mkBTrace t b0 [[(0, None); (1, None)]]))) = 1 /\
  fst (fst (check (mkBTrace t b0 [[(0, Some (99, [(0, 536870912)])); (1, None)]]))) = 1 /\
  fst (fst (check (mkBTrace t (Build_bcfg 32 99) [[(0, Some (100, [(0, 536870912)])); (1, None)]]))) = 1 /\
  fst (fst (check (mkBTrace t b0 []))) = 1 /\
  fst (fst (check (mkBTrace t b0 [[]]))) = 1 /\
  fst (fst (check (mkBTrace t b0 [[(0, Some (100, [(0, 536870912)]))]]))) = 1.
Proof. vm_compute. repeat split. Qed.

(* hardening round 4 (K1 special addresses, K2 bucket edges, K5 equal parties, K6 swap-and-pop): the monitor rejects
   - a token transferred / batch-minted to an address whose balance does not move (address 3 stands for the NFT
     contract's own address: the refinement theorems above quantify over ALL addresses, none is special);
   - an owner list that keeps a stale entry past its end, lists a token twice, or a global list that keeps the
     burned token after a swap-and-pop of the FIRST entry of three;
   - an authorised transfer_from with spender = from = to that fails; a self-transfer by a non-owner that succeeds;
   - a transfer of the first id of the second bucket (3200) that changes the owner of the last id of the first
     bucket (3199) (sampled observation);
   and accepts the correct answers in each situation. *)
Definition e3 : list (call * outcome * obs) :=
  [(MintSeq 0, Ok (Some 0), obe 1 [Some 0;None;None;None] [1] 1 [Some 0;None;None] [[Some 0;None;None]]);
   (MintSeq 0, Ok (Some 1), obe 2 [Some 0;Some 0;None;None;None] [2] 2 [Some 0;Some 1;None;None] [[Some 0;Some 1;None;None]]);
   (MintSeq 0, Ok (Some 2), obe 3 [Some 0;Some 0;Some 0;None;None;None] [3] 3 [Some 0;Some 1;Some 2;None;None] [[Some 0;Some 1;Some 2;None;None]])].
Definition sob (nx : N) (own : list (N * option addr)) (bal : list N) : obs := mkObs nx own (idx bal) [] [] 0 [] [].
Example C10_monitor_rejects_round4_traces :
  mon FBase true
    [(MintSeq 0, Ok (Some 0), ob 1 [Some 0; None; None; None] [1; 0; 0; 0]);
     (Transfer [0] 0 3 0, Ok None, ob 1 [Some 3; None; None; None] [0; 0; 0; 0])] = 2 /\
  mon FBase true
    [(MintSeq 0, Ok (Some 0), ob 1 [Some 0; None; None; None] [1; 0; 0; 0]);
     (Transfer [0] 0 3 0, Ok None, ob 1 [Some 3; None; None; None] [0; 0; 0; 1])] = 0 /\
  mon FCons true [(BatchMint 3 2, Ok (Some 1), ob 2 [Some 3; Some 3; None; None; None] [0; 0; 0; 0])] = 1 /\
  mon FCons true [(BatchMint 3 2, Ok (Some 1), ob 2 [Some 3; Some 3; None; None; None] [0; 0; 0; 2])] = 0 /\
  mon FEnum true (e3 ++ [(Burn [0] 0 0, Ok None, obe 3 [None;Some 0;Some 0;None;None;None] [2] 2 [Some 2;Some 1;None;None] [[Some 2;Some 1;Some 2;None]])]) = 4 /\
  mon FEnum true (e3 ++ [(Burn [0] 0 0, Ok None, obe 3 [None;Some 0;Some 0;None;None;None] [2] 2 [Some 2;Some 1;None;None] [[Some 2;Some 2;None;None]])]) = 4 /\
  mon FEnum true (e3 ++ [(Burn [0] 0 0, Ok None, obe 3 [None;Some 0;Some 0;None;None;None] [2] 2 [Some 0;Some 1;None;None] [[Some 2;Some 1;None;None]])]) = 4 /\
  mon FEnum true (e3 ++ [(Burn [0] 0 0, Ok None, obe 3 [None;Some 0;Some 0;None;None;None] [2] 2 [Some 2;Some 1;None;None] [[Some 2;Some 1;None;None]])]) = 0 /\
  mon FBase true
    [(MintSeq 0, Ok (Some 0), ob 1 [Some 0; None; None; None] [1; 0]);
     (TransferFrom [0] 0 0 0 0, Fail, ob 1 [Some 0; None; None; None] [1; 0])] = 2 /\
  mon FBase true
    [(MintSeq 0, Ok (Some 0), ob 1 [Some 0; None; None; None] [1; 0]);
     (Transfer [1] 1 1 0, Ok None, ob 1 [Some 0; None; None; None] [1; 0])] = 2 /\
  mon FCons false
    [(BatchMint 0 3202, Ok (Some 3201), sob 3202 [(0, Some 0); (3199, Some 0); (3200, Some 0); (3201, Some 0); (3202, None)] [3202; 0]);
     (Transfer [0] 0 1 3200, Ok None, sob 3202 [(0, Some 0); (3199, Some 1); (3200, Some 1); (3201, Some 0); (3202, None)] [3201; 1])] = 2 /\
  mon FCons false
    [(BatchMint 0 3202, Ok (Some 3201), sob 3202 [(0, Some 0); (3199, Some 0); (3200, Some 0); (3201, Some 0); (3202, None)] [3202; 0]);
     (Transfer [0] 0 1 3200, Ok None, sob 3202 [(0, Some 0); (3199, Some 0); (3200, Some 1); (3201, Some 0); (3202, None)] [3201; 1])] = 0.
Proof. vm_compute. repeat split. Qed.
