(* C19 - Fee forwarding charges at most the authorized fee for the authorized call only.

   Model: coq/Model/FeeForwarder.v (both example forwarders, fee-abstraction, the fee token's
   balance / allowance core on temporary storage, the Soroban authorisation manager for call
   trees of depth <= 2, the harness target).  [step_ok c st call = Ok (st', ret)] = the call
   succeeds in state [st]; [run c cs] = the state reached from the initial one by the call
   sequence [cs] (any calls, any arguments, any authorisation entries, failing calls included).
   This file contains only pinned statements, each closed by [exact] of a lemma proved in Proofs/,
   followed by Print Assumptions, and Examples (non-vacuity, the monitor rejects bad traces). *)
From SC Require Import Lib.Prelude Lib.Int Lib.Host Model.FeeForwarder Proofs.FeeForwarder
  Run.C19 Proofs.FeeForwarderAllow Proofs.FeeForwarderFwd Proofs.C19Monitor Proofs.C19Final
  Proofs.C19Debit Proofs.C19AuthTree Proofs.C19Persist Proofs.C19Examples Proofs.C19Classes.

(* A forwarded call succeeds only with an authorisation entry SIGNED BY THE USER whose root
   invocation is the forwarder's `forward` over exactly (fee token, maximum fee, expiration ledger,
   target contract, target function, target arguments) - and one signed by the relayer over the
   whole argument list; in the permissioned example the relayer holds the executor role.
   Holds in every state, for every configuration. *)
Theorem C19_needs_user_auth_over_exact_args :
  forall c st k tok fee max exp target fn args user relayer au st' ret,
  step_ok c st (Forward k tok fee max exp target fn args user relayer au) = Ok (st', ret) ->
  (exists e, In e au /\ en_who e = user /\
     en_root e = {| f_contract := fwd_addr c k; f_name := F_FORWARD;
                    f_args := [VA tok; VI max; VI exp; VA target; VS fn; VL args] |}) /\
  (exists e, In e au /\ en_who e = relayer /\
     en_root e = {| f_contract := fwd_addr c k; f_name := F_FORWARD;
                    f_args := [VA tok; VI fee; VI max; VI exp; VA target; VS fn; VL args; VA user; VA relayer] |}) /\
  (k = Permissioned -> In relayer (c_executors c)).
Proof. exact forward_needs_auth. Qed.
Print Assumptions C19_needs_user_auth_over_exact_args.

(* The fee is positive and at most the authorised maximum; the user is not the forwarder. *)
Theorem C19_fee_bounds :
  forall c st k tok fee max exp target fn args user relayer au st' ret,
  step_ok c st (Forward k tok fee max exp target fn args user relayer au) = Ok (st', ret) ->
  0 < fee <= max /\ user <> fwd_addr c k.
Proof. exact forward_fee_bounds. Qed.
Print Assumptions C19_fee_bounds.

(* In every reachable state a successful forward debits the user exactly [fee] of the fee token,
   credits exactly [fee] to the recipient (the relayer / the permissioned forwarder itself), and
   changes no other balance of any token and no total supply.  The only allowance that changes is
   (user -> forwarder) on the fee token: a fresh approval of [max] until [exp] (always in the
   eager / permissionless flow, only when the live allowance is below [max] in the lazy /
   permissioned flow) less the fee, else the old allowance less the fee with its old expiration.
   A fresh approval needs the user's authorisation of token.approve(user, forwarder, max, exp).
   The expiration ledger is not in the past.
   This includes RE-ENTERING targets: the target may, from inside the forwarded call, call
   token.transfer_from(spender, from, to, amount) for any spender (e.g. the forwarder, whose
   allowance max - fee from the user is in place during the call), token.approve(owner, ..) for any
   owner, or the forwarder's own forward() - swallowing or propagating the failure.  [wf_call] (a
   boolean, trivially true for the other target functions) says that nobody among the signers of
   this call authorised that inner call and that its principal is not the target itself; then the
   inner call is refused and the effects are exactly the ones above (see also C19_target_once).
   [mv = tgt_moves c target fn args] is the effect of the signed target call ITSELF when the target
   is a fee token ([None] for every other target, last-but-one clause): the forwarder, as direct
   invoker, is made to call token.transfer_from(spender, from, to, amt) or token.transfer(from, to,
   amt); [tgt_delta] = from - amt, to + amt on that token, [tgt_alw] = the (from -> spender)
   allowance less amt.  With spender = the forwarder and from = the user this spends the allowance the
   fee collection has just left in place (max - fee, or old - fee): the user is debited fee + amt -
   both amounts the user signed (C19_needs_user_auth_over_exact_args), neither the relayer's choice.
   [wf_call] also says that every principal involved is in the header's observed tables. *)
Theorem C19_exact_debit_credit :
  forall c cs k tok fee max exp target fn args user relayer au st' ret,
  1 <= min_temp_ttl (c_host c) ->
  wf_call c (Forward k tok fee max exp target fn args user relayer au) = true ->
  let st := run c cs in
  step_ok c st (Forward k tok fee max exp target fn args user relayer au) = Ok (st', ret) ->
  let F := fwd_addr c k in
  let recipient := match k with Permissioned => F | Permissionless => relayer end in
  let old := allowance_data (now st) (get_tok st tok) user F in
  let fresh := match k with Permissioned => fst old <? max | Permissionless => true end in
  let mv := tgt_moves c target fn args in
  (forall t h, balance (get_tok st' t) h =
     balance (get_tok st t) h +
     (if N.eqb t tok then (if N.eqb h recipient then fee else 0) - (if N.eqb h user then fee else 0) else 0) +
     tgt_delta mv target t h) /\
  (forall t, t_total (get_tok st' t) = t_total (get_tok st t)) /\
  (forall t o s, allowance_data (now st') (get_tok st' t) o s =
     tgt_alw mv target t o s
       (if N.eqb t tok && N.eqb o user && N.eqb s F
        then (if fresh then (max - fee, exp) else (fst old - fee, snd old))
        else allowance_data (now st) (get_tok st t) o s)) /\
  (fresh = true ->
     exists e, In e au /\ en_who e = user /\
       let ap := {| f_contract := tok; f_name := F_APPROVE; f_args := [VA user; VA F; VI max; VI exp] |} in
       (en_root e = ap \/ In ap (en_subs e))) /\
  now st <= exp /\ now st' = now st /\
  (memb target (c_tokens c) = false -> mv = None) /\
  (forall from to amt sp, mv = Some (from, to, amt, sp) -> 0 <= amt).
Proof. exact forward_exact_debit_credit. Qed.
Print Assumptions C19_exact_debit_credit.

(* A fresh approval inside a forward is authorised UNDER the user's signed forward tree: the
   invocation token.approve(user, forwarder, max, exp) is a direct sub-invocation of an entry
   signed by the user whose root is the forward tuple itself (or, when user = relayer, the
   relayer's argument list) - an unrelated, separately signed `approve` root does not count.
   Holds in every state, for every configuration. *)
Theorem C19_fresh_approval_under_user_tree :
  forall c st k tok fee max exp target fn args user relayer au st' ret,
  step_ok c st (Forward k tok fee max exp target fn args user relayer au) = Ok (st', ret) ->
  let F := fwd_addr c k in
  let old := allowance_data (now st) (get_tok st tok) user F in
  (match k with Permissioned => fst old <? max | Permissionless => true end) = true ->
  exists e, In e au /\ en_who e = user /\
    In {| f_contract := tok; f_name := F_APPROVE; f_args := [VA user; VA F; VI max; VI exp] |} (en_subs e) /\
    (en_root e = {| f_contract := F; f_name := F_FORWARD;
                    f_args := [VA tok; VI max; VI exp; VA target; VS fn; VL args] |}
     \/ (user = relayer /\
         en_root e = {| f_contract := F; f_name := F_FORWARD;
                        f_args := [VA tok; VI fee; VI max; VI exp; VA target; VS fn; VL args; VA user; VA relayer] |})).
Proof. exact forward_fresh_approval_under_tree. Qed.
Print Assumptions C19_fresh_approval_under_user_tree.

(* Upper bound on what anybody can be charged, over every history: in a reachable state the only
   successful calls after which some account's balance of some token is lower than before are
   (a) a forward naming that account as the user, on that token, carrying an entry SIGNED BY THAT
       ACCOUNT over the exact tuple - and then the balance is lower by exactly the stated fee,
       0 < fee <= the authorised maximum; or
   (b) a forward whose TARGET is that fee token: the account is the [from] of the token function the
       forwarder is made to call (transfer_from / transfer) - a call whose exact contract, function
       and arguments the user of that forward signed.  [from] may be the user (through the allowance
       given to the forwarder), the forwarder itself (its own balance: a documented caveat of
       forwarding arbitrary calls from a contract that holds funds) or a third party that authorised
       it; or
   (c) a manager's sweep, for the permissioned forwarder's own balance.
   Not covered: a forward to a harness target that itself holds an allowance from a third party
   ([wf_call] excludes target = spender of the re-entrant pull). *)
Theorem C19_debit_only_by_authorised_forward : forall c cs cl st' ret t h,
  1 <= min_temp_ttl (c_host c) ->
  wf_call c cl = true ->
  let st := run c cs in
  step_ok c st cl = Ok (st', ret) ->
  balance (get_tok st' t) h < balance (get_tok st t) h ->
  (exists k fee max exp target fn args relayer au,
     cl = Forward k t fee max exp target fn args h relayer au /\
     0 < fee <= max /\
     (memb target (c_tokens c) = false -> balance (get_tok st' t) h = balance (get_tok st t) h - fee) /\
     exists e, In e au /\ en_who e = h /\
       en_root e = {| f_contract := fwd_addr c k; f_name := F_FORWARD;
                      f_args := [VA t; VI max; VI exp; VA target; VS fn; VL args] |})
  \/ (exists k tok fee max exp fn args user relayer au to amt sp,
        cl = Forward k tok fee max exp t fn args user relayer au /\
        tgt_moves c t fn args = Some (h, to, amt, sp) /\ 0 < amt /\
        exists e, In e au /\ en_who e = user /\
          en_root e = {| f_contract := fwd_addr c k; f_name := F_FORWARD;
                         f_args := [VA tok; VI max; VI exp; VA t; VS fn; VL args] |})
  \/ (exists recipient operator au,
        cl = Sweep t recipient operator au /\ h = c_fp c /\ In operator (c_managers c)).
Proof. exact debit_only_by_authorised_forward. Qed.
Print Assumptions C19_debit_only_by_authorised_forward.

(* A successful forward invokes exactly the stated target call, once: the target's log grows by
   exactly (fn, args), no other target is touched, and the value returned is the target's.  A
   re-entering target function (is_script) also logs the result of its inner call: 0 = refused.
   A fee token as target touches no harness target (its single effect is in C19_exact_debit_credit).
   NOTE: in the model [forward] calls the target once by construction; this theorem reads that
   structure back (plus: the re-entrant inner call is refused).  That the CODE invokes the target
   exactly once rests on the correspondence run (the real target's log / the real token's
   balances after every call), not on this theorem. *)
Theorem C19_target_once :
  forall c st k tok fee max exp target fn args user relayer au st' ret,
  1 <= min_temp_ttl (c_host c) ->
  wf_call c (Forward k tok fee max exp target fn args user relayer au) = true ->
  step_ok c st (Forward k tok fee max exp target fn args user relayer au) = Ok (st', ret) ->
  if memb target (c_tokens c)
  then tgt_moves c target fn args <> None /\ logs st' = logs st /\ ret = 0
  else In target (c_targets c) /\
       (forall g, get_log (logs st') g =
          if N.eqb g target
          then get_log (logs st) target ++ [if is_script fn then (fn, args ++ [AI 0]) else (fn, args)]
          else get_log (logs st) g) /\
       ret = Z.of_nat (length (get_log (logs st') target)).
Proof. exact forward_target_once. Qed.
Print Assumptions C19_target_once.

(* If any step fails nothing persists.  NOTE: this restates the definition of [step] (a failing call
   returns the old state = the host's rollback of a failed invocation, part of the trusted base); it
   says nothing about partial effects inside the code.  The clause is carried by the correspondence
   run: after EVERY failing call of the real code the full observation is compared with the previous
   one (diff and monitor: [Fail => obs_eqb prev cur]). *)
Theorem C19_atomic : forall c st cl,
  snd (step c st cl) = Fail ->
  fst (step c st cl) = st /\ observe c (fst (step c st cl)) = observe c st.
Proof. exact step_atomic. Qed.
Print Assumptions C19_atomic.

(* In every reachable state the permissioned forwarder accepts a fee token only if its allow-list
   is empty or its enumeration contains the token. *)
Theorem C19_token_allowed :
  forall c cs tok fee max exp target fn args user relayer au st' ret,
  1 <= min_temp_ttl (c_host c) ->
  let st := run c cs in
  step_ok c st (Forward Permissioned tok fee max exp target fn args user relayer au) = Ok (st', ret) ->
  al_count (al st) = 0%N \/ In (Some tok) (enumeration (al st)).
Proof. exact forward_token_allowed. Qed.
Print Assumptions C19_token_allowed.

(* After every history the allow-list storage (Count, Token(i), TokenIndex(t)) is a duplicate-free
   enumeration of exactly the tokens allowed and not since removed ([snd (run_abs c cs)]: the set
   read off the successful enable / disable calls), TokenIndex is the position in the enumeration,
   nothing is stored past the end, and is_allowed_fee_token = "list empty or member". *)
Theorem C19_allowlist_refines_set : forall c cs,
  1 <= min_temp_ttl (c_host c) ->
  let a := al (run c cs) in
  let S := snd (run_abs c cs) in
  exists en,
    enumeration a = map Some en /\ NoDup en /\ N.of_nat (length en) = al_count a /\
    (forall t, In t en <-> In t S) /\
    (forall t, alist_get t (al_idx a) = find_index t en 0%N) /\
    alist_get (al_count a) (al_tok a) = None /\
    (forall t, is_allowed a t = true <-> (en = [] \/ In t en)).
Proof. exact allowlist_refines_set. Qed.
Print Assumptions C19_allowlist_refines_set.

(* Host-level fact the allowance part rests on, proved of the transcribed temporary-storage rules:
   a positive allowance entry is kept alive by the host at least until its own live_until_ledger
   (so the allowance getter never loses a live allowance early), in every reachable state. *)
Theorem C19_allowance_outlives_live_until : forall c cs tok o s en,
  1 <= min_temp_ttl (c_host c) ->
  alw_get (get_tok (run c cs) tok) o s = Some en ->
  0 <= fst (tval en) /\ (0 < fst (tval en) -> snd (tval en) <= tlive en).
Proof. exact allowance_outlives. Qed.
Print Assumptions C19_allowance_outlives_live_until.

(* Stored state survives ledger gaps of any length: in every reachable state an Advance by any
   number of ledgers changes nothing but the ledger sequence - token states (balances, supplies),
   the allow-list (count, entries, indices), the target logs are identical - and every positive
   allowance reads exactly the same until its own live_until ledger has passed, a zero one stays zero.
   (Roles are constants of the model; the monitor requires the observed roles to stay as constructed.) *)
Theorem C19_state_survives_ledger_gaps : forall c cs n st' r,
  1 <= min_temp_ttl (c_host c) ->
  let st := run c cs in
  step_ok c st (Advance n) = Ok (st', r) ->
  0 <= n /\ now st' = now st + n /\ toks st' = toks st /\ al st' = al st /\ logs st' = logs st /\
  (forall t h, balance (get_tok st' t) h = balance (get_tok st t) h) /\
  (forall t o s a l,
     allowance_data (now st) (get_tok st t) o s = (a, l) -> 0 < a ->
     allowance_data (now st') (get_tok st' t) o s = if l <? now st' then (0, 0) else (a, l)) /\
  (forall t o s, fst (allowance_data (now st) (get_tok st t) o s) = 0 ->
                 fst (allowance_data (now st') (get_tok st' t) o s) = 0).
Proof. exact advance_persistence. Qed.
Print Assumptions C19_state_survives_ledger_gaps.

(* The executable monitor (the property as a boolean over observed calls, authorisation entries,
   outcomes and getter values) accepts every run of the model, and the model agrees with itself;
   it is what is run on the implementation's traces. *)
Theorem C19_monitor_accepts_model : forall (c : cfg) (cs : list call),
  1 <= min_temp_ttl (c_host c) -> forallb (wf_call c) cs = true ->
  check (observe_model c cs) = (0%N, 0%N, 0%N).
Proof. exact check_accepts_model. Qed.
Print Assumptions C19_monitor_accepts_model.

(* ---- situation classes (special addresses, collaborators, aliasing, index-valued storage) ---- *)

(* NO ADDRESS IS EXEMPT FROM SIGNING.  Whatever a successful call names as user, relayer, operator or
   owner - an account, the forwarder's OWN address, the other forwarder, a fee token, a target -
   the attached entries contain one signed by that very address (for the exact root: see
   C19_needs_user_auth_over_exact_args).  A contract without __check_auth cannot sign, so the real
   code must refuse every call naming one as a party: the harness generates each such call without
   an entry for the contract and the monitor requires the entry. *)
Theorem C19_every_party_signs : forall c st cl st' ret,
  step_ok c st cl = Ok (st', ret) ->
  match cl with
  | Forward _ _ _ _ _ _ _ _ user relayer au =>
      (exists e, In e au /\ en_who e = user) /\ (exists e, In e au /\ en_who e = relayer)
  | SetTok _ _ operator au => exists e, In e au /\ en_who e = operator
  | Sweep _ _ operator au => exists e, In e au /\ en_who e = operator
  | Approve _ owner _ _ _ au => exists e, In e au /\ en_who e = owner
  | Advance _ => True
  | Mint _ _ _ => True
  end.
Proof. exact every_party_signs. Qed.
Print Assumptions C19_every_party_signs.

(* ... hence: a call naming as a party an address [a] nobody signed for fails and changes nothing *)
Theorem C19_unsigned_party_refused : forall c st cl a,
  (forall e, In e (match cl with
                   | Forward _ _ _ _ _ _ _ _ _ _ au | SetTok _ _ _ au | Sweep _ _ _ au | Approve _ _ _ _ _ au => au
                   | _ => []
                   end) -> en_who e <> a) ->
  match cl with
  | Forward _ _ _ _ _ _ _ _ user relayer _ => a = user \/ a = relayer
  | SetTok _ _ operator _ | Sweep _ _ operator _ => a = operator
  | Approve _ owner _ _ _ _ => a = owner
  | _ => False
  end ->
  step c st cl = (st, Fail).
Proof. exact unsigned_party_refused. Qed.
Print Assumptions C19_unsigned_party_refused.

(* THE COLLABORATORS EXIST AND ARE OF THE RIGHT KIND: a forward succeeds only if the fee token is a
   deployed fee token (not an account, not a forwarder, not a contract of another kind) and the target
   is a deployed contract other than the forwarder itself. *)
Theorem C19_collaborators_exist :
  forall c st k tok fee max exp target fn args user relayer au st' ret,
  1 <= min_temp_ttl (c_host c) ->
  step_ok c st (Forward k tok fee max exp target fn args user relayer au) = Ok (st', ret) ->
  In tok (c_tokens c) /\
  (In target (c_tokens c) \/ (In target (c_targets c) /\ target <> fwd_addr c k)).
Proof. exact forward_collaborators. Qed.
Print Assumptions C19_collaborators_exist.

(* THE EXACT EFFECT OF A SWEEP, WHOEVER THE RECIPIENT IS (an account, the operator, the other forwarder,
   the token contract's own address, the forwarder ITSELF): a manager signed it, the whole balance of
   the permissioned forwarder (positive) moves to the recipient, nothing else changes; with the
   forwarder itself as recipient no balance changes at all. *)
Theorem C19_sweep_exact : forall c st tok recipient operator au st' ret,
  step_ok c st (Sweep tok recipient operator au) = Ok (st', ret) ->
  In operator (c_managers c) /\ (exists e, In e au /\ en_who e = operator) /\
  ret = balance (get_tok st tok) (c_fp c) /\ 0 < ret /\
  (forall t h, balance (get_tok st' t) h =
     balance (get_tok st t) h +
     (if N.eqb t tok then (if N.eqb h recipient then ret else 0) - (if N.eqb h (c_fp c) then ret else 0) else 0)) /\
  (recipient = c_fp c -> forall t h, balance (get_tok st' t) h = balance (get_tok st t) h) /\
  (forall t, t_total (get_tok st' t) = t_total (get_tok st t)) /\
  (forall t o s, alw_get (get_tok st' t) o s = alw_get (get_tok st t) o s) /\
  al st' = al st /\ logs st' = logs st /\ now st' = now st.
Proof. exact sweep_exact. Qed.
Print Assumptions C19_sweep_exact.

(* ALIASING user = relayer (permissionless example: the payer is also the fee recipient): in every
   reachable state the fee returns to the payer - no balance moves beyond what the signed target call
   moves - but the approval is made and spent all the same (allowance = max - fee until exp), the fee
   bounds hold and BOTH roots (the user tuple and the whole argument list) are signed by that account. *)
Theorem C19_alias_user_is_relayer : forall c cs tok fee max exp target fn args user au st' ret,
  1 <= min_temp_ttl (c_host c) ->
  wf_call c (Forward Permissionless tok fee max exp target fn args user user au) = true ->
  let st := run c cs in
  step_ok c st (Forward Permissionless tok fee max exp target fn args user user au) = Ok (st', ret) ->
  let mv := tgt_moves c target fn args in
  (forall t h, balance (get_tok st' t) h = balance (get_tok st t) h + tgt_delta mv target t h) /\
  (forall t o s, allowance_data (now st') (get_tok st' t) o s =
     tgt_alw mv target t o s
       (if N.eqb t tok && N.eqb o user && N.eqb s (c_fl c) then (max - fee, exp)
        else allowance_data (now st) (get_tok st t) o s)) /\
  0 < fee <= max /\
  (exists e, In e au /\ en_who e = user /\
     en_root e = {| f_contract := c_fl c; f_name := F_FORWARD;
                    f_args := [VA tok; VI max; VI exp; VA target; VS fn; VL args] |}) /\
  (exists e, In e au /\ en_who e = user /\
     en_root e = {| f_contract := c_fl c; f_name := F_FORWARD;
                    f_args := [VA tok; VI fee; VI max; VI exp; VA target; VS fn; VL args; VA user; VA user] |}).
Proof. exact forward_alias_user_relayer. Qed.
Print Assumptions C19_alias_user_is_relayer.

(* INDEX-VALUED STORAGE over every history of enable / disable (any number of listed addresses, removed
   in any order, re-added): Token(i) = t exactly when i < Count and TokenIndex(t) = i - the two maps
   are inverse to each other NUMERICALLY - every slot below Count is filled and no index points at or
   past Count. *)
Theorem C19_index_roundtrip : forall c cs,
  1 <= min_temp_ttl (c_host c) ->
  let a := al (run c cs) in
  (forall i t, alist_get i (al_tok a) = Some t <-> ((i < al_count a)%N /\ alist_get t (al_idx a) = Some i)) /\
  (forall i, (i < al_count a)%N -> exists t, alist_get i (al_tok a) = Some t) /\
  (forall t i, alist_get t (al_idx a) = Some i -> (i < al_count a)%N).
Proof. exact index_roundtrip. Qed.
Print Assumptions C19_index_roundtrip.

(* ---- non-vacuity: a concrete history with successful forwards through both examples ---- *)
Example C19_example_run :
  outcomes ex_trace = [Ok 0; Ok 1; Ok 0; Ok 2; Fail; Ok 0; Ok 0; Fail; Ok 0; Ok 3; Fail;
                       Ok 0; Ok 0; Ok 4; Ok 17; Ok 5; Ok 0]
  /\ check ex_trace = (0%N, 0%N, 0%N)
  /\ forallb (wf_call ex_cfg) ex_calls = true
  /\ 1 <= min_temp_ttl (c_host ex_cfg)
  /\ snd (run_abs ex_cfg ex_calls) = [2%N; 3%N]
  /\ enumeration (al (run ex_cfg ex_calls)) = [Some 3%N; Some 2%N].
Proof. vm_compute. repeat split; try reflexivity; discriminate. Qed.

(* the example covers: eager fresh approval (#2), lazy fresh approval (#4), fee > max (#5), token not
   in the list (#8), re-entrant pull swallowed / propagated (#10, #11), lazy with a SUFFICIENT
   allowance and an auth-requiring target (#14, no approval: fresh = false), sweep (#15), user = relayer
   (#16), the fee token itself as target draining the residual allowance (#17) *)

(* ---- the monitor rejects hand-made bad traces (second component = first failing call) ---- *)
(* the user is charged one unit more than the stated fee *)
Example C19_monitor_rejects_overcharge :
  snd (fst (check (tamper 1 (on_obs (bump_bal 0 (-1))) ex_trace))) = 2%N.
Proof. vm_compute. reflexivity. Qed.
(* the recipient is credited less than the fee *)
Example C19_monitor_rejects_undercredit :
  snd (fst (check (tamper 1 (on_obs (bump_bal 1 (-1))) ex_trace))) = 2%N.
Proof. vm_compute. reflexivity. Qed.
(* a third party's balance moves *)
Example C19_monitor_rejects_third_party_credit :
  snd (fst (check (tamper 1 (on_obs (bump_bal 2 5)) ex_trace))) = 2%N.
Proof. vm_compute. reflexivity. Qed.
(* the forward succeeded without any entry signed by the user *)
Example C19_monitor_rejects_missing_user_auth :
  snd (fst (check (tamper 1 (on_call drop_user_entry) ex_trace))) = 2%N.
Proof. vm_compute. reflexivity. Qed.
(* the user authorised another maximum / target / argument list *)
Example C19_monitor_rejects_other_max :
  snd (fst (check (tamper 3 (on_call (map_user_root (upd_nth 1 (fun _ => VI 19)))) ex_trace))) = 4%N.
Proof. vm_compute. reflexivity. Qed.
Example C19_monitor_rejects_other_target :
  snd (fst (check (tamper 3 (on_call (map_user_root (upd_nth 3 (fun _ => VA 6%N)))) ex_trace))) = 4%N.
Proof. vm_compute. reflexivity. Qed.
Example C19_monitor_rejects_other_args :
  snd (fst (check (tamper 3 (on_call (map_user_root (upd_nth 5 (fun _ => VL [AI 4])))) ex_trace))) = 4%N.
Proof. vm_compute. reflexivity. Qed.
(* a fresh approval without the user's authorisation of token.approve *)
Example C19_monitor_rejects_unauthorised_approval :
  snd (fst (check (tamper 3 (on_call drop_subs) ex_trace))) = 4%N.
Proof. vm_compute. reflexivity. Qed.
(* the target was invoked twice / not at all *)
Example C19_monitor_rejects_target_twice :
  snd (fst (check (tamper 1 (on_obs (set_logs (upd_nth 0 (fun l => l ++ [(F_HIT, [AI 11])])))) ex_trace))) = 2%N.
Proof. vm_compute. reflexivity. Qed.
Example C19_monitor_rejects_target_not_called :
  snd (fst (check (tamper 1 (on_obs (set_logs (fun _ => [[]]))) ex_trace))) = 2%N.
Proof. vm_compute. reflexivity. Qed.
(* a failing forward (fee > max) leaves a debit behind / a forward with fee > max succeeds *)
Example C19_monitor_rejects_trace_of_failed_call :
  snd (fst (check (tamper 4 (on_obs (bump_bal 0 (-21))) ex_trace))) = 5%N.
Proof. vm_compute. reflexivity. Qed.
Example C19_monitor_rejects_fee_above_max :
  snd (fst (check (tamper 4 (on_out (Ok 3)) ex_trace))) = 5%N.
Proof. vm_compute. reflexivity. Qed.
(* the enumeration still lists a removed token / lists a token twice *)
Example C19_monitor_rejects_stale_enumeration :
  snd (fst (check (tamper 6 (on_obs (set_enum 2%N [Some 3%N; Some 2%N])) ex_trace))) = 7%N.
Proof. vm_compute. reflexivity. Qed.
Example C19_monitor_rejects_duplicate_enumeration :
  snd (fst (check (tamper 5 (on_obs (set_enum 2%N [Some 2%N; Some 2%N])) ex_trace))) = 6%N.
Proof. vm_compute. reflexivity. Qed.
(* a token outside a non-empty allow-list is accepted *)
Example C19_monitor_rejects_token_not_in_list :
  snd (fst (check (tamper 7 (on_out (Ok 3)) ex_trace))) = 8%N.
Proof. vm_compute. reflexivity. Qed.
(* the allowance is not reduced by the fee / survives its expiration ledger *)
Example C19_monitor_rejects_allowance_not_spent :
  snd (fst (check (tamper 3 (on_obs (put_alw 0 (20, 130))) ex_trace))) = 4%N.
Proof. vm_compute. reflexivity. Qed.
Example C19_monitor_rejects_allowance_outliving_expiry :
  snd (fst (check (tamper 8 (on_obs (put_alw 1 (40, 120))) ex_trace))) = 9%N.
Proof. vm_compute. reflexivity. Qed.
(* stored state lapses although no call changed it (here: across the final Advance): the executor
   role is gone / the user's balance is gone / the allow-list enumeration is gone *)
Example C19_monitor_rejects_lapsed_role :
  snd (fst (check (tamper 8 (on_obs (set_exec [false; false; false; false])) ex_trace))) = 9%N.
Proof. vm_compute. reflexivity. Qed.
Example C19_monitor_rejects_lapsed_balance :
  snd (fst (check (tamper 8 (on_obs (bump_bal 0 (-925))) ex_trace))) = 9%N.
Proof. vm_compute. reflexivity. Qed.
Example C19_monitor_rejects_lapsed_allowlist :
  snd (fst (check (tamper 8 (on_obs (set_enum 0%N [])) ex_trace))) = 9%N.
Proof. vm_compute. reflexivity. Qed.
(* a re-entering target (call #10 of the example: it tries to pull the user's remaining allowance
   through the forwarder while being forwarded) got its inner transfer_from through: logged as
   successful / the money moved / the remaining allowance is gone *)
Example C19_monitor_rejects_reentrant_pull_logged :
  snd (fst (check (tamper 9 (on_obs pull_went_through) ex_trace))) = 10%N.
Proof. vm_compute. reflexivity. Qed.
Example C19_monitor_rejects_reentrant_pull_debit :
  snd (fst (check (tamper 9 (on_obs (fun o => bump_bal 2 25 (bump_bal 0 (-25) o))) ex_trace))) = 10%N.
Proof. vm_compute. reflexivity. Qed.
Example C19_monitor_rejects_reentrant_pull_allowance :
  snd (fst (check (tamper 9 (on_obs (put_alw 1 (0, 200))) ex_trace))) = 10%N.
Proof. vm_compute. reflexivity. Qed.
(* the header does not list the user among the allowance owners / lists nothing at all: the call is
   not well-formed (its effects would be unobservable) and is REJECTED, not silently monitored *)
Example C19_monitor_rejects_unobserved_principal :
  snd (fst (check (observe_model ex_cfg_noowner ex_calls))) = 2%N
  /\ snd (fst (check (observe_model ex_cfg_empty ex_calls))) = 1%N.
Proof. vm_compute. split; reflexivity. Qed.
(* the fresh approval is authorised by a separate ROOT entry of the user, not under the forward tree *)
Example C19_monitor_rejects_approval_outside_tree :
  snd (fst (check (tamper 1 (on_call approve_as_root) ex_trace))) = 2%N.
Proof. vm_compute. reflexivity. Qed.
(* target = the fee token (call #17): the recipient of the signed transfer_from gets one unit more /
   the allowance is consumed by neither the fee nor the transfer_from.  (The monitor accepts both
   orders of fee collection and target call - the property does not fix it; the code's order, fee
   first, is enforced by the diff only.) *)
Example C19_monitor_rejects_token_target_overpaid :
  snd (fst (check (tamper 16 (on_obs (bump_bal 2 1)) ex_trace))) = 17%N.
Proof. vm_compute. reflexivity. Qed.
Example C19_monitor_rejects_token_target_allowance_kept :
  snd (fst (check (tamper 16 (on_obs (put_alw 1 (30, 300))) ex_trace))) = 17%N.
Proof. vm_compute. reflexivity. Qed.

(* ---- situation classes: a concrete world whose observed tables contain the CONTRACTS themselves ---- *)
Example C19_classes_example_run :
  outcomes ex2_trace = [Ok 0; Fail; Fail; Ok 0; Fail; Ok 0; Ok 1; Ok 10; Ok 10; Fail; Fail; Fail; Fail; Ok 0; Fail]
  /\ check ex2_trace = (0%N, 0%N, 0%N)
  /\ forallb (wf_call ex2_cfg) ex2_calls = true
  /\ enumeration (al (run ex2_cfg ex2_calls)) = [Some 2%N]
  /\ alist_get 2%N (al_idx (al (run ex2_cfg ex2_calls))) = Some 0%N.
Proof. vm_compute. repeat split; reflexivity. Qed.
(* #1 relayer = the permissionless forwarder itself, #2 user = the other forwarder: accepted although the
   contract signed nothing *)
Example C19_monitor_rejects_contract_relayer_accepted :
  snd (fst (check (tamper 1 (on_out (Ok 1)) ex2_trace))) = 2%N.
Proof. vm_compute. reflexivity. Qed.
Example C19_monitor_rejects_contract_user_accepted :
  snd (fst (check (tamper 2 (on_out (Ok 1)) ex2_trace))) = 3%N.
Proof. vm_compute. reflexivity. Qed.
(* #4 the list holds only the forwarder's own address: a real token is accepted nevertheless *)
Example C19_monitor_rejects_list_of_own_address_ignored :
  snd (fst (check (tamper 4 (on_out (Ok 1)) ex2_trace))) = 5%N.
Proof. vm_compute. reflexivity. Qed.
(* #13 the own address has left the non-empty list but is_allowed_fee_token(own address) still says true /
   TokenIndex of the token that was swapped into slot 0 still reads 1 *)
Example C19_monitor_rejects_own_address_always_allowed :
  snd (fst (check (tamper 13 (on_obs (set_allowed_obs [true; false; true; false; false])) ex2_trace))) = 14%N.
Proof. vm_compute. reflexivity. Qed.
Example C19_monitor_rejects_stale_index_after_swap :
  snd (fst (check (tamper 13 (on_obs (set_idx [Some 1%N; None; None; None; None])) ex2_trace))) = 14%N.
Proof. vm_compute. reflexivity. Qed.
(* #7 a sweep to the forwarder itself loses the funds *)
Example C19_monitor_rejects_sweep_to_itself_losing_funds :
  snd (fst (check (tamper 7 (on_obs (bump_bal 2 (-10))) ex2_trace))) = 8%N.
Proof. vm_compute. reflexivity. Qed.
(* #10 the target is an account (no call can have happened), #11 the fee token is a contract of another
   kind, #12 fee = 2^64 + 1 above the maximum 2: reported as successful *)
Example C19_monitor_rejects_account_target_accepted :
  snd (fst (check (tamper 10 (on_out (Ok 0)) ex2_trace))) = 11%N.
Proof. vm_compute. reflexivity. Qed.
Example C19_monitor_rejects_other_contract_as_fee_token :
  snd (fst (check (tamper 11 (on_out (Ok 1)) ex2_trace))) = 12%N.
Proof. vm_compute. reflexivity. Qed.
Example C19_monitor_rejects_fee_above_max_low_bits_within :
  snd (fst (check (tamper 12 (on_out (Ok 1)) ex2_trace))) = 13%N.
Proof. vm_compute. reflexivity. Qed.
