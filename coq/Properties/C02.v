(* C02 - Tokens move only with the holder's authorisation or a live allowance.
   Model: coq/Model/Fungible.v; every call carries the set [auths] of addresses whose authorisation is
   attached to it (require_auth a = has_auth auths a); the allowance entry lives in the temporary
   storage of Lib/Host.v.  Every theorem quantifies over the configuration, hence over all flavours
   (Base+Burnable, AllowList, BlockList, Votes, vault shares, RWA).
   This file contains only pinned statements, each closed by [exact] of a lemma proved in Proofs/,
   followed by Print Assumptions. *)
From SC Require Import Lib.Prelude Lib.Int Lib.Host Model.Math Model.Fungible Model.FungibleObs
  Proofs.FungibleBasics Proofs.FungibleExec Proofs.FungibleAllow Proofs.FungibleInv Proofs.FungibleObsFacts
  Run.C02 Proofs.C02Model Proofs.C02Monitor Proofs.C02Final Proofs.C02Parties.

(* [state_inv] holds in every reachable state (all call sequences, all authorisation sets, all
   ledger advances); the per-call theorems are stated for any state satisfying it. *)
Theorem C02_reachable_state_inv : forall c start cs, wf_cfg c = true -> state_inv (run c (init start) cs).
Proof. exact reachable_state_inv_c02. Qed.
Print Assumptions C02_reachable_state_inv.

(* A holder's balance decreases only in a call authorised by that holder, or in a transfer_from /
   burn_from (vault: withdraw / redeem by an operator) authorised by a spender whose allowance from
   that holder is unexpired and at least the amount, in which case the allowance drops by exactly
   that amount and keeps its live_until ([spender_path], spelled out:
     0 < amt /\ amt <= allowance.amount /\ now <= allowance.live_until /\
     allowance' = (allowance.amount - amt, allowance.live_until)).
   In every case only the account NAMED by the call is debited, and by at most the amount the call
   names (the amount charged to the allowance).  Apart from that only the RWA token's supervisory
   operations debit - in the RWA flavour only, the named account only, at most the named amount. *)
Theorem C02_debit_needs_auth : forall c s cl s' v evs a, wf_cfg c = true -> state_inv s ->
  exec c s cl = Ok (s', v, evs) -> balance (tk s') a < balance (tk s) a ->
  let debit := balance (tk s) a - balance (tk s') a in
  match cl with
  | Transfer au f _ _ amt | Burn au f amt => a = f /\ has_auth au a = true /\ debit <= amt
  | TransferFrom au sp f _ amt | BurnFrom au sp f amt =>
      a = f /\ has_auth au sp = true /\ spender_path s s' f sp amt /\ debit <= amt
  | VWithdraw au _ _ o op => a = o /\ has_auth au op = true /\ (op = o \/ spender_path s s' o op v) /\ debit <= v
  | VRedeem au sh _ o op => a = o /\ has_auth au op = true /\ (op = o \/ spender_path s s' o op sh) /\ debit <= sh
  | RForcedTransfer f _ amt | RBurn f amt => c_flav c = FRwa /\ a = f /\ debit <= amt
  | RRecover old _ => c_flav c = FRwa /\ a = old
  | _ => False
  end.
Proof. exact debit_needs_auth. Qed.
Print Assumptions C02_debit_needs_auth.

(* What allowance_data reports for (o, sp) changes only by an approve authorised by the owner o
   (to exactly what was approved, zero if already past), by a spend authorised by the spender sp
   (down by exactly the amount, same live_until), or by expiry through the passage of time. *)
Theorem C02_allowance_change_needs_owner : forall c s cl s' v evs o sp, wf_cfg c = true -> state_inv s ->
  exec c s cl = Ok (s', v, evs) ->
  let d := allowance_data (now s) (tk s) o sp in
  let d' := allowance_data (now s') (tk s') o sp in
  d' <> d ->
  (exists au amt lu, cl = Approve au o sp amt lu /\ has_auth au o = true /\
                     d' = if lu <? now s' then (0, 0) else (amt, lu)) \/
  (exists amt, spend_of cl v = Some (o, sp, amt) /\ has_auth (call_auths cl) sp = true /\
               0 < amt /\ amt <= fst d /\ d' = (fst d - amt, snd d)) \/
  (exists n, cl = Advance n /\ d' = (0, 0) /\ (fst d = 0 \/ snd d < now s')).
Proof. exact allowance_change_needs_owner. Qed.
Print Assumptions C02_allowance_change_needs_owner.

(* Over every history: with the ghost counters cap(o,sp) := amount of the last successful approve
   minus everything spent since, and lu(o,sp) := live_until of the last successful approve
   ([run_g] threads [ghost_step] through the run), the allowance never exceeds approved-minus-spent
   and is worth zero once the approved live_until_ledger has passed - for all sequences of calls,
   authorisation subsets and ledger advances (also beyond the entry's storage TTL). *)
Theorem C02_allowance_le_approved_minus_spent_and_expired_is_zero : forall c start cs o sp, wf_cfg c = true ->
  let s := fst (run_g c (init start) ghost0 cs) in
  let g := snd (run_g c (init start) ghost0 cs) in
  0 <= allowance (now s) (tk s) o sp <= capd g (o, sp) /\
  (lud g (o, sp) < now s -> allowance (now s) (tk s) o sp = 0).
Proof. exact allowance_bounded_by_ghost. Qed.
Print Assumptions C02_allowance_le_approved_minus_spent_and_expired_is_zero.

(* [run_g] is the ordinary run *)
Theorem C02_run_g_is_run : forall c cs s g, fst (run_g c s g cs) = run c s cs.
Proof. exact run_g_state. Qed.
Print Assumptions C02_run_g_is_run.

(* the getter: once the stored live_until has passed, the allowance reads zero whatever the
   lifetime of the storage entry *)
Theorem C02_expired_is_zero : forall nw t o sp d,
  stored nw t o sp = Some d -> snd d < nw -> allowance nw t o sp = 0.
Proof. exact expired_reads_zero. Qed.
Print Assumptions C02_expired_is_zero.

(* an allowance never dies early: while it is worth something it is unexpired and its temporary
   entry is stored, live, and lives at least until the allowance's live_until *)
Theorem C02_entry_outlives_allowance : forall c start cs o sp, wf_cfg c = true ->
  let s := run c (init start) cs in
  let d := allowance_data (now s) (tk s) o sp in
  0 < fst d ->
  now s <= snd d /\
  exists en, aentry (tk s) o sp = Some en /\ tval en = d /\ snd d <= tlive en /\ now s <= tlive en.
Proof. exact entry_outlives_allowance. Qed.
Print Assumptions C02_entry_outlives_allowance.

(* a call of a token-moving / allowance-changing entry point that carries no authorisation, or
   lacks the authorisation of its signer (from / spender / owner / operator), has no effect at all *)
Theorem C02_no_auth_no_effect : forall c s cl,
  needs_signer cl = true -> call_auths cl = [] -> step c s cl = (s, Fail, []).
Proof. exact no_auth_no_effect. Qed.
Print Assumptions C02_no_auth_no_effect.
Theorem C02_missing_signer_no_effect : forall c s cl a,
  signer_of cl = Some a -> has_auth (call_auths cl) a = false -> step c s cl = (s, Fail, []).
Proof. exact missing_signer_no_effect. Qed.
Print Assumptions C02_missing_signer_no_effect.

(* Special addresses as parties: NO address is privileged.  Whichever address [a] is - a user, another
   registered contract, the token contract's own address [c_self c] - if it does not authorise the call and has
   granted no live allowance to anybody, no call other than the RWA supervisory operations lowers its balance.
   (Instance a := c_self c: tokens held by the token contract itself cannot be moved from outside.) *)
Theorem C02_unsigned_account_without_allowances_keeps_its_balance : forall c s cl s' v evs a,
  wf_cfg c = true -> state_inv s -> exec c s cl = Ok (s', v, evs) ->
  (match cl with RForcedTransfer _ _ _ | RBurn _ _ | RRecover _ _ => false | _ => true end) = true ->
  has_auth (call_auths cl) a = false ->
  (forall sp, allowance (now s) (tk s) a sp = 0) ->
  balance (tk s) a <= balance (tk s') a.
Proof. exact unsigned_account_keeps_balance_pinned. Qed.
Print Assumptions C02_unsigned_account_without_allowances_keeps_its_balance.

(* The property for the vault's underlying asset token (a second Base token inside the model), including the one
   place where the model lets a contract authorise for itself (the host's invoker rule: the vault paying out the
   assets it holds).  An asset balance decreases only
   - for the payer [from] of a deposit / mint authorised by the operator, the nested asset-token call being
     authorised by the payer itself (operator = from: [sub] must contain it) or by an operator that holds a live
     asset allowance from the payer, and by at most the assets named / returned; or
   - for the vault's own address in a withdraw / redeem authorised by the operator, by at most the assets paid out. *)
Theorem C02_vault_assets_move_only_as_authorised : forall c s cl s' v evs a, wf_cfg c = true -> c_flav c = FVault ->
  exec c s cl = Ok (s', v, evs) -> balance (asset s') a < balance (asset s) a ->
  let debit := balance (asset s) a - balance (asset s') a in
  let pull_ok (sub : list addr) (from op : addr) :=
    if N.eqb op from then has_auth sub from = true
    else has_auth sub op = true /\ exists amt, 0 < amt <= allowance (now s) (asset s) from op in
  match cl with
  | VDeposit au sub assets _ f op => a = f /\ has_auth au op = true /\ pull_ok sub f op /\ debit <= assets
  | VMint au sub _ _ f op => a = f /\ has_auth au op = true /\ pull_ok sub f op /\ debit <= v
  | VWithdraw au assets _ _ op => a = c_self c /\ has_auth au op = true /\ debit <= assets
  | VRedeem au _ _ _ op => a = c_self c /\ has_auth au op = true /\ debit <= v
  | _ => False
  end.
Proof. exact vault_asset_debits. Qed.
Print Assumptions C02_vault_assets_move_only_as_authorised.

(* The executable monitor (the property as a boolean over observations) accepts every run of the
   model, and the model's diff with itself is empty. *)
Theorem C02_monitor_accepts_model : forall c univ start cs,
  wf_cfg c = true -> wf_calls univ cs = true ->
  check (model_trace c univ start cs) = (0%N, 0%N, 0%N).
Proof. exact check_accepts_model. Qed.
Print Assumptions C02_monitor_accepts_model.

(* ---- non-vacuity and sanity of the monitor ---- *)
Definition ex_cfg (f : flavour) : cfg := {| c_host := default_cfg 200; c_flav := f; c_self := 3%N; c_offset := 0 |}.
Definition ex_univ : list addr := [0%N; 1%N; 2%N; 3%N].
Definition ex_calls : list call :=
  [Mint 0%N 100; Approve [0%N] 0%N 1%N 40 120; TransferFrom [1%N] 1%N 0%N 2%N 15; Transfer [2%N] 2%N 1%N None 5;
   Transfer [1%N] 0%N 1%N None 5; TransferFrom [0%N] 1%N 0%N 2%N 1; Advance 20; BurnFrom [1%N] 1%N 0%N 25;
   Advance 1; TransferFrom [1%N] 1%N 0%N 2%N 1; Approve [1%N] 0%N 1%N 7 500; Approve [0%N] 0%N 1%N 7 300;
   Advance 1000; Approve [0%N] 0%N 2%N 9 1122].

Example C02_nonvacuous :
  wf_cfg (ex_cfg FBase) = true /\ wf_calls ex_univ ex_calls = true /\
  let sg := run_g (ex_cfg FBase) (init 100) ghost0 ex_calls in
  balance (tk (fst sg)) 0%N = 60 /\ balance (tk (fst sg)) 2%N = 10 /\ now (fst sg) = 1121 /\
  capd (snd sg) (0%N, 1%N) = 7 /\ lud (snd sg) (0%N, 1%N) = 300 /\ allowance 1121 (tk (fst sg)) 0%N 2%N = 9 /\
  check (model_trace (ex_cfg FBase) ex_univ 100 ex_calls) = (0%N, 0%N, 0%N).
Proof. vm_compute. repeat split. Qed.

(* ---- non-vacuity of the vault-operator and RWA branches ---- *)
Definition cf (f : flavour) (off : Z) : cfg := {| c_host := default_cfg 200; c_flav := f; c_self := 3%N; c_offset := off |}.
Definition vault_calls : list call :=
  [AssetMint 0%N 1000; VDeposit [0%N] [0%N] 100 0%N 0%N 0%N; Approve [0%N] 0%N 1%N 60000 150;
   VRedeem [1%N] 20000 1%N 0%N 1%N; VWithdraw [1%N] 10 2%N 0%N 1%N; VRedeem [0%N] 5000 0%N 0%N 0%N;
   VRedeem [2%N] 1 2%N 0%N 2%N; VWithdraw [0%N] 1 1%N 0%N 1%N; Advance 60; VRedeem [1%N] 1 1%N 0%N 1%N].
Example C02_nonvacuous_vault_operator :
  let sg := run_g (cf FVault 3) (init 100) ghost0 vault_calls in
  map (fun it => is_ok (snd (fst (fst it)))) (t_items (model_trace (cf FVault 3) ex_univ 100 vault_calls))
    = [true; true; true; true; true; true; false; false; true; false] /\
  capd (snd sg) (0%N, 1%N) = allowance 150 (tk (fst sg)) 0%N 1%N /\ 0 < capd (snd sg) (0%N, 1%N) < 40000 /\
  allowance (now (fst sg)) (tk (fst sg)) 0%N 1%N = 0 /\
  check (model_trace (cf FVault 3) ex_univ 100 vault_calls) = (0%N, 0%N, 0%N).
Proof. vm_compute. repeat split. Qed.
Definition rwa_calls : list call :=
  [Mint 0%N 100; Mint 1%N 50; RForcedTransfer 0%N 2%N 30; RBurn 1%N 10; RSetRecovery 1%N 2%N; RRecover 1%N 2%N;
   Approve [0%N] 0%N 1%N 20 150; TransferFrom [1%N] 1%N 0%N 2%N 5; TransferFrom [0%N] 1%N 0%N 2%N 5; Transfer [] 0%N 1%N None 1].
Example C02_nonvacuous_rwa :
  let s := run (cf FRwa 0) (init 100) rwa_calls in
  map (fun it => is_ok (snd (fst (fst it)))) (t_items (model_trace (cf FRwa 0) ex_univ 100 rwa_calls))
    = [true; true; true; true; true; true; true; true; false; false] /\
  balance (tk s) 0%N = 65 /\ balance (tk s) 2%N = 75 /\ allowance 100 (tk s) 0%N 1%N = 15 /\
  check (model_trace (cf FRwa 0) ex_univ 100 rwa_calls) = (0%N, 0%N, 0%N) /\
  (* on any other flavour the supervisory operations do not exist *)
  step (cf FBase 0) (run (cf FBase 0) (init 100) [Mint 0%N 100]) (RForcedTransfer 0%N 2%N 30) = (run (cf FBase 0) (init 100) [Mint 0%N 100], Fail, []).
Proof. vm_compute. repeat split. Qed.

(* ---- the monitor rejects bad traces ---- *)
(* (a) the model's own trace with one item corrupted *)
Definition corrupt (f : item -> item) (k : nat) (t : trace) : trace :=
  {| t_cfg := t_cfg t; t_univ := t_univ t; t_start := t_start t; t_init := t_init t;
     t_items := firstn k (t_items t) ++ match skipn k (t_items t) with [] => [] | it :: r => f it :: r end |}.
Definition ex_trace : trace := model_trace (ex_cfg FBase) ex_univ 100 ex_calls.
Definition set_auths (cl : call) (au : list addr) : call :=
  match cl with
  | Transfer _ f t m a => Transfer au f t m a
  | TransferFrom _ s f t a => TransferFrom au s f t a
  | Approve _ o s a l => Approve au o s a l
  | BurnFrom _ s f a => BurnFrom au s f a
  | c => c
  end.

(* (1) the transfer 2 -> 1 succeeds although only address 1 signed: a debit without the holder *)
Example C02_monitor_rejects_unauthorised_transfer :
  c02_monitor (corrupt (fun '(cl, out, evs, o) => (set_auths cl [1%N], out, evs, o)) 3 ex_trace) = 4%N.
Proof. vm_compute. reflexivity. Qed.
(* (2) transfer_from succeeds with the owner's signature instead of the spender's *)
Example C02_monitor_rejects_transfer_from_without_spender :
  c02_monitor (corrupt (fun '(cl, out, evs, o) => (set_auths cl [0%N], out, evs, o)) 2 ex_trace) = 3%N.
Proof. vm_compute. reflexivity. Qed.
(* (3) a spend that leaves the allowance untouched (observation keeps 40 instead of 25) *)
Example C02_monitor_rejects_unspent_allowance :
  c02_monitor (corrupt (fun '(cl, out, evs, o) =>
     (cl, out, evs, {| o_now := o_now o; o_supply := o_supply o; o_bal := o_bal o;
                       o_allow := [((0%N, 1%N), ((40, 120), 120))]; o_extra := o_extra o |})) 2 ex_trace) = 3%N.
Proof. vm_compute. reflexivity. Qed.
(* (4) an approve for (0 -> 1) that succeeds with the spender's signature only *)
Example C02_monitor_rejects_approve_by_non_owner :
  c02_monitor (corrupt (fun '(cl, out, evs, o) => (set_auths cl [1%N], out, evs, o)) 1 ex_trace) = 2%N.
Proof. vm_compute. reflexivity. Qed.
(* (5) an allowance still worth something after its live_until has passed (ledger 121 > 120) *)
Example C02_monitor_rejects_allowance_alive_after_expiry :
  c02_monitor (corrupt (fun '(cl, out, evs, o) =>
     (cl, out, evs, {| o_now := o_now o; o_supply := o_supply o; o_bal := o_bal o;
                       o_allow := [((0%N, 1%N), ((1, 120), 120))]; o_extra := o_extra o |})) 8 ex_trace) = 9%N.
Proof. vm_compute. reflexivity. Qed.
(* (6) an allowance whose storage entry would die before its live_until *)
Example C02_monitor_rejects_entry_dying_early :
  c02_monitor (corrupt (fun '(cl, out, evs, o) =>
     (cl, out, evs, {| o_now := o_now o; o_supply := o_supply o; o_bal := o_bal o;
                       o_allow := [((0%N, 1%N), ((40, 120), 119))]; o_extra := o_extra o |})) 1 ex_trace) = 2%N.
Proof. vm_compute. reflexivity. Qed.
(* (7) an allowance larger than what was approved minus what was spent *)
Example C02_monitor_rejects_allowance_above_cap :
  c02_monitor (corrupt (fun '(cl, out, evs, o) =>
     (cl, out, evs, {| o_now := o_now o; o_supply := o_supply o; o_bal := o_bal o;
                       o_allow := [((0%N, 1%N), ((41, 120), 120))]; o_extra := o_extra o |})) 1 ex_trace) = 2%N.
Proof. vm_compute. reflexivity. Qed.
(* (8) persistence: an allowance that disappears while time passes although its live_until (120) has
   not passed (ledger 120), and a balance that lapses across an Advance *)
Example C02_monitor_rejects_state_lapsing_over_time :
  c02_monitor (corrupt (fun '(cl, out, evs, o) =>
     (cl, out, evs, {| o_now := o_now o; o_supply := o_supply o; o_bal := o_bal o;
                       o_allow := []; o_extra := o_extra o |})) 6 ex_trace) = 7%N /\
  c02_monitor (corrupt (fun '(cl, out, evs, o) =>
     (cl, out, evs, {| o_now := o_now o; o_supply := o_supply o; o_bal := map (fun x => if N.eqb (fst x) 0%N then (0%N, 0) else x) (o_bal o);
                       o_allow := o_allow o; o_extra := o_extra o |})) 6 ex_trace) = 7%N.
Proof. vm_compute. split; reflexivity. Qed.

(* (b) hand-written traces (from the adversarial review of this check) *)
Definition mk (now sup : Z) (b : list (addr * Z)) (al : list (pkey * (Z * Z * Z))) : obs :=
  {| o_now := now; o_supply := sup; o_bal := b; o_allow := al; o_extra := [] |}.
Definition mkx (now sup : Z) (b : list (addr * Z)) (al : list (pkey * (Z * Z * Z))) (x : list Z) : obs :=
  {| o_now := now; o_supply := sup; o_bal := b; o_allow := al; o_extra := x |}.
Definition B (a b c : Z) : list (addr * Z) := [(0%N, a); (1%N, b); (2%N, c); (3%N, 0)].
Definition TF (f : flavour) (x0 : list Z) (its : list item) : trace :=
  {| t_cfg := cf f 0; t_univ := ex_univ; t_start := 100; t_init := mkx 100 0 (B 0 0 0) [] x0; t_items := its |}.
Definition T := TF FBase [].
Definition mint100 : item := (Mint 0%N 100, Ok 0, [EMint 0%N 100], mk 100 100 (B 100 0 0) []).
Definition appr40 : item := (Approve [0%N] 0%N 1%N 40 120, Ok 0, [EApprove 0%N 1%N 40 120], mk 100 100 (B 100 0 0) [((0%N,1%N),((40,120),120))]).

(* (9) the SIZE of the debit is bounded by the amount the call names (= what the allowance is charged):
   a zero-amount transfer_from / burn_from without any allowance that drains the holder, a spend of 5
   that debits 100, a vault withdraw by an operator returning 0 shares that burns 50 *)
Example C02_monitor_rejects_debit_larger_than_amount :
  c02_why (T [mint100; (TransferFrom [1%N] 1%N 0%N 2%N 0, Ok 0, [ETransfer 0%N 2%N None 0], mk 100 100 (B 50 0 50) [])]) = (2%N, 1%N) /\
  c02_why (T [mint100; (Approve [0%N] 0%N 1%N 5 150, Ok 0, [EApprove 0%N 1%N 5 150], mk 100 100 (B 100 0 0) [((0%N,1%N),((5,150),150))]);
              (TransferFrom [1%N] 1%N 0%N 2%N 5, Ok 0, [ETransfer 0%N 2%N None 5], mk 100 100 (B 0 0 100) [((0%N,1%N),((0,150),150))])]) = (3%N, 1%N) /\
  c02_why (T [mint100; (BurnFrom [1%N] 1%N 0%N 0, Ok 0, [EBurn 0%N 0], mk 100 0 (B 0 0 0) [])]) = (2%N, 1%N) /\
  c02_why (TF FVault [0;0;0;0] [ (AssetMint 0%N 100, Ok 0, [], mkx 100 0 (B 0 0 0) [] [100;0;0;0]);
      (VDeposit [0%N] [0%N] 100 0%N 0%N 0%N, Ok 100, [EDeposit 0%N 0%N 0%N 100 100], mkx 100 100 (B 100 0 0) [] [0;0;0;100]);
      (VWithdraw [1%N] 0 1%N 0%N 1%N, Ok 0, [EWithdraw 1%N 1%N 0%N 0 0], mkx 100 50 (B 50 0 0) [] [0;50;0;50]) ]) = (3%N, 1%N) /\
  (* also for a holder-signed transfer *)
  c02_why (T [mint100; (Transfer [0%N] 0%N 2%N None 5, Ok 0, [ETransfer 0%N 2%N None 5], mk 100 100 (B 0 0 100) [])]) = (2%N, 1%N).
Proof. vm_compute. repeat split. Qed.
(* (10) the supervisory exemption covers the RWA flavour, the named account and the named amount only *)
Example C02_monitor_rejects_supervisory_overreach :
  c02_why (T [mint100; (RForcedTransfer 1%N 2%N 0, Ok 0, [], mk 100 100 (B 0 0 100) [])]) = (2%N, 1%N) /\
  c02_why (T [mint100; (RForcedTransfer 0%N 2%N 100, Ok 0, [ETransfer 0%N 2%N None 100], mk 100 100 (B 0 0 100) [])]) = (2%N, 1%N) /\
  c02_why (TF FRwa [0;0;0;0;0;0;0;0;0] [ (Mint 0%N 100, Ok 0, [EMint 0%N 100], mkx 100 100 (B 100 0 0) [] [0;0;0;0;0;0;0;0;0]);
      (Mint 2%N 100, Ok 0, [EMint 2%N 100], mkx 100 200 (B 100 0 100) [] [0;0;0;0;0;0;0;0;0]);
      (RBurn 1%N 0, Ok 0, [EBurn 1%N 0], mkx 100 0 (B 0 0 0) [] [0;0;0;0;0;0;0;0;0]) ]) = (3%N, 1%N) /\
  c02_why (TF FRwa [0;0;0;0;0;0;0;0;0] [ (Mint 0%N 100, Ok 0, [EMint 0%N 100], mkx 100 100 (B 100 0 0) [] [0;0;0;0;0;0;0;0;0]);
      (RBurn 0%N 10, Ok 0, [EBurn 0%N 10], mkx 100 60 (B 60 0 0) [] [0;0;0;0;0;0;0;0;0]) ]) = (2%N, 1%N) /\
  (* the legitimate one is accepted *)
  c02_why (TF FRwa [0;0;0;0;0;0;0;0;0] [ (Mint 0%N 100, Ok 0, [EMint 0%N 100], mkx 100 100 (B 100 0 0) [] [0;0;0;0;0;0;0;0;0]);
      (RBurn 0%N 10, Ok 0, [EBurn 0%N 10], mkx 100 90 (B 90 0 0) [] [0;0;0;0;0;0;0;0;0]) ]) = (0%N, 0%N).
Proof. vm_compute. repeat split. Qed.
(* (11) the public getters: allowance() must answer what is observed - in particular zero once live_until has passed *)
Example C02_monitor_rejects_wrong_getter_answers :
  c02_why (T [mint100; appr40; (Advance 21, Ok 0, [], mk 121 100 (B 100 0 0) []);
              (QAllowance 0%N 1%N, Ok 40, [], mk 121 100 (B 100 0 0) [])]) = (4%N, 6%N) /\
  c02_why (T [mint100; appr40; (QAllowance 0%N 1%N, Ok 40, [], mk 100 100 (B 100 0 0) [((0%N,1%N),((40,120),120))])]) = (0%N, 0%N) /\
  c02_why (T [mint100; (QBalance 0%N, Ok 99, [], mk 100 100 (B 100 0 0) [])]) = (2%N, 6%N).
Proof. vm_compute. repeat split. Qed.
(* (12) negative (sentinel) observations, an account outside the universe, a clock that moves inside a
   call (full spend observed 10 ledgers after expiry), credits appearing across an Advance or in a failing call *)
Example C02_monitor_rejects_malformed_or_drifting_observations :
  c02_why (T [mint100; (Transfer [0%N] 0%N 2%N None 5, Ok 0, [ETransfer 0%N 2%N None 5], mk 100 100 (B (-7777777) 0 5) [])]) = (2%N, 6%N) /\
  c02_why (T [mint100; appr40; (QSupply, Fail, [], mk 100 (-7777777) (B 100 0 0) [((0%N,1%N),((40,120),120))])]) = (3%N, 6%N) /\
  c02_why {| t_cfg := cf FBase 0; t_univ := [1%N; 2%N]; t_start := 100; t_init := mk 100 0 [(1%N,0);(2%N,0)] [];
             t_items := [ (Mint 0%N 100, Ok 0, [EMint 0%N 100], mk 100 100 [(1%N,0);(2%N,0)] []) ] |} = (1%N, 6%N) /\
  c02_why (T [mint100; appr40; (TransferFrom [1%N] 1%N 0%N 2%N 40, Ok 0, [ETransfer 0%N 2%N None 40], mk 130 100 (B 60 0 40) [((0%N,1%N),((0,120),120))])]) = (3%N, 6%N) /\
  c02_why (T [mint100; (Advance 5, Ok 0, [], mk 105 7 (B 100 900 0) [])]) = (2%N, 6%N) /\
  c02_why (T [mint100; (Transfer [1%N] 0%N 2%N None 5, Fail, [], mk 100 100 (B 100 0 5) [])]) = (2%N, 6%N) /\
  c02_why {| t_cfg := cf FBase 0; t_univ := ex_univ; t_start := 100; t_init := mk 100 0 (B 0 0 0) [((0%N,1%N),((40,120),120))]; t_items := [] |} = (1%N, 9%N).
Proof. vm_compute. repeat split. Qed.

(* ---- follow-up: special addresses as parties ---- *)
(* the token contract's own address (3) and another contract that authorises as the direct invoker (5) hold
   tokens and allowances: the contract's own tokens cannot be moved from outside whoever signs; the other
   contract transfers, approves, spends an allowance exactly when it is among the authorising addresses *)
Definition sp_univ : list addr := [0%N; 1%N; 2%N; 3%N; 4%N; 5%N].
Definition sp_calls : list call :=
  [Mint 3%N 100; Mint 5%N 70; Mint 0%N 40; Transfer [] 3%N 0%N None 10; Transfer [0%N; 1%N; 2%N] 3%N 0%N None 10;
   Burn [0%N] 3%N 5; Approve [1%N] 3%N 1%N 10 150; Approve [0%N] 0%N 3%N 20 150; TransferFrom [0%N] 3%N 0%N 1%N 5;
   Transfer [0%N] 5%N 0%N None 1; Transfer [5%N] 5%N 3%N None 20; Transfer [5%N] 0%N 1%N None 1; Transfer [5%N; 0%N] 0%N 1%N None 1;
   Approve [2%N] 5%N 2%N 30 150; Approve [5%N] 5%N 2%N 30 150; TransferFrom [2%N] 2%N 5%N 3%N 30;
   Approve [0%N] 0%N 5%N 15 150; TransferFrom [0%N] 5%N 0%N 1%N 5; TransferFrom [5%N] 5%N 0%N 5%N 15; TransferFrom [5%N] 5%N 0%N 1%N 1].
Example C02_nonvacuous_special_parties :
  let s := run (ex_cfg FBase) (init 100) sp_calls in
  map (fun it => is_ok (snd (fst (fst it)))) (t_items (model_trace (ex_cfg FBase) sp_univ 100 sp_calls))
    = [true; true; true; false; false; false; false; true; false;
       false; true; false; true; false; true; true; true; false; true; false] /\
  balance (tk s) 3%N = 150 /\ balance (tk s) 5%N = 35 /\ allowance 100 (tk s) 0%N 3%N = 20 /\ allowance 100 (tk s) 0%N 5%N = 0 /\
  wf_calls sp_univ sp_calls = true /\
  check (model_trace (ex_cfg FBase) sp_univ 100 sp_calls) = (0%N, 0%N, 0%N).
Proof. vm_compute. repeat split. Qed.

(* the asset-side theorem is not vacuous: a deposit pulls the payer's assets, a redeem pays out the vault's *)
Example C02_nonvacuous_vault_assets :
  let c := cf FVault 0 in
  let s1 := run c (init 100) [AssetMint 0%N 1000] in
  let s2 := run c (init 100) [AssetMint 0%N 1000; VDeposit [0%N] [0%N] 100 0%N 0%N 0%N] in
  let s3 := run c (init 100) [AssetMint 0%N 1000; VDeposit [0%N] [0%N] 100 0%N 0%N 0%N; VRedeem [0%N] 40 1%N 0%N 0%N] in
  balance (asset s2) 0%N < balance (asset s1) 0%N /\ balance (asset s3) 3%N < balance (asset s2) 3%N /\
  balance (asset s3) 3%N = 60 /\ balance (asset s3) 1%N = 40.
Proof. vm_compute. repeat split; reflexivity. Qed.

(* (13) the monitor has no privileged address either: tokens leaving the token contract's own address (3)
   without any authorisation, with the signatures of all users, or "spent" by the contract as spender without its
   authorisation; an allowance appearing on the contract's own address without its authorisation *)
Definition B4 (a b c d : Z) : list (addr * Z) := [(0%N, a); (1%N, b); (2%N, c); (3%N, d)].
Definition mint3 : item := (Mint 3%N 100, Ok 0, [EMint 3%N 100], mk 100 100 (B4 0 0 0 100) []).
Example C02_monitor_rejects_unauthorised_moves_of_the_contracts_own_tokens :
  c02_why (T [mint3; (Transfer [] 3%N 0%N None 10, Ok 0, [ETransfer 3%N 0%N None 10], mk 100 100 (B4 10 0 0 90) [])]) = (2%N, 1%N) /\
  c02_why (T [mint3; (Transfer [0%N; 1%N; 2%N] 3%N 0%N None 10, Ok 0, [ETransfer 3%N 0%N None 10], mk 100 100 (B4 10 0 0 90) [])]) = (2%N, 1%N) /\
  c02_why (T [mint3; (Approve [0%N] 3%N 0%N 10 150, Ok 0, [EApprove 3%N 0%N 10 150], mk 100 100 (B4 0 0 0 100) [((3%N,0%N),((10,150),150))])]) = (2%N, 2%N) /\
  c02_why (T [mint100; (Approve [0%N] 0%N 3%N 40 150, Ok 0, [EApprove 0%N 3%N 40 150], mk 100 100 (B 100 0 0) [((0%N,3%N),((40,150),150))]);
              (TransferFrom [] 3%N 0%N 1%N 5, Ok 0, [ETransfer 0%N 1%N None 5], mk 100 100 (B 95 5 0) [((0%N,3%N),((35,150),150))])]) = (3%N, 1%N) /\
  (* the legitimate ones are accepted: the contract among the authorising addresses (invoker rule) *)
  c02_why (T [mint3; (Transfer [3%N] 3%N 0%N None 10, Ok 0, [ETransfer 3%N 0%N None 10], mk 100 100 (B4 10 0 0 90) [])]) = (0%N, 0%N).
Proof. vm_compute. repeat split. Qed.
