(* C03 - Smart-account authorization is sound and follows rule precedence.
   Only pinned statements, each closed by [exact] of a lemma proved in Proofs/, followed by
   Print Assumptions, and Examples.

   Vocabulary (Model/SmartAccount.v): [run cfg init calls] = the state after any sequence of
   calls (construct / add, update, remove rule / add, remove signer / add, remove policy /
   advance ledger / check_auth ...); [a_rules] = the stored rules, in id order;
   [do_check_auth O a now auths sigs cs] = the model of do_check_auth: O = the answers of the
   verifier and policy contracts (arbitrary functions, [None] = the contract traps), auths = the
   addresses whose own authorisation is attached (Delegated signers), sigs = the supplied
   signature map, cs = the batch of contexts; the result is the log of surviving collaborator calls.
   [before r' r] (Run/C03.v) = r' is tried before r: type-specific before Default, then larger
   (= newer) id first. *)
From SC Require Import Lib.Prelude Lib.Int Lib.Host Model.SmartAccount
  Proofs.SmartAccount Proofs.SmartAccountInv Proofs.SmartAccountLimits Run.C03 Proofs.C03Monitor Proofs.C03Table Proofs.C03Final Proofs.C03Threshold Proofs.C03Asked Proofs.C03AskedReach.
From Coq Require Import Sorted.

(* Soundness. In every reachable state, at every ledger position, for every supplied signature
   map and every batch of contexts: the check succeeds only if every supplied signature verifies
   and every context is covered by a stored, unexpired rule of the matching type (or Default) whose
   requirement is met by the supplied signers - all of its signers when it has no policies,
   otherwise acceptance (can_enforce) by every one of its policies, which are handed only the
   rule's own signers that were supplied. *)
Theorem C03_sound : forall cfg calls O now auths sigs cs log,
  let a := s_acct (run cfg init calls) in
  do_check_auth O a now auths sigs cs = Ok log ->
  (forall x, In x sigs ->
     match x with
     | (Delegated d, _) => has_auth auths d = true
     | (External v k, sg) => o_verify O v k sg = Some true
     end) /\
  forall c, In c cs -> exists r,
    In r (a_rules a) /\
    (r_type r = ctx_type c \/ r_type r = TDefault) /\
    match r_valid r with Some u => now <= u | None => True end /\
    ((r_policies r = [] /\ forall s, In s (r_signers r) -> In s (map fst sigs)) \/
     (r_policies r <> [] /\ forall p, In p (r_policies r) ->
        o_can O p c (filter (fun s => mem_s s (map fst sigs)) (r_signers r)) r = Some true)).
Proof. exact sound_reachable. Qed.
Print Assumptions C03_sound.

(* Precedence. When the check succeeds, every context c is decided by a rule r that is stored,
   applicable, unexpired, has its requirement met, and such that NO applicable unexpired rule
   that is tried before it (type-specific before Default, newest first) has its requirement met.
   ([decides] is exactly that conjunction; it is unfolded in C03_decides_unfolded below.) *)
Theorem C03_precedence : forall cfg calls O now auths sigs cs log,
  let a := s_acct (run cfg init calls) in
  do_check_auth O a now auths sigs cs = Ok log ->
  exists rs, Forall2 (decides O a now (map fst sigs)) cs rs /\
    filter is_enf log = concat (map (fun cr => enforce_calls (map fst sigs) (fst cr) (snd cr)) (combine cs rs)) /\
    accepted_seq O [] (concat (map (fun cr => enforce_calls (map fst sigs) (fst cr) (snd cr)) (combine cs rs))) = true.
Proof. exact precedence_reachable. Qed.
Print Assumptions C03_precedence.

Theorem C03_decides_unfolded : forall O a now supplied c r,
  decides O a now supplied c r <->
  (In r (a_rules a) /\
   (r_type r = ctx_type c \/ r_type r = TDefault) /\
   match r_valid r with Some u => now <= u | None => True end /\
   ((r_policies r = [] /\ forall s, In s (r_signers r) -> In s supplied) \/
    (r_policies r <> [] /\ forall p, In p (r_policies r) ->
       o_can O p c (filter (fun s => mem_s s supplied) (r_signers r)) r = Some true)) /\
   forall r', In r' (a_rules a) ->
     (r_type r' = ctx_type c \/ r_type r' = TDefault) ->
     match r_valid r' with Some u => now <= u | None => True end ->
     before r' r = true ->
     ~ ((r_policies r' = [] /\ forall s, In s (r_signers r') -> In s supplied) \/
        (r_policies r' <> [] /\ forall p, In p (r_policies r') ->
           o_can O p c (filter (fun s => mem_s s supplied) (r_signers r')) r' = Some true))).
Proof. exact decides_unfolded. Qed.
Print Assumptions C03_decides_unfolded.

(* the deciding rule is unique: precedence is a total order on the stored rules *)
Theorem C03_deciding_rule_unique : forall cfg calls O now supplied c r1 r2,
  let a := s_acct (run cfg init calls) in
  decides O a now supplied c r1 -> decides O a now supplied c r2 -> r1 = r2.
Proof. exact decides_unique_reachable. Qed.
Print Assumptions C03_deciding_rule_unique.

(* Enforce log. A successful check calls nothing but verify / can_enforce / enforce, and its
   enforce calls are exactly, in order: for each context, in the order of the batch, one call per
   policy of the rule deciding that context (in the rule's policy order), with that context, the
   rule's supplied signers and the rule as arguments - once per context, nothing else. *)
Theorem C03_enforce_log : forall cfg calls O now auths sigs cs log,
  let a := s_acct (run cfg init calls) in
  do_check_auth O a now auths sigs cs = Ok log ->
  forallb (fun e => match e with EVerify _ _ _ | ECan _ _ _ _ | EEnforce _ _ _ _ => true | _ => false end) log = true /\
  exists rs, Forall2 (decides O a now (map fst sigs)) cs rs /\
    filter (fun e => match e with EEnforce _ _ _ _ => true | _ => false end) log
    = concat (map (fun cr =>
                map (fun p => EEnforce p (fst cr) (filter (fun s => mem_s s (map fst sigs)) (r_signers (snd cr))) (snd cr))
                    (r_policies (snd cr)))
              (combine cs rs)).
Proof. exact enforce_log_reachable. Qed.
Print Assumptions C03_enforce_log.

(* "Acceptance by every one of its policies" means every policy IS ASKED, whatever the context: when
   the check succeeds, for every context c and the rule r deciding it, the log shows the can_enforce
   call of EVERY policy of r with exactly (c, r's own supplied signers, r), and its answer was true.
   The statement quantifies over all contexts - a call of a contract that is itself one of r's
   policy contracts, a verifier, a signer's address or the account is no exception. *)
Theorem C03_every_policy_of_the_deciding_rule_is_asked : forall cfg calls O now auths sigs cs log,
  let a := s_acct (run cfg init calls) in
  do_check_auth O a now auths sigs cs = Ok log ->
  exists rs, Forall2 (decides O a now (map fst sigs)) cs rs /\
    forall c r, In (c, r) (combine cs rs) -> forall p, In p (r_policies r) ->
      In (ECan p c (filter (fun s => mem_s s (map fst sigs)) (r_signers r)) r) log /\
      o_can O p c (filter (fun s => mem_s s (map fst sigs)) (r_signers r)) r = Some true.
Proof. exact all_policies_asked_reachable. Qed.
Print Assumptions C03_every_policy_of_the_deciding_rule_is_asked.

(* No enforcement without consultation (any account state): every enforce call in the log of a
   successful check has its can_enforce call, with identical arguments, in the same log. *)
Theorem C03_no_enforce_without_can_enforce : forall O a now auths sigs cs log,
  do_check_auth O a now auths sigs cs = Ok log ->
  forall p c au r, In (EEnforce p c au r) log -> In (ECan p c au r) log.
Proof. exact enforced_was_asked. Qed.
Print Assumptions C03_no_enforce_without_can_enforce.

(* Signers not named by a rule never count: for the rule (requirement and the signer list handed
   to its policies) ... *)
Theorem C03_foreign_signers_dont_count_rule : forall O c r supplied extra,
  (forall s, In s extra -> ~ In s (r_signers r)) ->
  (((r_policies r = [] /\ forall s, In s (r_signers r) -> In s (supplied ++ extra)) \/
    (r_policies r <> [] /\ forall p, In p (r_policies r) ->
       o_can O p c (filter (fun s => mem_s s (supplied ++ extra)) (r_signers r)) r = Some true))
   <->
   ((r_policies r = [] /\ forall s, In s (r_signers r) -> In s supplied) \/
    (r_policies r <> [] /\ forall p, In p (r_policies r) ->
       o_can O p c (filter (fun s => mem_s s supplied) (r_signers r)) r = Some true))) /\
  filter (fun s => mem_s s (supplied ++ extra)) (r_signers r) = filter (fun s => mem_s s supplied) (r_signers r).
Proof. exact requirement_foreign. Qed.
Print Assumptions C03_foreign_signers_dont_count_rule.

(* ... and for the whole check: adding verifying signatures of signers that no stored rule names
   changes neither the verdict nor the enforce calls. *)
Theorem C03_foreign_signers_dont_count : forall O a now auths sigs extra cs,
  (forall x, In x extra ->
     match x with
     | (Delegated d, _) => has_auth auths d = true
     | (External v k, sg) => o_verify O v k sg = Some true
     end) ->
  (forall r x, In r (a_rules a) -> In x extra -> ~ In (fst x) (r_signers r)) ->
  match do_check_auth O a now auths sigs cs, do_check_auth O a now auths (sigs ++ extra) cs with
  | Ok l, Ok l' => filter is_enf l' = filter is_enf l
  | Fail, Fail => True
  | _, _ => False
  end.
Proof. exact foreign_signers_dont_count. Qed.
Print Assumptions C03_foreign_signers_dont_count.

(* Completeness. If none of the can_enforce hooks the check can consult traps (those of the stored,
   applicable, unexpired rules, asked about the contexts of the batch with the rule's own supplied
   signers - a trapping hook aborts the whole invocation, see C03_trapping_hook_never_succeeds),
   all supplied signatures verify and every context
   has SOME stored, applicable, unexpired rule whose requirement is met, then every context has a
   deciding rule, and the check succeeds if the enforce hooks of the deciding rules accept one after
   the other ([accepted_seq]: each enforce call sees the effects of the calls before it in the same
   check - hooks are stateful) - and fails only if one of those hooks refuses. *)
Theorem C03_complete : forall cfg calls O now auths sigs cs,
  let a := s_acct (run cfg init calls) in
  (forall c r p, In c cs -> In r (a_rules a) -> (r_type r = ctx_type c \/ r_type r = TDefault) ->
     match r_valid r with Some u => now <= u | None => True end -> In p (r_policies r) ->
     o_can O p c (filter (fun s => mem_s s (map fst sigs)) (r_signers r)) r <> None) ->
  (forall x, In x sigs ->
     match x with
     | (Delegated d, _) => has_auth auths d = true
     | (External v k, sg) => o_verify O v k sg = Some true
     end) ->
  (forall c, In c cs -> exists r,
     In r (a_rules a) /\ (r_type r = ctx_type c \/ r_type r = TDefault) /\
     match r_valid r with Some u => now <= u | None => True end /\
     ((r_policies r = [] /\ forall s, In s (r_signers r) -> In s (map fst sigs)) \/
      (r_policies r <> [] /\ forall p, In p (r_policies r) ->
         o_can O p c (filter (fun s => mem_s s (map fst sigs)) (r_signers r)) r = Some true))) ->
  exists rs, Forall2 (decides O a now (map fst sigs)) cs rs /\
    let calls := concat (map (fun cr => enforce_calls (map fst sigs) (fst cr) (snd cr)) (combine cs rs)) in
    (accepted_seq O [] calls = true -> exists log, do_check_auth O a now auths sigs cs = Ok log) /\
    (accepted_seq O [] calls = false -> do_check_auth O a now auths sigs cs = Fail).
Proof. exact complete_reachable. Qed.
Print Assumptions C03_complete.

(* The rule table behind all this, in every reachable state: ids are handed out in strictly
   increasing order (so "larger id" = "added later") and never reused, and the per-type id list
   that do_check_auth scans holds exactly the stored rules of that type, oldest first. *)
Theorem C03_rule_table_invariant : forall cfg calls,
  let a := s_acct (run cfg init calls) in
  StronglySorted Z.lt (map r_id (a_rules a)) /\
  (forall r, In r (a_rules a) -> 0 <= r_id r < a_next a) /\
  (forall t, ids_of a t = map r_id (filter (fun r => ctype_eqb (r_type r) t) (a_rules a))) /\
  (forall t, get_context_rules a t = Ok (filter (fun r => ctype_eqb (r_type r) t) (a_rules a))).
Proof. exact table_invariant_reachable. Qed.
Print Assumptions C03_rule_table_invariant.

(* ... and therefore the list scanned for a context of type t is, literally, the unexpired rules
   of type t, newest first, followed by the unexpired Default rules, newest first. *)
Theorem C03_scan_order : forall cfg calls now t,
  let a := s_acct (run cfg init calls) in
  get_valid_context_rules a now t =
    Ok (rev (filter (fun r => negb (expired now r)) (filter (fun r => ctype_eqb (r_type r) t) (a_rules a))) ++
        rev (filter (fun r => negb (expired now r)) (filter (fun r => ctype_eqb (r_type r) TDefault) (a_rules a)))).
Proof. exact scan_order_reachable. Qed.
Print Assumptions C03_scan_order.

(* "Rule sets up to the documented limits": whatever the history, the table holds at most
   max_rules rules (and the stored count is their number); every rule has duplicate-free signers
   and policies within max_signers / max_policies and is never empty - so a rule without policies
   names at least one signer and cannot be satisfied vacuously; and no two stored rules have the
   same type, signer set and policy set. *)
Theorem C03_limits : forall c calls,
  let a := s_acct (run c init calls) in
  zlen (a_rules a) <= Z.max 0 (max_rules c) /\
  count_of a = zlen (a_rules a) /\
  (forall r, In r (a_rules a) ->
     NoDup (r_signers r) /\ NoDup (r_policies r) /\
     zlen (r_signers r) <= max_signers c /\ zlen (r_policies r) <= max_policies c /\
     (r_signers r <> [] \/ r_policies r <> [])) /\
  (forall r1 r2, In r1 (a_rules a) -> In r2 (a_rules a) ->
     r_type r1 = r_type r2 ->
     (forall s, In s (r_signers r1) <-> In s (r_signers r2)) ->
     (forall p, In p (r_policies r1) <-> In p (r_policies r2)) -> r1 = r2).
Proof. exact limits_reachable. Qed.
Print Assumptions C03_limits.

(* The rule table changes only at construction, or through an entry point of the account whose
   own authorisation check - do_check_auth on the context "call of the account itself" - succeeded. *)
Theorem C03_table_changes_only_when_authorised : forall c st cl,
  s_acct (fst (step c st cl)) <> s_acct st ->
  (exists signers policies, cl = Construct signers policies /\ s_deployed st = false) \/
  (exists sigs auths op l, cl = Admin sigs auths op /\
     do_check_auth (oracles_of (s_modes st)) (s_acct st) (s_now st) auths sigs [CCall self (fn_of op)] = Ok l).
Proof. exact table_changes_only_when_authorised. Qed.
Print Assumptions C03_table_changes_only_when_authorised.

(* Only valid_until lapses.  Advancing the ledger by any amount leaves the table as it is, and a rule
   that decides a context keeps deciding it (same supplied signers, same collaborator answers) at
   every later ledger up to and including its own valid_until - forever when valid_until is None. *)
Theorem C03_only_valid_until_lapses : forall c st n O supplied cx r,
  decides O (s_acct st) (s_now st) supplied cx r ->
  0 <= n -> match r_valid r with Some u => s_now st + n <= u | None => True end ->
  let st' := fst (step c st (Advance n)) in
  decides O (s_acct st') (s_now st + n) supplied cx r.
Proof. exact only_valid_until_lapses. Qed.
Print Assumptions C03_only_valid_until_lapses.

(* With the shipped simple-threshold policy wired in (policy [real_thr] of the runs, modelled from
   policies/simple_threshold.rs: installed threshold per rule, 1 <= threshold <= signers at
   installation): a context decided by a rule that carries it is m-of-n - at least
   threshold >= 1 of the rule's own signers are among the supplied (hence verified) signers. *)
Theorem C03_threshold_rule_is_m_of_n : forall c calls now auths sigs cs log,
  let st := run c init calls in
  do_check_auth (oracles_of (s_modes st)) (s_acct st) now auths sigs cs = Ok log ->
  exists rs, Forall2 (decides (oracles_of (s_modes st)) (s_acct st) now (map fst sigs)) cs rs /\
    forall r, In r rs -> In real_thr (r_policies r) ->
      exists t, thr_of (s_modes st) (r_id r) = Some t /\ 1 <= t /\
                t <= zlen (filter (fun s => mem_s s (map fst sigs)) (r_signers r)).
Proof. exact threshold_m_of_n. Qed.
Print Assumptions C03_threshold_rule_is_m_of_n.

(* What the monitor expects is what the model does, for any well-formed table and any answers of
   the mocks: refusal when the property demands it, refusal when a consulted can_enforce hook traps
   (never a success), success with exactly the expected enforce calls otherwise. *)
Theorem C03_monitor_expectation_correct : forall a M now auths sigs cs,
  wf a ->
  match expectation (a_rules a) M now auths sigs cs with
  | XFail => do_check_auth (oracles_of M) a now auths sigs cs = Fail
  | XSilent => do_check_auth (oracles_of M) a now auths sigs cs = Fail
  | XOk enf => exists l, do_check_auth (oracles_of M) a now auths sigs cs = Ok l /\ filter is_enforce l = enf
  end.
Proof. exact expectation_correct. Qed.
Print Assumptions C03_monitor_expectation_correct.

(* Self-administration is not refused spuriously: in every reachable state, when the
   preconditions of an entry point hold ([op_ok]: limits, duplicates, fingerprints, policy
   installation, from the stored table) the entry point itself succeeds - so with C03_complete a
   properly authorised, valid edit of the table goes through. *)
Theorem C03_entry_point_succeeds : forall M c a now op maxid,
  wf a -> wf2 c a -> maxid + 1 = a_next a ->
  op_ok c (a_rules a) M now maxid op = true ->
  exists res, run_op (oracles_of M) c a now op = Ok res.
Proof. exact op_ok_model. Qed.
Print Assumptions C03_entry_point_succeeds.

(* The executable monitor of Run/C03.v (the property as a boolean over the implementation's
   observations) accepts every run of the model, for every call sequence, and the model agrees
   with itself; it is what is evaluated on the real contract's traces. *)
Theorem C03_monitor_accepts_model : forall (c : cfg) (types : list ctype) (calls : list call),
  (* the observation lists the ids of at least one type, and of every type a rule is created with
     (a boolean on the inputs; the harness observes all 15 types it ever uses) *)
  covers types calls = true ->
  check (observe_model c types calls) = (0%N, 0%N, 0%N).
Proof. exact check_accepts_model. Qed.
Print Assumptions C03_monitor_accepts_model.

(* ------------------------------------------------------------------------- *)
(* Non-vacuity: a reachable state with three rules where precedence matters.  *)
(* ------------------------------------------------------------------------- *)
Definition cfg15 : cfg := {| max_rules := 15; max_signers := 15; max_policies := 5 |}.
Definition A0 : signer := Delegated 0.
Definition A1 : signer := Delegated 1.
Definition X0 : signer := External 0 0.
Definition admin_sig : list (signer * sigc) := [(A0, SGood)].
Definition hist : list call :=
  [ Advance 10;
    Construct [A0] [];                                                       (* rule 0: Default, [A0] *)
    Admin admin_sig [0%N] (AddRule (TCall 1) 1%N (Some 12) [A1; X0] []);      (* rule 1: call 1, both signers, until 12 *)
    Admin admin_sig [0%N] (AddRule (TCall 1) 2%N None [X0] [(2%N, 7%N)]);     (* rule 2: call 1, policy 2 *)
    SetMode 2%N 2 (mkMode true true (PMin 1) PTrue) ].                        (* policy 2 on rule 2: needs >= 1 signer *)
Definition st_ex : state := run cfg15 init hist.
Definition O_ex : oracles := oracles_of (s_modes st_ex).

Example C03_ex_state : map r_id (a_rules (s_acct st_ex)) = [0; 1; 2] /\ ids_of (s_acct st_ex) (TCall 1) = [1; 2].
Proof. vm_compute. split; reflexivity. Qed.

(* newest typed rule (2) wins when its policy accepts; its policy is enforced once *)
Example C03_ex_newest_first :
  do_check_auth O_ex (s_acct st_ex) 10 [1%N] [(A1, SGood); (X0, SGood)] [CCall 1 0]
  = Ok [EVerify 0 0 SGood;
        ECan 2%N (CCall 1 0) [X0] (mkRule 2 (TCall 1) 2%N None [X0] [2%N]);
        EEnforce 2%N (CCall 1 0) [X0] (mkRule 2 (TCall 1) 2%N None [X0] [2%N])].
Proof. vm_compute. reflexivity. Qed.
(* without X0 the policy of rule 2 refuses, rule 1 needs X0 too, the Default rule needs A0: refused *)
Example C03_ex_subset_refused :
  do_check_auth O_ex (s_acct st_ex) 10 [1%N] [(A1, SGood)] [CCall 1 0] = Fail.
Proof. vm_compute. reflexivity. Qed.
(* typed rules are tried before Default, and Default covers what they do not *)
Example C03_ex_default_fallback :
  do_check_auth O_ex (s_acct st_ex) 10 [0%N] [(A0, SGood)] [CCall 1 0; CCreate 1]
  = Ok [ECan 2%N (CCall 1 0) [] (mkRule 2 (TCall 1) 2%N None [X0] [2%N])].
Proof. vm_compute. reflexivity. Qed.
(* a bad signature refuses even though the rule would be satisfied *)
Example C03_ex_bad_signature :
  do_check_auth O_ex (s_acct st_ex) 10 [0%N] [(A0, SGood); (X0, SBad)] [CCall 1 0] = Fail.
Proof. vm_compute. reflexivity. Qed.
(* rule 1 is live at 12 and expired at 13 *)
Example C03_ex_expiry :
  is_ok (do_check_auth (mkOracles (fun _ _ _ => Some true) (fun _ _ _ _ => Some false) (fun _ _ _ _ _ => true) (fun _ _ _ => true) (fun _ _ => true))
           (s_acct st_ex) 12 [1%N] [(A1, SGood); (X0, SGood)] [CCall 1 0]) = true /\
  is_ok (do_check_auth (mkOracles (fun _ _ _ => Some true) (fun _ _ _ _ => Some false) (fun _ _ _ _ _ => true) (fun _ _ _ => true) (fun _ _ => true))
           (s_acct st_ex) 13 [1%N] [(A1, SGood); (X0, SGood)] [CCall 1 0]) = false.
Proof. vm_compute. split; reflexivity. Qed.
(* the hypotheses of C03_complete are satisfiable: O_ex never traps *)
Example C03_ex_no_trap : forall p c au r, o_can O_ex p c au r <> None.
Proof.
  intros p c au r. unfold O_ex. cbn [o_can oracles_of]. unfold can_answer.
  destruct (N.eqb p real_thr); [discriminate|].
  destruct (N.eqb p real_spend).
  { assert (E : md_spend (s_modes st_ex) = []) by (vm_compute; reflexivity). rewrite E. cbn. discriminate. }
  assert (H : forall q id, m_can (mode_of (s_modes st_ex) q id) = PTrue \/ m_can (mode_of (s_modes st_ex) q id) = PMin 1).
  { intros q id. unfold mode_of. vm_compute md_table. cbn [mtable_get]. destruct (N.eqb q 2 && (id =? 2)); cbn; auto. }
  destruct (H p (r_id r)) as [-> | ->]; cbn; discriminate.
Qed.

(* the real threshold policy: a 2-of-3 rule on calls of contract 2 *)
Definition X1 : signer := External 1 1.
Definition hist_thr : list call :=
  hist ++ [ Admin admin_sig [0%N] (AddRule (TCall 2) 3%N None [A1; X0; X1] [(real_thr, 0%N)]);   (* threshold 0: refused *)
            Admin admin_sig [0%N] (AddRule (TCall 2) 3%N None [A1; X0; X1] [(real_thr, 4%N)]);   (* 4 of 3: refused *)
            Admin admin_sig [0%N] (AddRule (TCall 2) 3%N None [A1; X0; X1] [(real_thr, 2%N)]) ].
Definition st_thr : state := run cfg15 init hist_thr.
Example C03_ex_threshold_installed :
  map r_id (a_rules (s_acct st_thr)) = [0; 1; 2; 3] /\ thr_of (s_modes st_thr) 3 = Some 2.
Proof. vm_compute. split; reflexivity. Qed.
Example C03_ex_threshold_2_of_3 :
  is_ok (do_check_auth (oracles_of (s_modes st_thr)) (s_acct st_thr) 10 [1%N] [(A1, SGood)] [CCall 2 0]) = false /\
  is_ok (do_check_auth (oracles_of (s_modes st_thr)) (s_acct st_thr) 10 [1%N] [(A1, SGood); (A0, SGood)] [CCall 2 0]) = false /\
  is_ok (do_check_auth (oracles_of (s_modes st_thr)) (s_acct st_thr) 10 [1%N] [(A1, SGood); (X1, SGood)] [CCall 2 0]) = true /\
  is_ok (do_check_auth (oracles_of (s_modes st_thr)) (s_acct st_thr) 10 [1%N] [(A1, SGood); (X1, SBad)] [CCall 2 0]) = false.
Proof. vm_compute. repeat split. Qed.

(* the real spending-limit policy: limit 100 per 20 ledgers on transfers of contract 2 (parameter
   100 * 8 + 4).  The rule decides every context of a batch and is enforced once per context
   against the policy's state: the recorded total is the sum of the batch, and a batch whose
   amounts fit one by one but not together is refused as a whole. *)
Definition hist_spend : list call :=
  hist ++ [ Admin admin_sig [0%N] (AddRule (TCall 2) 3%N None [X0] [(real_spend, 804%N)]) ].
Definition st_sp : state := run cfg15 init hist_spend.
Definition xsig : list (signer * sigc) := [(X0, SGood)].
Example C03_ex_spending_batch :
  (* 30 + 30 in one batch: accepted, both recorded *)
  option_map (fun d => (sp_cached d, sp_hist d))
    (spend_get (md_spend (s_modes (run cfg15 st_sp [CheckAuth xsig [] [CTransfer 2 30; CTransfer 2 30]]))) 3)
    = Some (60, [(30, 10); (30, 10)]) /\
  (* 60 + 60: each fits, together they do not: refused, nothing recorded *)
  snd (step cfg15 st_sp (CheckAuth xsig [] [CTransfer 2 60; CTransfer 2 60])) = Fail /\
  option_map sp_cached (spend_get (md_spend (s_modes (run cfg15 st_sp [CheckAuth xsig [] [CTransfer 2 60; CTransfer 2 60]]))) 3) = Some 0 /\
  (* after 60 was spent, 41 more is refused, 40 accepted; 20 ledgers later the window has rolled over *)
  snd (step cfg15 (run cfg15 st_sp [CheckAuth xsig [] [CTransfer 2 60]]) (CheckAuth xsig [] [CTransfer 2 41])) = Fail /\
  is_ok (snd (step cfg15 (run cfg15 st_sp [CheckAuth xsig [] [CTransfer 2 60]]) (CheckAuth xsig [] [CTransfer 2 40]))) = true /\
  is_ok (snd (step cfg15 (run cfg15 st_sp [CheckAuth xsig [] [CTransfer 2 60]; Advance 20]) (CheckAuth xsig [] [CTransfer 2 100]))) = true /\
  is_ok (snd (step cfg15 (run cfg15 st_sp [CheckAuth xsig [] [CTransfer 2 60]; Advance 19]) (CheckAuth xsig [] [CTransfer 2 100]))) = false.
Proof. vm_compute. repeat split. Qed.
(* ------------------------------------------------------------------------- *)
(* The monitor is not trivially true: hand-made bad traces are rejected.      *)
(* ------------------------------------------------------------------------- *)
Definition types_ex : list ctype := [TDefault; TCall 1].
(* replace the outcome of the last item of a (model-generated) trace *)
Fixpoint set_last_outcome (o : outcome) (l : list item) : list item :=
  match l with
  | [] => []
  | [(cl, _, ob)] => [(cl, o, ob)]
  | x :: r => x :: set_last_outcome o r
  end.
Definition forged (last : call) (o : outcome) : trace :=
  (cfg15, set_last_outcome o (snd (observe_model cfg15 types_ex (hist ++ [last])))).
Definition r2 : rule := mkRule 2 (TCall 1) 2%N None [X0] [2%N].
Definition r1 : rule := mkRule 1 (TCall 1) 1%N (Some 12) [A1; X0] [].

(* the honest trace is accepted ... *)
Example C03_monitor_accepts_honest :
  check (observe_model cfg15 types_ex (hist ++ [CheckAuth [(A1, SGood); (X0, SGood)] [1%N] [CCall 1 0]])) = (0%N, 0%N, 0%N).
Proof. vm_compute. reflexivity. Qed.
(* ... success although a supplied signature does not verify is rejected (call #6) *)
Example C03_monitor_rejects_bad_signature :
  check (forged (CheckAuth [(A0, SGood); (X0, SBad)] [0%N] [CCall 1 0]) (Ok (None, []))) = (6%N, 6%N, 0%N).
Proof. vm_compute. reflexivity. Qed.
(* ... success of a context no rule covers (only A1 supplied) is rejected *)
Example C03_monitor_rejects_uncovered :
  check (forged (CheckAuth [(A1, SGood)] [1%N] [CCall 1 0]) (Ok (None, []))) = (6%N, 6%N, 0%N).
Proof. vm_compute. reflexivity. Qed.
(* ... success through the OLDER rule 1 (no enforce call) while the newer rule 2 is satisfied: rejected *)
Example C03_monitor_rejects_wrong_precedence :
  check (forged (CheckAuth [(A1, SGood); (X0, SGood)] [1%N] [CCall 1 0]) (Ok (None, [EVerify 0 0 SGood]))) = (6%N, 6%N, 0%N).
Proof. vm_compute. reflexivity. Qed.
(* ... the right rule but enforced twice: rejected *)
Example C03_monitor_rejects_double_enforce :
  check (forged (CheckAuth [(X0, SGood)] [] [CCall 1 0])
           (Ok (None, [EVerify 0 0 SGood; ECan 2%N (CCall 1 0) [X0] r2; EEnforce 2%N (CCall 1 0) [X0] r2; EEnforce 2%N (CCall 1 0) [X0] r2])))
  = (6%N, 6%N, 0%N).
Proof. vm_compute. reflexivity. Qed.
(* ... a foreign signer handed to the policy: rejected *)
Example C03_monitor_rejects_foreign_signer_counted :
  check (forged (CheckAuth [(A0, SGood); (X0, SGood)] [0%N] [CCall 1 0])
           (Ok (None, [EVerify 0 0 SGood; ECan 2%N (CCall 1 0) [A0; X0] r2; EEnforce 2%N (CCall 1 0) [A0; X0] r2])))
  = (6%N, 6%N, 0%N).
Proof. vm_compute. reflexivity. Qed.
(* ... a refusal although the signatures verify and a satisfied rule exists: rejected (converse direction) *)
Example C03_monitor_rejects_spurious_refusal :
  check (forged (CheckAuth [(A0, SGood)] [0%N] [CCreate 0]) Fail) = (6%N, 6%N, 0%N).
Proof. vm_compute. reflexivity. Qed.
(* ... the table clauses: replace the OBSERVATION of the last item of a model-generated trace *)
Fixpoint set_last_obs (f : obs -> obs) (l : list item) : list item :=
  match l with
  | [] => []
  | [(cl, o, ob)] => [(cl, o, f ob)]
  | x :: r => x :: set_last_obs f r
  end.
Definition forged_obs (last : call) (f : obs -> obs) : trace :=
  (cfg15, set_last_obs f (snd (observe_model cfg15 types_ex (hist ++ [last])))).
Definition drop_signers (id : Z) (ob : obs) : obs :=
  mkObs (ob_now ob) (ob_count ob) (upd id (with_signers (fun _ => [])) (ob_rules ob)) (ob_ids ob).
(* ledgers pass and a rule silently loses its signers (a lapsed storage entry): rejected by the monitor *)
Example C03_monitor_rejects_lapsed_signers :
  snd (fst (check (forged_obs (Advance 600000) (drop_signers 1)))) = 6%N.
Proof. vm_compute. reflexivity. Qed.
(* ledgers pass and a rule disappears although its valid_until is None: rejected *)
Example C03_monitor_rejects_lapsed_rule :
  snd (fst (check (forged_obs (Advance 4000000)
    (fun ob => mkObs (ob_now ob) 2 (filter (fun r => negb (r_id r =? 2)) (ob_rules ob)) [(TDefault, Some [0]); (TCall 1, Some [1])])))) = 6%N.
Proof. vm_compute. reflexivity. Qed.
(* the count forgets the rules while they are still there: rejected *)
Example C03_monitor_rejects_lapsed_count :
  snd (fst (check (forged_obs (Advance 20) (fun ob => mkObs (ob_now ob) 0 (ob_rules ob) (ob_ids ob))))) = 6%N.
Proof. vm_compute. reflexivity. Qed.
(* a read-only call after which the per-type id list no longer names a stored rule: rejected *)
Example C03_monitor_rejects_lapsed_id_list :
  snd (fst (check (forged_obs (CheckAuth [] [] [])
    (fun ob => mkObs (ob_now ob) (ob_count ob) (ob_rules ob) [(TDefault, Some [0]); (TCall 1, Some [2])])))) = 6%N.
Proof. vm_compute. reflexivity. Qed.
(* a new rule that re-uses id 0 (a forgotten next-id counter): rejected *)
Example C03_monitor_rejects_reused_id :
  snd (fst (check (cfg15, set_last_outcome (Ok (Some (mkRule 0 (TCall 2) 1%N None [A1] []), []))
      (set_last_obs (fun ob => mkObs (ob_now ob) 3 [mkRule 0 (TCall 2) 1%N None [A1] []; r1; r2] [(TDefault, Some []); (TCall 1, Some [1; 2])])
         (snd (observe_model cfg15 types_ex (hist ++ [Admin admin_sig [0%N] (AddRule (TCall 2) 1%N None [A1] [])]))))))) = 6%N.
Proof. vm_compute. reflexivity. Qed.
(* a second rule with the fingerprint of an existing one (a forgotten fingerprint entry): rejected *)
Example C03_monitor_rejects_duplicate_fingerprint :
  snd (fst (check (cfg15, set_last_outcome (Ok (Some (mkRule 3 TDefault 1%N None [A0] []), []))
      (set_last_obs (fun ob => mkObs (ob_now ob) 4 (ob_rules ob ++ [mkRule 3 TDefault 1%N None [A0] []]) [(TDefault, Some [0; 3]); (TCall 1, Some [1; 2])])
         (snd (observe_model cfg15 types_ex (hist ++ [Admin admin_sig [0%N] (AddRule TDefault 1%N None [A0] [])]))))))) = 6%N.
Proof. vm_compute. reflexivity. Qed.
(* an edit other than the requested one (remove_signer drops the wrong signer): rejected *)
Example C03_monitor_rejects_wrong_edit :
  snd (fst (check (cfg15, set_last_outcome (Ok (None, []))
      (set_last_obs (fun ob => mkObs (ob_now ob) (ob_count ob) (upd 1 (with_signers (fun _ => [X0])) (ob_rules ob)) (ob_ids ob))
         (snd (observe_model cfg15 types_ex (hist ++ [Admin admin_sig [0%N] (RemoveSigner 1 X0)]))))))) = 6%N.
Proof. vm_compute. reflexivity. Qed.
(* ... an entry point of the account that runs although its own authorisation check cannot pass: rejected *)
Example C03_monitor_rejects_unauthorised_admin :
  snd (fst (check (forged (Admin [(A1, SGood)] [1%N] (RemoveRule 0)) (Ok (None, []))))) = 6%N.
Proof. vm_compute. reflexivity. Qed.
(* the monitor rejects a success of the over-limit batch, and a batch enforced only once *)
Example C03_monitor_rejects_over_limit_batch :
  snd (fst (check (cfg15, set_last_outcome (Ok (None, []))
     (snd (observe_model cfg15 [TDefault; TCall 1; TCall 2] (hist_spend ++ [CheckAuth xsig [] [CTransfer 2 60; CTransfer 2 60]])))))) = 7%N.
Proof. vm_compute. reflexivity. Qed.
Example C03_monitor_rejects_enforce_once_per_rule :
  snd (fst (check (cfg15, set_last_outcome
     (Ok (None, [EVerify 0 0 SGood; EEnforce real_spend (CTransfer 2 30) [X0] (mkRule 3 (TCall 2) 3%N None [X0] [real_spend])]))
     (snd (observe_model cfg15 [TDefault; TCall 1; TCall 2] (hist_spend ++ [CheckAuth xsig [] [CTransfer 2 30; CTransfer 2 30]])))))) = 7%N.
Proof. vm_compute. reflexivity. Qed.

(* ---- a context that calls one of the deciding rule's own policy contracts is no exception ---- *)
(* mock policy 0 is also callable as contract 6.  Rule 3: calls of contract 6, no signer, only policy 0. *)
Definition r3p : rule := mkRule 3 (TCall 6) 3%N None [] [0%N].
Definition types_party : list ctype := [TDefault; TCall 1; TCall 6].
Definition hist_party_ok : list call := hist ++ [Admin admin_sig [0%N] (AddRule (TCall 6) 3%N None [] [(0%N, 1%N)])].
Definition hist_party_no : list call := hist_party_ok ++ [SetMode 0%N 3 (mkMode true true PFalse PTrue)].
Example C03_ex_call_of_own_policy :
  snd (step cfg15 (run cfg15 init hist_party_ok) (CheckAuth [] [] [CCall 6 20]))
    = Ok (None, [ECan 0%N (CCall 6 20) [] r3p; EEnforce 0%N (CCall 6 20) [] r3p]) /\
  snd (step cfg15 (run cfg15 init hist_party_no) (CheckAuth [] [] [CCall 6 20])) = Fail.
Proof. vm_compute. split; reflexivity. Qed.
(* the policy refuses, yet the call of the policy contract "succeeds" because the callee was not asked: rejected *)
Example C03_monitor_rejects_own_policy_skipped :
  snd (fst (check (cfg15, set_last_outcome (Ok (None, [EEnforce 0%N (CCall 6 20) [] r3p]))
     (snd (observe_model cfg15 types_party (hist_party_no ++ [CheckAuth [] [] [CCall 6 20]])))))) = 8%N.
Proof. vm_compute. reflexivity. Qed.
(* the policy would accept, but the log of the success shows no can_enforce call of it (asked clause): rejected;
   asked about ANOTHER context or rule does not count either; the honest trace is accepted *)
Example C03_monitor_rejects_unasked_policy :
  check (observe_model cfg15 types_party (hist_party_ok ++ [CheckAuth [] [] [CCall 6 20]])) = (0%N, 0%N, 0%N) /\
  snd (fst (check (cfg15, set_last_outcome (Ok (None, [EEnforce 0%N (CCall 6 20) [] r3p]))
     (snd (observe_model cfg15 types_party (hist_party_ok ++ [CheckAuth [] [] [CCall 6 20]])))))) = 7%N /\
  snd (fst (check (cfg15, set_last_outcome (Ok (None, [ECan 0%N (CCall 1 20) [] r3p; EEnforce 0%N (CCall 6 20) [] r3p]))
     (snd (observe_model cfg15 types_party (hist_party_ok ++ [CheckAuth [] [] [CCall 6 20]])))))) = 7%N.
Proof. vm_compute. repeat split. Qed.

(* ---- review 2.1: a trapping can_enforce hook never ends in a success ---- *)
Definition hist_trap : list call := hist ++ [SetMode 2%N 2 (mkMode true true PTrap PTrue)].
Definition forgedT (last : call) (o : outcome) : trace :=
  (cfg15, set_last_outcome o (snd (observe_model cfg15 types_ex (hist_trap ++ [last])))).
Example C03_ex_trap_model_fails :
  snd (step cfg15 (run cfg15 init hist_trap) (CheckAuth [] [] [CCall 1 0])) = Fail.
Proof. vm_compute. reflexivity. Qed.
(* nobody signs, the newest rule's hook traps, the check "succeeds": rejected *)
Example C03_monitor_rejects_success_under_trap :
  check (forgedT (CheckAuth [] [] [CCall 1 0]) (Ok (None, []))) = (7%N, 7%N, 0%N) /\
  check (forgedT (CheckAuth [] [] [CCall 1 0]) (Ok (None, [EEnforce 5%N (CCall 3 3) [A0] r1]))) = (7%N, 7%N, 0%N).
Proof. vm_compute. split; reflexivity. Qed.
(* remove_context_rule(0) with an EMPTY signature map "succeeds" while the deciding hook traps: rejected *)
Definition hist_trap2 : list call :=
  hist ++ [Admin admin_sig [0%N] (AddRule (TCall 0) 3%N None [X0] [(3%N, 1%N)]); SetMode 3%N 3 (mkMode true true PTrap PTrue)].
Example C03_monitor_rejects_admin_under_trap :
  snd (fst (check (cfg15, set_last_obs (fun ob => mkObs (ob_now ob) 3 (filter (fun r => negb (r_id r =? 0)) (ob_rules ob))
                                                      [(TDefault, Some []); (TCall 0, Some [3]); (TCall 1, Some [1;2])])
      (set_last_outcome (Ok (None, [])) (snd (observe_model cfg15 [TDefault; TCall 0; TCall 1] (hist_trap2 ++ [Admin [] [] (RemoveRule 0)]))))))) = 8%N.
Proof. vm_compute. reflexivity. Qed.
(* a direct set_threshold with no signer at all "succeeds" while the only candidate's hook cannot be re-entered: rejected *)
Definition hist_busy : list call :=
  [Advance 10; Construct [A0] []; Admin admin_sig [0%N] (AddRule (TCall 4) 1%N None [X0; X1] [(real_thr, 2%N)])].
Example C03_monitor_rejects_set_threshold_under_trap :
  snd (fst (check (cfg15, set_last_outcome (Ok (None, []))
     (snd (observe_model cfg15 [TDefault; TCall 4] (hist_busy ++ [SetThreshold false [] [] 1 1 2])))))) = 4%N.
Proof. vm_compute. reflexivity. Qed.
(* ---- review 2.2: before construction nothing can be authorised, and there is nothing to show ---- *)
Example C03_monitor_rejects_before_construction :
  snd (fst (check (cfg15, [(CheckAuth [] [] [CCall 1 0], Ok (None, []), mkObs 0 0 [] [(TDefault, Some [])])]))) = 1%N /\
  snd (fst (check (cfg15, [(Advance 5, Ok (None, []), mkObs 5 1 [mkRule 0 TDefault 0%N None [A0] []] [(TDefault, Some [0])])]))) = 1%N /\
  snd (fst (check (cfg15, [(Advance 5, Ok (None, []), mkObs 7 0 [] [(TDefault, Some [])])]))) = 1%N /\
  snd (fst (check (cfg15, [(Advance 5, Ok (None, []), mkObs 5 0 [] [])]))) = 1%N.
Proof. vm_compute. repeat split. Qed.
(* ---- review 2.3: a spurious refusal of a fully authorised, valid self-administration call is rejected ---- *)
Example C03_monitor_rejects_spurious_admin_refusal :
  snd (fst (check (forged (Admin admin_sig [0%N] (AddSigner 0 X0)) Fail))) = 6%N /\
  snd (fst (check (forged (Admin admin_sig [0%N] (UpdName 1 3%N)) Fail))) = 6%N /\
  snd (fst (check (forged (Admin admin_sig [0%N] (AddRule (TCall 2) 1%N None [A1] [])) Fail))) = 6%N /\
  (* ... while a refusal with a reason stays accepted: duplicate signer, unknown rule, duplicate fingerprint *)
  check (observe_model cfg15 types_ex (hist ++ [Admin admin_sig [0%N] (AddSigner 0 A0)])) = (0%N, 0%N, 0%N) /\
  check (observe_model cfg15 types_ex (hist ++ [Admin admin_sig [0%N] (UpdName 9 3%N)])) = (0%N, 0%N, 0%N) /\
  check (observe_model cfg15 types_ex (hist ++ [Admin admin_sig [0%N] (AddRule (TCall 1) 1%N None [X0; A1] [])])) = (0%N, 0%N, 0%N).
Proof. vm_compute. repeat split. Qed.
(* a rule whose type the observation does not list ids for: rejected (shape of the observation) *)
Example C03_monitor_rejects_unlisted_type :
  snd (fst (check (observe_model cfg15 [TDefault] hist))) = 3%N.
Proof. vm_compute. reflexivity. Qed.
(* ---- review 3: C03_foreign_signers_dont_count with a non-empty set of foreign signers ---- *)
Example C03_ex_foreign_signers :
  let extra := [(Delegated 5, SGood); (External 1 3, SGood)] in
  (forall r x, In r (a_rules (s_acct st_ex)) -> In x extra -> ~ In (fst x) (r_signers r)) /\
  do_check_auth O_ex (s_acct st_ex) 10 [1%N; 5%N] ([(A1, SGood); (X0, SGood)] ++ extra) [CCall 1 0]
  = Ok [EVerify 0 0 SGood; EVerify 1 3 SGood;
        ECan 2%N (CCall 1 0) [X0] (mkRule 2 (TCall 1) 2%N None [X0] [2%N]);
        EEnforce 2%N (CCall 1 0) [X0] (mkRule 2 (TCall 1) 2%N None [X0] [2%N])].
Proof.
  split; [|vm_compute; reflexivity].
  intros r x Hr Hx Hi. vm_compute in Hr.
  destruct Hr as [<-|[<-|[<-|[]]]]; destruct Hx as [<-|[<-|[]]]; cbn in Hi; intuition discriminate.
Qed.
