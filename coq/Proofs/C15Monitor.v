(* C15: the monitor (Run/C15.v) accepts every run of the model, and the model does not differ
   from itself: check (observe_model h calls) = (0, 0, 0). *)
From SC Require Import Lib.Prelude Lib.Int Lib.Host Model.ClaimIssuer Model.Identity Run.C15
  Proofs.C15Base Proofs.C15Bytes Proofs.C15Verify Proofs.C15Issuer Proofs.C15Registry Proofs.C15Ident
  Proofs.C15World.

(* ---------------- the model's own trace ---------------- *)
Fixpoint model_trace (h : hdr) (w : world) (ks : list call) : list item :=
  match ks with
  | [] => []
  | k :: r => let wo := step (cfg_of h) w k in (k, snd wo, observe h (fst wo)) :: model_trace h (fst wo) r
  end.
Definition observe_model (h : hdr) (ks : list call) : trace := (h, model_trace h (init_of h) ks).

(* the calls stay inside the universe the header declares (what the harness guarantees):
   topics that become required and issuers that become trusted are observed ones *)
Definition wf_call (h : hdr) (k : call) : bool :=
  match k with
  | AddTopic _ t => mem_z t (h_topics h)
  | AddIssuer _ i _ => mem_a i (h_iaddrs h)
  | _ => true
  end.

(* ---------------- lookups in positional observations ---------------- *)
Lemma combine_map {A B} (f : A -> B) l : combine l (map f l) = map (fun a => (a, f a)) l.
Proof. induction l; cbn; congruence. Qed.
Lemma at_key_map {K V} (e : K -> K -> bool) (He : eqb_spec e) (f : K -> V) k ks :
  at_key e k ks (map f ks) = if existsb (e k) ks then Some (f k) else None.
Proof. unfold at_key. rewrite combine_map. apply aget_map_const. exact He. Qed.
Lemma at_key_map_in {K V} (e : K -> K -> bool) (He : eqb_spec e) (f : K -> V) k ks :
  In k ks -> at_key e k ks (map f ks) = Some (f k).
Proof. intros H. rewrite at_key_map by exact He. apply (existsb_eqb_In _ He) in H. rewrite H. reflexivity. Qed.
Lemma at_key_map_some {K V} (e : K -> K -> bool) (He : eqb_spec e) (f : K -> V) k ks v :
  at_key e k ks (map f ks) = Some v -> In k ks /\ v = f k.
Proof.
  rewrite at_key_map by exact He. destruct (existsb (e k) ks) eqn:E; [|discriminate].
  intros H. inversion H. split; auto. apply (existsb_eqb_In _ He). exact E.
Qed.

Ltac rw_lookup L := let X := fresh "X" in pose proof L as X; cbv beta in X; unfold addr in *; rewrite X; clear X.

(* ---------------- the set of contracts is fixed ---------------- *)
Definition dom_ok {S} (ks : list addr) (l : list (addr * S)) : Prop :=
  forall a, aget N.eqb a l <> None <-> In a ks.
Record dom (h : hdr) (w : world) : Prop := {
  dm_cti : dom_ok (h_ctis h) (w_ctis w);
  dm_irs : dom_ok (h_irss h) (w_irss w);
  dm_ident : dom_ok (h_idents h) (w_idents w);
  dm_issuer : dom_ok (h_issuers h) (w_issuers w)
}.
Lemma dom_ok_init {S} (s0 : S) ks : dom_ok ks (map (fun a => (a, s0)) ks).
Proof.
  intros a. rewrite (aget_map_const _ N_eqb_spec (fun _ => s0)). rewrite <- (existsb_eqb_In _ N_eqb_spec).
  destruct (existsb (N.eqb a) ks); split; congruence.
Qed.
Lemma dom_ok_set {S} ks (l : list (addr * S)) a s' : dom_ok ks l -> aget N.eqb a l <> None -> dom_ok ks (aset N.eqb a s' l).
Proof.
  intros H Ha a0. rewrite (aget_aset _ N_eqb_spec). destruct (N.eqb a0 a) eqn:E; [|apply H].
  apply N.eqb_eq in E. subst. split; [intros _; apply H; exact Ha | discriminate].
Qed.
Lemma dom_init h : dom h (init_of h).
Proof. constructor; cbn; apply dom_ok_init. Qed.

Lemma get_or_some {S} (d : S) a l s : aget N.eqb a l = Some s -> get_or d a l = s.
Proof. unfold get_or. intros ->. reflexivity. Qed.

Section Lookups.
  Variable h : hdr.
  Variable w : world.
  Hypothesis Hd : dom h w.
  Local Notation c := (cfg_of h).
  Local Notation o := (observe h w).

  Lemma at_contract {S O} (ks : list addr) (l : list (addr * S)) (d0 : S) (f : addr -> S -> O) a :
    dom_ok ks l ->
    at_key N.eqb a ks (map (fun a => f a (get_or d0 a l)) ks)
    = match aget N.eqb a l with Some s => Some (f a s) | None => None end.
  Proof.
    intros Hdom. rewrite (at_key_map _ N_eqb_spec (fun a => f a (get_or d0 a l))).
    destruct (aget N.eqb a l) as [s|] eqn:E.
    - assert (In a ks) as Hin by (apply Hdom; congruence).
      apply (existsb_eqb_In _ N_eqb_spec) in Hin. rewrite Hin. rewrite (get_or_some _ _ _ _ E). reflexivity.
    - destruct (existsb (N.eqb a) ks) eqn:Ex; auto.
      apply (existsb_eqb_In _ N_eqb_spec) in Ex. apply Hdom in Ex. congruence.
  Qed.

  Lemma cti_at_model a :
    cti_at h o a = match aget N.eqb a (w_ctis w) with Some s => Some (observe_cti h s) | None => None end.
  Proof. unfold cti_at, observe. cbn [o_ctis]. apply (at_contract _ _ cti0 (fun _ s => observe_cti h s)). apply (dm_cti h w Hd). Qed.
  Lemma irs_at_model a :
    irs_at h o a = match aget N.eqb a (w_irss w) with Some s => Some (observe_irs h s) | None => None end.
  Proof. unfold irs_at, observe. cbn [o_irss]. apply (at_contract _ _ irs0 (fun _ s => observe_irs h s)). apply (dm_irs h w Hd). Qed.
  Lemma ident_at_model a :
    ident_at h o a = match aget N.eqb a (w_idents w) with Some s => Some (observe_ident h c w a s) | None => None end.
  Proof. unfold ident_at, observe. cbn [o_idents]. apply (at_contract _ _ ident0 (fun a s => observe_ident h (cfg_of h) w a s)). apply (dm_ident h w Hd). Qed.
  Lemma issuer_at_model a :
    issuer_at h o a = match aget N.eqb a (w_issuers w) with Some s => Some (observe_issuer h s) | None => None end.
  Proof. unfold issuer_at, observe. cbn [o_issuers]. apply (at_contract _ _ issuer0 (fun _ s => observe_issuer h s)). apply (dm_issuer h w Hd). Qed.

  (* ---- trusted_for on the model's registry observation ---- *)
  Lemma trusted_for_model ct i t :
    trusted_for h (observe_cti h ct) i t = true <->
    (In i (h_iaddrs h) /\ In t (h_topics h) /\ is_trusted_issuer ct i = true /\ has_claim_topic ct i t = Ok true).
  Proof.
    unfold trusted_for, observe_cti. cbn [co_trusted co_has].
    rewrite (at_key_map _ N_eqb_spec (is_trusted_issuer ct)).
    rewrite (at_key_map _ N_eqb_spec (fun i => map (fun t => rb_of (has_claim_topic ct i t)) (h_topics h))).
    destruct (existsb (N.eqb i) (h_iaddrs h)) eqn:Ei.
    - apply (existsb_eqb_In _ N_eqb_spec) in Ei.
      destruct (is_trusted_issuer ct i) eqn:Et.
      + rewrite (at_key_map _ Z_eqb_spec (fun t => rb_of (has_claim_topic ct i t))).
        destruct (existsb (Z.eqb t) (h_topics h)) eqn:Ett.
        * apply (existsb_eqb_In _ Z_eqb_spec) in Ett.
          destruct (has_claim_topic ct i t) as [[]|]; cbn [rb_of]; split; try tauto; try discriminate;
            intros [_ [_ [_ Hx]]]; discriminate.
        * split; [discriminate|]. intros [_ [Hx _]]. apply (existsb_eqb_In _ Z_eqb_spec) in Hx. congruence.
      + split; [discriminate|]. intros [_ [_ [Hx _]]]. discriminate.
    - split; [discriminate|]. intros [Hx _]. apply (existsb_eqb_In _ N_eqb_spec) in Hx. congruence.
  Qed.

  (* ---- cells of an identity observation ---- *)
  Lemma cell_at_model d s i t : In i (h_iaddrs h) -> In t (h_topics h) ->
    cell_at h (observe_ident h c w d s) i t = observe_cell c w d s i t.
  Proof.
    intros Hi Ht. unfold cell_at, observe_ident. cbn [do_claims]. unfold addr in *.
    rewrite (at_key_map_in _ N_eqb_spec (fun i : N => map (observe_cell c w d s i) (h_topics h)) i _ Hi).
    rewrite (at_key_map_in _ Z_eqb_spec (observe_cell c w d s i) t _ Ht). reflexivity.
  Qed.
  Lemma cell_at_some d s i t cd : cell_at h (observe_ident h c w d s) i t = Some cd ->
    In i (h_iaddrs h) /\ In t (h_topics h) /\ observe_cell c w d s i t = Some cd.
  Proof.
    unfold cell_at, observe_ident. cbn [do_claims]. unfold addr in *.
    destruct (at_key N.eqb i (h_iaddrs h) (map (fun i : N => map (observe_cell c w d s i) (h_topics h)) (h_iaddrs h))) as [row|] eqn:E1; [|discriminate].
    apply (at_key_map_some _ N_eqb_spec) in E1. destruct E1 as [Hi ->].
    destruct (at_key Z.eqb t (h_topics h) (map (observe_cell c w d s i) (h_topics h))) as [x|] eqn:E2; [|discriminate].
    apply (at_key_map_some _ Z_eqb_spec) in E2. destruct E2 as [Ht ->]. auto.
  Qed.
  Lemma ids_at_model d s t : In t (h_topics h) ->
    ids_at h (observe_ident h c w d s) t = get_claim_ids_by_topic s t.
  Proof.
    intros Ht. unfold ids_at, observe_ident. cbn [do_ids].
    rewrite (at_key_map_in _ Z_eqb_spec (get_claim_ids_by_topic s) t _ Ht). reflexivity.
  Qed.

  Lemma observe_cell_some d s i t cd : observe_cell c w d s i t = Some cd ->
    exists cl, get_claim s (i, t) = Ok cl /\ cd_claim cd = cl /\
               cd_confirmed cd = is_ok (call_is_claim_valid c w i d t (cl_scheme cl) (cl_sig cl) (cl_data cl)).
  Proof.
    unfold observe_cell. destruct (get_claim s (i, t)) as [cl|]; [|discriminate].
    intros H. inversion H. exists cl. cbn. auto.
  Qed.

  (* ---- holds_valid on the model's observation ---- *)
  Lemma holds_valid_model d i t : In i (h_iaddrs h) -> In t (h_topics h) ->
    (Run.C15.holds_valid h o d i t = true <->
     exists s, the_ident w d = Ok s /\ Proofs.C15Verify.holds_valid c w s d i t).
  Proof.
    intros Hi Ht. unfold Run.C15.holds_valid. rewrite ident_at_model.
    unfold the_ident. destruct (aget N.eqb d (w_idents w)) as [s|] eqn:Es; cbn [of_option].
    - rewrite (ids_at_model d s t Ht), (cell_at_model d s i t Hi Ht). split.
      + intros H. apply andb_true_iff in H. destruct H as [H1 H2].
        exists s. split; auto. split; [apply (existsb_eqb_In _ cid_eqb_spec); exact H1|].
        destruct (observe_cell c w d s i t) as [cd|] eqn:Ec; [|discriminate].
        destruct (observe_cell_some _ _ _ _ _ Ec) as [cl [Eg [E1 E2]]].
        rewrite E1, E2 in H2. apply andb_true_iff in H2. destruct H2 as [H2 H3].
        apply andb_true_iff in H2. destruct H2 as [H2 H4].
        exists cl. repeat split; auto; [apply Z.eqb_eq; auto | apply N.eqb_eq; auto | apply res_unit; exact H3].
      + intros [s' [Es' [Hin [cl [Eg [E1 [E2 Hc]]]]]]]. inversion Es'. subst s'.
        apply andb_true_iff. split; [apply (existsb_eqb_In _ cid_eqb_spec); exact Hin|].
        unfold observe_cell. rewrite Eg. cbn [cd_claim cd_confirmed].
        rewrite E1, E2, Z.eqb_refl, N.eqb_refl. cbn [andb]. apply res_unit. exact Hc.
    - split; [discriminate | intros [s [Hx _]]; discriminate].
  Qed.

  (* ---- the monitor's index_sound flag gives what completeness needs ---- *)
  Lemma index_sound_model d s t issuers :
    index_sound h o d = true -> the_ident w d = Ok s -> In t (h_topics h) ->
    (forall i, In i issuers -> In i (h_iaddrs h)) -> index_sound_for s t issuers.
  Proof.
    intros Hx Es Ht Hsub i Hi Hin. unfold index_sound in Hx. rewrite ident_at_model in Hx.
    apply the_ident_get in Es. rewrite Es in Hx. rewrite forallb_forall in Hx.
    specialize (Hx t Ht). rewrite (ids_at_model d s t Ht), forallb_forall in Hx. specialize (Hx _ Hin). cbn [fst snd] in Hx.
    rewrite (cell_at_model d s i t (Hsub i Hi) Ht) in Hx. unfold observe_cell in Hx.
    destruct (get_claim s (i, t)) as [cl|]; [exists cl; reflexivity | discriminate].
  Qed.
End Lookups.

(* ---------------- required topics and trusted issuers stay inside the universe ---------------- *)
Definition cti_closed (h : hdr) (s : cti) : Prop :=
  (forall t, In t (ct_topics s) -> In t (h_topics h)) /\ (forall i, In i (ct_issuers s) -> In i (h_iaddrs h)).
Definition closed (h : hdr) (w : world) : Prop :=
  forall a s, aget N.eqb a (w_ctis w) = Some s -> cti_closed h s.

Lemma closed_init h : closed h (init_of h).
Proof. intros a s H. cbn in H. apply aget_init in H. subst. split; intros x []. Qed.

Lemma closed_set_cti h w a s' : closed h w -> cti_closed h s' -> closed h (set_cti w a s').
Proof.
  intros Hc Hs a0 s0. cbn [set_cti w_ctis]. rewrite (aget_aset _ N_eqb_spec).
  destruct (N.eqb a0 a); [intros E; inversion E; subst; exact Hs | apply Hc].
Qed.

Lemma step_closed h w k : wf_call h k = true -> closed h w -> closed h (fst (step (cfg_of h) w k)).
Proof.
  intros Hwf Hc. destruct (step (cfg_of h) w k) as [w' out] eqn:E. cbn [fst].
  assert (Hsame : forall w1, w_ctis w1 = w_ctis w -> closed h w1) by (intros w1 F a s; rewrite F; apply Hc).
  destruct k; cbn [step] in E; cbn [wf_call] in Hwf;
    try (unfold pure in E; inversion E; subst; exact Hc);
    try (inversion E; subst; apply Hsame; reflexivity);
    try (apply (upd_inv (closed h) _ _ _ _ _ E Hc); intros s0 _; apply Hsame; reflexivity).
  - (* AddTopic *) apply (upd_inv (closed h) _ _ _ _ _ E Hc). intros s Hs. apply bind_ok in Hs. destruct Hs as [s0 [E0 Hs]].
    apply closed_set_cti; auto. destruct (Hc _ _ (the_cti_get _ _ _ E0)) as [H1 H2].
    unfold add_claim_topic in Hs. destruct (_ <=? _); [discriminate|]. destruct (mem_z t (ct_topics s0)); [discriminate|].
    inversion Hs. split; cbn; auto. intros t' Ht'. apply In_app_single in Ht'. destruct Ht' as [Ht'| ->]; auto. apply mem_z_In. exact Hwf.
  - apply (upd_inv (closed h) _ _ _ _ _ E Hc). intros s Hs. apply bind_ok in Hs. destruct Hs as [s0 [E0 Hs]].
    apply closed_set_cti; auto. destruct (Hc _ _ (the_cti_get _ _ _ E0)) as [H1 H2].
    unfold remove_claim_topic in Hs. apply bind_ok in Hs. destruct Hs as [tp [Er Hs]]. apply of_option_ok in Er.
    inversion Hs. split; cbn; auto. intros t' Ht'. apply H1. eapply remove_first_incl; eauto.
  - (* AddIssuer *) apply (upd_inv (closed h) _ _ _ _ _ E Hc). intros s Hs. apply bind_ok in Hs. destruct Hs as [s0 [E0 Hs]].
    apply closed_set_cti; auto. destruct (Hc _ _ (the_cti_get _ _ _ E0)) as [H1 H2].
    unfold add_trusted_issuer in Hs. destruct (negb _); [discriminate|]. destruct (_ <=? _); [discriminate|].
    destruct (mem_a i (ct_issuers s0)); [discriminate|]. apply bind_ok in Hs. destruct Hs as [m [_ Hs]].
    inversion Hs. split; cbn; auto. intros i' Hi'. apply In_app_single in Hi'. destruct Hi' as [Hi'| ->]; auto. apply mem_a_In. exact Hwf.
  - apply (upd_inv (closed h) _ _ _ _ _ E Hc). intros s Hs. apply bind_ok in Hs. destruct Hs as [s0 [E0 Hs]].
    apply closed_set_cti; auto. destruct (Hc _ _ (the_cti_get _ _ _ E0)) as [H1 H2].
    unfold remove_trusted_issuer in Hs. apply bind_ok in Hs. destruct Hs as [is' [Er Hs]]. apply of_option_ok in Er.
    apply bind_ok in Hs. destruct Hs as [its [_ Hs]]. apply bind_ok in Hs. destruct Hs as [m [_ Hs]].
    inversion Hs. split; cbn; auto. intros i' Hi'. apply H2. eapply remove_first_incl; eauto.
  - apply (upd_inv (closed h) _ _ _ _ _ E Hc). intros s Hs. apply bind_ok in Hs. destruct Hs as [s0 [E0 Hs]].
    apply closed_set_cti; auto. destruct (Hc _ _ (the_cti_get _ _ _ E0)) as [H1 H2].
    unfold update_issuer_claim_topics in Hs. destruct (negb _); [discriminate|]. destruct (negb _); [discriminate|].
    apply bind_ok in Hs. destruct Hs as [old [_ Hs]]. apply bind_ok in Hs. destruct Hs as [m1 [_ Hs]].
    apply bind_ok in Hs. destruct Hs as [m2 [_ Hs]]. inversion Hs. split; cbn; auto.
  - (* AddClaim *)
    destruct (do s <- the_ident w d; add_claim s cl _) as [[s' id]|]; inversion E; subst; auto; apply Hsame; reflexivity.
Qed.

Lemma step_dom h w k : dom h w -> dom h (fst (step (cfg_of h) w k)).
Proof.
  intros Hd. destruct (step (cfg_of h) w k) as [w' out] eqn:E. cbn [fst].
  assert (Hsame : forall w1, w_ctis w1 = w_ctis w -> w_irss w1 = w_irss w -> w_idents w1 = w_idents w ->
                             w_issuers w1 = w_issuers w -> dom h w1).
  { intros w1 F1 F2 F3 F4. destruct Hd. constructor; [rewrite F1 | rewrite F2 | rewrite F3 | rewrite F4]; auto. }
  assert (Hcti : forall a s0 s1, the_cti w a = Ok s0 -> dom h (set_cti w a s1)).
  { intros a s0 s1 E0. destruct Hd. constructor; cbn [set_cti w_ctis w_irss w_idents w_issuers]; auto.
    apply dom_ok_set; auto. apply the_cti_get in E0. congruence. }
  assert (Hirs : forall a s0 s1, the_irs w a = Ok s0 -> dom h (set_irs w a s1)).
  { intros a s0 s1 E0. destruct Hd. constructor; cbn [set_irs w_ctis w_irss w_idents w_issuers]; auto.
    apply dom_ok_set; auto. unfold the_irs in E0. apply of_option_ok in E0. congruence. }
  assert (Hid : forall a s0 s1, the_ident w a = Ok s0 -> dom h (set_ident w a s1)).
  { intros a s0 s1 E0. destruct Hd. constructor; cbn [set_ident w_ctis w_irss w_idents w_issuers]; auto.
    apply dom_ok_set; auto. apply the_ident_get in E0. congruence. }
  assert (His : forall a s0 s1, the_issuer w a = Ok s0 -> dom h (set_issuer w a s1)).
  { intros a s0 s1 E0. destruct Hd. constructor; cbn [set_issuer w_ctis w_irss w_idents w_issuers]; auto.
    apply dom_ok_set; auto. apply the_issuer_get in E0. congruence. }
  destruct k; cbn [step] in E;
    try (unfold pure in E; inversion E; subst; exact Hd);
    try (inversion E; subst; apply Hsame; reflexivity);
    try (apply (upd_inv (dom h) _ _ _ _ _ E Hd); intros s Hs; apply bind_ok in Hs; destruct Hs as [s0 [E0 Hs]]; eauto).
  destruct (do s <- the_ident w d; add_claim s cl _) as [[s' id]|] eqn:Ea; inversion E; subst; auto.
  apply bind_ok in Ea. destruct Ea as [s0 [E0 _]]. eauto.
Qed.

(* ---------------- part 1 of the monitor: verify_identity ---------------- *)
Section VerifyOk.
  Variable h : hdr.
  Variable w : world.
  Hypothesis Hw : world_inv w.
  Hypothesis Hd : dom h w.
  Hypothesis Hc : closed h w.
  Local Notation c := (cfg_of h).
  Local Notation o := (observe h w).

  Lemma topic_satisfied_model ct d t : cti_closed h ct -> In t (ct_topics ct) ->
    (topic_satisfied h o (observe_cti h ct) d t = true <-> covered_by_trusted_issuer c w ct d t).
  Proof.
    intros [Hc1 Hc2] Ht. pose proof (Hc1 t Ht) as Htu. unfold topic_satisfied. rewrite existsb_exists. split.
    - intros [i [Hi Hx]]. apply andb_true_iff in Hx. destruct Hx as [H1 H2].
      apply trusted_for_model in H1. destruct H1 as [_ [_ [Htr Hhas]]].
      apply (holds_valid_model h w Hd d i t Hi Htu) in H2. destruct H2 as [s [Es [Hin [cl [Eg [E1 [E2 Hcf]]]]]]].
      exists i, s, cl. repeat split; auto.
    - intros [i [s [cl [Htr [Hhas [Es [Hin [Eg [E1 [E2 Hcf]]]]]]]]]].
      assert (Hi : In i (h_iaddrs h)) by (apply Hc2; apply mem_a_In; exact Htr).
      exists i. split; auto. apply andb_true_iff. split.
      + apply trusted_for_model. auto.
      + apply (holds_valid_model h w Hd d i t Hi Htu). exists s. split; auto. split; auto. exists cl. auto.
  Qed.

  Lemma expected_main a ra r d ca ct : In a (h_accounts h) ->
    w_virs w = Some ra -> the_irs w ra = Ok r -> stored_identity r a = Ok d ->
    w_vcti w = Some ca -> the_cti w ca = Ok ct ->
    expected_verify h o a = (forallb (topic_satisfied h o (observe_cti h ct) d) (ct_topics ct), index_sound h o d).
  Proof.
    intros Ha E1 E2 E3 E4 E5. unfold expected_verify. cbn [o_ver observe vo_irs vo_cti]. rewrite E1, E4.
    rewrite (irs_at_model h w Hd), (cti_at_model h w Hd).
    unfold the_irs in E2. apply of_option_ok in E2. rewrite E2. apply the_cti_get in E5. rewrite E5.
    unfold observe_irs at 1. cbn [io_stored].
    rw_lookup (at_key_map_in _ N_eqb_spec (stored_identity r) a _ Ha). rewrite E3. reflexivity.
  Qed.

  Lemma expected_true_inv a : fst (expected_verify h o a) = true ->
    exists ra r d ca ct, w_virs w = Some ra /\ the_irs w ra = Ok r /\ stored_identity r a = Ok d /\
                         w_vcti w = Some ca /\ the_cti w ca = Ok ct.
  Proof.
    unfold expected_verify. cbn [o_ver observe vo_irs vo_cti].
    destruct (w_virs w) as [ra|] eqn:E1; [|discriminate]. destruct (w_vcti w) as [ca|] eqn:E4; [|discriminate].
    rewrite (irs_at_model h w Hd), (cti_at_model h w Hd).
    destruct (aget N.eqb ra (w_irss w)) as [r|] eqn:E2; [|discriminate].
    destruct (aget N.eqb ca (w_ctis w)) as [ct|] eqn:E5; [|discriminate].
    unfold observe_irs at 1. cbn [io_stored].
    match goal with |- context [at_key ?e ?k ?ks ?vs] => destruct (at_key e k ks vs) as [x|] eqn:E3; [|discriminate] end.
    apply (at_key_map_some _ N_eqb_spec) in E3. destruct E3 as [_ ->].
    destruct (stored_identity r a) as [d|] eqn:E3; [|discriminate]. intros _.
    exists ra, r, d, ca, ct. unfold the_irs, the_cti. rewrite E2, E5. auto.
  Qed.

  Lemma verify_ok_model : verify_ok h o = true.
  Proof.
    unfold verify_ok. cbn [o_ver observe vo_verify]. rewrite combine_map, forallb_forall.
    intros [a v] Hin. apply in_map_iff in Hin. destruct Hin as [a' [Ea Ha]]. inversion Ea. subst a' v. clear Ea. cbn [fst snd].
    destruct (expected_verify h o a) as [e exact] eqn:Ee.
    (* soundness direction *)
    assert (Hs : is_ok (verify_identity c w a) = true -> e = true).
    { intros Hv. apply res_unit in Hv. apply verify_sound in Hv. destruct Hv as [d [m [Hview Hcov]]].
      pose proof (spec_of_view c w a d m Hw Hview Hcov) as [ra [r [d' [ca [ct [E1 [E2 [E3 [E4 [E5 Hall]]]]]]]]]].
      rewrite (expected_main a ra r d' ca ct Ha E1 E2 E3 E4 E5) in Ee. inversion Ee.
      apply forallb_forall. intros t Ht. apply topic_satisfied_model; auto. apply (Hc _ _ (the_cti_get _ _ _ E5)). }
    (* completeness direction *)
    assert (Hcm : exact = true -> e = true -> is_ok (verify_identity c w a) = true).
    { intros Hex He. assert (He' : fst (expected_verify h o a) = true) by (rewrite Ee; exact He).
      destruct (expected_true_inv a He') as [ra [r [d [ca [ct [E1 [E2 [E3 [E4 E5]]]]]]]]].
      rewrite (expected_main a ra r d ca ct Ha E1 E2 E3 E4 E5) in Ee. injection Ee as Ee1 Ee2.
      rewrite <- Ee1 in He. rewrite <- Ee2 in Hex. clear Ee1 Ee2 He'.
      pose proof (Hc _ _ (the_cti_get _ _ _ E5)) as Hcl.
      assert (Hspec : verified_spec c w a).
      { exists ra, r, d, ca, ct. repeat split; auto. intros t Ht. rewrite forallb_forall in He.
        apply (topic_satisfied_model ct d t Hcl Ht). apply He. exact Ht. }
      destruct (view_of_spec c w a Hw Hspec) as [d' [m [Hview Hcov]]].
      apply res_unit. apply (verify_complete_for c w a d' m Hview); auto.
      (* the index is sound for what verify_identity looks at *)
      assert (d' = d) as ->.
      { destruct Hview as [ra' [r' [ca' [ct' [F1 [F2 [F3 _]]]]]]]. rewrite E1 in F1. inversion F1. subst ra'.
        rewrite E2 in F2. inversion F2. subst r'. rewrite E3 in F3. inversion F3. reflexivity. }
      intros s t issuers Es Hin.
      destruct Hview as [ra' [r' [ca' [ct' [_ [_ [_ [F4 [F5 F6]]]]]]]]].
      rewrite E4 in F4. inversion F4. subst ca'. rewrite E5 in F5. inversion F5. subst ct'.
      pose proof (wi_cti w Hw _ _ (the_cti_get _ _ _ E5)) as Hinv.
      destruct (topics_and_issuers_reading ct Hinv) as [m' [Em [Hm1 Hm2]]]. rewrite F6 in Em. inversion Em. subst m'.
      destruct (proj1 (Hm1 t issuers) Hin) as [Ht _]. destruct Hcl as [Hc1 Hc2].
      apply (index_sound_model h w Hd d s t issuers Hex Es (Hc1 t Ht)).
      intros i Hi. apply Hc2. apply (Hm2 _ _ Hin) in Hi. destruct Hi as [Htr _]. apply mem_a_In. exact Htr. }
    destruct exact.
    - destruct (is_ok (verify_identity c w a)) eqn:Ev; destruct e; auto;
        try (specialize (Hs eq_refl); discriminate); try (specialize (Hcm eq_refl eq_refl); discriminate).
    - destruct (is_ok (verify_identity c w a)) eqn:Ev; destruct e; auto;
        try (specialize (Hs eq_refl); discriminate).
  Qed.
End VerifyOk.

(* ---------------- part 2 of the monitor: what the reference issuer confirms ---------------- *)
Lemma is_claim_valid_bool c now self s d t scheme sig data :
  is_ok (is_claim_valid c now self s d t scheme sig data) =
  match extract_sig scheme sig with
  | Fail => false
  | Ok sd =>
      is_key_allowed_for_topic s (sd_pk sd) scheme t
      && match decode_expiration data with Ok (_, vu, _) => now <? vu | Fail => false end
      && negb (is_claim_revoked s d t data)
      && c_sigok c scheme (sd_pk sd)
           (build_claim_message (c_net c) (c_xdr c self) (c_xdr c d) t (get_current_nonce_for s d t) data)
           (sd_sig sd) (sd_rid sd)
  end.
Proof.
  unfold is_claim_valid, claim_message, is_claim_expired.
  destruct (extract_sig scheme sig) as [sd|]; cbn [bind]; [|reflexivity].
  destruct (is_key_allowed_for_topic s (sd_pk sd) scheme t); cbn [guard bind andb]; [|reflexivity].
  destruct (decode_expiration data) as [[[ca vu] p]|]; cbn [bind]; [|reflexivity].
  rewrite (Z.ltb_antisym vu now). destruct (vu <=? now); cbn [negb guard bind andb]; [reflexivity|].
  destruct (is_claim_revoked s d t data); cbn [negb guard bind andb]; [reflexivity|].
  destruct (c_sigok c scheme (sd_pk sd) _ (sd_sig sd) (sd_rid sd)); reflexivity.
Qed.

Lemma cell_ok_model h w d s i t : cell_ok h (observe h w) d i t (observe_cell (cfg_of h) w d s i t) = true.
Proof.
  unfold cell_ok, observe_cell. destruct (get_claim s (i, t)) as [cl|]; [|reflexivity].
  cbn [cd_info cd_confirmed cd_claim]. unfold call_is_claim_valid.
  destruct (the_issuer w i) as [si|]; cbn [bind]; [|reflexivity].
  rewrite is_claim_valid_bool. unfold confirm_expected.
  destruct (extract_sig (cl_scheme cl) (cl_sig cl)) as [sd|]; [|reflexivity].
  cbn [observe o_now cfg_of c_net c_xdr c_sigok].
  destruct (is_key_allowed_for_topic si (sd_pk sd) (cl_scheme cl) t); cbn [andb]; [|reflexivity].
  apply Bool.eqb_reflx.
Qed.

Lemma issuers_ok_model h w : issuers_ok h (observe h w) = true.
Proof.
  unfold issuers_ok. cbn [observe o_idents]. rewrite combine_map, forallb_forall.
  intros [d dob] Hin. apply in_map_iff in Hin. destruct Hin as [d' [E _]]. inversion E. subst d' dob. clear E. cbn [fst snd].
  unfold observe_ident at 1. cbn [do_claims]. rewrite combine_map, forallb_forall.
  intros [i row] Hin. apply in_map_iff in Hin. destruct Hin as [i' [E _]]. inversion E. subst i' row. clear E. cbn [fst snd].
  rewrite combine_map, forallb_forall.
  intros [t cell] Hin. apply in_map_iff in Hin. destruct Hin as [t' [E _]]. inversion E. subst t' cell. clear E. cbn [fst snd].
  apply cell_ok_model.
Qed.

(* ---------------- part 3 of the monitor: the registry's two indexes ---------------- *)
Lemma registry_ok_model h ct : cti_inv ct -> cti_closed h ct -> registry_ok h (observe_cti h ct) = true.
Proof.
  intros Hi [Hc1 Hc2]. unfold registry_ok. apply andb_true_iff. split.
  - rewrite forallb_forall. intros i Hiu. rewrite forallb_forall. intros t Htu.
    apply Bool.eqb_true_iff. apply eq_true_iff_eq. rewrite trusted_for_model.
    unfold observe_cti at 1 2. cbn [co_topics co_tissuers].
    rw_lookup (at_key_map_in _ Z_eqb_spec (get_claim_topic_issuers ct) t _ Htu).
    rewrite andb_true_iff, mem_z_In. unfold get_claim_topic_issuers.
    unfold is_trusted_issuer. rewrite mem_a_In, has_claim_topic_true.
    split.
    + intros [Ht Hl]. destruct (aget Z.eqb t (ct_tissuers ct)) as [l|] eqn:El; cbn [of_option] in Hl; [|discriminate].
      apply mem_a_In in Hl. assert (Hx : In i (tiss ct t)) by (unfold tiss; rewrite El; exact Hl).
      repeat split; auto; [eapply listed_is_trusted; eauto | apply (ri_coherent ct Hi); exact Hx].
    + intros [_ [_ [Htr Hx]]]. apply (ri_coherent ct Hi) in Hx. split.
      * apply (ri_tpresent ct Hi). unfold tiss in Hx. destruct (aget Z.eqb t (ct_tissuers ct)); [discriminate | destruct Hx].
      * unfold tiss in Hx. destruct (aget Z.eqb t (ct_tissuers ct)) as [l|]; cbn [of_option]; [apply mem_a_In; exact Hx | destruct Hx].
  - unfold observe_cti at 1. cbn [co_map].
    destruct (topics_and_issuers_reading ct Hi) as [m [Em [Hm1 _]]]. rewrite Em.
    apply andb_true_iff. split.
    + unfold observe_cti. cbn [co_topics co_tissuers]. rewrite forallb_forall. intros t Ht.
      unfold get_claim_topics_and_issuers in Em. rewrite (topics_and_issuers_from_get _ _ _ _ Em t).
      assert (mem_z t (ct_topics ct) = true) as -> by (apply mem_z_In; exact Ht).
      rw_lookup (at_key_map_in _ Z_eqb_spec (get_claim_topic_issuers ct) t _ (Hc1 t Ht)).
      unfold get_claim_topic_issuers. apply (ri_tpresent ct Hi) in Ht. unfold addr in *.
      match goal with |- context [@aget ?K ?V ?e ?k ?ll] => destruct (@aget K V e k ll) as [l|] eqn:El end; [|exfalso; apply Ht; reflexivity]. cbn [of_option].
      apply (list_eqb_spec _ N_eqb_spec). reflexivity.
    + rewrite forallb_forall. intros [t l] Hin. cbn [fst]. unfold observe_cti. cbn [co_topics].
      apply mem_z_In. apply (Hm1 t l). exact Hin.
Qed.

Lemma mon_state_model h w : world_inv w -> dom h w -> closed h w -> mon_state h (observe h w) = true.
Proof.
  intros Hw Hd Hc. unfold mon_state. rewrite !andb_true_iff. split; [split|].
  - apply verify_ok_model; auto.
  - apply issuers_ok_model.
  - cbn [observe o_ctis]. rewrite forallb_forall. intros co Hin. apply in_map_iff in Hin. destruct Hin as [a [<- Ha]].
    unfold get_or. destruct (aget N.eqb a (w_ctis w)) as [s|] eqn:E.
    + apply registry_ok_model; [apply (wi_cti w Hw a s E) | apply (Hc a s E)].
    + apply registry_ok_model; [apply cti_inv_init | split; intros x []].
Qed.

(* ---------------- temporal clauses ---------------- *)
Lemma nonce_at_model h w i d t n : dom h w -> nonce_at h (observe h w) i d t = Some n ->
  exists s, the_issuer w i = Ok s /\ n = get_current_nonce_for s d t.
Proof.
  intros Hd. unfold nonce_at. rewrite (issuer_at_model h w Hd). unfold the_issuer.
  destruct (aget N.eqb i (w_issuers w)) as [s|]; [|discriminate]. unfold observe_issuer. cbn [so_nonce].
  match goal with |- context [at_key ?e ?k ?ks ?vs] => destruct (at_key e k ks vs) as [row|] eqn:E1; [|discriminate] end.
  apply (at_key_map_some _ N_eqb_spec) in E1. destruct E1 as [_ ->].
  intros E2. apply (at_key_map_some _ Z_eqb_spec) in E2. destruct E2 as [_ ->]. exists s. auto.
Qed.
Lemma revoked_at_model h w i q r : dom h w -> revoked_at h (observe h w) i q = Some r ->
  exists s, the_issuer w i = Ok s /\ r = is_claim_revoked s (fst (fst q)) (snd (fst q)) (snd q).
Proof.
  intros Hd. unfold revoked_at. rewrite (issuer_at_model h w Hd). unfold the_issuer.
  destruct (aget N.eqb i (w_issuers w)) as [s|]; [|discriminate]. unfold observe_issuer. cbn [so_revoked].
  rewrite (aget_map_const _ rkey_eqb_spec (fun q : rkey => is_claim_revoked s (fst (fst q)) (snd (fst q)) (snd q))).
  destruct (existsb (rkey_eqb q) (h_revq h)); [|discriminate]. intros E. inversion E. exists s. auto.
Qed.

Lemma nonce_at_eq h w i d t : dom h w ->
  nonce_at h (observe h w) i d t =
  match aget N.eqb i (w_issuers w) with
  | Some s => if existsb (N.eqb d) (h_idents h)
              then if existsb (Z.eqb t) (h_topics h) then Some (get_current_nonce_for s d t) else None
              else None
  | None => None
  end.
Proof.
  intros Hd. unfold nonce_at. rewrite (issuer_at_model h w Hd).
  destruct (aget N.eqb i (w_issuers w)) as [s|]; [|reflexivity]. unfold observe_issuer. cbn [so_nonce].
  rw_lookup (at_key_map N.eqb N_eqb_spec (fun d : N => map (get_current_nonce_for s d) (h_topics h)) d (h_idents h)).
  destruct (existsb (N.eqb d) (h_idents h)); [|reflexivity].
  rw_lookup (at_key_map Z.eqb Z_eqb_spec (get_current_nonce_for s d) t (h_topics h)). reflexivity.
Qed.
Lemma revoked_at_eq h w i q : dom h w ->
  revoked_at h (observe h w) i q =
  match aget N.eqb i (w_issuers w) with
  | Some s => if existsb (rkey_eqb q) (h_revq h)
              then Some (is_claim_revoked s (fst (fst q)) (snd (fst q)) (snd q)) else None
  | None => None
  end.
Proof.
  intros Hd. unfold revoked_at. rewrite (issuer_at_model h w Hd).
  destruct (aget N.eqb i (w_issuers w)) as [s|]; [|reflexivity]. unfold observe_issuer. cbn [so_revoked].
  apply (aget_map_const _ rkey_eqb_spec (fun q : rkey => is_claim_revoked s (fst (fst q)) (snd (fst q)) (snd q))).
Qed.

(* two worlds whose issuers agree except (possibly) at one address *)
Definition issuers_agree (w w' : world) (i : addr) (P : issuer -> issuer -> Prop) : Prop :=
  forall i', match aget N.eqb i' (w_issuers w), aget N.eqb i' (w_issuers w') with
             | Some s, Some s' => if N.eqb i' i then P s s' else s' = s
             | None, None => True
             | _, _ => False
             end.

Lemma issuers_agree_set w i s s' (P : issuer -> issuer -> Prop) :
  the_issuer w i = Ok s -> P s s' -> issuers_agree w (set_issuer w i s') i P.
Proof.
  intros Es Hp i'. cbn [set_issuer w_issuers]. rewrite (aget_aset _ N_eqb_spec).
  apply the_issuer_get in Es. destruct (N.eqb i' i) eqn:Ei.
  - apply N.eqb_eq in Ei. subst i'. rewrite Es. exact Hp.
  - destruct (aget N.eqb i' (w_issuers w)); auto.
Qed.

Lemma nonces_frame_model h w w' i exc (P : issuer -> issuer -> Prop) : dom h w -> dom h w' ->
  issuers_agree w w' i P ->
  (forall s s' d t, P s s' -> exc i d t = false -> get_current_nonce_for s' d t = get_current_nonce_for s d t) ->
  nonces_frame h (observe h w) (observe h w') exc = true.
Proof.
  intros Hd Hd' Ha Hp. unfold nonces_frame. rewrite forallb_forall. intros i' _.
  rewrite forallb_forall. intros d _. rewrite forallb_forall. intros t _.
  destruct (exc i' d t) eqn:Ex; [reflexivity|]. cbn [orb].
  rewrite (nonce_at_eq h w i' d t Hd), (nonce_at_eq h w' i' d t Hd'). specialize (Ha i').
  destruct (aget N.eqb i' (w_issuers w)) as [s|]; destruct (aget N.eqb i' (w_issuers w')) as [s'|]; try contradiction; [|reflexivity].
  destruct (existsb (N.eqb d) (h_idents h)); [|reflexivity]. destruct (existsb (Z.eqb t) (h_topics h)); [|reflexivity].
  cbn [opt_eqb]. apply Z.eqb_eq. symmetry. destruct (N.eqb i' i) eqn:Ei.
  - apply N.eqb_eq in Ei. subst i'. apply (Hp s s' d t Ha Ex).
  - subst s'. reflexivity.
Qed.

Lemma revocations_frame_model h w w' i exc (P : issuer -> issuer -> Prop) : dom h w -> dom h w' ->
  issuers_agree w w' i P ->
  (forall s s' q, P s s' -> exc i q = false ->
     is_claim_revoked s' (fst (fst q)) (snd (fst q)) (snd q) = is_claim_revoked s (fst (fst q)) (snd (fst q)) (snd q)) ->
  revocations_frame h (observe h w) (observe h w') exc = true.
Proof.
  intros Hd Hd' Ha Hp. unfold revocations_frame. rewrite forallb_forall. intros i' _.
  rewrite forallb_forall. intros q _.
  destruct (exc i' q) eqn:Ex; [reflexivity|]. cbn [orb].
  rewrite (revoked_at_eq h w i' q Hd), (revoked_at_eq h w' i' q Hd'). specialize (Ha i').
  destruct (aget N.eqb i' (w_issuers w)) as [s|]; destruct (aget N.eqb i' (w_issuers w')) as [s'|]; try contradiction; [|reflexivity].
  destruct (existsb (rkey_eqb q) (h_revq h)); [|reflexivity].
  cbn [opt_eqb]. apply Bool.eqb_true_iff. symmetry. destruct (N.eqb i' i) eqn:Ei.
  - apply N.eqb_eq in Ei. subst i'. apply (Hp s s' q Ha Ex).
  - subst s'. reflexivity.
Qed.

Definition is_time (k : call) : bool := match k with Advance _ | Ledger _ _ => true | _ => false end.

Lemma mon_call_model_core h w k prev : is_time k = false -> dom h w -> (prev = None \/ prev = Some (observe h w)) ->
  let wo := step (cfg_of h) w k in
  dom h (fst wo) -> mon_call h prev k (snd wo) (observe h (fst wo)) = true.
Proof.
  intros Hnt Hd Hp wo Hd'. unfold mon_call. destruct k; try reflexivity; try discriminate.
  - (* Invalidate *)
    destruct (snd wo) eqn:Eo; [|reflexivity]. destruct Hp as [-> | ->]; [reflexivity|].
    subst wo. cbn [step] in *. unfold upd in *.
    destruct (the_issuer w i) as [s|] eqn:Es; cbn [bind fst snd] in *; [|discriminate].
    destruct (invalidate_claim_signatures s d topic) as [s1|] eqn:Ei; cbn [fst snd] in *; [|discriminate].
    destruct (nonce_after_invalidate _ _ _ _ Ei) as [E [_ [Hoth _]]].
    pose proof (issuers_agree_set w i s s1 (fun a b => invalidate_claim_signatures a d topic = Ok b) Es Ei) as Hag.
    rewrite !andb_true_iff. split; [split|].
    + rewrite (nonce_at_eq h w i d topic Hd), (nonce_at_eq h _ i d topic Hd').
      cbn [set_issuer w_issuers]. rewrite (aget_aset_eq _ N_eqb_spec). apply the_issuer_get in Es. rewrite Es.
      destruct (existsb (N.eqb d) (h_idents h)); [|reflexivity]. destruct (existsb (Z.eqb topic) (h_topics h)); [|reflexivity].
      rewrite E. apply Z.eqb_refl.
    + apply (nonces_frame_model h w _ i _ _ Hd Hd' Hag). intros sa sb d' t' Hab Hex.
      destruct (nonce_after_invalidate _ _ _ _ Hab) as [_ [_ [Ho _]]]. apply Ho.
      intros Heq. inversion Heq. subst. rewrite !N.eqb_refl, Z.eqb_refl in Hex. discriminate.
    + apply (revocations_frame_model h w _ i _ _ Hd Hd' Hag). intros sa sb q Hab _. eapply revoked_after_invalidate; eauto.
  - (* SetRevoked *)
    destruct (snd wo) eqn:Eo; [|reflexivity].
    subst wo. cbn [step] in *. unfold upd in *.
    destruct (the_issuer w i) as [s|] eqn:Es; cbn [bind fst snd] in *; [|discriminate].
    pose proof (issuers_agree_set w i s _ (fun a b => b = set_claim_revoked a d topic data revoked) Es eq_refl) as Hag.
    rewrite andb_true_iff. split.
    + rewrite (revoked_at_eq h _ i (d, topic, data) Hd'). cbn [set_issuer w_issuers]. rewrite (aget_aset_eq _ N_eqb_spec).
      destruct (existsb (rkey_eqb (d, topic, data)) (h_revq h)); [|reflexivity]. cbn [fst snd].
      rewrite revoked_after_set, (eqb_refl_of _ rkey_eqb_spec). apply Bool.eqb_reflx.
    + destruct Hp as [-> | ->]; [reflexivity|]. rewrite andb_true_iff. split.
      * apply (nonces_frame_model h w _ i _ _ Hd Hd' Hag). intros sa sb d' t' -> _. reflexivity.
      * apply (revocations_frame_model h w _ i _ _ Hd Hd' Hag). intros sa sb q -> Hex.
        rewrite revoked_after_set. rewrite N.eqb_refl in Hex. cbn [andb] in Hex.
        destruct q as [[qd qt] qx]. cbn [fst snd]. rewrite Hex. reflexivity.
Qed.

(* ---------------- the model does not differ from itself ---------------- *)
Lemma list_eqb_refl {A} (e : A -> A -> bool) : (forall x, e x x = true) -> forall l, list_eqb e l l = true.
Proof. intros H l. induction l; cbn; auto. rewrite H, IHl. reflexivity. Qed.
Lemma res_eqb_refl {A} (e : A -> A -> bool) : (forall x, e x x = true) -> forall r, res_eqb e r r = true.
Proof. intros H [x|]; cbn; auto. Qed.
Lemma opt_eqb_refl {A} (e : A -> A -> bool) : (forall x, e x x = true) -> forall r, opt_eqb e r r = true.
Proof. intros H [x|]; cbn; auto. Qed.
Lemma pair_eqb_refl {A B} (ea : A -> A -> bool) (eb : B -> B -> bool) :
  (forall x, ea x x = true) -> (forall x, eb x x = true) -> forall p, pair_eqb ea eb p p = true.
Proof. intros Ha Hb [a b]. unfold pair_eqb. cbn. rewrite Ha, Hb. reflexivity. Qed.
Lemma rb_eqb_refl x : rb_eqb x x = true. Proof. destruct x; reflexivity. Qed.
Lemma bytes_eqb_refl x : bytes_eqb x x = true. Proof. apply list_eqb_refl. apply Z.eqb_refl. Qed.
Lemma cid_eqb_refl x : cid_eqb x x = true. Proof. apply (eqb_refl_of _ cid_eqb_spec). Qed.
Lemma skey_eqb_refl x : skey_eqb x x = true. Proof. apply (eqb_refl_of _ skey_eqb_spec). Qed.
Lemma rkey_eqb_refl x : rkey_eqb x x = true. Proof. apply (eqb_refl_of _ rkey_eqb_spec). Qed.
Lemma claim_eqb_refl x : claim_eqb x x = true.
Proof. unfold claim_eqb. rewrite !Z.eqb_refl, N.eqb_refl, !bytes_eqb_refl. reflexivity. Qed.
Lemma info_eqb_refl x : info_eqb x x = true.
Proof.
  destruct x as [[ka r] n]. unfold info_eqb. cbn. rewrite (opt_eqb_refl _ Bool.eqb_reflx), Bool.eqb_reflx, Z.eqb_refl. reflexivity.
Qed.
Lemma cdetail_eqb_refl x : cdetail_eqb x x = true.
Proof. unfold cdetail_eqb. rewrite claim_eqb_refl, Bool.eqb_reflx, (opt_eqb_refl _ info_eqb_refl). reflexivity. Qed.

Lemma obs_eqb_refl o : obs_eqb o o = true.
Proof.
  unfold obs_eqb. rewrite Z.eqb_refl. cbn [andb].
  assert (H1 : forall x, cti_obs_eqb x x = true).
  { intros x. unfold cti_obs_eqb.
    rewrite (list_eqb_refl _ Z.eqb_refl), (list_eqb_refl _ N.eqb_refl),
      (list_eqb_refl _ (res_eqb_refl _ (list_eqb_refl _ N.eqb_refl))),
      (list_eqb_refl _ (res_eqb_refl _ (list_eqb_refl _ Z.eqb_refl))),
      (res_eqb_refl _ (list_eqb_refl _ (pair_eqb_refl _ _ Z.eqb_refl (list_eqb_refl _ N.eqb_refl)))),
      (list_eqb_refl _ Bool.eqb_reflx), (list_eqb_refl _ (list_eqb_refl _ rb_eqb_refl)). reflexivity. }
  assert (H2 : forall x, irs_obs_eqb x x = true).
  { intros x. unfold irs_obs_eqb.
    rewrite (list_eqb_refl _ (res_eqb_refl _ N.eqb_refl)), (list_eqb_refl _ (opt_eqb_refl _ N.eqb_refl)). reflexivity. }
  assert (H3 : forall x, ident_obs_eqb x x = true).
  { intros x. unfold ident_obs_eqb.
    rewrite (list_eqb_refl _ (list_eqb_refl _ cid_eqb_refl)),
      (list_eqb_refl _ (list_eqb_refl _ (opt_eqb_refl _ cdetail_eqb_refl))). reflexivity. }
  assert (H4 : forall x, issuer_obs_eqb x x = true).
  { intros x. unfold issuer_obs_eqb.
    rewrite (list_eqb_refl _ (res_eqb_refl _ (list_eqb_refl _ skey_eqb_refl))),
      (list_eqb_refl _ (res_eqb_refl _ (list_eqb_refl _ N.eqb_refl))),
      (list_eqb_refl _ (list_eqb_refl _ Z.eqb_refl)),
      (list_eqb_refl _ (pair_eqb_refl _ _ rkey_eqb_refl Bool.eqb_reflx)). reflexivity. }
  rewrite (list_eqb_refl _ H1), (list_eqb_refl _ H2), (list_eqb_refl _ H3), (list_eqb_refl _ H4).
  unfold ver_obs_eqb. rewrite !(opt_eqb_refl _ N.eqb_refl), (list_eqb_refl _ Bool.eqb_reflx). reflexivity.
Qed.
Lemma outcome_eqb_refl out : outcome_eqb out out = true.
Proof.
  apply res_eqb_refl. intros [ | b | b | id | p s r | ca vu p | oa]; cbn;
    rewrite ?Bool.eqb_reflx, ?bytes_eqb_refl, ?cid_eqb_refl, ?Z.eqb_refl, ?(opt_eqb_refl _ N.eqb_refl); reflexivity.
Qed.

Lemma list_eqb_map2 {A B} (e : B -> B -> bool) (f g : A -> B) l :
  (forall x, e (f x) (g x) = true) -> list_eqb e (map f l) (map g l) = true.
Proof. intros H. induction l; cbn; auto. rewrite H, IHl. reflexivity. Qed.

(* a step that only moves the clock leaves every stored item observed as before *)
Lemma static_model h w w' :
  w_ctis w' = w_ctis w -> w_irss w' = w_irss w -> w_idents w' = w_idents w -> w_issuers w' = w_issuers w ->
  w_vcti w' = w_vcti w -> w_virs w' = w_virs w -> static_eqb (observe h w) (observe h w') = true.
Proof.
  intros E1 E2 E3 E4 E5 E6. unfold static_eqb, observe. cbn [o_ctis o_irss o_idents o_issuers o_ver vo_cti vo_irs].
  rewrite E1, E2, E3, E4, E5, E6.
  assert (H1 : forall x, cti_obs_eqb x x = true) by (intros x; pose proof (obs_eqb_refl (OBS 0 [x] [] [] [] (VO None None []))) as X;
    unfold obs_eqb in X; cbn in X; rewrite !andb_true_r in X; exact X).
  assert (H2 : forall x, irs_obs_eqb x x = true) by (intros x; pose proof (obs_eqb_refl (OBS 0 [] [x] [] [] (VO None None []))) as X;
    unfold obs_eqb in X; cbn in X; rewrite !andb_true_r in X; exact X).
  assert (H4 : forall x, issuer_obs_eqb x x = true) by (intros x; pose proof (obs_eqb_refl (OBS 0 [] [] [] [x] (VO None None []))) as X;
    unfold obs_eqb in X; cbn in X; rewrite !andb_true_r in X; exact X).
  rewrite (list_eqb_refl _ H1), (list_eqb_refl _ H2), (list_eqb_refl _ H4), !(opt_eqb_refl _ N.eqb_refl). cbn [andb].
  rewrite !andb_true_r. apply list_eqb_map2. intros d.
  unfold observe_ident. cbn [do_ids do_claims]. rewrite (list_eqb_refl _ (list_eqb_refl _ cid_eqb_refl)). cbn [andb].
  rewrite !map_map. apply list_eqb_map2. intros i. rewrite !map_map. apply list_eqb_map2. intros t.
  unfold observe_cell. destruct (get_claim _ (i, t)) as [cl|]; cbn [strip_cd]; [|reflexivity].
  cbn [cd_claim cd_info]. unfold the_issuer. rewrite E4. cbn [opt_eqb].
  apply (pair_eqb_refl _ _ claim_eqb_refl (opt_eqb_refl _ info_eqb_refl)).
Qed.

Lemma mon_call_model h w k prev : dom h w -> (prev = None \/ prev = Some (observe h w)) ->
  let wo := step (cfg_of h) w k in
  dom h (fst wo) -> mon_call h prev k (snd wo) (observe h (fst wo)) = true.
Proof.
  intros Hd Hp wo Hd'. destruct (is_time k) eqn:Et; [|apply mon_call_model_core; auto].
  destruct k; try discriminate; subst wo; cbn [step fst snd mon_call];
    (destruct Hp as [-> | ->]; [reflexivity | apply static_model; reflexivity]).
Qed.

Lemma observe_set_revq h w : observe (set_revq h (revq_of (observe h w))) w = observe h w.
Proof.
  destruct h as [net now0 xdr sigs mt mi mk mr mc ctis irss idents issuers accounts iaddrs topics keys revq].
  unfold revq_of. cbn [observe o_issuers h_issuers].
  destruct issuers as [|a rest]; [reflexivity|].
  cbn [map observe_issuer so_revoked h_revq]. rewrite map_map. cbn [fst]. rewrite map_id. reflexivity.
Qed.

Lemma diff_model h ks : forall w i, diff_from h w (model_trace h w ks) i = 0%N.
Proof.
  induction ks as [|k r IH]; intros w i; cbn [model_trace diff_from]; [reflexivity|].
  destruct (step (cfg_of h) w k) as [w' out] eqn:E. cbn [fst snd].
  rewrite observe_set_revq, outcome_eqb_refl, obs_eqb_refl. cbn [andb]. apply IH.
Qed.

(* ---------------- the ghost authorisations of the monitor ---------------- *)
Definition ghost_ok (w : world) (g : list grant) : Prop :=
  forall i k t r, In (i, k, t, r) g <-> exists s, aget N.eqb i (w_issuers w) = Some s /\ In (t, r) (pairs_of s k).

Lemma grant_eqb_spec : eqb_spec grant_eqb.
Proof.
  intros [[[i1 k1] t1] r1] [[[i2 k2] t2] r2]. unfold grant_eqb.
  rewrite !andb_true_iff, !N.eqb_eq, Z.eqb_eq, (skey_eqb_spec k1 k2).
  split; [intros [[[-> ->] ->] ->]; reflexivity | intros E; inversion E; auto].
Qed.

Lemma ghost_ok_init h : ghost_ok (init_of h) [].
Proof.
  intros i k t r. split; [intros []|]. intros [s [Es Hin]]. cbn in Es. apply aget_init in Es. subst s.
  unfold pairs_of in Hin. cbn in Hin. destruct Hin.
Qed.
Lemma ghost_ok_issuers w w' g : w_issuers w' = w_issuers w -> ghost_ok w g -> ghost_ok w' g.
Proof. intros E H i k t r. rewrite E. apply H. Qed.
Lemma ghost_ok_set_same w i s s' g : the_issuer w i = Ok s -> is_pairs s' = is_pairs s ->
  ghost_ok w g -> ghost_ok (set_issuer w i s') g.
Proof.
  intros Es Ep H i' k t r. rewrite (H i' k t r). cbn [set_issuer w_issuers]. rewrite (aget_aset _ N_eqb_spec).
  apply the_issuer_get in Es. destruct (N.eqb i' i) eqn:Ei; [|tauto].
  apply N.eqb_eq in Ei. subst i'. unfold pairs_of. split.
  - intros [s1 [E1 Hin]]. rewrite Es in E1. inversion E1. subst s1. exists s'. rewrite Ep. auto.
  - intros [s1 [E1 Hin]]. inversion E1. subst s1. exists s. rewrite <- Ep. auto.
Qed.

Lemma step_ghost_ok c w k g : world_inv w -> ghost_ok w g ->
  ghost_ok (fst (step c w k)) (ghost_step g k (snd (step c w k))).
Proof.
  intros Hw Hg. destruct (step c w k) as [w' out] eqn:E. cbn [fst snd].
  assert (Hsame : forall w1, w_issuers w1 = w_issuers w -> ghost_ok w1 g) by (intros w1 F; apply (ghost_ok_issuers w); auto).
  destruct k; cbn [step] in E; cbn [ghost_step];
    try (unfold pure in E; inversion E; subst; exact Hg);
    try (inversion E; subst; apply Hsame; reflexivity);
    try (unfold upd in E; match type of E with (match ?x with _ => _ end) = _ => destruct x end; inversion E; subst; solve [apply Hsame; reflexivity | exact Hg]).
  - (* AddClaim *)
    match type of E with (match ?x with _ => _ end) = _ => destruct x as [[s' id]|] end; inversion E; subst; [apply Hsame; reflexivity | exact Hg].
  - (* AllowKey *)
    unfold upd in E. destruct (the_issuer w i) as [s|] eqn:Es; cbn [bind] in E; [|inversion E; subst; exact Hg].
    destruct (allow_key c s pk registry scheme topic (call_has_claim_topic w registry i topic)) as [s'|] eqn:Ea;
      inversion E; subst; [|exact Hg]. clear E.
    pose proof (allow_key_pairs _ _ _ _ _ _ _ _ Ea) as Hp. apply the_issuer_get in Es.
    intros i' k' t' r'. cbn [In set_issuer w_issuers]. rewrite (aget_aset _ N_eqb_spec), (Hg i' k' t' r'). split.
    + intros [Hx|[s1 [E1 Hin]]].
      * inversion Hx. subst. rewrite N.eqb_refl. exists s'. split; auto. rewrite Hp, (eqb_refl_of _ skey_eqb_spec).
        apply In_app_single. right. reflexivity.
      * destruct (N.eqb i' i) eqn:Ei; [|exists s1; auto].
        apply N.eqb_eq in Ei. subst i'. rewrite Es in E1. inversion E1. subst s1. exists s'. split; auto.
        rewrite Hp. destruct (skey_eqb k' (pk, scheme)) eqn:Ek; auto.
        apply skey_eqb_spec in Ek. subst k'. apply In_app_single. left. exact Hin.
    + destruct (N.eqb i' i) eqn:Ei; [|intros [s1 [E1 Hin]]; right; exists s1; auto].
      apply N.eqb_eq in Ei. subst i'. intros [s1 [E1 Hin]]. inversion E1. subst s1. rewrite Hp in Hin.
      destruct (skey_eqb k' (pk, scheme)) eqn:Ek; [|right; exists s; auto].
      apply skey_eqb_spec in Ek. subst k'. apply In_app_single in Hin. destruct Hin as [Hin|Hin].
      * right. exists s. auto.
      * left. inversion Hin. reflexivity.
  - (* RemoveKey *)
    unfold upd in E. destruct (the_issuer w i) as [s|] eqn:Es; cbn [bind] in E; [|inversion E; subst; exact Hg].
    destruct (remove_key s pk registry scheme topic) as [s'|] eqn:Ea; inversion E; subst; [|exact Hg]. clear E.
    pose proof (wi_issuer w Hw _ _ (the_issuer_get _ _ _ Es)) as [Hk _].
    pose proof (remove_key_pairs _ _ _ _ _ _ Hk Ea) as Hp. apply the_issuer_get in Es.
    intros i' k' t' r'. rewrite filter_In, negb_true_iff, (eqb_false_of _ grant_eqb_spec), (Hg i' k' t' r').
    cbn [set_issuer w_issuers]. rewrite (aget_aset _ N_eqb_spec). destruct (N.eqb i' i) eqn:Ei.
    + apply N.eqb_eq in Ei. subst i'. split.
      * intros [[s1 [E1 Hin]] Hne]. rewrite Es in E1. inversion E1. subst s1. exists s'. split; auto.
        apply Hp. split; auto. intros [-> Hx]. inversion Hx. subst. apply Hne. reflexivity.
      * intros [s1 [E1 Hin]]. inversion E1. subst s1. apply Hp in Hin. destruct Hin as [Hin Hne]. split; [exists s; auto|].
        intros Hx. inversion Hx. subst. apply Hne. auto.
    + apply N.eqb_neq in Ei. split; [tauto|]. intros Hx. split; auto. intros Hy. inversion Hy. congruence.
  - (* Invalidate *)
    unfold upd in E. destruct (the_issuer w i) as [s|] eqn:Es; cbn [bind] in E; [|inversion E; subst; exact Hg].
    destruct (invalidate_claim_signatures s d topic) as [s'|] eqn:Ea; inversion E; subst; [|exact Hg].
    destruct (nonce_after_invalidate _ _ _ _ Ea) as [_ [_ [_ [_ [F2 _]]]]]. eapply ghost_ok_set_same; eauto.
  - (* SetRevoked *)
    unfold upd in E. destruct (the_issuer w i) as [s|] eqn:Es; cbn [bind] in E; inversion E; subst; [|exact Hg].
    eapply ghost_ok_set_same; eauto.
Qed.

Lemma keys_ok_model h w g : dom h w -> world_inv w -> ghost_ok w g -> keys_ok h (observe h w) g = true.
Proof.
  intros Hd Hw Hg. unfold keys_ok. cbn [observe o_issuers]. rewrite combine_map, forallb_forall.
  intros [i so] Hin. apply in_map_iff in Hin. destruct Hin as [i' [E Hi]]. inversion E. subst i' so. clear E. cbn [fst snd].
  assert (Hex : exists s, aget N.eqb i (w_issuers w) = Some s).
  { apply (dm_issuer h w Hd) in Hi. destruct (aget N.eqb i (w_issuers w)) as [s|]; [eauto | congruence]. }
  destruct Hex as [s Es]. rewrite (get_or_some _ _ _ _ Es).
  destruct (wi_issuer w Hw _ _ Es) as [Hk _].
  unfold observe_issuer at 1. cbn [so_keys]. rewrite combine_map, forallb_forall.
  intros [t rk] Hin. apply in_map_iff in Hin. destruct Hin as [t' [E _]]. inversion E. subst t' rk. clear E. cbn [fst snd].
  assert (Hl : (match get_keys_for_topic s t with Ok l => l | Fail => [] end) = keys_of s t).
  { unfold get_keys_for_topic, keys_of. destruct (aget Z.eqb t (is_topics s)); reflexivity. }
  rewrite Hl. apply andb_true_iff. split.
  - rewrite forallb_forall. intros k Hk'. apply (ki_iff s Hk) in Hk'. destruct Hk' as [r Hr].
    unfold granted. apply existsb_exists. exists (i, k, t, r). split.
    + apply Hg. exists s. auto.
    + unfold grant_for. rewrite N.eqb_refl, (eqb_refl_of _ skey_eqb_spec), Z.eqb_refl. reflexivity.
  - rewrite forallb_forall. intros [[[i' k'] t'] r'] Hx. cbn [fst snd].
    destruct (N.eqb i' i && (t' =? t)) eqn:Em; [|reflexivity]. cbn [negb orb].
    apply andb_true_iff in Em. destruct Em as [E1 E2]. apply N.eqb_eq in E1. apply Z.eqb_eq in E2. subst i' t'.
    apply Hg in Hx. destruct Hx as [s1 [Es1 Hr]]. rewrite Es in Es1. inversion Es1. subst s1.
    apply (existsb_eqb_In _ skey_eqb_spec). apply (ki_iff s Hk). exists r'. exact Hr.
Qed.

Lemma mon_model h ks : forall w prev g i,
  world_inv w -> dom h w -> closed h w -> ghost_ok w g -> forallb (wf_call h) ks = true ->
  (prev = None \/ prev = Some (observe h w)) ->
  mon_from h prev g (model_trace h w ks) i = 0%N.
Proof.
  induction ks as [|k r IH]; intros w prev g i Hw Hd Hc Hg Hwf Hp; cbn [model_trace mon_from]; [reflexivity|].
  cbn [forallb] in Hwf. apply andb_true_iff in Hwf. destruct Hwf as [Hk Hr].
  pose proof (step_world_inv (cfg_of h) w k Hw) as Hw'.
  pose proof (step_dom h w k Hd) as Hd'.
  pose proof (step_closed h w k Hk Hc) as Hc'.
  pose proof (step_ghost_ok (cfg_of h) w k g Hw Hg) as Hg'.
  rewrite (mon_state_model h _ Hw' Hd' Hc'), (keys_ok_model h _ _ Hd' Hw' Hg'), (mon_call_model h w k prev Hd Hp Hd'). cbn [andb].
  apply IH; auto.
Qed.

(* The monitor accepts every run of the model, and the model does not differ from itself. *)
Theorem check_accepts_model h ks :
  forallb (wf_call h) ks = true -> check (observe_model h ks) = (0%N, 0%N, 0%N).
Proof.
  intros Hwf. unfold check, observe_model.
  rewrite diff_model, (mon_model h ks (init_of h) None [] 0%N); auto.
  - unfold init_of. apply world_inv_init.
  - apply dom_init.
  - apply closed_init.
  - apply ghost_ok_init.
Qed.
