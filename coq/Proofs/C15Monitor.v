(* C15: the monitor (Run/C15.v) accepts every run of the model, and the model does not differ
   from itself: check (observe_model h calls) = (0, 0, 0). *)
From SC Require Import Lib.Prelude Lib.Int Lib.Host Model.ClaimIssuer Model.Identity Run.C15
  Proofs.C15Base Proofs.C15Bytes Proofs.C15Verify Proofs.C15Issuer Proofs.C15Registry Proofs.C15Ident
  Proofs.C15World Proofs.C15Extra.

(* the calls stay inside the universe the header declares (what the harness guarantees):
   topics that become required and issuers that become trusted are observed ones *)
Definition wf_call (h : hdr) (k : call) : bool :=
  match k with
  | AddTopic _ t => mem_z t (h_topics h)
  | AddIssuer _ i _ | RemoveIssuer _ i | UpdateIssuer _ i _ => mem_a i (h_iaddrs h)
  | AddIdentity _ a _ _ | ModifyIdentity _ a _ | RemoveIdentity _ a | Verify a | RecoveryTarget a => mem_a a (h_accounts h)
  | RecoverIdentity _ old new => mem_a old (h_accounts h) && mem_a new (h_accounts h)
  | AddClaim _ cl => id_in_universe h (cl_issuer cl, cl_topic cl)
  | RemoveClaim _ id => id_in_universe h id
  | ForceClaim _ id ix _ => id_in_universe h id && mem_z ix (h_topics h)
  | _ => true
  end.

(* ---------------- lookups in positional observations ---------------- *)
Lemma combine_map {A B} (f : A -> B) l : combine l (map f l) = map (fun a => (a, f a)) l.
Proof. induction l; cbn; congruence. Qed.
Lemma at_key_map {K V} (e : K -> K -> bool) (He : eqb_spec e) (f : K -> V) k ks :
  at_key e k ks (map f ks) = if existsb (e k) ks then Some (f k) else None.
Proof. unfold at_key. rewrite combine_map. apply aget_map_const. exact He. Qed.
Lemma at_key_map_in {K V} (e : K -> K -> bool) (He : eqb_spec e) (f : K -> V) k ks :
  In k ks -> at_key e k ks (map f ks) = Some (f k).
Proof. intros H. rewrite at_key_map by exact He. apply (existsb_eqb_In _ He) in H. rewrite H. reflexivity. Qed.
Lemma at_key_map_some {K V} (e : K -> K -> bool) (He : eqb_spec e) (f : K -> V) k ks v :
  at_key e k ks (map f ks) = Some v -> In k ks /\ v = f k.
Proof.
  rewrite at_key_map by exact He. destruct (existsb (e k) ks) eqn:E; [|discriminate].
  intros H. inversion H. split; auto. apply (existsb_eqb_In _ He). exact E.
Qed.

Ltac rw_lookup L := let X := fresh "X" in pose proof L as X; cbv beta in X; unfold addr in *; rewrite X; clear X.

(* ---------------- the set of contracts is fixed ---------------- *)
Definition dom_ok {S} (ks : list addr) (l : list (addr * S)) : Prop :=
  forall a, aget N.eqb a l <> None <-> In a ks.
Record dom (h : hdr) (w : world) : Prop := {
  dm_cti : dom_ok (h_ctis h) (w_ctis w);
  dm_irs : dom_ok (h_irss h) (w_irss w);
  dm_ident : dom_ok (h_idents h) (w_idents w);
  dm_issuer : dom_ok (h_issuers h) (w_issuers w)
}.
Lemma dom_ok_init {S} (s0 : S) ks : dom_ok ks (map (fun a => (a, s0)) ks).
Proof.
  intros a. rewrite (aget_map_const _ N_eqb_spec (fun _ => s0)). rewrite <- (existsb_eqb_In _ N_eqb_spec).
  destruct (existsb (N.eqb a) ks); split; congruence.
Qed.
Lemma dom_ok_set {S} ks (l : list (addr * S)) a s' : dom_ok ks l -> aget N.eqb a l <> None -> dom_ok ks (aset N.eqb a s' l).
Proof.
  intros H Ha a0. rewrite (aget_aset _ N_eqb_spec). destruct (N.eqb a0 a) eqn:E; [|apply H].
  apply N.eqb_eq in E. subst. split; [intros _; apply H; exact Ha | discriminate].
Qed.
Lemma dom_init h : dom h (init_of h).
Proof. constructor; cbn; apply dom_ok_init. Qed.

Lemma get_or_some {S} (d : S) a l s : aget N.eqb a l = Some s -> get_or d a l = s.
Proof. unfold get_or. intros ->. reflexivity. Qed.

Section Lookups.
  Variable h : hdr.
  Variable w : world.
  Hypothesis Hd : dom h w.
  Local Notation c := (cfg_of h).
  Local Notation o := (observe h w).

  Lemma at_contract {S O} (ks : list addr) (l : list (addr * S)) (d0 : S) (f : addr -> S -> O) a :
    dom_ok ks l ->
    at_key N.eqb a ks (map (fun a => f a (get_or d0 a l)) ks)
    = match aget N.eqb a l with Some s => Some (f a s) | None => None end.
  Proof.
    intros Hdom. rewrite (at_key_map _ N_eqb_spec (fun a => f a (get_or d0 a l))).
    destruct (aget N.eqb a l) as [s|] eqn:E.
    - assert (In a ks) as Hin by (apply Hdom; congruence).
      apply (existsb_eqb_In _ N_eqb_spec) in Hin. rewrite Hin. rewrite (get_or_some _ _ _ _ E). reflexivity.
    - destruct (existsb (N.eqb a) ks) eqn:Ex; auto.
      apply (existsb_eqb_In _ N_eqb_spec) in Ex. apply Hdom in Ex. congruence.
  Qed.

  Lemma cti_at_model a :
    cti_at h o a = match aget N.eqb a (w_ctis w) with Some s => Some (observe_cti h s) | None => None end.
  Proof. unfold cti_at, observe. cbn [o_ctis]. apply (at_contract _ _ cti0 (fun _ s => observe_cti h s)). apply (dm_cti h w Hd). Qed.
  Lemma irs_at_model a :
    irs_at h o a = match aget N.eqb a (w_irss w) with Some s => Some (observe_irs h s) | None => None end.
  Proof. unfold irs_at, observe. cbn [o_irss]. apply (at_contract _ _ irs0 (fun _ s => observe_irs h s)). apply (dm_irs h w Hd). Qed.
  Lemma ident_at_model a :
    ident_at h o a = match aget N.eqb a (w_idents w) with Some s => Some (observe_ident h c w a s) | None => None end.
  Proof. unfold ident_at, observe. cbn [o_idents]. apply (at_contract _ _ ident0 (fun a s => observe_ident h (cfg_of h) w a s)). apply (dm_ident h w Hd). Qed.
  Lemma issuer_at_model a :
    issuer_at h o a = match aget N.eqb a (w_issuers w) with Some s => Some (observe_issuer h s) | None => None end.
  Proof. unfold issuer_at, observe. cbn [o_issuers]. apply (at_contract _ _ issuer0 (fun _ s => observe_issuer h s)). apply (dm_issuer h w Hd). Qed.

  (* ---- trusted_for on the model's registry observation ---- *)
  Lemma trusted_for_model ct i t :
    trusted_for h (observe_cti h ct) i t = true <->
    (In i (h_iaddrs h) /\ In t (h_topics h) /\ is_trusted_issuer ct i = true /\ has_claim_topic ct i t = Ok true).
  Proof.
    unfold trusted_for, observe_cti. cbn [co_trusted co_has].
    rewrite (at_key_map _ N_eqb_spec (is_trusted_issuer ct)).
    rewrite (at_key_map _ N_eqb_spec (fun i => map (fun t => rb_of (has_claim_topic ct i t)) (h_topics h))).
    destruct (existsb (N.eqb i) (h_iaddrs h)) eqn:Ei.
    - apply (existsb_eqb_In _ N_eqb_spec) in Ei.
      destruct (is_trusted_issuer ct i) eqn:Et.
      + rewrite (at_key_map _ Z_eqb_spec (fun t => rb_of (has_claim_topic ct i t))).
        destruct (existsb (Z.eqb t) (h_topics h)) eqn:Ett.
        * apply (existsb_eqb_In _ Z_eqb_spec) in Ett.
          destruct (has_claim_topic ct i t) as [[]|]; cbn [rb_of]; split; try tauto; try discriminate;
            intros [_ [_ [_ Hx]]]; discriminate.
        * split; [discriminate|]. intros [_ [Hx _]]. apply (existsb_eqb_In _ Z_eqb_spec) in Hx. congruence.
      + split; [discriminate|]. intros [_ [_ [Hx _]]]. discriminate.
    - split; [discriminate|]. intros [Hx _]. apply (existsb_eqb_In _ N_eqb_spec) in Hx. congruence.
  Qed.

  (* ---- cells of an identity observation ---- *)
  Lemma cell_at_model d s i t : In i (h_iaddrs h) -> In t (h_topics h) ->
    cell_at h (observe_ident h c w d s) i t = observe_cell c w d s i t.
  Proof.
    intros Hi Ht. unfold cell_at, observe_ident. cbn [do_claims]. unfold addr in *.
    rewrite (at_key_map_in _ N_eqb_spec (fun i : N => map (observe_cell c w d s i) (h_topics h)) i _ Hi).
    rewrite (at_key_map_in _ Z_eqb_spec (observe_cell c w d s i) t _ Ht). reflexivity.
  Qed.
  Lemma cell_at_some d s i t cd : cell_at h (observe_ident h c w d s) i t = Some cd ->
    In i (h_iaddrs h) /\ In t (h_topics h) /\ observe_cell c w d s i t = Some cd.
  Proof.
    unfold cell_at, observe_ident. cbn [do_claims]. unfold addr in *.
    destruct (at_key N.eqb i (h_iaddrs h) (map (fun i : N => map (observe_cell c w d s i) (h_topics h)) (h_iaddrs h))) as [row|] eqn:E1; [|discriminate].
    apply (at_key_map_some _ N_eqb_spec) in E1. destruct E1 as [Hi ->].
    destruct (at_key Z.eqb t (h_topics h) (map (observe_cell c w d s i) (h_topics h))) as [x|] eqn:E2; [|discriminate].
    apply (at_key_map_some _ Z_eqb_spec) in E2. destruct E2 as [Ht ->]. auto.
  Qed.
  Lemma ids_at_model d s t : In t (h_topics h) ->
    ids_at h (observe_ident h c w d s) t = get_claim_ids_by_topic s t.
  Proof.
    intros Ht. unfold ids_at, observe_ident. cbn [do_ids].
    rewrite (at_key_map_in _ Z_eqb_spec (get_claim_ids_by_topic s) t _ Ht). reflexivity.
  Qed.

  Lemma observe_cell_some d s i t cd : observe_cell c w d s i t = Some cd ->
    exists cl, get_claim s (i, t) = Ok cl /\ cd_claim cd = cl /\
               cd_confirmed cd = is_ok (call_is_claim_valid c w i d t (cl_scheme cl) (cl_sig cl) (cl_data cl)).
  Proof.
    unfold observe_cell. destruct (get_claim s (i, t)) as [cl|]; [|discriminate].
    intros H. inversion H. exists cl. cbn. auto.
  Qed.

  (* ---- holds_valid on the model's observation ---- *)
  Lemma holds_valid_model d i t : In i (h_iaddrs h) -> In t (h_topics h) ->
    (Run.C15.holds_valid h o d i t = true <->
     exists s, the_ident w d = Ok s /\ Proofs.C15Verify.holds_valid c w s d i t).
  Proof.
    intros Hi Ht. unfold Run.C15.holds_valid. rewrite ident_at_model.
    unfold the_ident. destruct (aget N.eqb d (w_idents w)) as [s|] eqn:Es; cbn [of_option].
    - rewrite (ids_at_model d s t Ht), (cell_at_model d s i t Hi Ht). split.
      + intros H. apply andb_true_iff in H. destruct H as [H1 H2].
        exists s. split; auto. split; [apply (existsb_eqb_In _ cid_eqb_spec); exact H1|].
        destruct (observe_cell c w d s i t) as [cd|] eqn:Ec; [|discriminate].
        destruct (observe_cell_some _ _ _ _ _ Ec) as [cl [Eg [E1 E2]]].
        rewrite E1, E2 in H2. apply andb_true_iff in H2. destruct H2 as [H2 H3].
        apply andb_true_iff in H2. destruct H2 as [H2 H4].
        exists cl. repeat split; auto; [apply Z.eqb_eq; auto | apply N.eqb_eq; auto | apply res_unit; exact H3].
      + intros [s' [Es' [Hin [cl [Eg [E1 [E2 Hc]]]]]]]. inversion Es'. subst s'.
        apply andb_true_iff. split; [apply (existsb_eqb_In _ cid_eqb_spec); exact Hin|].
        unfold observe_cell. rewrite Eg. cbn [cd_claim cd_confirmed].
        rewrite E1, E2, Z.eqb_refl, N.eqb_refl. cbn [andb]. apply res_unit. exact Hc.
    - split; [discriminate | intros [s [Hx _]]; discriminate].
  Qed.

  (* ---- no dangling id under a required topic: what completeness needs ---- *)
  Lemma dangling_model ct d s t issuers :
    dangling h o (observe_cti h ct) d = false -> the_ident w d = Ok s -> In t (ct_topics ct) ->
    (forall i, In i issuers -> trusted_for h (observe_cti h ct) i t = true) -> index_sound_for s t issuers.
  Proof.
    intros Hx Es Ht Htr i Hi Hin. unfold dangling in Hx. rewrite ident_at_model in Hx.
    apply the_ident_get in Es. rewrite Es in Hx.
    destruct (get_claim s (i, t)) as [cl|] eqn:Eg; [exists cl; reflexivity|]. exfalso.
    assert (Hy : existsb (fun t0 => existsb (fun i0 => trusted_for h (observe_cti h ct) i0 t0
                  && existsb (cid_eqb (i0, t0)) (ids_at h (observe_ident h c w d s) t0)
                  && negb (is_some (cell_at h (observe_ident h c w d s) i0 t0))) (h_iaddrs h)) (co_topics (observe_cti h ct)) = true);
      [|rewrite Hx in Hy; discriminate].
    pose proof (Htr i Hi) as Htf. pose proof (proj1 (trusted_for_model ct i t) Htf) as [Hiu [Htu _]].
    apply existsb_exists. exists t. split; [unfold observe_cti; cbn [co_topics]; exact Ht|].
    apply existsb_exists. exists i. split; [exact Hiu|].
    rewrite Htf, (ids_at_model d s t Htu), (cell_at_model d s i t Hiu Htu). cbn [andb].
    apply andb_true_iff. split; [apply (existsb_eqb_In _ cid_eqb_spec); exact Hin|].
    unfold observe_cell. rewrite Eg. reflexivity.
  Qed.
End Lookups.

(* ---------------- required topics and trusted issuers stay inside the universe ---------------- *)
Definition cti_closed (h : hdr) (s : cti) : Prop :=
  (forall t, In t (ct_topics s) -> In t (h_topics h)) /\ (forall i, In i (ct_issuers s) -> In i (h_iaddrs h)).
Definition closed (h : hdr) (w : world) : Prop :=
  forall a s, aget N.eqb a (w_ctis w) = Some s -> cti_closed h s.

Lemma closed_init h : closed h (init_of h).
Proof. intros a s H. cbn in H. apply aget_init in H. subst. split; intros x []. Qed.

Lemma closed_set_cti h w a s' : closed h w -> cti_closed h s' -> closed h (set_cti w a s').
Proof.
  intros Hc Hs a0 s0. cbn [set_cti w_ctis]. rewrite (aget_aset _ N_eqb_spec).
  destruct (N.eqb a0 a); [intros E; inversion E; subst; exact Hs | apply Hc].
Qed.

Lemma step_closed h w k : wf_call h k = true -> closed h w -> closed h (fst (step (cfg_of h) w k)).
Proof.
  intros Hwf Hc. destruct (step (cfg_of h) w k) as [w' out] eqn:E. cbn [fst].
  assert (Hsame : forall w1, w_ctis w1 = w_ctis w -> closed h w1) by (intros w1 F a s; rewrite F; apply Hc).
  destruct k; cbn [step] in E; cbn [wf_call] in Hwf;
    try (unfold pure in E; inversion E; subst; exact Hc);
    try (inversion E; subst; apply Hsame; reflexivity);
    try (apply (upd_inv (closed h) _ _ _ _ _ E Hc); intros s0 _; apply Hsame; reflexivity).
  - (* AddTopic *) apply (upd_inv (closed h) _ _ _ _ _ E Hc). intros s Hs. apply bind_ok in Hs. destruct Hs as [s0 [E0 Hs]].
    apply closed_set_cti; auto. destruct (Hc _ _ (the_cti_get _ _ _ E0)) as [H1 H2].
    unfold add_claim_topic in Hs. destruct (_ <=? _); [discriminate|]. destruct (mem_z t (ct_topics s0)); [discriminate|].
    inversion Hs. split; cbn; auto. intros t' Ht'. apply In_app_single in Ht'. destruct Ht' as [Ht'| ->]; auto. apply mem_z_In. exact Hwf.
  - apply (upd_inv (closed h) _ _ _ _ _ E Hc). intros s Hs. apply bind_ok in Hs. destruct Hs as [s0 [E0 Hs]].
    apply closed_set_cti; auto. destruct (Hc _ _ (the_cti_get _ _ _ E0)) as [H1 H2].
    unfold remove_claim_topic in Hs. apply bind_ok in Hs. destruct Hs as [tp [Er Hs]]. apply of_option_ok in Er.
    inversion Hs. split; cbn; auto. intros t' Ht'. apply H1. eapply remove_first_incl; eauto.
  - (* AddIssuer *) apply (upd_inv (closed h) _ _ _ _ _ E Hc). intros s Hs. apply bind_ok in Hs. destruct Hs as [s0 [E0 Hs]].
    apply closed_set_cti; auto. destruct (Hc _ _ (the_cti_get _ _ _ E0)) as [H1 H2].
    unfold add_trusted_issuer in Hs. destruct (negb _); [discriminate|]. destruct (_ <=? _); [discriminate|].
    destruct (mem_a i (ct_issuers s0)); [discriminate|]. apply bind_ok in Hs. destruct Hs as [m [_ Hs]].
    inversion Hs. split; cbn; auto. intros i' Hi'. apply In_app_single in Hi'. destruct Hi' as [Hi'| ->]; auto. apply mem_a_In. exact Hwf.
  - apply (upd_inv (closed h) _ _ _ _ _ E Hc). intros s Hs. apply bind_ok in Hs. destruct Hs as [s0 [E0 Hs]].
    apply closed_set_cti; auto. destruct (Hc _ _ (the_cti_get _ _ _ E0)) as [H1 H2].
    unfold remove_trusted_issuer in Hs. apply bind_ok in Hs. destruct Hs as [is' [Er Hs]]. apply of_option_ok in Er.
    apply bind_ok in Hs. destruct Hs as [its [_ Hs]]. apply bind_ok in Hs. destruct Hs as [m [_ Hs]].
    inversion Hs. split; cbn; auto. intros i' Hi'. apply H2. eapply remove_first_incl; eauto.
  - apply (upd_inv (closed h) _ _ _ _ _ E Hc). intros s Hs. apply bind_ok in Hs. destruct Hs as [s0 [E0 Hs]].
    apply closed_set_cti; auto. destruct (Hc _ _ (the_cti_get _ _ _ E0)) as [H1 H2].
    unfold update_issuer_claim_topics in Hs. destruct (negb _); [discriminate|]. destruct (negb _); [discriminate|].
    apply bind_ok in Hs. destruct Hs as [old [_ Hs]]. apply bind_ok in Hs. destruct Hs as [m1 [_ Hs]].
    apply bind_ok in Hs. destruct Hs as [m2 [_ Hs]]. inversion Hs. split; cbn; auto.
  - (* AddClaim *)
    destruct (do s <- the_ident w d; add_claim s cl _) as [[s' id]|]; inversion E; subst; auto; apply Hsame; reflexivity.
Qed.

Lemma step_dom h w k : dom h w -> dom h (fst (step (cfg_of h) w k)).
Proof.
  intros Hd. destruct (step (cfg_of h) w k) as [w' out] eqn:E. cbn [fst].
  assert (Hsame : forall w1, w_ctis w1 = w_ctis w -> w_irss w1 = w_irss w -> w_idents w1 = w_idents w ->
                             w_issuers w1 = w_issuers w -> dom h w1).
  { intros w1 F1 F2 F3 F4. destruct Hd. constructor; [rewrite F1 | rewrite F2 | rewrite F3 | rewrite F4]; auto. }
  assert (Hcti : forall a s0 s1, the_cti w a = Ok s0 -> dom h (set_cti w a s1)).
  { intros a s0 s1 E0. destruct Hd. constructor; cbn [set_cti w_ctis w_irss w_idents w_issuers]; auto.
    apply dom_ok_set; auto. apply the_cti_get in E0. congruence. }
  assert (Hirs : forall a s0 s1, the_irs w a = Ok s0 -> dom h (set_irs w a s1)).
  { intros a s0 s1 E0. destruct Hd. constructor; cbn [set_irs w_ctis w_irss w_idents w_issuers]; auto.
    apply dom_ok_set; auto. unfold the_irs in E0. apply of_option_ok in E0. congruence. }
  assert (Hid : forall a s0 s1, the_ident w a = Ok s0 -> dom h (set_ident w a s1)).
  { intros a s0 s1 E0. destruct Hd. constructor; cbn [set_ident w_ctis w_irss w_idents w_issuers]; auto.
    apply dom_ok_set; auto. apply the_ident_get in E0. congruence. }
  assert (His : forall a s0 s1, the_issuer w a = Ok s0 -> dom h (set_issuer w a s1)).
  { intros a s0 s1 E0. destruct Hd. constructor; cbn [set_issuer w_ctis w_irss w_idents w_issuers]; auto.
    apply dom_ok_set; auto. apply the_issuer_get in E0. congruence. }
  destruct k; cbn [step] in E;
    try (unfold pure in E; inversion E; subst; exact Hd);
    try (inversion E; subst; apply Hsame; reflexivity);
    try (apply (upd_inv (dom h) _ _ _ _ _ E Hd); intros s Hs; apply bind_ok in Hs; destruct Hs as [s0 [E0 Hs]]; eauto).
  destruct (do s <- the_ident w d; add_claim s cl _) as [[s' id]|] eqn:Ea; inversion E; subst; auto.
  apply bind_ok in Ea. destruct Ea as [s0 [E0 _]]. eauto.
Qed.

(* ---------------- part 1 of the monitor: verify_identity ---------------- *)
Section VerifyOk.
  Variable h : hdr.
  Variable w : world.
  Hypothesis Hw : world_inv w.
  Hypothesis Hd : dom h w.
  Hypothesis Hc : closed h w.
  Local Notation c := (cfg_of h).
  Local Notation o := (observe h w).

  Lemma topic_satisfied_model ct d t : cti_closed h ct -> In t (ct_topics ct) ->
    (topic_satisfied h o (observe_cti h ct) d t = true <-> covered_by_trusted_issuer c w ct d t).
  Proof.
    intros [Hc1 Hc2] Ht. pose proof (Hc1 t Ht) as Htu. unfold topic_satisfied. rewrite existsb_exists. split.
    - intros [i [Hi Hx]]. apply andb_true_iff in Hx. destruct Hx as [H1 H2].
      apply trusted_for_model in H1. destruct H1 as [_ [_ [Htr Hhas]]].
      apply (holds_valid_model h w Hd d i t Hi Htu) in H2. destruct H2 as [s [Es [Hin [cl [Eg [E1 [E2 Hcf]]]]]]].
      exists i, s, cl. repeat split; auto.
    - intros [i [s [cl [Htr [Hhas [Es [Hin [Eg [E1 [E2 Hcf]]]]]]]]]].
      assert (Hi : In i (h_iaddrs h)) by (apply Hc2; apply mem_a_In; exact Htr).
      exists i. split; auto. apply andb_true_iff. split.
      + apply trusted_for_model. auto.
      + apply (holds_valid_model h w Hd d i t Hi Htu). exists s. split; auto. split; auto. exists cl. auto.
  Qed.

  Lemma expected_main a ra r d ca ct : In a (h_accounts h) ->
    w_virs w = Some ra -> the_irs w ra = Ok r -> stored_identity r a = Ok d ->
    w_vcti w = Some ca -> the_cti w ca = Ok ct ->
    expected_verify h o a = (forallb (topic_satisfied h o (observe_cti h ct) d) (ct_topics ct), negb (dangling h o (observe_cti h ct) d)).
  Proof.
    intros Ha E1 E2 E3 E4 E5. unfold expected_verify. cbn [o_ver observe vo_irs vo_cti]. rewrite E1, E4.
    rewrite (irs_at_model h w Hd), (cti_at_model h w Hd).
    unfold the_irs in E2. apply of_option_ok in E2. rewrite E2. apply the_cti_get in E5. rewrite E5.
    unfold observe_irs at 1. cbn [io_stored].
    rw_lookup (at_key_map_in _ N_eqb_spec (stored_identity r) a _ Ha). rewrite E3. reflexivity.
  Qed.

  Lemma expected_true_inv a : fst (expected_verify h o a) = true ->
    exists ra r d ca ct, w_virs w = Some ra /\ the_irs w ra = Ok r /\ stored_identity r a = Ok d /\
                         w_vcti w = Some ca /\ the_cti w ca = Ok ct.
  Proof.
    unfold expected_verify. cbn [o_ver observe vo_irs vo_cti].
    destruct (w_virs w) as [ra|] eqn:E1; [|discriminate]. destruct (w_vcti w) as [ca|] eqn:E4; [|discriminate].
    rewrite (irs_at_model h w Hd), (cti_at_model h w Hd).
    destruct (aget N.eqb ra (w_irss w)) as [r|] eqn:E2; [|discriminate].
    destruct (aget N.eqb ca (w_ctis w)) as [ct|] eqn:E5; [|discriminate].
    unfold observe_irs at 1. cbn [io_stored].
    match goal with |- context [at_key ?e ?k ?ks ?vs] => destruct (at_key e k ks vs) as [x|] eqn:E3; [|discriminate] end.
    apply (at_key_map_some _ N_eqb_spec) in E3. destruct E3 as [_ ->].
    destruct (stored_identity r a) as [d|] eqn:E3; [|discriminate]. intros _.
    exists ra, r, d, ca, ct. unfold the_irs, the_cti. rewrite E2, E5. auto.
  Qed.

  Lemma verify_ok_model : verify_ok h o = true.
  Proof.
    unfold verify_ok. cbn [o_ver observe vo_verify]. rewrite combine_map, forallb_forall.
    intros [a v] Hin. apply in_map_iff in Hin. destruct Hin as [a' [Ea Ha]]. inversion Ea. subst a' v. clear Ea. cbn [fst snd].
    destruct (expected_verify h o a) as [e exact] eqn:Ee.
    (* soundness direction *)
    assert (Hs : is_ok (verify_identity c w a) = true -> e = true).
    { intros Hv. apply res_unit in Hv. apply verify_sound in Hv. destruct Hv as [d [m [Hview Hcov]]].
      pose proof (spec_of_view c w a d m Hw Hview Hcov) as [ra [r [d' [ca [ct [E1 [E2 [E3 [E4 [E5 Hall]]]]]]]]]].
      rewrite (expected_main a ra r d' ca ct Ha E1 E2 E3 E4 E5) in Ee. inversion Ee.
      apply forallb_forall. intros t Ht. apply topic_satisfied_model; auto. apply (Hc _ _ (the_cti_get _ _ _ E5)). }
    (* completeness direction *)
    assert (Hcm : exact = true -> e = true -> is_ok (verify_identity c w a) = true).
    { intros Hex He. assert (He' : fst (expected_verify h o a) = true) by (rewrite Ee; exact He).
      destruct (expected_true_inv a He') as [ra [r [d [ca [ct [E1 [E2 [E3 [E4 E5]]]]]]]]].
      rewrite (expected_main a ra r d ca ct Ha E1 E2 E3 E4 E5) in Ee. injection Ee as Ee1 Ee2.
      rewrite <- Ee1 in He. rewrite <- Ee2 in Hex. clear Ee1 Ee2 He'.
      pose proof (Hc _ _ (the_cti_get _ _ _ E5)) as Hcl.
      assert (Hspec : verified_spec c w a).
      { exists ra, r, d, ca, ct. repeat split; auto. intros t Ht. rewrite forallb_forall in He.
        apply (topic_satisfied_model ct d t Hcl Ht). apply He. exact Ht. }
      destruct (view_of_spec c w a Hw Hspec) as [d' [m [Hview Hcov]]].
      apply res_unit. apply (verify_complete_for c w a d' m Hview); auto.
      (* the index is sound for what verify_identity looks at *)
      assert (d' = d) as ->.
      { destruct Hview as [ra' [r' [ca' [ct' [F1 [F2 [F3 _]]]]]]]. rewrite E1 in F1. inversion F1. subst ra'.
        rewrite E2 in F2. inversion F2. subst r'. rewrite E3 in F3. inversion F3. reflexivity. }
      intros s t issuers Es Hin.
      destruct Hview as [ra' [r' [ca' [ct' [_ [_ [_ [F4 [F5 F6]]]]]]]]].
      rewrite E4 in F4. inversion F4. subst ca'. rewrite E5 in F5. inversion F5. subst ct'.
      pose proof (wi_cti w Hw _ _ (the_cti_get _ _ _ E5)) as Hinv.
      destruct (topics_and_issuers_reading ct Hinv) as [m' [Em [Hm1 Hm2]]]. rewrite F6 in Em. inversion Em. subst m'.
      destruct (proj1 (Hm1 t issuers) Hin) as [Ht _]. destruct Hcl as [Hc1 Hc2].
      apply negb_true_iff in Hex.
      apply (dangling_model h w Hd ct d s t issuers Hex Es Ht).
      intros i Hi. apply (Hm2 _ _ Hin) in Hi. destruct Hi as [Htr Hhas].
      apply trusted_for_model. repeat split; auto. apply Hc2. apply mem_a_In. exact Htr. }
    destruct exact.
    - destruct (is_ok (verify_identity c w a)) eqn:Ev; destruct e; auto;
        try (specialize (Hs eq_refl); discriminate); try (specialize (Hcm eq_refl eq_refl); discriminate).
    - destruct (is_ok (verify_identity c w a)) eqn:Ev; destruct e; auto;
        try (specialize (Hs eq_refl); discriminate).
  Qed.
End VerifyOk.

(* ---------------- reflexivity of the boolean equalities ---------------- *)
Lemma list_eqb_refl {A} (e : A -> A -> bool) : (forall x, e x x = true) -> forall l, list_eqb e l l = true.
Proof. intros H l. induction l; cbn; auto. rewrite H, IHl. reflexivity. Qed.
Lemma res_eqb_refl {A} (e : A -> A -> bool) : (forall x, e x x = true) -> forall r, res_eqb e r r = true.
Proof. intros H [x|]; cbn; auto. Qed.
Lemma opt_eqb_refl {A} (e : A -> A -> bool) : (forall x, e x x = true) -> forall r, opt_eqb e r r = true.
Proof. intros H [x|]; cbn; auto. Qed.
Lemma pair_eqb_refl {A B} (ea : A -> A -> bool) (eb : B -> B -> bool) :
  (forall x, ea x x = true) -> (forall x, eb x x = true) -> forall p, pair_eqb ea eb p p = true.
Proof. intros Ha Hb [a b]. unfold pair_eqb. cbn. rewrite Ha, Hb. reflexivity. Qed.
Lemma rb_eqb_refl x : rb_eqb x x = true. Proof. destruct x; reflexivity. Qed.
Lemma bytes_eqb_refl x : bytes_eqb x x = true. Proof. apply list_eqb_refl. apply Z.eqb_refl. Qed.
Lemma cid_eqb_refl x : cid_eqb x x = true. Proof. apply (eqb_refl_of _ cid_eqb_spec). Qed.
Lemma skey_eqb_refl x : skey_eqb x x = true. Proof. apply (eqb_refl_of _ skey_eqb_spec). Qed.
Lemma rkey_eqb_refl x : rkey_eqb x x = true. Proof. apply (eqb_refl_of _ rkey_eqb_spec). Qed.
Lemma claim_eqb_refl x : claim_eqb x x = true.
Proof. unfold claim_eqb. rewrite !Z.eqb_refl, N.eqb_refl, !bytes_eqb_refl. reflexivity. Qed.
Lemma info_eqb_refl x : info_eqb x x = true.
Proof.
  destruct x as [[ka r] n]. unfold info_eqb. cbn. rewrite (opt_eqb_refl _ Bool.eqb_reflx), Bool.eqb_reflx, Z.eqb_refl. reflexivity.
Qed.
Lemma cdetail_eqb_refl x : cdetail_eqb x x = true.
Proof. unfold cdetail_eqb. rewrite claim_eqb_refl, Bool.eqb_reflx, (opt_eqb_refl _ info_eqb_refl). reflexivity. Qed.

Lemma obs_eqb_refl o : obs_eqb o o = true.
Proof.
  unfold obs_eqb. rewrite Z.eqb_refl. cbn [andb].
  assert (H1 : forall x, cti_obs_eqb x x = true).
  { intros x. unfold cti_obs_eqb.
    rewrite (list_eqb_refl _ Z.eqb_refl), (list_eqb_refl _ N.eqb_refl),
      (list_eqb_refl _ (res_eqb_refl _ (list_eqb_refl _ N.eqb_refl))),
      (list_eqb_refl _ (res_eqb_refl _ (list_eqb_refl _ Z.eqb_refl))),
      (res_eqb_refl _ (list_eqb_refl _ (pair_eqb_refl _ _ Z.eqb_refl (list_eqb_refl _ N.eqb_refl)))),
      (list_eqb_refl _ Bool.eqb_reflx), (list_eqb_refl _ (list_eqb_refl _ rb_eqb_refl)). reflexivity. }
  assert (H2 : forall x, irs_obs_eqb x x = true).
  { intros x. unfold irs_obs_eqb.
    rewrite (list_eqb_refl _ (res_eqb_refl _ N.eqb_refl)), (list_eqb_refl _ (opt_eqb_refl _ N.eqb_refl)). reflexivity. }
  assert (H3 : forall x, ident_obs_eqb x x = true).
  { intros x. unfold ident_obs_eqb.
    rewrite (list_eqb_refl _ (list_eqb_refl _ cid_eqb_refl)),
      (list_eqb_refl _ (list_eqb_refl _ (opt_eqb_refl _ cdetail_eqb_refl))). reflexivity. }
  assert (H4 : forall x, issuer_obs_eqb x x = true).
  { intros x. unfold issuer_obs_eqb.
    rewrite (list_eqb_refl _ (res_eqb_refl _ (list_eqb_refl _ skey_eqb_refl))),
      (list_eqb_refl _ (res_eqb_refl _ (list_eqb_refl _ N.eqb_refl))),
      (list_eqb_refl _ (list_eqb_refl _ Z.eqb_refl)),
      (list_eqb_refl _ (pair_eqb_refl _ _ rkey_eqb_refl Bool.eqb_reflx)). reflexivity. }
  rewrite (list_eqb_refl _ H1), (list_eqb_refl _ H2), (list_eqb_refl _ H3), (list_eqb_refl _ H4).
  unfold ver_obs_eqb. rewrite !(opt_eqb_refl _ N.eqb_refl), (list_eqb_refl _ Bool.eqb_reflx). reflexivity.
Qed.
Lemma outcome_eqb_refl out : outcome_eqb out out = true.
Proof.
  apply res_eqb_refl. intros [ | b | b | id | p s r | ca vu p | oa]; cbn;
    rewrite ?Bool.eqb_reflx, ?bytes_eqb_refl, ?cid_eqb_refl, ?Z.eqb_refl, ?(opt_eqb_refl _ N.eqb_refl); reflexivity.
Qed.

Lemma list_eqb_map2 {A B} (e : B -> B -> bool) (f g : A -> B) l :
  (forall x, e (f x) (g x) = true) -> list_eqb e (map f l) (map g l) = true.
Proof. intros H. induction l; cbn; auto. rewrite H, IHl. reflexivity. Qed.


Lemma cti_obs_eqb_refl x : cti_obs_eqb x x = true.
Proof.
  pose proof (obs_eqb_refl (OBS 0 [x] [] [] [] (VO None None []))) as X.
  unfold obs_eqb in X. cbn in X. rewrite !andb_true_r in X. exact X.
Qed.
Lemma irs_obs_eqb_refl x : irs_obs_eqb x x = true.
Proof.
  pose proof (obs_eqb_refl (OBS 0 [] [x] [] [] (VO None None []))) as X.
  unfold obs_eqb in X. cbn in X. rewrite !andb_true_r in X. exact X.
Qed.

(* ---------------- the ghost of the monitor agrees with the model's issuers ---------------- *)
Record ghost_ok (w : world) (g : ghost) : Prop := {
  go_grants : forall i k t r, In (i, k, t, r) (g_grants g) <->
                exists s, aget N.eqb i (w_issuers w) = Some s /\ In (t, r) (pairs_of s k);
  go_nonce : forall i s d t, aget N.eqb i (w_issuers w) = Some s -> gnonce g i d t = get_current_nonce_for s d t;
  go_rev : forall i s q, aget N.eqb i (w_issuers w) = Some s ->
             grev g i q = is_claim_revoked s (fst (fst q)) (snd (fst q)) (snd q)
}.

Lemma grant_eqb_spec : eqb_spec grant_eqb.
Proof.
  intros [[[i1 k1] t1] r1] [[[i2 k2] t2] r2]. unfold grant_eqb.
  rewrite !andb_true_iff, !N.eqb_eq, Z.eqb_eq, (skey_eqb_spec k1 k2).
  split; [intros [[[-> ->] ->] ->]; reflexivity | intros E; inversion E; auto].
Qed.
Lemma gkey_eqb_spec : eqb_spec gkey_eqb.
Proof.
  intros [[a1 a2] a3] [[b1 b2] b3]. unfold gkey_eqb. cbn. rewrite !andb_true_iff, !N.eqb_eq, Z.eqb_eq.
  split; [intros [[-> ->] ->]; reflexivity | intros E; inversion E; auto].
Qed.
Lemma rgkey_eqb_spec : eqb_spec rgkey_eqb.
Proof.
  intros [a1 a2] [b1 b2]. unfold rgkey_eqb. cbn. rewrite andb_true_iff, N.eqb_eq, (rkey_eqb_spec a2 b2).
  split; [intros [-> ->]; reflexivity | intros E; inversion E; auto].
Qed.

Lemma ghost_ok_init h : ghost_ok (init_of h) ghost0.
Proof.
  constructor.
  - intros i k t r. split; [intros []|]. intros [s [Es Hin]]. cbn in Es. apply aget_init in Es. subst s.
    unfold pairs_of in Hin. cbn in Hin. destruct Hin.
  - intros i s d t Es. cbn in Es. apply aget_init in Es. subst s. reflexivity.
  - intros i s q Es. cbn in Es. apply aget_init in Es. subst s. reflexivity.
Qed.
Lemma ghost_ok_issuers w w' g : w_issuers w' = w_issuers w -> ghost_ok w g -> ghost_ok w' g.
Proof. intros E [H1 H2 H3]. constructor; intros; rewrite E in *; auto. Qed.

(* an issuer replaced by one with the same pairs, nonces and revocations *)
Lemma ghost_ok_set_same w i s s' g : the_issuer w i = Ok s ->
  is_pairs s' = is_pairs s -> is_nonce s' = is_nonce s -> is_revoked s' = is_revoked s ->
  ghost_ok w g -> ghost_ok (set_issuer w i s') g.
Proof.
  intros Es Ep En Er [H1 H2 H3]. apply the_issuer_get in Es. constructor.
  - intros i' k t r. rewrite (H1 i' k t r). cbn [set_issuer w_issuers]. rewrite (aget_aset _ N_eqb_spec).
    destruct (N.eqb i' i) eqn:Ei; [|tauto]. apply N.eqb_eq in Ei. subst i'. unfold pairs_of. split.
    + intros [s1 [E1 Hin]]. rewrite Es in E1. inversion E1. subst s1. exists s'. rewrite Ep. auto.
    + intros [s1 [E1 Hin]]. inversion E1. subst s1. exists s. rewrite <- Ep. auto.
  - intros i' s1 d t. cbn [set_issuer w_issuers]. rewrite (aget_aset _ N_eqb_spec). destruct (N.eqb i' i) eqn:Ei; [|apply H2].
    apply N.eqb_eq in Ei. subst i'. intros E1. inversion E1. subst s1. unfold get_current_nonce_for. rewrite En. apply (H2 i s d t Es).
  - intros i' s1 q. cbn [set_issuer w_issuers]. rewrite (aget_aset _ N_eqb_spec). destruct (N.eqb i' i) eqn:Ei; [|apply H3].
    apply N.eqb_eq in Ei. subst i'. intros E1. inversion E1. subst s1. unfold is_claim_revoked. rewrite Er. apply (H3 i s q Es).
Qed.

Lemma allow_key_revoked c s pk r sc t has s' : allow_key c s pk r sc t has = Ok s' -> is_revoked s' = is_revoked s.
Proof.
  unfold allow_key. destruct (is_nil pk); [discriminate|]. destruct has as [[]|]; cbn [bind negb]; try discriminate.
  destruct (is_key_allowed_for_topic s pk sc t); cbn [bind].
  - destruct (existsb _ _); [discriminate|]. destruct (_ <=? _); [discriminate|]. intros H. inversion H. reflexivity.
  - destruct (c_max_keys c <=? _); cbn [bind]; [discriminate|].
    destruct (existsb _ _); [discriminate|]. destruct (_ <=? _); [discriminate|]. intros H. inversion H. reflexivity.
Qed.
Lemma remove_key_revoked s pk r sc t s' : remove_key s pk r sc t = Ok s' -> is_revoked s' = is_revoked s.
Proof.
  unfold remove_key. intros H.
  apply bind_ok in H. destruct H as [pairs [_ H]]. apply bind_ok in H. destruct H as [pairs' [_ H]].
  destruct (existsb (fun p : Z * addr => fst p =? t) pairs'); [inversion H; reflexivity|].
  apply bind_ok in H. destruct H as [ks [_ H]]. apply bind_ok in H. destruct H as [ks' [_ H]]. inversion H. reflexivity.
Qed.

Lemma step_ghost_ok c w k g : world_inv w -> ghost_ok w g ->
  ghost_ok (fst (step c w k)) (ghost_step g k (snd (step c w k))).
Proof.
  intros Hw Hg. destruct (step c w k) as [w' out] eqn:E. cbn [fst snd].
  assert (Hsame : forall w1, w_issuers w1 = w_issuers w -> ghost_ok w1 g) by (intros w1 F; apply (ghost_ok_issuers w); auto).
  destruct k; cbn [step] in E; cbn [ghost_step];
    try (unfold pure in E; inversion E; subst; destruct out; exact Hg);
    try (inversion E; subst; apply Hsame; reflexivity);
    try (unfold upd in E; match type of E with (match ?x with _ => _ end) = _ => destruct x end; inversion E; subst; solve [apply Hsame; reflexivity | exact Hg]).
  - (* AddClaim *)
    match type of E with (match ?x with _ => _ end) = _ => destruct x as [[s' id]|] end; inversion E; subst; [apply Hsame; reflexivity | exact Hg].
  - (* AllowKey *)
    unfold upd in E. destruct (the_issuer w i) as [s|] eqn:Es; cbn [bind] in E; [|inversion E; subst; exact Hg].
    destruct (allow_key c s pk registry scheme topic (call_has_claim_topic w registry i topic)) as [s'|] eqn:Ea;
      inversion E; subst; [|exact Hg]. clear E.
    pose proof (allow_key_pairs _ _ _ _ _ _ _ _ Ea) as Hp. pose proof (allow_key_nonce _ _ _ _ _ _ _ _ Ea) as Hn.
    pose proof (allow_key_revoked _ _ _ _ _ _ _ _ Ea) as Hr.
    destruct Hg as [H1 H2 H3]. pose proof Es as Es0. apply the_issuer_get in Es. constructor; cbn [g_grants g_nonce g_rev].
    + intros i' k' t' r'. cbn [In set_issuer w_issuers]. rewrite (aget_aset _ N_eqb_spec), (H1 i' k' t' r'). split.
      * intros [Hx|[s1 [E1 Hin]]].
        -- inversion Hx. subst. rewrite N.eqb_refl. exists s'. split; auto. rewrite Hp, (eqb_refl_of _ skey_eqb_spec).
           apply In_app_single. right. reflexivity.
        -- destruct (N.eqb i' i) eqn:Ei; [|exists s1; auto].
           apply N.eqb_eq in Ei. subst i'. rewrite Es in E1. inversion E1. subst s1. exists s'. split; auto.
           rewrite Hp. destruct (skey_eqb k' (pk, scheme)) eqn:Ek; auto.
           apply skey_eqb_spec in Ek. subst k'. apply In_app_single. left. exact Hin.
      * destruct (N.eqb i' i) eqn:Ei; [|intros [s1 [E1 Hin]]; right; exists s1; auto].
        apply N.eqb_eq in Ei. subst i'. intros [s1 [E1 Hin]]. inversion E1. subst s1. rewrite Hp in Hin.
        destruct (skey_eqb k' (pk, scheme)) eqn:Ek; [|right; exists s; auto].
        apply skey_eqb_spec in Ek. subst k'. apply In_app_single in Hin. destruct Hin as [Hin|Hin].
        -- right. exists s. auto.
        -- left. inversion Hin. reflexivity.
    + intros i' s1 d t. cbn [set_issuer w_issuers]. rewrite (aget_aset _ N_eqb_spec). destruct (N.eqb i' i) eqn:Ei; [|apply H2].
      apply N.eqb_eq in Ei. subst i'. intros E1. inversion E1. subst s1. unfold get_current_nonce_for. rewrite Hn. apply (H2 i s d t Es).
    + intros i' s1 q. cbn [set_issuer w_issuers]. rewrite (aget_aset _ N_eqb_spec). destruct (N.eqb i' i) eqn:Ei; [|apply H3].
      apply N.eqb_eq in Ei. subst i'. intros E1. inversion E1. subst s1. unfold is_claim_revoked. rewrite Hr. apply (H3 i s q Es).
  - (* RemoveKey *)
    unfold upd in E. destruct (the_issuer w i) as [s|] eqn:Es; cbn [bind] in E; [|inversion E; subst; exact Hg].
    destruct (remove_key s pk registry scheme topic) as [s'|] eqn:Ea; inversion E; subst; [|exact Hg]. clear E.
    pose proof (wi_issuer w Hw _ _ (the_issuer_get _ _ _ Es)) as [Hk _].
    pose proof (remove_key_pairs _ _ _ _ _ _ Hk Ea) as Hp. pose proof (remove_key_nonce _ _ _ _ _ _ Ea) as Hn.
    pose proof (remove_key_revoked _ _ _ _ _ _ Ea) as Hr.
    destruct Hg as [H1 H2 H3]. apply the_issuer_get in Es. constructor; cbn [g_grants g_nonce g_rev].
    + intros i' k' t' r'. rewrite filter_In, negb_true_iff, (eqb_false_of _ grant_eqb_spec), (H1 i' k' t' r').
      cbn [set_issuer w_issuers]. rewrite (aget_aset _ N_eqb_spec). destruct (N.eqb i' i) eqn:Ei.
      * apply N.eqb_eq in Ei. subst i'. split.
        -- intros [[s1 [E1 Hin]] Hne]. rewrite Es in E1. inversion E1. subst s1. exists s'. split; auto.
           apply Hp. split; auto. intros [-> Hx]. inversion Hx. subst. apply Hne. reflexivity.
        -- intros [s1 [E1 Hin]]. inversion E1. subst s1. apply Hp in Hin. destruct Hin as [Hin Hne]. split; [exists s; auto|].
           intros Hx. inversion Hx. subst. apply Hne. auto.
      * apply N.eqb_neq in Ei. split; [tauto|]. intros Hx. split; auto. intros Hy. inversion Hy. congruence.
    + intros i' s1 d t. cbn [set_issuer w_issuers]. rewrite (aget_aset _ N_eqb_spec). destruct (N.eqb i' i) eqn:Ei; [|apply H2].
      apply N.eqb_eq in Ei. subst i'. intros E1. inversion E1. subst s1. unfold get_current_nonce_for. rewrite Hn. apply (H2 i s d t Es).
    + intros i' s1 q. cbn [set_issuer w_issuers]. rewrite (aget_aset _ N_eqb_spec). destruct (N.eqb i' i) eqn:Ei; [|apply H3].
      apply N.eqb_eq in Ei. subst i'. intros E1. inversion E1. subst s1. unfold is_claim_revoked. rewrite Hr. apply (H3 i s q Es).
  - (* Invalidate *)
    unfold upd in E. destruct (the_issuer w i) as [s|] eqn:Es; cbn [bind] in E; [|inversion E; subst; exact Hg].
    destruct (invalidate_claim_signatures s d topic) as [s'|] eqn:Ea; inversion E; subst; [|exact Hg]. clear E.
    destruct (nonce_after_invalidate _ _ _ _ Ea) as [En [_ [Hoth [_ [F2 F3]]]]].
    destruct Hg as [H1 H2 H3]. pose proof Es as Es0. apply the_issuer_get in Es. constructor; cbn [g_grants g_nonce g_rev].
    + intros i' k t r. rewrite (H1 i' k t r). cbn [set_issuer w_issuers]. rewrite (aget_aset _ N_eqb_spec).
      destruct (N.eqb i' i) eqn:Ei; [|tauto]. apply N.eqb_eq in Ei. subst i'. unfold pairs_of. split.
      * intros [s1 [E1 Hin]]. rewrite Es in E1. inversion E1. subst s1. exists s'. rewrite F2. auto.
      * intros [s1 [E1 Hin]]. inversion E1. subst s1. exists s. rewrite <- F2. auto.
    + intros i' s1 d' t'. unfold gnonce at 1. cbn [g_nonce]. rewrite (aget_aset _ gkey_eqb_spec).
      cbn [set_issuer w_issuers]. rewrite (aget_aset _ N_eqb_spec).
      match goal with |- context [gkey_eqb ?a ?b] => destruct (gkey_eqb a b) eqn:Ek end.
      * apply gkey_eqb_spec in Ek. inversion Ek. subst. rewrite N.eqb_refl. intros E1. inversion E1. subst s1.
        rewrite En, (H2 i s d topic Es). reflexivity.
      * fold (gnonce g i' d' t'). destruct (N.eqb i' i) eqn:Ei.
        -- apply N.eqb_eq in Ei. subst i'. intros E1. inversion E1. subst s1. rewrite (H2 i s d' t' Es). symmetry. apply Hoth.
           intros Hx. inversion Hx. subst. rewrite (eqb_refl_of _ gkey_eqb_spec) in Ek. discriminate.
        -- apply H2.
    + intros i' s1 q. cbn [set_issuer w_issuers]. rewrite (aget_aset _ N_eqb_spec). destruct (N.eqb i' i) eqn:Ei; [|apply H3].
      apply N.eqb_eq in Ei. subst i'. intros E1. inversion E1. subst s1. unfold is_claim_revoked. rewrite F3. apply (H3 i s q Es).
  - (* SetRevoked *)
    unfold upd in E. destruct (the_issuer w i) as [s|] eqn:Es; cbn [bind] in E; inversion E; subst; [|exact Hg]. clear E.
    destruct Hg as [H1 H2 H3]. pose proof Es as Es0. apply the_issuer_get in Es. constructor; cbn [g_grants g_nonce g_rev].
    + intros i' k t r. rewrite (H1 i' k t r). cbn [set_issuer w_issuers]. rewrite (aget_aset _ N_eqb_spec).
      destruct (N.eqb i' i) eqn:Ei; [|tauto]. apply N.eqb_eq in Ei. subst i'. unfold pairs_of. cbn [set_claim_revoked is_pairs]. split.
      * intros [s1 [E1 Hin]]. rewrite Es in E1. inversion E1. subst s1. eauto.
      * intros [s1 [E1 Hin]]. inversion E1. subst s1. eauto.
    + intros i' s1 d' t'. cbn [set_issuer w_issuers]. rewrite (aget_aset _ N_eqb_spec). destruct (N.eqb i' i) eqn:Ei; [|apply H2].
      apply N.eqb_eq in Ei. subst i'. intros E1. inversion E1. subst s1. apply (H2 i s d' t' Es).
    + intros i' s1 q. unfold grev at 1. cbn [g_rev]. rewrite (aget_aset _ rgkey_eqb_spec).
      cbn [set_issuer w_issuers]. rewrite (aget_aset _ N_eqb_spec).
      match goal with |- context [rgkey_eqb ?a ?b] => destruct (rgkey_eqb a b) eqn:Ek end.
      * apply rgkey_eqb_spec in Ek. inversion Ek. subst. rewrite N.eqb_refl. intros E1. inversion E1. subst s1.
        cbn [fst snd]. rewrite revoked_after_set, (eqb_refl_of _ rkey_eqb_spec). reflexivity.
      * fold (grev g i' q). destruct (N.eqb i' i) eqn:Ei; [|apply H3].
        apply N.eqb_eq in Ei. subst i'. intros E1. inversion E1. subst s1. rewrite (H3 i s q Es), revoked_after_set.
        destruct q as [[qd qt] qx]. cbn [fst snd].
        destruct (rkey_eqb (qd, qt, qx) (d, topic, data)) eqn:Eq; [|reflexivity].
        apply rkey_eqb_spec in Eq. rewrite Eq in Ek. unfold rgkey_eqb in Ek. cbn in Ek.
        rewrite N.eqb_refl, (eqb_refl_of _ rkey_eqb_spec) in Ek. discriminate.
Qed.

(* ---------------- part 2 of the monitor: what the reference issuer confirms ---------------- *)
Lemma is_claim_valid_bool c now self s d t scheme sig data :
  is_ok (is_claim_valid c now self s d t scheme sig data) =
  match extract_sig scheme sig with
  | Fail => false
  | Ok sd =>
      is_key_allowed_for_topic s (sd_pk sd) scheme t
      && match decode_expiration data with Ok (_, vu, _) => now <? vu | Fail => false end
      && negb (is_claim_revoked s d t data)
      && c_sigok c scheme (sd_pk sd)
           (build_claim_message (c_net c) (c_xdr c self) (c_xdr c d) t (get_current_nonce_for s d t) data)
           (sd_sig sd) (sd_rid sd)
  end.
Proof.
  unfold is_claim_valid, claim_message, is_claim_expired.
  destruct (extract_sig scheme sig) as [sd|]; cbn [bind]; [|reflexivity].
  destruct (is_key_allowed_for_topic s (sd_pk sd) scheme t); cbn [guard bind andb]; [|reflexivity].
  destruct (decode_expiration data) as [[[ca vu] p]|]; cbn [bind]; [|reflexivity].
  rewrite (Z.ltb_antisym vu now). destruct (vu <=? now); cbn [negb guard bind andb]; [reflexivity|].
  destruct (is_claim_revoked s d t data); cbn [negb guard bind andb]; [reflexivity|].
  destruct (c_sigok c scheme (sd_pk sd) _ (sd_sig sd) (sd_rid sd)); reflexivity.
Qed.


Section IssuerClauses.
  Variable h : hdr.
  Variable w : world.
  Variable g : ghost.
  Hypothesis Hd : dom h w.
  Hypothesis Hw : world_inv w.
  Hypothesis Hg : ghost_ok w g.
  Local Notation c := (cfg_of h).
  Local Notation o := (observe h w).

  Lemma is_issuer_model i : mem_a i (h_issuers h) = is_ok (the_issuer w i).
  Proof.
    unfold the_issuer. destruct (aget N.eqb i (w_issuers w)) as [s|] eqn:E; cbn [of_option is_ok].
    - apply mem_a_In. apply (dm_issuer h w Hd). congruence.
    - apply mem_a_false. intros Hin. apply (dm_issuer h w Hd) in Hin. congruence.
  Qed.

  Lemma granted_model i s pk sc t : aget N.eqb i (w_issuers w) = Some s ->
    granted (g_grants g) i (pk, sc) t = is_key_allowed_for_topic s pk sc t.
  Proof.
    intros Es. destruct (wi_issuer w Hw _ _ Es) as [Hk _]. apply eq_true_iff_eq.
    rewrite (key_allowed_iff s pk sc t Hk). unfold granted. rewrite existsb_exists. split.
    - intros [[[[i' k'] t'] r'] [Hin Hx]]. unfold grant_for in Hx.
      apply andb_true_iff in Hx. destruct Hx as [Hx E3]. apply andb_true_iff in Hx. destruct Hx as [E1 E2].
      apply N.eqb_eq in E1. apply skey_eqb_spec in E2. apply Z.eqb_eq in E3. subst.
      apply (go_grants w g Hg) in Hin. destruct Hin as [s1 [Es1 Hr]]. rewrite Es in Es1. inversion Es1. subst s1. eauto.
    - intros [r Hr]. exists (i, (pk, sc), t, r). split.
      + apply (go_grants w g Hg). eauto.
      + unfold grant_for. rewrite N.eqb_refl, (eqb_refl_of _ skey_eqb_spec), Z.eqb_refl. reflexivity.
  Qed.

  Lemma confirm_model i d t sc sg data :
    confirm_expected h o g d i t sc sg data = is_ok (call_is_claim_valid c w i d t sc sg data).
  Proof.
    unfold confirm_expected, call_is_claim_valid. rewrite is_issuer_model. unfold the_issuer.
    destruct (aget N.eqb i (w_issuers w)) as [s|] eqn:Es; cbn [of_option is_ok bind andb negb];
      [| cbn [cfg_of c_other]; destruct (foreign_confirms (h_foreign h) i sc); reflexivity].
    rewrite is_claim_valid_bool. destruct (extract_sig sc sg) as [sd|]; [|reflexivity].
    rewrite (granted_model i s _ _ _ Es), (go_rev w g Hg i s (d, t, data) Es), (go_nonce w g Hg i s d t Es). reflexivity.
  Qed.

  Lemma confirm_expected_now o1 o2 g0 d i t sc sg data : o_now o1 = o_now o2 ->
    confirm_expected h o1 g0 d i t sc sg data = confirm_expected h o2 g0 d i t sc sg data.
  Proof. intros E. unfold confirm_expected. rewrite E. reflexivity. Qed.

  Lemma cell_ok_model d s i t : cell_ok h o g d i t (observe_cell c w d s i t) = true.
  Proof.
    unfold cell_ok. destruct (observe_cell c w d s i t) as [cd|] eqn:Ec; [|reflexivity].
    unfold observe_cell in Ec. destruct (get_claim s (i, t)) as [cl|]; [|discriminate]. inversion Ec. subst cd. clear Ec.
    cbn [cd_info cd_confirmed cd_claim]. rewrite confirm_model, Bool.eqb_reflx, andb_true_r.
    unfold info_expected. rewrite is_issuer_model. unfold the_issuer.
    destruct (aget N.eqb i (w_issuers w)) as [si|] eqn:Es; cbn [of_option is_ok]; [|reflexivity].
    rewrite (go_rev w g Hg i si (d, t, cl_data cl) Es), (go_nonce w g Hg i si d t Es). cbn [fst snd opt_eqb].
    destruct (extract_sig (cl_scheme cl) (cl_sig cl)) as [sd|].
    - rewrite (granted_model i si _ _ _ Es). apply info_eqb_refl.
    - apply info_eqb_refl.
  Qed.

  Lemma issuers_ok_model : issuers_ok h o g = true.
  Proof.
    unfold issuers_ok. cbn [observe o_idents]. rewrite combine_map, forallb_forall.
    intros [d dob] Hin. apply in_map_iff in Hin. destruct Hin as [d' [E _]]. inversion E. subst d' dob. clear E. cbn [fst snd].
    unfold observe_ident at 1. cbn [do_claims]. rewrite combine_map, forallb_forall.
    intros [i row] Hin. apply in_map_iff in Hin. destruct Hin as [i' [E _]]. inversion E. subst i' row. clear E. cbn [fst snd].
    rewrite combine_map, forallb_forall.
    intros [t cell] Hin. apply in_map_iff in Hin. destruct Hin as [t' [E _]]. inversion E. subst t' cell. clear E. cbn [fst snd].
    apply cell_ok_model.
  Qed.

  Lemma keys_ok_model : keys_ok h o g = true.
  Proof.
    unfold keys_ok. cbn [observe o_issuers]. rewrite combine_map, forallb_forall.
    intros [i so] Hin. apply in_map_iff in Hin. destruct Hin as [i' [E Hi]]. inversion E. subst i' so. clear E. cbn [fst snd].
    assert (Hex : exists s, aget N.eqb i (w_issuers w) = Some s).
    { apply (dm_issuer h w Hd) in Hi. destruct (aget N.eqb i (w_issuers w)) as [s|]; [eauto | congruence]. }
    destruct Hex as [s Es]. rewrite (get_or_some _ _ _ _ Es).
    destruct (wi_issuer w Hw _ _ Es) as [Hk _].
    rewrite !andb_true_iff. split; [split|].
    - unfold observe_issuer at 1. cbn [so_keys]. rewrite combine_map, forallb_forall.
      intros [t rk] Hin. apply in_map_iff in Hin. destruct Hin as [t' [E _]]. inversion E. subst t' rk. clear E. cbn [fst snd].
      assert (Hl : (match get_keys_for_topic s t with Ok l => l | Fail => [] end) = keys_of s t).
      { unfold get_keys_for_topic, keys_of. destruct (aget Z.eqb t (is_topics s)); reflexivity. }
      rewrite Hl. apply andb_true_iff. split.
      + rewrite forallb_forall. intros k Hk'. destruct k as [pk sc]. rewrite (granted_model i s pk sc t Es).
        apply allowed_iff_keys. exact Hk'.
      + rewrite forallb_forall. intros [[[i' k'] t'] r'] Hx. cbn [fst snd].
        destruct (N.eqb i' i && (t' =? t)) eqn:Em; [|reflexivity]. cbn [negb orb].
        apply andb_true_iff in Em. destruct Em as [E1 E2]. apply N.eqb_eq in E1. apply Z.eqb_eq in E2. subst i' t'.
        apply (go_grants w g Hg) in Hx. destruct Hx as [s1 [Es1 Hr]]. rewrite Es in Es1. inversion Es1. subst s1.
        apply (existsb_eqb_In _ skey_eqb_spec). apply (ki_iff s Hk). exists r'. exact Hr.
    - unfold observe_issuer. cbn [so_nonce]. apply list_eqb_map2. intros d. apply list_eqb_map2. intros t.
      rewrite (go_nonce w g Hg i s d t Es). apply Z.eqb_refl.
    - unfold observe_issuer. cbn [so_revoked]. rewrite forallb_forall. intros [q v] Hin. apply in_map_iff in Hin.
      destruct Hin as [q' [E _]]. inversion E. subst q' v. cbn [fst snd]. rewrite (go_rev w g Hg i s q Es). apply Bool.eqb_reflx.
  Qed.
End IssuerClauses.

(* ---------------- part 3 of the monitor: the registry ---------------- *)
Lemma registry_ok_model h ct : cti_inv ct -> cti_closed h ct -> registry_ok h (observe_cti h ct) = true.
Proof.
  intros Hi [Hc1 Hc2]. unfold registry_ok. rewrite !andb_true_iff. split; [split; [split; [split|]|]|].
  - unfold observe_cti. cbn [co_trusted co_issuers]. apply list_eqb_map2. intros i. apply Bool.eqb_reflx.
  - unfold observe_cti. cbn [co_has co_itopics]. rewrite map_map. apply list_eqb_map2. intros i. apply list_eqb_map2. intros t.
    unfold has_claim_topic. destruct (get_trusted_issuer_claim_topics ct i) as [l|]; cbn [bind rb_of]; [|reflexivity].
    destruct (mem_z t l); reflexivity.
  - unfold observe_cti. cbn [co_itopics co_issuers]. rewrite combine_map, forallb_forall.
    intros [i r] Hin. apply in_map_iff in Hin. destruct Hin as [i' [E _]]. inversion E. subst i' r. cbn [fst snd].
    apply Bool.eqb_true_iff. apply eq_true_iff_eq. rewrite mem_a_In, (ri_ipresent ct Hi).
    unfold get_trusted_issuer_claim_topics. destruct (aget N.eqb i (ct_itopics ct)); cbn; split; congruence.
  - rewrite forallb_forall. intros i Hiu. rewrite forallb_forall. intros t Htu.
    apply Bool.eqb_true_iff. apply eq_true_iff_eq. rewrite trusted_for_model.
    unfold observe_cti at 1 2. cbn [co_topics co_tissuers].
    rw_lookup (at_key_map_in _ Z_eqb_spec (get_claim_topic_issuers ct) t _ Htu).
    rewrite andb_true_iff, mem_z_In. unfold get_claim_topic_issuers.
    unfold is_trusted_issuer. rewrite mem_a_In, has_claim_topic_true.
    split.
    + intros [Ht Hl]. destruct (aget Z.eqb t (ct_tissuers ct)) as [l|] eqn:El; cbn [of_option] in Hl; [|discriminate].
      apply mem_a_In in Hl. assert (Hx : In i (tiss ct t)) by (unfold tiss; rewrite El; exact Hl).
      repeat split; auto; [eapply listed_is_trusted; eauto | apply (ri_coherent ct Hi); exact Hx].
    + intros [_ [_ [Htr Hx]]]. apply (ri_coherent ct Hi) in Hx. split.
      * apply (ri_tpresent ct Hi). unfold tiss in Hx. destruct (aget Z.eqb t (ct_tissuers ct)); [discriminate | destruct Hx].
      * unfold tiss in Hx. destruct (aget Z.eqb t (ct_tissuers ct)) as [l|]; cbn [of_option]; [apply mem_a_In; exact Hx | destruct Hx].
  - unfold observe_cti at 1. cbn [co_map].
    destruct (topics_and_issuers_reading ct Hi) as [m [Em [Hm1 _]]]. rewrite Em.
    apply andb_true_iff. split.
    + unfold observe_cti. cbn [co_topics co_tissuers]. rewrite forallb_forall. intros t Ht.
      unfold get_claim_topics_and_issuers in Em. rewrite (topics_and_issuers_from_get _ _ _ _ Em t).
      assert (mem_z t (ct_topics ct) = true) as -> by (apply mem_z_In; exact Ht).
      rw_lookup (at_key_map_in _ Z_eqb_spec (get_claim_topic_issuers ct) t _ (Hc1 t Ht)).
      unfold get_claim_topic_issuers. apply (ri_tpresent ct Hi) in Ht. unfold addr in *.
      match goal with |- context [@aget ?K ?V ?e ?k ?ll] => destruct (@aget K V e k ll) as [l|] eqn:El end; [|exfalso; apply Ht; reflexivity]. cbn [of_option].
      apply (list_eqb_spec _ N_eqb_spec). reflexivity.
    + rewrite forallb_forall. intros [t l] Hin. cbn [fst]. unfold observe_cti. cbn [co_topics].
      apply mem_z_In. apply (Hm1 t l). exact Hin.
Qed.


(* ---------------- the identity registry ---------------- *)
Lemma irs_ok_model h r : irs_inv r -> irs_ok (observe_irs h r) = true.
Proof.
  intros Hi. unfold irs_ok, observe_irs. cbn [io_stored io_recovered].
  assert (E : combine (map (stored_identity r) (h_accounts h)) (map (get_recovered_to r) (h_accounts h))
              = map (fun a => (stored_identity r a, get_recovered_to r a)) (h_accounts h)).
  { induction (h_accounts h); cbn; congruence. }
  rewrite E, forallb_forall. intros [st rc] Hin. apply in_map_iff in Hin. destruct Hin as [a [Ea _]]. inversion Ea. subst st rc. cbn [fst snd].
  destruct (get_recovered_to r a) eqn:Er; cbn [is_some negb orb]; [|reflexivity].
  unfold stored_identity. rewrite (Hi a); [reflexivity | congruence].
Qed.

(* ---------------- the shape of the model's observation ---------------- *)
Lemma len_is_map {A B} (f : A -> B) l : len_is (map f l) (length l) = true.
Proof. unfold len_is. rewrite map_length. apply Nat.eqb_refl. Qed.
Lemma forallb_map_true {A B} (f : A -> B) (P : B -> bool) l : (forall x, P (f x) = true) -> forallb P (map f l) = true.
Proof. intros H. induction l; cbn; auto. rewrite H, IHl. reflexivity. Qed.

Lemma nodup_by_NoDup {A} (e : A -> A -> bool) (He : eqb_spec e) l : NoDup l -> nodup_by e l = true.
Proof.
  induction 1 as [|x l Hx Hl IH]; cbn [nodup_by]; auto. rewrite IH, andb_true_r. apply negb_true_iff.
  destruct (existsb (e x) l) eqn:E; auto. apply existsb_exists in E. destruct E as [y [Hy Ey]].
  apply He in Ey. subst. contradiction.
Qed.
Lemma registry_nodup_model h ct : cti_inv ct -> registry_nodup (observe_cti h ct) = true.
Proof.
  intros Hi. unfold registry_nodup, observe_cti. cbn [co_topics co_issuers co_tissuers co_itopics].
  rewrite !andb_true_iff. repeat split.
  - apply (nodup_by_NoDup _ Z_eqb_spec). apply (ri_topics_nodup ct Hi).
  - apply (nodup_by_NoDup _ N_eqb_spec). apply (ri_issuers_nodup ct Hi).
  - apply forallb_map_true. intros t. unfold get_claim_topic_issuers, res_nodup.
    pose proof (ri_tiss_nodup ct Hi t) as H. unfold tiss in H.
    destruct (aget Z.eqb t (ct_tissuers ct)); cbn [of_option]; [|reflexivity]. apply (nodup_by_NoDup _ N_eqb_spec). exact H.
  - apply forallb_map_true. intros i. unfold get_trusted_issuer_claim_topics, res_nodup.
    pose proof (ri_itop_nodup ct Hi i) as H. unfold itop in H.
    destruct (aget N.eqb i (ct_itopics ct)); cbn [of_option]; [|reflexivity]. apply (nodup_by_NoDup _ Z_eqb_spec). exact H.
Qed.

Lemma shape_ok_model h w : shape_ok h (observe h w) = true.
Proof.
  unfold shape_ok, observe. cbn [o_ctis o_irss o_idents o_issuers o_ver vo_verify].
  rewrite !len_is_map. cbn [andb].
  rewrite !andb_true_iff. repeat split.
  - apply forallb_map_true. intros a. unfold observe_cti. cbn [co_tissuers co_itopics co_trusted co_has].
    rewrite !len_is_map. cbn [andb]. apply forallb_map_true. intros i. apply len_is_map.
  - apply forallb_map_true. intros a. unfold observe_irs. cbn [io_stored io_recovered]. rewrite !len_is_map. reflexivity.
  - apply forallb_map_true. intros a. unfold observe_ident. cbn [do_ids do_claims]. rewrite !len_is_map. cbn [andb].
    apply forallb_map_true. intros i. apply len_is_map.
  - apply forallb_map_true. intros a. unfold observe_issuer. cbn [so_keys so_regs]. rewrite !len_is_map. reflexivity.
Qed.

Definition irss_inv_w (w : world) : Prop := forall a s, aget N.eqb a (w_irss w) = Some s -> irs_inv s.

Lemma mon_state_model h w g : world_inv w -> dom h w -> closed h w -> ghost_ok w g -> irss_inv w ->
  mon_state h (observe h w) g = true.
Proof.
  intros Hw Hd Hc Hg Hr. unfold mon_state. rewrite !andb_true_iff. repeat split.
  - apply shape_ok_model.
  - apply verify_ok_model; auto.
  - apply issuers_ok_model; auto.
  - cbn [observe o_ctis]. apply forallb_map_true. intros a.
    unfold get_or. destruct (aget N.eqb a (w_ctis w)) as [s|] eqn:E.
    + apply registry_ok_model; [apply (wi_cti w Hw a s E) | apply (Hc a s E)].
    + apply registry_ok_model; [apply cti_inv_init | split; intros x []].
  - cbn [observe o_irss]. apply forallb_map_true. intros a.
    unfold get_or. destruct (aget N.eqb a (w_irss w)) as [s|] eqn:E.
    + apply irs_ok_model. apply (Hr a s E).
    + apply irs_ok_model. apply irs_inv_init.
  - apply keys_ok_model; auto.
  - cbn [observe o_ctis]. apply forallb_map_true. intros a.
    unfold get_or. destruct (aget N.eqb a (w_ctis w)) as [s|] eqn:E.
    + apply registry_nodup_model. apply (wi_cti w Hw a s E).
    + apply registry_nodup_model. apply cti_inv_init.
Qed.

(* ---------------- calls: positional lists after an update ---------------- *)
Lemma upd_at_map {K V} (e : K -> K -> bool) k (v : V) (f : K -> V) ks :
  upd_at e k v ks (map f ks) = map (fun x => if e x k then v else f x) ks.
Proof. unfold upd_at. rewrite combine_map, map_map. reflexivity. Qed.
Lemma combine3_map {A B C} (f : A -> B) (g : A -> C) l :
  combine l (combine (map f l) (map g l)) = map (fun a => (a, (f a, g a))) l.
Proof. induction l; cbn; congruence. Qed.
Lemma get_or_aset {S} (d0 : S) a c s' l : get_or d0 a (aset N.eqb c s' l) = if N.eqb a c then s' else get_or d0 a l.
Proof. unfold get_or. rewrite (aget_aset _ N_eqb_spec). destruct (N.eqb a c); reflexivity. Qed.

Lemma cell_claim c w d s i t :
  option_map cd_claim (observe_cell c w d s i t) = match get_claim s (i, t) with Ok cl => Some cl | Fail => None end.
Proof. unfold observe_cell. destruct (get_claim s (i, t)); reflexivity. Qed.
Lemma claims_of_model h c w d s :
  claims_of (observe_ident h c w d s)
  = map (fun i => map (fun t => match get_claim s (i, t) with Ok cl => Some cl | Fail => None end) (h_topics h)) (h_iaddrs h).
Proof.
  unfold claims_of, observe_ident. cbn [do_claims]. rewrite map_map. apply map_ext. intros i.
  rewrite map_map. apply map_ext. intros t. apply cell_claim.
Qed.
Lemma claims_upd_map h id v (F : addr -> Z -> option claim) :
  claims_upd h id v (map (fun i => map (F i) (h_topics h)) (h_iaddrs h))
  = map (fun i => map (fun t => if N.eqb i (fst id) && (t =? snd id) then v else F i t) (h_topics h)) (h_iaddrs h).
Proof.
  unfold claims_upd. rewrite combine_map, map_map. apply map_ext. intros i. cbn [fst snd].
  rewrite combine_map, map_map. reflexivity.
Qed.
Lemma claims_eqb_refl (l : list (list (option claim))) : list_eqb (list_eqb (opt_eqb claim_eqb)) l l = true.
Proof. apply list_eqb_refl. apply list_eqb_refl. apply opt_eqb_refl. apply claim_eqb_refl. Qed.
Lemma ids_eqb_refl (l : list (list cid)) : list_eqb (list_eqb cid_eqb) l l = true.
Proof. apply list_eqb_refl. apply list_eqb_refl. apply cid_eqb_refl. Qed.

Lemma ident_static_world h w w' d s :
  ident_static_eqb (observe_ident h (cfg_of h) w d s) (observe_ident h (cfg_of h) w' d s) = true.
Proof.
  unfold ident_static_eqb. fold (claims_of (observe_ident h (cfg_of h) w d s)) (claims_of (observe_ident h (cfg_of h) w' d s)).
  rewrite !claims_of_model, claims_eqb_refl. unfold observe_ident. cbn [do_ids]. rewrite ids_eqb_refl. reflexivity.
Qed.

(* ---------------- the frame clause on the model ---------------- *)
Lemma frame_model h w w' tg :
  (forall a, (match tg with TCti c => N.eqb a c | _ => false end) = false -> get_or cti0 a (w_ctis w') = get_or cti0 a (w_ctis w)) ->
  (forall a, (match tg with TIrs c => N.eqb a c | _ => false end) = false -> get_or irs0 a (w_irss w') = get_or irs0 a (w_irss w)) ->
  (forall a, (match tg with TIdent c => N.eqb a c | _ => false end) = false -> get_or ident0 a (w_idents w') = get_or ident0 a (w_idents w)) ->
  (forall a, (match tg with TIssuer c => N.eqb a c | _ => false end) = false ->
             is_pairs (get_or issuer0 a (w_issuers w')) = is_pairs (get_or issuer0 a (w_issuers w))) ->
  ((match tg with TLinks => true | _ => false end) = false -> w_vcti w' = w_vcti w /\ w_virs w' = w_virs w) ->
  frame h (observe h w) (observe h w') tg = true.
Proof.
  intros H1 H2 H3 H4 H5. unfold frame, observe. cbn [o_ctis o_irss o_idents o_issuers o_ver vo_cti vo_irs].
  rewrite !combine3_map, !andb_true_iff. repeat split.
  - apply forallb_map_true. intros a. cbn [fst snd].
    destruct (match tg with TCti c => N.eqb a c | _ => false end) eqn:E; [reflexivity|]. rewrite (H1 a E). apply cti_obs_eqb_refl.
  - apply forallb_map_true. intros a. cbn [fst snd].
    destruct (match tg with TIrs c => N.eqb a c | _ => false end) eqn:E; [reflexivity|]. rewrite (H2 a E). apply irs_obs_eqb_refl.
  - apply forallb_map_true. intros a. cbn [fst snd].
    destruct (match tg with TIdent c => N.eqb a c | _ => false end) eqn:E; [reflexivity|]. rewrite (H3 a E). apply ident_static_world.
  - apply forallb_map_true. intros a. cbn [fst snd].
    destruct (match tg with TIssuer c => N.eqb a c | _ => false end) eqn:E; [reflexivity|].
    unfold issuer_static_eqb, observe_issuer. cbn [so_regs]. unfold get_registries. rewrite (H4 a E).
    apply list_eqb_refl. apply res_eqb_refl. apply list_eqb_refl. apply N.eqb_refl.
  - destruct (match tg with TLinks => true | _ => false end) eqn:E; [reflexivity|].
    destruct (H5 eq_refl) as [E1 E2]. unfold links_eqb. cbn [o_ver vo_cti vo_irs]. rewrite E1, E2, !(opt_eqb_refl _ N.eqb_refl). reflexivity.
Qed.

Lemma frame_same h w tg : frame h (observe h w) (observe h w) tg = true.
Proof. apply frame_model; intros; auto. Qed.
Lemma frame_clock h w x tg :
  frame h (observe h w)
    (observe h {| w_now := x; w_ctis := w_ctis w; w_irss := w_irss w; w_idents := w_idents w;
                  w_issuers := w_issuers w; w_vcti := w_vcti w; w_virs := w_virs w |}) tg = true.
Proof. apply frame_model; intros; auto. Qed.
Lemma frame_set_cti h w a s' : frame h (observe h w) (observe h (set_cti w a s')) (TCti a) = true.
Proof.
  apply frame_model; cbn [set_cti w_ctis w_irss w_idents w_issuers w_vcti w_virs]; intros; auto.
  rewrite get_or_aset, H. reflexivity.
Qed.
Lemma frame_set_irs h w a s' : frame h (observe h w) (observe h (set_irs w a s')) (TIrs a) = true.
Proof.
  apply frame_model; cbn [set_irs w_ctis w_irss w_idents w_issuers w_vcti w_virs]; intros; auto.
  rewrite get_or_aset, H. reflexivity.
Qed.
Lemma frame_set_ident h w a s' : frame h (observe h w) (observe h (set_ident w a s')) (TIdent a) = true.
Proof.
  apply frame_model; cbn [set_ident w_ctis w_irss w_idents w_issuers w_vcti w_virs]; intros; auto.
  rewrite get_or_aset, H. reflexivity.
Qed.
Lemma frame_set_issuer h w a s' : frame h (observe h w) (observe h (set_issuer w a s')) (TIssuer a) = true.
Proof.
  apply frame_model; cbn [set_issuer w_ctis w_irss w_idents w_issuers w_vcti w_virs]; intros; auto.
  rewrite get_or_aset, H. reflexivity.
Qed.
(* an issuer whose recorded pairs did not change *)
Lemma frame_set_issuer_same h w a s s' : the_issuer w a = Ok s -> is_pairs s' = is_pairs s ->
  frame h (observe h w) (observe h (set_issuer w a s')) TNone = true.
Proof.
  intros Es Ep. apply frame_model; cbn [set_issuer w_ctis w_irss w_idents w_issuers w_vcti w_virs]; intros; auto.
  rewrite get_or_aset. destruct (N.eqb a0 a) eqn:E; [|reflexivity].
  apply N.eqb_eq in E. subst a0. apply the_issuer_get in Es. rewrite (get_or_some _ _ _ _ Es). exact Ep.
Qed.

(* ---------------- what the registry operations do to the getters ---------------- *)
Lemma add_claim_topic_fields c s t s' : add_claim_topic c s t = Ok s' ->
  ct_topics s' = ct_topics s ++ [t] /\ ct_issuers s' = ct_issuers s /\ ct_itopics s' = ct_itopics s.
Proof.
  unfold add_claim_topic. destruct (_ <=? _); [discriminate|]. destruct (mem_z t (ct_topics s)); [discriminate|].
  intros H. inversion H. auto.
Qed.
Lemma remove_claim_topic_fields s t s' : cti_inv s -> remove_claim_topic s t = Ok s' ->
  In t (ct_topics s) /\ ct_topics s' = remove_first_or_same (Z.eqb t) (ct_topics s) /\ ct_issuers s' = ct_issuers s /\
  forall i, get_trusted_issuer_claim_topics s' i = res_map (remove_first_or_same (Z.eqb t)) (get_trusted_issuer_claim_topics s i).
Proof.
  intros Hi H. unfold remove_claim_topic in H. apply bind_ok in H. destruct H as [tp [Er H]]. apply of_option_ok in Er.
  assert (E1 : ct_topics s' = tp) by (inversion H; reflexivity).
  assert (E2 : ct_issuers s' = ct_issuers s) by (inversion H; reflexivity).
  assert (E3 : ct_itopics s' = drop_topic_of_issuers t (ct_issuers s) (ct_itopics s)) by (inversion H; reflexivity).
  split; [eapply (remove_first_some_In _ Z_eqb_spec); eauto|]. split; [unfold remove_first_or_same; rewrite Er; exact E1|]. split; auto.
  intros i. unfold get_trusted_issuer_claim_topics. rewrite E3, (drop_topic_spec t _ _ (ri_issuers_nodup s Hi)).
  destruct (mem_a i (ct_issuers s)) eqn:Em.
  - destruct (aget N.eqb i (ct_itopics s)); reflexivity.
  - apply mem_a_false in Em. pose proof (untrusted_no_topics s Hi i Em) as E0. unfold itop in E0.
    destruct (aget N.eqb i (ct_itopics s)); [subst; reflexivity | reflexivity].
Qed.
Lemma add_trusted_issuer_fields c s i ts s' : add_trusted_issuer c s i ts = Ok s' ->
  ct_topics s' = ct_topics s /\ ct_issuers s' = ct_issuers s ++ [i] /\
  forall j, get_trusted_issuer_claim_topics s' j = if N.eqb j i then Ok ts else get_trusted_issuer_claim_topics s j.
Proof.
  unfold add_trusted_issuer. destruct (negb _); [discriminate|]. destruct (_ <=? _); [discriminate|].
  destruct (mem_a i (ct_issuers s)); [discriminate|]. intros H. apply bind_ok in H. destruct H as [m [_ H]].
  assert (E3 : ct_itopics s' = aset N.eqb i ts (ct_itopics s)) by (inversion H; reflexivity).
  split; [inversion H; reflexivity|]. split; [inversion H; reflexivity|].
  intros j. unfold get_trusted_issuer_claim_topics. rewrite E3, (aget_aset _ N_eqb_spec). destruct (N.eqb j i); reflexivity.
Qed.
Lemma remove_trusted_issuer_fields s i s' : remove_trusted_issuer s i = Ok s' ->
  In i (ct_issuers s) /\ ct_topics s' = ct_topics s /\ ct_issuers s' = remove_first_or_same (N.eqb i) (ct_issuers s) /\
  forall j, get_trusted_issuer_claim_topics s' j = if N.eqb j i then Fail else get_trusted_issuer_claim_topics s j.
Proof.
  unfold remove_trusted_issuer. intros H. apply bind_ok in H. destruct H as [is' [Er H]]. apply of_option_ok in Er.
  apply bind_ok in H. destruct H as [its [_ H]]. apply bind_ok in H. destruct H as [m [_ H]].
  assert (E3 : ct_itopics s' = aremove N.eqb i (ct_itopics s)) by (inversion H; reflexivity).
  split; [eapply (remove_first_some_In _ N_eqb_spec); eauto|]. split; [inversion H; reflexivity|].
  split; [unfold remove_first_or_same; rewrite Er; inversion H; reflexivity|].
  intros j. unfold get_trusted_issuer_claim_topics. rewrite E3, (aget_aremove _ N_eqb_spec). destruct (N.eqb j i); reflexivity.
Qed.
Lemma update_issuer_fields c s i ts s' : update_issuer_claim_topics c s i ts = Ok s' ->
  In i (ct_issuers s) /\ ct_topics s' = ct_topics s /\ ct_issuers s' = ct_issuers s /\
  forall j, get_trusted_issuer_claim_topics s' j = if N.eqb j i then Ok ts else get_trusted_issuer_claim_topics s j.
Proof.
  unfold update_issuer_claim_topics. destruct (negb (topics_arg_ok c s ts)); [discriminate|].
  destruct (is_trusted_issuer s i) eqn:Et; cbn [negb]; [|discriminate]. intros H.
  apply bind_ok in H. destruct H as [old [_ H]]. apply bind_ok in H. destruct H as [m1 [_ H]]. apply bind_ok in H. destruct H as [m2 [_ H]].
  assert (E3 : ct_itopics s' = aset N.eqb i ts (ct_itopics s)) by (inversion H; reflexivity).
  split; [apply mem_a_In; exact Et|]. split; [inversion H; reflexivity|]. split; [inversion H; reflexivity|].
  intros j. unfold get_trusted_issuer_claim_topics. rewrite E3, (aget_aset _ N_eqb_spec). destruct (N.eqb j i); reflexivity.
Qed.

Lemma itopics_eqb_refl l : itopics_eqb l l = true.
Proof. apply list_eqb_refl. apply res_eqb_refl. apply list_eqb_refl. apply Z.eqb_refl. Qed.
Lemma zl_eqb_refl l : zl_eqb l l = true. Proof. apply list_eqb_refl. apply Z.eqb_refl. Qed.
Lemma al_eqb_refl l : al_eqb l l = true. Proof. apply list_eqb_refl. apply N.eqb_refl. Qed.

Section Effects.
  Variable h : hdr.
  Variable w : world.
  Hypothesis Hd : dom h w.
  Hypothesis Hw : world_inv w.
  Local Notation c := (cfg_of h).

  Lemma cti_effect_model a s s' f : the_cti w a = Ok s -> dom h (set_cti w a s') ->
    f (observe_cti h s) (observe_cti h s') = true ->
    cti_effect h (observe h w) (observe h (set_cti w a s')) a f = true.
  Proof.
    intros Es Hd' Hf. unfold cti_effect. rewrite (cti_at_model h w Hd), (cti_at_model h _ Hd').
    apply the_cti_get in Es. rewrite Es. cbn [set_cti w_ctis]. rewrite (aget_aset_eq _ N_eqb_spec). exact Hf.
  Qed.

  Lemma effect_add_topic a t s s' : the_cti w a = Ok s -> add_claim_topic c s t = Ok s' -> dom h (set_cti w a s') ->
    frame h (observe h w) (observe h (set_cti w a s')) (TCti a)
    && cti_effect h (observe h w) (observe h (set_cti w a s')) a (fun pc oc =>
          zl_eqb (co_topics oc) (co_topics pc ++ [t]) && al_eqb (co_issuers oc) (co_issuers pc)
          && itopics_eqb (co_itopics oc) (co_itopics pc)) = true.
  Proof.
    intros Es Ha Hd'. rewrite frame_set_cti. cbn [andb]. apply (cti_effect_model a s s'); auto.
    destruct (add_claim_topic_fields _ _ _ _ Ha) as [E1 [E2 E3]].
    unfold observe_cti. cbn [co_topics co_issuers co_itopics]. unfold get_trusted_issuer_claim_topics.
    rewrite E1, E2, E3, zl_eqb_refl, al_eqb_refl, itopics_eqb_refl. reflexivity.
  Qed.

  Lemma effect_remove_topic a t s s' : the_cti w a = Ok s -> remove_claim_topic s t = Ok s' -> dom h (set_cti w a s') ->
    frame h (observe h w) (observe h (set_cti w a s')) (TCti a)
    && cti_effect h (observe h w) (observe h (set_cti w a s')) a (fun pc oc =>
          mem_z t (co_topics pc)
          && zl_eqb (co_topics oc) (remove_first_or_same (Z.eqb t) (co_topics pc)) && al_eqb (co_issuers oc) (co_issuers pc)
          && itopics_eqb (co_itopics oc) (map (res_map (remove_first_or_same (Z.eqb t))) (co_itopics pc))) = true.
  Proof.
    intros Es Ha Hd'. rewrite frame_set_cti. cbn [andb]. apply (cti_effect_model a s s'); auto.
    pose proof (wi_cti w Hw _ _ (the_cti_get _ _ _ Es)) as Hi.
    destruct (remove_claim_topic_fields _ _ _ Hi Ha) as [E0 [E1 [E2 E3]]].
    unfold observe_cti. cbn [co_topics co_issuers co_itopics].
    apply mem_z_In in E0. rewrite E0, E1, E2, zl_eqb_refl, al_eqb_refl. cbn [andb].
    rewrite map_map. apply list_eqb_map2. intros i. rewrite E3. apply res_eqb_refl. apply list_eqb_refl. apply Z.eqb_refl.
  Qed.

  Lemma effect_add_issuer a i ts s s' : the_cti w a = Ok s -> add_trusted_issuer c s i ts = Ok s' -> dom h (set_cti w a s') ->
    frame h (observe h w) (observe h (set_cti w a s')) (TCti a)
    && cti_effect h (observe h w) (observe h (set_cti w a s')) a (fun pc oc =>
          zl_eqb (co_topics oc) (co_topics pc) && al_eqb (co_issuers oc) (co_issuers pc ++ [i])
          && itopics_eqb (co_itopics oc) (upd_at N.eqb i (Ok ts) (h_iaddrs h) (co_itopics pc))) = true.
  Proof.
    intros Es Ha Hd'. rewrite frame_set_cti. cbn [andb]. apply (cti_effect_model a s s'); auto.
    destruct (add_trusted_issuer_fields _ _ _ _ _ Ha) as [E1 [E2 E3]].
    unfold observe_cti. cbn [co_topics co_issuers co_itopics]. rewrite E1, E2, zl_eqb_refl, al_eqb_refl. cbn [andb].
    rewrite upd_at_map. apply list_eqb_map2. intros j. rewrite E3. apply res_eqb_refl. apply list_eqb_refl. apply Z.eqb_refl.
  Qed.

  Lemma effect_remove_issuer a i s s' : the_cti w a = Ok s -> remove_trusted_issuer s i = Ok s' -> dom h (set_cti w a s') ->
    frame h (observe h w) (observe h (set_cti w a s')) (TCti a)
    && cti_effect h (observe h w) (observe h (set_cti w a s')) a (fun pc oc =>
          mem_a i (co_issuers pc)
          && zl_eqb (co_topics oc) (co_topics pc) && al_eqb (co_issuers oc) (remove_first_or_same (N.eqb i) (co_issuers pc))
          && itopics_eqb (co_itopics oc) (upd_at N.eqb i Fail (h_iaddrs h) (co_itopics pc))) = true.
  Proof.
    intros Es Ha Hd'. rewrite frame_set_cti. cbn [andb]. apply (cti_effect_model a s s'); auto.
    destruct (remove_trusted_issuer_fields _ _ _ Ha) as [E0 [E1 [E2 E3]]].
    unfold observe_cti. cbn [co_topics co_issuers co_itopics]. apply mem_a_In in E0.
    rewrite E0, E1, E2, zl_eqb_refl, al_eqb_refl. cbn [andb].
    rewrite upd_at_map. apply list_eqb_map2. intros j. rewrite E3. apply res_eqb_refl. apply list_eqb_refl. apply Z.eqb_refl.
  Qed.

  Lemma effect_update_issuer a i ts s s' : the_cti w a = Ok s -> update_issuer_claim_topics c s i ts = Ok s' -> dom h (set_cti w a s') ->
    frame h (observe h w) (observe h (set_cti w a s')) (TCti a)
    && cti_effect h (observe h w) (observe h (set_cti w a s')) a (fun pc oc =>
          mem_a i (co_issuers pc)
          && zl_eqb (co_topics oc) (co_topics pc) && al_eqb (co_issuers oc) (co_issuers pc)
          && itopics_eqb (co_itopics oc) (upd_at N.eqb i (Ok ts) (h_iaddrs h) (co_itopics pc))) = true.
  Proof.
    intros Es Ha Hd'. rewrite frame_set_cti. cbn [andb]. apply (cti_effect_model a s s'); auto.
    destruct (update_issuer_fields _ _ _ _ _ Ha) as [E0 [E1 [E2 E3]]].
    unfold observe_cti. cbn [co_topics co_issuers co_itopics]. apply mem_a_In in E0.
    rewrite E0, E1, E2, zl_eqb_refl, al_eqb_refl. cbn [andb].
    rewrite upd_at_map. apply list_eqb_map2. intros j. rewrite E3. apply res_eqb_refl. apply list_eqb_refl. apply Z.eqb_refl.
  Qed.
End Effects.

(* ---------------- identity registry and claim store effects ---------------- *)
Lemma stored_eqb_refl l : list_eqb (res_eqb N.eqb) l l = true.
Proof. apply list_eqb_refl. apply res_eqb_refl. apply N.eqb_refl. Qed.
Lemma recov_eqb_refl l : list_eqb (opt_eqb N.eqb) l l = true.
Proof. apply list_eqb_refl. apply opt_eqb_refl. apply N.eqb_refl. Qed.

Section Effects2.
  Variable h : hdr.
  Variable w : world.
  Hypothesis Hd : dom h w.
  Local Notation c := (cfg_of h).

  Lemma irs_effect_model a s s' f : the_irs w a = Ok s -> dom h (set_irs w a s') ->
    f (observe_irs h s) (observe_irs h s') = true ->
    irs_effect h (observe h w) (observe h (set_irs w a s')) a f = true.
  Proof.
    intros Es Hd' Hf. unfold irs_effect. rewrite (irs_at_model h w Hd), (irs_at_model h _ Hd').
    unfold the_irs in Es. apply of_option_ok in Es. rewrite Es. cbn [set_irs w_irss]. rewrite (aget_aset_eq _ N_eqb_spec). exact Hf.
  Qed.
  Lemma ident_effect_model a s s' f : the_ident w a = Ok s -> dom h (set_ident w a s') ->
    f (observe_ident h c w a s) (observe_ident h c (set_ident w a s') a s') = true ->
    ident_effect h (observe h w) (observe h (set_ident w a s')) a f = true.
  Proof.
    intros Es Hd' Hf. unfold ident_effect. rewrite (ident_at_model h w Hd), (ident_at_model h _ Hd').
    apply the_ident_get in Es. rewrite Es. cbn [set_ident w_idents]. rewrite (aget_aset_eq _ N_eqb_spec). exact Hf.
  Qed.

  Lemma effect_set_identity r a d s s' : the_irs w r = Ok s -> dom h (set_irs w r s') ->
    ir_identity s' = aset N.eqb a d (ir_identity s) -> ir_recovered s' = ir_recovered s ->
    frame h (observe h w) (observe h (set_irs w r s')) (TIrs r)
    && irs_effect h (observe h w) (observe h (set_irs w r s')) r (fun pc oc =>
          list_eqb (res_eqb N.eqb) (io_stored oc) (upd_at N.eqb a (Ok d) (h_accounts h) (io_stored pc))
          && list_eqb (opt_eqb N.eqb) (io_recovered oc) (io_recovered pc)) = true.
  Proof.
    intros Es Hd' E1 E2. rewrite frame_set_irs. cbn [andb]. apply (irs_effect_model r s s'); auto.
    unfold observe_irs. cbn [io_stored io_recovered]. unfold get_recovered_to. rewrite E2, recov_eqb_refl, andb_true_r.
    rewrite upd_at_map. apply list_eqb_map2. intros x. unfold stored_identity. rewrite E1, (aget_aset _ N_eqb_spec).
    destruct (N.eqb x a); apply res_eqb_refl; apply N.eqb_refl.
  Qed.

  Lemma effect_remove_identity r a s s' : the_irs w r = Ok s -> remove_identity s a = Ok s' -> dom h (set_irs w r s') ->
    In a (h_accounts h) ->
    frame h (observe h w) (observe h (set_irs w r s')) (TIrs r)
    && irs_effect h (observe h w) (observe h (set_irs w r s')) r (fun pc oc =>
          match at_key N.eqb a (h_accounts h) (io_stored pc) with Some (Ok _) => true | _ => false end
          && list_eqb (res_eqb N.eqb) (io_stored oc) (upd_at N.eqb a Fail (h_accounts h) (io_stored pc))
          && list_eqb (opt_eqb N.eqb) (io_recovered oc) (io_recovered pc)) = true.
  Proof.
    intros Es Ha Hd' Hin. rewrite frame_set_irs. cbn [andb]. apply (irs_effect_model r s s'); auto.
    unfold remove_identity in Ha. apply bind_ok in Ha. destruct Ha as [d0 [E0 Ha]]. apply bind_ok in Ha. destruct Ha as [p0 [_ Ha]].
    assert (E1 : ir_identity s' = aremove N.eqb a (ir_identity s)) by (inversion Ha; reflexivity).
    assert (E2 : ir_recovered s' = ir_recovered s) by (inversion Ha; reflexivity).
    unfold observe_irs. cbn [io_stored io_recovered]. unfold get_recovered_to. rewrite E2, recov_eqb_refl, andb_true_r.
    rw_lookup (at_key_map_in _ N_eqb_spec (stored_identity s) a _ Hin). rewrite E0. cbn [andb].
    rewrite upd_at_map. apply list_eqb_map2. intros x. unfold stored_identity. rewrite E1, (aget_aremove _ N_eqb_spec).
    destruct (N.eqb x a); apply res_eqb_refl; apply N.eqb_refl.
  Qed.

  Lemma effect_recover_identity r old new s s' : the_irs w r = Ok s -> recover_identity s old new = Ok s' -> dom h (set_irs w r s') ->
    In old (h_accounts h) ->
    frame h (observe h w) (observe h (set_irs w r s')) (TIrs r)
    && irs_effect h (observe h w) (observe h (set_irs w r s')) r (fun pc oc =>
          match at_key N.eqb old (h_accounts h) (io_stored pc) with
          | Some (Ok d) =>
              list_eqb (res_eqb N.eqb) (io_stored oc)
                (upd_at N.eqb old Fail (h_accounts h) (upd_at N.eqb new (Ok d) (h_accounts h) (io_stored pc)))
          | _ => false
          end
          && list_eqb (opt_eqb N.eqb) (io_recovered oc) (upd_at N.eqb old (Some new) (h_accounts h) (io_recovered pc))) = true.
  Proof.
    intros Es Ha Hd' Hin. rewrite frame_set_irs. cbn [andb]. apply (irs_effect_model r s s'); auto.
    unfold recover_identity in Ha. destruct (is_some (get_recovered_to s new)); [discriminate|].
    apply bind_ok in Ha. destruct Ha as [d [E0 Ha]]. destruct (is_some (aget N.eqb new (ir_identity s))); [discriminate|].
    apply bind_ok in Ha. destruct Ha as [p0 [_ Ha]].
    assert (E1 : ir_identity s' = aremove N.eqb old (aset N.eqb new d (ir_identity s))) by (inversion Ha; reflexivity).
    assert (E2 : ir_recovered s' = aset N.eqb old new (ir_recovered s)) by (inversion Ha; reflexivity).
    unfold observe_irs. cbn [io_stored io_recovered].
    rw_lookup (at_key_map_in _ N_eqb_spec (stored_identity s) old _ Hin). rewrite E0.
    apply andb_true_iff. split.
    - rewrite upd_at_map, upd_at_map. apply list_eqb_map2. intros x. unfold stored_identity.
      rewrite E1, (aget_aremove _ N_eqb_spec), (aget_aset _ N_eqb_spec).
      destruct (N.eqb x old); [reflexivity|]. destruct (N.eqb x new); apply res_eqb_refl; apply N.eqb_refl.
    - rewrite upd_at_map. apply list_eqb_map2. intros x. unfold get_recovered_to. rewrite E2, (aget_aset _ N_eqb_spec).
      destruct (N.eqb x old); apply opt_eqb_refl; apply N.eqb_refl.
  Qed.

  (* --- claim store --- *)
  Lemma claim_cell_model d s id : id_in_universe h id = true ->
    claim_cell h (observe_ident h c w d s) id = match get_claim s id with Ok cl => Some cl | Fail => None end.
  Proof.
    intros Hu. unfold id_in_universe in Hu. apply andb_true_iff in Hu. destruct Hu as [H1 H2].
    apply mem_a_In in H1. apply mem_z_In in H2. destruct id as [i t]. cbn [fst snd] in *.
    unfold claim_cell. cbn [fst snd]. rewrite (cell_at_model h w d s i t H1 H2). apply cell_claim.
  Qed.
  Lemma ids_upd_map t v (f : Z -> list cid) :
    ids_upd h t v (map f (h_topics h)) = map (fun x => if x =? t then v else f x) (h_topics h).
  Proof. unfold ids_upd. apply upd_at_map. Qed.

  Lemma claims_after w' d s s' id v :
    (forall x, get_claim s' x = if cid_eqb x id then (match v with Some cl => Ok cl | None => Fail end) else get_claim s x) ->
    list_eqb (list_eqb (opt_eqb claim_eqb)) (claims_of (observe_ident h c w' d s'))
      (claims_upd h id v (claims_of (observe_ident h c w d s))) = true.
  Proof.
    intros Hg. rewrite !claims_of_model, claims_upd_map. apply list_eqb_map2. intros i. apply list_eqb_map2. intros t.
    rewrite Hg. unfold cid_eqb. cbn [fst snd]. destruct (N.eqb i (fst id) && (t =? snd id)).
    - destruct v; apply opt_eqb_refl; apply claim_eqb_refl.
    - apply opt_eqb_refl. apply claim_eqb_refl.
  Qed.

  Lemma effect_add_claim d cl valid s s' id : the_ident w d = Ok s -> add_claim s cl valid = Ok (s', id) ->
    dom h (set_ident w d s') -> id_in_universe h (cl_issuer cl, cl_topic cl) = true ->
    id = (cl_issuer cl, cl_topic cl) /\
    frame h (observe h w) (observe h (set_ident w d s')) (TIdent d)
    && ident_effect h (observe h w) (observe h (set_ident w d s')) d (fun pc oc =>
          list_eqb (list_eqb (opt_eqb claim_eqb)) (claims_of oc) (claims_upd h (cl_issuer cl, cl_topic cl) (Some cl) (claims_of pc))
          && list_eqb (list_eqb cid_eqb) (do_ids oc)
               (if is_some (claim_cell h pc (cl_issuer cl, cl_topic cl)) then do_ids pc
                else ids_upd h (cl_topic cl) (ids_at h pc (cl_topic cl) ++ [(cl_issuer cl, cl_topic cl)]) (do_ids pc))) = true.
  Proof.
    intros Es Ha Hd' Hu. unfold add_claim in Ha. destruct valid as [[]|]; cbn [bind] in Ha; [|discriminate].
    set (id0 := (cl_issuer cl, cl_topic cl)) in *.
    assert (Eid : id = id0) by (inversion Ha; reflexivity). split; auto.
    assert (Ec : id_claims s' = aset cid_eqb id0 cl (id_claims s)) by (inversion Ha; reflexivity).
    assert (Ex : id_index s' = if negb (is_some (aget cid_eqb id0 (id_claims s)))
                                then aset Z.eqb (cl_topic cl) (get_claim_ids_by_topic s (cl_topic cl) ++ [id0]) (id_index s)
                                else id_index s) by (inversion Ha; reflexivity).
    rewrite frame_set_ident. cbn [andb]. apply (ident_effect_model d s s'); auto.
    apply andb_true_iff. split.
    - apply claims_after. intros x. unfold get_claim. rewrite Ec, (aget_aset _ cid_eqb_spec). destruct (cid_eqb x id0); reflexivity.
    - rewrite (claim_cell_model d s id0 Hu). unfold get_claim at 1.
      assert (Htu : In (cl_topic cl) (h_topics h)).
      { unfold id_in_universe in Hu. apply andb_true_iff in Hu. destruct Hu as [_ H2]. apply mem_z_In in H2. exact H2. }
      rewrite (ids_at_model h w d s _ Htu). unfold observe_ident. cbn [do_ids].
      destruct (aget cid_eqb id0 (id_claims s)) as [old|] eqn:Eo; cbn [of_option is_some negb] in *.
      + apply list_eqb_map2. intros t. unfold get_claim_ids_by_topic. rewrite Ex. apply list_eqb_refl. apply cid_eqb_refl.
      + rewrite ids_upd_map. apply list_eqb_map2. intros t. unfold get_claim_ids_by_topic at 1. rewrite Ex, ids_after_set.
        destruct (t =? cl_topic cl); apply list_eqb_refl; apply cid_eqb_refl.
  Qed.

  Lemma effect_remove_claim d id s s' : the_ident w d = Ok s -> remove_claim s id = Ok s' ->
    dom h (set_ident w d s') -> id_in_universe h id = true ->
    frame h (observe h w) (observe h (set_ident w d s')) (TIdent d)
    && ident_effect h (observe h w) (observe h (set_ident w d s')) d (fun pc oc =>
          match claim_cell h pc id with
          | Some cl =>
              list_eqb (list_eqb (opt_eqb claim_eqb)) (claims_of oc) (claims_upd h id None (claims_of pc))
              && list_eqb (list_eqb cid_eqb) (do_ids oc)
                   (ids_upd h (cl_topic cl) (remove_first_or_same (cid_eqb id) (ids_at h pc (cl_topic cl))) (do_ids pc))
          | None => false
          end) = true.
  Proof.
    intros Es Ha Hd' Hu. unfold remove_claim in Ha. apply bind_ok in Ha. destruct Ha as [cl [Eg Ha]].
    assert (Ec : id_claims s' = aremove cid_eqb id (id_claims s)) by (inversion Ha; reflexivity).
    assert (Ex : id_index s' = match remove_first (cid_eqb id) (get_claim_ids_by_topic s (cl_topic cl)) with
                               | Some ids' => if is_nil ids' then aremove Z.eqb (cl_topic cl) (id_index s)
                                              else aset Z.eqb (cl_topic cl) ids' (id_index s)
                               | None => id_index s end) by (inversion Ha; reflexivity).
    rewrite frame_set_ident. cbn [andb]. apply (ident_effect_model d s s'); auto.
    rewrite (claim_cell_model d s id Hu), Eg. apply andb_true_iff. split.
    - apply claims_after. intros x. unfold get_claim. rewrite Ec, (aget_aremove _ cid_eqb_spec). destruct (cid_eqb x id); reflexivity.
    - unfold observe_ident. cbn [do_ids].
      assert (Hids : forall t, get_claim_ids_by_topic s' t =
                if t =? cl_topic cl then remove_first_or_same (cid_eqb id) (get_claim_ids_by_topic s (cl_topic cl))
                else get_claim_ids_by_topic s t).
      { intros t. unfold get_claim_ids_by_topic at 1. rewrite Ex. unfold remove_first_or_same.
        destruct (remove_first (cid_eqb id) (get_claim_ids_by_topic s (cl_topic cl))) as [ids'|] eqn:Er.
        - destruct (is_nil ids') eqn:En.
          + destruct ids'; [|discriminate]. rewrite (aget_aremove _ Z_eqb_spec). destruct (t =? cl_topic cl); reflexivity.
          + rewrite (aget_aset _ Z_eqb_spec). destruct (t =? cl_topic cl); reflexivity.
        - fold (get_claim_ids_by_topic s t). destruct (t =? cl_topic cl) eqn:Et; auto. apply Z.eqb_eq in Et. subst. reflexivity. }
      assert (Hat : forall t, In t (h_topics h) -> (if t =? cl_topic cl then remove_first_or_same (cid_eqb id) (ids_at h (observe_ident h c w d s) (cl_topic cl)) else get_claim_ids_by_topic s t)
                               = get_claim_ids_by_topic s' t).
      { intros t Ht. rewrite Hids. destruct (t =? cl_topic cl) eqn:Et; auto. apply Z.eqb_eq in Et. subst t.
        rewrite (ids_at_model h w d s _ Ht). reflexivity. }
      fold (observe_ident h c w d s). rewrite ids_upd_map.
      (* pointwise over the topics of the universe *)
      assert (Hl : forall l, (forall t, In t l -> In t (h_topics h)) ->
                 list_eqb (list_eqb cid_eqb) (map (get_claim_ids_by_topic s') l)
                   (map (fun x => if x =? cl_topic cl then remove_first_or_same (cid_eqb id) (ids_at h (observe_ident h c w d s) (cl_topic cl))
                                  else get_claim_ids_by_topic s x) l) = true).
      { induction l as [|t l IH]; intros Hsub; cbn; auto.
        rewrite (Hat t (Hsub t (or_introl eq_refl))), (list_eqb_refl _ cid_eqb_refl), IH; auto. intros x Hx. apply Hsub. right. exact Hx. }
      apply Hl. auto.
  Qed.

  Lemma effect_force_claim d id ix cl s : the_ident w d = Ok s ->
    dom h (set_ident w d (force_claim s id ix cl)) -> id_in_universe h id = true -> In ix (h_topics h) ->
    frame h (observe h w) (observe h (set_ident w d (force_claim s id ix cl))) (TIdent d)
    && ident_effect h (observe h w) (observe h (set_ident w d (force_claim s id ix cl))) d (fun pc oc =>
          list_eqb (list_eqb (opt_eqb claim_eqb)) (claims_of oc) (claims_upd h id (Some cl) (claims_of pc))
          && list_eqb (list_eqb cid_eqb) (do_ids oc)
               (if existsb (cid_eqb id) (ids_at h pc ix) then do_ids pc else ids_upd h ix (ids_at h pc ix ++ [id]) (do_ids pc))) = true.
  Proof.
    intros Es Hd' Hu Hix. rewrite frame_set_ident. cbn [andb]. apply (ident_effect_model d s _); auto.
    apply andb_true_iff. split.
    - apply claims_after. intros x. unfold get_claim, force_claim. cbn [id_claims]. rewrite (aget_aset _ cid_eqb_spec).
      destruct (cid_eqb x id); reflexivity.
    - rewrite (ids_at_model h w d s _ Hix). unfold observe_ident. cbn [do_ids]. unfold force_claim.
      destruct (existsb (cid_eqb id) (get_claim_ids_by_topic s ix)) eqn:Ee.
      + apply list_eqb_map2. intros t. unfold get_claim_ids_by_topic. cbn [id_index]. apply list_eqb_refl. apply cid_eqb_refl.
      + rewrite ids_upd_map. apply list_eqb_map2. intros t. unfold get_claim_ids_by_topic at 1. cbn [id_index]. rewrite ids_after_set.
        destruct (t =? ix); apply list_eqb_refl; apply cid_eqb_refl.
  Qed.
End Effects2.

(* ---------------- every call of the model satisfies the call clauses ---------------- *)
Lemma dom_set_cti h w a s s' : dom h w -> the_cti w a = Ok s -> dom h (set_cti w a s').
Proof.
  intros [D1 D2 D3 D4] Es. constructor; cbn [set_cti w_ctis w_irss w_idents w_issuers]; auto.
  apply dom_ok_set; auto. apply the_cti_get in Es. congruence.
Qed.
Lemma dom_set_irs h w a s s' : dom h w -> the_irs w a = Ok s -> dom h (set_irs w a s').
Proof.
  intros [D1 D2 D3 D4] Es. constructor; cbn [set_irs w_ctis w_irss w_idents w_issuers]; auto.
  apply dom_ok_set; auto. apply the_irs_get in Es. congruence.
Qed.
Lemma dom_set_ident h w a s s' : dom h w -> the_ident w a = Ok s -> dom h (set_ident w a s').
Proof.
  intros [D1 D2 D3 D4] Es. constructor; cbn [set_ident w_ctis w_irss w_idents w_issuers]; auto.
  apply dom_ok_set; auto. apply the_ident_get in Es. congruence.
Qed.
Lemma dom_set_issuer h w a s s' : dom h w -> the_issuer w a = Ok s -> dom h (set_issuer w a s').
Proof.
  intros [D1 D2 D3 D4] Es. constructor; cbn [set_issuer w_ctis w_irss w_idents w_issuers]; auto.
  apply dom_ok_set; auto. apply the_issuer_get in Es. congruence.
Qed.

Lemma id_universe_split h id : id_in_universe h id = true -> In (fst id) (h_iaddrs h) /\ In (snd id) (h_topics h).
Proof. unfold id_in_universe. rewrite andb_true_iff, mem_a_In, mem_z_In. tauto. Qed.

Definition is_time (k : call) : bool := match k with Advance _ | Ledger _ _ => true | _ => false end.

Ltac clock_tac := unfold clock_ok; cbn [observe o_now set_cti set_irs set_ident set_issuer w_now]; rewrite ?Z.add_0_r; apply Z.eqb_refl.

Section CallModel.
  Variable h : hdr.
  Variable w : world.
  Variable g : ghost.
  Hypothesis Hd : dom h w.
  Hypothesis Hw : world_inv w.
  Hypothesis Hg : ghost_ok w g.
  Local Notation c := (cfg_of h).
  Local Notation o := (observe h w).

  (* a call that fails or only reads: same world *)
  Lemma mc_same k out : is_time k = false -> ghost_step g k out = g -> answer_ok h o g k out = true ->
    (forall v, out = Ok v -> effect_ok h o o k v = frame h o o TNone) ->
    mon_call h o o g k out = true.
  Proof.
    intros Ht Eg Ha He. unfold mon_call. rewrite Ha, andb_true_r.
    apply andb_true_iff. split.
    - unfold clock_ok. destruct k; try discriminate; destruct out; rewrite ?Z.add_0_r; apply Z.eqb_refl.
    - destruct out as [v|]; [rewrite (He v eq_refl)|]; apply frame_same.
  Qed.
End CallModel.

Lemma frame_links h w x y :
  frame h (observe h w)
    (observe h {| w_now := w_now w; w_ctis := w_ctis w; w_irss := w_irss w; w_idents := w_idents w;
                  w_issuers := w_issuers w; w_vcti := x; w_virs := y |}) TLinks = true.
Proof. apply frame_model; intros; auto. discriminate. Qed.

Section CallModel2.
  Variable h : hdr.
  Variable w : world.
  Variable g : ghost.
  Hypothesis Hd : dom h w.
  Hypothesis Hw : world_inv w.
  Hypothesis Hg : ghost_ok w g.
  Local Notation cf := (cfg_of h).
  Local Notation o := (observe h w).

  Ltac fail_case := apply mc_same; [reflexivity | reflexivity | reflexivity | intros v Ev; discriminate].
  Ltac split3 := unfold mon_call; rewrite !andb_true_iff; split; [split|].

  Lemma in_accounts a : mem_a a (h_accounts h) = true -> In a (h_accounts h).
  Proof. apply mem_a_In. Qed.

  Lemma mon_call_model k : wf_call h k = true ->
    mon_call h o (observe h (fst (step cf w k))) (ghost_step g k (snd (step cf w k))) k (snd (step cf w k)) = true.
  Proof.
    intros Hwf.
    pose proof (step_ghost_ok cf w k g Hw Hg) as Hg'.
    destruct k; cbn [step wf_call] in *.
    - (* AddTopic *)
      unfold upd in *. destruct (the_cti w c) as [s|] eqn:Es; cbn [bind] in *; [|fail_case].
      destruct (add_claim_topic cf s t) as [s'|] eqn:Ea; cbn [fst snd] in *; [|fail_case].
      split3; [clock_tac | reflexivity | cbn [effect_ok]; apply (effect_add_topic h w Hd c t s s'); eauto using dom_set_cti].
    - (* RemoveTopic *)
      unfold upd in *. destruct (the_cti w c) as [s|] eqn:Es; cbn [bind] in *; [|fail_case].
      destruct (remove_claim_topic s t) as [s'|] eqn:Ea; cbn [fst snd] in *; [|fail_case].
      split3; [clock_tac | reflexivity | cbn [effect_ok]; apply (effect_remove_topic h w Hd Hw c t s s'); eauto using dom_set_cti].
    - (* AddIssuer *)
      unfold upd in *. destruct (the_cti w c) as [s|] eqn:Es; cbn [bind] in *; [|fail_case].
      destruct (add_trusted_issuer cf s i ts) as [s'|] eqn:Ea; cbn [fst snd] in *; [|fail_case].
      split3; [clock_tac | reflexivity | cbn [effect_ok]; rewrite Hwf; cbn [andb]; apply (effect_add_issuer h w Hd c i ts s s'); eauto using dom_set_cti].
    - (* RemoveIssuer *)
      unfold upd in *. destruct (the_cti w c) as [s|] eqn:Es; cbn [bind] in *; [|fail_case].
      destruct (remove_trusted_issuer s i) as [s'|] eqn:Ea; cbn [fst snd] in *; [|fail_case].
      split3; [clock_tac | reflexivity | cbn [effect_ok]; rewrite Hwf; cbn [andb]; apply (effect_remove_issuer h w Hd c i s s'); eauto using dom_set_cti].
    - (* UpdateIssuer *)
      unfold upd in *. destruct (the_cti w c) as [s|] eqn:Es; cbn [bind] in *; [|fail_case].
      destruct (update_issuer_claim_topics cf s i ts) as [s'|] eqn:Ea; cbn [fst snd] in *; [|fail_case].
      split3; [clock_tac | reflexivity | cbn [effect_ok]; rewrite Hwf; cbn [andb]; apply (effect_update_issuer h w Hd c i ts s s'); eauto using dom_set_cti].
    - (* AddIdentity *)
      unfold upd in *. destruct (the_irs w r) as [s|] eqn:Es; cbn [bind] in *; [|fail_case].
      destruct (add_identity cf s a d ncountries) as [s'|] eqn:Ea; cbn [fst snd] in *; [|fail_case].
      split3; [clock_tac | reflexivity | cbn [effect_ok]; rewrite Hwf; cbn [andb]].
      apply (effect_set_identity h w Hd r a d s s'); eauto using dom_set_irs.
      + unfold add_identity in Ea. destruct (is_some _); [discriminate|]. destruct (_ =? 0); [discriminate|].
        destruct (_ <? _); [discriminate|]. destruct (is_some _); [discriminate|]. inversion Ea. reflexivity.
      + unfold add_identity in Ea. destruct (is_some _); [discriminate|]. destruct (_ =? 0); [discriminate|].
        destruct (_ <? _); [discriminate|]. destruct (is_some _); [discriminate|]. inversion Ea. reflexivity.
    - (* ModifyIdentity *)
      unfold upd in *. destruct (the_irs w r) as [s|] eqn:Es; cbn [bind] in *; [|fail_case].
      destruct (modify_identity s a d) as [s'|] eqn:Ea; cbn [fst snd] in *; [|fail_case].
      split3; [clock_tac | reflexivity | cbn [effect_ok]; rewrite Hwf; cbn [andb]].
      unfold modify_identity in Ea. apply bind_ok in Ea. destruct Ea as [d0 [_ Ea]].
      apply (effect_set_identity h w Hd r a d s s'); eauto using dom_set_irs; inversion Ea; reflexivity.
    - (* RemoveIdentity *)
      unfold upd in *. destruct (the_irs w r) as [s|] eqn:Es; cbn [bind] in *; [|fail_case].
      destruct (remove_identity s a) as [s'|] eqn:Ea; cbn [fst snd] in *; [|fail_case].
      split3; [clock_tac | reflexivity | cbn [effect_ok]; rewrite Hwf; cbn [andb]].
      apply (effect_remove_identity h w Hd r a s s'); eauto using dom_set_irs, in_accounts.
    - (* RecoverIdentity *)
      apply andb_true_iff in Hwf. destruct Hwf as [Hw1 Hw2].
      unfold upd in *. destruct (the_irs w r) as [s|] eqn:Es; cbn [bind] in *; [|fail_case].
      destruct (recover_identity s old new) as [s'|] eqn:Ea; cbn [fst snd] in *; [|fail_case].
      split3; [clock_tac | reflexivity | cbn [effect_ok]; rewrite Hw1, Hw2; cbn [andb]].
      apply (effect_recover_identity h w Hd r old new s s'); eauto using dom_set_irs, in_accounts.
    - (* AddClaim *)
      destruct (the_ident w d) as [s|] eqn:Es; cbn [bind] in *; [|fail_case].
      destruct (add_claim s cl _) as [[s' id]|] eqn:Ea; cbn [fst snd] in *; [|fail_case].
      destruct (effect_add_claim h w Hd d cl _ s s' id Es Ea (dom_set_ident h w d s s' Hd Es) Hwf) as [Eid He].
      split3; [clock_tac | | cbn [effect_ok]; rewrite Hwf, Eid; cbn [andb oval_eqb]; rewrite cid_eqb_refl; cbn [andb]; exact He].
      cbn [answer_ok is_ok implb ghost_step].
      assert (Hin : mem_a d (h_idents h) = true).
      { apply mem_a_In. apply (dm_ident h w Hd). apply the_ident_get in Es. congruence. }
      rewrite Hin. cbn [andb].
      rewrite (confirm_expected_now h (observe h (set_ident w d s')) o g) by reflexivity.
      rewrite (confirm_model h w g Hd Hw Hg).
      unfold add_claim in Ea.
      destruct (call_is_claim_valid cf w (cl_issuer cl) d (cl_topic cl) (cl_scheme cl) (cl_sig cl) (cl_data cl)) as [[]|];
        [reflexivity | discriminate].
    - (* RemoveClaim *)
      unfold upd in *. destruct (the_ident w d) as [s|] eqn:Es; cbn [bind] in *; [|fail_case].
      destruct (remove_claim s id) as [s'|] eqn:Ea; cbn [fst snd] in *; [|fail_case].
      split3; [clock_tac | reflexivity | cbn [effect_ok]; rewrite Hwf; cbn [andb]].
      apply (effect_remove_claim h w Hd d id s s'); eauto using dom_set_ident.
    - (* ForceClaim *)
      apply andb_true_iff in Hwf. destruct Hwf as [Hw1 Hw2].
      unfold upd in *. destruct (the_ident w d) as [s|] eqn:Es; cbn [bind fst snd] in *.
      + assert (Hin : mem_a d (h_idents h) = true).
        { apply mem_a_In. apply (dm_ident h w Hd). apply the_ident_get in Es. congruence. }
        split3; [clock_tac | cbn [answer_ok is_ok]; rewrite Hin; reflexivity | cbn [effect_ok]; rewrite Hw1, Hw2; cbn [andb]].
        apply (effect_force_claim h w Hd d id index_topic cl s); eauto using dom_set_ident. apply mem_z_In. exact Hw2.
      + apply mc_same; [reflexivity | reflexivity | | intros v Ev; discriminate].
        cbn [answer_ok is_ok ghost_step]. assert (Hin : mem_a d (h_idents h) = false); [|rewrite Hin; reflexivity].
        apply mem_a_false. intros Hx. apply (dm_ident h w Hd) in Hx. unfold the_ident in Es.
        destruct (aget N.eqb d (w_idents w)); [discriminate | congruence].
    - (* AllowKey *)
      unfold upd in *. destruct (the_issuer w i) as [s|] eqn:Es; cbn [bind] in *; [|fail_case].
      destruct (allow_key cf s pk registry scheme topic _) as [s'|] eqn:Ea; cbn [fst snd] in *; [|fail_case].
      split3; [clock_tac | reflexivity | cbn [effect_ok]; apply frame_set_issuer].
    - (* RemoveKey *)
      unfold upd in *. destruct (the_issuer w i) as [s|] eqn:Es; cbn [bind] in *; [|fail_case].
      destruct (remove_key s pk registry scheme topic) as [s'|] eqn:Ea; cbn [fst snd] in *; [|fail_case].
      split3; [clock_tac | reflexivity | cbn [effect_ok]; apply frame_set_issuer].
    - (* Invalidate *)
      pose proof (is_issuer_model h w Hd i) as Hiss. unfold is_issuer.
      unfold upd in *. destruct (the_issuer w i) as [s|] eqn:Es; cbn [bind is_ok] in *.
      + destruct (wi_issuer w Hw _ _ (the_issuer_get _ _ _ Es)) as [_ Hn].
        destruct (invalidate_claim_signatures s d topic) as [s'|] eqn:Ea; cbn [fst snd] in *.
        * destruct (nonce_after_invalidate _ _ _ _ Ea) as [En [Hmax [_ [_ [F2 _]]]]].
          split3; [clock_tac | | cbn [effect_ok]; apply (frame_set_issuer_same h w i s s' Es F2)].
          cbn [answer_ok is_ok]. unfold is_issuer. rewrite Hiss. cbn [andb].
          assert (E : gnonce (ghost_step g (Invalidate i d topic) (Ok VUnit)) i d topic = get_current_nonce_for s' d topic).
          { apply (go_nonce _ _ Hg' i s'). cbn [set_issuer w_issuers]. apply (aget_aset_eq _ N_eqb_spec). }
          rewrite E, En. assert ((get_current_nonce_for s d topic + 1 <=? MAXU32) = true) as -> by (apply Z.leb_le; exact Hmax). reflexivity.
        * apply mc_same; [reflexivity | reflexivity | | intros v Ev; discriminate].
          cbn [answer_ok is_ok ghost_step]. unfold is_issuer. rewrite Hiss. cbn [andb].
          cbn [ghost_step]. rewrite (go_nonce w g Hg i s d topic (the_issuer_get _ _ _ Es)).
          unfold invalidate_claim_signatures, checked_add_u32, in_u32 in Ea. specialize (Hn d topic).
          destruct ((0 <=? get_current_nonce_for s d topic + 1) && (get_current_nonce_for s d topic + 1 <=? MAXU32)) eqn:E; cbn in Ea; [discriminate|].
          apply andb_false_iff in E. destruct E as [E|E]; [apply Z.leb_gt in E; lia|]. rewrite E. reflexivity.
      + apply mc_same; [reflexivity | reflexivity | | intros v Ev; discriminate].
        cbn [answer_ok is_ok ghost_step]. unfold is_issuer. rewrite Hiss. reflexivity.
    - (* SetRevoked *)
      pose proof (is_issuer_model h w Hd i) as Hiss.
      unfold upd in *. destruct (the_issuer w i) as [s|] eqn:Es; cbn [bind is_ok fst snd] in *.
      + split3; [clock_tac | cbn [answer_ok is_ok]; unfold is_issuer; rewrite Hiss; reflexivity
                 | cbn [effect_ok]; apply (frame_set_issuer_same h w i s _ Es); reflexivity].
      + apply mc_same; [reflexivity | reflexivity | | intros v Ev; discriminate].
        cbn [answer_ok is_ok ghost_step]. unfold is_issuer. rewrite Hiss. reflexivity.
    - (* IsClaimValid *)
      unfold pure. cbn [fst snd]. apply mc_same; [reflexivity | reflexivity | | intros v Ev; reflexivity].
      cbn [answer_ok ghost_step]. rewrite (confirm_model h w g Hd Hw Hg).
      destruct (call_is_claim_valid cf w i d topic scheme sig data) as [[]|]; reflexivity.
    - (* AuthorizedFor *)
      unfold pure. cbn [fst snd]. apply mc_same; [reflexivity | reflexivity | | intros v Ev; reflexivity].
      cbn [answer_ok ghost_step]. unfold is_issuer. rewrite (is_issuer_model h w Hd i).
      destruct (the_issuer w i) as [s|]; cbn [bind is_ok]; [|reflexivity].
      rewrite (cti_at_model h w Hd). unfold call_has_claim_topic, the_cti.
      destruct (aget N.eqb registry (w_ctis w)) as [ct|]; cbn [of_option bind]; [|reflexivity].
      unfold observe_cti. cbn [co_itopics].
      rewrite (at_key_map _ N_eqb_spec (get_trusted_issuer_claim_topics ct)).
      destruct (existsb (N.eqb i) (h_iaddrs h)); [|apply outcome_eqb_refl].
      unfold has_claim_topic. destruct (get_trusted_issuer_claim_topics ct i); cbn [bind]; apply outcome_eqb_refl.
    - (* Message *)
      unfold pure. cbn [fst snd]. apply mc_same; [reflexivity | reflexivity | | intros v Ev; reflexivity].
      cbn [answer_ok ghost_step]. unfold is_issuer. rewrite (is_issuer_model h w Hd i). unfold the_issuer.
      destruct (aget N.eqb i (w_issuers w)) as [s|] eqn:Es; cbn [of_option bind is_ok]; [|reflexivity].
      unfold claim_message. rewrite (go_nonce w g Hg i s d topic Es). apply outcome_eqb_refl.
    - (* Identifier *)
      unfold pure. cbn [fst snd]. apply mc_same; [reflexivity | reflexivity | | intros v Ev; reflexivity].
      cbn [answer_ok ghost_step]. unfold is_issuer. rewrite (is_issuer_model h w Hd i).
      destruct (the_issuer w i) as [s|]; cbn [bind is_ok]; [|reflexivity]. apply outcome_eqb_refl.
    - (* Extract *)
      unfold pure. cbn [fst snd]. apply mc_same; [reflexivity | reflexivity | | intros v Ev; reflexivity].
      cbn [answer_ok ghost_step]. unfold is_issuer. rewrite (is_issuer_model h w Hd i).
      destruct (the_issuer w i) as [s|]; cbn [bind is_ok]; [|reflexivity].
      destruct (extract_sig scheme sig); cbn [bind res_map]; apply outcome_eqb_refl.
    - (* Encode *)
      unfold pure. cbn [fst snd]. apply mc_same; [reflexivity | reflexivity | | intros v Ev; reflexivity].
      cbn [answer_ok ghost_step]. unfold is_issuer. rewrite (is_issuer_model h w Hd i).
      destruct (the_issuer w i) as [s|]; cbn [bind is_ok]; [|reflexivity].
      destruct (encode_expiration created_at valid_until payload); cbn [bind res_map]; apply outcome_eqb_refl.
    - (* Decode *)
      unfold pure. cbn [fst snd]. apply mc_same; [reflexivity | reflexivity | | intros v Ev; reflexivity].
      cbn [answer_ok ghost_step]. unfold is_issuer. rewrite (is_issuer_model h w Hd i).
      destruct (the_issuer w i) as [s|]; cbn [bind is_ok]; [|reflexivity].
      destruct (decode_expiration data) as [[[ca vu] pl]|]; cbn [bind res_map fst snd]; apply outcome_eqb_refl.
    - (* Expired *)
      unfold pure. cbn [fst snd]. apply mc_same; [reflexivity | reflexivity | | intros v Ev; reflexivity].
      cbn [answer_ok ghost_step]. unfold is_issuer. rewrite (is_issuer_model h w Hd i).
      destruct (the_issuer w i) as [s|]; cbn [bind is_ok]; [|reflexivity].
      cbn [observe o_now]. destruct (is_claim_expired (w_now w) data); cbn [bind res_map]; apply outcome_eqb_refl.
    - (* SetCti *)
      cbn [fst snd]. split3; [clock_tac | reflexivity | cbn [effect_ok]].
      rewrite frame_links. cbn [observe o_ver vo_cti vo_irs opt_eqb w_vcti w_virs andb]. rewrite ?N.eqb_refl, ?(opt_eqb_refl _ N.eqb_refl). reflexivity.
    - (* SetIrs *)
      cbn [fst snd]. split3; [clock_tac | reflexivity | cbn [effect_ok]].
      rewrite frame_links. cbn [observe o_ver vo_cti vo_irs opt_eqb w_vcti w_virs andb]. rewrite ?N.eqb_refl, ?(opt_eqb_refl _ N.eqb_refl). reflexivity.
    - (* Verify *)
      unfold pure. cbn [fst snd]. apply mc_same; [reflexivity | reflexivity | | intros v Ev; reflexivity].
      cbn [answer_ok observe o_ver vo_verify ghost_step].
      rw_lookup (at_key_map_in _ N_eqb_spec (fun a : N => is_ok (verify_identity cf w a)) a _ (in_accounts a Hwf)).
      destruct (verify_identity cf w a) as [[]|]; reflexivity.
    - (* ValidateClaim *)
      unfold pure. cbn [fst snd]. apply mc_same; [reflexivity | reflexivity | | intros v Ev; reflexivity].
      cbn [answer_ok ghost_step]. rewrite (confirm_model h w g Hd Hw Hg). unfold validate_claim.
      destruct ((cl_topic cl =? topic) && N.eqb (cl_issuer cl) i); cbn [andb]; apply outcome_eqb_refl.
    - (* RecoveryTarget *)
      unfold pure. cbn [fst snd]. apply mc_same; [reflexivity | reflexivity | | intros v Ev; reflexivity].
      cbn [answer_ok observe o_ver vo_irs ghost_step]. unfold recovery_target.
      destruct (w_virs w) as [ra|]; cbn [of_option bind]; [|reflexivity].
      rewrite (irs_at_model h w Hd). unfold the_irs. destruct (aget N.eqb ra (w_irss w)) as [r|]; cbn [of_option bind]; [|reflexivity].
      unfold observe_irs. cbn [io_recovered].
      rw_lookup (at_key_map_in _ N_eqb_spec (get_recovered_to r) old _ (in_accounts old Hwf)). apply outcome_eqb_refl.
    - (* Advance *)
      cbn [fst snd]. split3; [unfold clock_ok; cbn [observe o_now w_now]; apply Z.eqb_refl | reflexivity | cbn [effect_ok]; apply frame_clock].
    - (* Ledger *)
      cbn [fst snd]. split3; [unfold clock_ok; cbn [observe o_now w_now]; apply Z.eqb_refl | reflexivity | cbn [effect_ok]; apply frame_clock].
  Qed.
End CallModel2.

(* ---------------- the model's own trace, in the shape the harness prints ---------------- *)
(* every item carries the revocation queries asked in its observation (the harness's list grows) *)
Fixpoint model_trace (h : hdr) (w : world) (ks : list (call * list rkey)) : list item :=
  match ks with
  | [] => []
  | (k, q) :: r =>
      let wo := step (cfg_of h) w k in
      (k, snd wo, observe (set_revq h q) (fst wo)) :: model_trace h (fst wo) r
  end.
Definition observe_model (h : hdr) (ks : list (call * list rkey)) : trace := (h, model_trace h (init_of h) ks).

(* the header's revocation queries are irrelevant to the monitor *)
Lemma mon_state_revq h q o g : mon_state (set_revq h q) o g = mon_state h o g.
Proof. destruct h; reflexivity. Qed.
Lemma mon_call_revq h q p o g k out : mon_call (set_revq h q) p o g k out = mon_call h p o g k out.
Proof. destruct h; reflexivity. Qed.
Lemma wf_call_revq h q k : wf_call (set_revq h q) k = wf_call h k.
Proof. destruct h; reflexivity. Qed.
Lemma cfg_of_revq h q : cfg_of (set_revq h q) = cfg_of h.
Proof. destruct h; reflexivity. Qed.
Lemma dom_revq h q w : dom h w -> dom (set_revq h q) w.
Proof. intros [D1 D2 D3 D4]. destruct h. constructor; assumption. Qed.
Lemma closed_revq h q w : closed h w -> closed (set_revq h q) w.
Proof. intros H a s E. destruct (H a s E) as [H1 H2]. destruct h. split; assumption. Qed.

Lemma strip_observe h q w : strip_rev (observe (set_revq h q) w) = observe (set_revq h []) w.
Proof.
  destruct h as [net now0 xdr sigs mt mi mk mr mc ctis irss idents issuers accounts iaddrs topics keys revq].
  unfold strip_rev, observe, set_revq. cbn -[observe_cti observe_irs observe_ident observe_issuer cfg_of verify_identity].
  f_equal. rewrite map_map. apply map_ext. intros a. reflexivity.
Qed.

Lemma empty_obs_init h : strip_rev (empty_obs h) = observe (set_revq h []) (init_of h).
Proof.
  destruct h as [net now0 xdr sigs mt mi mk mr mc ctis irss idents issuers accounts iaddrs topics keys revq].
  unfold strip_rev, empty_obs, observe, init_of, init, set_revq.
  cbn [h_net h_now0 h_xdr h_sigs h_max_topics h_max_issuers h_max_keys h_max_regs h_max_countries h_ctis h_irss h_idents h_issuers
       h_accounts h_iaddrs h_topics h_keys h_revq o_now o_ctis o_irss o_idents o_issuers o_ver w_now w_ctis w_irss w_idents w_issuers w_vcti w_virs].
  assert (G : forall {S} (s0 : S) a l, get_or s0 a (map (fun x => (x, s0)) l) = s0).
  { intros S s0 a l. unfold get_or. rewrite (aget_map_const _ N_eqb_spec (fun _ => s0)). destruct (existsb (N.eqb a) l); reflexivity. }
  f_equal; try reflexivity.
  all: try (apply map_ext; intros a; rewrite G; reflexivity).
  all: try (rewrite map_map; apply map_ext; intros a; rewrite G; reflexivity).
Qed.

Lemma observe_set_revq h q w : observe (set_revq h (revq_of (observe (set_revq h q) w))) w = observe (set_revq h q) w.
Proof.
  destruct h as [net now0 xdr sigs mt mi mk mr mc ctis irss idents issuers accounts iaddrs topics keys revq].
  unfold revq_of, set_revq. cbn [observe o_issuers h_issuers].
  destruct issuers as [|a rest]; [reflexivity|].
  cbn [map observe_issuer so_revoked h_revq]. rewrite map_map. cbn [fst]. rewrite map_id. reflexivity.
Qed.

Lemma diff_model h ks : forall w i, diff_from h w (model_trace h w ks) i = 0%N.
Proof.
  induction ks as [|[k q] r IH]; intros w i; cbn [model_trace diff_from]; [reflexivity|].
  destruct (step (cfg_of h) w k) as [w' out] eqn:E. cbn [fst snd].
  rewrite observe_set_revq, outcome_eqb_refl, obs_eqb_refl. cbn [andb]. apply IH.
Qed.

Lemma mon_model h ks : forall w q0 g i,
  world_inv w -> dom h w -> closed h w -> ghost_ok w g -> irss_inv w -> forallb (fun kq => wf_call h (fst kq)) ks = true ->
  mon_from h (observe (set_revq h q0) w) g (model_trace h w ks) i = 0%N.
Proof.
  induction ks as [|[k q] r IH]; intros w q0 g i Hw Hd Hc Hg Hr Hwf; cbn [model_trace mon_from]; [reflexivity|].
  cbn [forallb fst] in Hwf. apply andb_true_iff in Hwf. destruct Hwf as [Hk Hrest].
  pose proof (step_world_inv (cfg_of h) w k Hw) as Hw'.
  pose proof (step_dom h w k Hd) as Hd'.
  pose proof (step_closed h w k Hk Hc) as Hc'.
  pose proof (step_ghost_ok (cfg_of h) w k g Hw Hg) as Hg'.
  pose proof (step_irss_inv (cfg_of h) w k Hr) as Hr'.
  cbn [fst snd].
  (* state clauses, with the header carrying this item's queries *)
  rewrite <- (mon_state_revq h q).
  rewrite (mon_state_model (set_revq h q) (fst (step (cfg_of h) w k)) _ Hw' (dom_revq h q _ Hd')
             (closed_revq h q _ Hc') Hg' Hr').
  (* call clauses, on the observations without their revocation queries *)
  rewrite !strip_observe, <- (mon_call_revq h []).
  pose proof (mon_call_model (set_revq h []) w g (dom_revq h [] w Hd) Hw Hg k) as Hm.
  rewrite wf_call_revq, cfg_of_revq in Hm. rewrite (Hm Hk). cbn [andb].
  apply IH; auto.
Qed.

(* The monitor accepts every run of the model - in the shape the harness prints, with arbitrary
   revocation queries per item - and the model does not differ from itself. *)
Theorem check_accepts_model h ks :
  hdr_ok h = true -> ks <> [] -> forallb (fun kq => wf_call h (fst kq)) ks = true ->
  check (observe_model h ks) = (0%N, 0%N, 0%N).
Proof.
  intros Hh Hne Hwf. unfold check, observe_model. rewrite diff_model, Hh.
  assert (is_nil (model_trace h (init_of h) ks) = false) as ->.
  { destruct ks as [|[k q] r]; [congruence|]. reflexivity. }
  cbn [negb andb].
  destruct ks as [|[k q] r]; [congruence|]. cbn [model_trace mon_from].
  (* first item: the previous observation is the one of the fresh contracts *)
  pose proof (mon_model h ((k, q) :: r) (init_of h) [] ghost0 0%N) as H. cbn [model_trace mon_from] in H.
  rewrite strip_observe in H. rewrite empty_obs_init. rewrite H; auto.
  - unfold init_of. apply world_inv_init.
  - apply dom_init.
  - apply closed_init.
  - apply ghost_ok_init.
  - intros a s E. cbn in E. apply aget_init in E. subst. apply irs_inv_init.
Qed.
