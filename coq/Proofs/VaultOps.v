(* C05: what each vault operation does (inversion of the model's step), the state invariant, and the
   one-step facts the theorems are built from. *)
From SC Require Import Lib.Prelude Lib.Int Lib.Host Model.Math Proofs.Math Model.Vault Proofs.VaultSpec Proofs.VaultToken.
From Coq Require Import ZifyBool.

(* ---------- well-formedness of inputs ---------- *)
Definition wf_cfg (c : cfg) : Prop := 0 <= c_off c.

(* the vault contract never signs: it has no __check_auth, so no authorisation entry for its address can
   be produced *)
Definition no_vault_auth (au : auths) : bool := negb (existsb (fun p => N.eqb (fst p) V) au).

Definition call_auths (cl : call) : auths :=
  match cl with
  | Deposit _ _ _ _ au | MintS _ _ _ _ au | Withdraw _ _ _ _ au | Redeem _ _ _ _ au
  | ATransfer _ _ _ au | AApprove _ _ _ _ au | STransfer _ _ _ au | STransferFrom _ _ _ _ au
  | SApprove _ _ _ _ au => au
  | AMint _ _ | Advance _ | Query _ | SetAsset _ | SetOffset _ => []
  end.

(* the amount argument of a call *)
Definition call_amount (cl : call) : Z :=
  match cl with
  | Deposit a _ _ _ _ | MintS a _ _ _ _ | Withdraw a _ _ _ _ | Redeem a _ _ _ _ => a
  | ATransfer _ _ a _ | AMint _ a | AApprove _ _ a _ _ | STransfer _ _ a _ | STransferFrom _ _ _ a _
  | SApprove _ _ a _ _ => a
  | Advance n => n
  | Query q => match q with
               | QConvShares a | QConvAssets a | QPrevDeposit a | QPrevMint a | QPrevWithdraw a | QPrevRedeem a => a
               | _ => 0
               end
  | SetAsset _ => 0
  | SetOffset off => off
  end.

(* amounts are i128 values, the vault does not sign *)
Definition wf_call (cl : call) : bool := no_vault_auth (call_auths cl) && in_i128 (call_amount cl).

Lemma P_pos c : wf_cfg c -> 0 < P_of c.
Proof. intros H. unfold P_of. apply Z.pow_pos_nonneg; [lia|exact H]. Qed.

Lemma no_vault_auth_root au : no_vault_auth au = true -> auth_root au V = false.
Proof.
  unfold no_vault_auth, auth_root. intros H. apply negb_true_iff in H.
  induction au as [|p au IH]; cbn [existsb] in *; [reflexivity|].
  apply orb_false_iff in H as [H1 H2]. rewrite H1. cbn [andb orb]. apply IH; exact H2.
Qed.
Lemma no_vault_auth_full au : no_vault_auth au = true -> auth_full au V = false.
Proof.
  unfold no_vault_auth, auth_full. intros H. apply negb_true_iff in H.
  induction au as [|p au IH]; cbn [existsb] in *; [reflexivity|].
  apply orb_false_iff in H as [H1 H2]. rewrite H1. cbn [andb orb]. apply IH; exact H2.
Qed.
Lemma auth_full_root au a : auth_full au a = true -> auth_root au a = true.
Proof.
  unfold auth_full, auth_root. induction au as [|p au IH]; cbn [existsb]; [discriminate|].
  intros H. apply orb_true_iff in H as [H|H].
  - apply andb_prop in H as [H1 H2]. rewrite H1. destruct p as [q k]; cbn [fst snd] in *.
    destruct k; try discriminate. reflexivity.
  - rewrite (IH H). apply orb_true_r.
Qed.

(* ---------- the state invariant ---------- *)
Definition Inv (c : cfg) (s : state) : Prop :=
  tok_inv (asset s) /\ tok_inv (share s) /\ (forall sp, fst (allow (asset s) V sp) = 0) /\ Stored c s.

Lemma Inv_init c n0 : Inv c (init c n0).
Proof. repeat split; try apply tok_inv_empty. Qed.
Lemma Inv_stored c s : Inv c s -> Stored c s.
Proof. intros (_ & _ & _ & H). exact H. Qed.

Lemma Inv_A_nonneg c s : Inv c s -> 0 <= total_assets s <= MAX128.
Proof. intros (Ha & _ & _ & _). pose proof (tok_inv_bal_le _ V Ha). destruct Ha as (_ & Hs & _). unfold total_assets. lia. Qed.
Lemma Inv_S_nonneg c s : Inv c s -> 0 <= total_supply s <= MAX128.
Proof. intros (_ & (_ & Hs & _) & _ & _). exact Hs. Qed.

Lemma tok_inv_ext t t' : bal t' = bal t -> supply t' = supply t -> tok_inv t -> tok_inv t'.
Proof. unfold tok_inv. intros -> ->. auto. Qed.

Lemma allowance_ext nw t t' o s : allow t = allow t' -> allowance nw t o s = allowance nw t' o s.
Proof. unfold allowance, allowance_data. intros ->. reflexivity. Qed.

(* ---------- token calls ---------- *)
Lemma tok_transfer_ok ok t f to x t' : tok_transfer ok t f to x = Ok t' ->
  ok f = true /\ 0 <= x <= bal t f /\
  t' = {| bal := move (bal t) f to x; supply := supply t; allow := allow t |}.
Proof.
  unfold tok_transfer. intros H. bsplit H u E. apply guard_ok in E.
  apply update_xfer in H. destruct H as (H1 & H2). auto.
Qed.

Lemma tok_transfer_from_ok c nw ok t sp f to x t' : tok_transfer_from c nw ok t sp f to x = Ok t' ->
  ok sp = true /\ 0 <= x <= bal t f /\
  exists t1, spend_allowance c nw t f sp x = Ok t1 /\
             t' = {| bal := move (bal t) f to x; supply := supply t; allow := allow t1 |}.
Proof.
  unfold tok_transfer_from. intros H. bsplit H u E. apply guard_ok in E. bsplit H t1 E1.
  destruct (spend_allowance_ok _ _ _ _ _ _ _ E1) as (Hx & Hb & Hs & _).
  apply update_xfer in H. destruct H as (H1 & H2). rewrite Hb, Hs in *.
  split; [exact E|]. split; [exact H1|]. exists t1. split; [exact E1|exact H2].
Qed.

(* ---------- deposit_internal ---------- *)
(* effective asset allowances after a deposit-like call *)
Definition spent (o f : addr) (x : Z) (al : addr -> addr -> Z) : addr -> addr -> Z :=
  fun o' s' => if negb (N.eqb o f) && (N.eqb o' f && N.eqb s' o) then al o' s' - x else al o' s'.

Record deposit_effect (s s' : state) (a sh : Z) (r f o : addr) : Prop := {
  de_now : now s' = now s;
  de_abal : bal (asset s') = move (bal (asset s)) f V a;
  de_asup : supply (asset s') = supply (asset s);
  de_sbal : bal (share s') = upd (bal (share s)) r (bal (share s) r + sh);
  de_ssup : supply (share s') = supply (share s) + sh;
  de_sallow : allow (share s') = allow (share s);
  de_aallow : forall o' s0, allowance (now s) (asset s') o' s0 = spent o f a (allowance (now s) (asset s)) o' s0
}.

Lemma deposit_internal_ok c s au r a sh f o s' :
  deposit_internal c s au r a sh f o = Ok s' -> Inv c s -> no_vault_auth au = true ->
  deposit_effect s s' a sh r f o /\ auth_full au o = true /\
  0 <= a <= bal (asset s) f /\ 0 <= sh /\ supply (share s) + sh <= MAX128 /\
  total_assets s' = total_assets s + a /\ Inv c s'.
Proof.
  unfold deposit_internal. intros H (Ha & Hs & Hz & Hst) Hnv. bsplit H uc Ec. bsplit H a1 E1. bsplit H s1 E2.
  inversion H; subst s'; clear H.
  apply update_mint in E2. destruct E2 as (Hsh & Hsup & ->).
  pose proof (no_vault_auth_full au Hnv) as HfV.
  destruct (N.eqb o f) eqn:Eof.
  - apply N.eqb_eq in Eof. subst o.
    apply tok_transfer_ok in E1. destruct E1 as (Hau & Hx & ->).
    assert (HfV' : f <> V) by (intros ->; congruence).
    split; [|split; [exact Hau|split; [exact Hx|split; [exact Hsh|split; [exact Hsup|split]]]]].
    + constructor; cbn [now asset share bal supply allow]; auto.
      intros o' s0. unfold spent. rewrite N.eqb_refl. cbn [negb andb]. reflexivity.
    + unfold total_assets. cbn [asset bal]. apply move_to. exact HfV'.
    + split; [|split; [|split]]; cbn [asset share].
      * apply tok_inv_xfer; auto.
      * apply tok_inv_mint; auto.
      * exact Hz.
      * exact Hst.
  - apply tok_transfer_from_ok in E1. destruct E1 as (Hau & Hx & t1 & Esp & ->).
    destruct (spend_allowance_ok _ _ _ _ _ _ _ Esp) as (Hxa & Hb1 & Hs1 & Hal & H0 & Hoth).
    split; [|split; [exact Hau|split; [exact Hx|split; [exact Hsh|split; [exact Hsup|split]]]]].
    + constructor; cbn [now asset share bal supply allow]; auto.
      intros o' s0. unfold spent. rewrite Eof. cbn [negb andb].
      rewrite (allowance_ext (now s) _ t1) by reflexivity. apply Hal.
    + unfold total_assets. cbn [asset bal].
      destruct (N.eq_dec f V) as [->|Hne].
      * destruct (spend_zero_owner _ _ _ _ _ _ _ Esp Hz) as [-> _]. rewrite move_self. lia.
      * apply move_to. exact Hne.
    + split; [|split; [|split]]; cbn [asset share].
      * apply (tok_inv_ext {| bal := move (bal (asset s)) f V a; supply := supply (asset s); allow := allow (asset s) |});
          [reflexivity|reflexivity|]. apply tok_inv_xfer; auto.
      * apply tok_inv_mint; auto.
      * intros sp. cbn [allow].
        destruct (N.eq_dec f V) as [->|Hne].
        -- destruct (spend_zero_owner _ _ _ _ _ _ _ Esp Hz) as [_ ->]. apply Hz.
        -- rewrite Hoth by (intros Heq; apply Hne; symmetry; exact Heq). apply Hz.
      * exact Hst.
Qed.

(* ---------- withdraw_internal ---------- *)
Definition spent_s (o ow : addr) (x : Z) (al : addr -> addr -> Z) : addr -> addr -> Z :=
  fun o' s' => if negb (N.eqb o ow) && (N.eqb o' ow && N.eqb s' o) then al o' s' - x else al o' s'.

Record withdraw_effect (s s' : state) (a sh : Z) (r ow o : addr) : Prop := {
  we_now : now s' = now s;
  we_abal : bal (asset s') = move (bal (asset s)) V r a;
  we_asup : supply (asset s') = supply (asset s);
  we_aallow : allow (asset s') = allow (asset s);
  we_sbal : bal (share s') = upd (bal (share s)) ow (bal (share s) ow - sh);
  we_ssup : supply (share s') = supply (share s) - sh;
  we_sallow : forall o' s0, allowance (now s) (share s') o' s0 = spent_s o ow sh (allowance (now s) (share s)) o' s0
}.

Lemma withdraw_internal_ok c s r ow a sh o s' :
  withdraw_internal c s r ow a sh o = Ok s' -> Inv c s ->
  withdraw_effect s s' a sh r ow o /\
  0 <= sh <= bal (share s) ow /\ 0 <= a <= total_assets s /\
  total_assets s - a <= total_assets s' /\ Inv c s'.
Proof.
  unfold withdraw_internal. intros H (Ha & Hs & Hz & Hst). bsplit H s0 E0. bsplit H s1 E1. bsplit H uc Ec. bsplit H a1 E2.
  inversion H; subst s'; clear H.
  apply tok_transfer_ok in E2. destruct E2 as (_ & Hx & ->).
  apply update_burn in E1. destruct E1 as (Hsh & ->).
  assert (Hs0 : bal s0 = bal (share s) /\ supply s0 = supply (share s) /\
                (forall o' s2, allowance (now s) s0 o' s2 = spent_s o ow sh (allowance (now s) (share s)) o' s2)).
  { destruct (N.eqb o ow) eqn:Eo; cbn [negb] in E0.
    - inversion E0; subst s0. repeat split. intros o' s2. unfold spent_s. rewrite Eo. reflexivity.
    - destruct (spend_allowance_ok _ _ _ _ _ _ _ E0) as (_ & Hb & Hsu & Hal & _ & _).
      repeat split; auto. intros o' s2. unfold spent_s. rewrite Eo. cbn [negb andb]. apply Hal. }
  destruct Hs0 as (Hb0 & Hsu0 & Hal0). rewrite Hb0, Hsu0 in *.
  split; [|split; [exact Hsh|split; [exact Hx|split]]].
  - constructor; cbn [now asset share bal supply allow]; auto.
  - unfold total_assets. cbn [asset bal].
    destruct (N.eq_dec r V) as [->|Hne]; [rewrite move_self; lia|].
    rewrite move_from by (intros Heq; apply Hne; symmetry; exact Heq). lia.
  - split; [|split; [|split]]; cbn [asset share].
    + apply tok_inv_xfer; auto.
    + apply (tok_inv_ext {| bal := upd (bal (share s)) ow (bal (share s) ow - sh); supply := supply (share s) - sh; allow := allow (share s) |});
        [reflexivity|reflexivity|]. apply tok_inv_burn; auto.
    + exact Hz.
    + exact Hst.
Qed.

(* ---------- the four operations ---------- *)
Lemma deposit_ok c s au a r f o s' sh evs :
  deposit c s au a r f o = Ok (s', (sh, evs)) -> Inv c s -> no_vault_auth au = true ->
  preview_deposit c s a = Ok sh /\ evs = [(0%N, o, f, r, a, sh)] /\
  deposit_effect s s' a sh r f o /\ auth_full au o = true /\ 0 <= a <= bal (asset s) f /\ 0 <= sh /\
  total_assets s' = total_assets s + a /\ Inv c s'.
Proof.
  unfold deposit. intros H Hi Hnv. bsplit H u E0. bsplit H u1 E1. bsplit H sh0 E2. bsplit H s0 E3.
  inversion H; subst. destruct (deposit_internal_ok _ _ _ _ _ _ _ _ _ E3 Hi Hnv) as (H1 & H2 & H3 & H4 & H5 & H6 & H7).
  exact (conj E2 (conj eq_refl (conj H1 (conj H2 (conj H3 (conj H4 (conj H6 H7))))))).
Qed.

Lemma mint_ok c s au x r f o s' a evs :
  mint c s au x r f o = Ok (s', (a, evs)) -> Inv c s -> no_vault_auth au = true ->
  preview_mint c s x = Ok a /\ evs = [(0%N, o, f, r, a, x)] /\
  deposit_effect s s' a x r f o /\ auth_full au o = true /\ 0 <= a <= bal (asset s) f /\ 0 <= x /\
  total_assets s' = total_assets s + a /\ Inv c s'.
Proof.
  unfold mint. intros H Hi Hnv. bsplit H u E0. bsplit H u1 E1. bsplit H a0 E2. bsplit H s0 E3.
  inversion H; subst. destruct (deposit_internal_ok _ _ _ _ _ _ _ _ _ E3 Hi Hnv) as (H1 & H2 & H3 & H4 & H5 & H6 & H7).
  exact (conj E2 (conj eq_refl (conj H1 (conj H2 (conj H3 (conj H4 (conj H6 H7))))))).
Qed.

Lemma withdraw_ok c s au a r ow o s' sh evs :
  withdraw c s au a r ow o = Ok (s', (sh, evs)) -> Inv c s ->
  preview_withdraw c s a = Ok sh /\ evs = [(1%N, o, r, ow, a, sh)] /\
  (exists m, max_withdraw c s ow = Ok m /\ a <= m) /\
  withdraw_effect s s' a sh r ow o /\ auth_root au o = true /\
  0 <= sh <= bal (share s) ow /\ 0 <= a <= total_assets s /\
  total_assets s - a <= total_assets s' /\ Inv c s'.
Proof.
  unfold withdraw. intros H Hi. bsplit H u E0. apply guard_ok in E0. bsplit H m E1. bsplit H u1 E2.
  apply guard_ok in E2. bsplit H sh0 E3. bsplit H s0 E4.
  inversion H; subst. destruct (withdraw_internal_ok _ _ _ _ _ _ _ _ E4 Hi) as (H1 & H2 & H3 & H4 & H5).
  assert (Hm : exists m0, max_withdraw c s ow = Ok m0 /\ a <= m0) by (exists m; split; [exact E1|lia]).
  exact (conj E3 (conj eq_refl (conj Hm (conj H1 (conj E0 (conj H2 (conj H3 (conj H4 H5)))))))).
Qed.

Lemma redeem_ok c s au x r ow o s' a evs :
  redeem c s au x r ow o = Ok (s', (a, evs)) -> Inv c s ->
  preview_redeem c s x = Ok a /\ evs = [(1%N, o, r, ow, a, x)] /\
  x <= max_redeem s ow /\
  withdraw_effect s s' a x r ow o /\ auth_root au o = true /\
  0 <= x <= bal (share s) ow /\ 0 <= a <= total_assets s /\
  total_assets s - a <= total_assets s' /\ Inv c s'.
Proof.
  unfold redeem. intros H Hi. bsplit H u E0. apply guard_ok in E0. bsplit H u1 E2.
  apply guard_ok in E2. bsplit H a0 E3. bsplit H s0 E4.
  inversion H; subst. destruct (withdraw_internal_ok _ _ _ _ _ _ _ _ E4 Hi) as (H1 & H2 & H3 & H4 & H5).
  assert (Hm : x <= max_redeem s ow) by lia.
  exact (conj E3 (conj eq_refl (conj Hm (conj H1 (conj E0 (conj H2 (conj H3 (conj H4 H5)))))))).
Qed.

(* ---------- the same effects without any hypothesis on the state (for C05_moves_exactly) ---------- *)
Lemma deposit_internal_effect c s au r a sh f o s' :
  deposit_internal c s au r a sh f o = Ok s' ->
  deposit_effect s s' a sh r f o /\ auth_full au o = true /\ 0 <= a <= bal (asset s) f /\ 0 <= sh.
Proof.
  unfold deposit_internal. intros H. bsplit H uc Ec. bsplit H a1 E1. bsplit H s1 E2.
  inversion H; subst s'; clear H.
  apply update_mint in E2. destruct E2 as (Hsh & Hsup & ->).
  destruct (N.eqb o f) eqn:Eof.
  - apply N.eqb_eq in Eof. subst o.
    apply tok_transfer_ok in E1. destruct E1 as (Hau & Hx & ->).
    split; [|split; [exact Hau|split; [exact Hx|exact Hsh]]].
    constructor; cbn [now asset share bal supply allow]; auto.
    intros o' s0. unfold spent. rewrite N.eqb_refl. cbn [negb andb]. reflexivity.
  - apply tok_transfer_from_ok in E1. destruct E1 as (Hau & Hx & t1 & Esp & ->).
    destruct (spend_allowance_ok _ _ _ _ _ _ _ Esp) as (Hxa & Hb1 & Hs1 & Hal & H0 & Hoth).
    split; [|split; [exact Hau|split; [exact Hx|exact Hsh]]].
    constructor; cbn [now asset share bal supply allow]; auto.
    intros o' s0. unfold spent. rewrite Eof. cbn [negb andb].
    rewrite (allowance_ext (now s) _ t1) by reflexivity. apply Hal.
Qed.

Lemma withdraw_internal_effect c s r ow a sh o s' :
  withdraw_internal c s r ow a sh o = Ok s' ->
  withdraw_effect s s' a sh r ow o /\ 0 <= sh <= bal (share s) ow /\ 0 <= a <= total_assets s.
Proof.
  unfold withdraw_internal. intros H. bsplit H s0 E0. bsplit H s1 E1. bsplit H uc Ec. bsplit H a1 E2.
  inversion H; subst s'; clear H.
  apply tok_transfer_ok in E2. destruct E2 as (_ & Hx & ->).
  apply update_burn in E1. destruct E1 as (Hsh & ->).
  assert (Hs0 : bal s0 = bal (share s) /\ supply s0 = supply (share s) /\
                (forall o' s2, allowance (now s) s0 o' s2 = spent_s o ow sh (allowance (now s) (share s)) o' s2)).
  { destruct (N.eqb o ow) eqn:Eo; cbn [negb] in E0.
    - inversion E0; subst s0. repeat split. intros o' s2. unfold spent_s. rewrite Eo. reflexivity.
    - destruct (spend_allowance_ok _ _ _ _ _ _ _ E0) as (_ & Hb & Hsu & Hal & _ & _).
      repeat split; auto. intros o' s2. unfold spent_s. rewrite Eo. cbn [negb andb]. apply Hal. }
  destruct Hs0 as (Hb0 & Hsu0 & Hal0). rewrite Hb0, Hsu0 in *.
  split; [|split; [exact Hsh|exact Hx]].
  constructor; cbn [now asset share bal supply allow]; auto.
Qed.
