(* C17: the trace checker of Run/C17.v accepts every run of the model:
   forall header, initial observation and call list satisfying the boolean input conditions
   [wf_input] (the ones [diff] itself checks on the harness's traces),
   check (model_trace h o0 cs) = (0, 0, 0). *)
From SC Require Import Lib.Prelude Lib.Int Lib.Host Model.Merkle Proofs.Merkle Proofs.C17Dist Run.C17 Proofs.MerkleInst.

(* ---------------- reflexivity of the boolean equalities ---------------- *)
Lemma dg_eqb_refl d : dg_eqb d d = true.
Proof. apply dg_eqb_spec. reflexivity. Qed.
Lemma plist_eqb_refl p : plist_eqb p p = true.
Proof. apply plist_eqb_spec. reflexivity. Qed.
Lemma out_eqb_refl o : out_eqb o o = true.
Proof. destruct o as [[[|]|]|]; reflexivity. Qed.
Lemma cl_eqb_refl l : cl_eqb l l = true.
Proof. induction l as [|[i b] l IH]; cbn [cl_eqb]; [reflexivity|]. rewrite N.eqb_refl, IH. destruct b; reflexivity. Qed.
Lemma bal_eqb_refl l : bal_eqb l l = true.
Proof. induction l as [|[i z] l IH]; cbn [bal_eqb]; [reflexivity|]. rewrite N.eqb_refl, Z.eqb_refl, IH. reflexivity. Qed.
Lemma obs_eqb_refl o : obs_eqb o o = true.
Proof.
  unfold obs_eqb. rewrite cl_eqb_refl, bal_eqb_refl.
  destruct (o_root o); cbn [oroot_eqb]; [rewrite dg_eqb_refl|]; reflexivity.
Qed.
Lemma obs_eqb_eq a b : a = b -> obs_eqb a b = true.
Proof. intros ->. apply obs_eqb_refl. Qed.

(* ---------------- observations ---------------- *)
Lemma map_fst_pair {A B} (f : A -> B) l : map fst (map (fun j => (j, f j)) l) = l.
Proof. rewrite map_map. cbn [fst]. apply map_id. Qed.

Lemma observe_like_observe univ addrs s s' :
  observe_like (observe univ addrs s) s' = observe univ addrs s'.
Proof. unfold observe_like, observe, o_cl, o_bal. cbn [fst snd]. rewrite !map_fst_pair. reflexivity. Qed.

Lemma mem_n_in i l : mem_n i l = true <-> In i l.
Proof.
  unfold mem_n. rewrite existsb_exists. split.
  - intros (x & Hx & E). apply N.eqb_eq in E. subst. exact Hx.
  - intros Hin. exists i. split; [exact Hin|apply N.eqb_refl].
Qed.

Lemma alist_get_map {V} (f : N -> V) : forall l i, mem_n i l = true ->
  alist_get i (map (fun j => (j, f j)) l) = Some (f i).
Proof.
  induction l as [|j l IH]; intros i Hm; [discriminate|].
  cbn [map alist_get]. destruct (N.eqb i j) eqn:E.
  - apply N.eqb_eq in E. subst. reflexivity.
  - apply IH. unfold mem_n in *. cbn [existsb] in Hm. rewrite E in Hm. exact Hm.
Qed.

Lemma nodupb_spec l : nodupb l = true -> NoDup l.
Proof.
  induction l as [|x l IH]; cbn [nodupb]; intros Hn; [constructor|].
  apply andb_prop in Hn. destruct Hn as [H1 H2]. constructor; [|auto].
  intros Hin. apply mem_n_in in Hin. rewrite Hin in H1. discriminate.
Qed.

Lemma alist_get_nodup {V} : forall (l : list (N * V)) k v, NoDup (map fst l) -> In (k, v) l -> alist_get k l = Some v.
Proof.
  induction l as [|[k' v'] l IH]; intros k v Hn Hin; [destruct Hin|].
  cbn [map fst] in Hn. inversion Hn; subst. cbn [alist_get].
  destruct Hin as [E|Hin].
  - inversion E; subst. rewrite N.eqb_refl. reflexivity.
  - destruct (N.eqb k k') eqn:E; [|eauto]. apply N.eqb_eq in E. subst.
    exfalso. apply H1. change k' with (fst (k', v)). apply in_map. exact Hin.
Qed.

Lemma map_id_in {A} (f : A -> A) l : (forall x, In x l -> f x = x) -> map f l = l.
Proof. intros Hf. rewrite <- (map_id l) at 2. apply map_ext_in. exact Hf. Qed.

(* the initial observation is the observation of the initial state built from it *)
Lemma observe_init h o : wf_obs o = true ->
  observe (map fst (o_cl o)) (map fst (o_bal o)) (init_of h o) = o.
Proof.
  intros Hw. unfold wf_obs in Hw. apply andb_prop in Hw. destruct Hw as [H1 H2].
  apply nodupb_spec in H1, H2.
  destruct o as [[r cl] bl]. unfold observe, init_of, o_root, o_cl, o_bal in *. cbn [fst snd] in *.
  f_equal; [f_equal|].
  - rewrite map_map. apply map_id_in. intros [j b] Hin. cbn [fst]. f_equal.
    unfold is_claimed. cbn [claimed].
    destruct b.
    + apply existsb_exists. exists j. split; [|apply N.eqb_refl].
      change j with (fst (j, true)). apply in_map. apply filter_In. auto.
    + destruct (existsb (N.eqb j) (map fst (filter snd cl))) eqn:E; [|reflexivity]. exfalso.
      apply existsb_exists in E. destruct E as (j' & Hj' & E). apply N.eqb_eq in E. subst j'.
      apply in_map_iff in Hj'. destruct Hj' as [[j2 b2] [E2 Hf]]. cbn in E2. subst j2.
      apply filter_In in Hf. destruct Hf as [Hf Hb]. cbn in Hb. subst b2.
      assert (E3 : (j, true) = (j, false)) by (eapply (nodup_map_inj fst); eauto).
      discriminate.
  - rewrite map_map. apply map_id_in. intros [a z] Hin. cbn [fst]. f_equal.
    unfold balance. cbn [bals]. rewrite (alist_get_nodup _ _ _ H2 Hin). reflexivity.
Qed.

Lemma upd_claimed_observe (s : state dg) univ i :
  upd_claimed (map (fun j => (j, is_claimed s j)) univ) i
  = map (fun j => (j, is_claimed (set_claimed s i) j)) univ.
Proof. unfold upd_claimed. rewrite map_map. apply map_ext. intros j. reflexivity. Qed.

(* ---------------- the hash instance of a well-formed header ---------------- *)
Section Mon.
  Variable h : hdr.
  Hypothesis Hwf : wf_hdr h = true.

  Definition lfs (d : dg) : Prop := leafp_s (h_tab h) d = true.
  Definition lfi (d : dg) : Prop := leafp_i (h_tab h) d = true.

  Lemma Hsorted : tab_sorted (h_tab h) = true.
  Proof.
    unfold wf_hdr in Hwf. apply andb_prop in Hwf. destruct Hwf as [Hw _].
    apply andb_prop in Hw. destruct Hw as [Hw _]. apply andb_prop in Hw. tauto.
  Qed.

  Lemma Hltab : ltab_ok (h_tab h) (h_ltab h) = true.
  Proof. unfold wf_hdr in Hwf. apply andb_prop in Hwf. tauto. Qed.

  Lemma Hh_inj : forall a b c d, Hh h a b = Hh h c d -> a = c /\ b = d.
  Proof. apply Htab_inj. exact Hsorted. Qed.

  Lemma lfs_cnode : forall a b, ~ lfs (Ch h a b).
  Proof. intros a b Hl. exact (leafp_s_cnode _ _ _ Hl). Qed.
  Lemma lfi_node : forall a b, ~ lfi (Hh h a b).
  Proof. intros a b Hl. exact (leafp_i_node _ _ _ Hl). Qed.

  Lemma strees_wf : forall t, In t (h_strees h) -> Forall lfs (leaves t).
  Proof.
    intros t Hin. unfold wf_hdr in Hwf. apply andb_prop in Hwf. destruct Hwf as [Hw _].
    apply andb_prop in Hw. destruct Hw as [Hw _].
    apply andb_prop in Hw. destruct Hw as [_ Hw]. rewrite forallb_forall in Hw.
    specialize (Hw _ Hin). rewrite forallb_forall in Hw. apply Forall_forall. exact Hw.
  Qed.
  Lemma itrees_wf : forall t, In t (h_itrees h) -> Forall lfi (leaves t).
  Proof.
    intros t Hin. unfold wf_hdr in Hwf. apply andb_prop in Hwf. destruct Hwf as [Hw _].
    apply andb_prop in Hw. destruct Hw as [_ Hw].
    rewrite forallb_forall in Hw. specialize (Hw _ Hin). rewrite forallb_forall in Hw.
    apply Forall_forall. exact Hw.
  Qed.

  Lemma squads_in q : In q (squads h) <-> exists t, In t (h_strees h) /\ In q (quads (Ch h) t).
  Proof.
    unfold squads. rewrite in_flat_map. split; intros (t & Ht & Hq); exists t; split; auto;
      rewrite quads_go_spec in *; exact Hq.
  Qed.
  Lemma iquads_in q : In q (iquads h) <-> exists t, In t (h_itrees h) /\ In q (quads (Hh h) t).
  Proof.
    unfold iquads. rewrite in_flat_map. split; intros (t & Ht & Hq); exists t; split; auto;
      rewrite quads_go_spec in *; exact Hq.
  Qed.

  (* ---------- sorted form: the model's answer is "honest member of a declared tree" ---------- *)
  Lemma honest_s_verify r v p :
    honest_s (squads h) r v p = true -> verify dg_eqb (Hh h) dg_gtb p r v = true.
  Proof.
    unfold honest_s. intros Hh0. apply orb_true_iff in Hh0. destruct Hh0 as [Ht|Hq].
    - destruct p; [|discriminate]. apply dg_eqb_spec in Ht. subst. unfold verify, climb. cbn. apply dg_eqb_refl.
    - apply existsb_exists in Hq. destruct Hq as ([r0 [[v0 p0] i0]] & Hin & Hc). cbn [fst snd] in Hc.
      apply andb_prop in Hc. destruct Hc as [Hc Hp]. apply andb_prop in Hc. destruct Hc as [Hr Hv].
      apply dg_eqb_spec in Hr, Hv. apply plist_eqb_spec in Hp. subst r0 v0 p0.
      apply squads_in in Hin. destruct Hin as (T & HT & Hin).
      apply quads_sound in Hin. destruct Hin as (path0 & t0 & path & s & H0 & Hr & Hl & Hv & Hp & _).
      subst. apply (complete_sorted dg dg_eqb (Hh h) dg_gtb dg_eqb_spec dg_gtb_asym dg_gtb_total). exact Hl.
  Qed.

  Lemma verify_honest_s r v p : sroot_ok h (squads h) r = true ->
    verify dg_eqb (Hh h) dg_gtb p r v = true -> honest_s (squads h) r v p = true.
  Proof.
    intros Hok Hv. unfold sroot_ok in Hok. apply orb_true_iff in Hok. destruct Hok as [Hq|Hl].
    - unfold is_qroot in Hq. apply existsb_exists in Hq. destruct Hq as ([r0 [[v0 p0] i0]] & Hin & Hr).
      cbn [fst] in Hr. apply dg_eqb_spec in Hr. subst r0.
      apply squads_in in Hin. destruct Hin as (T & HT & Hin).
      apply quads_sound in Hin. destruct Hin as (path0 & t0 & _ & _ & H0 & Hr & _).
      assert (Hw : wf_stree dg lfs t0).
      { unfold wf_stree. apply Forall_forall. intros d Hd. pose proof (strees_wf _ HT) as HF.
        rewrite Forall_forall in HF. apply HF. eapply lookup_leaves; eauto. }
      subst r.
      destruct (sound_sorted dg dg_eqb (Hh h) dg_gtb dg_eqb_spec Hh_inj lfs lfs_cnode t0 p v Hw Hv)
        as (path & s & Hl & Hs & Hp & _).
      unfold honest_s. apply orb_true_iff. right. apply existsb_exists.
      exists (troot (Ch h) t0, (troot (Ch h) s, proof_of (Ch h) t0 path, index_of path)). split.
      + apply squads_in. exists T. split; [exact HT|]. eapply quads_complete; eauto.
      + cbn [fst snd]. subst v p. rewrite !dg_eqb_refl, plist_eqb_refl. reflexivity.
    - assert (Hw : wf_stree dg lfs (Lf r)) by (unfold wf_stree; cbn; constructor; [exact Hl|constructor]).
      destruct (sound_sorted dg dg_eqb (Hh h) dg_gtb dg_eqb_spec Hh_inj lfs lfs_cnode (Lf r) p v Hw Hv)
        as (path & s & Hlk & Hs & Hp & _).
      destruct path; cbn in Hlk; [|discriminate]. inversion Hlk; subst s. cbn in Hs, Hp. subst.
      unfold honest_s. rewrite dg_eqb_refl. reflexivity.
  Qed.

  Lemma verify_is_honest_s r v p : sroot_ok h (squads h) r = true ->
    verify dg_eqb (Hh h) dg_gtb p r v = honest_s (squads h) r v p.
  Proof.
    intros Hok. destruct (verify dg_eqb (Hh h) dg_gtb p r v) eqn:E1.
    - symmetry. apply verify_honest_s; auto.
    - destruct (honest_s (squads h) r v p) eqn:E2; [|reflexivity].
      apply honest_s_verify in E2. congruence.
  Qed.

  (* ---------- positional form ---------- *)
  Lemma honest_i_verify r v p i : (length p < 32)%nat ->
    honest_i (iquads h) r v p i = true -> verify_with_index dg_eqb (Hh h) p r v i = Ok true.
  Proof.
    unfold honest_i. intros Hlen Hh0. apply orb_true_iff in Hh0. destruct Hh0 as [Ht|Hq].
    - destruct p; [|discriminate]. apply andb_prop in Ht. destruct Ht as [Ht Hi].
      apply dg_eqb_spec in Ht. apply Z.eqb_eq in Hi. subst. unfold verify_with_index. cbn. rewrite dg_eqb_refl. reflexivity.
    - apply existsb_exists in Hq. destruct Hq as ([r0 [[v0 p0] i0]] & Hin & Hc). cbn [fst snd] in Hc.
      apply andb_prop in Hc. destruct Hc as [Hc Hi]. apply andb_prop in Hc. destruct Hc as [Hc Hp].
      apply andb_prop in Hc. destruct Hc as [Hr Hv].
      apply dg_eqb_spec in Hr, Hv. apply plist_eqb_spec in Hp. apply Z.eqb_eq in Hi. subst r0 v0 p0 i0.
      apply iquads_in in Hin. destruct Hin as (T & HT & Hin).
      apply quads_sound in Hin. destruct Hin as (path0 & t0 & path & s & H0 & Hr & Hl & Hv & Hp & Hi).
      subst. apply (complete_indexed dg dg_eqb (Hh h) dg_eqb_spec); [exact Hl|].
      rewrite (proof_of_length _ _ _ _ _ Hl) in Hlen. exact Hlen.
  Qed.

  Lemma verify_honest_i r v p i : iroot_ok h (iquads h) r = true -> 0 <= i ->
    verify_with_index dg_eqb (Hh h) p r v i = Ok true -> honest_i (iquads h) r v p i = true.
  Proof.
    intros Hok Hi Hv. unfold iroot_ok in Hok. apply orb_true_iff in Hok. destruct Hok as [Hq|Hl].
    - unfold is_qroot in Hq. apply existsb_exists in Hq. destruct Hq as ([r0 [[v0 p0] i0]] & Hin & Hr).
      cbn [fst] in Hr. apply dg_eqb_spec in Hr. subst r0.
      apply iquads_in in Hin. destruct Hin as (T & HT & Hin).
      apply quads_sound in Hin. destruct Hin as (path0 & t0 & _ & _ & H0 & Hr & _).
      assert (Hw : wf_tree dg lfi t0).
      { unfold wf_tree. apply Forall_forall. intros d Hd. pose proof (itrees_wf _ HT) as HF.
        rewrite Forall_forall in HF. apply HF. eapply lookup_leaves; eauto. }
      subst r.
      destruct (sound_indexed dg dg_eqb (Hh h) dg_eqb_spec Hh_inj lfi lfi_node t0 p v i Hw Hi Hv)
        as (path & s & Hl & Hs & Hp & Hidx & _).
      unfold honest_i. apply orb_true_iff. right. apply existsb_exists.
      exists (troot (Hh h) t0, (troot (Hh h) s, proof_of (Hh h) t0 path, index_of path)). split.
      + apply iquads_in. exists T. split; [exact HT|]. eapply quads_complete; eauto.
      + cbn [fst snd]. subst v p i. rewrite !dg_eqb_refl, plist_eqb_refl, Z.eqb_refl. reflexivity.
    - assert (Hw : wf_tree dg lfi (Lf r)) by (unfold wf_tree; cbn; constructor; [exact Hl|constructor]).
      destruct (sound_indexed dg dg_eqb (Hh h) dg_eqb_spec Hh_inj lfi lfi_node (Lf r) p v i Hw Hi Hv)
        as (path & s & Hlk & Hs & Hp & Hidx & _).
      destruct path; cbn in Hlk; [|discriminate]. inversion Hlk; subst s. cbn in Hs, Hp. subst.
      unfold honest_i. rewrite dg_eqb_refl. reflexivity.
  Qed.

  Lemma idx_outcome r v p i : iroot_ok h (iquads h) r = true -> 0 <= i ->
    match verify_with_index dg_eqb (Hh h) p r v i with Ok b => Ok (Some b) | Fail => Fail end
    = exp_idx (iquads h) p r v i.
  Proof.
    intros Hok Hi. unfold exp_idx.
    destruct (verify_with_index dg_eqb (Hh h) p r v i) as [b|] eqn:E; unfold verify_with_index in E;
      destruct (32 <=? Z.of_nat (length p)) eqn:E1; try discriminate; try reflexivity;
      destruct (2 ^ Z.of_nat (length p) <=? i) eqn:E2; try discriminate; try reflexivity.
    assert (Hlen : (length p < 32)%nat) by lia.
    assert (Ev : verify_with_index dg_eqb (Hh h) p r v i = Ok b).
    { unfold verify_with_index. rewrite E1, E2. exact E. }
    f_equal. f_equal. destruct (honest_i (iquads h) r v p i) eqn:E3.
    - rewrite (honest_i_verify _ _ _ _ Hlen E3) in Ev. congruence.
    - destruct b; [|reflexivity]. rewrite (verify_honest_i _ _ _ _ Hok Hi Ev) in E3. discriminate.
  Qed.

  (* ---------- one step of the model satisfies the monitor ---------- *)
  Lemma step_self : forall (s : state dg) c, self (fst (mstep h s c)) = self s.
  Proof.
    intros s c. unfold mstep.
    destruct c as [p r v|p r v i|r|i|i a m p|i a m p|i a m p|n]; cbn [step fst]; auto; unfold unit_call.
    - destruct (claim_sorted dg_eqb (Hh h) dg_gtb (Lh h) s i a m p) as [s'|] eqn:E; cbn [fst]; auto.
      apply claim_sorted_ok in E. destruct E as (r & _ & _ & _ & ->). reflexivity.
    - destruct (claim_indexed dg_eqb (Hh h) (Lh h) s i a m p) as [s'|] eqn:E; cbn [fst]; auto.
      apply claim_indexed_ok in E. destruct E as (r & _ & _ & _ & ->). reflexivity.
    - unfold airdrop_claim. destruct (claim_sorted dg_eqb (Hh h) dg_gtb (Lh h) s i a m p) as [s1|] eqn:E; cbn [bind]; auto.
      destruct (transfer s1 (self s1) a m) as [s2|] eqn:Et; cbn [fst]; auto.
      apply claim_sorted_ok in E. destruct E as (r & _ & _ & _ & ->).
      apply transfer_ok in Et. destruct Et as (_ & _ & _ & Hs). rewrite Hs. reflexivity.
  Qed.

  Lemma observe_set_claimed univ addrs (s : state dg) i :
    observe univ addrs (set_claimed s i)
    = (root s, upd_claimed (o_cl (observe univ addrs s)) i, o_bal (observe univ addrs s)).
  Proof. unfold observe, o_cl, o_bal. cbn [fst snd]. rewrite upd_claimed_observe. reflexivity. Qed.

  Lemma bal_of_observe univ addrs (s : state dg) a : mem_n a addrs = true ->
    bal_of (o_bal (observe univ addrs s)) a = balance s a.
  Proof. intros Hm. unfold bal_of, observe, o_bal. cbn [snd]. rewrite (alist_get_map _ _ _ Hm). reflexivity. Qed.

  Lemma flag_observe univ addrs (s : state dg) i : mem_n i univ = true ->
    alist_get i (o_cl (observe univ addrs s)) = Some (is_claimed s i).
  Proof. intros Hm. unfold observe, o_cl. cbn [fst snd]. apply alist_get_map. exact Hm. Qed.

  Lemma cl_sub_observe univ addrs (s : state dg) :
    cl_sub (o_cl (observe univ addrs s)) (o_cl (observe univ addrs s)) = true.
  Proof.
    unfold cl_sub, observe, o_cl. cbn [fst snd]. apply forallb_forall. intros [j b] Hin.
    apply in_map_iff in Hin. destruct Hin as (j' & E & Hin). injection E as Ej Eb. subst j b. cbn [fst snd].
    rewrite (alist_get_map (is_claimed s) univ j' (proj2 (mem_n_in _ _) Hin)). apply eqb_reflx.
  Qed.

  Lemma obs_sub_observe univ addrs (s : state dg) :
    obs_sub (observe univ addrs s) (observe univ addrs s) = true.
  Proof.
    unfold obs_sub. rewrite cl_sub_observe, bal_eqb_refl.
    destruct (o_root (observe univ addrs s)); cbn [oroot_eqb]; [rewrite dg_eqb_refl|]; reflexivity.
  Qed.

  (* one step of the model: the monitor's expectation is exactly the model's next observation *)
  Lemma mon_expect_model : forall univ addrs (s0 s : state dg) c,
    self s = h_self h ->
    wf_call h (squads h) (iquads h) (observe univ addrs s0) (root s) c = true ->
    mon_expect h (squads h) (iquads h) (observe univ addrs s0) (observe univ addrs s) c (snd (mstep h s c))
    = Some (observe univ addrs (fst (mstep h s c))).
  Proof.
    intros univ addrs s0 s c Hself Hwc0.
    assert (Hwc : wf_call h (squads h) (iquads h) (observe univ addrs s) (root s) c = true).
    { rewrite <- Hwc0. unfold wf_call, observe, o_cl, o_bal. cbn [fst snd]. rewrite !map_fst_pair. reflexivity. }
    set (po := observe univ addrs s) in *.
    assert (Hkeys_cl : map fst (o_cl po) = univ) by (unfold po, observe, o_cl; cbn [fst snd]; apply map_fst_pair).
    assert (Hkeys_bal : map fst (o_bal po) = addrs) by (unfold po, observe, o_bal; cbn [fst snd]; apply map_fst_pair).
    assert (Hroot : o_root po = root s) by reflexivity.
    rewrite <- Hroot in Hwc0.
    unfold mstep. destruct c as [p r v|p r v i|r|i|i a m p|i a m p|i a m p|n];
      cbn [wf_call] in Hwc; unfold mon_expect; rewrite Hwc0; cbn [negb step fst snd].
    - (* Verify *) unfold verify_out_ok. rewrite (verify_is_honest_s _ _ _ Hwc), out_eqb_refl. reflexivity.
    - (* VerifyIdx *) apply andb_prop in Hwc. destruct Hwc as [Hr Hi]. apply Z.leb_le in Hi.
      unfold idx_out_ok. rewrite (idx_outcome _ _ _ _ Hr Hi), out_eqb_refl. reflexivity.
    - (* SetRoot *) cbn [out_eqb]. reflexivity.
    - (* SetClaimed *) cbn [out_eqb]. f_equal. symmetry. apply observe_set_claimed.
    - (* ClaimS *)
      rewrite Hkeys_cl in Hwc. apply andb_prop in Hwc. destruct Hwc as [Hi Hcur].
      rewrite Hroot. unfold po at 1. rewrite (flag_observe _ _ _ _ Hi).
      unfold unit_call, claim_sorted.
      destruct (root s) as [r|] eqn:Er; cbn [of_option bind].
      + destruct (is_claimed s i) eqn:Ec.
        * cbn [fst snd unit_expect out_eqb]. reflexivity.
        * rewrite (verify_is_honest_s _ _ _ Hcur).
          destruct (honest_s (squads h) r (Lh h i a m) p); cbn [fst snd unit_expect out_eqb].
          -- f_equal. rewrite observe_set_claimed, Er. reflexivity.
          -- reflexivity.
      + cbn [fst snd unit_expect out_eqb]. reflexivity.
    - (* ClaimI *)
      rewrite Hkeys_cl in Hwc. apply andb_prop in Hwc. destruct Hwc as [Hi Hcur].
      assert (Hflag : alist_get i (o_cl po) = Some (is_claimed s i)) by (apply flag_observe; exact Hi).
      rewrite Hroot, Hflag.
      unfold unit_call, claim_indexed.
      destruct (root s) as [r|] eqn:Er; cbn [of_option bind].
      + destruct (is_claimed s i) eqn:Ec.
        * cbn [fst snd unit_expect out_eqb]. reflexivity.
        * rewrite <- (idx_outcome _ (Lh h i a m) p _ Hcur (N2Z.is_nonneg i)).
          destruct (verify_with_index dg_eqb (Hh h) p r (Lh h i a m) (Z.of_N i)) as [[|]|];
            cbn [bind fst snd unit_expect out_eqb].
          -- f_equal. rewrite observe_set_claimed, Er. reflexivity.
          -- destruct (honest_i (iquads h) r (Lh h i a m) p (Z.of_N i)); reflexivity.
          -- destruct (honest_i (iquads h) r (Lh h i a m) p (Z.of_N i)); reflexivity.
      + cbn [fst snd unit_expect out_eqb]. reflexivity.
    - (* Airdrop *)
      rewrite Hkeys_cl, Hkeys_bal in Hwc. apply andb_prop in Hwc. destruct Hwc as [Hwc Hself_in].
      apply andb_prop in Hwc. destruct Hwc as [Hwc Ha]. apply andb_prop in Hwc. destruct Hwc as [Hi Hcur].
      rewrite Hroot. unfold po at 1. rewrite (flag_observe _ _ _ _ Hi).
      unfold po at 1. rewrite (bal_of_observe _ _ _ _ Hself_in). rewrite <- Hself.
      pose proof (airdrop_pays dg dg_eqb (Hh h) dg_gtb (Lh h) s i a m p) as Hpay.
      cbn [step] in Hpay.
      unfold unit_call, airdrop_claim, claim_sorted in *.
      destruct (root s) as [r|] eqn:Er; cbn [of_option bind] in *.
      + destruct (is_claimed s i) eqn:Ec.
        * cbn [bind fst snd unit_expect out_eqb]. reflexivity.
        * rewrite (verify_is_honest_s _ _ _ Hcur) in *.
          destruct (honest_s (squads h) r (Lh h i a m) p); cbn [bind andb] in *.
          -- unfold transfer, guard in *. cbn [self set_claimed] in *.
             change (balance (set_claimed s i) (self s)) with (balance s (self s)) in *.
             destruct (0 <=? m); cbn [bind andb] in *; [|cbn [fst snd unit_expect out_eqb]; reflexivity].
             destruct (m <=? balance s (self s)); cbn [bind andb] in *; [|cbn [fst snd unit_expect out_eqb]; reflexivity].
             cbn [fst snd unit_expect out_eqb].
             destruct (Hpay _ eq_refl) as (_ & _ & _ & Hbal).
             f_equal. symmetry. unfold observe at 1. unfold po, observe, o_cl, o_bal, o_root. cbn [fst snd root set_bal set_claimed].
             rewrite Er. f_equal; [f_equal|].
             ++ rewrite upd_claimed_observe. apply map_ext. intros j. reflexivity.
             ++ unfold upd_bals. rewrite map_map. apply map_ext. intros x. cbn [fst snd]. f_equal. apply Hbal.
          -- cbn [fst snd unit_expect out_eqb]. reflexivity.
      + cbn [bind fst snd unit_expect out_eqb]. reflexivity.
    - (* Advance *) cbn [out_eqb]. reflexivity.
  Qed.

  Lemma step_root_obs univ addrs (s : state dg) : o_root (observe univ addrs s) = root s.
  Proof. reflexivity. Qed.

  Lemma obs_sub_reads univ addrs reads (s : state dg) :
    forallb (fun i => mem_n i univ) reads = true ->
    obs_sub (observe reads addrs s) (observe univ addrs s) = true.
  Proof.
    intros Hr. unfold obs_sub. rewrite bal_eqb_refl.
    assert (Hc : cl_sub (o_cl (observe reads addrs s)) (o_cl (observe univ addrs s)) = true).
    { unfold cl_sub, observe, o_cl. cbn [fst snd]. apply forallb_forall. intros [j b] Hin.
      apply in_map_iff in Hin. destruct Hin as (j' & E & Hin). injection E as Ej Eb. subst j b. cbn [fst snd].
      rewrite forallb_forall in Hr.
      rewrite (alist_get_map (is_claimed s) univ j' (Hr _ Hin)). apply eqb_reflx. }
    rewrite Hc. unfold observe, o_root. cbn [fst].
    destruct (root s); cbn [oroot_eqb]; [rewrite dg_eqb_refl|]; reflexivity.
  Qed.

  (* ---------- the whole run ---------- *)
  Lemma model_run_accepted : forall cs univ addrs (s0 s : state dg) k,
    self s = h_self h ->
    wf_run h (squads h) (iquads h) (observe univ addrs s0) s cs = true ->
    diff_from h (squads h) (iquads h) (observe univ addrs s0) s (model_items h (observe univ addrs s0) s cs) k = 0%N /\
    mon_from h (squads h) (iquads h) (observe univ addrs s0) (observe univ addrs s)
             (model_items h (observe univ addrs s0) s cs) k = 0%N.
  Proof.
    induction cs as [|[c reads] cs IH]; intros univ addrs s0 s k Hself Hw; [split; reflexivity|].
    cbn [wf_run model_items] in *.
    assert (Hb : map fst (o_bal (observe univ addrs s0)) = addrs)
      by (unfold observe, o_bal; cbn [fst snd]; apply map_fst_pair).
    assert (Hc : map fst (o_cl (observe univ addrs s0)) = univ)
      by (unfold observe, o_cl; cbn [fst snd]; apply map_fst_pair).
    rewrite Hb. rewrite Hc in Hw.
    pose proof (mon_expect_model univ addrs s0 s c Hself) as Hm.
    pose proof (step_self s c) as Hs'.
    destruct (mstep h s c) as [s' out] eqn:Es. cbn [fst snd] in *.
    apply andb_prop in Hw. destruct Hw as [Hw Hrest]. apply andb_prop in Hw. destruct Hw as [Hw Hreads].
    apply andb_prop in Hw. destruct Hw as [Hwc Hhits].
    cbn [diff_from mon_from]. rewrite Es, Hwc, Hhits, out_eqb_refl.
    rewrite observe_like_observe, obs_eqb_refl. cbn [andb].
    rewrite (Hm Hwc), (obs_sub_reads _ _ _ _ Hreads).
    apply IH; [congruence|exact Hrest].
  Qed.
End Mon.

Theorem check_accepts_model : forall (h : hdr) (o0 : obs) (cs : list (call dg * list N)),
  wf_input h o0 cs = true -> check (model_trace h o0 cs) = (0%N, 0%N, 0%N).
Proof.
  intros h o0 cs Hw. unfold wf_input in Hw. apply andb_prop in Hw. destruct Hw as [Hw Hrun].
  apply andb_prop in Hw. destruct Hw as [Hh Ho].
  unfold check, model_trace. rewrite Hh, Ho. cbn [andb].
  set (s0 := init_of h o0) in *.
  assert (Hself : self s0 = h_self h) by reflexivity.
  assert (Hobs : o0 = observe (map fst (o_cl o0)) (map fst (o_bal o0)) s0)
    by (symmetry; apply observe_init; exact Ho).
  clearbody s0.
  remember (map fst (o_cl o0)) as univ. remember (map fst (o_bal o0)) as addrs.
  clear Hequniv Heqaddrs Ho. subst o0.
  destruct (model_run_accepted h Hh cs univ addrs s0 s0 0%N Hself Hrun) as [-> ->]. reflexivity.
Qed.
