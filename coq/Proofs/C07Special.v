(* C07: parties that cannot be authorised for, and parties that authorise as the direct invoker.

   The model identifies "address a authorises the call" with membership of a in the call's
   authorisation set, whatever kind of address a is.  Two kinds of address are special in the host:
   - the contract under test ITSELF: no call can carry its authorisation (it has no __check_auth and
     cannot re-enter itself), so it occurs in no authorisation set - it is SILENT in every history;
   - another contract: it authorises exactly the calls it makes itself (the harness routes such calls
     through it and lists it in the set).
   The theorems below say what silence means for the handshake, over ALL histories:
   a silent holder keeps the role for good and nothing restricted ever succeeds (a self-owned contract
   is not "callable by anybody" - it is callable by nobody); a silent address never becomes the holder
   (an offer to the contract itself can never be accepted). *)
From SC Require Import Lib.Prelude Lib.Int Lib.Host Model.RoleTransfer Proofs.RoleTransfer.

Definition call_auths (cl : call) : list addr :=
  match cl with
  | Offer _ _ au | Accept au | Renounce au | Guarded au => au
  | Advance _ => []
  end.

(* a never authorises any of the calls *)
Definition silent (a : addr) (cs : list call) : Prop :=
  Forall (fun cl => has_auth (call_auths cl) a = false) cs.
Definition silentb (a : addr) (cs : list call) : bool :=
  forallb (fun cl => negb (has_auth (call_auths cl) a)) cs.

Lemma silentb_silent : forall a cs, silentb a cs = true <-> silent a cs.
Proof.
  intros a cs. unfold silentb, silent. rewrite forallb_forall, Forall_forall.
  split; intros H x Hx; specialize (H x Hx); destruct (has_auth (call_auths x) a); cbn in *; congruence.
Qed.

Definition is_advance (cl : call) : bool := match cl with Advance _ => true | _ => false end.

(* ---- one step under a silent holder with nothing pending ---- *)
Lemma step_silent_holder : forall k c s cl h,
  holder (rts s) = Some h -> pending (rts s) = None ->
  has_auth (call_auths cl) h = false ->
  let s' := fst (step k c s cl) in
  holder (rts s') = Some h /\ pending (rts s') = None /\
  (is_ok (snd (step k c s cl)) = true -> is_advance cl = true).
Proof.
  intros k c s cl h Hh Hp Ha. destruct s as [nw [hd pd] ct]. cbn in Hh, Hp. subst hd pd.
  destruct cl as [new lu au|au|au|au|n]; cbn [call_auths] in Ha; cbn [step now rts ctr].
  - unfold offer, enforce_holder_auth. cbn [holder]. rewrite Ha. cbn. repeat split; auto; discriminate.
  - unfold accept, accept_transfer. cbn [holder pending]. unfold tget, tlive_at.
    destruct k; cbn; repeat split; auto; discriminate.
  - unfold renounce, enforce_holder_auth. cbn [holder]. rewrite Ha. cbn. repeat split; auto; discriminate.
  - unfold enforce_holder_auth. cbn [holder]. rewrite Ha. cbn. repeat split; auto; discriminate.
  - cbn. repeat split; auto.
Qed.

(* a holder that never authorises keeps the role through every history, no offer is ever stored, and the
   only calls that succeed are ledger advances *)
Lemma silent_holder_stuck_gen : forall k c cs s h,
  holder (rts s) = Some h -> pending (rts s) = None -> silent h cs ->
  Forall (fun e => ev_holder e = Some h /\ ev_after e = Some h /\
                   (is_ok (ev_out e) = true -> is_advance (ev_call e) = true)) (history k c s cs) /\
  holder (rts (run k c s cs)) = Some h /\ pending (rts (run k c s cs)) = None.
Proof.
  intros k c cs. induction cs as [|cl r IH]; intros s h Hh Hp Hs.
  - cbn. split; [constructor|auto].
  - inversion Hs as [|x l Hx Hl]; subst.
    destruct (step_silent_holder k c s cl h Hh Hp Hx) as [A [B C]].
    destruct (IH (fst (step k c s cl)) h A B Hl) as [F [G1 G2]].
    rewrite history_cons, run_cons. split; [|auto].
    constructor; [|exact F].
    unfold ev_of; cbn [ev_holder ev_after ev_out ev_call]. auto.
Qed.

Lemma silent_holder_stuck : forall k c start h cs,
  silent h cs ->
  Forall (fun e => ev_holder e = Some h /\ ev_after e = Some h /\
                   (is_ok (ev_out e) = true -> exists n, ev_call e = Advance n))
         (history k c (init start (Some h)) cs) /\
  holder (rts (run k c (init start (Some h)) cs)) = Some h /\
  pending_view (run k c (init start (Some h)) cs) = None.
Proof.
  intros k c start h cs Hs.
  destruct (silent_holder_stuck_gen k c cs (init start (Some h)) h eq_refl eq_refl Hs) as [F [G1 G2]].
  split; [|split; [exact G1|]].
  - eapply Forall_impl; [|exact F]. intros e [A [B C]]. split; [exact A|split; [exact B|]].
    intros Hok. specialize (C Hok). destruct (ev_call e); try discriminate. eauto.
  - unfold pending_view. rewrite G2. reflexivity.
Qed.

(* ---- a silent address never becomes the holder ---- *)
Lemma step_silent_not_holder : forall k c s cl a,
  holder (rts s) <> Some a -> has_auth (call_auths cl) a = false ->
  holder (rts (fst (step k c s cl))) <> Some a.
Proof.
  intros k c s cl a Hn Ha. destruct s as [nw [hd pd] ct]. cbn in Hn.
  destruct cl as [new lu au|au|au|au|n]; cbn [call_auths] in Ha; cbn [step now rts ctr].
  - unfold offer. destruct (enforce_holder_auth au {| holder := hd; pending := pd |}); cbn; [|exact Hn].
    destruct (transfer_role c nw pd new lu); cbn; exact Hn.
  - assert (forall r, accept_transfer nw au {| holder := hd; pending := pd |} = Ok r -> holder r <> Some a) as HA.
    { intros r. unfold accept_transfer. cbn [pending].
      destruct (tget nw pd) as [pa|]; [|discriminate].
      destruct (has_auth au pa) eqn:E; [|discriminate].
      intros H; inversion H; subst; cbn. intros Heq; inversion Heq; subst. congruence. }
    unfold accept. destruct k.
    + destruct (accept_transfer nw au {| holder := hd; pending := pd |}) as [r|] eqn:E; cbn; [apply HA; reflexivity|exact Hn].
    + cbn [holder]. destruct hd as [h|]; cbn; [|exact Hn].
      destruct (accept_transfer nw au {| holder := Some h; pending := pd |}) as [r|] eqn:E; cbn; [apply HA; reflexivity|exact Hn].
  - unfold renounce. destruct (enforce_holder_auth au {| holder := hd; pending := pd |}); cbn; [|exact Hn].
    cbn [pending]. destruct (tget nw pd); cbn; [exact Hn|discriminate].
  - destruct (enforce_holder_auth au {| holder := hd; pending := pd |}); cbn; [|exact Hn].
    destruct k; cbn; exact Hn.
  - cbn. exact Hn.
Qed.

Lemma silent_never_holder : forall k c cs s a,
  holder (rts s) <> Some a -> silent a cs ->
  Forall (fun e => ev_after e <> Some a) (history k c s cs) /\ holder (rts (run k c s cs)) <> Some a.
Proof.
  intros k c cs. induction cs as [|cl r IH]; intros s a Hn Hs.
  - cbn. split; [constructor|exact Hn].
  - inversion Hs as [|x l Hx Hl]; subst.
    pose proof (step_silent_not_holder k c s cl a Hn Hx) as A.
    destruct (IH (fst (step k c s cl)) a A Hl) as [F G].
    rewrite history_cons, run_cons. split; [|exact G].
    constructor; [|exact F]. unfold ev_of; cbn [ev_after]. exact A.
Qed.

(* ---- the forms pinned in Properties/C07.v ---- *)
(* the authorisation set of a call, spelled out (call_auths) *)
Lemma call_auths_spec : forall cl,
  call_auths cl = match cl with Offer _ _ au => au | Accept au => au | Renounce au => au | Guarded au => au | Advance _ => [] end.
Proof. destruct cl; reflexivity. Qed.

(* non-vacuity: a self-owned contract (holder 4 = the contract itself, never a signer) under the calls of the
   directed scenario "special/self-owned": everything restricted fails, the holder stays *)
Definition ex_self_calls : list call :=
  [Guarded []; Guarded [1%N]; Guarded [5%N]; Offer 1%N 200 []; Offer 1%N 200 [1%N]; Offer 1%N 200 [0%N; 1%N; 2%N; 3%N; 5%N];
   Accept [1%N]; Offer 1%N 0 [1%N]; Renounce []; Renounce [5%N]; Advance 10%N; Offer 4%N 300 [1%N]; Accept []].
Example ex_self_silent : silentb 4%N ex_self_calls = true.
Proof. vm_compute. reflexivity. Qed.
Example ex_self_run :
  map (fun e => (is_ok (ev_out e), ev_after e)) (history Own cfg1 (init 100 (Some 4%N)) ex_self_calls) =
  [(false, Some 4%N); (false, Some 4%N); (false, Some 4%N); (false, Some 4%N); (false, Some 4%N); (false, Some 4%N);
   (false, Some 4%N); (false, Some 4%N); (false, Some 4%N); (false, Some 4%N); (true, Some 4%N); (false, Some 4%N); (false, Some 4%N)].
Proof. vm_compute. reflexivity. Qed.
(* an offer TO the silent address 4 is stored, blocks renounce, and is never accepted *)
Definition ex_to_self_calls : list call :=
  [Offer 4%N 200 [0%N]; Accept []; Accept [0%N]; Accept [1%N; 5%N]; Renounce [0%N]; Offer 4%N 0 [0%N]; Renounce [0%N]].
Example ex_to_self_run :
  silentb 4%N ex_to_self_calls = true /\
  map (fun e => (is_ok (ev_out e), ev_after e)) (history AC cfg1 (init 100 (Some 0%N)) ex_to_self_calls) =
  [(true, Some 0%N); (false, Some 0%N); (false, Some 0%N); (false, Some 0%N); (false, Some 0%N); (true, Some 0%N); (true, None)].
Proof. vm_compute. split; reflexivity. Qed.
