(* C08: facts about the timelock model; the link between the model's stored ledgers and
   the history machine of Model/TimelockGhost.v. *)
From SC Require Import Lib.Prelude Lib.Int Lib.Host Model.Timelock Model.TimelockGhost Proofs.TimelockGhost.

Lemma MAXU32_val : MAXU32 = 4294967295.
Proof. reflexivity. Qed.

Lemma in_u32_iff z : in_u32 z = true <-> 0 <= z <= MAXU32.
Proof. unfold in_u32. rewrite andb_true_iff, !Z.leb_le. tauto. Qed.

Lemma sat_add_u32_spec a d : 0 <= a + d -> sat_add_u32 a d = Z.min (a + d) MAXU32.
Proof.
  intros H. unfold sat_add_u32. destruct (in_u32 (a + d)) eqn:E.
  - apply in_u32_iff in E. lia.
  - assert (~ (0 <= a + d <= MAXU32)) by (rewrite <- in_u32_iff; congruence). lia.
Qed.

Lemma sat_add_u32_range a d : 2 <= a <= MAXU32 -> 0 <= d -> 2 <= sat_add_u32 a d <= MAXU32 /\ a <= sat_add_u32 a d.
Proof. intros Ha Hd. rewrite sat_add_u32_spec by lia. rewrite MAXU32_val in *. lia. Qed.

(* ---------------- stored ledgers ---------------- *)
Lemma mark_set_eq s i v : mark (set_mark s i v) i = v.
Proof. unfold mark, set_mark; cbn [marks]. rewrite alist_get_set_eq. reflexivity. Qed.
Lemma mark_set_neq s i j v : j <> i -> mark (set_mark s i v) j = mark s j.
Proof. intros H. unfold mark, set_mark; cbn [marks]. rewrite alist_get_set_neq by exact H. reflexivity. Qed.
Lemma mark_del_eq s i : mark (del_mark s i) i = 0.
Proof. unfold mark, del_mark; cbn [marks]. rewrite alist_get_remove_eq. reflexivity. Qed.
Lemma mark_del_neq s i j : j <> i -> mark (del_mark s i) j = mark s j.
Proof. intros H. unfold mark, del_mark; cbn [marks]. rewrite alist_get_remove_neq by exact H. reflexivity. Qed.

(* ---------------- reported state vs stored ledger ---------------- *)
Lemma state_of_mark_cases now r :
  (r = 0 /\ state_of_mark now r = Unset) \/ (r = 1 /\ state_of_mark now r = Done)
  \/ (r <> 0 /\ r <> 1 /\ now < r /\ state_of_mark now r = Waiting)
  \/ (r <> 0 /\ r <> 1 /\ r <= now /\ state_of_mark now r = Ready).
Proof.
  unfold state_of_mark, UNSET_LEDGER, DONE_LEDGER.
  destruct (r =? 0) eqn:E0; [apply Z.eqb_eq in E0; auto|apply Z.eqb_neq in E0].
  destruct (r =? 1) eqn:E1; [apply Z.eqb_eq in E1; auto|apply Z.eqb_neq in E1].
  destruct (now <? r) eqn:E2; [apply Z.ltb_lt in E2|apply Z.ltb_ge in E2]; auto 10.
Qed.

Lemma state_unset_iff s i : state_of s i = Unset <-> mark s i = 0.
Proof. unfold state_of. destruct (state_of_mark_cases (now s) (mark s i)) as [[? ->]|[[? ->]|[(?&?&?&->)|(?&?&?&->)]]]; split; intros; try congruence; lia. Qed.
Lemma state_done_iff s i : state_of s i = Done <-> mark s i = 1.
Proof. unfold state_of. destruct (state_of_mark_cases (now s) (mark s i)) as [[? ->]|[[? ->]|[(?&?&?&->)|(?&?&?&->)]]]; split; intros; try congruence; lia. Qed.
Lemma state_waiting_iff s i : state_of s i = Waiting <-> mark s i <> 0 /\ mark s i <> 1 /\ now s < mark s i.
Proof. unfold state_of. destruct (state_of_mark_cases (now s) (mark s i)) as [[? ->]|[[? ->]|[(?&?&?&->)|(?&?&?&->)]]]; split; intros; try congruence; try lia; tauto. Qed.
Lemma state_ready_iff s i : state_of s i = Ready <-> mark s i <> 0 /\ mark s i <> 1 /\ mark s i <= now s.
Proof. unfold state_of. destruct (state_of_mark_cases (now s) (mark s i)) as [[? ->]|[[? ->]|[(?&?&?&->)|(?&?&?&->)]]]; split; intros; try congruence; try lia; tauto. Qed.

Lemma opstate_eqb_refl a : opstate_eqb a a = true.
Proof. destruct a; reflexivity. Qed.
Lemma opstate_eqb_neq a b : a <> b -> opstate_eqb a b = false.
Proof. intros H. destruct (opstate_eqb a b) eqn:E; auto. apply opstate_eqb_eq in E. contradiction. Qed.

Section WithHash.
  Variable hash : op -> id.
  Notation step := (step hash).
  Notation run := (run hash).
  Notation hist := (hist hash).
  Notation subject := (subject hash).

  (* ---------------- when the storage functions succeed ---------------- *)
  Lemma schedule_ok s o d s' i :
    schedule_operation hash s o d = Ok (s', i) ->
    0 <= d <= MAXU32 /\ mark s (hash o) = 0 /\
    exists m, min_delay s = Some m /\ m <= d /\ s' = set_mark s (hash o) (sat_add_u32 (now s) d) /\ i = hash o.
  Proof.
    unfold schedule_operation. destruct (in_u32 d) eqn:Ed; cbn [guard bind]; [|discriminate].
    apply in_u32_iff in Ed. unfold operation_exists.
    destruct (opstate_eqb (state_of s (hash o)) Unset) eqn:Eu; cbn [negb]; [|discriminate].
    apply opstate_eqb_eq, state_unset_iff in Eu.
    destruct (min_delay s) as [m|]; [|discriminate].
    destruct (d <? m) eqn:Em; [discriminate|]. apply Z.ltb_ge in Em.
    intros H. inversion H. split; [exact Ed|]. split; [exact Eu|]. exists m. auto.
  Qed.

  Lemma schedule_ok_conv s o d m :
    0 <= d <= MAXU32 -> mark s (hash o) = 0 -> min_delay s = Some m -> m <= d ->
    schedule_operation hash s o d = Ok (set_mark s (hash o) (sat_add_u32 (now s) d), hash o).
  Proof.
    intros Hd Hm Hmin Hle. unfold schedule_operation.
    replace (in_u32 d) with true by (symmetry; apply in_u32_iff; exact Hd). cbn [guard bind].
    unfold operation_exists. apply state_unset_iff in Hm. rewrite Hm. cbn. rewrite Hmin.
    replace (d <? m) with false by (symmetry; apply Z.ltb_ge; exact Hle). reflexivity.
  Qed.

  Lemma set_execute_ok s o s' :
    set_execute_operation hash s o = Ok s' ->
    state_of s (hash o) = Ready /\ (pred o = 0%N \/ state_of s (pred o) = Done) /\ s' = set_mark s (hash o) DONE_LEDGER.
  Proof.
    unfold set_execute_operation, is_operation_ready, is_operation_done.
    destruct (opstate_eqb (state_of s (hash o)) Ready) eqn:Er; cbn [negb]; [|discriminate].
    apply opstate_eqb_eq in Er.
    destruct (N.eqb (pred o) 0) eqn:Ep; cbn [negb andb].
    - intros H. inversion H. apply N.eqb_eq in Ep. auto.
    - destruct (opstate_eqb (state_of s (pred o)) Done) eqn:Ed; cbn [negb]; [|discriminate].
      apply opstate_eqb_eq in Ed. intros H. inversion H. auto.
  Qed.

  Lemma cancel_ok s i s' :
    cancel_operation s i = Ok s' ->
    (state_of s i = Waiting \/ state_of s i = Ready) /\ s' = del_mark s i.
  Proof.
    unfold cancel_operation, is_operation_pending.
    destruct (opstate_eqb (state_of s i) Waiting) eqn:Ew; cbn [orb negb].
    - intros H. inversion H. apply opstate_eqb_eq in Ew. auto.
    - destruct (opstate_eqb (state_of s i) Ready) eqn:Er; cbn [negb]; [|discriminate].
      intros H. inversion H. apply opstate_eqb_eq in Er. auto.
  Qed.

  (* ---------------- shape of one step ---------------- *)
  Lemma step_fail_same s c : snd (step s c) = Fail -> fst (step s c) = s.
  Proof.
    destruct c as [o d|o t|o|i|d|n]; cbn [Timelock.step].
    - destruct (schedule_operation hash (tls s) o d) as [[t i]|]; cbn; [discriminate|auto].
    - destruct (set_execute_operation hash (tls s) o); cbn; auto. destruct t; cbn; [discriminate|auto].
    - destruct (set_execute_operation hash (tls s) o); cbn; [discriminate|auto].
    - destruct (cancel_operation (tls s) i); cbn; [discriminate|auto].
    - destruct (set_min_delay (tls s) d); cbn; [discriminate|auto].
    - destruct ((0 <=? n) && in_u32 (now (tls s) + n)); cbn; [discriminate|auto].
  Qed.

  Lemma run_app s a b : run s (a ++ b) = run (run s a) b.
  Proof. unfold Timelock.run. apply fold_left_app. Qed.
  Lemma run_cons s c r : run s (c :: r) = run (fst (step s c)) r.
  Proof. reflexivity. Qed.
  Lemma hist_app s a b : hist s (a ++ b) = hist s a ++ hist (run s a) b.
  Proof.
    revert s. induction a as [|c a IH]; intros s; cbn [app TimelockGhost.hist]; [reflexivity|].
    rewrite IH. reflexivity.
  Qed.

  (* ---------------- the invariant: stored ledgers vs history ---------------- *)
  Definition entry_ok (s : tl) (i : id) (e : option gst) : Prop :=
    match e with
    | None => mark s i = 0
    | Some GD => mark s i = 1
    | Some (GP a d m) => mark s i = sat_add_u32 a d /\ 2 <= a <= now s /\ m <= d /\ 0 <= d <= MAXU32
    end.
  Definition ginv (s : tl) (g : ghost) : Prop :=
    2 <= now s <= MAXU32 /\ forall i, entry_ok s i (alist_get i g).

  Lemma entry_ok_mono s s' i e :
    mark s' i = mark s i -> now s <= now s' -> entry_ok s i e -> entry_ok s' i e.
  Proof.
    intros Hm Hn. destruct e as [[a d m|]|]; cbn [entry_ok]; rewrite Hm; auto.
    intros (?&?&?&?). repeat split; auto; lia.
  Qed.

  (* what the entry says about the stored ledger *)
  Lemma entry_mark_0 s i e : 2 <= now s <= MAXU32 -> entry_ok s i e -> mark s i = 0 -> e = None.
  Proof.
    intros Hn He Hm. destruct e as [[a d m|]|]; cbn [entry_ok] in He; auto; [|lia].
    destruct He as (He & Ha & _ & Hd). pose proof (sat_add_u32_range a d). lia.
  Qed.
  Lemma entry_mark_1 s i e : 2 <= now s <= MAXU32 -> entry_ok s i e -> mark s i = 1 -> e = Some GD.
  Proof.
    intros Hn He Hm. destruct e as [[a d m|]|]; cbn [entry_ok] in He; auto; [|lia].
    destruct He as (He & Ha & _ & Hd). pose proof (sat_add_u32_range a d). lia.
  Qed.
  Lemma entry_mark_pending s i e :
    entry_ok s i e -> mark s i <> 0 -> mark s i <> 1 ->
    exists a d m, e = Some (GP a d m) /\ mark s i = sat_add_u32 a d /\ 2 <= a <= now s /\ m <= d /\ 0 <= d <= MAXU32.
  Proof.
    intros He H0 H1. destruct e as [[a d m|]|]; cbn [entry_ok] in He; try contradiction.
    exists a, d, m. split; [reflexivity|exact He].
  Qed.

  Lemma init_ginv n0 : 2 <= n0 <= MAXU32 -> ginv (init_tl n0) [].
  Proof. intros H. split; [exact H|]. intros i. reflexivity. Qed.

  (* every step of the model is a legal event of the history machine, and keeps the invariant *)
  Lemma step_ghost st c g :
    ginv (tls st) g ->
    exists g', gstep hash g (now (tls st)) (min_delay (tls st)) c (is_ok (snd (step st c))) = Some g'
               /\ ginv (tls (fst (step st c))) g'.
  Proof.
    intros [Hn Hg].
    assert (Hsame : forall g0, ginv (tls st) g0 -> ginv (tls st) g0) by auto.
    destruct c as [o d|o t|o|i|d|n]; cbn [Timelock.step].
    - (* schedule *)
      destruct (schedule_operation hash (tls st) o d) as [[t i]|] eqn:E; cbn [fst snd is_ok].
      + apply schedule_ok in E. destruct E as (Hd & Hm & m & Hmin & Hle & -> & ->).
        pose proof (entry_mark_0 _ _ _ Hn (Hg (hash o)) Hm) as Hnone.
        unfold TimelockGhost.gstep; cbn [negb]. rewrite Hnone, Hmin.
        replace ((m <=? d) && in_u32 d) with true
          by (symmetry; apply andb_true_iff; split; [apply Z.leb_le; lia|apply in_u32_iff; lia]).
        eexists. split; [reflexivity|]. cbn [with_tl tls]. split; [cbn [set_mark now]; exact Hn|].
        intros j. destruct (N.eq_dec j (hash o)) as [->|Hj].
        * rewrite alist_get_set_eq. cbn [entry_ok]. rewrite mark_set_eq. cbn [set_mark now]. repeat split; lia.
        * rewrite alist_get_set_neq by exact Hj. apply (entry_ok_mono (tls st)); auto.
          -- apply mark_set_neq; exact Hj.
          -- cbn [set_mark now]; lia.
      + exists g. split; [reflexivity|]. split; auto.
    - (* execute *)
      destruct (set_execute_operation hash (tls st) o) as [t'|] eqn:E; cbn [fst snd is_ok].
      2:{ exists g. split; [reflexivity|]. split; auto. }
      destruct t; cbn [fst snd is_ok].
      2:{ exists g. split; [reflexivity|]. split; auto. }
      apply set_execute_ok in E. destruct E as (Hr & Hp & ->).
      apply state_ready_iff in Hr. destruct Hr as (H0 & H1 & Hle).
      destruct (entry_mark_pending _ _ _ (Hg (hash o)) H0 H1) as (a & dd & m & Hent & Hmk & Ha & Hmd & Hdd).
      unfold TimelockGhost.gstep; cbn [negb]. unfold g_execute. rewrite Hent.
      replace (sat_add_u32 a dd <=? now (tls st)) with true by (symmetry; apply Z.leb_le; lia).
      replace (N.eqb (pred o) 0 || g_is_done g (pred o)) with true.
      2:{ symmetry. apply orb_true_iff. destruct Hp as [Hp|Hp]; [left; apply N.eqb_eq; exact Hp|right].
          apply state_done_iff in Hp. unfold g_is_done. rewrite (entry_mark_1 _ _ _ Hn (Hg (pred o)) Hp). reflexivity. }
      cbn [andb]. eexists. split; [reflexivity|]. cbn [tls]. split; [cbn [set_mark now]; exact Hn|].
      intros j. destruct (N.eq_dec j (hash o)) as [->|Hj].
      + rewrite alist_get_set_eq. cbn [entry_ok]. apply mark_set_eq.
      + rewrite alist_get_set_neq by exact Hj. apply (entry_ok_mono (tls st)); auto.
        * apply mark_set_neq; exact Hj.
        * cbn [set_mark now]; lia.
    - (* set_execute *)
      destruct (set_execute_operation hash (tls st) o) as [t'|] eqn:E; cbn [fst snd is_ok].
      2:{ exists g. split; [reflexivity|]. split; auto. }
      apply set_execute_ok in E. destruct E as (Hr & Hp & ->).
      apply state_ready_iff in Hr. destruct Hr as (H0 & H1 & Hle).
      destruct (entry_mark_pending _ _ _ (Hg (hash o)) H0 H1) as (a & dd & m & Hent & Hmk & Ha & Hmd & Hdd).
      unfold TimelockGhost.gstep; cbn [negb]. unfold g_execute. rewrite Hent.
      replace (sat_add_u32 a dd <=? now (tls st)) with true by (symmetry; apply Z.leb_le; lia).
      replace (N.eqb (pred o) 0 || g_is_done g (pred o)) with true.
      2:{ symmetry. apply orb_true_iff. destruct Hp as [Hp|Hp]; [left; apply N.eqb_eq; exact Hp|right].
          apply state_done_iff in Hp. unfold g_is_done. rewrite (entry_mark_1 _ _ _ Hn (Hg (pred o)) Hp). reflexivity. }
      cbn [andb]. eexists. split; [reflexivity|]. cbn [with_tl tls]. split; [cbn [set_mark now]; exact Hn|].
      intros j. destruct (N.eq_dec j (hash o)) as [->|Hj].
      + rewrite alist_get_set_eq. cbn [entry_ok]. apply mark_set_eq.
      + rewrite alist_get_set_neq by exact Hj. apply (entry_ok_mono (tls st)); auto.
        * apply mark_set_neq; exact Hj.
        * cbn [set_mark now]; lia.
    - (* cancel *)
      destruct (cancel_operation (tls st) i) as [t'|] eqn:E; cbn [fst snd is_ok].
      2:{ exists g. split; [reflexivity|]. split; auto. }
      apply cancel_ok in E. destruct E as (Hs & ->).
      assert (H01 : mark (tls st) i <> 0 /\ mark (tls st) i <> 1).
      { destruct Hs as [Hs|Hs]; [apply state_waiting_iff in Hs|apply state_ready_iff in Hs]; tauto. }
      destruct (entry_mark_pending _ _ _ (Hg i) (proj1 H01) (proj2 H01)) as (a & dd & m & Hent & _).
      unfold TimelockGhost.gstep; cbn [negb]. rewrite Hent.
      eexists. split; [reflexivity|]. cbn [with_tl tls]. split; [cbn [del_mark now]; exact Hn|].
      intros j. destruct (N.eq_dec j i) as [->|Hj].
      + rewrite alist_get_remove_eq. cbn [entry_ok]. apply mark_del_eq.
      + rewrite alist_get_remove_neq by exact Hj. apply (entry_ok_mono (tls st)); auto.
        * apply mark_del_neq; exact Hj.
        * cbn [del_mark now]; lia.
    - (* set_min_delay *)
      unfold set_min_delay. destruct (in_u32 d); cbn [guard bind fst snd is_ok].
      + exists g. split; [reflexivity|]. cbn [with_tl tls]. split; [exact Hn|].
        intros j. apply (entry_ok_mono (tls st)); [reflexivity|cbn; lia|apply Hg].
      + exists g. split; [reflexivity|]. split; auto.
    - (* advance *)
      destruct ((0 <=? n) && in_u32 (now (tls st) + n)) eqn:E; cbn [fst snd is_ok].
      + apply andb_true_iff in E. destruct E as [E1 E2]. apply Z.leb_le in E1. apply in_u32_iff in E2.
        exists g. split; [reflexivity|]. cbn [with_tl tls]. split; [change (2 <= now (tls st) + n <= MAXU32); lia|].
        intros j. apply (entry_ok_mono (tls st)); [reflexivity|cbn; lia|apply Hg].
      + exists g. split; [reflexivity|]. split; auto.
  Qed.

  (* lifted to runs: the history machine accepts the whole log of the model *)
  Lemma run_ghost cs : forall st g,
    ginv (tls st) g ->
    exists g', gfold hash g (hist st cs) = Some g' /\ ginv (tls (run st cs)) g'.
  Proof.
    induction cs as [|c cs IH]; intros st g Hg.
    - exists g. split; [reflexivity|exact Hg].
    - destruct (step_ghost st c g Hg) as (g1 & Hs & Hg1).
      destruct (IH _ _ Hg1) as (g' & Hf & Hg').
      exists g'. split; [|exact Hg']. cbn [TimelockGhost.hist TimelockGhost.gfold he_now he_min he_call he_ok].
      rewrite Hs. exact Hf.
  Qed.
End WithHash.
