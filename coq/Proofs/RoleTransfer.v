(* C07 proofs about Model/RoleTransfer.v: host facts, step facts, histories. *)
From SC Require Import Lib.Prelude Lib.Int Lib.Host Model.RoleTransfer.

Definition cfg1 : hostcfg := {| min_temp_ttl := 1; max_ttl := 5000 |}.

(* F2: offer A until 1000; offer B until 110; ledger 500; B accepts - and becomes the holder *)
Lemma f2_witness : forall k,
  let s := run k cfg1 (init 100 (Some 0%N)) (f2_calls 1%N 2%N 0%N) in
  holder (rts s) = Some 2%N /\ now s = 500.
Proof. intros k; destruct k; vm_compute; split; reflexivity. Qed.

(* ------------------------------------------------------------------ *)
(* temporary storage *)

Lemma tlive_at_some : forall V now (p : option (tentry V)) e,
  tlive_at now p = Some e <-> p = Some e /\ now <= tlive e.
Proof.
  intros V now p e. unfold tlive_at. destruct p as [en|].
  - destruct (tlive en <? now) eqn:E.
    + apply Z.ltb_lt in E. split; [discriminate|]. intros [H1 H2]. inversion H1; subst. lia.
    + apply Z.ltb_ge in E. split.
      * intros H; inversion H; subst. split; [reflexivity|lia].
      * intros [H1 _]. exact H1.
  - split; [discriminate|]. intros [H _]; discriminate.
Qed.

Lemma tlive_at_none : forall V now (p : option (tentry V)),
  tlive_at now p = None <-> (forall e, p = Some e -> tlive e < now).
Proof.
  intros V now p. unfold tlive_at. destruct p as [en|].
  - destruct (tlive en <? now) eqn:E.
    + apply Z.ltb_lt in E. split; [|reflexivity]. intros _ e H; inversion H; subst; exact E.
    + apply Z.ltb_ge in E. split; [discriminate|]. intros H. specialize (H en eq_refl). lia.
  - split; [|reflexivity]. intros _ e H; discriminate.
Qed.

Lemma tget_some : forall V now (p : option (tentry V)) v,
  tget now p = Some v <-> exists e, p = Some e /\ now <= tlive e /\ tval e = v.
Proof.
  intros V now p v. unfold tget. destruct (tlive_at now p) as [en|] eqn:E.
  - apply tlive_at_some in E. destruct E as [E1 E2]. split.
    + intros H; inversion H; subst. exists en. auto.
    + intros [e [H1 [H2 H3]]]. rewrite E1 in H1. inversion H1; subst. reflexivity.
  - split; [discriminate|]. intros [e [H1 [H2 H3]]].
    rewrite tlive_at_none in E. specialize (E e H1). lia.
Qed.

Lemma tget_none : forall V now (p : option (tentry V)),
  tget now p = None <-> tlive_at now p = None.
Proof. intros V now p. unfold tget. destruct (tlive_at now p); split; intros H; try discriminate; reflexivity. Qed.

(* what transfer_role does for a real offer (live_until <> 0): the entry carries the new
   addressee; its lifetime is the LATER of the requested live_until and the lifetime of a
   still live entry it overwrites (the host never shortens a lifetime) *)
Lemma transfer_role_offer : forall c now p new lu,
  1 <= min_temp_ttl c -> lu <> 0 ->
  transfer_role c now p new lu =
    if (now <=? lu) && (lu <=? now + max_ttl c - 1) then
      Ok (Some {| tval := new;
                  tlive := match tlive_at now p with
                           | Some e => Z.max (tlive e) lu
                           | None => Z.max lu (now + min_temp_ttl c - 1)
                           end |})
    else Fail.
Proof.
  intros c now p new lu Hmin Hlu. unfold transfer_role, max_live_until.
  destruct (lu =? 0) eqn:E0; [apply Z.eqb_eq in E0; contradiction|].
  destruct (now + max_ttl c - 1 <? lu) eqn:E1; destruct (lu <? now) eqn:E2;
    destruct (now <=? lu) eqn:E3; destruct (lu <=? now + max_ttl c - 1) eqn:E4; cbn [orb andb];
    try reflexivity; try lia.
  unfold textend, tset.
  assert (lu - now <? lu - now = false) as -> by lia.
  destruct (tlive_at now p) as [en|] eqn:Ep.
  - apply tlive_at_some in Ep. destruct Ep as [_ Hl].
    unfold tlive_at. cbn [tlive tval].
    assert (tlive en <? now = false) as -> by lia.
    assert (max_ttl c - 1 <? lu - now = false) as -> by lia.
    cbn [tlive tval].
    destruct ((tlive en - now <=? lu - now) && (tlive en <? now + (lu - now))) eqn:E5.
    + apply andb_prop in E5. destruct E5 as [A B]. do 3 f_equal. lia.
    + do 3 f_equal.
      apply andb_false_iff in E5. destruct E5 as [A|B]; lia.
  - unfold tlive_at. cbn [tlive tval].
    assert (now + min_temp_ttl c - 1 <? now = false) as -> by lia.
    assert (max_ttl c - 1 <? lu - now = false) as -> by lia.
    cbn [tlive tval].
    destruct ((now + min_temp_ttl c - 1 - now <=? lu - now) && (now + min_temp_ttl c - 1 <? now + (lu - now))) eqn:E5.
    + apply andb_prop in E5. destruct E5 as [A B]. do 3 f_equal. lia.
    + do 3 f_equal. apply andb_false_iff in E5. destruct E5 as [A|B]; lia.
Qed.

Lemma transfer_role_cancel : forall c now p new,
  transfer_role c now p new 0 =
    match tget now p with
    | Some pa => if N.eqb pa new then Ok None else Fail
    | None => Fail
    end.
Proof. intros. unfold transfer_role. cbn. reflexivity. Qed.

(* ------------------------------------------------------------------ *)
(* runs and histories *)

Definition ev_of (k : kind) (c : hostcfg) (s : state) (cl : call) : event :=
  {| ev_now := now s; ev_holder := holder (rts s); ev_call := cl; ev_out := snd (step k c s cl);
     ev_after := holder (rts (fst (step k c s cl))) |}.

Lemma history_cons : forall k c s cl r,
  history k c s (cl :: r) = ev_of k c s cl :: history k c (fst (step k c s cl)) r.
Proof. intros. cbn [history]. unfold ev_of. destruct (step k c s cl) as [s' o]. reflexivity. Qed.

Lemma run_app : forall k c cs1 cs2 s, run k c s (cs1 ++ cs2) = run k c (run k c s cs1) cs2.
Proof. intros. unfold run. apply fold_left_app. Qed.

Lemma run_cons : forall k c s cl r, run k c s (cl :: r) = run k c (fst (step k c s cl)) r.
Proof. reflexivity. Qed.

Lemma history_app : forall k c cs1 cs2 s,
  history k c s (cs1 ++ cs2) = history k c s cs1 ++ history k c (run k c s cs1) cs2.
Proof.
  intros k c cs1. induction cs1 as [|cl r IH]; intros cs2 s; [reflexivity|].
  rewrite <- app_comm_cons. rewrite !history_cons. rewrite IH. reflexivity.
Qed.

Lemma history_snoc : forall k c cs cl s,
  history k c s (cs ++ [cl]) = history k c s cs ++ [ev_of k c (run k c s cs) cl].
Proof. intros. rewrite history_app. rewrite history_cons. reflexivity. Qed.

Lemma history_length : forall k c cs s, length (history k c s cs) = length cs.
Proof. intros k c cs. induction cs as [|cl r IH]; intros s; [reflexivity|]. rewrite history_cons. cbn. rewrite IH. reflexivity. Qed.

(* an event in the middle of a history is the event of the call at that position,
   executed in the state reached by the calls before it *)
Lemma history_split : forall k c cs s h1 e h2,
  history k c s cs = h1 ++ e :: h2 ->
  exists cs1 cl cs2, cs = cs1 ++ cl :: cs2 /\ h1 = history k c s cs1 /\
    e = ev_of k c (run k c s cs1) cl /\
    h2 = history k c (fst (step k c (run k c s cs1) cl)) cs2.
Proof.
  intros k c cs. induction cs as [|cl r IH]; intros s h1 e h2 H.
  - destruct h1; discriminate.
  - rewrite history_cons in H. destruct h1 as [|e1 h1'].
    + cbn in H. inversion H; subst. exists [], cl, r. repeat split; reflexivity.
    + cbn in H. inversion H as [[He Hr]]. apply IH in Hr.
      destruct Hr as [cs1 [cl' [cs2 [A [B [C D]]]]]].
      exists (cl :: cs1), cl', cs2. subst. repeat split; try reflexivity.
      rewrite history_cons. reflexivity.
Qed.

(* ------------------------------------------------------------------ *)
(* vocabulary for statements about histories *)

Definition offer_ok (e : event) : bool :=
  is_ok (ev_out e) && match ev_call e with Offer _ lu _ => negb (lu =? 0) | _ => false end.
Definition cancel_ok (e : event) : bool :=
  is_ok (ev_out e) && match ev_call e with Offer _ lu _ => lu =? 0 | _ => false end.
Definition accept_ok (e : event) : bool :=
  is_ok (ev_out e) && match ev_call e with Accept _ => true | _ => false end.
Definition renounce_ok (e : event) : bool :=
  is_ok (ev_out e) && match ev_call e with Renounce _ => true | _ => false end.
(* no successful offer, cancel or accept *)
Definition no_oca (h : list event) : Prop :=
  forallb (fun e => negb (offer_ok e || cancel_ok e || accept_ok e)) h = true.
(* no successful cancel or accept *)
Definition no_ca (h : list event) : Prop :=
  forallb (fun e => negb (cancel_ok e || accept_ok e)) h = true.

(* the ledger until which a stored entry created by this offer lives at least *)
Definition eff (c : hostcfg) (e : event) : Z :=
  match ev_call e with
  | Offer _ lu _ => Z.max lu (ev_now e + min_temp_ttl c - 1)
  | _ => 0
  end.

(* the latest successful offer that was not followed by a successful cancel / accept / offer *)
Definition latest_upd (acc : option event) (e : event) : option event :=
  if offer_ok e then Some e else if cancel_ok e || accept_ok e then None else acc.
Definition latest (h : list event) : option event := fold_left latest_upd h None.

(* the largest [eff] among the successful offers since the last successful cancel / accept *)
Definition chain_upd (c : hostcfg) (acc : option Z) (e : event) : option Z :=
  if offer_ok e then Some (match acc with Some m => Z.max m (eff c e) | None => eff c e end)
  else if cancel_ok e || accept_ok e then None else acc.
Definition chain_max (c : hostcfg) (h : list event) : option Z := fold_left (chain_upd c) h None.

Lemma latest_snoc : forall h e, latest (h ++ [e]) = latest_upd (latest h) e.
Proof. intros. unfold latest. rewrite fold_left_app. reflexivity. Qed.
Lemma chain_snoc : forall c h e, chain_max c (h ++ [e]) = chain_upd c (chain_max c h) e.
Proof. intros. unfold chain_max. rewrite fold_left_app. reflexivity. Qed.

Lemma no_oca_app : forall a b, no_oca (a ++ b) <-> no_oca a /\ no_oca b.
Proof. intros. unfold no_oca. rewrite forallb_app. apply andb_true_iff. Qed.
Lemma no_ca_app : forall a b, no_ca (a ++ b) <-> no_ca a /\ no_ca b.
Proof. intros. unfold no_ca. rewrite forallb_app. apply andb_true_iff. Qed.
Lemma no_oca_no_ca : forall h, no_oca h -> no_ca h.
Proof.
  intros h. unfold no_oca, no_ca. induction h as [|e r IH]; [reflexivity|]. cbn [forallb].
  rewrite !andb_true_iff. intros [A B]. split; [|apply IH; exact B].
  rewrite negb_true_iff in *. rewrite !orb_false_iff in A. rewrite orb_false_iff. tauto.
Qed.

(* latest, as a decomposition of the history *)
Lemma latest_some : forall h off,
  latest h = Some off ->
  exists g1 g2, h = g1 ++ off :: g2 /\ offer_ok off = true /\ no_oca g2.
Proof.
  intros h. induction h as [|e r IH] using rev_ind; intros off H; [discriminate|].
  rewrite latest_snoc in H. unfold latest_upd in H.
  destruct (offer_ok e) eqn:Eo.
  - inversion H; subst. exists r, []. repeat split; auto.
  - destruct (cancel_ok e || accept_ok e) eqn:Ec; [discriminate|].
    apply IH in H. destruct H as [g1 [g2 [A [B C]]]].
    exists g1, (g2 ++ [e]). subst. rewrite <- app_assoc. repeat split; auto.
    apply no_oca_app. split; [exact C|]. unfold no_oca. cbn. rewrite Eo.
    apply orb_false_iff in Ec. destruct Ec as [-> ->]. reflexivity.
Qed.

Lemma latest_of_decomp : forall g1 off g2,
  offer_ok off = true -> no_oca g2 -> latest (g1 ++ off :: g2) = Some off.
Proof.
  intros g1 off g2 Ho. induction g2 as [|e r IH] using rev_ind; intros Hn.
  - rewrite latest_snoc. unfold latest_upd. rewrite Ho. reflexivity.
  - apply no_oca_app in Hn. destruct Hn as [Hr He].
    replace (g1 ++ off :: r ++ [e]) with ((g1 ++ off :: r) ++ [e]) by (rewrite <- app_assoc; reflexivity).
    rewrite latest_snoc. rewrite (IH Hr). unfold latest_upd.
    unfold no_oca in He. cbn in He. rewrite andb_true_r in He. rewrite negb_true_iff in He.
    rewrite !orb_false_iff in He. destruct He as [[-> ->] ->]. reflexivity.
Qed.

(* chain_max is attained by a successful offer with no cancel / accept after it *)
Lemma chain_some : forall c h m,
  chain_max c h = Some m ->
  exists q1 off q2, h = q1 ++ off :: q2 /\ offer_ok off = true /\ no_ca q2 /\ m = eff c off.
Proof.
  intros c h. induction h as [|e r IH] using rev_ind; intros m H; [discriminate|].
  rewrite chain_snoc in H. unfold chain_upd in H.
  destruct (offer_ok e) eqn:Eo.
  - destruct (chain_max c r) as [m0|] eqn:Em.
    + inversion H; subst. destruct (Z.max_spec m0 (eff c e)) as [[A B]|[A B]].
      * exists r, e, []. rewrite B. repeat split; auto.
      * destruct (IH m0 eq_refl) as [q1 [off [q2 [P [Q [R S]]]]]].
        exists q1, off, (q2 ++ [e]). subst r. rewrite <- app_assoc. rewrite B. repeat split; auto.
        apply no_ca_app. split; [exact R|]. unfold no_ca. cbn.
        assert (cancel_ok e = false) as ->.
        { unfold offer_ok, cancel_ok in *. destruct (is_ok (ev_out e)); [|reflexivity]. cbn in *.
          destruct (ev_call e); try reflexivity. destruct (live_until =? 0); [discriminate|reflexivity]. }
        assert (accept_ok e = false) as ->.
        { unfold offer_ok, accept_ok in *. destruct (is_ok (ev_out e)); [|reflexivity]. cbn in *.
          destruct (ev_call e); try reflexivity; discriminate. }
        reflexivity.
    + inversion H; subst. exists r, e, []. repeat split; auto.
  - destruct (cancel_ok e || accept_ok e) eqn:Ec; [discriminate|].
    destruct (IH m H) as [q1 [off [q2 [P [Q [R S]]]]]].
    exists q1, off, (q2 ++ [e]). subst r. rewrite <- app_assoc. repeat split; auto.
    apply no_ca_app. split; [exact R|]. unfold no_ca. cbn. rewrite Ec. reflexivity.
Qed.

(* ------------------------------------------------------------------ *)
(* the stored pending entry, explained by the history *)

Definition Inv (c : hostcfg) (s : state) (h : list event) : Prop :=
  match pending (rts s) with
  | Some en =>
      exists off lu au, latest h = Some off /\ ev_call off = Offer (tval en) lu au /\ lu <= tlive en /\
        exists m, chain_max c h = Some m /\ tlive en <= m
  | None => latest h = None /\ chain_max c h = None
  end.

Lemma neutral_upd : forall c e (a : option event) (b : option Z),
  offer_ok e = false -> cancel_ok e = false -> accept_ok e = false ->
  latest_upd a e = a /\ chain_upd c b e = b.
Proof. intros c e a b H1 H2 H3. unfold latest_upd, chain_upd. rewrite H1, H2, H3. split; reflexivity. Qed.

Lemma failed_event_neutral : forall e, is_ok (ev_out e) = false ->
  offer_ok e = false /\ cancel_ok e = false /\ accept_ok e = false.
Proof. intros e H. unfold offer_ok, cancel_ok, accept_ok. rewrite H. auto. Qed.

Lemma inv_neutral : forall c s s' h e,
  Inv c s h -> pending (rts s') = pending (rts s) ->
  offer_ok e = false -> cancel_ok e = false -> accept_ok e = false ->
  Inv c s' (h ++ [e]).
Proof.
  intros c s s' h e HI Hp H1 H2 H3. unfold Inv in *. rewrite Hp.
  rewrite latest_snoc, chain_snoc.
  destruct (neutral_upd c e (latest h) (chain_max c h) H1 H2 H3) as [-> ->]. exact HI.
Qed.

Lemma inv_step : forall k c s h cl,
  1 <= min_temp_ttl c -> Inv c s h ->
  Inv c (fst (step k c s cl)) (h ++ [ev_of k c s cl]).
Proof.
  intros k c s h cl Hmin HI.
  destruct cl as [new lu au|au|au|au|n].
  - (* Offer *)
    unfold ev_of. cbn [step]. unfold offer.
    destruct (enforce_holder_auth au (rts s)) as [hh|] eqn:Eh; cbn [bind].
    2:{ cbn [fst snd]. apply inv_neutral with (s := s); auto; apply failed_event_neutral; reflexivity. }
    destruct (Z.eq_dec lu 0) as [Hz|Hz].
    + subst lu. rewrite transfer_role_cancel.
      destruct (tget (now s) (pending (rts s))) as [pa|] eqn:Eg.
      2:{ cbn [fst snd]. apply inv_neutral with (s := s); auto; apply failed_event_neutral; reflexivity. }
      destruct (N.eqb pa new) eqn:En; cbn [bind fst snd].
      2:{ apply inv_neutral with (s := s); auto; apply failed_event_neutral; reflexivity. }
      unfold Inv. cbn [with_rt rts pending]. rewrite latest_snoc, chain_snoc.
      unfold latest_upd, chain_upd, offer_ok, cancel_ok, accept_ok. cbn. split; reflexivity.
    + rewrite (transfer_role_offer c (now s) (pending (rts s)) new lu Hmin Hz).
      destruct ((now s <=? lu) && (lu <=? now s + max_ttl c - 1)) eqn:Ev; cbn [bind fst snd].
      2:{ apply inv_neutral with (s := s); auto; apply failed_event_neutral; reflexivity. }
      unfold Inv. cbn [with_rt rts pending holder tval tlive]. rewrite latest_snoc, chain_snoc.
      set (e := {| ev_now := now s; ev_holder := holder (rts s); ev_call := Offer new lu au; ev_out := Ok 0;
                   ev_after := holder (rts s) |}).
      assert (Ho : offer_ok e = true).
      { unfold offer_ok, e. cbn. destruct (lu =? 0) eqn:E0; [apply Z.eqb_eq in E0; contradiction|reflexivity]. }
      unfold latest_upd, chain_upd. rewrite Ho.
      exists e, lu, au. split; [reflexivity|]. split; [reflexivity|].
      assert (Heff : eff c e = Z.max lu (now s + min_temp_ttl c - 1)) by reflexivity.
      destruct (tlive_at (now s) (pending (rts s))) as [en|] eqn:Et.
      * apply tlive_at_some in Et. destruct Et as [Ep Hl]. unfold Inv in HI. rewrite Ep in HI.
        destruct HI as [off [lu0 [au0 [A [B [C [m [D E]]]]]]]].
        split; [lia|]. rewrite D. exists (Z.max m (eff c e)). split; [reflexivity|]. rewrite Heff. lia.
      * split; [lia|]. destruct (chain_max c h) as [m|].
        -- exists (Z.max m (eff c e)). split; [reflexivity|]. rewrite Heff. lia.
        -- exists (eff c e). split; [reflexivity|]. rewrite Heff. lia.
  - (* Accept *)
    unfold ev_of. cbn [step].
    destruct (accept k (now s) au (rts s)) as [r|] eqn:Ea; cbn [fst snd].
    2:{ apply inv_neutral with (s := s); auto; apply failed_event_neutral; reflexivity. }
    assert (pending r = None).
    { unfold accept, accept_transfer in Ea.
      destruct k; [|destruct (holder (rts s)) as [hh|]; [|discriminate]];
      (destruct (tget (now s) (pending (rts s))) as [pa|]; [|discriminate];
       destruct (has_auth au pa); [|discriminate]; inversion Ea; reflexivity). }
    unfold Inv. cbn [with_rt rts]. rewrite H. rewrite latest_snoc, chain_snoc.
    unfold latest_upd, chain_upd, offer_ok, cancel_ok, accept_ok. cbn. split; reflexivity.
  - (* Renounce *)
    unfold ev_of. cbn [step].
    destruct (renounce (now s) au (rts s)) as [r|] eqn:Ea; cbn [fst snd].
    2:{ apply inv_neutral with (s := s); auto; apply failed_event_neutral; reflexivity. }
    apply inv_neutral with (s := s); auto.
    unfold renounce in Ea. destruct (enforce_holder_auth au (rts s)); [|discriminate]. cbn [bind] in Ea.
    destruct (tget (now s) (pending (rts s))); [discriminate|]. inversion Ea. reflexivity.
  - (* Guarded *)
    unfold ev_of. cbn [step].
    destruct (enforce_holder_auth au (rts s)) as [hh|] eqn:Eh.
    + destruct k; cbn [fst snd]; apply inv_neutral with (s := s); auto.
    + cbn [fst snd]. apply inv_neutral with (s := s); auto.
  - (* Advance *)
    unfold ev_of. cbn [step fst snd]. apply inv_neutral with (s := s); auto.
Qed.

Lemma inv_init : forall c start h0, Inv c (init start h0) [].
Proof. intros. unfold Inv. cbn. split; reflexivity. Qed.

Lemma inv_run : forall k c start h0 cs,
  1 <= min_temp_ttl c ->
  Inv c (run k c (init start h0) cs) (history k c (init start h0) cs).
Proof.
  intros k c start h0 cs Hmin. induction cs as [|cl r IH] using rev_ind.
  - apply inv_init.
  - rewrite run_app, history_snoc. cbn [run fold_left]. apply inv_step; assumption.
Qed.

(* ------------------------------------------------------------------ *)
(* list helper: two ways of singling out an element of the same list *)
Lemma app_cons_split : forall (A : Type) (g1 : list A) a g2 q1 b q2,
  g1 ++ a :: g2 = q1 ++ b :: q2 ->
  (g1 = q1 /\ a = b /\ g2 = q2) \/
  (exists m, g1 = q1 ++ b :: m /\ q2 = m ++ a :: g2) \/
  (exists m, q1 = g1 ++ a :: m /\ g2 = m ++ b :: q2).
Proof.
  intros A g1. induction g1 as [|x r IH]; intros a g2 q1 b q2 H.
  - destruct q1 as [|y q1'].
    + cbn in H. inversion H; subst. left. auto.
    + cbn in H. inversion H; subst. right. right. exists q1'. auto.
  - destruct q1 as [|y q1'].
    + cbn in H. inversion H; subst. right. left. exists r. auto.
    + cbn in H. inversion H as [[Hx Hr]]. apply IH in Hr.
      destruct Hr as [[A1 [A2 A3]]|[[m [A1 A2]]|[m [A1 A2]]]].
      * left. subst. auto.
      * right. left. exists m. subst. auto.
      * right. right. exists m. subst. auto.
Qed.

Lemma kinds_exclusive : forall e,
  (offer_ok e = true -> cancel_ok e = false /\ accept_ok e = false) /\
  (cancel_ok e = true -> offer_ok e = false /\ accept_ok e = false) /\
  (accept_ok e = true -> offer_ok e = false /\ cancel_ok e = false).
Proof.
  intros e. unfold offer_ok, cancel_ok, accept_ok. destruct (is_ok (ev_out e)); cbn; [|repeat split; discriminate].
  destruct (ev_call e); try (repeat split; discriminate).
  destruct (live_until =? 0); cbn; repeat split; discriminate || reflexivity.
Qed.

Lemma no_oca_In : forall h e, no_oca h -> In e h -> offer_ok e = false /\ cancel_ok e = false /\ accept_ok e = false.
Proof.
  intros h e Hn Hi. unfold no_oca in Hn. rewrite forallb_forall in Hn. specialize (Hn e Hi).
  rewrite negb_true_iff in Hn. rewrite !orb_false_iff in Hn. tauto.
Qed.

(* ------------------------------------------------------------------ *)
(* facts about a single executed call (any state) *)

Definition signed_by (h : option addr) (au : list addr) : bool :=
  match h with Some a => has_auth au a | None => false end.
Definition holder_signed (e : event) (au : list addr) : bool := signed_by (ev_holder e) au.

Lemma enforce_signed : forall au r, is_ok (enforce_holder_auth au r) = signed_by (holder r) au.
Proof.
  intros. unfold enforce_holder_auth, signed_by.
  destruct (holder r) as [hh|]; [|reflexivity]. destruct (has_auth au hh); reflexivity.
Qed.

Lemma ev_of_facts : forall k c s cl, 1 <= min_temp_ttl c ->
  let e := ev_of k c s cl in
  match cl with
  | Offer new lu au =>
      (lu <> 0 -> is_ok (ev_out e) =
                  holder_signed e au && ((ev_now e <=? lu) && (lu <=? ev_now e + max_ttl c - 1))) /\
      (is_ok (ev_out e) = true -> holder_signed e au = true) /\
      ev_after e = ev_holder e
  | Accept au =>
      if is_ok (ev_out e) then exists a, ev_after e = Some a /\ has_auth au a = true
      else ev_after e = ev_holder e
  | Renounce au =>
      if is_ok (ev_out e) then holder_signed e au = true /\ ev_after e = None
      else ev_after e = ev_holder e
  | Guarded au => is_ok (ev_out e) = holder_signed e au /\ ev_after e = ev_holder e
  | Advance _ => is_ok (ev_out e) = true /\ ev_after e = ev_holder e
  end.
Proof.
  intros k c s cl Hmin e. subst e. unfold holder_signed.
  destruct cl as [new lu au|au|au|au|n].
  - pose proof (enforce_signed au (rts s)) as Hs.
    unfold ev_of. cbn [ev_out ev_now ev_after ev_holder step]. unfold offer.
    destruct (enforce_holder_auth au (rts s)) as [hh|]; cbn [bind is_ok] in *; rewrite <- Hs.
    2:{ cbn. repeat split; auto; discriminate. }
    repeat split.
    + intros Hz. rewrite (transfer_role_offer c (now s) (pending (rts s)) new lu Hmin Hz).
      destruct ((now s <=? lu) && (lu <=? now s + max_ttl c - 1)); reflexivity.
    + destruct (transfer_role c (now s) (pending (rts s)) new lu); reflexivity.
  - unfold ev_of. cbn [ev_out ev_now ev_after ev_holder step].
    destruct (accept k (now s) au (rts s)) as [r|] eqn:Ea; cbn [fst snd is_ok]; [|reflexivity].
    unfold accept, accept_transfer in Ea.
    destruct k; [|destruct (holder (rts s)) as [hh|]; [|discriminate]];
    (destruct (tget (now s) (pending (rts s))) as [pa|]; [|discriminate];
     destruct (has_auth au pa) eqn:Eau; [|discriminate]; inversion Ea; exists pa; split; [reflexivity|exact Eau]).
  - pose proof (enforce_signed au (rts s)) as Hs.
    unfold ev_of. cbn [ev_out ev_now ev_after ev_holder step]. unfold renounce.
    destruct (enforce_holder_auth au (rts s)) as [hh|]; cbn [bind is_ok] in *; [|reflexivity].
    destruct (tget (now s) (pending (rts s))); cbn [fst snd is_ok]; [reflexivity|]. split; [symmetry; exact Hs|reflexivity].
  - pose proof (enforce_signed au (rts s)) as Hs.
    unfold ev_of. cbn [ev_out ev_now ev_after ev_holder step].
    destruct (enforce_holder_auth au (rts s)) as [hh|]; cbn [is_ok] in Hs.
    + destruct k; cbn [fst snd is_ok]; split; auto.
    + cbn [fst snd is_ok]. split; auto.
  - unfold ev_of. cbn. split; reflexivity.
Qed.

(* every event of a history is the event of one executed call *)
Lemma history_In : forall k c s cs e, In e (history k c s cs) -> exists s1 cl, e = ev_of k c s1 cl.
Proof.
  intros k c s cs e Hi. apply in_split in Hi. destruct Hi as [h1 [h2 H]].
  apply history_split in H. destruct H as [cs1 [cl [cs2 [_ [_ [He _]]]]]]. eauto.
Qed.

Lemma offer_ok_signed : forall k c s cs off new lu au, 1 <= min_temp_ttl c ->
  In off (history k c s cs) -> offer_ok off = true -> ev_call off = Offer new lu au ->
  holder_signed off au = true.
Proof.
  intros k c s cs off new lu au Hmin Hi Ho Hc.
  destruct (history_In _ _ _ _ _ Hi) as [s1 [cl He]].
  pose proof (ev_of_facts k c s1 cl Hmin) as F. cbn zeta in F. rewrite <- He in F.
  assert (cl = Offer new lu au) by (rewrite He in Hc; exact Hc). subst cl.
  destruct F as [_ [F _]]. apply F. unfold offer_ok in Ho. apply andb_prop in Ho. tauto.
Qed.

(* ------------------------------------------------------------------ *)
(* the main theorem: a successful accept, explained by the history before it *)

Lemma accept_ok_state : forall k c s au,
  accept_ok (ev_of k c s (Accept au)) = true ->
  exists en, pending (rts s) = Some en /\ now s <= tlive en /\ has_auth au (tval en) = true /\
             holder (rts (fst (step k c s (Accept au)))) = Some (tval en).
Proof.
  intros k c s au H. unfold accept_ok, ev_of in H. cbn [ev_out ev_call step] in H. rewrite andb_true_r in H.
  cbn [step].
  destruct (accept k (now s) au (rts s)) as [r|] eqn:Ea; [|discriminate]. cbn [fst].
  unfold accept, accept_transfer in Ea.
  destruct k; [|destruct (holder (rts s)) as [hh|]; [|discriminate]];
  (destruct (tget (now s) (pending (rts s))) as [pa|] eqn:Eg; [|discriminate];
   destruct (has_auth au pa) eqn:Eau; [|discriminate]; inversion Ea;
   apply tget_some in Eg; destruct Eg as [en [A [B C]]]; exists en; subst pa; cbn; auto).
Qed.

Theorem except_known : forall k c start h0 cs h1 e h2 auths,
  1 <= min_temp_ttl c ->
  history k c (init start h0) cs = h1 ++ e :: h2 ->
  ev_call e = Accept auths -> is_ok (ev_out e) = true ->
  exists g1 off g2 new lu au,
    h1 = g1 ++ off :: g2 /\ ev_call off = Offer new lu au /\ offer_ok off = true /\
    no_oca g2 /\
    holder_signed off au = true /\
    has_auth auths new = true /\ ev_after e = Some new /\
    (ev_now e <= eff c off \/
     exists q1 off' q2, g1 = q1 ++ off' :: q2 /\ offer_ok off' = true /\ no_ca q2 /\ ev_now e <= eff c off').
Proof.
  intros k c start h0 cs h1 e h2 auths Hmin Hh Hc Hok.
  pose proof Hh as Hh0.
  apply history_split in Hh. destruct Hh as [cs1 [cl [cs2 [Hcs [H1 [He H2]]]]]].
  assert (cl = Accept auths) by (rewrite He in Hc; exact Hc). subst cl.
  set (s := run k c (init start h0) cs1) in *.
  assert (Ha : accept_ok (ev_of k c s (Accept auths)) = true).
  { unfold accept_ok. rewrite <- He. rewrite Hok, Hc. reflexivity. }
  destruct (accept_ok_state _ _ _ _ Ha) as [en [Ep [Hl [Hau Haf]]]].
  pose proof (inv_run k c start h0 cs1 Hmin) as HI. fold s in HI. rewrite <- H1 in HI.
  unfold Inv in HI. rewrite Ep in HI.
  destruct HI as [off [lu [au [A [B [C [m [D E]]]]]]]].
  destruct (latest_some _ _ A) as [g1 [g2 [G1 [G2 G3]]]].
  destruct (chain_some _ _ _ D) as [q1 [off' [q2 [Q1 [Q2 [Q3 Q4]]]]]].
  exists g1, off, g2, (tval en), lu, au.
  assert (Hin : In off (history k c (init start h0) cs)).
  { rewrite Hh0, G1. apply in_or_app. left. apply in_or_app. right. left. reflexivity. }
  repeat split; auto.
  - eapply offer_ok_signed; eauto.
  - rewrite He. unfold ev_of. cbn [ev_after]. exact Haf.
  - assert (Hn : ev_now e = now s) by (rewrite He; reflexivity).
    rewrite G1 in Q1. destruct (app_cons_split _ _ _ _ _ _ _ Q1) as [[X1 [X2 X3]]|[[mm [X1 X2]]|[mm [X1 X2]]]].
    + left. subst off'. lia.
    + right. exists q1, off', mm. subst q2. apply no_ca_app in Q3. destruct Q3 as [Q3 _].
      repeat split; auto. lia.
    + exfalso. assert (In off' g2) by (rewrite X2; apply in_or_app; right; left; reflexivity).
      destruct (no_oca_In _ _ G3 H) as [Y _]. congruence.
Qed.

(* between a successful accept or cancel and a later successful accept there is a new successful offer *)
Theorem accept_needs_new_offer : forall k c start h0 cs a x b e h2 auths,
  1 <= min_temp_ttl c ->
  history k c (init start h0) cs = a ++ x :: b ++ e :: h2 ->
  accept_ok x = true \/ cancel_ok x = true ->
  ev_call e = Accept auths -> is_ok (ev_out e) = true ->
  exists b1 off b2, b = b1 ++ off :: b2 /\ offer_ok off = true.
Proof.
  intros k c start h0 cs a x b e h2 auths Hmin Hh Hx Hc Hok.
  replace (a ++ x :: b ++ e :: h2) with ((a ++ x :: b) ++ e :: h2) in Hh
    by (rewrite <- app_assoc; reflexivity).
  destruct (except_known _ _ _ _ _ _ _ _ _ Hmin Hh Hc Hok) as [g1 [off [g2 [new [lu [au [G1 [G2 [G3 [G4 _]]]]]]]]]].
  symmetry in G1.
  destruct (app_cons_split _ _ _ _ _ _ _ G1) as [[X1 [X2 X3]]|[[mm [X1 X2]]|[mm [X1 X2]]]].
  - exfalso. subst x. destruct (kinds_exclusive off) as [K _]. destruct (K G3) as [K1 K2].
    destruct Hx; congruence.
  - exists mm, off, g2. split; auto.
  - exfalso. assert (In x g2) by (rewrite X2; apply in_or_app; right; left; reflexivity).
    destruct (no_oca_In _ _ G4 H) as [_ [Y1 Y2]]. destruct Hx; congruence.
Qed.

(* renouncing is refused while the latest offer is live *)
Theorem renounce_refused_while_pending : forall k c start h0 cs h1 e h2 au g1 off g2 new lu au',
  1 <= min_temp_ttl c ->
  history k c (init start h0) cs = h1 ++ e :: h2 ->
  ev_call e = Renounce au -> is_ok (ev_out e) = true ->
  h1 = g1 ++ off :: g2 -> offer_ok off = true -> no_oca g2 -> ev_call off = Offer new lu au' ->
  lu < ev_now e.
Proof.
  intros k c start h0 cs h1 e h2 au g1 off g2 new lu au' Hmin Hh Hc Hok G1 G2 G3 G4.
  apply history_split in Hh. destruct Hh as [cs1 [cl [cs2 [Hcs [H1 [He H2]]]]]].
  assert (cl = Renounce au) by (rewrite He in Hc; exact Hc). subst cl.
  set (s := run k c (init start h0) cs1) in *.
  pose proof (inv_run k c start h0 cs1 Hmin) as HI. fold s in HI. rewrite <- H1 in HI.
  assert (L : latest h1 = Some off) by (rewrite G1; apply latest_of_decomp; auto).
  assert (Hn : ev_now e = now s) by (rewrite He; reflexivity).
  rewrite He in Hok. unfold ev_of in Hok. cbn [ev_out step] in Hok. unfold renounce in Hok.
  destruct (enforce_holder_auth au (rts s)); cbn [bind] in Hok; [|discriminate].
  destruct (tget (now s) (pending (rts s))) eqn:Eg; [discriminate|].
  apply tget_none in Eg. rewrite tlive_at_none in Eg.
  unfold Inv in HI. destruct (pending (rts s)) as [en|] eqn:Ep.
  - destruct HI as [off0 [lu0 [au0 [A [B [C _]]]]]]. rewrite L in A. inversion A; subst off0.
    rewrite G4 in B. inversion B; subst. specialize (Eg en eq_refl). lia.
  - destruct HI as [A _]. congruence.
Qed.

(* ------------------------------------------------------------------ *)
(* consecutive events; the holder keeps control *)

Lemma step_now_mono : forall k c s cl, now s <= now (fst (step k c s cl)).
Proof.
  intros k c s cl. destruct cl as [new lu au|au|au|au|n]; cbn [step].
  - destruct (offer c (now s) au new lu (rts s)); cbn; lia.
  - destruct (accept k (now s) au (rts s)); cbn; lia.
  - destruct (renounce (now s) au (rts s)); cbn; lia.
  - destruct (enforce_holder_auth au (rts s)); [destruct k|]; cbn; lia.
  - cbn. lia.
Qed.

Lemma run_now_mono : forall k c cs s, now s <= now (run k c s cs).
Proof.
  intros k c cs. induction cs as [|cl r IH]; intros s; [cbn; lia|].
  rewrite run_cons. pose proof (step_now_mono k c s cl). specialize (IH (fst (step k c s cl))). lia.
Qed.

Lemma history_chain : forall k c s cs h1 e1 e2 h2,
  history k c s cs = h1 ++ e1 :: e2 :: h2 ->
  ev_holder e2 = ev_after e1 /\ ev_now e1 <= ev_now e2.
Proof.
  intros k c s cs h1 e1 e2 h2 H. apply history_split in H.
  destruct H as [cs1 [cl [cs2 [Hcs [H1 [He H2]]]]]].
  destruct cs2 as [|cl2 r]; [discriminate|]. rewrite history_cons in H2. inversion H2 as [[A B]].
  rewrite He. unfold ev_of. cbn [ev_holder ev_after ev_now]. split; [reflexivity|]. apply step_now_mono.
Qed.

Lemma history_first : forall k c s cs e h2,
  history k c s cs = e :: h2 -> ev_holder e = holder (rts s) /\ ev_now e = now s.
Proof.
  intros k c s cs e h2 H. destruct cs as [|cl r]; [discriminate|]. rewrite history_cons in H.
  inversion H. split; reflexivity.
Qed.

Theorem holder_keeps_control : forall k c s cs e, 1 <= min_temp_ttl c ->
  In e (history k c s cs) ->
  (accept_ok e = false -> renounce_ok e = false -> ev_after e = ev_holder e) /\
  (forall au, ev_call e = Guarded au -> is_ok (ev_out e) = signed_by (ev_holder e) au) /\
  (forall new lu au, ev_call e = Offer new lu au -> lu <> 0 ->
     is_ok (ev_out e) = signed_by (ev_holder e) au && ((ev_now e <=? lu) && (lu <=? ev_now e + max_ttl c - 1))) /\
  (forall new lu au, ev_call e = Offer new lu au -> is_ok (ev_out e) = true -> signed_by (ev_holder e) au = true) /\
  (forall au, ev_call e = Renounce au -> is_ok (ev_out e) = true -> signed_by (ev_holder e) au = true /\ ev_after e = None) /\
  (forall au, ev_call e = Accept au -> is_ok (ev_out e) = true -> exists a, ev_after e = Some a /\ has_auth au a = true).
Proof.
  intros k c s cs e Hmin Hi. destruct (history_In _ _ _ _ _ Hi) as [s1 [cl He]].
  pose proof (ev_of_facts k c s1 cl Hmin) as F. cbn zeta in F. rewrite <- He in F.
  assert (Hc : ev_call e = cl) by (rewrite He; reflexivity).
  unfold holder_signed in F. unfold accept_ok, renounce_ok. rewrite Hc.
  destruct cl as [new lu au|au|au|au|n]; destruct (is_ok (ev_out e)) eqn:Eo; cbn [andb] in *;
  repeat split; intros;
  repeat match goal with
         | H : Offer _ _ _ = Offer _ _ _ |- _ => inversion H; subst; clear H
         | H : Accept _ = Accept _ |- _ => inversion H; subst; clear H
         | H : Renounce _ = Renounce _ |- _ => inversion H; subst; clear H
         | H : Guarded _ = Guarded _ |- _ => inversion H; subst; clear H
         end;
  try discriminate; try tauto;
  try (destruct F as [F1 [F2 F3]]; solve [auto | apply F1; assumption | symmetry; apply F2; reflexivity]).
Qed.

(* ------------------------------------------------------------------ *)
(* a fresh offer is acceptable exactly until its own (effective) live_until *)

Lemma neutral_step_pending : forall k c s cl,
  let e := ev_of k c s cl in
  offer_ok e = false -> cancel_ok e = false -> accept_ok e = false ->
  pending (rts (fst (step k c s cl))) = pending (rts s).
Proof.
  intros k c s cl e H1 H2 H3. subst e. unfold offer_ok, cancel_ok, accept_ok, ev_of in *.
  cbn [ev_out ev_call] in *.
  destruct cl as [new lu au|au|au|au|n]; cbn [step] in *.
  - destruct (offer c (now s) au new lu (rts s)); cbn [fst snd is_ok] in *; [|reflexivity].
    destruct (lu =? 0); cbn in *; discriminate.
  - destruct (accept k (now s) au (rts s)); cbn [fst snd is_ok] in *; [discriminate|reflexivity].
  - destruct (renounce (now s) au (rts s)) as [r|] eqn:E; cbn [fst]; [|reflexivity].
    unfold renounce in E. destruct (enforce_holder_auth au (rts s)); [|discriminate]. cbn [bind] in E.
    destruct (tget (now s) (pending (rts s))); [discriminate|]. inversion E. reflexivity.
  - destruct (enforce_holder_auth au (rts s)); [destruct k|]; reflexivity.
  - reflexivity.
Qed.

Lemma step_holder_lost : forall k c s cl,
  holder (rts s) <> None -> holder (rts (fst (step k c s cl))) = None ->
  tlive_at (now s) (pending (rts s)) = None.
Proof.
  intros k c s cl Hh Hn. destruct cl as [new lu au|au|au|au|n]; cbn [step] in Hn.
  - unfold offer in Hn. destruct (enforce_holder_auth au (rts s)); cbn [bind] in Hn; [|contradiction].
    destruct (transfer_role c (now s) (pending (rts s)) new lu); cbn in Hn; contradiction.
  - destruct (accept k (now s) au (rts s)) as [r|] eqn:E; cbn [fst] in Hn; [|contradiction].
    unfold accept, accept_transfer in E.
    destruct k; [|destruct (holder (rts s)) as [hh|]; [|discriminate]];
    (destruct (tget (now s) (pending (rts s))) as [pa|]; [|discriminate];
     destruct (has_auth au pa); [|discriminate]; inversion E; subst r; cbn in Hn; discriminate).
  - unfold renounce in Hn. destruct (enforce_holder_auth au (rts s)); cbn [bind] in Hn; [|contradiction].
    destruct (tget (now s) (pending (rts s))) eqn:Eg; cbn in Hn; [contradiction|].
    apply tget_none. exact Eg.
  - destruct (enforce_holder_auth au (rts s)); [destruct k|]; cbn in Hn; contradiction.
  - cbn in Hn. contradiction.
Qed.

Lemma quiet_run : forall k c cs s ent,
  pending (rts s) = Some ent -> no_oca (history k c s cs) ->
  pending (rts (run k c s cs)) = Some ent /\
  (holder (rts s) <> None -> now (run k c s cs) <= tlive ent -> holder (rts (run k c s cs)) <> None).
Proof.
  intros k c cs. induction cs as [|cl r IH]; intros s ent Hp Hq.
  - cbn. auto.
  - rewrite history_cons in Hq. change (ev_of k c s cl :: history k c (fst (step k c s cl)) r)
      with ([ev_of k c s cl] ++ history k c (fst (step k c s cl)) r) in Hq.
    apply no_oca_app in Hq. destruct Hq as [Q1 Q2].
    unfold no_oca in Q1. cbn in Q1. rewrite andb_true_r, negb_true_iff, !orb_false_iff in Q1.
    destruct Q1 as [[A B] C].
    pose proof (neutral_step_pending k c s cl A B C) as Hp'. rewrite Hp in Hp'.
    rewrite run_cons. destruct (IH _ _ Hp' Q2) as [I1 I2]. split; [exact I1|].
    intros Hh Hl. apply I2; [|exact Hl].
    intros Hn. pose proof (step_holder_lost k c s cl Hh Hn) as Hd.
    rewrite tlive_at_none in Hd. specialize (Hd ent Hp).
    pose proof (step_now_mono k c s cl). pose proof (run_now_mono k c r (fst (step k c s cl))). lia.
Qed.

Theorem fresh_offer_exact : forall k c start h0 cs g1 off g2 e h2 new lu au auths,
  1 <= min_temp_ttl c ->
  history k c (init start h0) cs = g1 ++ off :: g2 ++ e :: h2 ->
  ev_call off = Offer new lu au -> offer_ok off = true ->
  (forall q1 off' q2, g1 = q1 ++ off' :: q2 -> offer_ok off' = true -> no_ca q2 -> eff c off' < ev_now off) ->
  no_oca g2 ->
  ev_call e = Accept auths -> has_auth auths new = true ->
  (is_ok (ev_out e) = true <-> ev_now e <= eff c off).
Proof.
  intros k c start h0 cs g1 off g2 e h2 new lu au auths Hmin Hh Hco Hoo Hfresh Hq Hce Hau.
  apply history_split in Hh. destruct Hh as [cs1 [cl [cs' [Hcs [H1 [He H2]]]]]].
  assert (cl = Offer new lu au) by (rewrite He in Hco; exact Hco). subst cl.
  set (s1 := run k c (init start h0) cs1) in *.
  (* the entry stored before the offer, if any, is dead *)
  assert (Hdead : tlive_at (now s1) (pending (rts s1)) = None).
  { apply tlive_at_none. intros en Ep.
    pose proof (inv_run k c start h0 cs1 Hmin) as HI. fold s1 in HI. rewrite <- H1 in HI.
    unfold Inv in HI. rewrite Ep in HI. destruct HI as [_ [_ [_ [_ [_ [_ [m [D E]]]]]]]].
    destruct (chain_some _ _ _ D) as [q1 [off' [q2 [Q1 [Q2 [Q3 Q4]]]]]].
    specialize (Hfresh q1 off' q2 Q1 Q2 Q3). rewrite He in Hfresh. cbn [ev_of ev_now] in Hfresh. lia. }
  (* the state after the offer *)
  assert (Hz : lu <> 0).
  { unfold offer_ok in Hoo. rewrite Hco in Hoo. apply andb_prop in Hoo. destruct Hoo as [_ Hoo].
    intros ->. discriminate. }
  set (s1' := fst (step k c s1 (Offer new lu au))) in *.
  assert (Hst : pending (rts s1') = Some {| tval := new; tlive := eff c off |} /\ holder (rts s1') <> None).
  { unfold offer_ok in Hoo. apply andb_prop in Hoo. destruct Hoo as [Hoo _].
    rewrite He in Hoo. unfold ev_of in Hoo. cbn [ev_out] in Hoo.
    subst s1'. cbn [step] in *. unfold offer in *.
    unfold enforce_holder_auth in *. destruct (holder (rts s1)) as [hh|] eqn:Eh; [|discriminate].
    destruct (has_auth au hh); [|discriminate]. cbn [bind] in *.
    rewrite (transfer_role_offer c (now s1) (pending (rts s1)) new lu Hmin Hz) in *.
    destruct ((now s1 <=? lu) && (lu <=? now s1 + max_ttl c - 1)); [|discriminate].
    cbn [bind fst with_rt rts pending holder]. rewrite Hdead. split; [|discriminate].
    rewrite He. unfold eff, ev_of. cbn [ev_call ev_now]. reflexivity. }
  destruct Hst as [Hp Hh'].
  symmetry in H2. apply history_split in H2. destruct H2 as [cs2 [cl [cs3 [Hcs' [G2 [He' _]]]]]].
  assert (cl = Accept auths) by (rewrite He' in Hce; exact Hce). subst cl.
  rewrite G2 in Hq. destruct (quiet_run k c cs2 s1' _ Hp Hq) as [P1 P2].
  set (s2 := run k c s1' cs2) in *.
  rewrite He'. unfold ev_of. cbn [ev_out ev_now step].
  unfold accept, accept_transfer. unfold tget. cbn [tlive] in P2.
  split.
  - intros Hok.
    destruct k; [|destruct (holder (rts s2)); [|discriminate]];
    (destruct (tlive_at (now s2) (pending (rts s2))) as [en|] eqn:Et; [|discriminate];
     apply tlive_at_some in Et; destruct Et as [Et1 Et2]; rewrite P1 in Et1; inversion Et1; subst en; exact Et2).
  - intros Hl. specialize (P2 Hh' Hl).
    assert (Et : tlive_at (now s2) (pending (rts s2)) = Some {| tval := new; tlive := eff c off |}).
    { apply tlive_at_some. split; [exact P1|exact Hl]. }
    rewrite Et. cbn [tval]. rewrite Hau.
    destruct k; [reflexivity|]. destruct (holder (rts s2)); [reflexivity|contradiction].
Qed.

(* ------------------------------------------------------------------ *)
(* once the holder is gone, it is gone for good and nothing restricted succeeds *)

Definition J (s : state) : Prop :=
  holder (rts s) = None -> tlive_at (now s) (pending (rts s)) = None.

Lemma tlive_at_mono : forall V n n' (p : option (tentry V)), n <= n' -> tlive_at n p = None -> tlive_at n' p = None.
Proof. intros V n n' p Hn H. rewrite tlive_at_none in *. intros e He. specialize (H e He). lia. Qed.

Lemma dead_step : forall k c s cl,
  holder (rts s) = None -> J s ->
  (exists n, cl = Advance n) \/ step k c s cl = (s, Fail).
Proof.
  intros k c s cl Hn HJ. specialize (HJ Hn).
  destruct cl as [new lu au|au|au|au|n]; cbn [step].
  - right. unfold offer, enforce_holder_auth. rewrite Hn. reflexivity.
  - right. unfold accept, accept_transfer, tget. rewrite Hn, HJ. destruct k; reflexivity.
  - right. unfold renounce, enforce_holder_auth. rewrite Hn. reflexivity.
  - right. unfold enforce_holder_auth. rewrite Hn. reflexivity.
  - left. eauto.
Qed.

Lemma enforce_ok : forall au r hh, enforce_holder_auth au r = Ok hh -> holder r = Some hh /\ has_auth au hh = true.
Proof.
  intros au r hh H. unfold enforce_holder_auth in H. destruct (holder r) as [x|]; [|discriminate].
  destruct (has_auth au x) eqn:E; [|discriminate]. inversion H; subst. auto.
Qed.

Lemma step_shape : forall k c s cl,
  let s' := fst (step k c s cl) in
  s' = s \/ (rts s' = rts s /\ now s <= now s') \/ holder (rts s') <> None \/
  (now s' = now s /\ pending (rts s') = pending (rts s) /\ tlive_at (now s) (pending (rts s)) = None).
Proof.
  intros k c s cl. destruct cl as [new lu au|au|au|au|n]; cbn [step].
  - unfold offer. destruct (enforce_holder_auth au (rts s)) as [hh|] eqn:Eh; cbn [bind]; [|left; reflexivity].
    apply enforce_ok in Eh. destruct Eh as [Eh _].
    destruct (transfer_role c (now s) (pending (rts s)) new lu); cbn [bind fst]; [|left; reflexivity].
    right. right. left. cbn. rewrite Eh. discriminate.
  - destruct (accept k (now s) au (rts s)) as [r|] eqn:E; cbn [fst]; [|left; reflexivity].
    right. right. left. unfold accept, accept_transfer in E.
    destruct k; [|destruct (holder (rts s)) as [h1|]; [|discriminate]];
    (destruct (tget (now s) (pending (rts s))) as [pa|]; [|discriminate];
     destruct (has_auth au pa); [|discriminate]; inversion E; subst r; cbn; discriminate).
  - unfold renounce. destruct (enforce_holder_auth au (rts s)) as [hh|]; cbn [bind]; [|left; reflexivity].
    destruct (tget (now s) (pending (rts s))) eqn:Eg; cbn [fst]; [left; reflexivity|].
    right. right. right. cbn. repeat split. apply tget_none. exact Eg.
  - destruct (enforce_holder_auth au (rts s)); [destruct k|]; cbn [fst].
    + right. left. cbn. split; [reflexivity|lia].
    + left. reflexivity.
    + left. reflexivity.
  - right. left. cbn. split; [reflexivity|lia].
Qed.

Lemma J_step : forall k c s cl, J s -> J (fst (step k c s cl)).
Proof.
  intros k c s cl HJ. pose proof (step_shape k c s cl) as S. cbn zeta in S.
  destruct S as [S|[[S1 S2]|[S|[S1 [S2 S3]]]]].
  - rewrite S. exact HJ.
  - unfold J in *. rewrite S1. intros Hn. apply tlive_at_mono with (n := now s); [exact S2|]. apply HJ. exact Hn.
  - unfold J. intros Hn. contradiction.
  - unfold J. intros _. rewrite S1, S2. exact S3.
Qed.

Lemma J_run : forall k c cs s, J s -> J (run k c s cs).
Proof. intros k c cs. induction cs as [|cl r IH]; intros s HJ; [exact HJ|]. rewrite run_cons. apply IH. apply J_step. exact HJ. Qed.

Lemma J_init : forall start h0, J (init start h0).
Proof. intros. unfold J. reflexivity. Qed.

Lemma dead_history : forall k c cs s, holder (rts s) = None -> J s ->
  Forall (fun e => ev_holder e = None /\ ev_after e = None /\
                   (is_ok (ev_out e) = true -> exists n, ev_call e = Advance n)) (history k c s cs).
Proof.
  intros k c cs. induction cs as [|cl r IH]; intros s Hn HJ; [constructor|].
  rewrite history_cons. destruct (dead_step k c s cl Hn HJ) as [[n ->]|Hs].
  - constructor.
    + unfold ev_of. cbn. repeat split; auto. eauto.
    + apply IH; [exact Hn|]. apply (J_step k c s (Advance n) HJ).
  - constructor.
    + unfold ev_of. rewrite Hs. cbn. repeat split; auto. discriminate.
    + rewrite Hs. cbn [fst]. apply IH; assumption.
Qed.

Theorem renounced_is_final : forall k c start h0 cs h1 e h2,
  history k c (init start h0) cs = h1 ++ e :: h2 ->
  ev_after e = None ->
  Forall (fun e' => ev_holder e' = None /\ ev_after e' = None /\
                    (is_ok (ev_out e') = true -> exists n, ev_call e' = Advance n)) h2.
Proof.
  intros k c start h0 cs h1 e h2 Hh Ha.
  apply history_split in Hh. destruct Hh as [cs1 [cl [cs2 [Hcs [H1 [He H2]]]]]].
  rewrite H2. apply dead_history.
  - rewrite He in Ha. exact Ha.
  - apply J_step. apply J_run. apply J_init.
Qed.

(* ------------------------------------------------------------------ *)
(* closed forms of the step function *)

Lemma enforce_closed : forall au r,
  enforce_holder_auth au r = if signed_by (holder r) au then of_option (holder r) else Fail.
Proof.
  intros. unfold enforce_holder_auth, signed_by. destruct (holder r) as [h|]; [|reflexivity].
  destruct (has_auth au h); reflexivity.
Qed.

Lemma step_offer : forall k c s new lu au, 1 <= min_temp_ttl c -> lu <> 0 ->
  step k c s (Offer new lu au) =
    if signed_by (holder (rts s)) au && ((now s <=? lu) && (lu <=? now s + max_ttl c - 1))
    then (with_rt s {| holder := holder (rts s);
                       pending := Some {| tval := new;
                                          tlive := match tlive_at (now s) (pending (rts s)) with
                                                   | Some e => Z.max (tlive e) lu
                                                   | None => Z.max lu (now s + min_temp_ttl c - 1)
                                                   end |} |}, Ok 0)
    else (s, Fail).
Proof.
  intros k c s new lu au Hmin Hz. cbn [step]. unfold offer. rewrite enforce_closed.
  destruct (signed_by (holder (rts s)) au) eqn:Es; cbn [andb]; [|reflexivity].
  unfold signed_by in Es. destruct (holder (rts s)) as [hh|]; [|discriminate]. cbn [of_option bind].
  rewrite (transfer_role_offer c (now s) (pending (rts s)) new lu Hmin Hz).
  destruct ((now s <=? lu) && (lu <=? now s + max_ttl c - 1)); reflexivity.
Qed.

Lemma step_cancel : forall k c s new au,
  step k c s (Offer new 0 au) =
    if signed_by (holder (rts s)) au &&
       match tget (now s) (pending (rts s)) with Some pa => N.eqb pa new | None => false end
    then (with_rt s {| holder := holder (rts s); pending := None |}, Ok 0)
    else (s, Fail).
Proof.
  intros k c s new au. cbn [step]. unfold offer. rewrite enforce_closed.
  destruct (signed_by (holder (rts s)) au) eqn:Es; cbn [andb]; [|reflexivity].
  unfold signed_by in Es. destruct (holder (rts s)) as [hh|]; [|discriminate]. cbn [of_option bind].
  rewrite transfer_role_cancel.
  destruct (tget (now s) (pending (rts s))) as [pa|]; [|reflexivity].
  destruct (N.eqb pa new); reflexivity.
Qed.

Definition kind_ready (k : kind) (h : option addr) : bool :=
  match k with Own => true | AC => match h with Some _ => true | None => false end end.

Lemma step_accept : forall k c s au,
  step k c s (Accept au) =
    match tget (now s) (pending (rts s)) with
    | Some pa => if has_auth au pa && kind_ready k (holder (rts s))
                 then (with_rt s {| holder := Some pa; pending := None |}, Ok 0)
                 else (s, Fail)
    | None => (s, Fail)
    end.
Proof.
  intros k c s au. cbn [step]. unfold accept, accept_transfer, kind_ready.
  destruct k.
  - destruct (tget (now s) (pending (rts s))) as [pa|]; [|reflexivity].
    rewrite andb_true_r. destruct (has_auth au pa); reflexivity.
  - destruct (holder (rts s)) as [hh|].
    + destruct (tget (now s) (pending (rts s))) as [pa|]; [|reflexivity].
      rewrite andb_true_r. destruct (has_auth au pa); reflexivity.
    + destruct (tget (now s) (pending (rts s))) as [pa|]; [|reflexivity].
      rewrite andb_false_r. reflexivity.
Qed.

Lemma step_renounce : forall k c s au,
  step k c s (Renounce au) =
    if signed_by (holder (rts s)) au &&
       match tget (now s) (pending (rts s)) with Some _ => false | None => true end
    then (with_rt s {| holder := None; pending := pending (rts s) |}, Ok 0)
    else (s, Fail).
Proof.
  intros k c s au. cbn [step]. unfold renounce. rewrite enforce_closed.
  destruct (signed_by (holder (rts s)) au) eqn:Es; cbn [andb]; [|reflexivity].
  unfold signed_by in Es. destruct (holder (rts s)) as [hh|]; [|discriminate]. cbn [of_option bind].
  destruct (tget (now s) (pending (rts s))); reflexivity.
Qed.

Lemma step_guarded : forall k c s au,
  step k c s (Guarded au) =
    if signed_by (holder (rts s)) au
    then match k with
         | Own => ({| now := now s; rts := rts s; ctr := ctr s + 1 |}, Ok (ctr s + 1))
         | AC => (s, Ok 0)
         end
    else (s, Fail).
Proof.
  intros k c s au. cbn [step]. rewrite enforce_closed.
  destruct (signed_by (holder (rts s)) au) eqn:Es; [|reflexivity].
  unfold signed_by in Es. destruct (holder (rts s)) as [hh|]; [|discriminate]. reflexivity.
Qed.

(* ------------------------------------------------------------------ *)
(* corollaries in the shape pinned in Properties/C07.v *)

Theorem accept_once : forall k c start h0 cs a x b e h2 auths,
  1 <= min_temp_ttl c ->
  history k c (init start h0) cs = a ++ x :: b ++ e :: h2 ->
  accept_ok x = true ->
  ev_call e = Accept auths -> is_ok (ev_out e) = true ->
  exists b1 off b2, b = b1 ++ off :: b2 /\ offer_ok off = true.
Proof. intros. eapply accept_needs_new_offer; eauto. Qed.

Theorem cancel_kills : forall k c start h0 cs a x b e h2 auths,
  1 <= min_temp_ttl c ->
  history k c (init start h0) cs = a ++ x :: b ++ e :: h2 ->
  cancel_ok x = true ->
  ev_call e = Accept auths -> is_ok (ev_out e) = true ->
  exists b1 off b2, b = b1 ++ off :: b2 /\ offer_ok off = true.
Proof. intros. eapply accept_needs_new_offer; eauto. Qed.

Theorem only_holder_offers : forall k c s cs e new lu au,
  1 <= min_temp_ttl c ->
  In e (history k c s cs) -> ev_call e = Offer new lu au -> is_ok (ev_out e) = true ->
  exists h, ev_holder e = Some h /\ has_auth au h = true.
Proof.
  intros k c s cs e new lu au Hmin Hi Hc Hok.
  destruct (holder_keeps_control k c s cs e Hmin Hi) as [_ [_ [_ [F _]]]].
  specialize (F new lu au Hc Hok). unfold signed_by in F.
  destruct (ev_holder e) as [h|]; [|discriminate]. eauto.
Qed.

Lemma offer_ok_bounds : forall k c s cs off new lu au, 1 <= min_temp_ttl c ->
  In off (history k c s cs) -> offer_ok off = true -> ev_call off = Offer new lu au ->
  lu <> 0 /\ ev_now off <= lu <= ev_now off + max_ttl c - 1.
Proof.
  intros k c s cs off new lu au Hmin Hi Ho Hc.
  unfold offer_ok in Ho. rewrite Hc in Ho. apply andb_prop in Ho. destruct Ho as [Ho Hz].
  assert (lu <> 0) by (intros ->; discriminate).
  destruct (holder_keeps_control k c s cs off Hmin Hi) as [_ [_ [F _]]].
  specialize (F new lu au Hc H). rewrite Ho in F. symmetry in F.
  apply andb_prop in F. destruct F as [_ F]. apply andb_prop in F. split; [assumption|lia].
Qed.

(* the prescribed setting min_temp_entry_ttl = 1: the lifetime an offer asks for is exactly live_until *)
Theorem except_known_min1 : forall k c start h0 cs h1 e h2 auths,
  min_temp_ttl c = 1 ->
  history k c (init start h0) cs = h1 ++ e :: h2 ->
  ev_call e = Accept auths -> is_ok (ev_out e) = true ->
  exists g1 off g2 new lu au,
    h1 = g1 ++ off :: g2 /\ ev_call off = Offer new lu au /\ offer_ok off = true /\
    no_oca g2 /\
    (exists h, ev_holder off = Some h /\ has_auth au h = true) /\
    has_auth auths new = true /\ ev_after e = Some new /\
    (ev_now e <= lu \/
     exists q1 off' q2 new' lu' au', g1 = q1 ++ off' :: q2 /\ ev_call off' = Offer new' lu' au' /\
       offer_ok off' = true /\ no_ca q2 /\ ev_now off' <= ev_now off /\ ev_now e <= lu').
Proof.
  intros k c start h0 cs h1 e h2 auths Hmin Hh Hc Hok.
  assert (Hm : 1 <= min_temp_ttl c) by lia.
  destruct (except_known k c start h0 cs h1 e h2 auths Hm Hh Hc Hok)
    as [g1 [off [g2 [new [lu [au [G1 [G2 [G3 [G4 [G5 [G6 [G7 G8]]]]]]]]]]]]].
  exists g1, off, g2, new, lu, au.
  assert (Hin : In off (history k c (init start h0) cs)).
  { rewrite Hh, G1. apply in_or_app. left. apply in_or_app. right. left. reflexivity. }
  destruct (offer_ok_bounds _ _ _ _ _ _ _ _ Hm Hin G3 G2) as [Hz Hb].
  repeat split; auto.
  - unfold holder_signed, signed_by in G5. destruct (ev_holder off) as [h|]; [|discriminate]. eauto.
  - destruct G8 as [G8|[q1 [off' [q2 [Q1 [Q2 [Q3 Q4]]]]]]].
    + left. unfold eff in G8. rewrite G2, Hmin in G8. lia.
    + right.
      assert (Hin' : In off' (history k c (init start h0) cs)).
      { rewrite Hh, G1, Q1. apply in_or_app. left. apply in_or_app. left. apply in_or_app. right. left. reflexivity. }
      destruct (history_In _ _ _ _ _ Hin') as [s1 [cl He]].
      assert (exists new' lu' au', ev_call off' = Offer new' lu' au') as [new' [lu' [au' Hc']]].
      { unfold offer_ok in Q2. destruct (ev_call off') as [n l a| | | |] eqn:E; try (rewrite andb_false_r in Q2; discriminate). eauto. }
      destruct (offer_ok_bounds _ _ _ _ _ _ _ _ Hm Hin' Q2 Hc') as [Hz' Hb'].
      exists q1, off', q2, new', lu', au'. repeat split; auto.
      * (* off' comes before off *)
        assert (Hs : history k c (init start h0) cs = q1 ++ off' :: (q2 ++ off :: g2 ++ e :: h2)).
        { rewrite Hh, G1, Q1. repeat rewrite <- app_assoc. cbn [app]. repeat rewrite <- app_assoc. cbn [app]. reflexivity. }
        clear -Hs. revert Hs. generalize (init start h0) as s0. revert q1 off'.
        induction q2 as [|y r IH]; intros q1 off' s0 Hs.
        -- cbn in Hs. apply history_chain in Hs. tauto.
        -- cbn in Hs. pose proof Hs as Hs1. apply history_chain in Hs1. destruct Hs1 as [_ L1].
           replace (q1 ++ off' :: y :: r ++ off :: g2 ++ e :: h2) with ((q1 ++ [off']) ++ y :: (r ++ off :: g2 ++ e :: h2)) in Hs
             by (rewrite <- app_assoc; reflexivity).
           specialize (IH _ _ _ Hs). lia.
      * unfold eff in Q4. rewrite Hc', Hmin in Q4. lia.
Qed.

(* ------------------------------------------------------------------ *)
(* the offerer is still the holder when its offer is accepted *)

Lemma step_holder_cases : forall k c s cl,
  accept_ok (ev_of k c s cl) = false ->
  holder (rts (fst (step k c s cl))) = holder (rts s) \/ holder (rts (fst (step k c s cl))) = None.
Proof.
  intros k c s cl Ha. destruct cl as [new lu au|au|au|au|n].
  - left. cbn [step]. unfold offer. destruct (enforce_holder_auth au (rts s)); cbn [bind]; [|reflexivity].
    destruct (transfer_role c (now s) (pending (rts s)) new lu); reflexivity.
  - left. unfold accept_ok, ev_of in Ha. cbn [ev_out ev_call step] in Ha. rewrite andb_true_r in Ha. cbn [step].
    destruct (accept k (now s) au (rts s)); cbn in *; [discriminate|reflexivity].
  - cbn [step]. unfold renounce. destruct (enforce_holder_auth au (rts s)); cbn [bind]; [|left; reflexivity].
    destruct (tget (now s) (pending (rts s))); cbn; auto.
  - left. cbn [step]. destruct (enforce_holder_auth au (rts s)); [destruct k|]; reflexivity.
  - left. reflexivity.
Qed.

Lemma quiet_holder : forall k c cs s,
  no_oca (history k c s cs) -> J s ->
  holder (rts (run k c s cs)) = holder (rts s) \/ holder (rts (run k c s cs)) = None.
Proof.
  intros k c cs. induction cs as [|cl r IH]; intros s Hq HJ; [left; reflexivity|].
  rewrite history_cons in Hq. change (ev_of k c s cl :: history k c (fst (step k c s cl)) r)
    with ([ev_of k c s cl] ++ history k c (fst (step k c s cl)) r) in Hq.
  apply no_oca_app in Hq. destruct Hq as [Q1 Q2].
  unfold no_oca in Q1. cbn in Q1. rewrite andb_true_r, negb_true_iff, !orb_false_iff in Q1. destruct Q1 as [[A B] C].
  rewrite run_cons. destruct (IH _ Q2 (J_step k c s cl HJ)) as [I|I].
  - destruct (step_holder_cases k c s cl C) as [S|S].
    + left. congruence.
    + right. congruence.
  - right. exact I.
Qed.

Theorem offerer_still_holder : forall k c start h0 cs g1 off g2 e h2 auths,
  1 <= min_temp_ttl c ->
  history k c (init start h0) cs = g1 ++ off :: g2 ++ e :: h2 ->
  offer_ok off = true -> no_oca g2 ->
  ev_call e = Accept auths -> is_ok (ev_out e) = true ->
  ev_holder e = ev_holder off /\ ev_holder off <> None.
Proof.
  intros k c start h0 cs g1 off g2 e h2 auths Hmin Hh Hoo Hq Hce Hok.
  pose proof Hh as Hh0.
  apply history_split in Hh. destruct Hh as [cs1 [cl [cs' [Hcs [H1 [He H2]]]]]].
  set (s1 := run k c (init start h0) cs1) in *.
  assert (HJ1 : J s1) by (apply J_run; apply J_init).
  symmetry in H2. apply history_split in H2. destruct H2 as [cs2 [cl2 [cs3 [Hcs' [G2 [He' _]]]]]].
  assert (cl2 = Accept auths) by (rewrite He' in Hce; exact Hce). subst cl2.
  set (s1' := fst (step k c s1 cl)) in *.
  assert (HJ1' : J s1') by (apply J_step; exact HJ1).
  rewrite G2 in Hq.
  (* the offer keeps the holder *)
  assert (Hoff : holder (rts s1') = holder (rts s1) /\ holder (rts s1) <> None).
  { assert (Hin : In off (history k c (init start h0) cs)) by (rewrite Hh0; apply in_or_app; right; left; reflexivity).
    destruct (holder_keeps_control k c _ cs off Hmin Hin) as [K1 [_ [_ [K4 _]]]].
    destruct (kinds_exclusive off) as [X _]. destruct (X Hoo) as [X1 X2].
    assert (Hr : renounce_ok off = false).
    { unfold offer_ok, renounce_ok in *. destruct (is_ok (ev_out off)); [|reflexivity]. cbn in *.
      destruct (ev_call off); try discriminate; reflexivity. }
    specialize (K1 X2 Hr). rewrite He in K1. unfold ev_of in K1. cbn [ev_after ev_holder] in K1. fold s1' in K1.
    split; [exact K1|].
    assert (exists new lu au, ev_call off = Offer new lu au) as [new [lu [au Hc]]].
    { unfold offer_ok in Hoo. destruct (ev_call off) as [n l a| | | |]; try (rewrite andb_false_r in Hoo; discriminate). eauto. }
    assert (Hok' : is_ok (ev_out off) = true) by (unfold offer_ok in Hoo; apply andb_prop in Hoo; tauto).
    specialize (K4 new lu au Hc Hok'). rewrite He in K4. unfold ev_of in K4. cbn [ev_holder] in K4.
    unfold signed_by in K4. destruct (holder (rts s1)); [discriminate|discriminate]. }
  destruct Hoff as [Hoff1 Hoff2].
  assert (Heh : ev_holder e = holder (rts (run k c s1' cs2))) by (rewrite He'; reflexivity).
  assert (Hoh : ev_holder off = holder (rts s1)) by (rewrite He; reflexivity).
  rewrite Heh, Hoh. split; [|exact Hoff2].
  destruct (quiet_holder k c cs2 s1' Hq HJ1') as [Q|Q]; [congruence|].
  (* with no holder the accept would have failed *)
  exfalso. assert (HJ2 : J (run k c s1' cs2)) by (apply J_run; exact HJ1').
  destruct (dead_step k c _ (Accept auths) Q HJ2) as [[n Hn]|Hs]; [discriminate|].
  rewrite He' in Hok. unfold ev_of in Hok. cbn [ev_out] in Hok. rewrite Hs in Hok. discriminate.
Qed.

(* ------------------------------------------------------------------ *)
(* a replaced offer can never be accepted: whoever accepts is the addressee of the LATEST offer *)
Theorem replaced_offer_dead : forall k c start h0 cs g1 off g2 e h2 new lu au auths,
  1 <= min_temp_ttl c ->
  history k c (init start h0) cs = g1 ++ off :: g2 ++ e :: h2 ->
  ev_call off = Offer new lu au -> offer_ok off = true -> no_oca g2 ->
  ev_call e = Accept auths -> is_ok (ev_out e) = true ->
  has_auth auths new = true /\ ev_after e = Some new.
Proof.
  intros k c start h0 cs g1 off g2 e h2 new lu au auths Hmin Hh Hco Hoo Hq Hce Hok.
  replace (g1 ++ off :: g2 ++ e :: h2) with ((g1 ++ off :: g2) ++ e :: h2) in Hh
    by (rewrite <- app_assoc; reflexivity).
  destruct (except_known k c start h0 cs _ e h2 auths Hmin Hh Hce Hok)
    as [g1' [off' [g2' [new' [lu' [au' [G1 [G2 [G3 [G4 [_ [G6 [G7 _]]]]]]]]]]]]].
  assert (L1 : latest (g1 ++ off :: g2) = Some off) by (apply latest_of_decomp; assumption).
  assert (L2 : latest (g1 ++ off :: g2) = Some off') by (rewrite G1; apply latest_of_decomp; assumption).
  rewrite L1 in L2. inversion L2; subst off'. rewrite Hco in G2. inversion G2; subst. auto.
Qed.
