(* Cardinalities: the plain balance counters equal the number of ids the plain ownership map
   assigns to an address; the supply counter equals the number of existing ids. *)
From Coq Require Import Permutation.
From SC Require Import Lib.Prelude Lib.Int Lib.Host Model.Nft Run.NftCommon Proofs.NftMaps.
Local Open Scope N_scope.

Definition owned_by (R : N -> option addr) (a : addr) (i : N) : bool := oaddr_eqb (R i) (Some a).
Definition exists_in (R : N -> option addr) (i : N) : bool := match R i with Some _ => true | None => false end.
Definition cnt_in (p : N -> bool) (l : list N) : nat := length (filter p l).

Lemma oaddr_eqb_eq a b : oaddr_eqb a b = true <-> a = b.
Proof.
  destruct a, b; cbn; split; intros H; try discriminate; try reflexivity.
  - apply N.eqb_eq in H. subst. reflexivity.
  - inversion H. apply N.eqb_refl.
Qed.

(* two duplicate-free lists that both contain every id satisfying p count the same *)
Lemma cnt_in_cover (p : N -> bool) l1 l2 :
  NoDup l1 -> NoDup l2 -> (forall i, p i = true -> In i l1) -> (forall i, p i = true -> In i l2) ->
  cnt_in p l1 = cnt_in p l2.
Proof.
  intros N1 N2 C1 C2. unfold cnt_in. apply Permutation_length. apply NoDup_Permutation.
  - apply NoDup_filter. exact N1.
  - apply NoDup_filter. exact N2.
  - intros x. rewrite !filter_In. split; intros [_ Hp]; (split; [auto | exact Hp]).
Qed.

Lemma cnt_in_ext (p q : N -> bool) l : (forall i, In i l -> p i = q i) -> cnt_in p l = cnt_in q l.
Proof.
  unfold cnt_in. induction l as [|a r IH]; intros H; cbn [filter]; [reflexivity|].
  rewrite (H a (or_introl eq_refl)). destruct (q a); cbn [length]; rewrite IH; auto; intros i Hi; apply H; right; exact Hi.
Qed.

(* changing p at one point i of a duplicate-free list *)
Lemma cnt_in_update (p q : N -> bool) l i :
  NoDup l -> In i l -> (forall j, j <> i -> p j = q j) ->
  (cnt_in q l + (if p i then 1 else 0) = cnt_in p l + (if q i then 1 else 0))%nat.
Proof.
  unfold cnt_in. induction l as [|a r IH]; intros Hn Hi Hpq; [destruct Hi|].
  inversion Hn as [|? ? Hna Hnr]; subst. cbn [filter].
  destruct (N.eq_dec a i) as [->|Hne].
  - assert (E : filter q r = filter p r).
    { apply filter_ext_in. intros x Hx. symmetry. apply Hpq. intros ->. exact (Hna Hx). }
    rewrite E. destruct (p i), (q i); cbn [length]; lia.
  - destruct Hi as [Hi|Hi]; [contradiction|]. specialize (IH Hnr Hi Hpq).
    rewrite (Hpq a Hne). destruct (q a); cbn [length]; lia.
Qed.

(* ---------- N ranges ---------- *)
Fixpoint seqN (lo : N) (n : nat) : list N :=
  match n with O => [] | S k => lo :: seqN (N.succ lo) k end.
Lemma seqN_In lo n x : In x (seqN lo n) <-> lo <= x < lo + N.of_nat n.
Proof.
  revert lo. induction n as [|n IH]; intros lo; cbn [seqN In].
  - split; [intros [] | lia].
  - rewrite IH. lia.
Qed.
Lemma seqN_NoDup lo n : NoDup (seqN lo n).
Proof.
  revert lo. induction n as [|n IH]; intros lo; cbn [seqN]; constructor; [|apply IH].
  rewrite seqN_In. lia.
Qed.
Lemma seqN_length lo n : length (seqN lo n) = n.
Proof. revert lo. induction n as [|n IH]; intros lo; cbn; [reflexivity | rewrite IH; reflexivity]. Qed.
Lemma filter_all_true {A} (f : A -> bool) l : (forall x, In x l -> f x = true) -> filter f l = l.
Proof.
  induction l as [|a r IH]; cbn; intros H; [reflexivity|].
  rewrite (H a (or_introl eq_refl)). f_equal. apply IH. intros x Hx. apply H. right. exact Hx.
Qed.
Lemma filter_all_false {A} (f : A -> bool) l : (forall x, In x l -> f x = false) -> filter f l = [].
Proof.
  induction l as [|a r IH]; cbn; intros H; [reflexivity|].
  rewrite (H a (or_introl eq_refl)). apply IH. intros x Hx. apply H. right. exact Hx.
Qed.

(* ---------- the invariant of the reference ---------- *)
Definition CardInv (bounded : Prop) (g : ghost) : Prop :=
  exists dom : list N,
    NoDup dom /\
    (forall i, rget (g_own g) i <> None -> In i dom) /\
    (forall a, cnt (g_cnt g) a = N.of_nat (cnt_in (owned_by (rget (g_own g)) a) dom)) /\
    g_supply g = N.of_nat (cnt_in (exists_in (rget (g_own g))) dom) /\
    (bounded -> forall i, In i dom -> i < g_next g).

Lemma card_init bounded now0 : CardInv bounded (ghost0 now0).
Proof.
  exists []. split; [constructor|]. split; [intros i H; exfalso; apply H; reflexivity|].
  split; [intros a; reflexivity|]. split; [reflexivity|]. intros _ i [].
Qed.

(* point update of the ownership map *)
Definition rpoint (g : ghost) (i : N) (v : option addr) (j : N) : option addr := if j =? i then v else rget (g_own g) j.

Lemma card_point bounded g i v (own' : rmap) cnt' sup' nx' :
  CardInv bounded g ->
  (forall j, rget own' j = rpoint g i v j) ->
  (forall a, cnt' a + (if owned_by (rget (g_own g)) a i then 1 else 0) =
             cnt (g_cnt g) a + (if oaddr_eqb v (Some a) then 1 else 0)) ->
  sup' + (if exists_in (rget (g_own g)) i then 1 else 0) = g_supply g + (match v with Some _ => 1 | None => 0 end) ->
  (bounded -> g_next g <= nx' /\ (rget (g_own g) i = None -> i < nx')) ->
  exists dom : list N,
    NoDup dom /\ (forall j, rget own' j <> None -> In j dom) /\
    (forall a, cnt' a = N.of_nat (cnt_in (owned_by (rget own') a) dom)) /\
    sup' = N.of_nat (cnt_in (exists_in (rget own')) dom) /\
    (bounded -> forall j, In j dom -> j < nx').
Proof.
  intros (dom&Hn&Hc&Hcnt&Hs&Hb) Hr Hcn Hsp Hnx.
  set (dom' := if memN i dom then dom else i :: dom).
  assert (Hn' : NoDup dom').
  { unfold dom'. destruct (memN i dom) eqn:E; [exact Hn|]. constructor; [apply memN_false; exact E | exact Hn]. }
  assert (Hi' : In i dom') by (unfold dom'; destruct (memN i dom) eqn:E; [apply memN_In; exact E | left; reflexivity]).
  assert (Hsub : forall j, In j dom -> In j dom') by (intros j Hj; unfold dom'; destruct (memN i dom); [exact Hj | right; exact Hj]).
  assert (Hold : forall (p : N -> bool), (p i = true -> In i dom) -> cnt_in p dom' = cnt_in p dom).
  { intros p Hp. unfold dom'. destruct (memN i dom) eqn:E; [reflexivity|]. unfold cnt_in. cbn [filter].
    destruct (p i) eqn:Ep; [|reflexivity]. apply memN_false in E. exfalso. apply E. apply Hp. reflexivity. }
  exists dom'. split; [exact Hn'|]. split.
  { intros j Hj. rewrite Hr in Hj. unfold rpoint in Hj. destruct (j =? i) eqn:E.
    - apply N.eqb_eq in E. subst. exact Hi'.
    - apply Hsub. apply Hc. exact Hj. }
  split.
  { intros a.
    pose proof (cnt_in_update (owned_by (rget (g_own g)) a) (owned_by (rget own') a) dom' i Hn' Hi') as Hu.
    assert (Hpq : forall j, j <> i -> owned_by (rget (g_own g)) a j = owned_by (rget own') a j).
    { intros j Hj. unfold owned_by. rewrite Hr. unfold rpoint. apply N.eqb_neq in Hj. rewrite Hj. reflexivity. }
    specialize (Hu Hpq).
    assert (Ho : cnt_in (owned_by (rget (g_own g)) a) dom' = cnt_in (owned_by (rget (g_own g)) a) dom).
    { apply Hold. unfold owned_by. intros H. apply Hc. apply oaddr_eqb_eq in H. rewrite H. discriminate. }
    assert (Hq : owned_by (rget own') a i = oaddr_eqb v (Some a)).
    { unfold owned_by. rewrite Hr. unfold rpoint. rewrite N.eqb_refl. reflexivity. }
    specialize (Hcn a). rewrite Hcnt in Hcn. rewrite Ho, Hq in Hu.
    destruct (owned_by (rget (g_own g)) a i), (oaddr_eqb v (Some a)); lia. }
  split.
  { pose proof (cnt_in_update (exists_in (rget (g_own g))) (exists_in (rget own')) dom' i Hn' Hi') as Hu.
    assert (Hpq : forall j, j <> i -> exists_in (rget (g_own g)) j = exists_in (rget own') j).
    { intros j Hj. unfold exists_in. rewrite Hr. unfold rpoint. apply N.eqb_neq in Hj. rewrite Hj. reflexivity. }
    specialize (Hu Hpq).
    assert (Ho : cnt_in (exists_in (rget (g_own g))) dom' = cnt_in (exists_in (rget (g_own g))) dom).
    { apply Hold. unfold exists_in. intros H. apply Hc. destruct (rget (g_own g) i); [discriminate | discriminate]. }
    assert (Hq : exists_in (rget own') i = match v with Some _ => true | None => false end).
    { unfold exists_in. rewrite Hr. unfold rpoint. rewrite N.eqb_refl. reflexivity. }
    rewrite Hs in Hsp. rewrite Ho, Hq in Hu.
    destruct (exists_in (rget (g_own g)) i), v; lia. }
  intros HB j Hj. destruct (Hnx HB) as [Hle Hlt]. unfold dom' in Hj.
  destruct (memN i dom) eqn:E; [specialize (Hb HB j Hj); lia|]. destruct Hj as [<-|Hj]; [|specialize (Hb HB j Hj); lia].
  apply Hlt. apply memN_false in E. destruct (rget (g_own g) i) eqn:Er; [|reflexivity].
  exfalso. apply E. apply Hc. rewrite Er. discriminate.
Qed.

Lemma cnt_in_pos (p : N -> bool) l i : In i l -> p i = true -> (1 <= cnt_in p l)%nat.
Proof.
  intros Hi Hp. unfold cnt_in. assert (In i (filter p l)) by (apply filter_In; auto).
  destruct (filter p l); [destruct H | cbn; lia].
Qed.

Lemma cnt_in_app (p : N -> bool) l1 l2 : cnt_in p (l1 ++ l2) = (cnt_in p l1 + cnt_in p l2)%nat.
Proof. unfold cnt_in. rewrite filter_app, app_length. reflexivity. Qed.

Lemma NoDup_app_disj {A} (l1 l2 : list A) :
  NoDup l1 -> NoDup l2 -> (forall x, In x l1 -> ~ In x l2) -> NoDup (l1 ++ l2).
Proof.
  induction l1 as [|a r IH]; intros N1 N2 D; cbn [app]; [exact N2|].
  inversion N1; subst. constructor.
  - rewrite in_app_iff. intros [H|H]; [contradiction | exact (D a (or_introl eq_refl) H)].
  - apply IH; [assumption | assumption | intros x Hx; apply D; right; exact Hx].
Qed.

(* a whole fresh range lo..hi assigned to one address (batch mint) *)
Lemma card_range (bounded : Prop) g lo hi to (own' : rmap) cnt' sup' :
  bounded -> CardInv bounded g -> g_next g <= lo -> lo <= hi ->
  (forall j, rget own' j = if (lo <=? j) && (j <=? hi) then Some to else rget (g_own g) j) ->
  (forall a, cnt' a = cnt (g_cnt g) a + (if a =? to then hi + 1 - lo else 0)) ->
  sup' = g_supply g + (hi + 1 - lo) ->
  exists dom : list N,
    NoDup dom /\ (forall j, rget own' j <> None -> In j dom) /\
    (forall a, cnt' a = N.of_nat (cnt_in (owned_by (rget own') a) dom)) /\
    sup' = N.of_nat (cnt_in (exists_in (rget own')) dom) /\
    (bounded -> forall j, In j dom -> j < hi + 1).
Proof.
  intros HB (dom&Hn&Hc&Hcnt&Hs&Hb) Hlo Hlh Hr Hcn Hsp. specialize (Hb HB).
  set (n := N.to_nat (hi + 1 - lo)).
  assert (Hseq : forall x, In x (seqN lo n) <-> lo <= x <= hi).
  { intros x. rewrite seqN_In. unfold n. rewrite N2Nat.id. lia. }
  assert (Hdisj : forall x, In x (seqN lo n) -> ~ In x dom).
  { intros x Hx Hd. apply Hseq in Hx. specialize (Hb x Hd). lia. }
  assert (Hin : forall x, In x (seqN lo n) -> (lo <=? x) && (x <=? hi) = true).
  { intros x Hx. apply Hseq in Hx. apply andb_true_iff. split; apply N.leb_le; lia. }
  assert (Hout : forall x, In x dom -> (lo <=? x) && (x <=? hi) = false).
  { intros x Hx. specialize (Hb x Hx). apply andb_false_iff. left. apply N.leb_gt. lia. }
  exists (seqN lo n ++ dom).
  split; [apply NoDup_app_disj; [apply seqN_NoDup | exact Hn | exact Hdisj]|].
  split.
  { intros j Hj. rewrite Hr in Hj. apply in_app_iff.
    destruct ((lo <=? j) && (j <=? hi)) eqn:E.
    - left. apply Hseq. apply andb_true_iff in E. destruct E as [E1 E2]. apply N.leb_le in E1, E2. lia.
    - right. apply Hc. exact Hj. }
  split.
  { intros a. rewrite Hcn, Hcnt, cnt_in_app.
    assert (E1 : cnt_in (owned_by (rget own') a) dom = cnt_in (owned_by (rget (g_own g)) a) dom).
    { apply cnt_in_ext. intros i Hi. unfold owned_by. rewrite Hr, (Hout i Hi). reflexivity. }
    rewrite E1.
    assert (E2 : cnt_in (owned_by (rget own') a) (seqN lo n) = if a =? to then n else O).
    { unfold cnt_in. destruct (a =? to) eqn:Ea.
      - apply N.eqb_eq in Ea. subst a. rewrite filter_all_true; [apply seqN_length|].
        intros x Hx. unfold owned_by. rewrite Hr, (Hin x Hx). cbn. apply N.eqb_refl.
      - rewrite filter_all_false; [reflexivity|].
        intros x Hx. unfold owned_by. rewrite Hr, (Hin x Hx). cbn. rewrite N.eqb_sym. exact Ea. }
    rewrite E2. destruct (a =? to); unfold n; lia. }
  split.
  { rewrite Hsp, Hs, cnt_in_app.
    assert (E1 : cnt_in (exists_in (rget own')) dom = cnt_in (exists_in (rget (g_own g))) dom).
    { apply cnt_in_ext. intros i Hi. unfold exists_in. rewrite Hr, (Hout i Hi). reflexivity. }
    rewrite E1.
    assert (E2 : cnt_in (exists_in (rget own')) (seqN lo n) = n).
    { unfold cnt_in. rewrite filter_all_true; [apply seqN_length|].
      intros x Hx. unfold exists_in. rewrite Hr, (Hin x Hx). reflexivity. }
    rewrite E2. unfold n. lia. }
  intros _ j Hj. apply in_app_iff in Hj. destruct Hj as [Hj|Hj]; [apply Hseq in Hj; lia | specialize (Hb j Hj); lia].
Qed.
