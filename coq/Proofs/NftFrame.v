(* Inversion ("what exactly did a successful helper do") lemmas for Model/Nft.v. *)
From SC Require Import Lib.Prelude Lib.Int Lib.Host Model.Nft Run.NftCommon Proofs.NftMaps.
Local Open Scope N_scope.

Lemma balance_set_bal s a v b :
  balance (set_bal s (aset N.eqb a v (bal s))) b = if b =? a then v else balance s b.
Proof.
  unfold balance. cbn [bal set_bal]. rewrite (aget_aset N.eqb Neqb_spec). destruct (b =? a); reflexivity.
Qed.

Lemma increase_balance_ok s to amt s' : increase_balance s to amt = Ok s' ->
  balance s to + amt <= MAXU32N /\ s' = set_bal s (aset N.eqb to (balance s to + amt) (bal s)).
Proof.
  unfold increase_balance. intros H. inv_res H. apply N.leb_le in G. split; auto.
Qed.
Lemma decrease_balance_ok s from amt s' : decrease_balance s from amt = Ok s' ->
  amt <= balance s from /\ s' = set_bal s (aset N.eqb from (balance s from - amt) (bal s)).
Proof.
  unfold decrease_balance. intros H. inv_res H. apply N.leb_le in G. split; auto.
Qed.

Definition plain (fl : flavour) : Prop := fl <> FCons.

(* the state after the `from` half of update (plain flavours) *)
Definition upd_from (s : state) (f : addr) (id : N) : state :=
  set_appr (set_bal s (aset N.eqb f (balance s f - 1) (bal s))) (arem N.eqb id (appr s)).
Definition upd_to (s : state) (to : option addr) (id : N) : state :=
  match to with
  | Some t => set_owner (set_bal s (aset N.eqb t (balance s t + 1) (bal s))) (aset N.eqb id t (owner s))
  | None => set_owner s (arem N.eqb id (owner s))
  end.

Lemma update_plain_from fl c s f to id s' : plain fl ->
  update fl c s (Some f) to id = Ok s' ->
  aget N.eqb id (owner s) = Some f /\ 1 <= balance s f /\
  (forall t, to = Some t -> balance (upd_from s f id) t + 1 <= MAXU32N) /\
  s' = upd_to (upd_from s f id) to id.
Proof.
  intros Hp H. unfold update in H. inv_res H. inv_res G.
  assert (Ho : aget N.eqb id (owner s) = Some x0) by (destruct fl; try exact G0; exfalso; apply Hp; reflexivity).
  apply N.eqb_eq in G1. subst x0.
  apply decrease_balance_ok in G2. destruct G2 as [Hb ->].
  assert (x = upd_from s f id) by (destruct fl; inversion G; try reflexivity; exfalso; apply Hp; reflexivity).
  subst x. clear G G0.
  split; [exact Ho|]. split; [exact Hb|].
  destruct to as [t|].
  - inv_res H. apply increase_balance_ok in G. destruct G as [Hi ->].
    split; [intros t' E; inversion E; subst; exact Hi|].
    destruct fl; inversion H; try reflexivity; exfalso; apply Hp; reflexivity.
  - split; [intros t' E; discriminate|].
    destruct fl; inversion H; try reflexivity; exfalso; apply Hp; reflexivity.
Qed.

Lemma update_plain_mint fl c s t id s' : plain fl ->
  update fl c s None (Some t) id = Ok s' ->
  balance s t + 1 <= MAXU32N /\ s' = upd_to s (Some t) id.
Proof.
  intros Hp H. unfold update in H. cbn [bind] in H. inv_res H.
  apply increase_balance_ok in G. destruct G as [Hi ->]. split; [exact Hi|].
  destruct fl; inversion H; try reflexivity; exfalso; apply Hp; reflexivity.
Qed.

(* ---------- frames: which fields a helper can touch ---------- *)
Definition same_core (s s' : state) : Prop :=
  now s' = now s /\ next_id s' = next_id s /\ owner s' = owner s /\ bal s' = bal s /\
  appr s' = appr s /\ oper s' = oper s /\ marks s' = marks s /\ burned s' = burned s.
Definition same_enum (s s' : state) : Prop :=
  total s' = total s /\ otok s' = otok s /\ otidx s' = otidx s /\ gtok s' = gtok s /\ gtidx s' = gtidx s.

Lemma same_core_refl s : same_core s s.
Proof. repeat split. Qed.
Lemma same_enum_refl s : same_enum s s.
Proof. repeat split. Qed.
Lemma same_core_trans s1 s2 s3 : same_core s1 s2 -> same_core s2 s3 -> same_core s1 s3.
Proof. unfold same_core. intuition congruence. Qed.
Lemma same_enum_trans s1 s2 s3 : same_enum s1 s2 -> same_enum s2 s3 -> same_enum s1 s3.
Proof. unfold same_enum. intuition congruence. Qed.

Lemma add_to_owner_enumeration_core s o id s' :
  add_to_owner_enumeration s o id = Ok s' -> same_core s s'.
Proof. unfold add_to_owner_enumeration. intros H. inv_res H. subst. repeat split. Qed.
Lemma remove_from_owner_enumeration_core s o id s' :
  remove_from_owner_enumeration s o id = Ok s' -> same_core s s'.
Proof.
  unfold remove_from_owner_enumeration. intros H. inv_res H. subst.
  destruct (x =? balance s o); inv_res G0; subst; repeat split.
Qed.
Lemma add_to_enumerations_core s o id s' : add_to_enumerations s o id = Ok s' -> same_core s s'.
Proof.
  unfold add_to_enumerations. intros H. inv_res H. subst.
  apply add_to_owner_enumeration_core in G. destruct G as (?&?&?&?&?&?&?&?).
  unfold add_to_global_enumeration. repeat split; cbn; assumption.
Qed.
Lemma remove_from_global_enumeration_core s id k s' :
  remove_from_global_enumeration s id k = Ok s' -> same_core s s'.
Proof. unfold remove_from_global_enumeration. intros H. inv_res H. subst. repeat split. Qed.
Lemma remove_from_enumerations_core s o id s' : remove_from_enumerations s o id = Ok s' -> same_core s s'.
Proof.
  unfold remove_from_enumerations. intros H. inv_res H.
  apply remove_from_owner_enumeration_core in G.
  apply remove_from_global_enumeration_core in H.
  eapply same_core_trans; [exact G|]. destruct H as (?&?&?&?&?&?&?&?). repeat split; cbn in *; assumption.
Qed.
Lemma enum_after_transfer_core fl s from to id s' :
  enum_after_transfer fl s from to id = Ok s' -> same_core s s'.
Proof.
  unfold enum_after_transfer. intros H. destruct fl; try (inversion H; apply same_core_refl).
  destruct (from =? to); [inversion H; apply same_core_refl|]. inv_res H.
  eapply same_core_trans; [eapply remove_from_owner_enumeration_core; eassumption|].
  eapply add_to_owner_enumeration_core; eassumption.
Qed.
Lemma enum_after_burn_core fl s from id s' : enum_after_burn fl s from id = Ok s' -> same_core s s'.
Proof.
  unfold enum_after_burn. intros H. destruct fl; try (inversion H; apply same_core_refl).
  eapply remove_from_enumerations_core; eassumption.
Qed.
Lemma enum_after_mint_core fl s to id s' : enum_after_mint fl s to id = Ok s' -> same_core s s'.
Proof.
  unfold enum_after_mint. intros H. destruct fl; try (inversion H; apply same_core_refl).
  eapply add_to_enumerations_core; eassumption.
Qed.

(* consecutive helpers touch only owner and marks *)
Lemma set_ownership_in_bucket_ok s id s' : set_ownership_in_bucket s id = Ok s' ->
  id < next_id s /\ s' = (if memN id (marks s) then s else set_marks s (id :: marks s)).
Proof.
  unfold set_ownership_in_bucket. intros H. inv_res H. apply N.ltb_lt in G. split; auto.
  destruct (memN id (marks s)); inversion H; reflexivity.
Qed.

(* the state after set_owner_for_previous_token *)
Definition prev_needs (s : state) (id : N) : bool :=
  negb ((id =? 0) || (next_id s <=? id))
  && match aget N.eqb (id - 1) (owner s) with Some _ => false | None => true end
  && negb (memN (id - 1) (burned s)).
Definition mark (s : state) (id : N) : state := if memN id (marks s) then s else set_marks s (id :: marks s).
Definition after_prev (s : state) (f : addr) (id : N) : state :=
  if prev_needs s id then mark (set_owner s (aset N.eqb (id - 1) f (owner s))) (id - 1) else s.

Lemma set_owner_for_previous_token_ok s f id s' :
  set_owner_for_previous_token s f id = Ok s' -> s' = after_prev s f id.
Proof.
  unfold set_owner_for_previous_token, after_prev, prev_needs. intros H.
  destruct ((id =? 0) || (next_id s <=? id)) eqn:E; cbn [negb andb]; [inversion H; reflexivity|].
  destruct (aget N.eqb (id - 1) (owner s)); cbn [andb]; [inversion H; reflexivity|].
  destruct (memN (id - 1) (burned s)); cbn [negb]; [inversion H; reflexivity|].
  apply set_ownership_in_bucket_ok in H. destruct H as [_ ->]. reflexivity.
Qed.

Definition cons_upd_to (s : state) (to : option addr) (id : N) : state :=
  match to with
  | Some t => mark (set_owner (set_bal s (aset N.eqb t (balance s t + 1) (bal s))) (aset N.eqb id t (owner s))) id
  | None => set_burned (set_owner s (arem N.eqb id (owner s))) (id :: burned s)
  end.

Lemma update_cons_from c s f to id s' :
  update FCons c s (Some f) to id = Ok s' ->
  cons_owner_of c s id = Some f /\ 1 <= balance s f /\
  (forall t, to = Some t -> balance (after_prev (upd_from s f id) f id) t + 1 <= MAXU32N) /\
  s' = cons_upd_to (after_prev (upd_from s f id) f id) to id.
Proof.
  intros H. unfold update in H. inv_res H. inv_res G. cbn [owner_of] in G0.
  apply N.eqb_eq in G1. subst x0.
  apply decrease_balance_ok in G2. destruct G2 as [Hb ->].
  apply set_owner_for_previous_token_ok in G. fold (upd_from s f id) in G. subst x.
  split; [exact G0|]. split; [exact Hb|].
  destruct to as [t|].
  - inv_res H. apply increase_balance_ok in G. destruct G as [Hi ->].
    split; [intros t' E; inversion E; subst; exact Hi|].
    apply set_ownership_in_bucket_ok in H. destruct H as [_ ->]. reflexivity.
  - split; [intros t' E; discriminate|]. inversion H. reflexivity.
Qed.

(* ---------- effect of update on the flavour-independent part ---------- *)
Definition b2n (b : bool) : N := if b then 1 else 0.
Definition upd_core (s s' : state) (from to : option addr) (id : N) : Prop :=
  now s' = now s /\ next_id s' = next_id s /\ oper s' = oper s /\
  appr s' = match from with Some _ => arem N.eqb id (appr s) | None => appr s end /\
  (forall a, balance s' a = balance s a - b2n (oaddr_eqb from (Some a)) + b2n (oaddr_eqb to (Some a))) /\
  same_enum s s'.

Lemma mark_fields s id :
  now (mark s id) = now s /\ next_id (mark s id) = next_id s /\ owner (mark s id) = owner s /\
  bal (mark s id) = bal s /\ appr (mark s id) = appr s /\ oper (mark s id) = oper s /\
  burned (mark s id) = burned s /\ same_enum s (mark s id).
Proof. unfold mark. destruct (memN id (marks s)); repeat split. Qed.
Lemma after_prev_fields s f id :
  now (after_prev s f id) = now s /\ next_id (after_prev s f id) = next_id s /\
  bal (after_prev s f id) = bal s /\ appr (after_prev s f id) = appr s /\ oper (after_prev s f id) = oper s /\
  burned (after_prev s f id) = burned s /\ same_enum s (after_prev s f id).
Proof.
  unfold after_prev. destruct (prev_needs s id); [|repeat split].
  destruct (mark_fields (set_owner s (aset N.eqb (id - 1) f (owner s))) (id - 1)) as (?&?&?&?&?&?&?&?).
  repeat split; try assumption; apply H6.
Qed.
Lemma balance_bal s s' : bal s' = bal s -> forall a, balance s' a = balance s a.
Proof. intros E a. unfold balance. rewrite E. reflexivity. Qed.

Lemma oaddr_eqb_some a b : oaddr_eqb (Some a) (Some b) = (a =? b).
Proof. reflexivity. Qed.

Definition bget (l : list (addr * N)) (a : addr) : N := match aget N.eqb a l with Some b => b | None => 0 end.
Lemma balance_bget s a : balance s a = bget (bal s) a.
Proof. reflexivity. Qed.
Lemma bget_aset l a v b : bget (aset N.eqb a v l) b = if b =? a then v else bget l b.
Proof. unfold bget. rewrite (aget_aset N.eqb Neqb_spec). destruct (b =? a); reflexivity. Qed.

Lemma upd_core_plain_from s f to id :
  1 <= balance s f ->
  upd_core s (upd_to (upd_from s f id) to id) (Some f) to id.
Proof.
  intros Hb. unfold upd_core. rewrite balance_bget in Hb.
  destruct to as [t|]; cbn [upd_to upd_from now next_id oper appr set_owner set_bal set_appr].
  - repeat split. intros a. rewrite !balance_bget.
    cbn [upd_to upd_from bal set_owner set_bal set_appr]. rewrite !bget_aset. rewrite ?balance_bget.
    rewrite !oaddr_eqb_some. rewrite (N.eqb_sym f a), (N.eqb_sym t a).
    destruct (a =? t) eqn:E1, (a =? f) eqn:E2; cbn [b2n];
      try (apply N.eqb_eq in E1; subst a); try (apply N.eqb_eq in E2; subst);
      rewrite ?N.eqb_refl, ?E2; lia.
  - repeat split. intros a. rewrite !balance_bget.
    cbn [upd_to upd_from bal set_owner set_bal set_appr]. rewrite !bget_aset. rewrite ?balance_bget.
    rewrite oaddr_eqb_some. rewrite (N.eqb_sym f a).
    destruct (a =? f) eqn:E; cbn [b2n oaddr_eqb]; [apply N.eqb_eq in E; subst|]; lia.
Qed.

Definition same_acct (s s' : state) : Prop :=
  now s' = now s /\ next_id s' = next_id s /\ oper s' = oper s /\ appr s' = appr s /\ bal s' = bal s /\
  same_enum s s'.
Lemma upd_core_acct s s1 s2 from to id : upd_core s s1 from to id -> same_acct s1 s2 -> upd_core s s2 from to id.
Proof.
  unfold upd_core, same_acct. intros (A&B&C&D&E&F) (A'&B'&C'&D'&E'&F').
  repeat split; try congruence;
    try (unfold same_enum in F, F'; destruct F as (f1&f2&f3&f4&f5); destruct F' as (f1'&f2'&f3'&f4'&f5'); congruence).
  intros a. rewrite <- E. rewrite !balance_bget. rewrite E'. reflexivity.
Qed.
Lemma same_core_acct s s' : same_core s s' -> same_enum s s' -> same_acct s s'.
Proof. unfold same_core, same_acct. intuition. Qed.

Lemma same_acct_trans s1 s2 s3 : same_acct s1 s2 -> same_acct s2 s3 -> same_acct s1 s3.
Proof.
  unfold same_acct, same_enum. intros (A&B&C&D&E&f1&f2&f3&f4&f5) (A'&B'&C'&D'&E'&g1&g2&g3&g4&g5).
  repeat split; congruence.
Qed.
Lemma mark_acct s id : same_acct s (mark s id).
Proof. destruct (mark_fields s id) as (A&B&C&D&E&F&G&H). unfold same_acct. repeat split; try assumption; apply H. Qed.
Lemma after_prev_acct s f id : same_acct s (after_prev s f id).
Proof. destruct (after_prev_fields s f id) as (A&B&C&D&E&F&G). unfold same_acct. repeat split; try assumption; apply G. Qed.
Lemma upd_to_acct X Y to id : same_acct X Y -> same_acct (upd_to X to id) (upd_to Y to id).
Proof.
  unfold same_acct, same_enum. intros (A&B&C&D&E&f1&f2&f3&f4&f5).
  destruct to as [t|]; cbn [upd_to now next_id oper appr bal total otok otidx gtok gtidx set_owner set_bal];
    rewrite ?balance_bget, ?E; repeat split; assumption.
Qed.
Lemma cons_upd_acct X f to id : same_acct (upd_to X to id) (cons_upd_to (after_prev X f id) to id).
Proof.
  eapply same_acct_trans; [apply upd_to_acct; apply (after_prev_acct X f id)|].
  destruct to as [t|]; cbn [cons_upd_to upd_to].
  - apply mark_acct.
  - unfold same_acct, same_enum. repeat split.
Qed.

Lemma upd_core_cons_from s f to id :
  1 <= balance s f ->
  upd_core s (cons_upd_to (after_prev (upd_from s f id) f id) to id) (Some f) to id.
Proof.
  intros Hb. eapply upd_core_acct; [apply upd_core_plain_from; exact Hb | apply cons_upd_acct].
Qed.

Lemma upd_core_mint s t id : upd_core s (upd_to s (Some t) id) None (Some t) id.
Proof.
  unfold upd_core. cbn [upd_to now next_id oper appr set_owner set_bal]. repeat split.
  intros a. rewrite !balance_bget. cbn [bal set_owner set_bal]. rewrite bget_aset, ?balance_bget.
  rewrite oaddr_eqb_some, (N.eqb_sym t a). cbn [oaddr_eqb b2n].
  destruct (a =? t) eqn:E; cbn [b2n]; [apply N.eqb_eq in E; subst|]; lia.
Qed.

(* one statement for every flavour *)
Lemma update_core fl c s from to id s' : update fl c s from to id = Ok s' ->
  (from = None -> to <> None) ->
  upd_core s s' from to id /\
  (forall f, from = Some f -> owner_of fl c s id = Some f /\ 1 <= balance s f).
Proof.
  intros H Hft. destruct from as [f|].
  - destruct fl.
    + apply update_plain_from in H; [|discriminate]. destruct H as (Ho&Hb&_&->).
      split; [apply upd_core_plain_from; exact Hb|]. intros f' E; inversion E; subst. split; assumption.
    + apply update_plain_from in H; [|discriminate]. destruct H as (Ho&Hb&_&->).
      split; [apply upd_core_plain_from; exact Hb|]. intros f' E; inversion E; subst. split; assumption.
    + apply update_cons_from in H. destruct H as (Ho&Hb&_&->).
      split; [apply upd_core_cons_from; exact Hb|]. intros f' E; inversion E; subst. split; assumption.
  - destruct to as [t|]; [|exfalso; apply Hft; reflexivity].
    split; [|intros f E; discriminate].
    destruct fl.
    + apply update_plain_mint in H; [|discriminate]. destruct H as [_ ->]. apply upd_core_mint.
    + apply update_plain_mint in H; [|discriminate]. destruct H as [_ ->]. apply upd_core_mint.
    + unfold update in H. cbn [bind] in H. inv_res H. apply increase_balance_ok in G. destruct G as [_ ->].
      apply set_ownership_in_bucket_ok in H. destruct H as [_ ->].
      eapply upd_core_acct; [apply upd_core_mint|].
      match goal with |- context [if ?b then ?A else ?B] => change (if b then A else B) with (mark A id) end.
      match goal with |- same_acct _ (mark ?S id) => destruct (mark_fields S id) as (A'&B'&C'&D'&E'&F'&G'&H') end.
      unfold same_acct. rewrite A', B', F', E', D'. cbn [upd_to]. repeat split; apply H'.
Qed.

(* ---------- temporary entries: set followed by extend_ttl(live_for, live_for) ---------- *)
Lemma tset_textend_ok {V} (hc : hostcfg) (nw : Z) (e : option (tentry V)) (v : V) (lf : Z) e2 :
  textend hc nw (tset hc nw e v) lf lf = Ok e2 ->
  exists en, e2 = Some en /\ tval en = v /\ (nw + lf <= tlive en)%Z.
Proof.
  unfold textend. rewrite Z.ltb_irrefl.
  assert (Hs : exists L, tset hc nw e v = Some {| tval := v; tlive := L |}).
  { unfold tset. destruct (tlive_at nw e); eexists; reflexivity. }
  destruct Hs as [L ->]. unfold tlive_at. cbn [tlive tval].
  destruct (L <? nw)%Z eqn:E1; [discriminate|].
  destruct (max_ttl hc - 1 <? lf)%Z; [discriminate|].
  cbn [tval tlive]. intros H.
  destruct ((L - nw <=? lf)%Z && (L <? nw + lf)%Z) eqn:E2; inversion H; subst; clear H;
    eexists; split; try reflexivity; cbn [tval tlive]; split; try reflexivity; try lia.
Qed.

Lemma approve_for_owner_ok c s o approver approved id lu s' :
  approve_for_owner c s o approver approved id lu = Ok s' ->
  ((approver =? o) || is_approved_for_all s o approver = true) /\
  ((lu = 0%Z /\ s' = set_appr s (arem N.eqb id (appr s))) \/
   (lu <> 0%Z /\ (now s <= lu)%Z /\
    exists en, tval en = (approved, lu) /\ (lu <= tlive en)%Z /\ s' = set_appr s (aset N.eqb id en (appr s)))).
Proof.
  unfold approve_for_owner. intros H. inv_res H. split; [exact G|].
  destruct (lu =? 0)%Z eqn:E.
  - apply Z.eqb_eq in E. left. inversion H. split; auto.
  - apply Z.eqb_neq in E. right. inv_res H. apply Z.leb_le in G0. split; [exact E|]. split; [exact G0|].
    apply tset_textend_ok in G1. destruct G1 as [en [-> [Hv Hl]]]. inversion H; subst.
    exists en. split; [exact Hv|]. split; [lia | reflexivity].
Qed.

Lemma approve_for_all_ok c s auths o op lu s' :
  approve_for_all c s auths o op lu = Ok s' ->
  has_auth auths o = true /\
  ((lu = 0%Z /\ s' = set_oper s (arem peqb (o, op) (oper s))) \/
   (lu <> 0%Z /\ (now s <= lu)%Z /\
    exists en, tval en = lu /\ (lu <= tlive en)%Z /\ s' = set_oper s (aset peqb (o, op) en (oper s)))).
Proof.
  unfold approve_for_all. intros H. inv_res H. split; [exact G|].
  destruct (lu =? 0)%Z eqn:E.
  - apply Z.eqb_eq in E. left. inversion H. split; auto.
  - apply Z.eqb_neq in E. right. inv_res H. apply Z.leb_le in G0. split; [exact E|]. split; [exact G0|].
    apply tset_textend_ok in G1. destruct G1 as [en [-> [Hv Hl]]]. inversion H; subst.
    exists en. split; [reflexivity|]. split; [lia | reflexivity].
Qed.

(* ---------- what a successful call does to the flavour-independent part ---------- *)
Definition mv_core (s s' : state) (nx : N) (from to : option addr) (id : N) : Prop :=
  now s' = now s /\ next_id s' = nx /\ oper s' = oper s /\
  appr s' = match from with Some _ => arem N.eqb id (appr s) | None => appr s end /\
  (forall a, balance s' a = balance s a - b2n (oaddr_eqb from (Some a)) + b2n (oaddr_eqb to (Some a))).

Lemma upd_core_mv s s' from to id : upd_core s s' from to id -> mv_core s s' (next_id s) from to id.
Proof. unfold upd_core, mv_core. intuition. Qed.
Lemma mv_core_same s s1 s2 nx from to id : mv_core s s1 nx from to id -> same_core s1 s2 -> mv_core s s2 nx from to id.
Proof.
  unfold mv_core, same_core. intros (A&B&C&D&E) (A'&B'&_&D'&E'&F'&_).
  repeat split; try congruence. intros a. rewrite <- E. rewrite !balance_bget, D'. reflexivity.
Qed.

Definition spender_ok (s : state) (sp from : addr) (id : N) : Prop :=
  sp = from \/ get_approved s id = Some sp \/ is_approved_for_all s from sp = true.
Lemma check_spender_approval_ok s sp from id u :
  check_spender_approval s sp from id = Ok u -> spender_ok s sp from id.
Proof.
  unfold check_spender_approval, spender_ok. intros H. apply guard_ok in H.
  apply orb_true_iff in H. destruct H as [H|H]; [|right; right; exact H].
  apply orb_true_iff in H. destruct H as [H|H]; [left; apply N.eqb_eq; exact H|].
  right; left. destruct (get_approved s id) as [x|]; cbn in H; [|discriminate].
  apply N.eqb_eq in H. subst. reflexivity.
Qed.

Definition exec_spec (fl : flavour) (c : cfg) (s : state) (cl : call) (s' : state) (r : option N) : Prop :=
  match cl with
  | Advance n => s' = set_now s (now s + Z.of_N n)%Z /\ r = None
  | MintSeq to =>
      fl <> FCons /\ r = Some (next_id s) /\ next_id s + 1 <= MAXU32N /\
      mv_core s s' (next_id s + 1) None (Some to) (next_id s)
  | MintId to id => fl <> FCons /\ r = None /\ mv_core s s' (next_id s) None (Some to) id
  | BatchMint to amt =>
      fl = FCons /\ amt <> 0 /\ amt <= max_batch c /\ next_id s + amt <= MAXU32N /\
      r = Some (next_id s + amt - 1) /\
      now s' = now s /\ next_id s' = next_id s + amt /\ oper s' = oper s /\ appr s' = appr s /\
      (forall a, balance s' a = balance s a + (if a =? to then amt else 0))
  | Transfer auths from to id =>
      has_auth auths from = true /\ owner_of fl c s id = Some from /\ r = None /\
      mv_core s s' (next_id s) (Some from) (Some to) id
  | TransferFrom auths sp from to id =>
      has_auth auths sp = true /\ spender_ok s sp from id /\ owner_of fl c s id = Some from /\ r = None /\
      mv_core s s' (next_id s) (Some from) (Some to) id
  | Burn auths from id =>
      has_auth auths from = true /\ owner_of fl c s id = Some from /\ r = None /\
      mv_core s s' (next_id s) (Some from) None id
  | BurnFrom auths sp from id =>
      has_auth auths sp = true /\ spender_ok s sp from id /\ owner_of fl c s id = Some from /\ r = None /\
      mv_core s s' (next_id s) (Some from) None id
  | Approve auths approver approved id lu =>
      has_auth auths approver = true /\ r = None /\
      exists o, owner_of fl c s id = Some o /\
        (approver = o \/ is_approved_for_all s o approver = true) /\
        ((lu = 0%Z /\ s' = set_appr s (arem N.eqb id (appr s))) \/
         (lu <> 0%Z /\ (now s <= lu)%Z /\
          exists en, tval en = (approved, lu) /\ (lu <= tlive en)%Z /\ s' = set_appr s (aset N.eqb id en (appr s))))
  | ApproveForAll auths o op lu =>
      has_auth auths o = true /\ r = None /\
      ((lu = 0%Z /\ s' = set_oper s (arem peqb (o, op) (oper s))) \/
       (lu <> 0%Z /\ (now s <= lu)%Z /\
        exists en, tval en = lu /\ (lu <= tlive en)%Z /\ s' = set_oper s (aset peqb (o, op) en (oper s))))
  end.

Lemma move_spec fl c s from to id x s' (efix : state -> res state) :
  update fl c s (Some from) to id = Ok x ->
  efix x = Ok s' -> (forall a b, efix a = Ok b -> same_core a b) ->
  owner_of fl c s id = Some from /\ mv_core s s' (next_id s) (Some from) to id.
Proof.
  intros Hu He Hc. apply update_core in Hu; [|discriminate]. destruct Hu as [Hu Ho].
  destruct (Ho from eq_refl) as [Ho1 _]. split; [exact Ho1|].
  eapply mv_core_same; [apply upd_core_mv; exact Hu | eapply Hc; exact He].
Qed.

Lemma exec_ok fl c s cl s' r : exec fl c s cl = Ok (s', r) -> exec_spec fl c s cl s' r.
Proof.
  intros H. destruct cl; cbn [exec exec_spec] in *.
  - inversion H. split; reflexivity.
  - (* MintSeq *)
    assert (Hf : fl <> FCons) by (intros ->; discriminate).
    assert (H' : (do '(s1, id) <- increment_token_id s 1;
                  do s2 <- update fl c s1 None (Some to) id;
                  do s3 <- enum_after_mint fl s2 to id; Ok (s3, Some id)) = Ok (s', r))
      by (destruct fl; try exact H; exfalso; apply Hf; reflexivity).
    clear H. inv_res H'. unfold increment_token_id in G. inv_res G. apply N.leb_le in G0. subst x.
    cbv beta iota zeta in H'. inv_res H'. subst.
    split; [exact Hf|]. split; [reflexivity|]. split; [exact G0|].
    apply update_core in G; [|discriminate]. destruct G as [Hu _].
    apply upd_core_mv in Hu. cbn [next_id set_next_id] in Hu.
    apply enum_after_mint_core in G1.
    eapply mv_core_same in Hu; [|exact G1].
    unfold mv_core in *. cbn [now oper appr set_next_id] in Hu. exact Hu.
  - (* MintId *)
    assert (Hf : fl <> FCons) by (intros ->; discriminate).
    assert (H' : (do s2 <- update fl c s None (Some to) id;
                  do s3 <- enum_after_mint fl s2 to id; Ok (s3, @None N)) = Ok (s', r))
      by (destruct fl; try exact H; exfalso; apply Hf; reflexivity).
    clear H. inv_res H'. subst.
    split; [exact Hf|]. split; [reflexivity|].
    apply update_core in G; [|discriminate]. destruct G as [Hu _].
    apply upd_core_mv in Hu. apply enum_after_mint_core in G0.
    eapply mv_core_same; eassumption.
  - (* BatchMint *)
    assert (Hf : fl = FCons) by (destruct fl; try discriminate; reflexivity). subst fl.
    inv_res H. apply andb_true_iff in G. destruct G as [Ga Gb].
    apply negb_true_iff, N.eqb_neq in Ga. apply N.leb_le in Gb.
    unfold increment_token_id in G0. inv_res G0. apply N.leb_le in G. subst x.
    cbv beta iota zeta in H. inv_res H. subst.
    apply increase_balance_ok in G0. destruct G0 as [_ ->].
    apply set_ownership_in_bucket_ok in G1. destruct G1 as [_ ->].
    split; [reflexivity|]. split; [exact Ga|]. split; [exact Gb|]. split; [exact G|]. split; [reflexivity|].
    match goal with |- context [if ?b then ?A else ?B] => change (if b then A else B) with (mark A (next_id s + amount - 1)) end.
    match goal with |- context [mark ?S ?i] => destruct (mark_fields S i) as (A'&B'&C'&D'&E'&F'&G'&H'); set (M := mark S i) in * end.
    cbn [now next_id oper appr set_owner]. rewrite A', B', F', E'. cbn [now next_id oper appr set_bal set_next_id].
    repeat split. intros a. rewrite (balance_bget (set_owner M _)). cbn [bal set_owner]. rewrite D'. cbn [bal set_bal set_next_id].
    rewrite bget_aset. rewrite !balance_bget. cbn [bal set_next_id].
    destruct (a =? to) eqn:E; [apply N.eqb_eq in E; subst; reflexivity | lia].
  - (* Transfer *)
    inv_res H. subst. split; [exact G|].
    destruct (move_spec fl c s from (Some to) id _ _ (fun x => enum_after_transfer fl x from to id) G0 G1) as [A B].
    { intros a b. apply enum_after_transfer_core. }
    split; [exact A|]. split; [reflexivity | exact B].
  - (* TransferFrom *)
    inv_res H. subst. split; [exact G|]. apply check_spender_approval_ok in G0. split; [exact G0|].
    destruct (move_spec fl c s from (Some to) id _ _ (fun x => enum_after_transfer fl x from to id) G1 G2) as [A B].
    { intros a b. apply enum_after_transfer_core. }
    split; [exact A|]. split; [reflexivity | exact B].
  - (* Burn *)
    inv_res H. subst. split; [exact G|].
    destruct (move_spec fl c s from None id _ _ (fun x => enum_after_burn fl x from id) G0 G1) as [A B].
    { intros a b. apply enum_after_burn_core. }
    split; [exact A|]. split; [reflexivity | exact B].
  - (* BurnFrom *)
    inv_res H. subst. split; [exact G|]. apply check_spender_approval_ok in G0. split; [exact G0|].
    destruct (move_spec fl c s from None id _ _ (fun x => enum_after_burn fl x from id) G1 G2) as [A B].
    { intros a b. apply enum_after_burn_core. }
    split; [exact A|]. split; [reflexivity | exact B].
  - (* Approve *)
    inv_res H. subst. split; [exact G|]. split; [reflexivity|].
    exists x. split; [exact G0|]. apply approve_for_owner_ok in G1. destruct G1 as [Ha Hb].
    split; [|exact Hb].
    apply orb_true_iff in Ha. destruct Ha as [Ha|Ha]; [left; apply N.eqb_eq; exact Ha | right; exact Ha].
  - (* ApproveForAll *)
    inv_res H. subst. apply approve_for_all_ok in G. destruct G as [Ha Hb].
    split; [exact Ha|]. split; [reflexivity | exact Hb].
Qed.
