(* C05: lemmas about the observation tables of Run/C05.v (universe, tab1/tab2, fn1/fn2) and reflexivity of
   the boolean equalities. *)
From SC Require Import Lib.Prelude Lib.Int Lib.Host Model.Math Proofs.Math Model.Vault
  Proofs.VaultSpec Proofs.VaultToken Proofs.VaultOps Run.C05.
From Coq Require Import ZifyBool.

(* ---------- boolean equalities are reflexive ---------- *)
Lemma eqb_lz_refl l : eqb_lz l l = true.
Proof. induction l as [|x l IH]; cbn [eqb_lz]; [reflexivity|]. rewrite Z.eqb_refl, IH. reflexivity. Qed.
Lemma eqb_llz_refl l : eqb_llz l l = true.
Proof. induction l as [|x l IH]; cbn [eqb_llz]; [reflexivity|]. rewrite eqb_lz_refl, IH. reflexivity. Qed.
Lemma eqb_rz_refl r : eqb_rz r r = true.
Proof. destruct r; cbn; [apply Z.eqb_refl|reflexivity]. Qed.
Lemma eqb_event_refl e : eqb_event e e = true.
Proof. destruct e as [[[[[k a1] a2] a3] x] y]. cbn. rewrite !N.eqb_refl, !Z.eqb_refl. reflexivity. Qed.
Lemma eqb_events_refl l : eqb_events l l = true.
Proof. induction l as [|x l IH]; cbn [eqb_events]; [reflexivity|]. rewrite eqb_event_refl, IH. reflexivity. Qed.
Lemma eqb_out_refl o : eqb_out o o = true.
Proof. destruct o as [[v ev]|]; cbn; [|reflexivity]. rewrite Z.eqb_refl, eqb_events_refl. reflexivity. Qed.
Lemma eqb_obs_refl o : eqb_obs o o = true.
Proof. unfold eqb_obs. rewrite !eqb_lz_refl, !eqb_llz_refl, !Z.eqb_refl. reflexivity. Qed.
Lemma eqb_pre_refl p : eqb_pre p p = true.
Proof. unfold eqb_pre. rewrite !eqb_rz_refl. reflexivity. Qed.
Lemma eqb_lz_of_eq a b : a = b -> eqb_lz a b = true.
Proof. intros ->. apply eqb_lz_refl. Qed.
Lemma eqb_llz_of_eq a b : a = b -> eqb_llz a b = true.
Proof. intros ->. apply eqb_llz_refl. Qed.
Lemma eqb_rz_of_eq a b : a = b -> eqb_rz a b = true.
Proof. intros ->. apply eqb_rz_refl. Qed.

(* ---------- the universe ---------- *)
Lemma in_univ n k : In k (univ n) -> (k < n)%N.
Proof.
  unfold univ. intros H. apply in_map_iff in H. destruct H as (i & <- & Hi).
  apply in_seq in Hi. lia.
Qed.

Lemma nth_univ {A} (g : addr -> A) (d : A) n k : (k < n)%N -> nth (N.to_nat k) (map g (univ n)) d = g k.
Proof.
  intros Hk. unfold univ. rewrite map_map.
  rewrite (nth_indep _ d (g (N.of_nat 0))) by (rewrite map_length, seq_length; lia).
  rewrite (map_nth (fun i => g (N.of_nat i)) (seq 0 (N.to_nat n)) 0%nat).
  rewrite seq_nth by lia. cbn [plus]. rewrite N2Nat.id. reflexivity.
Qed.

Lemma fn1_tab1 n g k : (k < n)%N -> fn1 (tab1 n g) k = g k.
Proof. intros Hk. unfold fn1, tab1. apply nth_univ; exact Hk. Qed.
Lemma fn2_tab2 n g o s : (o < n)%N -> (s < n)%N -> fn2 (tab2 n g) o s = g o s.
Proof.
  intros Ho Hs. unfold fn2, tab2. rewrite (nth_univ (fun o => map (g o) (univ n)) [] n o Ho).
  apply nth_univ; exact Hs.
Qed.

Lemma tab1_ext n g h : (forall k, (k < n)%N -> g k = h k) -> tab1 n g = tab1 n h.
Proof. intros H. unfold tab1. apply map_ext_in. intros k Hk. apply H. apply in_univ; exact Hk. Qed.
Lemma tab2_ext n g h : (forall o s, (o < n)%N -> (s < n)%N -> g o s = h o s) -> tab2 n g = tab2 n h.
Proof.
  intros H. unfold tab2. apply map_ext_in. intros o Ho. apply map_ext_in. intros s Hs.
  apply H; apply in_univ; assumption.
Qed.

(* ---------- expected tables computed from observed ones agree with the model's maps ---------- *)
Lemma tab1_move n g f t x : tab1 n (move (fn1 (tab1 n g)) f t x) = tab1 n (move g f t x).
Proof.
  apply tab1_ext. intros k Hk. unfold move, upd.
  destruct (N.eqb k t) eqn:Ekt.
  - apply N.eqb_eq in Ekt. subst t. destruct (N.eqb k f) eqn:Ekf.
    + apply N.eqb_eq in Ekf. subst f. rewrite fn1_tab1 by exact Hk. reflexivity.
    + rewrite fn1_tab1 by exact Hk. reflexivity.
  - destruct (N.eqb k f) eqn:Ekf.
    + apply N.eqb_eq in Ekf. subst f. rewrite fn1_tab1 by exact Hk. reflexivity.
    + apply fn1_tab1; exact Hk.
Qed.

Lemma tab1_upd_add n g r d : tab1 n (upd (fn1 (tab1 n g)) r (fn1 (tab1 n g) r + d)) = tab1 n (upd g r (g r + d)).
Proof.
  apply tab1_ext. intros k Hk. unfold upd. destruct (N.eqb k r) eqn:E.
  - apply N.eqb_eq in E. subst r. rewrite fn1_tab1 by exact Hk. reflexivity.
  - apply fn1_tab1; exact Hk.
Qed.
Lemma tab1_upd_sub n g r d : tab1 n (upd (fn1 (tab1 n g)) r (fn1 (tab1 n g) r - d)) = tab1 n (upd g r (g r - d)).
Proof.
  apply tab1_ext. intros k Hk. unfold upd. destruct (N.eqb k r) eqn:E.
  - apply N.eqb_eq in E. subst r. rewrite fn1_tab1 by exact Hk. reflexivity.
  - apply fn1_tab1; exact Hk.
Qed.

Lemma tab2_spent n g o f x : tab2 n (spent o f x (fn2 (tab2 n g))) = tab2 n (spent o f x g).
Proof.
  apply tab2_ext. intros o' s' Ho Hs. unfold spent. rewrite fn2_tab2 by assumption. reflexivity.
Qed.

(* ---------- the model's observations are well shaped ---------- *)
Lemma univ_length n : N.of_nat (length (univ n)) = n.
Proof. unfold univ. rewrite map_length, seq_length. apply N2Nat.id. Qed.
Lemma len_is_map {A B} n (f : A -> B) l : len_is n (map f l) = len_is n l.
Proof. unfold len_is. rewrite map_length. reflexivity. Qed.
Lemma len_is_univ n : len_is n (univ n) = true.
Proof. unfold len_is. rewrite univ_length. apply N.eqb_refl. Qed.
Lemma tab2_rows n g : forallb (len_is n) (tab2 n g) = true.
Proof.
  unfold tab2. apply forallb_forall. intros r Hr. apply in_map_iff in Hr. destruct Hr as (o & <- & _).
  rewrite len_is_map. apply len_is_univ.
Qed.
Lemma obs_shape_observe c n s : obs_shape n (observe c n s) = true.
Proof.
  unfold obs_shape. cbn [observe o_ab o_sb o_aal o_sal].
  rewrite !len_is_map, len_is_univ. cbn [andb].
  change (map (fun o => map (allowance (now s) (asset s) o) (univ n)) (univ n)) with (tab2 n (allowance (now s) (asset s))).
  change (map (fun o => map (allowance (now s) (share s) o) (univ n)) (univ n)) with (tab2 n (allowance (now s) (share s))).
  rewrite !tab2_rows. reflexivity.
Qed.
